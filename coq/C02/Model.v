(* C02 — executable op table of the sixteen scalar types of pbenner/autodiff.

   Hand-written model (DESIGN §1.2 H) of the VALUE computation of
     scalar_template_math.in / scalar_real_template_math.in  (generic methods),
     scalar_template_math_concrete.in / scalar_real_template_math_concrete.in,
     scalar_template.in / scalar_real_template.in / scalar_const_template.in
       (getters, Set, Reset, SetFloat64, ConvertScalar/ConvertConstScalar/ConvertMagicScalar),
     scalar.go (NewScalar/NewConstScalar/NullScalar and the two registries).
   It is written ONCE over a carrier record [Car A]:
     A = float  (bit-exact replay; transcendental fields answer from a per-case oracle table),
     A = XR     (theorems; the named real functions).
   Storage of a value in a scalar type is the hook [store]: identity for float64,
   round-to-binary32 ([cr32]) for Float32/Real32, truncation toward zero for the
   integer types (Go float64->intK conversion, defined only when the truncated
   value fits; otherwise the result is [Excl]: excluded and counted).
   No proofs in this file. *)
From Coq Require Import ZArith List Bool.
Import ListNotations.
Open Scope Z_scope.

(* ------------------------------------------------------------------ types *)
Inductive base := BF64 | BF32 | BI8 | BI16 | BI32 | BI64 | BInt.
Inductive ty :=
  | TFloat64 | TFloat32 | TReal64 | TReal32
  | TInt8 | TInt16 | TInt32 | TInt64 | TInt
  | TCFloat64 | TCFloat32 | TCInt8 | TCInt16 | TCInt32 | TCInt64 | TCInt.

Definition base_of (t : ty) : base :=
  match t with
  | TFloat64 | TReal64 | TCFloat64 => BF64
  | TFloat32 | TReal32 | TCFloat32 => BF32
  | TInt8 | TCInt8 => BI8 | TInt16 | TCInt16 => BI16 | TInt32 | TCInt32 => BI32
  | TInt64 | TCInt64 => BI64 | TInt | TCInt => BInt
  end.
Definition is_real (t : ty) : bool := match t with TReal64 | TReal32 => true | _ => false end.
Definition is_const (t : ty) : bool :=
  match t with TCFloat64 | TCFloat32 | TCInt8 | TCInt16 | TCInt32 | TCInt64 | TCInt => true | _ => false end.
(* SCALAR_CONST of the receiver's header file *)
Definition const_of (t : ty) : ty :=
  match base_of t with
  | BF64 => TCFloat64 | BF32 => TCFloat32 | BI8 => TCInt8 | BI16 => TCInt16
  | BI32 => TCInt32 | BI64 => TCInt64 | BInt => TCInt end.
Definition ty_eqb (a b : ty) : bool :=
  match a, b with
  | TFloat64, TFloat64 | TFloat32, TFloat32 | TReal64, TReal64 | TReal32, TReal32
  | TInt8, TInt8 | TInt16, TInt16 | TInt32, TInt32 | TInt64, TInt64 | TInt, TInt
  | TCFloat64, TCFloat64 | TCFloat32, TCFloat32 | TCInt8, TCInt8 | TCInt16, TCInt16
  | TCInt32, TCInt32 | TCInt64, TCInt64 | TCInt, TCInt => true
  | _, _ => false end.

(* bit width of an integer base (Go int is 64 bit on the supported platform); 0 for floats *)
Definition bits (b : base) : Z :=
  match b with BI8 => 8 | BI16 => 16 | BI32 => 32 | BI64 => 64 | BInt => 64 | _ => 0 end.
Definition is_fbase (b : base) : bool := match b with BF64 | BF32 => true | _ => false end.

(* k-bit two's complement wrap-around *)
Definition wrap (k z : Z) : Z := (z + 2 ^ (k - 1)) mod 2 ^ k - 2 ^ (k - 1).
Definition inrange (k z : Z) : bool := (- 2 ^ (k - 1) <=? z) && (z <? 2 ^ (k - 1)).

(* ------------------------------------------------------------------ results *)
Inductive res (X : Type) :=
  | Val (x : X)
  | Panic            (* Go run-time panic (integer division by zero, dimension mismatch, unregistered type) *)
  | Excl             (* float->int conversion of NaN / out-of-range value: implementation-defined in Go, excluded *)
  | NilRet.          (* the method returned nil without touching the receiver *)
Arguments Val {X}. Arguments Panic {X}. Arguments Excl {X}. Arguments NilRet {X}.
Definition bind {X Y} (m : res X) (f : X -> res Y) : res Y :=
  match m with Val x => f x | Panic => Panic | Excl => Excl | NilRet => NilRet end.
Notation "x <- m ;; f" := (bind m (fun x => f)) (at level 61, m at next level, right associativity).

(* ------------------------------------------------------------------ carrier *)
Inductive lit := L0 | L1 | L2 | Lhalf | Lm37 | L18 | L33_3.
Inductive ufn := FExp | FLog | FLog1p | FSin | FCos | FTan | FSinh | FCosh | FTanh
               | FErf | FErfc | FLogErfc | FGamma | FSqrt.
Inductive pfn := PMlgamma | PGammaP | PBesselI | PLogBesselI.

Record Car (A : Type) := mkCar {
  clit : lit -> A;
  cadd : A -> A -> A; csub : A -> A -> A; cmul : A -> A -> A; cdiv : A -> A -> A;
  cneg : A -> A; cabs : A -> A;
  cltb : A -> A -> bool; cleb : A -> A -> bool; ceqb : A -> A -> bool;
  cisnan : A -> bool; cisinf : A -> Z -> bool;     (* math.IsInf(x, sign) *)
  cinf : Z -> A;                                     (* math.Inf(sign) *)
  cnan : A;
  cofZ64 : Z -> A;                                   (* float64(intK) *)
  cofZ32 : Z -> A;                                   (* float32(intK), one rounding *)
  cr32 : A -> A;                                     (* float32(float64) *)
  ctoZ : A -> option Z;                              (* truncation toward zero; None for NaN/Inf *)
  cfn : ufn -> A -> A;                               (* math.Exp ... math.Sqrt, special.LogErfc *)
  clgamma : A -> A; clgsign : A -> Z;                (* math.Lgamma *)
  cpow : A -> A -> A;                                (* math.Pow *)
  cpfn : pfn -> A -> A -> A                          (* special.Mlgamma(x,k) / GammaP(a,x) / BesselI(v,x) / LogBesselI(v,x): (parameter, x) *)
}.
Arguments clit {A}. Arguments cadd {A}. Arguments csub {A}. Arguments cmul {A}. Arguments cdiv {A}.
Arguments cneg {A}. Arguments cabs {A}. Arguments cltb {A}. Arguments cleb {A}. Arguments ceqb {A}.
Arguments cisnan {A}. Arguments cisinf {A}. Arguments cinf {A}. Arguments cnan {A}.
Arguments cofZ64 {A}. Arguments cofZ32 {A}. Arguments cr32 {A}. Arguments ctoZ {A}.
Arguments cfn {A}. Arguments clgamma {A}. Arguments clgsign {A}. Arguments cpow {A}. Arguments cpfn {A}.

(* ------------------------------------------------------------------ values *)
Inductive sval (A : Type) := VF (x : A) | VI (z : Z).
Arguments VF {A}. Arguments VI {A}.
Definition sc (A : Type) := (ty * sval A)%type.      (* a scalar: dynamic type and stored value *)

Inductive aop := OAdd | OSub | OMul | ODiv.
Inductive rel := RGt | RLt.

Section Ops.
Context {A : Type} (C : Car A).

(* ---- getters of scalar_template.in: SCALAR_TYPE -> requested type *)
Definition getf64 (v : sval A) : A := match v with VF x => x | VI z => cofZ64 C z end.
Definition getf32 (v : sval A) : A := match v with VF x => cr32 C x | VI z => cofZ32 C z end.
Definition f2i (k : Z) (x : A) : res Z :=
  match ctoZ C x with Some z => if inrange k z then Val z else Excl | None => Excl end.
Definition geti (k : Z) (v : sval A) : res Z :=
  match v with VF x => f2i k x | VI z => Val (wrap k z) end.
(* GET_METHOD_NAME of a type with base b, applied to a stored value *)
Definition get (b : base) (v : sval A) : res (sval A) :=
  match b with
  | BF64 => Val (VF (getf64 v))
  | BF32 => Val (VF (getf32 v))
  | _ => z <- geti (bits b) v ;; Val (VI z)
  end.
(* setFloat64: *ptr = SCALAR_TYPE(v) *)
Definition store (b : base) (x : A) : res (sval A) :=
  match b with
  | BF64 => Val (VF x)
  | BF32 => Val (VF (cr32 C x))
  | _ => z <- f2i (bits b) x ;; Val (VI z)
  end.
Definition zero_of (b : base) : sval A := if is_fbase b then VF (clit C L0) else VI 0.   (* Reset / NULL_SCALAR *)
Definition one_c (t : ty) : sc A := (const_of t, if is_fbase (base_of t) then VF (clit C L1) else VI 1).   (* SCALAR_CONST(1.0) *)
Definition two_c (t : ty) : sc A := (const_of t, if is_fbase (base_of t) then VF (clit C L2) else VI 2).   (* SCALAR_CONST(2.0) *)
Definition half_c : sc A := (TCFloat64, VF (clit C Lhalf)).                                              (* ConstFloat64(0.5) *)

Definition fop (o : aop) : A -> A -> A :=
  match o with OAdd => cadd C | OSub => csub C | OMul => cmul C | ODiv => cdiv C end.
Definition iop (k : Z) (o : aop) (x y : Z) : res (sval A) :=
  match o with
  | OAdd => Val (VI (wrap k (x + y)))
  | OSub => Val (VI (wrap k (x - y)))
  | OMul => Val (VI (wrap k (x * y)))
  | ODiv => if y =? 0 then Panic else Val (VI (wrap k (Z.quot x y)))
  end.

(* c.Add(a,b) / Sub / Mul / Div for a receiver of type t.
   bare types: operands read through the receiver's getter, arithmetic in SCALAR_TYPE;
   Real types: operands read through GetFloat64, arithmetic in float64, stored by setFloat64. *)
Definition arith (t : ty) (o : aop) (a b : sval A) : res (sval A) :=
  if is_real t then store (base_of t) (fop o (getf64 a) (getf64 b))
  else match base_of t with
       | BF64 => Val (VF (fop o (getf64 a) (getf64 b)))
       | BF32 => Val (VF (cr32 C (fop o (getf32 a) (getf32 b))))
       | bb => x <- geti (bits bb) a ;; y <- geti (bits bb) b ;; iop (bits bb) o x y
       end.
Definition neg (t : ty) (a : sval A) : res (sval A) :=
  if is_real t then store (base_of t) (cneg C (getf64 a))
  else match base_of t with
       | BF64 => Val (VF (cneg C (getf64 a)))
       | BF32 => Val (VF (cneg C (getf32 a)))
       | bb => x <- geti (bits bb) a ;; Val (VI (wrap (bits bb) (- x)))
       end.
(* a.GET() > b.GET()  /  a.GET() < b.GET()  with the getter of type t *)
Definition cmp (t : ty) (r : rel) (a b : sval A) : res bool :=
  match base_of t with
  | BF64 => Val (match r with RGt => cltb C (getf64 b) (getf64 a) | RLt => cltb C (getf64 a) (getf64 b) end)
  | BF32 => Val (match r with RGt => cltb C (getf32 b) (getf32 a) | RLt => cltb C (getf32 a) (getf32 b) end)
  | bb => x <- geti (bits bb) a ;; y <- geti (bits bb) b ;;
         Val (match r with RGt => y <? x | RLt => x <? y end)
  end.
Definition set (t : ty) (a : sval A) : res (sval A) := get (base_of t) a.     (* r.Set(a) *)
(* a.Sign(): own value read through the own getter and compared with SCALAR_TYPE(0) *)
Definition sign (a : sc A) : res Z :=
  let t := fst a in
  lt <- cmp t RLt (snd a) (zero_of (base_of t)) ;;
  if lt then Val (-1) else
  gt <- cmp t RGt (snd a) (zero_of (base_of t)) ;;
  if gt then Val 1 else Val 0.
(* Equals: the template's  #if SCALAR_TYPE == float32 || SCALAR_TYPE == float64  compares two
   identifiers unknown to cpp (0 == 0), so EVERY type, also the integer ones, got the float64 branch *)
Definition equals (a b : sc A) (eps : A) : res bool :=
  let v1 := getf64 (snd a) in let v2 := getf64 (snd b) in
  Val (cltb C (cabs C (csub C v1 v2)) eps
       || (cisnan C v1 && cisnan C v2)
       || (cisinf C v1 1 && cisinf C v2 1)
       || (cisinf C v1 (-1) && cisinf C v2 (-1))).

Definition min_ (t : ty) (a b : sval A) : res (sval A) :=
  lt <- cmp t RLt a b ;; if lt then set t a else set t b.
Definition max_ (t : ty) (a b : sval A) : res (sval A) :=
  gt <- cmp t RGt a b ;; if gt then set t a else set t b.
(* generic Abs: switch a.Sign() { -1: c.Neg(a); 0: c.Reset(); 1: c.Set(a) } *)
Definition abs_ (t : ty) (a : sc A) : res (sval A) :=
  s <- sign a ;;
  if s =? -1 then neg t (snd a) else if s =? 0 then Val (zero_of (base_of t)) else set t (snd a).
(* concrete ABS (since fix 2fc8894): switch a.Sign() { -1: c.NEG(a); 0: c.Reset(); 1: c.SET(a) } with a of the
   receiver's own type — the same three cases as the generic Abs.  [cold] (the receiver's previous value; the
   pre-fix code switched on ITS sign) is still supplied by the harness and must be irrelevant. *)
Definition ABS_ (t : ty) (cold : sval A) (a : sval A) : res (sval A) := abs_ t (t, a).

(* elementary math.* methods: x := a.GetFloat64(); c.SetFloat64(f(x)) — identical value path for Real types *)
Definition un (t : ty) (f : ufn) (a : sval A) : res (sval A) := store (base_of t) (cfn C f (getf64 a)).
Definition lgamma (t : ty) (a : sval A) : res (sval A) :=
  let x := getf64 a in
  store (base_of t) (if clgsign C x =? -1 then cnan C else clgamma C x).
Definition pow (t : ty) (a k : sval A) : res (sval A) := store (base_of t) (cpow C (getf64 a) (getf64 k)).
Definition sqrt_ (t : ty) (a : sval A) : res (sval A) := pow t a (snd half_c).       (* c.Pow(a, ConstFloat64(0.5)) *)
(* concrete SQRT: bare types call math.Sqrt, Real types math.Pow(x, 0.5) *)
Definition SQRT_ (t : ty) (a : sval A) : res (sval A) :=
  if is_real t then store (base_of t) (cpow C (getf64 a) (clit C Lhalf)) else un t FSqrt a.
Definition par (t : ty) (f : pfn) (p : A) (a : sval A) : res (sval A) :=
  store (base_of t) (cpfn C f p (getf64 a)).

(* ---- composite programs *)
Definition logadd (tc tq : ty) (a b : sc A) : res (sval A) :=
  g <- cmp (fst a) RGt (snd a) (snd b) ;;
  let a' := if g then b else a in
  let b' := if g then a else b in
  if cisinf C (getf64 (snd a')) 0 then set tc (snd b')
  else
    t <- arith tq OSub (snd a') (snd b') ;;
    t <- un tq FExp t ;;
    t <- un tq FLog1p t ;;
    arith tc OAdd t (snd b').
Definition logsub (tc tq : ty) (a b : sc A) : res (sval A) :=
  if cisinf C (getf64 (snd b)) (-1) then set tc (snd a)
  else
    t <- arith tq OSub (snd b) (snd a) ;;
    t <- un tq FExp t ;;
    t <- neg tq t ;;
    t <- un tq FLog1p t ;;
    arith tc OAdd t (snd a).
Definition log1pexp (tc : ty) (a : sval A) : res (sval A) :=
  let v := getf64 a in
  if cleb C v (clit C Lm37) then un tc FExp a
  else if cleb C v (clit C L18) then (c <- un tc FExp a ;; un tc FLog1p c)
  else if cleb C v (clit C L33_3) then
    (* since fix 7035970: t := NewScalar(c.Type(), 0.0); t.Neg(a); t.Exp(t); c.Add(a, t) — the temporary has the
       RECEIVER's type (an integer receiver truncates e^-x to 0), the final sum is a + t in this operand order *)
    (t <- neg tc a ;; t <- un tc FExp t ;; arith tc OAdd a t)
  else set tc a.
Definition sigmoid (tc tq : ty) (a : sval A) : res (sval A) :=
  if cleb C (clit C L0) (getf64 a) then
    c <- neg tc a ;; c <- un tc FExp c ;; c <- arith tc OAdd c (snd (one_c tc)) ;;
    arith tc ODiv (snd (one_c tc)) c
  else
    t <- un tq FExp a ;; c <- set tc t ;; t <- arith tq OAdd t (snd (one_c tc)) ;;
    arith tc ODiv c t.
Definition logistic (tc : ty) (a : sval A) : res (sval A) :=
  c <- neg tc a ;; c <- un tc FExp c ;; c <- arith tc OAdd (snd (one_c tc)) c ;;
  arith tc ODiv (snd (one_c tc)) c.

(* ---- vector / matrix reductions; elements are passed as stored values *)
Fixpoint smoothmax_loop (tr t0 t1 : ty) (alpha : sval A) (xs : list (sval A)) (r s1 : sval A) : res (sval A * sval A) :=
  match xs with
  | [] => Val (r, s1)
  | x :: xs' =>
      u <- arith t0 OMul alpha x ;;
      u <- un t0 FExp u ;;
      s1 <- arith t1 OAdd s1 u ;;
      u <- arith t0 OMul u x ;;
      r <- arith tr OAdd r u ;;
      smoothmax_loop tr t0 t1 alpha xs' r s1
  end.
Definition smoothmax (tr t0 t1 : ty) (xs : list (sval A)) (alpha : sval A) : res (sval A) :=
  p <- smoothmax_loop tr t0 t1 alpha xs (zero_of (base_of tr)) (zero_of (base_of t1)) ;;
  arith tr ODiv (fst p) (snd p).

Fixpoint logsmoothmax_loop (tr t0 t1 t2 : ty) (tx : ty) (alpha : sval A) (xs : list (sval A)) (r s2 : sval A)
  : res (sval A * sval A) :=
  match xs with
  | [] => Val (r, s2)
  | x :: xs' =>
      u <- arith t0 OMul x alpha ;;
      s2 <- logadd t2 t1 (t2, s2) (t0, u) ;;
      l <- un t1 FLog x ;;
      u <- arith t0 OAdd u l ;;
      r <- logadd tr t1 (tr, r) (t0, u) ;;
      logsmoothmax_loop tr t0 t1 t2 tx alpha xs' r s2
  end.
Definition logsmoothmax (tr t0 t1 t2 tx : ty) (xs : list (sval A)) (alpha : sval A) : res (sval A) :=
  r <- store (base_of tr) (cinf C (-1)) ;;
  s2 <- store (base_of t2) (cinf C (-1)) ;;
  p <- logsmoothmax_loop tr t0 t1 t2 tx alpha xs r s2 ;;
  r <- arith tr OSub (fst p) (snd p) ;;
  un tr FExp r.

Fixpoint sum_loop (tr : ty) (xs : list (sval A)) (r : sval A) : res (sval A) :=
  match xs with [] => Val r | x :: xs' => r <- arith tr OAdd r x ;; sum_loop tr xs' r end.
(* SCALAR_CONST(float64(a.Dim())) *)
Definition dim_c (t : ty) (n : Z) : sval A := if is_fbase (base_of t) then VF (cofZ64 C n) else VI n.
Definition vmean (tr : ty) (xs : list (sval A)) : res (sval A) :=
  r <- sum_loop tr xs (zero_of (base_of tr)) ;;
  arith tr ODiv r (dim_c tr (Z.of_nat (length xs))).
Fixpoint vdotv_loop (tr : ty) (xs ys : list (sval A)) (r : sval A) : res (sval A) :=
  match xs, ys with
  | x :: xs', y :: ys' => t <- arith tr OMul x y ;; r <- arith tr OAdd r t ;; vdotv_loop tr xs' ys' r
  | _, _ => Val r
  end.
Definition vdotv (tr : ty) (xs ys : list (sval A)) : res (sval A) :=
  if negb (Nat.eqb (length xs) (length ys)) then Panic
  else vdotv_loop tr xs ys (zero_of (base_of tr)).
Fixpoint sumsq_loop (tr : ty) (xs : list (sval A)) (r : sval A) : res (sval A) :=
  match xs with
  | [] => Val r
  | x :: xs' => t <- pow tr x (snd (two_c tr)) ;; r <- arith tr OAdd r t ;; sumsq_loop tr xs' r
  end.
Definition vnorm (tr : ty) (xs : list (sval A)) : res (sval A) :=
  r <- sumsq_loop tr xs (zero_of (base_of tr)) ;; sqrt_ tr r.
(* matrices: n rows, m columns, elements row-major *)
Fixpoint diag (m : nat) (i : nat) (n : nat) (xs : list (sval A)) : list (sval A) :=
  match n with O => [] | S n' => nth (i * m + i) xs (VI 0) :: diag m (S i) n' xs end.
Definition mtrace (tr : ty) (n m : nat) (xs : list (sval A)) : res (sval A) :=
  if negb (Nat.eqb n m) then Panic
  else if Nat.eqb n 0 then NilRet
  else sum_loop tr (diag m 0 n xs) (zero_of (base_of tr)).
(* Mnorm: r.Pow(a00, 2); then for the other elements t.Pow(aij, 2); r.Add(r, t).  No square root. *)
Definition mnorm (tr : ty) (n m : nat) (xs : list (sval A)) : res (sval A) :=
  if Nat.eqb n 0 || Nat.eqb m 0 then NilRet
  else match xs with
       | [] => NilRet
       | x :: xs' => r <- pow tr x (snd (two_c tr)) ;; sumsq_loop tr xs' r
       end.

(* ---- registries and conversions (scalar.go, scalar_*template.in) *)
Definition registered (t : ty) : bool := negb (is_const t).            (* scalarRegistry: the nine non-const types *)
Definition const_registered (t : ty) : bool := is_const t.            (* constScalarRegistry *)
Definition new_scalar (t : ty) (x : A) : res (sc A) :=
  if registered t then v <- store (base_of t) x ;; Val (t, v) else Panic.
(* NewConstScalar looks the type up in scalarRegistry (not constScalarRegistry) *)
Definition new_const_scalar (t : ty) (x : A) : res (sc A) :=
  if registered t then v <- store (base_of t) x ;; Val (t, v) else Panic.
Definition null_scalar (t : ty) : res (sc A) := new_scalar t (clit C L0).
Definition convert_scalar (a : sc A) (t : ty) : res (sc A) :=
  if ty_eqb t (fst a) then Val a
  else r <- null_scalar t ;; v <- set t (snd a) ;; Val (t, v).
Definition convert_const_scalar (a : sc A) (t : ty) : res (sc A) :=
  if ty_eqb t (fst a) then Val a else new_const_scalar t (getf64 (snd a)).
(* Real types only: r := NullScalar(t); r.Set(a); return a *)
Definition convert_magic_scalar (a : sc A) (t : ty) : res (sc A) :=
  if ty_eqb t (fst a) then Val a
  else r <- null_scalar t ;; v <- set t (snd a) ;; Val a.

(* ------------------------------------------------------------------ the op table *)
Inductive uop := UNeg | UAbs | USqrt | USQRT | ULog1pExp | ULogistic | ULgamma | USet | UFn (f : ufn).
Inductive bop := BArith (o : aop) | BPow | BMin | BMax.
Inductive call :=
  | CUn (o : uop) (tc : ty) (a : sc A)
  | CBin (o : bop) (tc : ty) (a b : sc A)
  | CABS (tc : ty) (cold : sval A) (a : sc A)
  | CPar (f : pfn) (tc : ty) (p : A) (a : sc A)
  | CLogAdd (tc tq : ty) (a b : sc A)
  | CLogSub (tc tq : ty) (a b : sc A)
  | CSigmoid (tc tq : ty) (a : sc A)
  | CCmp (r : rel) (a b : sc A)
  | CEquals (a b : sc A) (eps : A)
  | CSign (a : sc A)
  | CSmoothMax (tr t0 t1 : ty) (xs : list (sval A)) (alpha : A)
  | CLogSmoothMax (tr t0 t1 t2 tx : ty) (xs : list (sval A)) (alpha : A)
  | CVmean (tr : ty) (xs : list (sval A))
  | CVdotV (tr : ty) (xs ys : list (sval A))
  | CVnorm (tr : ty) (xs : list (sval A))
  | CMtrace (tr : ty) (n m : nat) (xs : list (sval A))
  | CMnorm (tr : ty) (n m : nat) (xs : list (sval A))
  | CConvS (a : sc A) (t : ty)
  | CConvC (a : sc A) (t : ty)
  | CConvM (a : sc A) (t : ty)
  | CNewS (t : ty) (x : A)
  | CNewC (t : ty) (x : A).

Inductive obs := OVal (t : ty) (v : sval A) | OBool (b : bool) | OInt (z : Z) | OPanic | OExcl | ONil.

Definition oval (t : ty) (r : res (sval A)) : obs :=
  match r with Val v => OVal t v | Panic => OPanic | Excl => OExcl | NilRet => ONil end.
Definition osc (r : res (sc A)) : obs :=
  match r with Val a => OVal (fst a) (snd a) | Panic => OPanic | Excl => OExcl | NilRet => ONil end.
Definition obool (r : res bool) : obs :=
  match r with Val b => OBool b | Panic => OPanic | Excl => OExcl | NilRet => ONil end.
Definition oint (r : res Z) : obs :=
  match r with Val z => OInt z | Panic => OPanic | Excl => OExcl | NilRet => ONil end.

Definition run_un (o : uop) (tc : ty) (a : sc A) : res (sval A) :=
  match o with
  | UNeg => neg tc (snd a)
  | UAbs => abs_ tc a
  | USqrt => sqrt_ tc (snd a)
  | USQRT => SQRT_ tc (snd a)
  | ULog1pExp => log1pexp tc (snd a)
  | ULogistic => logistic tc (snd a)
  | ULgamma => lgamma tc (snd a)
  | USet => set tc (snd a)
  | UFn f => un tc f (snd a)
  end.
Definition run_bin (o : bop) (tc : ty) (a b : sc A) : res (sval A) :=
  match o with
  | BArith o => arith tc o (snd a) (snd b)
  | BPow => pow tc (snd a) (snd b)
  | BMin => min_ tc (snd a) (snd b)
  | BMax => max_ tc (snd a) (snd b)
  end.

Definition run (c : call) : obs :=
  match c with
  | CUn o tc a => oval tc (run_un o tc a)
  | CBin o tc a b => oval tc (run_bin o tc a b)
  | CABS tc cold a => oval tc (ABS_ tc cold (snd a))
  | CPar f tc p a => oval tc (par tc f p (snd a))
  | CLogAdd tc tq a b => oval tc (logadd tc tq a b)
  | CLogSub tc tq a b => oval tc (logsub tc tq a b)
  | CSigmoid tc tq a => oval tc (sigmoid tc tq (snd a))
  | CCmp r a b => obool (cmp (fst a) r (snd a) (snd b))
  | CEquals a b eps => obool (equals a b eps)
  | CSign a => oint (sign a)
  | CSmoothMax tr t0 t1 xs alpha => oval tr (smoothmax tr t0 t1 xs (VF alpha))
  | CLogSmoothMax tr t0 t1 t2 tx xs alpha => oval tr (logsmoothmax tr t0 t1 t2 tx xs (VF alpha))
  | CVmean tr xs => oval tr (vmean tr xs)
  | CVdotV tr xs ys => oval tr (vdotv tr xs ys)
  | CVnorm tr xs => oval tr (vnorm tr xs)
  | CMtrace tr n m xs => oval tr (mtrace tr n m xs)
  | CMnorm tr n m xs => oval tr (mnorm tr n m xs)
  | CConvS a t => osc (convert_scalar a t)
  | CConvC a t => osc (convert_const_scalar a t)
  | CConvM a t => osc (convert_magic_scalar a t)
  | CNewS t x => osc (new_scalar t x)
  | CNewC t x => osc (new_const_scalar t x)
  end.

End Ops.
