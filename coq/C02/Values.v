(* C02, round 6 — the VALUE EXPRESSIONS of the elementary scalar methods, as syntax.

   For Pow / Sqrt and their concrete twins POW / SQRT and for the thirteen math.* methods (Exp ... Gamma, EXP LOG LOG1P)
   go2coq_c02 walks the Go body of every receiver type and extracts, for EVERY return path, the float64 expression that
   ends up as the receiver's value: the argument of c.SetFloat64(..) for the bare types, the v0 argument of
   c.monadic / monadicLazy / dyadic / dyadicLazy / realMonadic.. / realDyadic.. for the Real types (locals inlined),
   together with the guards of the path (k.GetOrder() >= 1: the exponent carries derivatives).  The expected tables [V_...]
   below are what every instantiation must regenerate to (runs/C02/gen_bodies.v, by reflexivity);
   coq/C02/ProofsBodies.v proves that storing the value of every path is the op table's function of the operands.
   No proofs in this file. *)
From Coq Require Import ZArith List Bool.
From ADV Require Import C02.Model.
Import ListNotations.

Inductive vexpr :=
  | VX | VY                              (* x := a.GetFloat64(), y := k.GetFloat64() *)
  | VHalf                                (* 0.5 *)
  | VPowE (a b : vexpr)                  (* math.Pow(a, b) *)
  | VFnE (f : ufn) (a : vexpr)           (* math.Exp(a) ... special.LogErfc(a), math.Sqrt(a) *)
  | VNegE (a : vexpr)
  | VArE (o : aop) (a b : vexpr).
Inductive vguard := GOrdY (holds : bool).      (* k.GetOrder() >= 1 *)
Definition vpaths := list (list vguard * vexpr).

Section V.
Context {A : Type} (C : Car A).
Fixpoint veval (x y : A) (e : vexpr) : A :=
  match e with
  | VX => x | VY => y | VHalf => clit C Lhalf
  | VPowE a b => cpow C (veval x y a) (veval x y b)
  | VFnE f a => cfn C f (veval x y a)
  | VNegE a => cneg C (veval x y a)
  | VArE o a b => fop C o (veval x y a) (veval x y b)
  end.
(* every path stores the same thing: [want] *)
Definition all_paths_store (t : ty) (x y : A) (ps : vpaths) (want : res (sval A)) : Prop :=
  Forall (fun p => store C (base_of t) (veval x y (snd p)) = want) ps.
End V.

Definition V_un (f : ufn) : vpaths := [([], VFnE f VX)].
Definition V_Pow_bare : vpaths := [([], VPowE VX VY)].
Definition V_Pow_real : vpaths := [([GOrdY true], VPowE VX VY); ([GOrdY false], VPowE VX VY)].
Definition V_Sqrt : vpaths := [([], VPowE VX VHalf)].          (* return c.Pow(a, ConstFloat64(0.5)) *)
Definition V_SQRT_bare : vpaths := [([], VFnE FSqrt VX)].
Definition V_SQRT_real : vpaths := [([], VPowE VX VHalf)].
