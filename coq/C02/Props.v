(* C02 — every scalar type computes the mathematical function its method names.
   The theorems are about the op table coq/C02/Model.v (tied to /repo on every run by the
   bit-exact correspondence and the Coq-Interval certificates of the recorded math.* calls).
   Float theorems: carrier XR (reals + -oo, storage rounding = identity), for ALL arguments in
   the stated domain, all four float types (fty t), universally over the opaque special functions sp.
   Integer theorems: for EVERY carrier, all operands in Z. *)
From Coq Require Import Reals ZArith List Bool Lra.
From ADV Require Import Base.Num C02.Model C02.Spec C02.ProofsInt C02.ProofsReal C02.ProofsRed C02.ProofsConv C02.Ext C02.ProofsExt.
Import ListNotations.

(* ------------------------------------------------------------------ integer types *)
Open Scope Z_scope.
Notation kbits t := (bits (base_of t)).

Theorem C02_wrap_range : forall k z, 1 <= k -> - 2 ^ (k - 1) <= wrap k z < 2 ^ (k - 1).
Proof. exact wrap_range. Qed.
Theorem C02_wrap_congruent : forall k z, 1 <= k -> (wrap k z) mod 2 ^ k = z mod 2 ^ k.
Proof. exact wrap_congr. Qed.
Theorem C02_int_add : forall A (C : Car A) t x y, int_ty t ->
  arith C t OAdd (VI x) (VI y) = Val (VI (wrap (kbits t) (x + y))).
Proof. exact @int_add. Qed.
Theorem C02_int_sub : forall A (C : Car A) t x y, int_ty t ->
  arith C t OSub (VI x) (VI y) = Val (VI (wrap (kbits t) (x - y))).
Proof. exact @int_sub. Qed.
Theorem C02_int_mul : forall A (C : Car A) t x y, int_ty t ->
  arith C t OMul (VI x) (VI y) = Val (VI (wrap (kbits t) (x * y))).
Proof. exact @int_mul. Qed.
Theorem C02_int_div : forall A (C : Car A) t x y, int_ty t -> wrap (kbits t) y <> 0 ->
  arith C t ODiv (VI x) (VI y) = Val (VI (wrap (kbits t) (Z.quot (wrap (kbits t) x) (wrap (kbits t) y)))).
Proof. exact @int_div. Qed.
Theorem C02_int_div_by_zero_panics : forall A (C : Car A) t x y, int_ty t -> wrap (kbits t) y = 0 ->
  arith C t ODiv (VI x) (VI y) = Panic.
Proof. exact @int_div_zero. Qed.
Theorem C02_quot_truncates_toward_zero : forall x y, y <> 0 ->
  Z.abs (x - Z.quot x y * y) < Z.abs y /\ 0 <= (x - Z.quot x y * y) * x /\ Z.abs (Z.quot x y * y) <= Z.abs x.
Proof. exact quot_truncates. Qed.
Theorem C02_minint_div_minus_one_wraps : forall k, 1 <= k -> wrap k (Z.quot (- 2 ^ (k - 1)) (-1)) = - 2 ^ (k - 1).
Proof. exact wrap_minint_div. Qed.
Theorem C02_int_neg : forall A (C : Car A) t x, int_ty t -> neg C t (VI x) = Val (VI (wrap (kbits t) (- x))).
Proof. exact @int_neg. Qed.
Theorem C02_int_compare : forall A (C : Car A) t r x y, int_base (base_of t) ->
  cmp C t r (VI x) (VI y)
  = Val (match r with RGt => wrap (kbits t) y <? wrap (kbits t) x | RLt => wrap (kbits t) x <? wrap (kbits t) y end).
Proof. exact @int_cmp. Qed.
Theorem C02_int_min : forall A (C : Car A) t x y, int_base (base_of t) ->
  min_ C t (VI x) (VI y) = Val (VI (Z.min (wrap (kbits t) x) (wrap (kbits t) y))).
Proof. exact @int_min. Qed.
Theorem C02_int_max : forall A (C : Car A) t x y, int_base (base_of t) ->
  max_ C t (VI x) (VI y) = Val (VI (Z.max (wrap (kbits t) x) (wrap (kbits t) y))).
Proof. exact @int_max. Qed.
Theorem C02_int_sign : forall A (C : Car A) t x, int_base (base_of t) ->
  sign C (t, VI x) = Val (Z.sgn (wrap (kbits t) x)).
Proof. exact @int_sign. Qed.
Theorem C02_int_abs : forall A (C : Car A) t ta x, int_ty t -> int_base (base_of ta) ->
  wrap (kbits ta) x = x -> wrap (kbits t) x = x ->
  abs_ C t (ta, VI x) = Val (VI (wrap (kbits t) (Z.abs x))).
Proof. exact @int_abs. Qed.

Example C02_int_nonvacuous :
  int_ty TInt8 /\ int_ty TInt64 /\ int_base (base_of TCInt16)
  /\ wrap 8 (100 + 100) = -56 /\ wrap 64 (Z.quot (- 2 ^ 63) (-1)) = - 2 ^ 63 /\ Z.quot (-7) 2 = -3.
Proof. repeat split; reflexivity. Qed.

(* ------------------------------------------------------------------ float types *)
Open Scope R_scope.
Notation CX := CarX.

Theorem C02_elementary : forall sp t f x, fty t -> un (CX sp) t f (VF (Fin x)) = Val (VF (Fin (rfn sp f x))).
Proof. exact un_named. Qed.
(* the names: Erfc is 1 - erf with erf the integral, Log1p is ln(1+x), ... (definitional in Spec.rfn) *)
(* Spec.erfR x := 2 / sqrt PI * RInt (fun t => exp (- (t * t))) 0 x *)
Example C02_erfc_is_complement : forall sp x, rfn sp FErfc x = 1 - erfR x /\ rfn sp FLog1p x = ln (1 + x).
Proof. split; reflexivity. Qed.
Theorem C02_arith : forall sp t o x y, fty t ->
  arith (CX sp) t o (VF (Fin x)) (VF (Fin y))
  = Val (VF (Fin (match o with OAdd => x + y | OSub => x - y | OMul => x * y | ODiv => x / y end))).
Proof. exact arith_named. Qed.
Theorem C02_neg : forall sp t x, fty t -> neg (CX sp) t (VF (Fin x)) = Val (VF (Fin (- x))).
Proof. exact neg_named. Qed.
Theorem C02_abs : forall sp t ta x, fty t -> fty ta -> abs_ (CX sp) t (ta, VF (Fin x)) = Val (VF (Fin (Rabs x))).
Proof. exact abs_named. Qed.
Theorem C02_pow : forall sp t x y, fty t -> pow (CX sp) t (VF (Fin x)) (VF (Fin y)) = Val (VF (Fin (rpow x y))).
Proof. exact pow_named. Qed.
Theorem C02_sigmoid : forall sp tc tq x, fty tc -> fty tq ->
  sigmoid (CX sp) tc tq (VF (Fin x)) = Val (VF (Fin (/ (1 + exp (- x))))).
Proof. exact sigmoid_named. Qed.
Theorem C02_logistic : forall sp tc x, fty tc -> logistic (CX sp) tc (VF (Fin x)) = Val (VF (Fin (/ (1 + exp (- x))))).
Proof. exact logistic_named. Qed.
Theorem C02_log1pexp : forall sp tc x, fty tc ->
  exists y, log1pexp (CX sp) tc (VF (Fin x)) = Val (VF (Fin y)) /\ Rabs (y - ln (1 + exp x)) <= l1pe_err x.
Proof. exact log1pexp_named. Qed.
Theorem C02_log1pexp_error_bound : forall x, l1pe_err x <= / IZR (2 ^ 48).
Proof. exact l1pe_err_small. Qed.
Theorem C02_logadd : forall sp tc tq ta tb a b, fty tc -> fty tq -> fty ta ->
  logadd (CX sp) tc tq (ta, VF (Fin a)) (tb, VF (Fin b)) = Val (VF (Fin (ln (exp a + exp b)))).
Proof. exact logadd_named. Qed.
Theorem C02_logadd_neginf_left : forall sp tc tq ta tb b, fty tc -> fty ta ->
  logadd (CX sp) tc tq (ta, VF NegInf) (tb, VF (Fin b)) = Val (VF (Fin b)).
Proof. exact logadd_neginf_l. Qed.
Theorem C02_logadd_neginf_right : forall sp tc tq ta tb a, fty tc -> fty ta ->
  logadd (CX sp) tc tq (ta, VF (Fin a)) (tb, VF NegInf) = Val (VF (Fin a)).
Proof. exact logadd_neginf_r. Qed.
Theorem C02_logsub : forall sp tc tq ta tb a b, fty tc -> fty tq -> b < a ->
  logsub (CX sp) tc tq (ta, VF (Fin a)) (tb, VF (Fin b)) = Val (VF (Fin (ln (exp a - exp b)))).
Proof. exact logsub_named. Qed.
Theorem C02_logsub_neginf : forall sp tc tq ta tb a, fty tc ->
  logsub (CX sp) tc tq (ta, VF (Fin a)) (tb, VF NegInf) = Val (VF (Fin a)).
Proof. exact logsub_neginf. Qed.

Theorem C02_smoothmax : forall sp tr t0 t1 alpha xs, fty tr -> fty t0 -> fty t1 ->
  smoothmax (CX sp) tr t0 t1 (fins xs) (VF (Fin alpha)) = Val (VF (Fin (smoothmax_spec alpha xs))).
Proof. exact smoothmax_named. Qed.
Theorem C02_logsmoothmax : forall sp tr t0 t1 t2 tx alpha x xs,
  fty tr -> fty t0 -> fty t1 -> fty t2 -> List.Forall (fun x => 0 < x) (x :: xs) ->
  logsmoothmax (CX sp) tr t0 t1 t2 tx (fins (x :: xs)) (VF (Fin alpha)) = Val (VF (Fin (smoothmax_spec alpha (x :: xs)))).
Proof. exact logsmoothmax_named. Qed.
Theorem C02_logsmoothmax_agrees_with_smoothmax : forall sp tr t0 t1 t2 tx s0 s1 alpha x xs,
  fty tr -> fty t0 -> fty t1 -> fty t2 -> fty s0 -> fty s1 -> List.Forall (fun x => 0 < x) (x :: xs) ->
  logsmoothmax (CX sp) tr t0 t1 t2 tx (fins (x :: xs)) (VF (Fin alpha))
  = smoothmax (CX sp) tr s0 s1 (fins (x :: xs)) (VF (Fin alpha)).
Proof. exact logsmoothmax_agrees. Qed.
Theorem C02_vmean : forall sp tr xs, fty tr -> vmean (CX sp) tr (fins xs) = Val (VF (Fin (Rsum xs / INR (length xs)))).
Proof. exact vmean_named. Qed.
Theorem C02_vdotv : forall sp tr xs ys, fty tr -> length xs = length ys ->
  vdotv (CX sp) tr (fins xs) (fins ys) = Val (VF (Fin (dot xs ys))).
Proof. exact vdotv_named. Qed.
Theorem C02_vdotv_mismatch_panics : forall sp tr (xs ys : list (sval XR)), length xs <> length ys -> vdotv (CX sp) tr xs ys = Panic.
Proof. exact vdotv_mismatch. Qed.
Theorem C02_vnorm : forall sp tr xs, fty tr -> vnorm (CX sp) tr (fins xs) = Val (VF (Fin (sqrt (sumsq xs)))).
Proof. exact vnorm_named. Qed.
Theorem C02_mtrace : forall sp tr n xs, fty tr -> n <> O -> length xs = (n * n)%nat ->
  mtrace (CX sp) tr n n (fins xs) = Val (VF (Fin (Rsum (rdiag n n xs)))).
Proof. exact mtrace_named. Qed.
(* Mnorm is documented "Frobenius norm" but returns the sum of squares: known finding F-MNORM-SQRT *)
Theorem C02_mnorm_is_sum_of_squares : forall sp tr n m xs, fty tr -> n <> O -> m <> O -> xs <> [] ->
  mnorm (CX sp) tr n m (fins xs) = Val (VF (Fin (sumsq xs))).
Proof. exact mnorm_named. Qed.
Theorem C02_mnorm_frobenius_refuted : sumsq [3; 0; 0; 4] <> sqrt (sumsq [3; 0; 0; 4]).
Proof. exact mnorm_refuted_aux. Qed.

Example C02_float_nonvacuous :
  fty TFloat64 /\ fty TFloat32 /\ fty TReal64 /\ fty TReal32 /\ fty TCFloat32
  /\ List.Forall (fun x => 0 < x) [1; 2; 3] /\ (1 < 2) /\ length [1; 2] = length [3; 4] /\ length [3; 0; 0; 4] = (2 * 2)%nat.
Proof. repeat split; try reflexivity; try lra. repeat constructor; lra. Qed.

(* ------------------------------------------------------------------ derivative tracking, conversions *)
Theorem C02_real64_value_path_unary : forall A (C : Car A) o a, o <> USQRT -> run_un C o TReal64 a = run_un C o TFloat64 a.
Proof. exact @real64_run_un. Qed.
Theorem C02_real64_value_path_binary : forall A (C : Car A) o a b, run_bin C o TReal64 a b = run_bin C o TFloat64 a b.
Proof. exact @real64_run_bin. Qed.
Theorem C02_real64_value_path_logadd : forall A (C : Car A) a b, logadd C TReal64 TReal64 a b = logadd C TFloat64 TFloat64 a b.
Proof. exact @real64_logadd. Qed.
Theorem C02_real64_value_path_logsub : forall A (C : Car A) a b, logsub C TReal64 TReal64 a b = logsub C TFloat64 TFloat64 a b.
Proof. exact @real64_logsub. Qed.
Theorem C02_real64_value_path_sigmoid : forall A (C : Car A) a, sigmoid C TReal64 TReal64 a = sigmoid C TFloat64 TFloat64 a.
Proof. exact @real64_sigmoid. Qed.
Theorem C02_real64_value_path_special : forall A (C : Car A) f p a, par C TReal64 f p a = par C TFloat64 f p a.
Proof. exact @real64_par. Qed.
Theorem C02_real64_value_path_smoothmax : forall A (C : Car A) xs al,
  smoothmax C TReal64 TReal64 TReal64 xs al = smoothmax C TFloat64 TFloat64 TFloat64 xs al.
Proof. exact @real64_smoothmax. Qed.
Theorem C02_real64_value_path_vmean : forall A (C : Car A) xs, vmean C TReal64 xs = vmean C TFloat64 xs.
Proof. exact @real64_vmean. Qed.
Theorem C02_real64_value_path_vdotv : forall A (C : Car A) xs ys, vdotv C TReal64 xs ys = vdotv C TFloat64 xs ys.
Proof. exact @real64_vdotv. Qed.
Theorem C02_real64_value_path_vnorm : forall A (C : Car A) xs, vnorm C TReal64 xs = vnorm C TFloat64 xs.
Proof. exact @real64_vnorm. Qed.
Theorem C02_real64_value_path_mnorm : forall A (C : Car A) n m xs, mnorm C TReal64 n m xs = mnorm C TFloat64 n m xs.
Proof. exact @real64_mnorm. Qed.
Theorem C02_real64_value_path_mtrace : forall A (C : Car A) n m xs, mtrace C TReal64 n m xs = mtrace C TFloat64 n m xs.
Proof. exact @real64_mtrace. Qed.

Theorem C02_convert_scalar : forall A (C : Car A), ctoZ C (clit C L0) = Some 0%Z -> forall a t, registered t = true ->
  convert_scalar C a t = if ty_eqb t (fst a) then Val a else (v <- get C (base_of t) (snd a) ;; Val (t, v)).
Proof. exact @convert_scalar_spec. Qed.
Theorem C02_convert_scalar_has_requested_type : forall A (C : Car A), ctoZ C (clit C L0) = Some 0%Z ->
  forall a t r, registered t = true -> convert_scalar C a t = Val r -> fst r = t.
Proof. exact @convert_scalar_type. Qed.
Theorem C02_convert_const_scalar : forall A (C : Car A) a t, registered t = true -> t <> fst a ->
  convert_const_scalar C a t = (v <- store C (base_of t) (getf64 C (snd a)) ;; Val (t, v)).
Proof. exact @convert_const_scalar_spec. Qed.
(* known findings: the constant types cannot be constructed / converted to; ConvertMagicScalar returns the receiver *)
Theorem C02_new_const_scalar_refuted : forall A (C : Car A) t x, is_const t = true -> new_const_scalar C t x = Panic.
Proof. exact @new_const_scalar_refuted. Qed.
Theorem C02_convert_const_scalar_refuted : forall A (C : Car A) a t, is_const t = true -> t <> fst a -> convert_const_scalar C a t = Panic.
Proof. exact @convert_const_scalar_refuted. Qed.
Theorem C02_convert_magic_scalar_refuted : forall A (C : Car A) a t r, convert_magic_scalar C a t = Val r -> r = a.
Proof. exact @convert_magic_scalar_refuted. Qed.
(* concrete ABS: since fix 2fc8894 in /repo it is |x| of the ARGUMENT for every receiver type and every previous
   value [cold] of the receiver (the retired finding F-ABS-CONCRETE; its witness is kept as a regression input) *)
Theorem C02_concrete_ABS : forall sp t cold x, fty t -> ABS_ (CX sp) t cold (VF (Fin x)) = Val (VF (Fin (Rabs x))).
Proof. exact ABS_named. Qed.
Theorem C02_concrete_ABS_int : forall A (C : Car A) t cold x, int_ty t -> wrap (kbits t) x = x ->
  ABS_ C t cold (VI x) = Val (VI (wrap (kbits t) (Z.abs x))).
Proof. exact @ABS_int. Qed.
Theorem C02_concrete_ABS_is_Abs : forall A (C : Car A) t cold a, ABS_ C t cold a = abs_ C t (t, a).
Proof. exact @ABS_is_abs. Qed.
Theorem C02_concrete_ABS_regression : forall sp,
  ABS_ (CX sp) TFloat64 (VF (Fin 0)) (VF (Fin (-3))) = Val (VF (Fin 3)).
Proof. exact ABS_regression. Qed.

Example C02_conv_nonvacuous : forall sp,
  ctoZ (CX sp) (clit (CX sp) L0) = Some 0%Z /\ registered TInt8 = true /\ is_const TCInt8 = true /\ TCInt8 <> fst (TFloat64, VF (Fin 3)).
Proof.
  intros sp. repeat split; try reflexivity; try discriminate.
  simpl. unfold Rtrunc. destruct (Rle_dec 0 0) as [_|N]; [|exfalso; apply N; lra].
  f_equal. unfold Int_part. replace (up 0) with (0 + 1)%Z; [reflexivity|]. apply up_tech; simpl; lra.
Qed.

(* ------------------------------------------------------------------ round 2: the extended carrier ER = R + {+oo, -oo, NaN} *)
(* coq/C02/Ext.v: IEEE 754 arithmetic on the infinities and NaN, the elementary functions with Go's / C99's value at
   +Inf, -Inf, NaN and at the domain edges (table fn_special, tied to the recorded math.* calls on every run). *)
Notation CE := CarE.
Theorem C02_ext_elementary_special : forall sp t f a y, fty t -> fn_special f a = Some y ->
  un (CE sp) t f (VF (er_of_xarg a)) = Val (VF (er_of_xres y)).
Proof. exact ext_un_special. Qed.
(* the table, spelled out for the methods named in the property *)
Example C02_ext_table :
  fn_special FExp XPInf = Some YPInf /\ fn_special FExp XNInf = Some (YZ 0) /\ fn_special FExp XNaN = Some YNaN
  /\ fn_special FLog XPInf = Some YPInf /\ fn_special FLog XNInf = Some YNaN /\ fn_special FLog XNaN = Some YNaN
  /\ fn_special FLog1p XPInf = Some YPInf /\ fn_special FLog1p XNInf = Some YNaN /\ fn_special FLog1p XNaN = Some YNaN
  /\ fn_special FTanh XPInf = Some (YZ 1) /\ fn_special FTanh XNInf = Some (YZ (-1)) /\ fn_special FTanh XNaN = Some YNaN
  /\ fn_special FErfc XPInf = Some (YZ 0) /\ fn_special FErfc XNInf = Some (YZ 2) /\ fn_special FErf XNInf = Some (YZ (-1))
  /\ fn_special FSin XPInf = Some YNaN /\ fn_special FCosh XNInf = Some YPInf /\ fn_special FSinh XNInf = Some YNInf.
Proof. repeat split. Qed.
Theorem C02_ext_elementary_finite : forall sp t f x, fty t -> fn_edge f x = EdgeNone ->
  un (CE sp) t f (VF (EFin x)) = Val (VF (EFin (rfn sp f x))).
Proof. exact ext_un_finite. Qed.
Theorem C02_ext_log_zero : forall sp t, fty t -> un (CE sp) t FLog (VF (EFin 0)) = Val (VF ENInf).
Proof. exact ext_log_zero. Qed.
Theorem C02_ext_log_negative : forall sp t x, fty t -> x < 0 -> un (CE sp) t FLog (VF (EFin x)) = Val (VF ENaN).
Proof. exact ext_log_negative. Qed.
Theorem C02_ext_log1p_minus_one : forall sp t, fty t -> un (CE sp) t FLog1p (VF (EFin (-1))) = Val (VF ENInf).
Proof. exact ext_log1p_minus_one. Qed.
Theorem C02_ext_log1p_below : forall sp t x, fty t -> x < -1 -> un (CE sp) t FLog1p (VF (EFin x)) = Val (VF ENaN).
Proof. exact ext_log1p_below. Qed.
(* LogAdd = ln(e^a + e^b) and LogSub = ln(e^a - e^b) for ALL a, b in ER (e^-oo = 0, e^+oo = +oo, ln 0 = -oo,
   ln(negative) = oo - oo = NaN): no hypothesis a > b any more — a < b gives NaN, a = b gives -oo *)
Theorem C02_ext_logadd : forall sp tc tq ta tb a b, fty tc -> fty tq -> fty ta ->
  logadd (CE sp) tc tq (ta, VF a) (tb, VF b) = Val (VF (elogadd_spec a b)).
Proof. exact ext_logadd. Qed.
Theorem C02_ext_logsub : forall sp tc tq ta tb a b, fty tc -> fty tq ->
  logsub (CE sp) tc tq (ta, VF a) (tb, VF b) = Val (VF (elogsub_spec a b)).
Proof. exact ext_logsub. Qed.
Example C02_ext_log_scale_values : forall x y, x < y ->
  elogadd_spec EPInf (EFin x) = EPInf /\ elogadd_spec ENInf ENInf = ENInf /\ elogadd_spec (EFin x) ENaN = ENaN
  /\ elogadd_spec EPInf ENInf = EPInf
  /\ elogsub_spec EPInf EPInf = ENaN /\ elogsub_spec EPInf (EFin x) = EPInf /\ elogsub_spec (EFin x) EPInf = ENaN
  /\ elogsub_spec ENInf ENInf = ENInf /\ elogsub_spec (EFin x) (EFin x) = ENInf /\ elogsub_spec (EFin x) (EFin y) = ENaN.
Proof.
  intros x y L. unfold elogadd_spec, elogsub_spec. cbn [eexp eadd esub eneg]. pose proof (exp_pos x). pose proof (exp_increasing x y L).
  rewrite (eln_zero (0 + 0)), (eln_zero (0 - 0)), (eln_zero (exp x - exp x)), (eln_neg (exp x - exp y)) by lra.
  repeat split.
Qed.
Theorem C02_ext_log1pexp_special : forall sp tc a, fty tc -> (forall x, a <> EFin x) ->
  log1pexp (CE sp) tc (VF a) = Val (VF (elog1pexp_limit a)).
Proof. exact ext_log1pexp_special. Qed.
Theorem C02_ext_log1pexp_finite : forall sp tc x, fty tc ->
  exists y, log1pexp (CE sp) tc (VF (EFin x)) = Val (VF (EFin y)) /\ Rabs (y - ln (1 + exp x)) <= l1pe_err x.
Proof. exact ext_log1pexp_finite. Qed.
Example C02_ext_log1pexp_limits : elog1pexp_limit EPInf = EPInf /\ elog1pexp_limit ENInf = EFin 0 /\ elog1pexp_limit ENaN = ENaN.
Proof.
  unfold elog1pexp_limit. cbn [eexp eadd]. rewrite eln_pos by lra. repeat split. rewrite Rplus_0_r, ln_1. reflexivity.
Qed.
Theorem C02_ext_sigmoid : forall sp tc tq a, fty tc -> fty tq -> sigmoid (CE sp) tc tq (VF a) = Val (VF (esigmoid_spec a)).
Proof. exact ext_sigmoid. Qed.
Theorem C02_ext_logistic : forall sp tc a, fty tc -> logistic (CE sp) tc (VF a) = Val (VF (esigmoid_spec a)).
Proof. exact ext_logistic. Qed.
Theorem C02_ext_sigmoid_values : forall x,
  esigmoid_spec (EFin x) = EFin (/ (1 + exp (- x))) /\ esigmoid_spec EPInf = EFin 1 /\ esigmoid_spec ENInf = EFin 0
  /\ esigmoid_spec ENaN = ENaN.
Proof. exact esigmoid_values. Qed.
(* SmoothMax: every real vector, zeros and negative elements included (the theorem on XR above never needed positivity);
   the empty vector gives 0/0 = NaN.  LogSmoothMax: every vector of NON-NEGATIVE elements (a zero element adds
   ln 0 = -oo, i.e. nothing, to the numerator; the all-zero vector gives 0); any negative element gives NaN. *)
Theorem C02_ext_smoothmax : forall sp tr t0 t1 alpha x xs, fty tr -> fty t0 -> fty t1 ->
  smoothmax (CE sp) tr t0 t1 (efins (x :: xs)) (VF (EFin alpha)) = Val (VF (EFin (smoothmax_spec alpha (x :: xs)))).
Proof. exact ext_smoothmax. Qed.
Theorem C02_ext_smoothmax_empty : forall sp tr t0 t1 alpha, fty tr -> fty t0 -> fty t1 ->
  smoothmax (CE sp) tr t0 t1 [] (VF (EFin alpha)) = Val (VF ENaN).
Proof. exact ext_smoothmax_empty. Qed.
Theorem C02_ext_logsmoothmax_nonnegative : forall sp tr t0 t1 t2 tx alpha x xs,
  fty tr -> fty t0 -> fty t1 -> fty t2 -> List.Forall (fun x => 0 <= x) (x :: xs) ->
  logsmoothmax (CE sp) tr t0 t1 t2 tx (efins (x :: xs)) (VF (EFin alpha)) = Val (VF (EFin (smoothmax_spec alpha (x :: xs)))).
Proof. exact ext_logsmoothmax. Qed.
Theorem C02_ext_logsmoothmax_agrees_with_smoothmax : forall sp tr t0 t1 t2 tx s0 s1 alpha x xs,
  fty tr -> fty t0 -> fty t1 -> fty t2 -> fty s0 -> fty s1 -> List.Forall (fun x => 0 <= x) (x :: xs) ->
  logsmoothmax (CE sp) tr t0 t1 t2 tx (efins (x :: xs)) (VF (EFin alpha))
  = smoothmax (CE sp) tr s0 s1 (efins (x :: xs)) (VF (EFin alpha)).
Proof. intros. rewrite ext_logsmoothmax, ext_smoothmax by assumption. reflexivity. Qed.
Theorem C02_ext_logsmoothmax_negative_is_nan : forall sp tr t0 t1 t2 tx alpha xs,
  fty tr -> fty t0 -> fty t1 -> fty t2 -> List.Exists (fun x => x < 0) xs ->
  logsmoothmax (CE sp) tr t0 t1 t2 tx (efins xs) (VF (EFin alpha)) = Val (VF ENaN).
Proof. exact ext_logsmoothmax_negative. Qed.
Example C02_ext_nonvacuous :
  List.Forall (fun x => 0 <= x) [0; 2; 3] /\ List.Forall (fun x => 0 <= x) [0; 0] /\ List.Exists (fun x => x < 0) [1; -1]
  /\ fn_edge FExp 3 = EdgeNone /\ (forall x, EPInf <> EFin x).
Proof.
  repeat split; try (repeat constructor; lra); try discriminate.
Qed.

(* integer Equals: what the generated code computes (the epsilon test on the float64 readings), and the refutation of
   exact integer equality — known finding F-EQUALS-INT (binary64 witnesses above 2^53: CorrExt.int64_equals_above_2p53) *)
Theorem C02_int_equals_is_epsilon_test : forall sp ta tb x y e,
  equals (CX sp) (ta, VI x) (tb, VI y) (Fin e) = Val (Rltb (Rabs (IZR x - IZR y)) e).
Proof. exact int_equals_is_epsilon_test. Qed.
Theorem C02_int_equals_refuted : forall sp ta tb x e, e <= 0 -> equals (CX sp) (ta, VI x) (tb, VI x) (Fin e) = Val false.
Proof. exact int_equals_refuted. Qed.
(* integer receivers in the middle branch of Log1pExp (18 < x <= 33): the temporary t := NewScalar(c.Type(), 0) is an integer,
   e^-x truncates to 0 and the result is x itself (= trunc(ln(1+e^x)): x < ln(1+e^x) < x+1) *)
Theorem C02_int_log1pexp_middle : forall sp t x, int_ty t -> (18 < x <= 33)%Z -> wrap (kbits t) x = x ->
  log1pexp (CX sp) t (VI x) = Val (VI x).
Proof. exact int_log1pexp_middle. Qed.
