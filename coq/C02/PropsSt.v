(* C02, round 6 — the value of a scalar method does not depend on what the receiver and the caller-supplied scratch
   scalars held on entry.  Statements about the state-passing model coq/C02/ModelSt.v (the Go bodies of LogAdd, LogSub,
   Sigmoid, SmoothMax, LogSmoothMax and of the reductions as transitions of the state (receiver, t[0], t[1], t[2]);
   tied to /repo on every run by the history correspondence coq/C02/CorrSt.v, which starts every history from dirty
   content and compares the receiver AND the three scratch scalars after every step).
   [step C tr B s q]: one call q on the state s;  [fresh C tr B r q]: the value coq/C02/Model.v assigns to the call
   (a function of the operands; Props.v / PropsVec.v say which named function it is);  [run_seq]: a history. *)
From Coq Require Import Reals ZArith List Bool Lra Floats.
From ADV Require Import Base.Num C02.Model C02.Spec C02.ProofsReal C02.Ext C02.ProofsExt C02.ModelSt C02.ProofsSt C02.ProofsStNamed C02.Corr.
Import ListNotations.

(* ------------------------------------------------------------------ every carrier, every receiver / scratch type *)
Theorem C02_st_logadd_scratch : forall A (C : Car A) tc tq a b t, rmap fst (logadd_st C tc tq a b t) = logadd C tc tq a b.
Proof. exact @logadd_st_fst. Qed.
Theorem C02_st_logsub_scratch : forall A (C : Car A) tc tq a b t, rmap fst (logsub_st C tc tq a b t) = logsub C tc tq a b.
Proof. exact @logsub_st_fst. Qed.
Theorem C02_st_sigmoid_scratch : forall A (C : Car A) tc tq a t, rmap fst (sigmoid_st C tc tq a t) = sigmoid C tc tq a.
Proof. exact @sigmoid_st_fst. Qed.
Theorem C02_st_smoothmax_state : forall A (C : Car A) tr B xs alpha s,
  rmap (@sr A) (smoothmax_st C tr B xs alpha s) = smoothmax C tr (bt0 B) (bt1 B) xs alpha.
Proof. exact @smoothmax_st_recv. Qed.
Theorem C02_st_logsmoothmax_state : forall A (C : Car A) tr B tx xs alpha s,
  rmap (@sr A) (logsmoothmax_st C tr B xs alpha s) = logsmoothmax C tr (bt0 B) (bt1 B) (bt2 B) tx xs alpha.
Proof. exact @logsmoothmax_st_recv. Qed.
(* one call, any of the twelve kinds, from any state *)
Theorem C02_st_call_value : forall A (C : Car A) tr B s q, rmap (@sr A) (step C tr B s q) = fresh C tr B (sr s) q.
Proof. exact @step_recv. Qed.
Theorem C02_st_call_scratch_independent : forall A (C : Car A) tr B s s' q, sr s = sr s' ->
  rmap (@sr A) (step C tr B s q) = rmap (@sr A) (step C tr B s' q).
Proof. exact @step_scratch_independent. Qed.
(* no operand is the receiver itself: nothing of the state on entry reaches the result *)
Theorem C02_st_call_state_independent : forall A (C : Car A) tr B s s' q, closed q = true ->
  rmap (@sr A) (step C tr B s q) = rmap (@sr A) (step C tr B s' q).
Proof. exact @step_state_independent. Qed.
(* histories (induction on the list of calls): the receiver values along ANY history from ANY dirty state are those of
   the operand-only model, threaded through the receiver alone *)
Theorem C02_st_history : forall A (C : Car A) tr B qs s, map (rmap (@sr A)) (run_seq C tr B s qs) = run_fresh C tr B (sr s) qs.
Proof. exact @seq_recv. Qed.
Theorem C02_st_history_scratch_independent : forall A (C : Car A) tr B qs s s', sr s = sr s' ->
  map (rmap (@sr A)) (run_seq C tr B s qs) = map (rmap (@sr A)) (run_seq C tr B s' qs).
Proof. exact @seq_scratch_independent. Qed.
Theorem C02_st_history_state_independent : forall A (C : Car A) tr B qs s s', forallb (@closed A) qs = true ->
  map (rmap (@sr A)) (run_seq C tr B s qs) = map (rmap (@sr A)) (run_seq C tr B s' qs).
Proof. exact @seq_state_independent. Qed.
(* frame: a call writes the receiver and the scratch scalars it was handed, nothing else *)
Theorem C02_st_frame : forall A (C : Car A) tr B s q s' k, step C tr B s q = Val s' -> touches q k = false -> kget s' k = kget s k.
Proof. exact @step_frame. Qed.

(* non-vacuity on binary64: a history from a state full of NaN / Inf; Vmean, VdotV, Add (no transcendental call) *)
Example C02_st_nonvacuous :
  let s := mkSt (VF nan) (VF infinity) (VF nan) (VF neg_infinity) in
  let B := mkBank TFloat64 TFloat32 TReal64 in
  let qs := [QVmean [VF 1%float; VF 2%float; VF 3%float]; QBin (BArith OAdd) OR (OC (TInt8, VI 5));
             QVdotV [VF 2%float] [VF 4%float]] in
  map (rmap (@sr float)) (run_seq (CarF []) TFloat64 B s qs) = [Val (VF 2%float); Val (VF 7%float); Val (VF 8%float)]
  /\ forallb (@closed float) [QVmean [VF 1%float]; QSmoothMax [VF 1%float] 2%float; QLogAdd K1 (OC (TFloat64, VF 1%float)) (OC (TInt, VI 2))] = true
  /\ closed (QLogAdd K0 (@OR float) (OC (TInt, VI 2))) = false
  /\ touches (QSmoothMax [VF 1%float] 2%float) K2 = false /\ touches (QLogAdd K1 (@OR float) (@OR float)) K0 = false.
Proof. vm_compute. repeat split. Qed.

(* ------------------------------------------------------------------ the named functions, from every state *)
Open Scope R_scope.
Notation CX := CarX.
Notation CE := CarE.
Theorem C02_st_smoothmax : forall sp tr B s alpha xs, fty tr -> fty (bt0 B) -> fty (bt1 B) ->
  rmap (@sr XR) (step (CX sp) tr B s (QSmoothMax (fins xs) (Fin alpha))) = Val (VF (Fin (smoothmax_spec alpha xs))).
Proof. exact st_smoothmax_named. Qed.
Theorem C02_st_logsmoothmax : forall sp tr B s alpha x xs, fty tr -> fty (bt0 B) -> fty (bt1 B) -> fty (bt2 B) ->
  List.Forall (fun x => 0 < x) (x :: xs) ->
  rmap (@sr XR) (step (CX sp) tr B s (QLogSmoothMax (fins (x :: xs)) (Fin alpha))) = Val (VF (Fin (smoothmax_spec alpha (x :: xs)))).
Proof. exact st_logsmoothmax_named. Qed.
Theorem C02_st_ext_smoothmax : forall sp tr B s alpha x xs, fty tr -> fty (bt0 B) -> fty (bt1 B) ->
  rmap (@sr ER) (step (CE sp) tr B s (QSmoothMax (efins (x :: xs)) (EFin alpha))) = Val (VF (EFin (smoothmax_spec alpha (x :: xs)))).
Proof. exact st_ext_smoothmax_named. Qed.
Theorem C02_st_ext_logsmoothmax : forall sp tr B s alpha x xs, fty tr -> fty (bt0 B) -> fty (bt1 B) -> fty (bt2 B) ->
  List.Forall (fun x => 0 <= x) (x :: xs) ->
  rmap (@sr ER) (step (CE sp) tr B s (QLogSmoothMax (efins (x :: xs)) (EFin alpha))) = Val (VF (EFin (smoothmax_spec alpha (x :: xs)))).
Proof. exact st_ext_logsmoothmax_named. Qed.
Theorem C02_st_ext_logadd : forall sp tr B s k ta tb a b, fty tr -> fty (kty B k) -> fty ta ->
  rmap (@sr ER) (step (CE sp) tr B s (QLogAdd k (OC (ta, VF a)) (OC (tb, VF b)))) = Val (VF (elogadd_spec a b)).
Proof. exact st_ext_logadd_named. Qed.
Theorem C02_st_ext_logadd_accumulate : forall sp tr B r u0 u1 u2 k tb b, fty tr -> fty (kty B k) ->
  rmap (@sr ER) (step (CE sp) tr B (mkSt (VF r) u0 u1 u2) (QLogAdd k OR (OC (tb, VF b)))) = Val (VF (elogadd_spec r b)).
Proof. exact st_ext_logadd_accumulate. Qed.
Theorem C02_st_ext_logsub : forall sp tr B s k ta tb a b, fty tr -> fty (kty B k) ->
  rmap (@sr ER) (step (CE sp) tr B s (QLogSub k (OC (ta, VF a)) (OC (tb, VF b)))) = Val (VF (elogsub_spec a b)).
Proof. exact st_ext_logsub_named. Qed.
Theorem C02_st_ext_sigmoid : forall sp tr B s k ta a, fty tr -> fty (kty B k) ->
  rmap (@sr ER) (step (CE sp) tr B s (QSigmoid k (OC (ta, VF a)))) = Val (VF (esigmoid_spec a)).
Proof. exact st_ext_sigmoid_named. Qed.
Theorem C02_st_vmean : forall sp tr B s xs, fty tr ->
  rmap (@sr XR) (step (CX sp) tr B s (QVmean (fins xs))) = Val (VF (Fin (Rsum xs / INR (length xs)))).
Proof. exact st_vmean_named. Qed.
Theorem C02_st_vdotv : forall sp tr B s xs ys, fty tr -> length xs = length ys ->
  rmap (@sr XR) (step (CX sp) tr B s (QVdotV (fins xs) (fins ys))) = Val (VF (Fin (dot xs ys))).
Proof. exact st_vdotv_named. Qed.
Theorem C02_st_vnorm : forall sp tr B s xs, fty tr ->
  rmap (@sr XR) (step (CX sp) tr B s (QVnorm (fins xs))) = Val (VF (Fin (R_sqrt.sqrt (sumsq xs)))).
Proof. exact st_vnorm_named. Qed.
Example C02_st_named_nonvacuous :
  fty TReal32 /\ fty (bt0 (mkBank TFloat64 TFloat32 TReal64)) /\ fty (kty (mkBank TFloat64 TFloat32 TReal64) K2)
  /\ List.Forall (fun x => 0 <= x) [0; 2] /\ List.Forall (fun x => 0 < x) [1; 2] /\ length [1; 2] = length [3; 4].
Proof. repeat split; try reflexivity; repeat constructor; lra. Qed.
