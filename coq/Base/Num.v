(* Carrier signature shared by the carrier-polymorphic algorithm models
   (DESIGN.md §1.3).  One model text is instantiated at
     - R      (theorems; comparisons through Rlt_dec, not computable),
     - Q      (exact execution; sqrt is not available: [qsqrt] returns the exact
               root of a perfect-square rational and 0 otherwise — models that
               need sqrt are executed on floats or checked through squares),
     - float  (Coq primitive binary64: bit-exact replay of Go float64 for
               + - * / sqrt abs and comparisons). *)
From Coq Require Import ZArith QArith Reals Floats Bool.
From Coq Require Import Qabs.

Record Num (A : Type) := mkNum {
  zero : A; one : A;
  add : A -> A -> A; sub : A -> A -> A; mul : A -> A -> A; div : A -> A -> A;
  neg : A -> A; nabs : A -> A; nsqrt : A -> A;
  ltb : A -> A -> bool; leb : A -> A -> bool; eqb : A -> A -> bool;
  of_Z : Z -> A;
  is_nan : A -> bool
}.
Arguments zero {A}. Arguments one {A}. Arguments add {A}. Arguments sub {A}.
Arguments mul {A}. Arguments div {A}. Arguments neg {A}. Arguments nabs {A}.
Arguments nsqrt {A}. Arguments ltb {A}. Arguments leb {A}. Arguments eqb {A}.
Arguments of_Z {A}. Arguments is_nan {A}.

(* ---- R ---- *)
Definition Rltb (x y : R) : bool := if Rlt_dec x y then true else false.
Definition Rleb (x y : R) : bool := if Rle_dec x y then true else false.
Definition Reqb (x y : R) : bool := if Req_EM_T x y then true else false.
Definition NumR : Num R := mkNum R 0%R 1%R Rplus Rminus Rmult Rdiv Ropp Rabs R_sqrt.sqrt Rltb Rleb Reqb IZR (fun _ => false).

Lemma Rltb_true x y : Rltb x y = true <-> (x < y)%R.
Proof. unfold Rltb; destruct (Rlt_dec x y); split; auto; discriminate. Qed.
Lemma Rleb_true x y : Rleb x y = true <-> (x <= y)%R.
Proof. unfold Rleb; destruct (Rle_dec x y); split; auto; discriminate. Qed.
Lemma Reqb_true x y : Reqb x y = true <-> x = y.
Proof. unfold Reqb; destruct (Req_EM_T x y); split; auto; discriminate. Qed.

(* ---- Q ---- *)
Definition qsqrt (q : Q) : Q :=
  let q' := Qred q in
  let n := Qnum q' in let d := Zpos (Qden q') in
  let sn := Z.sqrt n in let sd := Z.sqrt d in
  if ((sn * sn =? n) && (sd * sd =? d) && (0 <=? n))%Z then
    match sd with Zpos p => Qmake sn p | _ => 0%Q end
  else 0%Q.
Definition Qltb (x y : Q) : bool := match Qcompare x y with Lt => true | _ => false end.
Definition Qlebb (x y : Q) : bool := match Qcompare x y with Gt => false | _ => true end.
Definition NumQ : Num Q :=
  mkNum Q 0%Q 1%Q (fun x y => Qred (Qplus x y)) (fun x y => Qred (Qminus x y))
        (fun x y => Qred (Qmult x y)) (fun x y => Qred (Qdiv x y))
        (fun x => Qopp x) Qabs qsqrt Qltb Qlebb Qeq_bool (fun z => inject_Z z) (fun _ => false).

(* ---- Z (rings only; div is Go's truncating division) ---- *)
Definition NumZ : Num Z :=
  mkNum Z 0%Z 1%Z Z.add Z.sub Z.mul Z.quot Z.opp Z.abs Z.sqrt Z.ltb Z.leb Z.eqb (fun z => z) (fun _ => false).

(* ---- binary64 ---- *)
Definition NumF : Num float :=
  mkNum float PrimFloat.zero PrimFloat.one PrimFloat.add PrimFloat.sub PrimFloat.mul PrimFloat.div
        PrimFloat.opp PrimFloat.abs PrimFloat.sqrt PrimFloat.ltb PrimFloat.leb PrimFloat.eqb
        (fun z => PrimFloat.of_uint63 (Uint63.of_Z (Z.abs z)) * (if (z <? 0)%Z then (-1)%float else 1%float))%float
        (fun x => negb (PrimFloat.eqb x x)).

(* bit-level equality of floats: distinguishes +0/-0, identifies all NaNs *)
Definition feqb (x y : float) : bool :=
  match Prim2SF x, Prim2SF y with
  | S754_zero a, S754_zero b => Bool.eqb a b
  | S754_infinity a, S754_infinity b => Bool.eqb a b
  | S754_nan, S754_nan => true
  | S754_finite s m e, S754_finite s' m' e' => Bool.eqb s s' && Pos.eqb m m' && Z.eqb e e'
  | _, _ => false
  end.

(* exact rational value of a finite float (None for inf/nan) *)
Definition F2Q (x : float) : option Q :=
  match Prim2SF x with
  | S754_zero _ => Some 0%Q
  | S754_finite s m e =>
      let mz := if s then Zneg m else Zpos m in
      Some (if (0 <=? e)%Z then inject_Z (mz * 2 ^ e) else Qmake mz (Z.to_pos (2 ^ (- e))))
  | _ => None
  end.
