(* Shared helpers for correspondence evaluation (executed by vm_compute). *)
From Coq Require Import ZArith List Bool.
Import ListNotations.

Fixpoint list_eqb {X} (e : X -> X -> bool) (a b : list X) : bool :=
  match a, b with
  | [], [] => true
  | x :: a', y :: b' => e x y && list_eqb e a' b'
  | _, _ => false
  end.

Definition option_eqb {X} (e : X -> X -> bool) (a b : option X) : bool :=
  match a, b with
  | None, None => true
  | Some x, Some y => e x y
  | _, _ => false
  end.

(* indices (from n) of the cases on which [chk] is false *)
Fixpoint mism_from {C} (chk : C -> bool) (n : nat) (cs : list C) : list nat :=
  match cs with
  | [] => []
  | c :: r => if chk c then mism_from chk (S n) r else n :: mism_from chk (S n) r
  end.
Definition mismatches {C} (chk : C -> bool) (cs : list C) : list nat := mism_from chk 0 cs.

(* index of first differing position of two lists, None if equal *)
Fixpoint first_diff {X} (e : X -> X -> bool) (n : nat) (a b : list X) : option nat :=
  match a, b with
  | [], [] => None
  | x :: a', y :: b' => if e x y then first_diff e (S n) a' b' else Some n
  | _, _ => Some n
  end.
