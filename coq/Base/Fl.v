(* Float carrier for the regenerated scalar code (translator go2coq, DESIGN §1.2 T1).
   Every arithmetic / math.* / special.* call that occurs in the translated Go
   files is a field of this record, so one translated definition can be read
   over R (theorems) and over other carriers. *)
From Coq Require Import ZArith QArith Reals Bool.

Record Fl (A : Type) := mkFl {
  fadd : A -> A -> A; fsub : A -> A -> A; fmul : A -> A -> A; fdiv : A -> A -> A;
  fneg : A -> A;
  fltb : A -> A -> bool; fleb : A -> A -> bool; feq : A -> A -> bool;
  fofQ : Q -> A;            (* decimal literal, exact rational value *)
  fofZ : Z -> A;            (* float64(int) *)
  fnan : A; finf : Z -> A;  (* math.NaN(), math.Inf(sign) *)
  fisnan : A -> bool; fisinf : A -> Z -> bool;   (* math.IsInf(x, sign) *)
  (* package math *)
  fAbs : A -> A; fSqrt : A -> A; fExp : A -> A; fLog : A -> A; fLog1p : A -> A;
  fSin : A -> A; fCos : A -> A; fTan : A -> A; fSinh : A -> A; fCosh : A -> A; fTanh : A -> A;
  fErf : A -> A; fErfc : A -> A; fGamma : A -> A; fLgamma : A -> A; fLgammaSign : A -> Z;
  fPow : A -> A -> A; fPowZ : A -> Z -> A; (* math.Pow with a general / an integer-literal exponent *)
  fFloor : A -> A;
  fPi : A; fSqrtPi : A;
  (* package special *)
  fDigamma : A -> A; fTrigamma : A -> A; fLogErfc : A -> A; fMlgamma : A -> Z -> A;
  fGammaP : A -> A -> A; fGammaPd1 : A -> A -> A; fGammaPd2 : A -> A -> A;
  fBesselI : A -> A -> A; fLogBesselI : A -> A -> A
}.

Arguments fadd {A}. Arguments fsub {A}. Arguments fmul {A}. Arguments fdiv {A}. Arguments fneg {A}.
Arguments fltb {A}. Arguments fleb {A}. Arguments feq {A}. Arguments fofQ {A}. Arguments fofZ {A}.
Arguments fnan {A}. Arguments finf {A}. Arguments fisnan {A}. Arguments fisinf {A}.
Arguments fAbs {A}. Arguments fSqrt {A}. Arguments fExp {A}. Arguments fLog {A}. Arguments fLog1p {A}.
Arguments fSin {A}. Arguments fCos {A}. Arguments fTan {A}. Arguments fSinh {A}. Arguments fCosh {A}.
Arguments fTanh {A}. Arguments fErf {A}. Arguments fErfc {A}. Arguments fGamma {A}. Arguments fLgamma {A}.
Arguments fLgammaSign {A}. Arguments fPow {A}. Arguments fPowZ {A}. Arguments fFloor {A}.
Arguments fPi {A}. Arguments fSqrtPi {A}.
Arguments fDigamma {A}. Arguments fTrigamma {A}. Arguments fLogErfc {A}. Arguments fMlgamma {A}.
Arguments fGammaP {A}. Arguments fGammaPd1 {A}. Arguments fGammaPd2 {A}. Arguments fBesselI {A}.
Arguments fLogBesselI {A}.

(* derived comparisons as Go writes them *)
Definition fgtb {A} (F : Fl A) (x y : A) : bool := fltb F y x.
Definition fgeb {A} (F : Fl A) (x y : A) : bool := fleb F y x.
Definition fneb {A} (F : Fl A) (x y : A) : bool := negb (feq F x y).
