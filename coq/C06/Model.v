(* C06/Model.v — derivatives through linear algebra.

   NO new algorithm models: the routines are the carrier-polymorphic models of
   C04 (gaussJordan both variants, backSubstitution, matrixInverse, determinant)
   and C05 (cholesky family, householder, givens, gramSchmidt, hessenberg, bi-/
   tridiagonalisation).  The generic Go paths are those same algorithms executed
   through the Scalar interface on *Real64 objects; this file supplies the
   carrier that a *Real64 IS, as one more instance of the carrier record:

     jet A     value + activity flag + gradient + Hessian over a base carrier A,
     NumXJ     the operations of scalar_real64_math.go (Add Sub Mul Div Neg Abs
               Sqrt = Pow(.,0.5), Log) through the chain-rule combinators of
               scalar_real64_derivative.go (monadic / dyadic), float operation
               order as in the Go text, so the instance over binary64 replays
               Go's derivative slots bit for bit and the instance over R carries
               the theorems.

   A jet is a VALUE: the Go objects are mutable registers, and c.Op(a,b) with
   c == a is frequent in the modelled algorithms (s.Add(s,t), t.Div(t,c),
   x.Sub(x,t)); C01 (dyadic_jet_algebra / monadic_jet_algebra) proves that the
   in-place loops compute exactly these formulas under every aliasing, reading
   the upper triangle j >= i and mirroring it.  [ja] is Go's "Order >= 1":
   results of operations on inactive operands carry no storage and read as 0.

   Also here: the reified expression language of the carrier operations with
   its evaluation in any carrier, the symbolic carrier [NumXE] (a run over it
   records the straight-line program a run at the point x0 executes), the
   uniform program type [prog] with one wrapper per modelled routine, the
   generic matrix product, and the Jacobian / Hessian helpers.
   No proofs in this file. *)
From Coq Require Import List ZArith Bool Reals Floats Arith.
From ADV Require Import Base.Num.
From ADV Require C04.Model C05.Model.
Import ListNotations.

Module M4 := ADV.C04.Model.
Module M5 := ADV.C05.Model.
Import M5(NumX, mkNumX, nx, neg_inf, fmax, gsqrt, NumXR, NumXF).

(* ------------------------------------------------------------------ base carrier + what Real64.Sqrt/Log need *)
Record NumD (A : Type) := mkNumD {
  dx :> NumX A;
  pw_mh : A -> A;     (* math.Pow(x, -0.5) *)
  pw_m3h : A -> A;    (* math.Pow(x, -1.5) *)
  nlog : A -> A       (* math.Log *)
}.
Arguments dx {A}. Arguments pw_mh {A}. Arguments pw_m3h {A}. Arguments nlog {A}.

Definition NumDR : NumD R :=
  mkNumD R NumXR (fun x => Rdiv 1%R (R_sqrt.sqrt x)) (fun x => Rdiv 1%R (Rmult x (R_sqrt.sqrt x))) ln.

(* Go's math.Pow(x, -0.5) on binary64: the special cases taken before "y == -0.5: 1/Sqrt(x)" *)
Definition go_pow_mhalf (x : float) : float :=
  if PrimFloat.eqb x 0%float then infinity
  else if PrimFloat.eqb x neg_infinity then 0%float
  else PrimFloat.div 1%float (PrimFloat.sqrt x).
(* math.Pow(x, -1.5) goes through Exp(0.5*Log x): NOT replayed bit-exactly; the float
   instance uses 1/(x*sqrt x) and Hessian slots downstream of a Sqrt are compared
   through a tolerance decided in Q (Corr.v).  math.Log is not replayed at all. *)
Definition NumDF : NumD float :=
  mkNumD float NumXF go_pow_mhalf
         (fun x => PrimFloat.div 1%float (PrimFloat.mul x (PrimFloat.sqrt x))) (fun x => x).

(* ------------------------------------------------------------------ jets *)
Record jet (A : Type) := mkJ { jv : A; ja : bool; jg : list A; jh : list (list A) }.
Arguments mkJ {A}. Arguments jv {A}. Arguments ja {A}. Arguments jg {A}. Arguments jh {A}.

Section Jet.
Context {A : Type} (D : NumD A).
(* k = number of activated variables (N of every active scalar), o = order (1 or 2) *)
Variables (k o : nat).
Let N : Num A := nx (dx D).

(* GetDerivative / GetHessian: 0 for an inactive scalar, 0 Hessian at order 1 *)
Definition gd (a : jet A) (i : nat) : A := nth i (jg a) (zero N).
Definition gh (a : jet A) (i j : nat) : A := nth j (nth i (jh a) []) (zero N).

Definition jconst (v : A) : jet A := mkJ v false [] [].
(* SetVariable(i, k, o) on a scalar of value v *)
Definition jvar (i : nat) (v : A) : jet A :=
  mkJ v true (map (fun q => if Nat.eqb q i then one N else zero N) (seq 0 k))
      (if 2 <=? o then repeat (repeat (zero N) k) k else []).

(* for i { for j := i.. { H[i][j] = cell i j ; H[j][i] = H[i][j] } } *)
Definition hmat (cell : nat -> nat -> A) : list (list A) :=
  if 2 <=? o then map (fun i => map (fun j => cell (Nat.min i j) (Nat.max i j)) (seq 0 k)) (seq 0 k) else [].

(* monadic / monadicLazy *)
Definition jmon (a : jet A) (v0 v1 v2 : A) : jet A :=
  if ja a then
    mkJ v0 true (map (fun i => mul N (gd a i) v1) (seq 0 k))
        (hmat (fun i j => add N (mul N (mul N (gd a i) (gd a j)) v2) (mul N (gh a i j) v1)))
  else jconst v0.

(* dyadic / dyadicLazy *)
Definition jdy (a b : jet A) (v0 v10 v01 v11 v20 v02 : A) : jet A :=
  if ja a || ja b then
    mkJ v0 true (map (fun i => add N (mul N (gd a i) v10) (mul N (gd b i) v01)) (seq 0 k))
        (hmat (fun i j =>
           add N (add N (add N (add N (add N (mul N (gh a i j) v10) (mul N (gh b i j) v01))
                                      (mul N (mul N (gd a i) (gd a j)) v20))
                               (mul N (mul N (gd b i) (gd b j)) v02))
                        (mul N (mul N (gd a i) (gd b j)) v11))
                 (mul N (mul N (gd b i) (gd a j)) v11)))
  else jconst v0.

Definition m1 : A := of_Z N (-1).
Definition two : A := of_Z N 2.
Definition half : A := div N (one N) (add N (one N) (one N)).      (* ConstFloat64(0.5) *)

Definition jadd (a b : jet A) : jet A :=
  let x := jv a in let y := jv b in
  jdy a b (add N x y) (one N) (one N) (zero N) (zero N) (zero N).
Definition jsub (a b : jet A) : jet A :=
  let x := jv a in let y := jv b in
  jdy a b (sub N x y) (one N) m1 (zero N) (zero N) (zero N).
Definition jmul (a b : jet A) : jet A :=
  let x := jv a in let y := jv b in
  jdy a b (mul N x y) y x (one N) (zero N) (zero N).
(* dyadic(a, b, x/y, 1/y, -x/(y*y), -1/(y*y), 0, 2*x/(y*y*y)) *)
Definition jdiv (a b : jet A) : jet A :=
  let x := jv a in let y := jv b in
  jdy a b (div N x y) (div N (one N) y) (div N (neg N x) (mul N y y)) (div N m1 (mul N y y))
      (zero N) (div N (mul N two x) (mul N (mul N y y) y)).
Definition jneg (a : jet A) : jet A := jmon a (neg N (jv a)) m1 (zero N).
(* Real64.Abs: switch a.Sign() { -1: Neg(a) ; 0: Reset() ; 1: Set(a) }.  NOT the carrier's [nabs]:
   the modelled algorithms never call Scalar.Abs, every absolute value they take is
   math.Abs(x.GetFloat64()) (pivot search, running maxima of forcepd) - a plain float: [jabsf] *)
Definition jabs (a : jet A) : jet A :=
  if ltb N (jv a) (zero N) then jneg a
  else if ltb N (zero N) (jv a) then a
  else jconst (zero N).
Definition jabsf (a : jet A) : jet A := jconst (nabs N (jv a)).
(* Sqrt(a) = Pow(a, ConstFloat64(0.5)): monadicLazy(a, Pow(x,y), Pow(x,y-1)*y, Pow(x,y-2)*(y-1)*y) *)
Definition jsqrt (a : jet A) : jet A :=
  let x := jv a in
  jmon a (gsqrt (dx D) x) (mul N (pw_mh D x) half) (mul N (mul N (pw_m3h D x) (sub N half (one N))) half).
(* Log: monadicLazy(a, log x, 1/x, -1/(x*x)) *)
Definition jlog (a : jet A) : jet A :=
  let x := jv a in
  jmon a (nlog D x) (div N (one N) x) (div N m1 (mul N x x)).

(* Set copies value and derivatives (identity on values); SetFloat64 clears them *)
Definition jset (a : jet A) : jet A := a.
Definition jsetf (v : A) : jet A := jconst v.

Definition NumJ : Num (jet A) :=
  mkNum (jet A) (jconst (zero N)) (jconst (one N)) jadd jsub jmul jdiv jneg jabsf jsqrt
        (fun a b => ltb N (jv a) (jv b)) (fun a b => leb N (jv a) (jv b)) (fun a b => eqb N (jv a) (jv b))
        (fun z => jconst (of_Z N z)) (fun a => is_nan N (jv a)).
(* math.Max / math.Inf only occur on GetFloat64() values followed by SetFloat64 (cholesky_ldl_forcepd) *)
Definition NumXJ : NumX (jet A) :=
  mkNumX (jet A) NumJ (jconst (neg_inf (dx D))) (fun a b => jconst (fmax (dx D) (jv a) (jv b))) jsqrt.

(* an input entry: activated as variable number i, or left a constant *)
Definition seed1 (s : option nat * A) : jet A :=
  match fst s with Some i => jvar i (snd s) | None => jconst (snd s) end.

End Jet.

(* ------------------------------------------------------------------ reified carrier operations *)
Inductive expr :=
| Var (i : nat) | Cst (c : R)
| EAdd (a b : expr) | ESub (a b : expr) | EMul (a b : expr) | EDiv (a b : expr)
| ENeg (a : expr) | EAbs (a : expr) | ESqrt (a : expr) | ELog (a : expr)
| EMax (a b : expr) | ENegInf.

Section Eval.
Context {A : Type} (X : NumX A) (lg : A -> A) (var : nat -> A) (cst : R -> A).
Let N : Num A := nx X.
Fixpoint eval (e : expr) : A :=
  match e with
  | Var i => var i
  | Cst c => cst c
  | EAdd a b => add N (eval a) (eval b)
  | ESub a b => sub N (eval a) (eval b)
  | EMul a b => mul N (eval a) (eval b)
  | EDiv a b => div N (eval a) (eval b)
  | ENeg a => neg N (eval a)
  | EAbs a => nabs N (eval a)
  | ESqrt a => gsqrt X (eval a)
  | ELog a => lg (eval a)
  | EMax a b => fmax X (eval a) (eval b)
  | ENegInf => neg_inf X
  end.
End Eval.

(* the real function an expression denotes, at the point x *)
Definition evalR (x : nat -> R) (e : expr) : R := eval NumXR ln x (fun c => c) e.
(* the jet the library computes for it: k variables x 0 .. x (k-1) activated at order o *)
Definition evalJ (k o : nat) (x : nat -> R) (e : expr) : jet R :=
  eval (NumXJ NumDR k o) (jlog NumDR k o) (fun i => jvar NumDR k o i (x i)) (fun c => jconst c) e.

(* the symbolic carrier: operations build syntax, comparisons are decided at the point x *)
Definition NumE (x : nat -> R) : Num expr :=
  mkNum expr (Cst 0) (Cst 1) EAdd ESub EMul EDiv ENeg EAbs ESqrt
        (fun a b => Rltb (evalR x a) (evalR x b)) (fun a b => Rleb (evalR x a) (evalR x b))
        (fun a b => Reqb (evalR x a) (evalR x b)) (fun z => Cst (IZR z)) (fun _ => false).
Definition NumXE (x : nat -> R) : NumX expr := mkNumX expr (NumE x) ENegInf EMax ESqrt.

(* symbolic first derivative with respect to variable i *)
Definition c2 : expr := Cst 2.
Fixpoint Dx (i : nat) (e : expr) : expr :=
  match e with
  | Var q => if Nat.eqb q i then Cst 1 else Cst 0
  | Cst _ => Cst 0
  | EAdd a b => EAdd (Dx i a) (Dx i b)
  | ESub a b => ESub (Dx i a) (Dx i b)
  | EMul a b => EAdd (EMul (Dx i a) b) (EMul a (Dx i b))
  | EDiv a b => ESub (EDiv (Dx i a) b) (EDiv (EMul a (Dx i b)) (EMul b b))
  | ENeg a => ENeg (Dx i a)
  | ESqrt a => EDiv (Dx i a) (EMul c2 (ESqrt a))
  | ELog a => EDiv (Dx i a) a
  | EAbs _ | EMax _ _ | ENegInf => Cst 0
  end.

(* the domain on which the jets are derivatives: denominators non-zero, arguments
   of sqrt and log positive; Abs / Max / -Inf are not differentiated (they occur
   only inside comparisons and in cholesky_ldl_forcepd) *)
Fixpoint safe (x : nat -> R) (e : expr) : Prop :=
  match e with
  | Var _ | Cst _ => True
  | EAdd a b | ESub a b | EMul a b => safe x a /\ safe x b
  | EDiv a b => safe x a /\ safe x b /\ evalR x b <> 0%R
  | ENeg a => safe x a
  | ESqrt a | ELog a => safe x a /\ (0 < evalR x a)%R
  | EAbs _ | EMax _ _ | ENegInf => False
  end.

(* ------------------------------------------------------------------ programs *)
(* every modelled routine as: carrier -> log -> flat input -> flat output (None = error / panic) *)
Definition prog := forall A : Type, NumX A -> (A -> A) -> list A -> option (list A).

Fixpoint chunk {A} (n rows : nat) (l : list A) : list (list A) :=
  match rows with O => [] | S r => firstn n l :: chunk n r (skipn n l) end.

Definition of_outcome {T U} (f : T -> U) (o : M4.outcome T) : option U :=
  match o with M4.Ok t => Some (f t) | _ => None end.

(* r.MdotM(a, b), a : n x m1, b : m1 x m:  t2 = 0; for k { t1 = a[i,k]*b[k,j]; t2 = t2 + t1 } *)
Definition mdotm {A} (N : Num A) (m1 m : nat) (a b : list (list A)) : list (list A) :=
  map (fun ra => map (fun j =>
         fold_left (fun t2 k => add N t2 (mul N (nth k ra (zero N)) (nth j (nth k b []) (zero N))))
                   (seq 0 m1) (zero N)) (seq 0 m)) a.

(* determinantPD(a, logScale = true): r = 0; for i { t = log L[i,i]; r = r + t }; r = r + r *)
Definition logdet_pd {A} (N : Num A) (lg : A -> A) (n : nat) (m : list (list A)) : option A :=
  match M4.cholesky N n m (M4.zmat N n) with
  | M4.Ok L => let r := fold_left (fun r i => add N r (lg (M4.mget N L i i))) (seq 0 n) (zero N) in
               Some (add N r r)
  | _ => None
  end.

Definition p_backsub (n : nat) : prog := fun A X lg inp =>
  Some (M4.backsub (nx X) n (chunk n n inp) (Some (skipn (n * n) inp)) (M4.zeros (nx X) n)).
Definition p_det (n : nat) : prog := fun A X lg inp => Some [M4.det_naive (nx X) n (chunk n n inp)].
Definition p_detpd (n : nat) : prog := fun A X lg inp =>
  of_outcome (fun d => [d]) (M4.det_pd (nx X) n (chunk n n inp)).
Definition p_logdetpd (n : nat) : prog := fun A X lg inp =>
  match logdet_pd (nx X) lg n (chunk n n inp) with Some d => Some [d] | None => None end.
Definition p_inv (mode : M4.inv_mode) (n : nat) : prog := fun A X lg inp =>
  of_outcome (@concat A) (M4.m_inverse (nx X) false mode n (M4.all_true n) (chunk n n inp)).
(* gaussJordan.Run(a, x, b [, UpperTriangular]) : input a ++ x ++ b, output likewise *)
Definition p_gj (ut : bool) (n : nat) : prog := fun A X lg inp =>
  of_outcome (fun s => concat (M4.sa s) ++ concat (M4.sx s) ++ M4.sb s)
    (M4.gj_run (nx X) false ut n (M4.all_true n)
       (M4.mkSt (chunk n n inp) (chunk n n (skipn (n * n) inp)) (skipn (2 * (n * n)) inp))).
Definition p_chol (n : nat) : prog := fun A X lg inp =>
  match M5.cholesky X (chunk n n inp) with Some L => Some (concat L) | None => None end.
Definition p_ldl (n : nat) : prog := fun A X lg inp =>
  match M5.cholesky_ldl X (chunk n n inp) with Some (L, Dm) => Some (concat L ++ concat Dm) | None => None end.
Definition p_mdotm (n m1 m : nat) : prog := fun A X lg inp =>
  Some (concat (mdotm (nx X) m1 m (chunk m1 n inp) (chunk m m1 (skipn (n * m1) inp)))).
(* the remaining direct routines of C05 *)
Definition p_gs (n m : nat) : prog := fun A X lg inp =>
  let r := M5.gram_schmidt2 X (chunk m n inp) in Some (concat (fst r) ++ concat (snd r)).
Definition p_hess (n : nat) : prog := fun A X lg inp =>
  let r := M5.hessenberg X true true (chunk n n inp) in
  Some (concat (fst r) ++ match snd r with Some U => concat U | None => [] end).
Definition p_house : prog := fun A X lg inp =>
  let r := M5.house X inp in Some (fst r :: snd r).
Definition p_givens : prog := fun A X lg inp =>
  let r := M5.givens X (nth 0 inp (zero (nx X))) (nth 1 inp (zero (nx X))) in Some [fst r; snd r].
Definition p_tridiag (n : nat) : prog := fun A X lg inp =>
  let r := M5.tridiag2 X true (chunk n n inp) in
  Some (concat (fst r) ++ match snd r with Some U => concat U | None => [] end).
Definition p_bidiag (m n : nat) : prog := fun A X lg inp =>
  let r := M5.bidiag2 X true true (chunk n m inp) in
  Some (concat (fst (fst r)) ++ match snd (fst r) with Some U => concat U | None => [] end
                             ++ match snd r with Some V => concat V | None => [] end).

(* cholesky_ldl_forcepd (excluded from the derivative theorems, see Props): the two literals 1e-20
   of the source are the first two inputs *)
Definition p_fpd (n : nat) : prog := fun A X lg inp =>
  match M5.cholesky_ldl_forcepd X (nth 0 inp (zero (nx X))) (nth 1 inp (zero (nx X))) (chunk n n (skipn 2 inp)) with
  | Some (L, Dm) => Some (concat L ++ concat Dm) | None => None end.

(* operations through which a derivative is dropped (value read by GetFloat64, written by SetFloat64) *)
Fixpoint lossy (e : expr) : bool :=
  match e with
  | Var _ | Cst _ => false
  | EAdd a b | ESub a b | EMul a b | EDiv a b => lossy a || lossy b
  | ENeg a | ESqrt a | ELog a => lossy a
  | EAbs _ | EMax _ _ | ENegInf => true
  end.

(* inputs of a program: which entries are variables (Some i) and which constants *)
Definition spec := list (option nat * R).
Definition in_E (s : spec) : list expr :=
  map (fun p => match fst p with Some i => Var i | None => Cst (snd p) end) s.
Definition in_R (x : nat -> R) (s : spec) : list R :=
  map (fun p => match fst p with Some i => x i | None => snd p end) s.
Definition in_J (k o : nat) (x : nat -> R) (s : spec) : list (jet R) :=
  map (fun p => match fst p with Some i => jvar NumDR k o i (x i) | None => jconst (snd p) end) s.

(* the three runs of a program *)
Definition runE (m : prog) (x : nat -> R) (s : spec) : option (list expr) := m expr (NumXE x) ELog (in_E s).
Definition runR (m : prog) (x : nat -> R) (s : spec) : option (list R) := m R NumXR ln (in_R x s).
Definition runJ (m : prog) (k o : nat) (x : nat -> R) (s : spec) : option (list (jet R)) :=
  m (jet R) (NumXJ NumDR k o) (jlog NumDR k o) (in_J k o x s).

(* ------------------------------------------------------------------ Jacobian / Hessian helpers *)
(* r.Jacobian(f, x_): x := clone; x.Variables(1); y := f(x); r[i,j] = y[i].GetDerivative(j) *)
Definition vfun := forall B : Type, NumX B -> (B -> B) -> list B -> list B.
Definition jacobian {A} (D : NumD A) (f : vfun) (x : list A) : list (list A) :=
  let k := length x in
  let xs := map (fun p => jvar D k 1 (fst p) (snd p)) (combine (seq 0 k) x) in
  map (fun yi => map (fun j => gd D yi j) (seq 0 k)) (f (jet A) (NumXJ D k 1) (jlog D k 1) xs).
(* r.Hessian(f, x_): x.Variables(2); y := f(x); r[i,j] = y.GetHessian(i,j) *)
Definition sfun := forall B : Type, NumX B -> (B -> B) -> list B -> B.
Definition hessian {A} (D : NumD A) (f : sfun) (x : list A) : list (list A) :=
  let k := length x in
  let xs := map (fun p => jvar D k 2 (fst p) (snd p)) (combine (seq 0 k) x) in
  let y := f (jet A) (NumXJ D k 2) (jlog D k 2) xs in
  map (fun i => map (fun j => gh D y i j) (seq 0 k)) (seq 0 k).
