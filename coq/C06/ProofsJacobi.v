(* C06/ProofsJacobi.v — Jacobi's formula  d log det A = tr(A^-1 dA)  for EVERY size n,
   for the determinant the library computes (determinantNaive, C04 model det_naive).

   Matrices are index functions  M : nat -> nat -> R  (entries outside 0..n-1 are never
   read); [Det n M] is det_naive over the reals of the n x n list matrix with these entries,
   [detF n y] the same with M i j = y (i*n+j) (row-major, the layout of [p_det]), and
   [detF_is_outR] shows it IS the real function of the program p_det on n*n activated entries.

   Contents: row-multilinearity and "two equal rows => 0" for arbitrary (non-adjacent) rows,
   the cofactor (row i replaced by e_j), the adjugate identity, the partial derivatives of det
   (cofactors) and of log det (inverse transposed), Jacobi's formula along every differentiable
   curve of matrices and the trace form d log det = tr(A^-1 dA), safety of the determinant
   program at every point (so its jets need no hypothesis and their gradient slots are the
   cofactors), and the second derivative of the inverse.  Statements: section "statements". *)
From Coq Require Import Reals List Lia Lra Bool ZArith Field.
From Coquelicot Require Import Coquelicot.
From ADV Require Import Base.Num C06.Model C06.Spec C06.ProofsAlg C06.ProofsAna C06.ProofsLift C06.ProofsInst C06.ProofsCalc.
From ADV Require C04.Spec C04.Props C04.ProofsList C04.ProofsDet C04.ProofsDet3.
Import ListNotations.
Open Scope R_scope.

(* the reals as an instance of C04's field record; NumK RK is (convertible with) NumR *)
Definition RK : C04.Spec.fld :=
  C04.Spec.mkFld R 0 1 Rplus Rmult Rminus Ropp Rdiv Rinv RealField.Rfield Rabs sqrt Rltb Rleb Reqb IZR.
Lemma NumK_RK : C04.Spec.NumK RK = NumR.
Proof. reflexivity. Qed.

(* ------------------------------------------------------------------ matrices by index *)
Definition mat_of (n : nat) (M : nat -> nat -> R) : list (list R) :=
  map (fun i => map (fun j => M i j) (seq 0 n)) (seq 0 n).
Definition Det (n : nat) (M : nat -> nat -> R) : R := M4.det_naive NumR n (mat_of n M).

Lemma mget_mat_of n M i j : (i < n)%nat -> (j < n)%nat -> M4.mget NumR (mat_of n M) i j = M i j.
Proof.
  intros Hi Hj. unfold M4.mget, M4.row, M4.vget, mat_of.
  rewrite (nth_map_seq (fun i => map (fun j => M i j) (seq 0 n)) n i []) by exact Hi.
  apply (nth_map_seq (fun j => M i j) n j). exact Hj.
Qed.

(* the determinant reads the entries 0..n-1 x 0..n-1 only *)
Lemma Det_ext n M M' : (forall i j, (i < n)%nat -> (j < n)%nat -> M i j = M' i j) -> Det n M = Det n M'.
Proof.
  intro H. destruct n as [|n]; [reflexivity|]. unfold Det.
  change NumR with (C04.Spec.NumK RK).
  rewrite !(C04.ProofsDet.det_naive_laplace RK) by lia.
  apply (C04.ProofsDet3.det_ext RK). intros i j Hi Hj.
  change (C04.Spec.NumK RK) with NumR. rewrite !mget_mat_of by assumption. apply H; assumption.
Qed.

(* linear in every row (C04 determinant_linear_in_every_row at the reals) *)
Lemma Det_lin n i (A B C : nat -> nat -> R) (l : R) : (i < n)%nat ->
  (forall r j, (r < n)%nat -> (j < n)%nat -> r <> i -> A r j = C r j /\ B r j = C r j) ->
  (forall j, (j < n)%nat -> C i j = A i j + l * B i j) ->
  Det n C = Det n A + l * Det n B.
Proof.
  intros Hi Hs Hr. unfold Det.
  apply (C04.Props.determinant_linear_in_every_row RK i n (mat_of n A) (mat_of n B) (mat_of n C) l Hi).
  - intros r j Hr' Hj Hne. change (C04.Spec.NumK RK) with NumR. rewrite !mget_mat_of by assumption.
    apply Hs; assumption.
  - intros j Hj. change (C04.Spec.NumK RK) with NumR. rewrite !mget_mat_of by assumption.
    apply Hr; assumption.
Qed.

Lemma Det_adjacent_equal n i M : (S i < n)%nat ->
  (forall j, (j < n)%nat -> M i j = M (S i) j) -> Det n M = 0.
Proof.
  intros Hi He. unfold Det.
  apply (C04.Props.determinant_alternating_adjacent_rows RK i n (mat_of n M) Hi).
  intros j Hj. change (C04.Spec.NumK RK) with NumR. rewrite !mget_mat_of by (assumption || lia).
  apply He; assumption.
Qed.

(* a zero row *)
Lemma Det_zero_row n i M : (i < n)%nat -> (forall j, (j < n)%nat -> M i j = 0) -> Det n M = 0.
Proof.
  intros Hi Hz.
  assert (E : Det n M = Det n M + 1 * Det n M).
  { apply (Det_lin n i M M M 1 Hi).
    - intros; split; reflexivity.
    - intros j Hj. rewrite (Hz j Hj). ring. }
  lra.
Qed.

(* swapping two adjacent rows changes the sign *)
Lemma Det_swap_adjacent n p M : (S p < n)%nat ->
  Det n (fun r j => if Nat.eqb r p then M (S p) j else if Nat.eqb r (S p) then M p j else M r j) = - Det n M.
Proof.
  intros Hp.
  set (D := fun (a b : nat -> R) =>
              Det n (fun r j => if Nat.eqb r p then a j else if Nat.eqb r (S p) then b j else M r j)).
  set (u := M p). set (v := M (S p)). set (w := fun j => u j + 1 * v j).
  assert (L1 : forall b, D w b = D u b + 1 * D v b).
  { intro b. unfold D. apply (Det_lin n p); [lia| |].
    - intros r j Hr Hj Hne. destruct (Nat.eqb_spec r p); [contradiction|]. split; reflexivity.
    - intros j Hj. rewrite Nat.eqb_refl. reflexivity. }
  assert (L2 : forall a, D a w = D a u + 1 * D a v).
  { intro a. unfold D. apply (Det_lin n (S p)); [lia| |].
    - intros r j Hr Hj Hne. destruct (Nat.eqb_spec r p); [split; reflexivity|].
      destruct (Nat.eqb_spec r (S p)); [contradiction|]. split; reflexivity.
    - intros j Hj. destruct (Nat.eqb_spec (S p) p); [lia|]. rewrite Nat.eqb_refl. reflexivity. }
  assert (Z : forall a, D a a = 0).
  { intro a. unfold D. apply (Det_adjacent_equal n p); [exact Hp|].
    intros j Hj. rewrite Nat.eqb_refl. destruct (Nat.eqb_spec (S p) p); [lia|]. rewrite Nat.eqb_refl. reflexivity. }
  assert (EM : D u v = Det n M).
  { unfold D. apply Det_ext. intros r j Hr Hj.
    destruct (Nat.eqb_spec r p) as [->|]; [reflexivity|].
    destruct (Nat.eqb_spec r (S p)) as [->|]; reflexivity. }
  change (D v u = - Det n M).
  pose proof (Z w) as Zw. rewrite L1, !L2, (Z u), (Z v), EM in Zw. lra.
Qed.

(* two equal rows, ANY two rows: the determinant vanishes *)
Lemma Det_rows_equal_dist : forall d n i M, (i + S d < n)%nat ->
  (forall j, (j < n)%nat -> M i j = M (i + S d)%nat j) -> Det n M = 0.
Proof.
  induction d as [|d IH]; intros n i M Hi He.
  - apply (Det_adjacent_equal n i); [lia|]. intros j Hj. rewrite (He j Hj). f_equal. lia.
  - set (p := (i + S d)%nat).
    assert (Ek : (i + S (S d) = S p)%nat) by (unfold p; lia).
    pose proof (Det_swap_adjacent n p M ltac:(lia)) as Sw.
    rewrite (IH n i) in Sw; [lra|fold p; lia|].
    intros j Hj. fold p. rewrite Nat.eqb_refl.
    destruct (Nat.eqb_spec i p); [lia|]. destruct (Nat.eqb_spec i (S p)); [lia|].
    rewrite (He j Hj), Ek. reflexivity.
Qed.

Lemma Det_rows_equal n i k M : (i < n)%nat -> (k < n)%nat -> i <> k ->
  (forall j, (j < n)%nat -> M i j = M k j) -> Det n M = 0.
Proof.
  intros Hi Hk Hne He.
  destruct (Nat.lt_ge_cases i k) as [Hlt|Hge].
  - apply (Det_rows_equal_dist (k - i - 1) n i M); [lia|].
    intros j Hj. rewrite (He j Hj). f_equal. lia.
  - apply (Det_rows_equal_dist (i - k - 1) n k M); [lia|].
    intros j Hj. rewrite <- (He j Hj). f_equal. lia.
Qed.

(* ------------------------------------------------------------------ cofactors *)
(* row i replaced by a given row *)
Definition setrow (M : nat -> nat -> R) (i : nat) (v : nat -> R) : nat -> nat -> R :=
  fun r c => if Nat.eqb r i then v c else M r c.
(* the cofactor C_ij: determinant with row i replaced by the unit vector e_j *)
Definition Cof (n : nat) (M : nat -> nat -> R) (i j : nat) : R := Det n (setrow M i (fun c => kron j c)).

Lemma Det_setrow_lin n i M (u v : nat -> R) (l : R) : (i < n)%nat ->
  Det n (setrow M i (fun c => u c + l * v c)) = Det n (setrow M i u) + l * Det n (setrow M i v).
Proof.
  intro Hi. apply (Det_lin n i); [exact Hi| |].
  - intros r j Hr Hj Hne. unfold setrow. destruct (Nat.eqb_spec r i); [contradiction|]. split; reflexivity.
  - intros j Hj. unfold setrow. rewrite Nat.eqb_refl. reflexivity.
Qed.

Lemma msum_kron_r n p g : (p < n)%nat -> msum n (fun c => g c * kron c p) = g p.
Proof.
  intro H. rewrite <- (msum_kron n p g H). apply msum_ext. intros c Hc.
  unfold kron. rewrite (Nat.eqb_sym c p). ring.
Qed.

(* expansion of a row in the unit vectors *)
Lemma Det_setrow_msum n i M (a : nat -> R) : (i < n)%nat -> forall m,
  Det n (setrow M i (fun c => msum m (fun j => a j * kron j c))) = msum m (fun j => a j * Cof n M i j).
Proof.
  intros Hi m. induction m as [|m IH]; cbn [msum].
  - apply (Det_zero_row n i); [exact Hi|]. intros j Hj. unfold setrow. rewrite Nat.eqb_refl. reflexivity.
  - rewrite <- IH. unfold Cof.
    apply (Det_setrow_lin n i M (fun c => msum m (fun j => a j * kron j c)) (fun c => kron m c) (a m) Hi).
Qed.

Lemma Det_setrow_expand n i M (a : nat -> R) : (i < n)%nat ->
  Det n (setrow M i a) = msum n (fun j => a j * Cof n M i j).
Proof.
  intro Hi. rewrite <- (Det_setrow_msum n i M a Hi n). apply Det_ext.
  intros r c Hr Hc. unfold setrow. destruct (Nat.eqb r i); [|reflexivity].
  symmetry. apply (msum_kron_r n c a Hc).
Qed.

(* (2) the adjugate identity  A * adj A = det A * I  (cofactor expansion along any row, and
   the "false" expansions with the cofactors of another row vanish) *)
Lemma cofactor_expansion_lemma n M k i : (k < n)%nat -> (i < n)%nat ->
  msum n (fun j => M k j * Cof n M i j) = if Nat.eqb k i then Det n M else 0.
Proof.
  intros Hk Hi. rewrite <- (Det_setrow_expand n i M (M k) Hi).
  destruct (Nat.eqb_spec k i) as [->|Hne].
  - apply Det_ext. intros r c Hr Hc. unfold setrow. destruct (Nat.eqb_spec r i) as [->|]; reflexivity.
  - apply (Det_rows_equal n i k); [exact Hi|exact Hk|auto|].
    intros j Hj. unfold setrow. rewrite Nat.eqb_refl. destruct (Nat.eqb_spec k i); [contradiction|reflexivity].
Qed.

(* ------------------------------------------------------------------ the function of the entries *)
(* row-major entries: M i j = y (i*n+j), the layout of p_det's flat input *)
Definition Mx (n : nat) (y : nat -> R) : nat -> nat -> R := fun i j => y (i * n + j)%nat.
Definition detF (n : nat) (y : nat -> R) : R := Det n (Mx n y).

Lemma idx_inj n r c i j : (c < n)%nat -> (j < n)%nat -> (r * n + c = i * n + j)%nat -> r = i /\ c = j.
Proof.
  intros Hc Hj E. destruct (lt_eq_lt_dec r i) as [[Hlt|Heq]|Hgt].
  - exfalso. nia.
  - subst r. split; [reflexivity|lia].
  - exfalso. nia.
Qed.

(* det_naive of any list matrix is Det of its entry function *)
Lemma det_naive_Det n (a : list (list R)) : M4.det_naive NumR n a = Det n (fun i j => M4.mget NumR a i j).
Proof.
  destruct n as [|n]; [reflexivity|]. unfold Det.
  change NumR with (C04.Spec.NumK RK).
  rewrite !(C04.ProofsDet.det_naive_laplace RK) by lia.
  apply (C04.ProofsDet3.det_ext RK). intros i j Hi Hj.
  change (C04.Spec.NumK RK) with NumR. rewrite mget_mat_of by assumption. reflexivity.
Qed.

Lemma skipn_skipn_add {A} (a : nat) : forall b (l : list A), skipn a (skipn b l) = skipn (b + a) l.
Proof.
  induction b as [|b IH]; intro l; [reflexivity|].
  destruct l as [|h t]; [rewrite !skipn_nil; reflexivity|]. cbn [skipn Nat.add]. apply IH.
Qed.

Lemma nth_chunk {A} (n : nat) : forall rows (l : list A) i, (i < rows)%nat ->
  nth i (chunk n rows l) [] = firstn n (skipn (i * n) l).
Proof.
  induction rows as [|r IH]; intros l i Hi; [lia|]. cbn [chunk].
  destruct i as [|i]; [reflexivity|]. cbn [nth]. rewrite IH by lia.
  rewrite skipn_skipn_add. replace (n + i * n)%nat with (S i * n)%nat by lia. reflexivity.
Qed.

Lemma mget_chunk n (l : list R) i j : (i < n)%nat -> (j < n)%nat ->
  M4.mget NumR (chunk n n l) i j = nth (i * n + j) l 0.
Proof.
  intros Hi Hj. unfold M4.mget, M4.row, M4.vget. rewrite nth_chunk by exact Hi.
  rewrite C04.ProofsList.nth_firstn_lt by exact Hj.
  rewrite C04.ProofsList.nth_skipn_add. reflexivity.
Qed.

Lemma in_R_all_vars y m : in_R y (all_vars m) = map y (seq 0 m).
Proof. unfold in_R, all_vars. rewrite map_map. reflexivity. Qed.

(* [detF n] IS the real function computed by the program p_det n on n*n activated entries *)
Lemma detF_is_outR n y : outR (p_det n) (all_vars (n * n)) 0 y = detF n y.
Proof.
  unfold outR, runR, p_det. cbn [nth]. rewrite in_R_all_vars.
  change (M5.nx M5.NumXR) with NumR. rewrite det_naive_Det. apply Det_ext.
  intros i j Hi Hj. rewrite mget_chunk by assumption. unfold Mx.
  apply (nth_map_seq y (n * n) (i * n + j) 0). nia.
Qed.

(* ------------------------------------------------------------------ (1) d det / d a_ij = cofactor C_ij *)
(* along the coordinate line of entry (i,j) the determinant is AFFINE:
   det (x with entry (i,j) := t) = det (x with entry (i,j) := 0) + t * C_ij(x) *)
Lemma detF_line_affine n i j x t : (i < n)%nat -> (j < n)%nat ->
  detF n (upd_pt x (i * n + j) t)
  = Det n (setrow (Mx n x) i (fun c => if Nat.eqb c j then 0 else x (i * n + c)%nat)) + t * Cof n (Mx n x) i j.
Proof.
  intros Hi Hj. unfold detF, Cof. apply (Det_lin n i); [exact Hi| |].
  - intros r c Hr Hc Hne. unfold setrow, Mx, upd_pt.
    destruct (Nat.eqb_spec r i); [contradiction|].
    destruct (Nat.eqb_spec (r * n + c) (i * n + j)) as [E|_]; [|split; reflexivity].
    destruct (idx_inj n r c i j Hc Hj E). contradiction.
  - intros c Hc. unfold setrow, Mx, upd_pt, kron. rewrite Nat.eqb_refl.
    destruct (Nat.eqb_spec (i * n + c) (i * n + j)) as [E|E].
    + assert (c = j) by lia. subst c. rewrite !Nat.eqb_refl. ring.
    + destruct (Nat.eqb_spec c j) as [->|_]; [contradiction|].
      destruct (Nat.eqb_spec j c) as [->|_]; [contradiction|]. ring.
Qed.

Lemma det_partial_is_cofactor_lemma n i j x : (i < n)%nat -> (j < n)%nat ->
  partial (detF n) (i * n + j) x (Cof n (Mx n x) i j).
Proof.
  intros Hi Hj. unfold partial.
  set (a := Det n (setrow (Mx n x) i (fun c => if Nat.eqb c j then 0 else x (i * n + c)%nat))).
  set (c := Cof n (Mx n x) i j).
  apply (is_derive_ext (fun t => a + t * c)).
  - intro t. symmetry. apply detF_line_affine; assumption.
  - auto_derive; [exact I|]. ring.
Qed.

(* ------------------------------------------------------------------ (3) d log det / d a_ij = (A^-1)_ji *)
(* a left inverse is the adjugate over the determinant *)
Lemma cofactor_of_left_inverse n M X :
  (forall i j, (i < n)%nat -> (j < n)%nat -> msum n (fun c => X i c * M c j) = kron i j) ->
  forall i j, (i < n)%nat -> (j < n)%nat -> Cof n M i j = X j i * Det n M.
Proof.
  intros HL i j Hi Hj.
  (* sum_k X_jk * (sum_c M_kc C_ic) two ways *)
  assert (E1 : msum n (fun k => X j k * msum n (fun c => M k c * Cof n M i c)) = X j i * Det n M).
  { rewrite (msum_ext n _ (fun k => (X j k * Det n M) * kron k i)).
    - apply (msum_kron_r n i (fun k => X j k * Det n M) Hi).
    - intros k Hk. rewrite (cofactor_expansion_lemma n M k i Hk Hi). unfold kron.
      destruct (Nat.eqb k i); ring. }
  assert (E2 : msum n (fun k => X j k * msum n (fun c => M k c * Cof n M i c)) = Cof n M i j).
  { rewrite (msum_ext n _ (fun k => msum n (fun c => X j k * M k c * Cof n M i c))).
    2:{ intros k Hk. rewrite msum_scal. apply msum_ext. intros c Hc. ring. }
    rewrite msum_swap.
    rewrite (msum_ext n _ (fun c => kron j c * Cof n M i c)).
    - apply (msum_kron n j (fun c => Cof n M i c) Hj).
    - intros c Hc. rewrite <- (HL j c Hj Hc). rewrite Rmult_comm, msum_scal. apply msum_ext. intros k Hk. ring. }
  rewrite <- E2. exact E1.
Qed.

Lemma logdet_derivative_lemma n x (X : nat -> nat -> R) : 0 < detF n x ->
  (forall i j, (i < n)%nat -> (j < n)%nat -> msum n (fun c => X i c * Mx n x c j) = kron i j) ->
  forall i j, (i < n)%nat -> (j < n)%nat ->
    partial (fun y => ln (detF n y)) (i * n + j) x (X j i).
Proof.
  intros Hd HL i j Hi Hj. unfold partial.
  pose proof (det_partial_is_cofactor_lemma n i j x Hi Hj) as D. unfold partial in D.
  assert (E : detF n (upd_pt x (i * n + j) (x (i * n + j)%nat)) = detF n x) by (rewrite upd_pt_self; reflexivity).
  apply (is_derive_eq _ _ (scal (Cof n (Mx n x) i j) (/ detF n x))).
  - rewrite (cofactor_of_left_inverse n (Mx n x) X HL i j Hi Hj). unfold scal; cbn. unfold mult; cbn.
    fold (detF n x). field. lra.
  - apply (is_derive_comp ln (fun t => detF n (upd_pt x (i * n + j) t))); [|exact D].
    rewrite E. apply is_derive_ln. exact Hd.
Qed.

(* ------------------------------------------------------------------ (4) the determinant program is safe at EVERY point, every n *)
Section DetSafe.
Variable x : nat -> R.
Let lsafe (a : list (list expr)) : Prop := List.Forall (List.Forall (safe x)) a.

Lemma Forall_firstn {A} (P : A -> Prop) n : forall l, List.Forall P l -> List.Forall P (firstn n l).
Proof.
  induction n as [|n IH]; intros l H; [constructor|].
  destruct H as [|h t Hh Ht]; [constructor|]. cbn [firstn]. constructor; [exact Hh|apply IH; exact Ht].
Qed.
Lemma Forall_skipn {A} (P : A -> Prop) n : forall l, List.Forall P l -> List.Forall P (skipn n l).
Proof.
  induction n as [|n IH]; intros l H; [exact H|].
  destruct H as [|h t Hh Ht]; [constructor|]. cbn [skipn]. apply IH; exact Ht.
Qed.
Lemma Forall_nth_d {A} (P : A -> Prop) (d : A) : P d -> forall l i, List.Forall P l -> P (nth i l d).
Proof.
  intros Hd l. induction l as [|h t IH]; intros i H; [destruct i; exact Hd|].
  inversion H as [|h' t' Hh Ht]; subst. destruct i as [|i]; [exact Hh|]. cbn [nth]. apply IH; exact Ht.
Qed.

Lemma mget_safe a i j : lsafe a -> safe x (M4.mget (NumE x) a i j).
Proof.
  intro H. unfold M4.mget, M4.row, M4.vget.
  apply (Forall_nth_d (safe x) (Cst 0) I).
  apply (Forall_nth_d (List.Forall (safe x)) [] (List.Forall_nil _)). exact H.
Qed.

Lemma minor0_safe a j : lsafe a -> lsafe (M4.minor0 a j).
Proof.
  intro H. unfold M4.minor0, lsafe. apply Forall_map.
  assert (Ht : List.Forall (List.Forall (safe x)) (tl a)) by (destruct H; [constructor|assumption]).
  eapply Forall_impl; [|exact Ht]. intros r Hr. unfold M4.drop_col.
  apply Forall_app. split; [apply Forall_firstn|apply Forall_skipn]; exact Hr.
Qed.

Lemma det_loop_safe (g : nat -> expr) : (forall j, safe x (g j)) -> forall ks acc, safe x acc ->
  safe x (fold_left (fun det j1 => if Nat.even j1 then add (NumE x) det (g j1) else sub (NumE x) det (g j1)) ks acc).
Proof.
  intros Hg ks. induction ks as [|k t IH]; intros acc Ha; [exact Ha|].
  cbn [fold_left]. apply IH. destruct (Nat.even k); cbn; split; [exact Ha|apply Hg|exact Ha|apply Hg].
Qed.

Lemma det_naive_safe : forall n a, lsafe a -> safe x (M4.det_naive (NumE x) n a).
Proof.
  induction n as [|n IH]; intros a Ha; [exact I|].
  destruct n as [|[|m]].
  - cbn [M4.det_naive]. apply mget_safe; exact Ha.
  - cbn [M4.det_naive]. cbn [sub mul NumE safe]. repeat split; apply mget_safe; exact Ha.
  - change (M4.det_naive (NumE x) (S (S (S m))) a)
      with (fold_left (fun det j1 =>
              if Nat.even j1 then add (NumE x) det (mul (NumE x) (M4.mget (NumE x) a 0 j1) (M4.det_naive (NumE x) (S (S m)) (M4.minor0 a j1)))
              else sub (NumE x) det (mul (NumE x) (M4.mget (NumE x) a 0 j1) (M4.det_naive (NumE x) (S (S m)) (M4.minor0 a j1))))
            (seq 0 (S (S (S m)))) (zero (NumE x))).
    apply (det_loop_safe (fun j1 => mul (NumE x) (M4.mget (NumE x) a 0 j1) (M4.det_naive (NumE x) (S (S m)) (M4.minor0 a j1)))).
    + intro j. cbn [mul NumE safe]. split; [apply mget_safe; exact Ha|apply IH; apply minor0_safe; exact Ha].
    + exact I.
Qed.

Lemma chunk_safe n : forall rows l, List.Forall (safe x) l -> lsafe (chunk n rows l).
Proof.
  induction rows as [|r IH]; intros l H; [constructor|]. cbn [chunk].
  constructor; [apply Forall_firstn; exact H|apply IH; apply Forall_skipn; exact H].
Qed.

Lemma in_E_safe s : List.Forall (safe x) (in_E s).
Proof. unfold in_E. apply Forall_map. apply Forall_forall. intros p _. destruct (fst p); exact I. Qed.

Lemma det_safe_general_lemma n s : run_safe (p_det n) s x.
Proof.
  eexists. split; [reflexivity|]. constructor; [|constructor].
  apply det_naive_safe. apply chunk_safe. apply in_E_safe.
Qed.
End DetSafe.

(* the determinant jets carry the derivatives of the determinant: no hypothesis left *)
Lemma det_jets_unconditional n k o x s :
  exists J, runJ (p_det n) k o x s = Some [J] /\ holds k o (outR (p_det n) s 0) x J.
Proof.
  destruct (det_jets n k o x s (det_safe_general_lemma x n s)) as (J & HJ & HR & HH).
  destruct J as [|J0 [|J1 J]]; try discriminate HR. exists J0. split; [exact HJ|]. exact (HH 0%nat).
Qed.

Lemma det_gradient_slots_lemma n k o x : (n * n <= k)%nat -> (1 <= o)%nat ->
  exists J, runJ (p_det n) k o x (all_vars (n * n)) = Some [J] /\ jv J = detF n x /\
            forall i j, (i < n)%nat -> (j < n)%nat -> gd NumDR J (i * n + j) = Cof n (Mx n x) i j.
Proof.
  intros Hk Ho. destruct (det_jets_unconditional n k o x (all_vars (n * n))) as (J & HJ & Hv & Hg & _).
  exists J. split; [exact HJ|]. split; [rewrite Hv; apply detF_is_outR|].
  intros i j Hi Hj.
  assert (Hq : (i * n + j < k)%nat) by nia.
  pose proof (Hg Ho (i * n + j)%nat Hq) as D1. unfold partial in D1.
  pose proof (det_partial_is_cofactor_lemma n i j x Hi Hj) as D2. unfold partial in D2.
  apply (is_derive_ext _ (fun t => detF n (upd_pt x (i * n + j) t))) in D1; [|intro t; apply detF_is_outR].
  apply is_derive_unique in D1. apply is_derive_unique in D2. rewrite <- D1. exact D2.
Qed.

(* ------------------------------------------------------------------ Jacobi's formula along an arbitrary differentiable curve of matrices *)
Lemma cof_row_expand n M p i c : (p < n)%nat -> i <> p ->
  msum n (fun j => M p j * Cof n (setrow M p (fun c' => kron j c')) i c) = Cof n M i c.
Proof.
  intros Hp Hne.
  rewrite (msum_ext n _ (fun j => M p j * Cof n (setrow M i (fun c' => kron c c')) p j)).
  - rewrite <- (Det_setrow_expand n p (setrow M i (fun c' => kron c c')) (M p) Hp). unfold Cof.
    apply Det_ext. intros r c' _ _. unfold setrow.
    destruct (Nat.eqb_spec r p) as [->|_]; [|reflexivity].
    destruct (Nat.eqb_spec p i) as [E|_]; [symmetry in E; contradiction|reflexivity].
  - intros j Hj. f_equal. unfold Cof. apply Det_ext. intros r c' _ _. unfold setrow.
    destruct (Nat.eqb_spec r i) as [E1|_]; destruct (Nat.eqb_spec r p) as [E2|_]; try reflexivity.
    subst r. contradiction.
Qed.

(* rows < p move with t, rows >= p are frozen at t0 *)
Lemma jacobi_rows n t0 : forall p, (p <= n)%nat ->
  forall (M : nat -> nat -> R -> R) (dM : nat -> nat -> R),
  (forall i j, (i < n)%nat -> (j < n)%nat -> is_derive (M i j) t0 (dM i j)) ->
  is_derive (fun t => Det n (fun r c => if Nat.ltb r p then M r c t else M r c t0)) t0
            (msum p (fun i => msum n (fun j => dM i j * Cof n (fun r c => M r c t0) i j))).
Proof.
  induction p as [|p IH]; intros Hp M dM HM.
  - cbn [msum]. apply (is_derive_const (Det n (fun r c => M r c t0)) t0).
  - assert (Hpn : (p < n)%nat) by lia.
    set (M0 := fun r c => M r c t0).
    set (Mj := fun (j r c : nat) (t : R) => if Nat.eqb r p then kron j c else M r c t).
    set (dMj := fun (r c : nat) => if Nat.eqb r p then 0 else dM r c).
    set (Gj := fun (j : nat) (t : R) => Det n (fun r c => if Nat.ltb r p then Mj j r c t else Mj j r c t0)).
    set (Dj := fun (j : nat) => msum p (fun i => msum n (fun c => dMj i c * Cof n (fun r c' => Mj j r c' t0) i c))).
    assert (HG : forall j, is_derive (Gj j) t0 (Dj j)).
    { intro j. apply (IH ltac:(lia) (Mj j) dMj). intros i c Hi Hc. unfold Mj, dMj.
      destruct (Nat.eqb i p); [apply (is_derive_const (kron j c) t0)|apply HM; assumption]. }
    (* expansion along row p *)
    apply (is_derive_ext (fun t => msum n (fun j => M p j t * Gj j t))).
    { intro t. symmetry.
      set (N := fun r c => if Nat.ltb r (S p) then M r c t else M r c t0).
      transitivity (Det n (setrow N p (fun c => M p c t))).
      - apply Det_ext. intros r c _ _. unfold setrow, N.
        destruct (Nat.eqb_spec r p) as [->|_]; [|reflexivity].
        destruct (Nat.ltb_spec p (S p)); [reflexivity|lia].
      - rewrite (Det_setrow_expand n p N (fun c => M p c t) Hpn). apply msum_ext. intros j Hj. f_equal.
        unfold Cof, Gj. apply Det_ext. intros r c _ _. unfold setrow, N, Mj.
        destruct (Nat.eqb_spec r p) as [->|Hne].
        + destruct (Nat.ltb p p); reflexivity.
        + destruct (Nat.ltb_spec r p); destruct (Nat.ltb_spec r (S p)); try reflexivity; lia. }
    apply (is_derive_eq _ _ (msum n (fun j => dM p j * Gj j t0 + M p j t0 * Dj j))).
    2:{ apply (is_derive_msum n (fun j t => M p j t * Gj j t)). intros j Hj.
        pose proof (is_derive_mult (M p j) (Gj j) t0 _ _ (HM p j Hpn Hj) (HG j) Rmult_comm) as D. exact D. }
    (* algebra *)
    cbn [msum]. rewrite msum_plus, Rplus_comm. f_equal.
    + (* the frozen-row terms reassemble the cofactors of M0 *)
      rewrite (msum_ext n _ (fun j => msum p (fun i => msum n (fun c => dM i c * (M0 p j * Cof n (setrow M0 p (fun c' => kron j c')) i c))))).
      2:{ intros j Hj. unfold Dj. rewrite msum_scal. apply msum_ext. intros i Hi. rewrite msum_scal.
          apply msum_ext. intros c Hc. unfold dMj. destruct (Nat.eqb_spec i p); [lia|].
          change (fun r c' => Mj j r c' t0) with (setrow M0 p (fun c' => kron j c')). unfold M0. ring. }
      rewrite msum_swap. apply msum_ext. intros i Hi. rewrite msum_swap. apply msum_ext. intros c Hc.
      rewrite <- msum_scal. rewrite (cof_row_expand n M0 p i c Hpn ltac:(lia)). reflexivity.
    + apply msum_ext. intros j Hj. f_equal. unfold Gj, Cof. apply Det_ext. intros r c _ _.
      unfold Mj, setrow. destruct (Nat.ltb r p); reflexivity.
Qed.

(* Jacobi's formula:  d/dt det M(t) = sum_ij M'(t)_ij * C_ij(M(t))  for every differentiable curve *)
Lemma jacobi_formula_lemma n (M : nat -> nat -> R -> R) (dM : nat -> nat -> R) t0 :
  (forall i j, (i < n)%nat -> (j < n)%nat -> is_derive (M i j) t0 (dM i j)) ->
  is_derive (fun t => Det n (fun r c => M r c t)) t0
            (msum n (fun i => msum n (fun j => dM i j * Cof n (fun r c => M r c t0) i j))).
Proof.
  intro HM. apply (is_derive_ext (fun t => Det n (fun r c => if Nat.ltb r n then M r c t else M r c t0))).
  - intro t. apply Det_ext. intros r c Hr _. destruct (Nat.ltb_spec r n); [reflexivity|lia].
  - apply (jacobi_rows n t0 n (le_n n) M dM HM).
Qed.

(* d/dt log det M(t) = tr (M(t)^-1 M'(t)) *)
Lemma logdet_differential_lemma n (M : nat -> nat -> R -> R) (dM : nat -> nat -> R) (X : nat -> nat -> R) t0 :
  (forall i j, (i < n)%nat -> (j < n)%nat -> is_derive (M i j) t0 (dM i j)) ->
  0 < Det n (fun r c => M r c t0) ->
  (forall i j, (i < n)%nat -> (j < n)%nat -> msum n (fun c => X i c * M c j t0) = kron i j) ->
  is_derive (fun t => ln (Det n (fun r c => M r c t))) t0
            (msum n (fun j => msum n (fun i => X j i * dM i j))).
Proof.
  intros HM Hd HL. set (M0 := fun r c => M r c t0) in *.
  apply (is_derive_eq _ _ (scal (msum n (fun i => msum n (fun j => dM i j * Cof n M0 i j))) (/ Det n M0))).
  - unfold scal; cbn. unfold mult; cbn. rewrite msum_swap.
    rewrite Rmult_comm, msum_scal. apply msum_ext. intros j Hj. rewrite msum_scal. apply msum_ext. intros i Hi.
    rewrite (cofactor_of_left_inverse n M0 X HL i j Hi Hj). field. lra.
  - apply (is_derive_comp ln (fun t => Det n (fun r c => M r c t))).
    + apply is_derive_ln. exact Hd.
    + apply jacobi_formula_lemma. exact HM.
Qed.

(* ------------------------------------------------------------------ the same statements for the program's own function *)
Lemma partial_ext_all (F F' : (nat -> R) -> R) q x d : (forall y, F y = F' y) -> partial F' q x d -> partial F q x d.
Proof.
  intros E H. unfold partial in *. apply (is_derive_ext (fun t => F' (upd_pt x q t))); [|exact H].
  intro t. symmetry. apply E.
Qed.

(* directional form: the derivative of log det along the line x + t*dA is tr(X dA) *)
Lemma logdet_directional_lemma n x (dA : nat -> R) (X : nat -> nat -> R) : 0 < detF n x ->
  (forall i j, (i < n)%nat -> (j < n)%nat -> msum n (fun c => X i c * Mx n x c j) = kron i j) ->
  is_derive (fun t => ln (detF n (fun q => x q + t * dA q))) 0
            (msum n (fun j => msum n (fun i => X j i * Mx n dA i j))).
Proof.
  intros Hd HL.
  set (M := fun (i j : nat) (t : R) => x (i * n + j)%nat + t * dA (i * n + j)%nat).
  assert (E0 : forall r c, M r c 0 = Mx n x r c) by (intros r c; unfold M, Mx; ring).
  apply (logdet_differential_lemma n M (Mx n dA) X 0).
  - intros i j Hi Hj. unfold M, Mx. auto_derive; [exact I|]. ring.
  - rewrite (Det_ext n _ (Mx n x)); [exact Hd|]. intros r c _ _. apply E0.
  - intros i j Hi Hj. rewrite <- (HL i j Hi Hj). apply msum_ext. intros c Hc. rewrite E0. reflexivity.
Qed.

(* ================================================================== statements *)
(* [detF n] is the real function of the determinant program on n*n activated entries (row-major) *)
Theorem detF_is_program_function : forall n y, outR (p_det n) (all_vars (n * n)) 0 y = detF n y.
Proof. exact detF_is_outR. Qed.

(* two equal rows (any two) => determinantNaive = 0, at the reals, every n *)
Theorem determinant_two_equal_rows : forall n i k (M : nat -> nat -> R),
  (i < n)%nat -> (k < n)%nat -> i <> k -> (forall j, (j < n)%nat -> M i j = M k j) -> Det n M = 0.
Proof. exact Det_rows_equal. Qed.

(* (1) the partial derivative of det with respect to entry (i,j) is the cofactor C_ij, every n, every point *)
Theorem det_partial_is_cofactor : forall n i j x, (i < n)%nat -> (j < n)%nat ->
  partial (detF n) (i * n + j) x (Cof n (Mx n x) i j).
Proof. exact det_partial_is_cofactor_lemma. Qed.

Theorem det_partial_is_cofactor_program : forall n i j x, (i < n)%nat -> (j < n)%nat ->
  partial (outR (p_det n) (all_vars (n * n)) 0) (i * n + j) x (Cof n (Mx n x) i j).
Proof.
  intros n i j x Hi Hj. apply (partial_ext_all _ (detF n)); [apply detF_is_outR|].
  apply det_partial_is_cofactor_lemma; assumption.
Qed.

(* (2) adjugate identity *)
Theorem cofactor_expansion : forall n (M : nat -> nat -> R) k i, (k < n)%nat -> (i < n)%nat ->
  msum n (fun j => M k j * Cof n M i j) = if Nat.eqb k i then Det n M else 0.
Proof. exact cofactor_expansion_lemma. Qed.

(* a left inverse is the transposed cofactor matrix over the determinant *)
Theorem left_inverse_is_adjugate_over_det : forall n (M X : nat -> nat -> R),
  (forall i j, (i < n)%nat -> (j < n)%nat -> msum n (fun c => X i c * M c j) = kron i j) ->
  forall i j, (i < n)%nat -> (j < n)%nat -> Cof n M i j = X j i * Det n M.
Proof. exact cofactor_of_left_inverse. Qed.

(* (3) the gradient of log det is the transposed inverse, every n *)
Theorem logdet_derivative_general_n : forall n x (X : nat -> nat -> R), 0 < detF n x ->
  (forall i j, (i < n)%nat -> (j < n)%nat -> msum n (fun c => X i c * Mx n x c j) = kron i j) ->
  forall i j, (i < n)%nat -> (j < n)%nat ->
    partial (fun y => ln (detF n y)) (i * n + j) x (X j i).
Proof. exact logdet_derivative_lemma. Qed.

Theorem logdet_derivative_general_n_program : forall n x (X : nat -> nat -> R),
  0 < outR (p_det n) (all_vars (n * n)) 0 x ->
  (forall i j, (i < n)%nat -> (j < n)%nat -> msum n (fun c => X i c * x (c * n + j)%nat) = kron i j) ->
  forall i j, (i < n)%nat -> (j < n)%nat ->
    partial (fun y => ln (outR (p_det n) (all_vars (n * n)) 0 y)) (i * n + j) x (X j i).
Proof.
  intros n x X Hd HL i j Hi Hj.
  apply (partial_ext_all _ (fun y => ln (detF n y))); [intro y; rewrite detF_is_outR; reflexivity|].
  rewrite detF_is_outR in Hd. apply logdet_derivative_lemma; assumption.
Qed.

(* Jacobi's formula along any differentiable curve of matrices *)
Theorem jacobi_formula : forall n (M : nat -> nat -> R -> R) (dM : nat -> nat -> R) t0,
  (forall i j, (i < n)%nat -> (j < n)%nat -> is_derive (M i j) t0 (dM i j)) ->
  is_derive (fun t => Det n (fun r c => M r c t)) t0
            (msum n (fun i => msum n (fun j => dM i j * Cof n (fun r c => M r c t0) i j))).
Proof. exact jacobi_formula_lemma. Qed.

(* d log det A = tr(A^-1 dA): along any differentiable curve ... *)
Theorem logdet_differential_is_trace_curve :
  forall n (M : nat -> nat -> R -> R) (dM : nat -> nat -> R) (X : nat -> nat -> R) t0,
  (forall i j, (i < n)%nat -> (j < n)%nat -> is_derive (M i j) t0 (dM i j)) ->
  0 < Det n (fun r c => M r c t0) ->
  (forall i j, (i < n)%nat -> (j < n)%nat -> msum n (fun c => X i c * M c j t0) = kron i j) ->
  is_derive (fun t => ln (Det n (fun r c => M r c t))) t0
            (msum n (fun j => msum n (fun i => X j i * dM i j))).
Proof. exact logdet_differential_lemma. Qed.

(* ... in particular the directional derivative of log det at x in ANY direction dA is
   tr(X dA) = sum_j (X dA)_jj = sum_j sum_i X_ji dA_ij, which is also the gradient of (3)
   contracted with dA *)
Theorem logdet_differential_is_trace : forall n x (dA : nat -> R) (X : nat -> nat -> R), 0 < detF n x ->
  (forall i j, (i < n)%nat -> (j < n)%nat -> msum n (fun c => X i c * Mx n x c j) = kron i j) ->
  is_derive (fun t => ln (detF n (fun q => x q + t * dA q))) 0
            (msum n (fun j => msum n (fun i => X j i * Mx n dA i j))) /\
  (exists g : nat -> nat -> R,
     (forall i j, (i < n)%nat -> (j < n)%nat -> partial (fun y => ln (detF n y)) (i * n + j) x (g i j)) /\
     msum n (fun i => msum n (fun j => g i j * Mx n dA i j))
     = msum n (fun j => msum n (fun i => X j i * Mx n dA i j))).
Proof.
  intros n x dA X Hd HL. split; [apply logdet_directional_lemma; assumption|].
  exists (fun i j => X j i). split.
  - intros i j Hi Hj. apply logdet_derivative_lemma; assumption.
  - apply msum_swap.
Qed.

(* (4) the determinant program executes only + - *: safe at every point, every n, every input spec *)
Theorem det_safe_general : forall n s x, run_safe (p_det n) s x.
Proof. intros n s x. apply det_safe_general_lemma. Qed.

Theorem determinant_derivatives_unconditional : forall n k o x s,
  exists J, runJ (p_det n) k o x s = Some [J] /\ holds k o (outR (p_det n) s 0) x J.
Proof. exact det_jets_unconditional. Qed.

(* the gradient slots the library computes for the determinant ARE the cofactors *)
Theorem det_gradient_slots_are_cofactors : forall n k o x, (n * n <= k)%nat -> (1 <= o)%nat ->
  exists J, runJ (p_det n) k o x (all_vars (n * n)) = Some [J] /\ jv J = detF n x /\
            forall i j, (i < n)%nat -> (j < n)%nat -> gd NumDR J (i * n + j) = Cof n (Mx n x) i j.
Proof. exact det_gradient_slots_lemma. Qed.

(* ------------------------------------------------------------------ examples *)
(* the cofactor carries its sign: 2 x 2 and one 3 x 3 entry *)
Example cofactors_2x2 : forall M : nat -> nat -> R,
  Cof 2 M 0 0 = M 1%nat 1%nat /\ Cof 2 M 0 1 = - M 1%nat 0%nat /\
  Cof 2 M 1 0 = - M 0%nat 1%nat /\ Cof 2 M 1 1 = M 0%nat 0%nat.
Proof. intro M. unfold Cof, Det, setrow, kron. cbn. repeat split; ring. Qed.

Example cofactor_3x3_12 : forall M : nat -> nat -> R,
  Cof 3 M 1 2 = - (M 0%nat 0%nat * M 2%nat 1%nat - M 0%nat 1%nat * M 2%nat 0%nat).
Proof. intro M. unfold Cof, Det, setrow, kron. cbn. ring. Qed.

(* the hypotheses of (3) are satisfiable: x = [[2,1],[1,1]], det = 1, inverse [[1,-1],[-1,2]] *)
Example logdet_hypotheses_example :
  let x := fun q => nth q [2; 1; 1; 1] 0 in
  let X := fun i j => nth (i * 2 + j) [1; -1; -1; 2] 0 in
  0 < detF 2 x /\
  (forall i j, (i < 2)%nat -> (j < 2)%nat -> msum 2 (fun c => X i c * Mx 2 x c j) = kron i j) /\
  partial (fun y => ln (detF 2 y)) 1 x (-1).
Proof.
  intros x X.
  assert (Hd : 0 < detF 2 x) by (unfold detF, Det, Mx, x; cbn; lra).
  assert (HL : forall i j, (i < 2)%nat -> (j < 2)%nat -> msum 2 (fun c => X i c * Mx 2 x c j) = kron i j).
  { intros i j Hi Hj.
    destruct i as [|[|i]]; [| |lia]; (destruct j as [|[|j]]; [| |lia]); unfold X, Mx, x, kron; cbn; ring. }
  split; [exact Hd|]. split; [exact HL|].
  exact (logdet_derivative_lemma 2 x X Hd HL 0 1 ltac:(lia) ltac:(lia)).
Qed.

(* ------------------------------------------------------------------ second order: d^2(A^-1) for a matrix moving with constant velocity dA
   X'' = (X dA X) dA X + X dA (X dA X)   ( = 2 X dA X dA X ),  every n.
   Hypotheses: near t0, A(t) has derivative dA (constant, e.g. A(t) = A0 + t dA), X(t) is a two-sided
   inverse of A(t) with derivative dX(t), and dX is differentiable at t0 with derivative ddX. *)
Lemma is_derive_triple (f g : R -> R) (a df dg t0 : R) :
  is_derive f t0 df -> is_derive g t0 dg ->
  is_derive (fun t => f t * a * g t) t0 (df * a * g t0 + f t0 * a * dg).
Proof.
  intros Hf Hg.
  assert (E : (df * a + f t0 * 0) * g t0 + (f t0 * a) * dg = df * a * g t0 + f t0 * a * dg) by ring.
  apply (is_derive_eq _ _ _ _ E).
  pose proof (is_derive_mult f (fun _ => a) t0 _ _ Hf (is_derive_const a t0) Rmult_comm) as D1.
  pose proof (is_derive_mult (fun t => f t * a) g t0 _ _ D1 Hg Rmult_comm) as D2.
  exact D2.
Qed.

Theorem inverse_second_derivative_formula n (A X dX : nat -> nat -> R -> R) (dA ddX : nat -> nat -> R) t0 :
  locally t0 (fun t => forall i j, (i < n)%nat -> (j < n)%nat -> is_derive (A i j) t (dA i j)) ->
  locally t0 (fun t => forall i j, (i < n)%nat -> (j < n)%nat -> is_derive (X i j) t (dX i j t)) ->
  (forall i j, (i < n)%nat -> (j < n)%nat -> is_derive (dX i j) t0 (ddX i j)) ->
  locally t0 (fun t => forall i j, (i < n)%nat -> (j < n)%nat -> msum n (fun c => A i c t * X c j t) = kron i j) ->
  locally t0 (fun t => forall i j, (i < n)%nat -> (j < n)%nat -> msum n (fun c => X i c t * A c j t) = kron i j) ->
  let P := fun i j => msum n (fun c => msum n (fun d => X i c t0 * dA c d * X d j t0)) in
  forall i j, (i < n)%nat -> (j < n)%nat ->
    ddX i j = msum n (fun c => msum n (fun d => P i c * dA c d * X d j t0))
            + msum n (fun c => msum n (fun d => X i c t0 * dA c d * P d j)).
Proof.
  intros HA HX HdX HR HLf P i j Hi Hj.
  (* the first-order formula holds at every t near t0 *)
  assert (S1 : locally t0 (fun t => forall p q, (p < n)%nat -> (q < n)%nat ->
             dX p q t = - msum n (fun c => msum n (fun d => X p c t * dA c d * X d q t)))).
  { pose proof (locally_locally _ _ HR) as HR'.
    generalize (filter_and _ _ HA (filter_and _ _ HX (filter_and _ _ HR' HLf))).
    apply filter_imp. intros t (Ha & Hx & Hr & Hl) p q Hp Hq.
    exact (inverse_derivative_formula n A X dA (fun a b => dX a b t) t Ha Hx Hr Hl p q Hp Hq). }
  pose proof (locally_singleton _ _ S1) as S2.
  pose proof (locally_singleton _ _ HX) as HX0.
  (* differentiate the formula *)
  assert (D : is_derive (fun t => - msum n (fun c => msum n (fun d => X i c t * dA c d * X d j t))) t0
                (- msum n (fun c => msum n (fun d => dX i c t0 * dA c d * X d j t0 + X i c t0 * dA c d * dX d j t0)))).
  { apply (is_derive_opp (fun t => msum n (fun c => msum n (fun d => X i c t * dA c d * X d j t)))).
    apply (is_derive_msum n (fun c t => msum n (fun d => X i c t * dA c d * X d j t))). intros c Hc.
    apply (is_derive_msum n (fun d t => X i c t * dA c d * X d j t)). intros d Hd.
    apply is_derive_triple; apply HX0; assumption. }
  assert (D' : is_derive (dX i j) t0
                (- msum n (fun c => msum n (fun d => dX i c t0 * dA c d * X d j t0 + X i c t0 * dA c d * dX d j t0)))).
  { eapply is_derive_ext_loc; [|exact D].
    generalize S1. apply filter_imp. intros t Ht. symmetry. apply Ht; assumption. }
  pose proof (HdX i j Hi Hj) as D2.
  apply is_derive_unique in D'. apply is_derive_unique in D2. rewrite <- D2, D'.
  rewrite <- msum_plus.
  replace (- msum n (fun c => msum n (fun d => dX i c t0 * dA c d * X d j t0 + X i c t0 * dA c d * dX d j t0)))
    with ((-1) * msum n (fun c => msum n (fun d => dX i c t0 * dA c d * X d j t0 + X i c t0 * dA c d * dX d j t0))) by ring.
  rewrite msum_scal. apply msum_ext. intros c Hc. rewrite <- msum_plus, msum_scal. apply msum_ext. intros d Hd.
  rewrite (S2 i c Hi Hc), (S2 d j Hd Hj). fold (P i c). fold (P d j). ring.
Qed.

(* the hypotheses are satisfiable: n = 1, A(t) = t, X(t) = 1/t at t0 = 1:  X'' = 2 = 1*1*1 + 1*1*1 *)
Example inverse_second_derivative_example :
  let A := fun (_ _ : nat) (t : R) => t in
  let X := fun (_ _ : nat) (t : R) => / t in
  let dX := fun (_ _ : nat) (t : R) => - / (t * t) in
  let dA := fun (_ _ : nat) => 1 in
  let ddX := fun (_ _ : nat) => 2 in
  locally 1 (fun t => forall i j, (i < 1)%nat -> (j < 1)%nat -> is_derive (A i j) t (dA i j)) /\
  locally 1 (fun t => forall i j, (i < 1)%nat -> (j < 1)%nat -> is_derive (X i j) t (dX i j t)) /\
  (forall i j, (i < 1)%nat -> (j < 1)%nat -> is_derive (dX i j) 1 (ddX i j)) /\
  locally 1 (fun t => forall i j, (i < 1)%nat -> (j < 1)%nat -> msum 1 (fun c => A i c t * X c j t) = kron i j) /\
  locally 1 (fun t => forall i j, (i < 1)%nat -> (j < 1)%nat -> msum 1 (fun c => X i c t * A c j t) = kron i j).
Proof.
  intros A X dX dA ddX.
  assert (Hpos : locally 1 (fun t : R => 0 < t)).
  { exists (mkposreal (1 / 2) ltac:(lra)). intros t Ht. apply Rabs_def2 in Ht. cbn in Ht. lra. }
  split; [|split; [|split; [|split]]].
  - apply filter_forall. intros t i j _ _. unfold A, dA. auto_derive; [exact I|]. ring.
  - generalize Hpos. apply filter_imp. intros t Ht i j _ _. unfold X, dX.
    auto_derive; [lra|]. field. lra.
  - intros i j _ _. unfold dX, ddX. auto_derive; [lra|]. field.
  - generalize Hpos. apply filter_imp. intros t Ht i j Hi Hj.
    assert (i = 0%nat) by lia. assert (j = 0%nat) by lia. subst. unfold A, X, kron. cbn. field. lra.
  - generalize Hpos. apply filter_imp. intros t Ht i j Hi Hj.
    assert (i = 0%nat) by lia. assert (j = 0%nat) by lia. subst. unfold A, X, kron. cbn. field. lra.
Qed.
