(* C06/ProofsBuf.v (round 2) — recycled InSitu buffers.

   The buffer-taking models (C04.Model.cholesky with its L0 argument, C04.Model2: backsub_run_v2,
   m_inverse_insitu, det_pd_insitu) return the SAME result whatever well-shaped content the caller's
   buffers held before — for EVERY carrier, so in particular for the jet carrier, whose "content"
   includes the activity flag, the gradient and the Hessian of every buffer entry (the derivative
   state a previous call left behind).  C04 proves this for InSitu.Id / A / B / X; the Cholesky
   factor buffer InSitu.Cholesky.L (excluded there) is done here: every entry of L the factorisation
   reads was written before in the same run, and the strict upper triangle is overwritten with the
   constant 0 ("clear upper triangular part": the loop whose indices the seeded regression C06-4
   swapped). *)
From Coq Require Import List Bool Arith Lia.
From ADV Require Import Base.Num C04.Model C04.Model2 C04.ProofsList C04.ProofsBuf C04.ProofsHist.
Import ListNotations.

Section Chol.
Context {A : Type} (N : Num A).
Variable n : nat.
Variable Am : list (list A).

Lemma fold_left_ext_in {S X} (f g : S -> X -> S) (l : list X) :
  (forall a x, In x l -> f a x = g a x) -> forall a, fold_left f l a = fold_left g l a.
Proof.
  induction l as [|x l IH]; intros H a; simpl; [reflexivity|].
  rewrite (H a x) by (left; reflexivity). apply IH. intros; apply H; right; assumption.
Qed.

(* rows < i agree everywhere, row i agrees on the columns < j *)
Definition agree (i j : nat) (L L' : list (list A)) : Prop :=
  (forall r c, r < i -> c < n -> mget N L r c = mget N L' r c) /\
  (forall c, c < j -> c < n -> mget N L i c = mget N L' i c).

Definition orel (i j : nat) (o o' : option (list (list A))) : Prop :=
  match o, o' with
  | None, None => True
  | Some L, Some L' => wfm n L /\ wfm n L' /\ agree i j L L'
  | _, _ => False
  end.

(* the body of the column loop of row i *)
Definition cstep (i : nat) (o : option (list (list A))) (j : nat) : option (list (list A)) :=
  match o with None => None | Some L =>
    let s := fold_left (fun s k => add N s (mul N (mget N L i k) (mget N L j k))) (seq 0 j) (zero N) in
    let t := sub N (mget N Am i j) s in
    if Nat.eqb i j then
      if ltb N t (zero N) then None else Some (mset L i j (nsqrt N t))
    else Some (mset L i j (div N t (mget N L j j)))
  end.

Lemma chol_row_unfold o i :
  chol_row N n Am o i =
  match fold_left (cstep i) (seq 0 (S i)) o with
  | None => None
  | Some L => Some (fold_left (fun L j => mset L i j (zero N)) (seq (S i) (n - S i)) L)
  end.
Proof. reflexivity. Qed.

Lemma cstep_rel i j o o' : i < n -> j <= i -> orel i j o o' -> orel i (S j) (cstep i o j) (cstep i o' j).
Proof.
  intros Hi Hj H. destruct o as [L|], o' as [L'|]; simpl in H; try contradiction; [|exact I].
  destruct H as (W & W' & (Hrows & Hrow)). unfold cstep.
  assert (Es : fold_left (fun s k => add N s (mul N (mget N L i k) (mget N L j k))) (seq 0 j) (zero N)
             = fold_left (fun s k => add N s (mul N (mget N L' i k) (mget N L' j k))) (seq 0 j) (zero N)).
  { apply fold_left_ext_in. intros a k Hk. apply in_seq in Hk.
    rewrite (Hrow k) by lia.
    destruct (Nat.eq_dec j i) as [->|Hne].
    - rewrite (Hrow k) by lia. reflexivity.
    - rewrite (Hrows j k) by lia. reflexivity. }
  rewrite Es.
  set (t := sub N (mget N Am i j) _).
  assert (Hagree : forall v, agree i (S j) (mset L i j v) (mset L' i j v)).
  { intro v. split.
    - intros r c Hr Hc. rewrite !(mget_mset N n) by (auto; lia).
      destruct (Nat.eqb_spec i r); [lia|]. simpl. apply Hrows; assumption.
    - intros c Hc Hcn. rewrite !(mget_mset N n) by (auto; lia).
      rewrite Nat.eqb_refl. simpl. destruct (Nat.eqb_spec j c); [reflexivity|]. apply Hrow; lia. }
  destruct (Nat.eqb i j) eqn:Eij.
  - destruct (ltb N t (zero N)); simpl; [exact I|].
    split; [apply wfm_mset; exact W|]. split; [apply wfm_mset; exact W'|]. apply Hagree.
  - apply Nat.eqb_neq in Eij.
    rewrite (Hrows j j) by lia. simpl.
    split; [apply wfm_mset; exact W|]. split; [apply wfm_mset; exact W'|]. apply Hagree.
Qed.

Lemma cfold_rel i : i < n -> forall len j0 o o', j0 + len <= S i -> orel i j0 o o' ->
  orel i (j0 + len) (fold_left (cstep i) (seq j0 len) o) (fold_left (cstep i) (seq j0 len) o').
Proof.
  intros Hi. induction len as [|len IH]; intros j0 o o' Hb H; simpl.
  - rewrite Nat.add_0_r. exact H.
  - replace (j0 + S len) with (S j0 + len) by lia. apply IH; [lia|]. apply cstep_rel; [exact Hi|lia|exact H].
Qed.

Lemma clear_rel i : i < n -> forall len j0 L L', j0 + len <= n -> wfm n L -> wfm n L' -> agree i j0 L L' ->
  let F := fun (L : list (list A)) j => mset L i j (zero N) in
  wfm n (fold_left F (seq j0 len) L) /\ wfm n (fold_left F (seq j0 len) L') /\
  agree i (j0 + len) (fold_left F (seq j0 len) L) (fold_left F (seq j0 len) L').
Proof.
  intros Hi. induction len as [|len IH]; intros j0 L L' Hb W W' H F; simpl.
  - rewrite Nat.add_0_r. auto.
  - replace (j0 + S len) with (S j0 + len) by lia.
    apply IH; [lia|apply wfm_mset; exact W|apply wfm_mset; exact W'|].
    assert (Hj : j0 < n) by lia.
    destruct H as (Hrows & Hrow). unfold F. split.
    + intros r c Hr Hc. rewrite !(mget_mset N n) by auto.
      destruct (Nat.eqb_spec i r); [lia|]. simpl. apply Hrows; assumption.
    + intros c Hc Hcn. rewrite !(mget_mset N n) by auto. rewrite Nat.eqb_refl. simpl.
      destruct (Nat.eqb_spec j0 c); [reflexivity|]. apply Hrow; lia.
Qed.

Lemma row_rel i o o' : i < n -> orel i 0 o o' -> orel (S i) 0 (chol_row N n Am o i) (chol_row N n Am o' i).
Proof.
  intros Hi H. rewrite !chol_row_unfold.
  pose proof (cfold_rel i Hi (S i) 0 o o' (Nat.le_refl _) H) as R. simpl Nat.add in R.
  destruct (fold_left (cstep i) (seq 0 (S i)) o) as [L|], (fold_left (cstep i) (seq 0 (S i)) o') as [L'|];
    simpl in R; try contradiction; [|exact I].
  destruct R as (W & W' & Ag).
  assert (Hb : S i + (n - S i) <= n) by lia.
  destruct (clear_rel i Hi (n - S i) (S i) L L' Hb W W' Ag) as (V & V' & Ag2).
  replace (S i + (n - S i)) with n in Ag2 by lia.
  simpl. split; [exact V|]. split; [exact V'|]. destruct Ag2 as (Hrows & Hrow). split.
  - intros r c Hr Hc. destruct (Nat.eq_dec r i) as [->|Hne]; [apply Hrow; assumption|apply Hrows; [lia|assumption]].
  - intros c Hc. lia.
Qed.

Lemma rows_rel : forall len i0 o o', i0 + len <= n -> orel i0 0 o o' ->
  orel (i0 + len) 0 (fold_left (chol_row N n Am) (seq i0 len) o) (fold_left (chol_row N n Am) (seq i0 len) o').
Proof.
  induction len as [|len IH]; intros i0 o o' Hb H; simpl.
  - rewrite Nat.add_0_r. exact H.
  - replace (i0 + S len) with (S i0 + len) by lia. apply IH; [lia|]. apply row_rel; [lia|exact H].
Qed.

(* the Cholesky factorisation does not depend on the prior content of the factor buffer *)
Theorem cholesky_L0_indep (L0 L0' : list (list A)) : wfm n L0 -> wfm n L0' ->
  cholesky N n Am L0 = cholesky N n Am L0'.
Proof.
  intros W W'. unfold cholesky.
  assert (H0 : orel 0 0 (Some L0) (Some L0')).
  { simpl. split; [exact W|]. split; [exact W'|]. split; intros; lia. }
  pose proof (rows_rel n 0 (Some L0) (Some L0') (Nat.le_refl _) H0) as R. simpl Nat.add in R.
  match goal with |- match ?a with _ => _ end = match ?b with _ => _ end =>
    change (orel n 0 a b) in R; destruct a as [L|], b as [L'|] end; simpl in R; try contradiction; [|reflexivity].
  destruct R as (V & V' & (Hrows & _)). f_equal. apply (mat_ext N n); auto.
Qed.

End Chol.

Section Routines.
Context {A : Type} (N : Num A).

(* matrixInverse.Run with ALL four caller-supplied buffers arbitrary (C04's theorem + Cholesky.L) *)
Definition wf_all_bufs (n : nat) (bf : inv_bufs (A:=A)) : Prop :=
  (forall b, bId bf = Some b -> wfm n b) /\ (forall b, bA bf = Some b -> wfm n b) /\
  (forall b, bB bf = Some b -> length b = n) /\ (forall b, bL bf = Some b -> wfm n b).

Theorem m_inverse_all_bufs_indep dense mode n omsk bf m :
  wfm n m -> wf_all_bufs n bf ->
  m_inverse_insitu N dense mode n omsk bf m = m_inverse_v2 N dense mode n omsk m.
Proof.
  intros Hm (HId & HA & HB & HL).
  set (bf0 := mkBufs (bId bf) (bA bf) (bB bf) None).
  assert (W0 : wf_inv_bufs n bf0) by (unfold wf_inv_bufs, bf0; simpl; auto).
  rewrite <- (m_inverse_insitu_indep N dense mode n omsk bf0 m Hm W0).
  unfold m_inverse_insitu, bf0. cbn [bId bA bB bL].
  destruct mode; try reflexivity.
  set (m' := match omsk with Some s => mask_ident N n s (buf_m N n (bA bf)) m | None => m end).
  rewrite (cholesky_L0_indep N n m' (buf_m N n (bL bf)) (buf_m N n None)); [reflexivity| |apply zmat_wfm].
  apply buf_m_wfm. exact HL.
Qed.

(* determinant.Run(a, PositiveDefinite [, LogScale], &InSitu{Cholesky.L}) *)
Theorem det_pd_insitu_indep lg logscale n bufL m :
  (forall b, bufL = Some b -> wfm n b) ->
  det_pd_insitu N lg logscale n bufL m = det_pd_insitu N lg logscale n None m.
Proof.
  intros HL. unfold det_pd_insitu.
  rewrite (cholesky_L0_indep N n m (buf_m N n bufL) (buf_m N n None)); [reflexivity| |apply zmat_wfm].
  apply buf_m_wfm. exact HL.
Qed.

End Routines.
