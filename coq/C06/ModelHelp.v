(* C06/ModelHelp.v — the Jacobian / Hessian helpers as the statement lists of the Go text (round 6).

     func (r *DenseReal64Matrix)  Jacobian(f, x_) / Hessian(f, x_)     matrix_dense_real64_math.go
     func (r *SparseReal64Matrix) Jacobian(f, x_) / Hessian(f, x_)     matrix_sparse_real64_math.go

   (the 32 other copies - every dense / sparse element type - are generated from the same template; the
   translator harness/c06/helpsrc.go checks on every run that they are the Real64 text up to the type name).

   [hstmt] is the statement language the four bodies are written in, [hexec] its interpreter.  The four
   programs [prog_*] below are REGENERATED from /repo by the go/ast translator on every run and compared with
   these constants (Corr.KHSrc); every theorem of ProofsHelp.v is about [hexec prog_*], i.e. about the
   translated text.  One loop nest is one statement: `for i < n { for j < m { r.At(i,j).SetFloat64(cell) } }`
   (optionally guarded by `if s := cell; s != 0.0`) writes entry (i,j) only and reads y only, so its effect is
   given entrywise.

   History (round 6): two quirks of the text were modelled, refuted and then REPAIRED in /repo -
   8241a1e (SetVariable = Alloc; ResetDerivatives; Derivative[i] = 1: the clone of a caller's vector that is already
   activated over the same number of variables at the same order no longer keeps its slots) and 9a15545 (the sparse
   copies Reset a receiver of matching dimensions before writing the non-zero derivatives).  The model follows HEAD;
   the pre-repair sparse text is still expressible ([SIfRealloc] without the else branch), so a reverted repair is
   a translated program that differs from [src_helper].
   No proofs in this file. *)
From Coq Require Import List ZArith Bool Arith Reals.
From Coq Require String.
From ADV Require Import Base.Num C06.Model.
Import ListNotations.

(* ------------------------------------------------------------------ the supplied function *)
(* expressions over the argument vector, evaluated with the operations of ANY carrier (so: on magic scalars
   by the library's chain rule) - constants are integers (ConstFloat64(z)) *)
Inductive texpr :=
| TVar (i : nat) | TCst (z : Z)
| TAdd (a b : texpr) | TSub (a b : texpr) | TMul (a b : texpr) | TDiv (a b : texpr)
| TNeg (a : texpr) | TSqrt (a : texpr) | TLog (a : texpr).

Section TEval.
Context {B : Type} (X : M5.NumX B) (lg : B -> B) (x : list B).
Let N : Num B := M5.nx X.
Fixpoint teval (t : texpr) : B :=
  match t with
  | TVar i => nth i x (zero N)
  | TCst z => of_Z N z
  | TAdd a b => add N (teval a) (teval b)
  | TSub a b => sub N (teval a) (teval b)
  | TMul a b => mul N (teval a) (teval b)
  | TDiv a b => div N (teval a) (teval b)
  | TNeg a => neg N (teval a)
  | TSqrt a => M5.gsqrt X (teval a)
  | TLog a => lg (teval a)
  end.
End TEval.

Fixpoint to_expr (t : texpr) : expr :=
  match t with
  | TVar i => Var i
  | TCst z => Cst (IZR z)
  | TAdd a b => EAdd (to_expr a) (to_expr b)
  | TSub a b => ESub (to_expr a) (to_expr b)
  | TMul a b => EMul (to_expr a) (to_expr b)
  | TDiv a b => EDiv (to_expr a) (to_expr b)
  | TNeg a => ENeg (to_expr a)
  | TSqrt a => ESqrt (to_expr a)
  | TLog a => ELog (to_expr a)
  end.

(* x.ConstAt(i) with i >= x.Dim() panics: the functions are over the k entries of the argument *)
Fixpoint scoped (k : nat) (t : texpr) : bool :=
  match t with
  | TVar i => i <? k
  | TCst _ => true
  | TAdd a b | TSub a b | TMul a b | TDiv a b => scoped k a && scoped k b
  | TNeg a | TSqrt a | TLog a => scoped k a
  end.

Definition vf_of (ts : list texpr) : vfun := fun B X lg x => map (teval X lg x) ts.

(* ------------------------------------------------------------------ a magic scalar as stored *)
Record msc (A : Type) := mkMs { mv : A; mN : nat; mO : nat; mg : list A; mh : list (list A) }.
Arguments mkMs {A}. Arguments mv {A}. Arguments mN {A}. Arguments mO {A}. Arguments mg {A}. Arguments mh {A}.

Definition ms_plain {A} (v : A) : msc A := mkMs v 0 0 [] [].
Definition lset {T} (i : nat) (v : T) (l : list T) : list T :=
  if i <? length l then firstn i l ++ v :: skipn (S i) l else l.

(* ------------------------------------------------------------------ the statement language *)
Inductive hdim := DX | DXarg | DY | DN | DM.           (* x.Dim()  x_.Dim()  y.Dim()  n  m *)
Inductive hcond := CNe (a b : hdim) | CNil | COr (a b : hcond).     (* a != b ; r == nil ; a || b *)
Inductive hcell := CGrad | CHess.                      (* y.ConstAt(i).GetDerivative(j) ; y.GetHessian(i, j) *)
Inductive hstmt :=
| SDims                                   (* n, m := r.Dims() *)
| SClone                                  (* x := x_.CloneMagicVector() *)
| SVars (o : nat)                         (* x.Variables(o) *)
| SEval                                   (* y := f(x) *)
| SIfPanic (c : hcond)                    (* if c { panic("invalid dimension") } *)
| SIfRealloc (c : hcond) (dn dm : hdim)   (* if c { n = dn; m = dm; *r = *Null<T>Matrix(n, m) } *)
| SIfReallocElseReset (c : hcond) (dn dm : hdim)   (* ... else { r.Reset() } *)
| SLoop (nz : bool) (c : hcell)           (* for i < n { for j < m { [if s := c; s != 0.0] r.At(i, j).SetFloat64(c) } } *)
| SRet                                    (* return r *)
| SUnknown (s : String.string).                  (* anything the translator does not recognise *)

Definition hdim_eqb (a b : hdim) : bool :=
  match a, b with DX, DX | DXarg, DXarg | DY, DY | DN, DN | DM, DM => true | _, _ => false end.
Fixpoint hcond_eqb (a b : hcond) : bool :=
  match a, b with
  | CNe a1 a2, CNe b1 b2 => hdim_eqb a1 b1 && hdim_eqb a2 b2
  | CNil, CNil => true
  | COr a1 a2, COr b1 b2 => hcond_eqb a1 b1 && hcond_eqb a2 b2
  | _, _ => false
  end.
Definition hcell_eqb (a b : hcell) : bool :=
  match a, b with CGrad, CGrad | CHess, CHess => true | _, _ => false end.
Definition hstmt_eqb (a b : hstmt) : bool :=
  match a, b with
  | SDims, SDims | SClone, SClone | SEval, SEval | SRet, SRet => true
  | SVars o1, SVars o2 => o1 =? o2
  | SIfPanic c1, SIfPanic c2 => hcond_eqb c1 c2
  | SIfRealloc c1 n1 m1, SIfRealloc c2 n2 m2 => hcond_eqb c1 c2 && hdim_eqb n1 n2 && hdim_eqb m1 m2
  | SIfReallocElseReset c1 n1 m1, SIfReallocElseReset c2 n2 m2 => hcond_eqb c1 c2 && hdim_eqb n1 n2 && hdim_eqb m1 m2
  | SLoop z1 c1, SLoop z2 c2 => Bool.eqb z1 z2 && hcell_eqb c1 c2
  | _, _ => false
  end.
Fixpoint hprog_eqb (a b : list hstmt) : bool :=
  match a, b with
  | [], [] => true
  | x :: a', y :: b' => hstmt_eqb x y && hprog_eqb a' b'
  | _, _ => false
  end.

(* the four bodies (source order) *)
Definition prog_jac_dense : list hstmt :=
  [SDims; SClone; SVars 1; SEval; SIfPanic (COr (CNe DX DM) (CNe DY DN)); SLoop false CGrad; SRet].
Definition prog_hes_dense : list hstmt :=
  [SDims; SIfPanic (COr (CNe DXarg DN) (CNe DN DM)); SClone; SVars 2; SEval; SLoop false CHess; SRet].
Definition prog_jac_sparse : list hstmt :=
  [SDims; SClone; SVars 1; SEval; SIfReallocElseReset (COr CNil (COr (CNe DX DM) (CNe DY DN))) DY DX; SLoop true CGrad; SRet].
Definition prog_hes_sparse : list hstmt :=
  [SDims; SIfReallocElseReset (COr CNil (COr (CNe DXarg DN) (CNe DN DM))) DXarg DXarg; SClone; SVars 2; SEval; SLoop true CHess; SRet].
(* which : 0 Jacobian / 1 Hessian ; sparse *)
Definition src_helper (which : nat) (sparse : bool) : list hstmt :=
  match which, sparse with
  | 0, false => prog_jac_dense | 0, true => prog_jac_sparse
  | 1, false => prog_hes_dense | 1, true => prog_hes_sparse
  | _, _ => []
  end.

(* ------------------------------------------------------------------ the interpreter *)
Section Exec.
Context {A : Type} (D : NumD A).
(* the magic carrier f runs on (k variables, order o): NumXJ D k o for Real64 arguments, NumXJS D r32 k o for Real32 *)
Variable XJ : nat -> nat -> M5.NumX (jet A).
Variable LJ : nat -> nat -> jet A -> jet A.
(* SetFloat64 of the receiver's element type: the identity (Real64, Float64) or float32(.) (Real32, Float32) *)
Variable st : A -> A.
Variable f : vfun.
Let N : Num A := M5.nx (dx D).

(* SetVariable(i, n, o) on the CLONE of a caller's entry: Alloc(n, o); ResetDerivatives(); Derivative[i] = 1 - whatever
   N, Order, gradient and Hessian the entry carried, the result is the fresh variable *)
Definition set_variable (i n o : nat) (a : msc A) : jet A := jvar D n o i (mv a).

Record hst := mkH {
  h_n : nat; h_m : nat;                               (* the locals n, m *)
  h_rn : nat; h_rm : nat; h_r : list (list A);        (* the receiver: dimensions, entries *)
  h_xarg : list (msc A);                              (* x_ : never written *)
  h_x : list (msc A); h_o : nat; h_xj : list (jet A); (* the clone, before / after Variables(o) *)
  h_y : list (jet A) }.

Inductive houtcome := HOk (r : list (list A)) (xarg : list (msc A)) | HPanic | HStuck.

Definition dimv (s : hst) (d : hdim) : nat :=
  match d with DX => length (h_x s) | DXarg => length (h_xarg s) | DY => length (h_y s) | DN => h_n s | DM => h_m s end.
Fixpoint condv (s : hst) (c : hcond) : bool :=
  match c with
  | CNe a b => negb (dimv s a =? dimv s b)
  | CNil => false
  | COr a b => condv s a || condv s b
  end.
Definition cellv (s : hst) (c : hcell) (i j : nat) : A :=
  match c with
  | CGrad => gd D (nth i (h_y s) (jconst (zero N))) j
  | CHess => gh D (nth 0 (h_y s) (jconst (zero N))) i j
  end.
Definition rget (r : list (list A)) (i j : nat) : A := nth j (nth i r []) (zero N).

Definition step (st1 : hstmt) (s : hst) : option hst + houtcome :=
  match st1 with
  | SDims => inl (Some (mkH (h_rn s) (h_rm s) (h_rn s) (h_rm s) (h_r s) (h_xarg s) (h_x s) (h_o s) (h_xj s) (h_y s)))
  | SClone => inl (Some (mkH (h_n s) (h_m s) (h_rn s) (h_rm s) (h_r s) (h_xarg s) (h_xarg s) (h_o s) [] (h_y s)))
  | SVars o =>
      let k := length (h_x s) in
      inl (Some (mkH (h_n s) (h_m s) (h_rn s) (h_rm s) (h_r s) (h_xarg s) (h_x s) o
                     (map (fun p => set_variable (fst p) k o (snd p)) (combine (seq 0 k) (h_x s))) (h_y s)))
  | SEval =>
      let k := length (h_x s) in
      inl (Some (mkH (h_n s) (h_m s) (h_rn s) (h_rm s) (h_r s) (h_xarg s) (h_x s) (h_o s) (h_xj s)
                     (f (jet A) (XJ k (h_o s)) (LJ k (h_o s)) (h_xj s))))
  | SIfPanic c => if condv s c then inr HPanic else inl (Some s)
  | SIfRealloc c dn dm =>
      if condv s c then
        let n := dimv s dn in
        let s1 := mkH n (h_m s) (h_rn s) (h_rm s) (h_r s) (h_xarg s) (h_x s) (h_o s) (h_xj s) (h_y s) in
        let m := dimv s1 dm in
        inl (Some (mkH n m n m (repeat (repeat (zero N) m) n) (h_xarg s) (h_x s) (h_o s) (h_xj s) (h_y s)))
      else inl (Some s)
  | SIfReallocElseReset c dn dm =>
      if condv s c then
        let n := dimv s dn in
        let s1 := mkH n (h_m s) (h_rn s) (h_rm s) (h_r s) (h_xarg s) (h_x s) (h_o s) (h_xj s) (h_y s) in
        let m := dimv s1 dm in
        inl (Some (mkH n m n m (repeat (repeat (zero N) m) n) (h_xarg s) (h_x s) (h_o s) (h_xj s) (h_y s)))
      else                                               (* r.Reset(): every stored entry becomes zero *)
        inl (Some (mkH (h_n s) (h_m s) (h_rn s) (h_rm s) (repeat (repeat (zero N) (h_rm s)) (h_rn s))
                       (h_xarg s) (h_x s) (h_o s) (h_xj s) (h_y s)))
  | SLoop nz c =>
      let n := h_n s in let m := h_m s in
      if (n =? 0) || (m =? 0) || ((n <=? h_rn s) && (m <=? h_rm s)) then
        inl (Some (mkH n m (h_rn s) (h_rm s)
                       (map (fun i => map (fun j =>
                          if (i <? n) && (j <? m) then
                            let v := cellv s c i j in
                            if nz && eqb N v (zero N) then rget (h_r s) i j else st v
                          else rget (h_r s) i j) (seq 0 (h_rm s))) (seq 0 (h_rn s)))
                       (h_xarg s) (h_x s) (h_o s) (h_xj s) (h_y s)))
      else inr HPanic                                    (* r.At(i, j): index out of range *)
  | SRet => inr (HOk (h_r s) (h_xarg s))
  | SUnknown _ => inr HStuck
  end.

Fixpoint hexec (p : list hstmt) (s : hst) : houtcome :=
  match p with
  | [] => HStuck
  | st1 :: p' => match step st1 s with
                 | inl (Some s') => hexec p' s'
                 | inl None => HStuck
                 | inr o => o
                 end
  end.

(* a call: receiver of dimensions rn x rm holding r0, argument vector xarg *)
Definition hinit (rn rm : nat) (r0 : list (list A)) (xarg : list (msc A)) : hst :=
  mkH 0 0 rn rm r0 xarg [] 0 [] [].
Definition helper_run (which : nat) (sparse : bool) (rn rm : nat) (r0 : list (list A)) (xarg : list (msc A)) : houtcome :=
  hexec (src_helper which sparse) (hinit rn rm r0 xarg).
End Exec.
