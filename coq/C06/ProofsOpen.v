(* C06/ProofsOpen.v — the domain of a straight-line program is OPEN in the box
   topology: the function an expression denotes is continuous (all coordinates
   moving at once) at every point where the expression is safe, hence
     safe x e,  0 < evalR x e,  evalR x e <> 0,  |evalR x e1| < |evalR x e2|
   all persist on a box around x.  This turns every "branch decisions fixed by
   strict inequalities on symbolic expressions" condition into [stable].

   The box of Spec.v is the ball of Coquelicot's function space nat -> R
   (fct_UniformSpace), so [locally x P] on nat -> R IS "exists delta, on the box". *)
From Coq Require Import Reals List Lia Lra Bool ZArith.
From Coquelicot Require Import Coquelicot.
From ADV Require Import Base.Num C06.Model C06.Spec C06.ParamT C06.ProofsAlg C06.ProofsAna C06.ProofsLift.
Import ListNotations.
Open Scope R_scope.

Definition pt := nat -> R.

(* ------------------------------------------------------------------ box = ball *)
Lemma locally_box (x : pt) (P : pt -> Prop) :
  locally x P <-> exists delta, 0 < delta /\ forall y, box x delta y -> P y.
Proof.
  split.
  - intros [eps H]. exists (pos eps). split; [apply cond_pos|].
    intros y Hy. apply H. intro q. exact (Hy q).
  - intros (delta & Hd & H). exists (mkposreal delta Hd). intros y Hy. apply H. intro q. exact (Hy q).
Qed.

Lemma locally_self (x : pt) (P : pt -> Prop) : locally x P -> P x.
Proof.
  intros [eps H]. apply H. intro q. apply ball_center.
Qed.

(* ------------------------------------------------------------------ continuity of the denotation *)
Lemma continuous_proj (i : nat) (x : pt) : continuous (fun y : pt => y i) x.
Proof.
  intros P [eps H]. exists eps. intros y Hy. apply H. exact (Hy i).
Qed.

Lemma evalR_continuous e (x : pt) : safe x e -> continuous (fun y : pt => evalR y e) x.
Proof.
  induction e as [q|c|e1 IHe1 e2 IHe2|e1 IHe1 e2 IHe2|e1 IHe1 e2 IHe2|e1 IHe1 e2 IHe2|e IHe|e IHe|e IHe|e IHe|e1 IHe1 e2 IHe2|];
    cbn [safe]; intros H; try contradiction.
  - apply continuous_proj.
  - apply continuous_const.
  - destruct H as [Ha Hb]. apply (continuous_plus (fun y : pt => evalR y e1) (fun y : pt => evalR y e2)); auto.
  - destruct H as [Ha Hb]. apply (continuous_minus (fun y : pt => evalR y e1) (fun y : pt => evalR y e2)); auto.
  - destruct H as [Ha Hb]. apply (continuous_mult (fun y : pt => evalR y e1) (fun y : pt => evalR y e2)); auto.
  - destruct H as (Ha & Hb & Hn).
    apply (continuous_mult (fun y : pt => evalR y e1) (fun y : pt => / evalR y e2)); [auto|].
    apply (continuous_comp (fun y : pt => evalR y e2) (fun t : R => / t)); [auto|].
    apply continuous_Rinv. exact Hn.
  - apply (continuous_opp (fun y : pt => evalR y e)). auto.
  - destruct H as (Ha & Hp).
    apply (continuous_comp (fun y : pt => evalR y e) sqrt); [auto|]. apply continuous_sqrt.
  - destruct H as (Ha & Hp).
    apply (continuous_comp (fun y : pt => evalR y e) ln); [auto|]. apply continuous_ln. exact Hp.
Qed.

(* ------------------------------------------------------------------ open conditions *)
Lemma pos_locally e (x : pt) : safe x e -> 0 < evalR x e -> locally x (fun y => 0 < evalR y e).
Proof.
  intros Hs Hp. apply (evalR_continuous e x Hs (fun t => 0 < t)). apply (open_gt 0). exact Hp.
Qed.

Lemma neq_locally e (x : pt) : safe x e -> evalR x e <> 0 -> locally x (fun y => evalR y e <> 0).
Proof.
  intros Hs Hp. apply (evalR_continuous e x Hs (fun t => t <> 0)). apply (open_neq 0). exact Hp.
Qed.

Lemma safe_locally e (x : pt) : safe x e -> locally x (fun y => safe y e).
Proof.
  induction e as [q|c|e1 IHe1 e2 IHe2|e1 IHe1 e2 IHe2|e1 IHe1 e2 IHe2|e1 IHe1 e2 IHe2|e IHe|e IHe|e IHe|e IHe|e1 IHe1 e2 IHe2|];
    cbn [safe]; intros H; try contradiction;
    try (apply filter_forall; intro; exact I);
    try (destruct H as [Ha Hb]; apply filter_and; [apply IHe1|apply IHe2]; assumption).
  - destruct H as (Ha & Hb & Hn). apply filter_and; [apply IHe1; exact Ha|]. apply filter_and; [apply IHe2; exact Hb|].
    apply neq_locally; assumption.
  - apply IHe. exact H.
  - destruct H as (Ha & Hp). apply filter_and; [apply IHe; exact Ha|]. apply pos_locally; assumption.
  - destruct H as (Ha & Hp). apply filter_and; [apply IHe; exact Ha|]. apply pos_locally; assumption.
Qed.

Lemma abs_lt_locally e1 e2 (x : pt) : safe x e1 -> safe x e2 ->
  Rabs (evalR x e1) < Rabs (evalR x e2) -> locally x (fun y => Rabs (evalR y e1) < Rabs (evalR y e2)).
Proof.
  intros H1 H2 Hlt.
  assert (C : continuous (fun y : pt => Rabs (evalR y e2) - Rabs (evalR y e1)) x).
  { apply (continuous_minus (fun y : pt => Rabs (evalR y e2)) (fun y : pt => Rabs (evalR y e1))).
    - apply (continuous_comp (fun y : pt => evalR y e2) Rabs); [apply evalR_continuous; exact H2|apply continuous_Rabs].
    - apply (continuous_comp (fun y : pt => evalR y e1) Rabs); [apply evalR_continuous; exact H1|apply continuous_Rabs]. }
  assert (L : locally x (fun y => 0 < Rabs (evalR y e2) - Rabs (evalR y e1))).
  { apply (C (fun t => 0 < t)). apply (open_gt 0). lra. }
  eapply filter_imp; [|exact L]. intros y Hy. cbv beta in Hy. lra.
Qed.

(* ------------------------------------------------------------------ the box forms (as asked for: explicit delta) *)
Theorem safe_open e x : safe x e -> 0 < evalR x e ->
  exists delta, 0 < delta /\ forall y, box x delta y -> safe y e /\ 0 < evalR y e.
Proof.
  intros Hs Hp. apply (locally_box x (fun y => safe y e /\ 0 < evalR y e)).
  apply filter_and; [apply safe_locally|apply pos_locally]; assumption.
Qed.

Theorem safe_open_neq e x : safe x e -> evalR x e <> 0 ->
  exists delta, 0 < delta /\ forall y, box x delta y -> safe y e /\ evalR y e <> 0.
Proof.
  intros Hs Hp. apply (locally_box x (fun y => safe y e /\ evalR y e <> 0)).
  apply filter_and; [apply safe_locally|apply neq_locally]; assumption.
Qed.

Theorem safe_open_abs_lt e1 e2 x : safe x e1 -> safe x e2 -> Rabs (evalR x e1) < Rabs (evalR x e2) ->
  exists delta, 0 < delta /\ forall y, box x delta y ->
    safe y e1 /\ safe y e2 /\ Rabs (evalR y e1) < Rabs (evalR y e2).
Proof.
  intros H1 H2 Hlt. apply (locally_box x (fun y => safe y e1 /\ safe y e2 /\ Rabs (evalR y e1) < Rabs (evalR y e2))).
  apply filter_and; [apply safe_locally; exact H1|]. apply filter_and; [apply safe_locally; exact H2|].
  apply abs_lt_locally; assumption.
Qed.

(* ------------------------------------------------------------------ from an open domain to [stable] *)
(* if every point of P runs the straight-line program E, and P holds near x, the branches are locally constant at x *)
Lemma stable_of_locally m s (x : pt) (P : pt -> Prop) E :
  (forall y, P y -> runE m y s = Some E) -> locally x P -> stable m s x.
Proof.
  intros HR HL. pose proof (locally_self x P HL) as Px.
  apply (locally_box x P) in HL. destruct HL as (delta & Hd & HB).
  exists delta. split; [exact Hd|]. intros y Hy. rewrite (HR x Px). apply HR. apply HB. exact Hy.
Qed.

(* the shape of the ..._jets theorems, from a run lemma, safety and an open domain *)
Lemma jets_of_run m (mR : prog_R m m) k o (x : pt) s E :
  runE m x s = Some E -> List.Forall (safe x) E ->
  exists J, runJ m k o x s = Some J /\ runR m x s = Some (map jv J) /\
            J = map (evalJ k o x) E /\
            forall q, holds k o (fun y => evalR y (nth q E (Cst 0))) x (nth q J (jconst 0)).
Proof.
  intros HE HS.
  pose proof (runJ_runE k o x m mR s) as EJ. pose proof (runR_runE x m mR s) as ER.
  rewrite HE in EJ, ER. cbn [option_map] in EJ, ER.
  exists (map (evalJ k o x) E). split; [exact EJ|]. split; [|split; [reflexivity|]].
  - rewrite ER, map_map. apply f_equal. apply map_ext. intro e. symmetry. apply jv_evalJ.
  - intro q. change (jconst 0) with (evalJ k o x (Cst 0)). rewrite map_nth.
    apply jet_lift_expr. apply nth_safe. exact HS.
Qed.

(* everything at once: a run lemma valid on a set P that holds near x, and safety of the program at x, give
   run_safe, stable and the jets both as derivatives of the function the PROGRAM computes (outR) and of the
   straight-line expressions *)
Theorem jets_of_open m (mR : prog_R m m) k o (x : pt) s E (P : pt -> Prop) :
  (forall y, P y -> runE m y s = Some E) -> locally x P -> List.Forall (safe x) E ->
  run_safe m s x /\ stable m s x /\
  exists J, runJ m k o x s = Some J /\ runR m x s = Some (map jv J) /\ J = map (evalJ k o x) E /\
    (forall q, holds k o (outR m s q) x (nth q J (jconst 0))) /\
    (forall q, holds k o (fun y => evalR y (nth q E (Cst 0))) x (nth q J (jconst 0))).
Proof.
  intros HR HL HS. pose proof (locally_self x P HL) as Px.
  assert (RS : run_safe m s x) by (exists E; split; [apply HR; exact Px|exact HS]).
  assert (ST : stable m s x) by (apply (stable_of_locally m s x P E HR HL)).
  split; [exact RS|]. split; [exact ST|].
  destruct (jets_of_run m mR k o x s E (HR x Px) HS) as (J & HJ & HRr & HJE & HH).
  exists J. split; [exact HJ|]. split; [exact HRr|]. split; [exact HJE|]. split; [|exact HH].
  destruct (jet_lift_gen m mR k o x s RS ST) as (J' & HJ' & _ & HH').
  rewrite HJ in HJ'. injection HJ' as <-. exact HH'.
Qed.
