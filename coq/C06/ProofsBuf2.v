(* C06/ProofsBuf2.v (round 2) — jet_lift for the buffer-taking routines with ARBITRARY prior buffer content.

   For every carrier: the buffer-taking program on  buffers ++ data  returns what the fresh program returns
   on  data  (ProofsBuf.v + C04's buffer theorems).  At the magic carrier the buffers are arbitrary jets -
   any value, any activity flag, any gradient, any Hessian: the state ANY earlier call (other matrix, other
   order, other activated subset) or anything else left behind - and the outputs carry the derivatives of the
   real function the fresh routine computes: the jet analogue of C04's history_independence. *)
From Coq Require Import Reals List Lia Lra Bool ZArith.
From Coquelicot Require Import Coquelicot.
From ADV Require Import Base.Num C04.ProofsBuf C04.ProofsHist.
From ADV Require Import C06.Model C06.Spec C06.ParamT C06.ProofsAlg C06.ProofsAna C06.ProofsLift C06.ModelBuf C06.ParamT2 C06.ProofsBuf.
Import ListNotations.
Local Open Scope nat_scope.

Section Lists.
Context {A : Type}.

Lemma chunk_wfm n : forall rows (l : list A), rows * n <= length l -> 
  length (chunk n rows l) = rows /\ List.Forall (fun r => length r = n) (chunk n rows l).
Proof.
  induction rows as [|r IH]; intros l H; simpl; [split; [reflexivity|constructor]|].
  assert (Hn : n <= length l) by (simpl in H; lia).
  destruct (IH (skipn n l)) as (H1 & H2); [rewrite skipn_length; simpl in H; lia|].
  split; [rewrite H1; reflexivity|]. constructor; [|exact H2]. rewrite firstn_length. lia.
Qed.

Lemma chunk_wfm_sq n (l : list A) : n * n <= length l -> wfm n (chunk n n l).
Proof. intro H. apply chunk_wfm. exact H. Qed.

Lemma chunk_app n : forall rows (l r : list A), length l = rows * n -> chunk n rows (l ++ r) = chunk n rows l.
Proof.
  induction rows as [|k IH]; intros l r H; simpl; [reflexivity|].
  simpl in H. rewrite firstn_app, skipn_app.
  replace (n - length l) with 0 by lia. simpl. rewrite app_nil_r.
  f_equal. rewrite <- (IH (skipn n l) r) by (rewrite skipn_length; lia). reflexivity.
Qed.

Lemma skipn_add k : forall j (l : list A), skipn (k + j) l = skipn j (skipn k l).
Proof. induction k as [|k IH]; intros j l; simpl; [reflexivity|]. destruct l; [rewrite skipn_nil; reflexivity|apply IH]. Qed.

Lemma skipn_app_len (l r : list A) k : length l = k -> skipn k (l ++ r) = r.
Proof. intros <-. rewrite skipn_app, skipn_all, Nat.sub_diag. reflexivity. Qed.

Lemma firstn_app_len (l r : list A) k : length l = k -> firstn k (l ++ r) = l.
Proof. intros <-. rewrite firstn_app, firstn_all, Nat.sub_diag. simpl. apply app_nil_r. Qed.
End Lists.

Section AnyCarrier.
Context {A : Type} (X : M5.NumX A) (lg : A -> A).

(* ---- for EVERY carrier: recycled buffers do not matter ---- *)
Theorem chol_buf_indep n (buf data : list A) : length buf = n * n -> n * n <= length data ->
  p_chol4_buf n A X lg (buf ++ data) = p_chol4_fresh n A X lg data.
Proof.
  intros Hb Hd. unfold p_chol4_buf, p_chol4_fresh.
  rewrite (skipn_app_len buf data (n * n) Hb), (chunk_app n n buf data Hb).
  rewrite (cholesky_L0_indep (M5.nx X) n (chunk n n data) (chunk n n buf) (M4.zmat (M5.nx X) n)); [reflexivity| |apply zmat_wfm].
  apply chunk_wfm_sq. lia.
Qed.

Theorem detpd_buf_indep logscale n (buf data : list A) : length buf = n * n ->
  p_detpd_buf logscale n A X lg (buf ++ data) = p_detpd_fresh logscale n A X lg data.
Proof.
  intros Hb. unfold p_detpd_buf, p_detpd_fresh.
  rewrite (skipn_app_len buf data (n * n) Hb), (chunk_app n n buf data Hb).
  rewrite (det_pd_insitu_indep (M5.nx X) lg logscale n (Some (chunk n n buf)) (chunk n n data)); [reflexivity|].
  intros b E. injection E as <-. apply chunk_wfm_sq. lia.
Qed.

Theorem inv_buf_indep mode n (bId bA bL bB data : list A) :
  length bId = n * n -> length bA = n * n -> length bL = n * n -> length bB = n -> n * n <= length data ->
  p_inv_buf mode n A X lg (bId ++ bA ++ bL ++ bB ++ data) = p_inv_fresh mode n A X lg data.
Proof.
  intros H1 H2 H3 H4 Hd. unfold p_inv_buf, p_inv_fresh. cbv zeta.
  rewrite (chunk_app n n bId _ H1).
  rewrite (skipn_app_len bId _ (n * n) H1), (chunk_app n n bA _ H2).
  replace (2 * (n * n)) with (n * n + n * n) by lia.
  rewrite (skipn_add (n * n) (n * n)), (skipn_app_len bId _ (n * n) H1), (skipn_app_len bA _ (n * n) H2), (chunk_app n n bL _ H3).
  replace (3 * (n * n) + n) with (n * n + (n * n + (n * n + n))) by lia.
  replace (3 * (n * n)) with (n * n + (n * n + n * n)) by lia.
  rewrite !skipn_add.
  rewrite (skipn_app_len bId _ (n * n) H1), (skipn_app_len bA _ (n * n) H2), (skipn_app_len bL _ (n * n) H3).
  rewrite (firstn_app_len bB data n H4), (skipn_app_len bB data n H4).
  rewrite (m_inverse_all_bufs_indep (M5.nx X) false mode n None _ (chunk n n data)); [reflexivity|apply chunk_wfm_sq; lia|].
  unfold wf_all_bufs. cbn [M4b.bId M4b.bA M4b.bB M4b.bL].
  split; [|split; [|split]]; intros b E; injection E as <-; try (apply chunk_wfm_sq; lia). exact H4.
Qed.

Theorem backsub_buf_indep n (bufA x0 data : list A) :
  length bufA = n * n -> length x0 = n -> n * n <= length data ->
  p_backsub_buf n A X lg (bufA ++ x0 ++ data) = p_backsub_fresh n A X lg data.
Proof.
  intros H1 H2 Hd. unfold p_backsub_buf, p_backsub_fresh. cbv zeta. f_equal.
  rewrite (chunk_app n n bufA _ H1).
  replace (n * n + n + n * n) with (n * n + (n + n * n)) by lia.
  rewrite !skipn_add.
  rewrite (skipn_app_len bufA _ (n * n) H1), (skipn_app_len x0 _ n H2), (firstn_app_len x0 _ n H2).
  apply backsub_run_v2_indep.
  - apply chunk_wfm_sq. exact Hd.
  - intros b E. injection E as <-. apply chunk_wfm_sq. lia.
  - exact H2.
  - apply repeat_length.
Qed.
End AnyCarrier.

(* ---- the magic carrier: arbitrary prior derivative state, then jet_lift of the fresh routine ---- *)
Definition runJbuf (m : prog) (k o : nat) (x : nat -> R) (bufs : list (jet R)) (s : spec) : option (list (jet R)) :=
  m (jet R) (NumXJ NumDR k o) (jlog NumDR k o) (bufs ++ in_J k o x s).

Lemma in_J_length k o x s : length (in_J k o x s) = length s.
Proof. unfold in_J. apply map_length. Qed.

Section Lift.
Variables (pb pf : prog) (pfR : prog_R pf pf) (bl dl : nat).
Hypothesis indep : forall A (X : M5.NumX A) lg (buf data : list A),
  length buf = bl -> dl <= length data -> pb A X lg (buf ++ data) = pf A X lg data.

Theorem recycled_jets_gen k o x s (bufs : list (jet R)) :
  length bufs = bl -> dl <= length s -> run_safe pf s x -> stable pf s x ->
  exists J, runJbuf pb k o x bufs s = Some J /\ runR pf x s = Some (map jv J) /\
            forall q, holds k o (outR pf s q) x (nth q J (jconst 0%R)).
Proof.
  intros Hb Hd Hs Hst. unfold runJbuf. rewrite indep by (auto; rewrite in_J_length; exact Hd).
  exact (jet_lift_gen pf pfR k o x s Hs Hst).
Qed.

Theorem recycled_values_gen k o x s (bufs : list (jet R)) :
  length bufs = bl -> dl <= length s ->
  option_map (map jv) (runJbuf pb k o x bufs s) = runR pf x s.
Proof.
  intros Hb Hd. unfold runJbuf. rewrite indep by (auto; rewrite in_J_length; exact Hd).
  exact (values_agree pf pfR k o x s).
Qed.
End Lift.

Lemma nat_R_refl' n : nat_R n n. Proof. apply nat_R_refl. Qed.

Theorem chol_recycled_jets n k o x s (bufs : list (jet R)) :
  length bufs = n * n -> n * n <= length s -> run_safe (p_chol4_fresh n) s x -> stable (p_chol4_fresh n) s x ->
  exists J, runJbuf (p_chol4_buf n) k o x bufs s = Some J /\ runR (p_chol4_fresh n) x s = Some (map jv J) /\
            forall q, holds k o (outR (p_chol4_fresh n) s q) x (nth q J (jconst 0%R)).
Proof.
  apply (recycled_jets_gen (p_chol4_buf n) (p_chol4_fresh n) (p_chol4_fresh_R n n (nat_R_refl n)) (n * n) (n * n)).
  intros A X lg buf data. apply chol_buf_indep.
Qed.

Theorem detpd_recycled_jets logscale n k o x s (bufs : list (jet R)) :
  length bufs = n * n -> run_safe (p_detpd_fresh logscale n) s x -> stable (p_detpd_fresh logscale n) s x ->
  exists J, runJbuf (p_detpd_buf logscale n) k o x bufs s = Some J /\ runR (p_detpd_fresh logscale n) x s = Some (map jv J) /\
            forall q, holds k o (outR (p_detpd_fresh logscale n) s q) x (nth q J (jconst 0%R)).
Proof.
  intros Hb. 
  apply (recycled_jets_gen (p_detpd_buf logscale n) (p_detpd_fresh logscale n)
           (p_detpd_fresh_R logscale logscale (bool_R_refl logscale) n n (nat_R_refl n)) (n * n) 0); [|exact Hb|lia].
  intros A X lg buf data H _. apply detpd_buf_indep. exact H.
Qed.

Lemma inv_mode_R_refl2 m : inv_mode_R m m.
Proof. destruct m; constructor. Qed.

Theorem inv_recycled_jets mode n k o x s (bId bA bL bB : list (jet R)) :
  length bId = n * n -> length bA = n * n -> length bL = n * n -> length bB = n -> n * n <= length s ->
  run_safe (p_inv_fresh mode n) s x -> stable (p_inv_fresh mode n) s x ->
  exists J, runJbuf (p_inv_buf mode n) k o x (bId ++ bA ++ bL ++ bB) s = Some J /\
            runR (p_inv_fresh mode n) x s = Some (map jv J) /\
            forall q, holds k o (outR (p_inv_fresh mode n) s q) x (nth q J (jconst 0%R)).
Proof.
  intros H1 H2 H3 H4 Hd Hs Hst. unfold runJbuf. rewrite <- !app_assoc.
  rewrite inv_buf_indep by (auto; rewrite in_J_length; exact Hd).
  exact (jet_lift_gen (p_inv_fresh mode n) (p_inv_fresh_R mode mode (inv_mode_R_refl2 mode) n n (nat_R_refl n)) k o x s Hs Hst).
Qed.

Theorem backsub_recycled_jets n k o x s (bufA x0 : list (jet R)) :
  length bufA = n * n -> length x0 = n -> n * n <= length s -> run_safe (p_backsub_fresh n) s x ->
  exists J, runJbuf (p_backsub_buf n) k o x (bufA ++ x0) s = Some J /\
            runR (p_backsub_fresh n) x s = Some (map jv J) /\
            forall q, holds k o (outR (p_backsub_fresh n) s q) x (nth q J (jconst 0%R)).
Proof.
  intros H1 H2 Hd Hs. unfold runJbuf. rewrite <- !app_assoc.
  rewrite backsub_buf_indep by (auto; rewrite in_J_length; exact Hd).
  apply (jet_lift_gen (p_backsub_fresh n) (p_backsub_fresh_R n n (nat_R_refl n)) k o x s Hs).
  exists 1%R. split; [lra|]. intros y _. reflexivity.
Qed.

(* the hypotheses are satisfiable: 1 x 1 Cholesky into a buffer holding an arbitrary jet *)
Lemma chol4_1_run x : (0 < x 0%nat)%R -> runE (p_chol4_fresh 1) x [(Some 0%nat, 0%R)] = Some [ESqrt (ESub (Var 0) (Cst 0))].
Proof.
  intros H. unfold runE, p_chol4_fresh. cbv -[Rltb evalR IZR].
  assert (E : Rltb (evalR x (ESub (Var 0) (Cst 0))) (evalR x (Cst 0)) = false).
  { unfold Rltb. destruct (Rlt_dec _ _) as [L|]; [cbn in L; lra|reflexivity]. }
  rewrite E. reflexivity.
Qed.

Example chol_recycled_1x1 k o x (b : jet R) : (0 < x 0%nat)%R ->
  exists J, runJbuf (p_chol4_buf 1) k o x [b] [(Some 0%nat, 0%R)] = Some J /\
            forall q, holds k o (outR (p_chol4_fresh 1) [(Some 0%nat, 0%R)] q) x (nth q J (jconst 0%R)).
Proof.
  intro H.
  destruct (chol_recycled_jets 1 k o x [(Some 0%nat, 0%R)] [b]) as (J & HJ & _ & HH); try (simpl; lia).
  - eexists. split; [apply chol4_1_run; exact H|]. repeat constructor. cbn. lra.
  - exists (x 0%nat). split; [exact H|]. intros y Hy. rewrite (chol4_1_run x H). apply chol4_1_run.
    specialize (Hy 0%nat). apply Rabs_def2 in Hy. lra.
  - exists J. split; assumption.
Qed.
