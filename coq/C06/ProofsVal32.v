(* C06/ProofsVal32.v (round 2) — the store-rounded magic carrier (Real32: every slot rounded to binary32 when
   it is stored) returns the values of the plain rounded carrier (Float32 semantics), for EVERY base carrier,
   every rounding function and every carrier-polymorphic program: "Real32 generic = Float32 = model" for the
   value part is a theorem; the tie compares Go with both, bit for bit. *)
From Coq Require Import List Bool ZArith Floats.
From ADV Require Import Base.Num C06.Model C06.Model32 C06.ParamT C06.ProofsVal.
Import ListNotations.

Lemma jv_jst {A} (st : A -> A) (j : jet A) : jv (jst st j) = st (jv j).
Proof. reflexivity. Qed.

Lemma rel_JVS {A} (D : NumD A) (st : A -> A) (k o : nat) :
  NumX_R (jet A) A (fun j a => jv j = a) (NumXJS D st k o) (NumXS D st (M5.gsqrt (dx D))).
Proof.
  destruct D as [X pmh pm3h lg]. destruct X as [N ninf fmx gsq]. destruct N.
  unfold NumXJS, NumJS, NumXS, NumS. cbn. apply NumX_R_mkNumX_R.
  - apply Num_R_mkNum_R; intros; subst;
      try (match goal with H : Z_R _ _ |- _ => apply Z_R_eq' in H; subst end);
      try apply bool_R_refl'; cbn;
      unfold jadd, jsub, jmul, jdiv, jneg, jsqrt, jabsf, jdy, jmon; cbn;
      repeat match goal with |- context[if ?b then _ else _] => destruct b end; reflexivity.
  - reflexivity.
  - intros; subst. reflexivity.
  - intros; subst. cbn. unfold jsqrt, jmon; cbn.
    repeat match goal with |- context[if ?b then _ else _] => destruct b end; reflexivity.
Qed.

Theorem values_agree_store_rounded {A} (D : NumD A) (st : A -> A) (k o : nat) (m : prog) (mR : prog_R m m) (inp : list (jet A)) :
  option_map (map jv) (m (jet A) (NumXJS D st k o) (jlogS D st k o) inp)
  = m A (NumXS D st (M5.gsqrt (dx D))) (fun a => st (nlog D a)) (map jv inp).
Proof.
  pose proof (mR (jet A) A (fun j a => jv j = a) (NumXJS D st k o) (NumXS D st (M5.gsqrt (dx D))) (rel_JVS D st k o)
                 (jlogS D st k o) (fun a => st (nlog D a))) as H.
  assert (HL : forall (j : jet A) (a : A), jv j = a -> jv (jlogS D st k o j) = st (nlog D a)).
  { intros j a E. subst. unfold jlogS. rewrite jv_jst. unfold jlog. rewrite jv_jmon'. reflexivity. }
  specialize (H HL inp (map jv inp) (list_R_jv inp)).
  destruct H as [js l HR|]; cbn; [|reflexivity]. f_equal. apply list_R_jv_inv. exact HR.
Qed.
