(* C06/ProofsOptBuf.v (round 5) — recycled FACTOR buffers of the LDL kernels.

   [ldl_buf] / [fpd_buf] (ModelOpt.v) are cholesky_ldl / cholesky_ldl_forcepd as matrix-state machines over
   explicit factor buffers L0, D0 (what the caller's InSitu.L / InSitu.D held).  For EVERY carrier (so also
   the jet carrier: value, activity, gradient, Hessian of every buffer entry) the result does not depend on
   the prior content: every entry of L that is read was written before in the same run, every entry of the
   strict upper triangle is overwritten by the constant 0 and the diagonal by 1, D is cleared by Run. *)
From Coq Require Import List Bool Arith Lia.
From ADV Require Import Base.Num C04.Model C04.ProofsList C04.ProofsBuf.
From ADV Require C05.Model.
From ADV Require Import C06.ModelOpt C06.ProofsBuf.
Import ListNotations.

Section Ag.
Context {A : Type} (X : C05.Model.NumX A).
Local Notation N := (C05.Model.nx X).
Variable n : nat.

Definition ag (P : nat -> nat -> Prop) (L L' : list (list A)) : Prop :=
  wfm n L /\ wfm n L' /\ forall r c, r < n -> c < n -> P r c -> mget N L r c = mget N L' r c.

Lemma ag_weaken (P Q : nat -> nat -> Prop) L L' :
  (forall r c, r < n -> c < n -> Q r c -> P r c) -> ag P L L' -> ag Q L L'.
Proof. intros H (W & W' & E). split; [exact W|]. split; [exact W'|]. intros r c Hr Hc HQ. apply E; auto. Qed.

Lemma ag_mset (P : nat -> nat -> Prop) L L' i j v : i < n -> j < n -> ag P L L' ->
  ag (fun r c => P r c \/ (r = i /\ c = j)) (mset L i j v) (mset L' i j v).
Proof.
  intros Hi Hj (W & W' & E). split; [apply wfm_mset; exact W|]. split; [apply wfm_mset; exact W'|].
  intros r c Hr Hc HP. rewrite !(mget_mset N n) by auto.
  destruct (Nat.eqb_spec i r) as [->|Hne]; simpl.
  - destruct (Nat.eqb_spec j c) as [->|Hne2]; [reflexivity|].
    destruct HP as [HP|[_ HP]]; [apply E; auto|congruence].
  - destruct HP as [HP|[HP _]]; [apply E; auto|congruence].
Qed.

(* a loop of writes whose values depend on the matrix only through entries that already agree *)
Lemma ag_fold {T} (fi fj : T -> nat) (val : list (list A) -> T -> A) (P0 : nat -> nat -> Prop) (Q : T -> Prop) :
  (forall (P : nat -> nat -> Prop) L L' x, Q x -> fi x < n -> fj x < n ->
      (forall r c, P0 r c -> P r c) -> ag P L L' -> val L x = val L' x) ->
  forall xs (P : nat -> nat -> Prop) L L',
    (forall x, In x xs -> Q x /\ fi x < n /\ fj x < n) -> (forall r c, P0 r c -> P r c) -> ag P L L' ->
    ag (fun r c => P r c \/ exists x, In x xs /\ r = fi x /\ c = fj x)
       (fold_left (fun L x => mset L (fi x) (fj x) (val L x)) xs L)
       (fold_left (fun L x => mset L (fi x) (fj x) (val L x)) xs L').
Proof.
  intros Hval. induction xs as [|x xs IH]; intros P L L' Hin HP0 Hag; simpl.
  - apply (ag_weaken P); [|exact Hag]. intros r c _ _ [H|(x & [] & _)]. exact H.
  - destruct (Hin x (or_introl eq_refl)) as (Hq & Hi & Hj).
    rewrite (Hval P L L' x Hq Hi Hj HP0 Hag).
    pose proof (ag_mset P L L' (fi x) (fj x) (val L' x) Hi Hj Hag) as H1.
    eapply ag_weaken; [|apply (IH _ _ _ (fun y Hy => Hin y (or_intror Hy)) (fun r c H => or_introl (HP0 r c H)) H1)].
    intros r c _ _ [H|(y & [<-|Hy] & Hr & Hc)].
    + left. left. exact H.
    + left. right. split; assumption.
    + right. exists y. auto.
Qed.

Variable Am : list (list A).

Lemma ldl_s_ag (P : nat -> nat -> Prop) L L' D r j : r < n -> j < n ->
  (forall r c, c < j -> P r c) -> ag P L L' -> ldl_s X L D r j = ldl_s X L' D r j.
Proof.
  intros Hr Hj HP (W & W' & E). unfold ldl_s.
  apply fold_left_ext_in. intros a k Hk. apply in_seq in Hk.
  rewrite (E r k) by (try apply HP; lia). rewrite (E j k) by (try apply HP; lia). reflexivity.
Qed.


Definition Rg (j r c : nat) : Prop := c < j \/ r < j.

Lemma clear_row_ag (P : nat -> nat -> Prop) L L' j : j < n -> ag P L L' ->
  ag (fun r c => P r c \/ (r = j /\ j < c)) (clear_row X n L j) (clear_row X n L' j).
Proof.
  intros Hj Hag. unfold clear_row.
  eapply ag_weaken;
    [|apply (ag_fold (fun _ : nat => j) (fun k : nat => k) (fun _ _ => zero N) (fun _ _ => False) (fun _ => True)) with (P := P);
      [reflexivity| |intros r c []|exact Hag]].
  - intros r c Hr Hc [H|[-> H]]; [left; exact H|]. right. exists c. split; [apply in_seq; lia|auto].
  - intros x Hx. apply in_seq in Hx. split; [exact I|lia].
Qed.

Definition srel (j : nat) (o o' : option (list (list A) * list (list A))) : Prop :=
  match o, o' with
  | None, None => True
  | Some (L, D), Some (L', D') => D = D' /\ ag (Rg j) L L'
  | _, _ => False
  end.

Lemma ldl_col_rel j o o' : j < n -> srel j o o' -> srel (S j) (ldl_col X n Am o j) (ldl_col X n Am o' j).
Proof.
  intros Hj H. destruct o as [[L D]|], o' as [[L' D']|]; simpl in H; try contradiction; [|exact I].
  destruct H as [<- Hag]. unfold ldl_col. cbv zeta.
  rewrite (ldl_s_ag (Rg j) L L' D j j Hj Hj (fun r c H => or_introl H) Hag).
  set (D1 := mset D j j _).
  destruct (leb N (mget N D1 j j) (zero N)); [exact I|]. simpl. split; [reflexivity|].
  pose proof (clear_row_ag _ _ _ j Hj (ag_mset (Rg j) L L' j j (one N) Hj Hj Hag)) as H2.
  eapply ag_weaken;
    [|apply (ag_fold (fun i : nat => i) (fun _ : nat => j)
               (fun L i => div N (sub N (mget N Am i j) (ldl_s X L D1 i j)) (mget N D1 j j))
               (fun r c => c < j) (fun _ => True)) with (xs := seq (S j) (n - S j)); [| | |exact H2]].
  - intros r c Hr Hc [H|H]; [|].
    + destruct (Nat.lt_ge_cases c j) as [Hcj|Hcj]; [left; left; left; left; exact Hcj|].
      assert (c = j) by lia. subst c.
      destruct (Nat.lt_ge_cases r j) as [Hrj|Hrj]; [left; left; left; right; exact Hrj|].
      destruct (Nat.eq_dec r j) as [->|Hne]; [left; left; right; auto|].
      right. exists r. split; [apply in_seq; lia|auto].
    + destruct (Nat.lt_ge_cases r j) as [Hrj|Hrj]; [left; left; left; right; exact Hrj|].
      assert (r = j) by lia. subst r.
      destruct (Nat.lt_ge_cases c j) as [Hcj|Hcj]; [left; left; left; left; exact Hcj|].
      destruct (Nat.eq_dec c j) as [->|Hne]; [left; left; right; auto|].
      left. right. split; [reflexivity|lia].
  - intros P M M' x _ Hx _ HP HM. rewrite (ldl_s_ag P M M' D1 x j Hx Hj (fun r c H => HP r c H) HM). reflexivity.
  - intros x Hx. apply in_seq in Hx. split; [exact I|lia].
  - intros r c H. left. left. left. exact H.
Qed.

Lemma ldl_cols_rel : forall len j0 o o', j0 + len <= n -> srel j0 o o' ->
  srel (j0 + len) (fold_left (ldl_col X n Am) (seq j0 len) o) (fold_left (ldl_col X n Am) (seq j0 len) o').
Proof.
  induction len as [|len IH]; intros j0 o o' Hb H; simpl.
  - rewrite Nat.add_0_r. exact H.
  - replace (j0 + S len) with (S j0 + len) by lia. apply IH; [lia|]. apply ldl_col_rel; [lia|exact H].
Qed.

Lemma clear_rows m (D : list (list A)) : Forall (fun r => length r = m) D ->
  map (map (fun _ => zero N)) D = repeat (repeat (zero N) m) (length D).
Proof.
  induction D as [|r D IH]; intros HF; simpl; [reflexivity|].
  inversion HF as [|? ? Hr HF']; subst. rewrite IH by exact HF'. f_equal.
  clear. induction r as [|a r IHr]; simpl; [reflexivity|]. rewrite IHr. reflexivity.
Qed.
Lemma clear_mat_zmat D : wfm n D -> clear_mat X D = zmat N n.
Proof. intros [HL HF]. unfold clear_mat, zmat, zeros. rewrite (clear_rows n D HF), HL. reflexivity. Qed.

Lemma ag_all_eq L L' : ag (Rg n) L L' -> L = L'.
Proof. intros (W & W' & E). apply (mat_ext N n); auto. intros i j Hi Hj. apply E; auto. left. exact Hj. Qed.

Lemma ag_init L0 L0' : wfm n L0 -> wfm n L0' -> ag (Rg 0) L0 L0'.
Proof. intros W W'. split; [exact W|]. split; [exact W'|]. intros r c _ _ [H|H]; lia. Qed.

(* cholesky.Run(a, LDL{true}, &InSitu{L: L0, D: D0}) does not depend on what L0, D0 held *)
Theorem ldl_buf_indep L0 D0 L0' D0' : wfm n L0 -> wfm n L0' -> wfm n D0 -> wfm n D0' ->
  ldl_buf X n Am L0 D0 = ldl_buf X n Am L0' D0'.
Proof.
  intros W W' V V'. unfold ldl_buf. rewrite (clear_mat_zmat D0 V), (clear_mat_zmat D0' V').
  assert (H0 : srel 0 (Some (L0, zmat N n)) (Some (L0', zmat N n))) by (simpl; split; [reflexivity|apply ag_init; assumption]).
  pose proof (ldl_cols_rel n 0 _ _ (Nat.le_refl _) H0) as R. simpl Nat.add in R.
  match goal with |- ?a = ?b => change (srel n a b) in R; destruct a as [[L D]|], b as [[L' D']|] end;
    simpl in R; try contradiction; [|reflexivity].
  destruct R as [<- Hag]. rewrite (ag_all_eq L L' Hag). reflexivity.
Qed.


(* ---- cholesky_ldl_forcepd *)
Definition thF (D1 : list (list A)) (j : nat) (st : list (list A) * A) (i : nat) : list (list A) * A :=
  let L := fst st in
  let L' := mset L i j (sub N (mget N Am i j) (ldl_s X L D1 i j)) in
  (L', C05.Model.upd_max X (snd st) (mget N L' i j)).

Lemma theta_fold_ag D1 j : j < n -> forall xs (P : nat -> nat -> Prop) L L' th,
  (forall x, In x xs -> x < n) -> (forall r c, c < j -> P r c) -> ag P L L' ->
  snd (fold_left (thF D1 j) xs (L, th)) = snd (fold_left (thF D1 j) xs (L', th)) /\
  ag (fun r c => P r c \/ exists x, In x xs /\ r = x /\ c = j)
     (fst (fold_left (thF D1 j) xs (L, th))) (fst (fold_left (thF D1 j) xs (L', th))).
Proof.
  intros Hj. induction xs as [|x xs IH]; intros P L L' th Hin HP Hag; simpl.
  - split; [reflexivity|]. apply (ag_weaken P); [|exact Hag]. intros r c _ _ [H|(x & [] & _)]. exact H.
  - assert (Hx : x < n) by (apply Hin; left; reflexivity).
    set (v := sub N (mget N Am x j) (ldl_s X L' D1 x j)).
    assert (Ev : sub N (mget N Am x j) (ldl_s X L D1 x j) = v)
      by (unfold v; rewrite (ldl_s_ag P L L' D1 x j Hx Hj HP Hag); reflexivity).
    destruct Hag as (W & W' & E).
    assert (E1 : thF D1 j (L, th) x = (mset L x j v, C05.Model.upd_max X th v)).
    { unfold thF. cbn [fst snd]. rewrite Ev. rewrite (mget_mset N n) by auto. rewrite !Nat.eqb_refl. reflexivity. }
    assert (E2 : thF D1 j (L', th) x = (mset L' x j v, C05.Model.upd_max X th v)).
    { unfold thF. cbn [fst snd]. fold v. rewrite (mget_mset N n) by auto. rewrite !Nat.eqb_refl. reflexivity. }
    rewrite E1, E2.
    pose proof (ag_mset P L L' x j v Hx Hj (conj W (conj W' E))) as H1.
    destruct (IH _ _ _ (C05.Model.upd_max X th v) (fun y Hy => Hin y (or_intror Hy)) (fun r c H => or_introl (HP r c H)) H1) as [Hs Ha].
    split; [exact Hs|]. eapply ag_weaken; [|exact Ha].
    intros r c _ _ [H|(y & [<-|Hy] & Hr & Hc)].
    + left. left. exact H.
    + left. right. split; assumption.
    + right. exists y. auto.
Qed.

Definition frel (j : nat) (s s' : list (list A) * list (list A)) : Prop := snd s = snd s' /\ ag (Rg j) (fst s) (fst s').

Lemma fpd_col_rel beta delta j s s' : j < n -> frel j s s' -> frel (S j) (fpd_col X n Am beta delta s j) (fpd_col X n Am beta delta s' j).
Proof.
  intros Hj [HD Hag]. destruct s as [L D], s' as [L' D']. simpl in HD, Hag. subst D'.
  unfold fpd_col. cbv zeta.
  pose proof (clear_row_ag _ _ _ j Hj (ag_mset (Rg j) L L' j j (one N) Hj Hj Hag)) as H2.
  set (P2 := fun r c => (Rg j r c \/ r = j /\ c = j) \/ r = j /\ j < c) in H2.
  assert (HP2 : forall r c, c < j -> P2 r c) by (intros r c H; left; left; left; exact H).
  rewrite (ldl_s_ag P2 _ _ D j j Hj Hj HP2 H2).
  set (D1 := mset D j j _).
  change (fun (st : list (list A) * A) (i : nat) => (mset (fst st) i j (sub N (mget N Am i j) (ldl_s X (fst st) D1 i j)),
            C05.Model.upd_max X (snd st) (mget N (mset (fst st) i j (sub N (mget N Am i j) (ldl_s X (fst st) D1 i j))) i j)))
    with (thF D1 j).
  assert (Hin : forall x, In x (seq (S j) (n - S j)) -> x < n) by (intros x Hx; apply in_seq in Hx; lia).
  destruct (theta_fold_ag D1 j Hj (seq (S j) (n - S j)) P2 _ _ (C05.Model.neg_inf X) Hin HP2 H2) as [Hth Ha].
  rewrite Hth.
  match goal with |- context [mset D1 j j ?d] => set (D2 := mset D1 j j d) end.
  split; [reflexivity|]. cbn [fst].
  eapply ag_weaken;
    [|apply (ag_fold (fun i : nat => i) (fun _ : nat => j) (fun L i => div N (mget N L i j) (mget N D2 j j))
               (fun r c => c = j /\ j < r /\ r < n) (fun i => j < i)) with (xs := seq (S j) (n - S j)); [| | |exact Ha]].
  - intros r c Hr Hc H. left.
    destruct (Nat.lt_ge_cases c j) as [Hcj|Hcj]; [left; left; left; left; exact Hcj|].
    destruct (Nat.lt_ge_cases r j) as [Hrj|Hrj]; [left; left; left; right; exact Hrj|].
    destruct (Nat.eq_dec r j) as [->|Hne].
    + destruct (Nat.eq_dec c j) as [->|Hne2]; [left; left; right; auto|]. left. right. split; [reflexivity|lia].
    + assert (c = j) by (destruct H as [H|H]; lia). subst c. right. exists r. split; [apply in_seq; lia|auto].
  - intros P M M' x Hq Hx _ HP (WM & WM' & EM). rewrite (EM x j Hx Hj) by (apply HP; auto). reflexivity.
  - intros x Hx. apply in_seq in Hx. lia.
  - intros r c (-> & H1 & H3). right. exists r. split; [apply in_seq; lia|auto].
Qed.

Lemma fpd_cols_rel beta delta : forall len j0 s s', j0 + len <= n -> frel j0 s s' ->
  frel (j0 + len) (fold_left (fpd_col X n Am beta delta) (seq j0 len) s) (fold_left (fpd_col X n Am beta delta) (seq j0 len) s').
Proof.
  induction len as [|len IH]; intros j0 s s' Hb H; simpl.
  - rewrite Nat.add_0_r. exact H.
  - replace (j0 + S len) with (S j0 + len) by lia. apply IH; [lia|]. apply fpd_col_rel; [lia|exact H].
Qed.

(* cholesky.Run(a, LDL{true}, ForcePD{true}, &InSitu{L: L0, D: D0}) does not depend on what L0, D0 held *)
Theorem fpd_buf_indep bfloor delta L0 D0 L0' D0' : wfm n L0 -> wfm n L0' -> wfm n D0 -> wfm n D0' ->
  fpd_buf X n Am bfloor delta L0 D0 = fpd_buf X n Am bfloor delta L0' D0'.
Proof.
  intros W W' V V'. unfold fpd_buf. rewrite (clear_mat_zmat D0 V), (clear_mat_zmat D0' V').
  assert (H0 : frel 0 (L0, zmat N n) (L0', zmat N n)) by (split; [reflexivity|apply ag_init; assumption]).
  pose proof (fpd_cols_rel (C05.Model.fpd_beta X bfloor Am) delta n 0 _ _ (Nat.le_refl _) H0) as R. simpl Nat.add in R.
  match goal with |- ?a = ?b => change (frel n a b) in R; destruct a as [L D], b as [L' D'] end.
  destruct R as [HD Hag]. simpl in HD, Hag. rewrite HD, (ag_all_eq L L' Hag). reflexivity.
Qed.

End Ag.

(* ---- as programs: recycled factor buffers ++ data = fresh call on data, every carrier *)
From ADV Require Import C06.Model C06.ProofsBuf2.
Section Progs.
Context {A : Type} (X : C05.Model.NumX A) (lg : A -> A).

Theorem ldl_prog_buf_indep n (bL bD data : list A) : length bL = n * n -> length bD = n * n ->
  p_ldl_buf n A X lg (bL ++ bD ++ data) = p_ldl_fresh n A X lg data.
Proof.
  intros HL HD. unfold p_ldl_buf, p_ldl_fresh. cbv zeta.
  rewrite (chunk_app n n bL _ HL).
  rewrite (skipn_app_len bL _ (n * n) HL), (chunk_app n n bD _ HD).
  replace (2 * (n * n)) with (n * n + n * n) by lia.
  rewrite (skipn_add (n * n) (n * n)), (skipn_app_len bL _ (n * n) HL), (skipn_app_len bD _ (n * n) HD).
  rewrite (ldl_buf_indep X n (chunk n n data) (chunk n n bL) (chunk n n bD) (zmat (C05.Model.nx X) n) (zmat (C05.Model.nx X) n));
    [reflexivity| | | |]; try apply zmat_wfm; apply chunk_wfm_sq; lia.
Qed.

Theorem fpd_prog_buf_indep n (bL bD data : list A) : length bL = n * n -> length bD = n * n ->
  p_fpd_buf n A X lg (bL ++ bD ++ data) = p_fpd_fresh n A X lg data.
Proof.
  intros HL HD. unfold p_fpd_buf, p_fpd_fresh. cbv zeta.
  rewrite (chunk_app n n bL _ HL).
  rewrite (skipn_app_len bL _ (n * n) HL), (chunk_app n n bD _ HD).
  replace (2 * (n * n)) with (n * n + n * n) by lia.
  rewrite (skipn_add (n * n) (n * n)), (skipn_app_len bL _ (n * n) HL), (skipn_app_len bD _ (n * n) HD).
  rewrite (fpd_buf_indep X n (chunk n n (skipn 2 data)) (nth 0 data (zero (C05.Model.nx X))) (nth 1 data (zero (C05.Model.nx X)))
             (chunk n n bL) (chunk n n bD) (zmat (C05.Model.nx X) n) (zmat (C05.Model.nx X) n));
    [reflexivity| | | |]; try apply zmat_wfm; apply chunk_wfm_sq; lia.
Qed.
End Progs.

From ADV Require Import C06.ParamT C06.ParamT3 C06.ProofsVal.
Lemma nat_R_rf2 n : nat_R n n. Proof. induction n; constructor; assumption. Qed.
Theorem ldl_recycled_magic {A} (D : NumD A) (k ord n : nat) (bL bD data : list (jet A)) :
  (forall a, nsqrt (C05.Model.nx (dx D)) a = C05.Model.gsqrt (dx D) a) ->
  length bL = n * n -> length bD = n * n ->
  option_map (map jv) (p_ldl_buf n (jet A) (NumXJ D k ord) (jlog D k ord) (bL ++ bD ++ data))
    = p_ldl_fresh n A (dx D) (nlog D) (map jv data) /\
  option_map (map jv) (p_fpd_buf n (jet A) (NumXJ D k ord) (jlog D k ord) (bL ++ bD ++ data))
    = p_fpd_fresh n A (dx D) (nlog D) (map jv data).
Proof.
  intros Hs HL HD. rewrite (ldl_prog_buf_indep _ _ n bL bD data HL HD), (fpd_prog_buf_indep _ _ n bL bD data HL HD).
  split; apply values_agree_any_carrier; try exact Hs.
  - exact (p_ldl_fresh_R n n (nat_R_rf2 n)).
  - exact (p_fpd_fresh_R n n (nat_R_rf2 n)).
Qed.
