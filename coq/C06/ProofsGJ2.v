(* C06/ProofsGJ2.v — a routine with a PIVOT decision, every hypothesis discharged:
   matrixInverse (Gauss-Jordan) on a 2 x 2 matrix when no row exchange happens
   (|a10| < |a00|) and the matrix is invertible.  The jets of the four outputs are
   the derivatives of the entries of the inverse  d/D, -b/D, -c/D, a/D. *)
From Coq Require Import Reals List Lia Lra Bool ZArith Psatz.
From Coquelicot Require Import Coquelicot.
From ADV Require Import Base.Num C06.Model C06.Spec C06.ParamT C06.ProofsAlg C06.ProofsAna C06.ProofsLift C06.ProofsInst.
Import ListNotations.
Open Scope R_scope.

(* the straight-line program of matrixInverse on a 2x2 matrix when no row exchange happens *)
Definition inv2_E : list expr :=
  let c := EDiv (Var 2) (Var 0) in
  let S := ESub (Var 3) (EMul (Var 1) c) in
  let a10 := ESub (Var 2) (EMul (Var 0) c) in
  let x10 := ESub (Cst 0) (EMul (Cst 1) c) in
  let x11 := ESub (Cst 1) (EMul (Cst 0) c) in
  let a01 := ESub (Var 1) (EDiv (EMul (Var 1) S) S) in
  let a00 := ESub (Var 0) (EDiv (EMul a01 a10) S) in
  [EDiv (ESub (Cst 1) (EDiv (EMul (Var 1) x10) S)) a00;
   EDiv (ESub (Cst 0) (EDiv (EMul (Var 1) x11) S)) a00;
   EDiv x10 S; EDiv x11 S].

Lemma inv2_run x : Rabs (x 2%nat) < Rabs (x 0%nat) -> runE (p_inv M4.InvPlain 2) x (all_vars 4) = Some inv2_E.
Proof.
  intros H. unfold runE.
  assert (E : Rltb (evalR x (EAbs (Var 0))) (evalR x (EAbs (Var 2))) = false) by (apply Rltb_false; cbn; lra).
  cbv -[Rltb evalR].
  rewrite E.
  reflexivity.
Qed.

Definition inv2_dom (x : nat -> R) : Prop :=
  Rabs (x 2%nat) < Rabs (x 0%nat) /\ x 0%nat * x 3%nat - x 1%nat * x 2%nat <> 0.

Lemma inv2_x0 x : inv2_dom x -> x 0%nat <> 0.
Proof. intros [H _] E. rewrite E, Rabs_R0 in H. pose proof (Rabs_pos (x 2%nat)). lra. Qed.

Lemma inv2_S x : inv2_dom x -> x 3%nat - x 1%nat * (x 2%nat / x 0%nat) <> 0.
Proof.
  intros D. pose proof (inv2_x0 x D) as H0. destruct D as [_ Hd]. intro E. apply Hd.
  replace (x 0%nat * x 3%nat - x 1%nat * x 2%nat) with (x 0%nat * (x 3%nat - x 1%nat * (x 2%nat / x 0%nat))) by (field; exact H0).
  rewrite E. ring.
Qed.

(* the values of the four outputs: the inverse *)
Lemma inv2_values x : inv2_dom x ->
  let D := x 0%nat * x 3%nat - x 1%nat * x 2%nat in
  map (evalR x) inv2_E = [x 3%nat / D; - x 1%nat / D; - x 2%nat / D; x 0%nat / D].
Proof.
  intros Dm D. pose proof (inv2_x0 x Dm) as H0. pose proof (inv2_S x Dm) as HS. destruct Dm as [_ Hd].
  unfold inv2_E, evalR, D. cbn.
  assert (HS' : x 0%nat * x 3%nat - x 1%nat * x 2%nat <> 0) by exact Hd.
  assert (H3 : x 0%nat * (x 3%nat * x 0%nat - x 1%nat * x 2%nat) - (x 1%nat - x 1%nat) * (x 2%nat - x 2%nat) * x 0%nat <> 0).
  { replace (x 0%nat * (x 3%nat * x 0%nat - x 1%nat * x 2%nat) - (x 1%nat - x 1%nat) * (x 2%nat - x 2%nat) * x 0%nat)
      with (x 0%nat * (x 0%nat * x 3%nat - x 1%nat * x 2%nat)) by ring.
    apply Rmult_integral_contrapositive; split; assumption. }
  repeat (apply (f_equal2 (@cons R)); [field; repeat split; assumption|]). reflexivity.
Qed.

Lemma inv2_safe x : inv2_dom x -> run_safe (p_inv M4.InvPlain 2) (all_vars 4) x.
Proof.
  intros D. pose proof (inv2_x0 x D) as H0. pose proof (inv2_S x D) as HS.
  exists inv2_E. split; [apply inv2_run; apply D|].
  assert (HA : x 0%nat - (x 1%nat - x 1%nat * (x 3%nat - x 1%nat * (x 2%nat / x 0%nat)) / (x 3%nat - x 1%nat * (x 2%nat / x 0%nat)))
                         * (x 2%nat - x 0%nat * (x 2%nat / x 0%nat)) / (x 3%nat - x 1%nat * (x 2%nat / x 0%nat)) <> 0).
  { replace (x 2%nat - x 0%nat * (x 2%nat / x 0%nat)) with 0 by (field; exact H0).
    unfold Rdiv at 1. rewrite Rmult_0_r, Rmult_0_l, Rminus_0_r. exact H0. }
  unfold inv2_E. repeat constructor; cbn; try exact H0; try exact HS; try exact HA.
Qed.

Lemma inv2_dom_open x : inv2_dom x -> exists delta, 0 < delta /\ forall y, box x delta y -> Rabs (y 2%nat) < Rabs (y 0%nat).
Proof.
  intros [H _]. exists ((Rabs (x 0%nat) - Rabs (x 2%nat)) / 2). split; [lra|].
  intros y Hy. pose proof (Hy 0%nat) as B0. pose proof (Hy 2%nat) as B2.
  pose proof (Rabs_triang_inv (x 0%nat) (x 0%nat - y 0%nat)) as T0.
  replace (x 0%nat - (x 0%nat - y 0%nat)) with (y 0%nat) in T0 by ring.
  rewrite (Rabs_minus_sym (x 0%nat) (y 0%nat)) in T0.
  pose proof (Rabs_triang (x 2%nat) (y 2%nat - x 2%nat)) as T2.
  replace (x 2%nat + (y 2%nat - x 2%nat)) with (y 2%nat) in T2 by ring.
  lra.
Qed.

Lemma inv2_stable x : inv2_dom x -> stable (p_inv M4.InvPlain 2) (all_vars 4) x.
Proof.
  intros D. destruct (inv2_dom_open x D) as (delta & Hd & HO).
  exists delta. split; [exact Hd|]. intros y Hy.
  rewrite (inv2_run x (proj1 D)). apply inv2_run. apply HO. exact Hy.
Qed.

Theorem inv2_jets k o x : inv2_dom x ->
  exists J, runJ (p_inv M4.InvPlain 2) k o x (all_vars 4) = Some J /\
            runR (p_inv M4.InvPlain 2) x (all_vars 4) = Some (map jv J) /\
            (let D := x 0%nat * x 3%nat - x 1%nat * x 2%nat in
             map jv J = [x 3%nat / D; - x 1%nat / D; - x 2%nat / D; x 0%nat / D]) /\
            forall q, holds k o (outR (p_inv M4.InvPlain 2) (all_vars 4) q) x (nth q J (jconst 0)).
Proof.
  intro D.
  destruct (routine_jets (RInv M4.InvPlain 2) k o x (all_vars 4) (inv2_safe x D) (inv2_stable x D)) as (J & HJ & HR & HH).
  exists J. split; [exact HJ|]. split; [exact HR|]. split; [|exact HH].
  cbn [prog_of_routine] in HR.
  rewrite (runR_runE x _ (routine_param (RInv M4.InvPlain 2))) in HR. cbn [prog_of_routine] in HR.
  rewrite (inv2_run x (proj1 D)) in HR. cbn [option_map] in HR. injection HR as HR. rewrite <- HR.
  apply inv2_values. exact D.
Qed.

Lemma inv2_dom_example : inv2_dom (fun i => nth i [4; 1; 2; 3] 0).
Proof. split; cbn; [rewrite !Rabs_right by lra; lra|lra]. Qed.
