(* C06 correspondence (executed by vm_compute on cases written by harness/c06).

   KV    value tie: the SAME polymorphic model, run on binary64, reproduces bit for
         bit what Go returned through the Float64 fast path AND through the generic
         Scalar-interface path (Real64 containers, nothing activated), and the two
         Go results denote the same numbers ("fast = generic").
   KD    derivative tie: the model run over float jets (NumXJ over binary64, k
         activated entries, order o) reproduces Go's value, gradient and Hessian
         slots of every output element: bit for bit for + - * / and the first-order
         part of Sqrt; Hessian slots downstream of a Sqrt (math.Pow(x,-1.5) is not
         replayed) through a tolerance decided in Q.
   KF    Go's derivative slots against the closed matrix-calculus formulas,
         evaluated in exact rational arithmetic from Go's own float output.
   KEq   Real64 run vs Float64 run of a routine without a closed model: same values.
   KJac / KHes  the Jacobian / Hessian helpers on a catalogue of functions. *)
From Coq Require Import List Bool Arith ZArith QArith Qabs Floats.
From ADV Require Import Base.Num Base.Corr C06.Model C06.Model32 C06.ModelOpt C06.ModelHelp C06.ModelView.
Import ListNotations.
Local Open Scope nat_scope.

(* generic path on binary64: Scalar.Sqrt = math.Pow(x, 0.5) everywhere *)
Definition NumFg : Num float :=
  mkNum float PrimFloat.zero PrimFloat.one PrimFloat.add PrimFloat.sub PrimFloat.mul PrimFloat.div
        PrimFloat.opp PrimFloat.abs M5.go_pow_half PrimFloat.ltb PrimFloat.leb PrimFloat.eqb
        (of_Z NumF) (is_nan NumF).
Definition NumXFg : M5.NumX float := M5.mkNumX float NumFg neg_infinity M5.go_max M5.go_pow_half.
Definition NumDFg : NumD float :=
  mkNumD float NumXFg go_pow_mhalf
         (fun x => PrimFloat.div 1%float (PrimFloat.mul x (PrimFloat.sqrt x))) (fun x => x).

Definition prog_of (p : nat) (d : list nat) : prog :=
  let a := nth 0 d 0 in let b := nth 1 d 0 in let c := nth 2 d 0 in
  match p with
  | 0 => p_backsub a
  | 1 => p_det a
  | 2 => p_detpd a
  | 3 => p_inv M4.InvPlain a
  | 4 => p_inv M4.InvUT a
  | 5 => p_inv M4.InvPD a
  | 6 => p_gj false a
  | 7 => p_gj true a
  | 8 => p_chol a
  | 9 => p_ldl a
  | 10 => p_mdotm a b c
  | 11 => p_gs a b
  | 12 => p_hess a
  | 13 => p_tridiag a
  | 14 => p_bidiag a b
  | _ => fun _ _ _ _ => None
  end.

(* same number: bit-equal, or both zero (the Float64 Cholesky uses math.Sqrt, the generic
   one math.Pow(x, 0.5): they differ in the sign of a zero root) *)
Definition veqb (a b : float) : bool := feqb a b || (PrimFloat.eqb a 0%float && PrimFloat.eqb b 0%float).

Definition q_of (x : float) : Q := match F2Q x with Some q => q | None => 0%Q end.
Definition finite (x : float) : bool := match F2Q x with Some _ => true | None => false end.

(* |a - b| <= tol, decided in Q (non-finite: must be bit-equal) *)
Definition closeb (tol : Q) (a b : float) : bool :=
  if finite a && finite b then Qle_bool (Qabs (q_of a - q_of b)%Q) tol else feqb a b.

Definition qmaxabs (l : list float) : Q :=
  fold_left (fun m x => let q := Qabs (q_of x) in if Qle_bool m q then q else m) l 0%Q.

Definition slot := (float * list float * list (list float))%type.

Definition slot_ok_gen (e : float -> float -> bool) (k o : nat) (sq : bool) (tol : Q) (j : jet float) (s : slot) : bool :=
  let '(v, g, h) := s in
  e (jv j) v
  && list_eqb e (map (gd NumDFg j) (seq 0 k)) g
  && (if 2 <=? o then
        list_eqb (list_eqb (if sq then closeb tol else e))
                 (map (fun i => map (fun q => gh NumDFg j i q) (seq 0 k)) (seq 0 k)) h
      else true).
Definition slot_ok := slot_ok_gen feqb.
(* recycled buffers: an output entry that is a constant of the run can come back ACTIVE with all-zero
   derivative slots (Reset / SetFloat64 keep Order and N of a recycled scalar), and 0 * v10 + 0 * v01 is -0 for
   negative factors: same numbers, the sign of a zero slot is not compared *)
Definition slot_ok_z := slot_ok_gen veqb.

(* the functions the Jacobian / Hessian helpers are exercised on (Go twins in harness/c06/funcs.go) *)
Section Funcs.
Context {B : Type} (X : M5.NumX B) (lg : B -> B).
Let N := M5.nx X.
Definition x_ (l : list B) (i : nat) : B := nth i l (zero N).
Definition vf (fid : nat) (x : list B) : list B :=
  match fid with
  | 0 => [add N (mul N (x_ x 0) (x_ x 1)) (x_ x 2); div N (x_ x 0) (x_ x 1);
          sub N (mul N (M5.gsqrt X (x_ x 0)) (x_ x 2)) (x_ x 1)]
  | 1 => [mul N (x_ x 0) (x_ x 0); neg N (x_ x 1)]
  | _ => [sub N (div N (mul N (x_ x 0) (x_ x 1)) (add N (x_ x 2) (x_ x 3))) (mul N (x_ x 3) (x_ x 3));
          x_ x 1; mul N (x_ x 2) (x_ x 0)]
  end.
Definition sf (fid : nat) (x : list B) : B :=
  match fid with
  | 0 => add N (div N (mul N (x_ x 0) (x_ x 1)) (x_ x 2)) (mul N (x_ x 2) (x_ x 2))
  | 1 => mul N (mul N (x_ x 0) (x_ x 1)) (sub N (x_ x 0) (x_ x 1))
  | _ => div N (x_ x 0) (add N (mul N (x_ x 1) (x_ x 1)) (mul N (x_ x 2) (x_ x 3)))
  end.
End Funcs.

Inductive kase :=
| KV (p : nat) (d : list nat) (inp : list float) (fast gen : option (list float))
| KD (p : nat) (d : list nat) (k o : nat) (sq : bool) (sp : list (option nat * float)) (out : option (list slot))
| KEq (tag : nat) (a b : list float)
| KF (kind n : nat) (sym : bool) (tol : Q) (vals aux : list float) (grads : list (list float))
| KJac (fid : nat) (x : list float) (jac : list (list float)) (xord : nat)
| KHes (fid : nat) (x : list float) (hes : list (list float)) (xord : nat)
(* round 2: the 32 bit element types.  fast = Float32 containers, gen = Real32 containers *)
| KV32 (p : nat) (d : list nat) (inp : list float) (fast gen : option (list float))
| KD32 (p : nat) (d : list nat) (k o : nat) (sq : bool) (sp : list (option nat * float)) (out : option (list slot))
(* Go ran with recycled InSitu buffers / in place; the model term is the one of the fresh run (see
   the recycled_buffers theorems of Props.v) *)
| KDz (p : nat) (d : list nat) (k o : nat) (sq : bool) (sp : list (option nat * float)) (out : option (list slot))
| KD32z (p : nat) (d : list nat) (k o : nat) (sq : bool) (sp : list (option nat * float)) (out : option (list slot))
(* round 5: option rows.  w: element width (64 / 32); md: the model of the option set is replayed at this width;
   r o d: routine, option bits, n :: Submatrix bits (ModelOpt.opt_prog); fast: the specialised kernel on plain
   containers; gens: every generic path that was forced on the same data (wrapper types defeating one type
   assertion each, foreign InSitu scalar, magic containers), flagged with "square roots through math.Pow" *)
| KO (w : nat) (md : bool) (r o : nat) (d : list nat) (inp : list float) (fast : option (list float))
     (gens : list (bool * option (list float)))
| KOD (w : nat) (z : bool) (r o : nat) (d : list nat) (k ord : nat) (sq : bool) (sp : list (option nat * float))
      (out : option (list slot))
(* the dispatch table extracted from the Go source *)
| KDisp (r : nat) (rows : list srow)
(* round 6: the Jacobian / Hessian helpers as machines (ModelHelp.hexec on the statement lists of the source).
   which: 0 Jacobian / 1 Hessian; sparse: receiver kind; x32: the caller's vector is Real32; r32b: the receiver
   stores binary32; sq: a Sqrt on the data path (Hessian entries then through the tolerance); ts: the supplied
   function; rn rm r0: the receiver before the call; xarg: the caller's vector before the call (value, N, Order,
   gradient, Hessian of every entry); out: None = panic, Some (rows, cols, entries after the call);
   clean: every derivative slot of every receiver entry read zero; intact: the caller's vector was bit for bit
   what it was (the machine never writes it) *)
| KHM (which : nat) (sparse x32 r32b sq : bool) (ts : list texpr) (rn rm : nat) (r0 : list (list float))
      (xarg : list (msc float)) (out : option (nat * nat * list (list float))) (clean intact : bool)
(* the statement list the translator produced from the source, the number of element-type copies of the
   function and the number of copies that are the Real64 text *)
| KHSrc (which : nat) (sparse : bool) (prog : list hstmt) (copies agree : nat)
(* round 7: dense products on views (ModelView.v).  op: 0 MdotM / MDOTM, 1 MdotV / MDOTV, 2 VdotM / VDOTM; sp: the whole
   memory (all backing arrays) before the call; out: the whole memory after the call (None: panic) *)
| KPV (op k o : nat) (sp : list (option nat * float)) (va vb vr : view) (out : option (list slot)).

(* Float32: math.Sqrt rounded once (SQRT of cholesky_float32; the generic routines on Float32 scalars go
   through Scalar.Sqrt = Pow(x, 0.5) as well, but the Cholesky family is the only square root reached on
   Float32 containers by the routines replayed at 32 bit, and it takes the fast path);
   Real32: float32(math.Pow(x, 0.5)) *)
Definition NumXF32fast : M5.NumX float := NumXS NumDFg r32 PrimFloat.sqrt.
Definition NumXF32gen : M5.NumX float := NumXS NumDFg r32 M5.go_pow_half.
Definition is32 (x : float) : bool := feqb (r32 x) x.

(* ---- closed formulas, in Q ---- *)
Definition qm (n : nat) (l : list float) (i j : nat) : Q := q_of (nth (i * n + j) l 0%float).
Definition qg (n : nat) (g : list (list float)) (r v : nat) : Q := q_of (nth v (nth r g []) 0%float).
Definition qsum (l : list Q) : Q := Qred (fold_left Qplus l 0%Q).
Definition idx2 (n : nat) : list (nat * nat) := flat_map (fun i => map (pair i) (seq 0 n)) (seq 0 n).
Definition delta (a b : nat) : Q := if Nat.eqb a b then 1%Q else 0%Q.

(* gradient expected for variable (k,l) of an n x n input from the unconstrained formula F;
   sym: the routine reads only the lower triangle (Cholesky based), i.e. it computes
   g(sym(lower A)): upper entries have derivative 0, a lower entry moves both (k,l) and (l,k) *)
Definition expect (sym : bool) (F : nat -> nat -> Q) (k l : nat) : Q :=
  if sym then (if k <? l then 0%Q else if Nat.eqb k l then F k l else (F k l + F l k)%Q) else F k l.

Definition grads_ok (n : nat) (tol : Q) (grads : list (list float)) (sym : bool) (r : nat) (F : nat -> nat -> Q) : bool :=
  forallb (fun kl => Qle_bool (Qabs (qg n grads r (fst kl * n + snd kl) - expect sym F (fst kl) (snd kl))%Q) tol) (idx2 n).

Definition formula_ok (kind n : nat) (sym : bool) (tol : Q) (vals aux : list float) (grads : list (list float)) : bool :=
  forallb finite vals && forallb finite aux && forallb (forallb finite) grads &&
  match kind with
  | 0 => (* X = inverse: d X_ij / d A_kl = - X_ik X_lj *)
      forallb (fun ij => grads_ok n tol grads sym (fst ij * n + snd ij)
                           (fun k l => (- (qm n vals (fst ij) k * qm n vals l (snd ij)))%Q)) (idx2 n)
  | 1 => (* det: d det / d A_kl = det * X_lk  (aux = Go's inverse) *)
      grads_ok n tol grads sym 0 (fun k l => (q_of (nth 0 vals 0%float) * qm n aux l k)%Q)
  | 2 => (* log det: d logdet / d A_kl = X_lk, i.e. inv(A)' *)
      grads_ok n tol grads sym 0 (fun k l => qm n aux l k)
  | 3 => (* Cholesky (reads the lower triangle): dL L' + L dL' = d sym(A) *)
      forallb (fun kl => forallb (fun ij =>
          let '(k, l) := kl in let '(i, j) := ij in
          let v := k * n + l in
          let lhs := qsum (map (fun c => (qg n grads (i * n + c) v * qm n vals j c
                                         + qm n vals i c * qg n grads (j * n + c) v)%Q) (seq 0 n)) in
          let rhs := if l <? k then (delta i k * delta j l + delta i l * delta j k)%Q
                     else if Nat.eqb k l then (delta i k * delta j k)%Q else 0%Q in
          Qle_bool (Qabs (lhs - rhs)%Q) tol) (idx2 n)) (idx2 n)
  | 4 => (* solve A x = b, inputs a and b activated, vals = x, aux = X: dx_i/dA_kl = -X_ik x_l ; dx_i/db_k = X_ik *)
      forallb (fun i =>
        grads_ok n tol grads false i (fun k l => (- (qm n aux i k * q_of (nth l vals 0%float)))%Q)
        && forallb (fun k => Qle_bool (Qabs (qg n grads i (n * n + k) - qm n aux i k)%Q) tol) (seq 0 n)) (seq 0 n)
  | _ => false
  end.

Definition opt_eqb {T} (e : T -> T -> bool) (a b : option T) : bool := option_eqb e a b.

Definition check (c : kase) : bool :=
  match c with
  | KV p d inp fast gen =>
      opt_eqb (list_eqb feqb) (prog_of p d float M5.NumXFfast (fun x => x) inp) fast
      && opt_eqb (list_eqb feqb) (prog_of p d float NumXFg (fun x => x) inp) gen
      && opt_eqb (list_eqb veqb) fast gen
  | KD p d k o sq sp out =>
      let J := prog_of p d (jet float) (NumXJ NumDFg k o) (jlog NumDFg k o) (map (seed1 NumDFg k o) sp) in
      match J, out with
      | None, None => true
      | Some js, Some ss =>
          let tol := (Qmake 1 67108864 * (1 + qmaxabs (flat_map (fun s => concat (snd s)) ss)))%Q in
          (length js =? length ss) && forallb (fun p => slot_ok k o sq tol (fst p) (snd p)) (combine js ss)
      | _, _ => false
      end
  | KV32 p d inp fast gen =>
      forallb is32 inp
      && opt_eqb (list_eqb feqb) (prog_of p d float NumXF32fast (fun x => x) inp) fast
      && opt_eqb (list_eqb feqb) (prog_of p d float NumXF32gen (fun x => x) inp) gen
      && opt_eqb (list_eqb veqb) fast gen
  | KD32 p d k o sq sp out =>
      let J := prog_of p d (jet float) (NumXJS NumDFg r32 k o) (jlogS NumDFg r32 k o) (map (seed1 NumDFg k o) sp) in
      forallb (fun e => is32 (snd e)) sp &&
      match J, out with
      | None, None => true
      | Some js, Some ss =>
          let tol := (Qmake 1 8192 * (1 + qmaxabs (flat_map (fun s => concat (snd s)) ss)))%Q in
          (length js =? length ss) && forallb (fun p => slot_ok k o sq tol (fst p) (snd p)) (combine js ss)
      | _, _ => false
      end
  | KDz p d k o sq sp out =>
      let J := prog_of p d (jet float) (NumXJ NumDFg k o) (jlog NumDFg k o) (map (seed1 NumDFg k o) sp) in
      match J, out with
      | None, None => true
      | Some js, Some ss =>
          let tol := (Qmake 1 67108864 * (1 + qmaxabs (flat_map (fun s => concat (snd s)) ss)))%Q in
          (length js =? length ss) && forallb (fun p => slot_ok_z k o sq tol (fst p) (snd p)) (combine js ss)
      | _, _ => false
      end
  | KD32z p d k o sq sp out =>
      let J := prog_of p d (jet float) (NumXJS NumDFg r32 k o) (jlogS NumDFg r32 k o) (map (seed1 NumDFg k o) sp) in
      forallb (fun e => is32 (snd e)) sp &&
      match J, out with
      | None, None => true
      | Some js, Some ss =>
          let tol := (Qmake 1 8192 * (1 + qmaxabs (flat_map (fun s => concat (snd s)) ss)))%Q in
          (length js =? length ss) && forallb (fun p => slot_ok_z k o sq tol (fst p) (snd p)) (combine js ss)
      | _, _ => false
      end
  | KO w md r o d inp fast gens =>
      let m := opt_prog r o d in
      let w32 := w =? 32 in
      let Xf := if w32 then NumXF32fast else M5.NumXFfast in
      let Xg := if w32 then NumXF32gen else NumXFg in
      (if w32 then forallb is32 (if (r =? 0) && (o =? 3) then skipn 2 inp else inp) else true)
      && (if md then opt_eqb (list_eqb feqb) (m float Xf (fun x => x) inp) fast else true)
      (* the LDL kernels once more through the buffer-taking machines of ModelOpt.v (ProofsOptBuf: their result
         does not depend on the prior factor buffers), so that those are tied to the Go text as well *)
      && (if md && (r =? 0) && Nat.odd o then
            opt_eqb (list_eqb feqb) ((if Nat.odd (o / 2) then p_fpd_fresh (nth 0 d 0) else p_ldl_fresh (nth 0 d 0)) float Xf (fun x => x) inp) fast
          else true)
      && forallb (fun g : bool * option (list float) =>
                    (if md then opt_eqb (list_eqb feqb) (m float (if fst g then Xg else Xf) (fun x => x) inp) (snd g) else true)
                    && opt_eqb (list_eqb veqb) fast (snd g)) gens
  | KOD w z r o d k ord sq sp out =>
      let m := opt_prog r o d in
      let w32 := w =? 32 in
      let J := if w32 then m (jet float) (NumXJS NumDFg r32 k ord) (jlogS NumDFg r32 k ord) (map (seed1 NumDFg k ord) sp)
               else m (jet float) (NumXJ NumDFg k ord) (jlog NumDFg k ord) (map (seed1 NumDFg k ord) sp) in
      (if w32 then forallb (fun e => is32 (snd e)) (if (r =? 0) && (o =? 3) then skipn 2 sp else sp) else true) &&
      match J, out with
      | None, None => true
      | Some js, Some ss =>
          let tol := ((if w32 then Qmake 1 8192 else Qmake 1 67108864) * (1 + qmaxabs (flat_map (fun s => concat (snd s)) ss)))%Q in
          (length js =? length ss)
          && forallb (fun p => (if z then slot_ok_z else slot_ok) k ord sq tol (fst p) (snd p)) (combine js ss)
      | _, _ => false
      end
  | KDisp r rows => leqb srow_eqb rows (src_table r) && negb (length rows =? 0)
  | KHM which sparse x32 r32b sq ts rn rm r0 xarg out clean intact =>
      let XJ := if x32 then NumXJS NumDFg r32 else NumXJ NumDFg in
      let LJ := if x32 then jlogS NumDFg r32 else jlog NumDFg in
      let st := if r32b then r32 else (fun v => v) in
      clean && intact
      && (if x32 then forallb (fun a => is32 (mv a)) xarg else true)
      && match helper_run NumDFg XJ LJ st (vf_of ts) which sparse rn rm r0 xarg, out with
         | HPanic, None => true
         | HOk M xa, Some (n, m, M') =>
             let tol := ((if x32 || r32b then Qmake 1 8192 else Qmake 1 67108864) * (1 + qmaxabs (concat M')))%Q in
             (length M =? n) && forallb (fun row => length row =? m) M
             && list_eqb (list_eqb (if sq && (which =? 1) then closeb tol else feqb)) M M'
         | _, _ => false
         end
  | KHSrc which sparse prog copies agree =>
      hprog_eqb prog (src_helper which sparse) && (copies =? agree) && (9 <=? copies)
  | KPV op k o sp va vb vr out =>
      match view_prod (M5.nx (NumXJ NumDFg k o)) op (map (seed1 NumDFg k o) sp) va vb vr, out with
      | None, None => true
      | Some js, Some ss =>
          (length js =? length ss) && forallb (fun p => slot_ok k o false 0%Q (fst p) (snd p)) (combine js ss)
      | _, _ => false
      end
  | KEq _ a b => list_eqb veqb a b
  | KF kind n sym tol vals aux grads => formula_ok kind n sym tol vals aux grads
  | KJac fid x jac xord =>
      list_eqb (list_eqb feqb) (jacobian NumDFg (fun B X lg => vf X fid) x) jac && (xord =? 0)
  | KHes fid x hes xord =>
      list_eqb (list_eqb feqb) (hessian NumDFg (fun B X lg => sf X fid) x) hes && (xord =? 0)
  end.

Definition mism (cs : list kase) : list nat := mismatches check cs.
