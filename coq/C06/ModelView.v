(* C06 round 7: dense products on VIEWS of backing arrays (matrix_dense_real64.go: index / SLICE / MagicT /
   storageLocation; matrix_dense_real64_math.go: MdotM / MDOTM; vector_dense_real64_math.go: MdotV / MDOTV /
   VdotM / VDOTM).

   The memory is ONE list (all backing arrays laid out one after the other); a view names its backing array by
   the position of that array's element 0 (vbase: what storageLocation() returns), the offsets, the extent of the
   backing array and the transposed flag, exactly the fields of DenseReal64Matrix.  A dense vector is the view
   rows = len, cols = 1, cmax = 1.  Writes go to the memory in the order of the Go loops, so overlapping operands
   (result and right operand being views of one array at the same or at different offsets) behave as in Go. *)
From Coq Require Import List Bool Arith.
From ADV Require Import Base.Num.
Import ListNotations.

Record view := mkView { vbase : nat; vro : nat; vco : nat; vrows : nat; vcols : nat; vrmax : nat; vcmax : nat; vtr : bool }.

(* DenseReal64Matrix.index *)
Definition vidx (v : view) (i j : nat) : nat :=
  vbase v + (if vtr v then (vco v + j) * vrmax v + (vro v + i) else (vro v + i) * vcmax v + (vco v + j)).
(* MagicT *)
Definition vT (v : view) : view :=
  mkView (vbase v) (vco v) (vro v) (vcols v) (vrows v) (vcmax v) (vrmax v) (negb (vtr v)).
(* SLICE(rfrom, rto, cfrom, cto) *)
Definition vslice (v : view) (rf rt cf ct : nat) : view :=
  mkView (vbase v) (vro v + rf) (vco v + cf) (rt - rf) (ct - cf) (vrmax v) (vcmax v) (vtr v).

Fixpoint upd {A} (l : list A) (i : nat) (x : A) : list A :=
  match l, i with
  | [], _ => []
  | _ :: t, O => x :: t
  | h :: t, S i' => h :: upd t i' x
  end.

Section Store.
Context {A : Type} (N : Num A).

Definition sget (S : list A) (v : view) (i j : nat) : A := nth (vidx v i j) S (zero N).
Definition vread (S : list A) (v : view) : list (list A) :=
  map (fun i => map (fun j => sget S v i j) (seq 0 (vcols v))) (seq 0 (vrows v)).

(* t2.Reset(); for k { t1.Mul(a[i,k], b[k,j]); t2.Add(t2, t1) } *)
Definition vdot (S : list A) (va vb : view) (m1 i j : nat) : A :=
  fold_left (fun t2 k => add N t2 (mul N (sget S va i k) (sget S vb k j))) (seq 0 m1) (zero N).

(* r.MdotM(a, b) / r.MDOTM(a, b): None = the dimension panic *)
Definition mdotm_store (S : list A) (va vb vr : view) : option (list A) :=
  let n := vrows vr in let m := vcols vr in let m1 := vcols va in
  if negb ((vrows va =? n) && (vcols vb =? m) && (m1 =? vrows vb)) then None
  else if vbase vr =? vbase vb then
    (* r.storageLocation() == b.storageLocation(): one column at a time through tmp1 *)
    Some (fold_left (fun S j =>
            let t3 := map (fun i => vdot S va vb m1 i j) (seq 0 n) in
            fold_left (fun S i => upd S (vidx vr i j) (nth i t3 (zero N))) (seq 0 n) S) (seq 0 m) S)
  else
    (* one row at a time through tmp2 *)
    Some (fold_left (fun S i =>
            let t3 := map (fun j => vdot S va vb m1 i j) (seq 0 m) in
            fold_left (fun S j => upd S (vidx vr i j) (nth j t3 (zero N))) (seq 0 m) S) (seq 0 n) S).

(* r.MdotV(a, b) / r.MDOTV(a, b): r, b vectors (views with one column); accumulates in r[i] directly.
   The identity test r.AT(0) == b.ConstAt(0) is the equality of the first cells. *)
Definition mdotv_store (S : list A) (va vb vr : view) : option (list A) :=
  let n := vrows va in let m := vcols va in
  if negb ((vrows vr =? n) && (vrows vb =? m)) then None
  else if (n =? 0) || (m =? 0) then Some S
  else if vidx vr 0 0 =? vidx vb 0 0 then None
  else Some (fold_left (fun S i =>
         fold_left (fun S j => upd S (vidx vr i 0) (add N (sget S vr i 0) (mul N (sget S va i j) (sget S vb j 0))))
                   (seq 0 m) (upd S (vidx vr i 0) (zero N))) (seq 0 n) S).

(* r.VdotM(a, b) / r.VDOTM(a, b): a vector, b matrix *)
Definition vdotm_store (S : list A) (va vb vr : view) : option (list A) :=
  let n := vrows vb in let m := vcols vb in
  if negb ((vrows vr =? m) && (vrows va =? n)) then None
  else if (n =? 0) || (m =? 0) then Some S
  else if vidx vr 0 0 =? vidx va 0 0 then None
  else Some (fold_left (fun S i =>
         fold_left (fun S j => upd S (vidx vr i 0) (add N (sget S vr i 0) (mul N (sget S va j 0) (sget S vb j i))))
                   (seq 0 n) (upd S (vidx vr i 0) (zero N))) (seq 0 m) S).

Definition view_prod (op : nat) (S : list A) (va vb vr : view) : option (list A) :=
  match op with
  | 0 => mdotm_store S va vb vr
  | 1 => mdotv_store S va vb vr
  | _ => vdotm_store S va vb vr
  end.
End Store.
