(* C06/ModelBuf.v (round 2) — the buffer-taking routines as programs.

   [p_*_buf]: the flat input is  buffers ++ data ; the buffers are what the caller's InSitu struct held
   before the call (for the magic carrier: value, activity, gradient and Hessian of every entry).
   [p_*_fresh]: the same call without caller-supplied buffers.  Models: C04.Model.cholesky (factor
   buffer L0), C04.Model2 (HEAD: backsub_run_v2, m_inverse_insitu, det_pd_insitu).  No proofs. *)
From Coq Require Import List ZArith Bool Reals Floats Arith.
From ADV Require Import Base.Num.
From ADV Require C04.Model C04.Model2 C05.Model.
From ADV Require Import C06.Model.
Import ListNotations.

Module M4b := ADV.C04.Model2.

(* cholesky.Run(a, &InSitu{L}) : input L0 (n*n) ++ a (n*n) *)
Definition p_chol4_buf (n : nat) : prog := fun A X lg inp =>
  of_outcome (@concat A) (M4.cholesky (M5.nx X) n (chunk n n (skipn (n * n) inp)) (chunk n n inp)).
Definition p_chol4_fresh (n : nat) : prog := fun A X lg inp =>
  of_outcome (@concat A) (M4.cholesky (M5.nx X) n (chunk n n inp) (M4.zmat (M5.nx X) n)).

(* determinant.Run(a, PositiveDefinite [, LogScale], &InSitu{Cholesky.L}) : input L0 ++ a *)
Definition p_detpd_buf (logscale : bool) (n : nat) : prog := fun A X lg inp =>
  of_outcome (fun d => [d])
    (M4b.det_pd_insitu (M5.nx X) lg logscale n (Some (chunk n n inp)) (chunk n n (skipn (n * n) inp))).
Definition p_detpd_fresh (logscale : bool) (n : nat) : prog := fun A X lg inp =>
  of_outcome (fun d => [d]) (M4b.det_pd_insitu (M5.nx X) lg logscale n None (chunk n n inp)).

(* matrixInverse.Run(m, mode, &InSitu{Id, A, B, Cholesky.L}) : input Id ++ A ++ L (n*n each) ++ B (n) ++ m *)
Definition p_inv_buf (mode : M4.inv_mode) (n : nat) : prog := fun A X lg inp =>
  let q := n * n in
  of_outcome (@concat A)
    (M4b.m_inverse_insitu (M5.nx X) false mode n None
       (M4b.mkBufs (Some (chunk n n inp)) (Some (chunk n n (skipn q inp)))
                   (Some (firstn n (skipn (3 * q) inp))) (Some (chunk n n (skipn (2 * q) inp))))
       (chunk n n (skipn (3 * q + n) inp))).
Definition p_inv_fresh (mode : M4.inv_mode) (n : nat) : prog := fun A X lg inp =>
  of_outcome (@concat A) (M4b.m_inverse_v2 (M5.nx X) false mode n None (chunk n n inp)).

(* backSubstitution.Run(A, b, &InSitu{A: buf, X: x0}) : input buf (n*n) ++ x0 (n) ++ A (n*n) ++ b (n) *)
Definition p_backsub_buf (n : nat) : prog := fun A X lg inp =>
  let q := n * n in
  Some (M4b.backsub_run_v2 (M5.nx X) n (chunk n n (skipn (q + n) inp)) (Some (skipn (q + n + q) inp))
          (Some (chunk n n inp)) (firstn n (skipn q inp))).
Definition p_backsub_fresh (n : nat) : prog := fun A X lg inp =>
  Some (M4b.backsub_run_v2 (M5.nx X) n (chunk n n inp) (Some (skipn (n * n) inp)) None (M4.zeros (M5.nx X) n)).
