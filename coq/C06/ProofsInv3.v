(* C06/ProofsInv3.v — matrixInverse (Gauss-Jordan with partial pivoting) on a 3 x 3 matrix,
   every hypothesis of jet_lift discharged, for two pivot patterns:
     (i)  no row exchange at all,
     (ii) exactly one row exchange, at step 0 (row 1 becomes the first pivot row).
   The pivot search (M4.find_max) consults a strict  |a[p mr, i]| < |a[p j, i]|  for
   j = i+1 .. 2: two comparisons at step 0 (on the inputs), one at step 1 (on the
   once-eliminated entries), none at step 2.  The domain fixes the three answers by strict
   inequalities and asks the last pivot to be non-zero; the first two pivots are non-zero
   because they win a strict comparison of absolute values.  The domain is open
   (ProofsOpen), hence [stable]; [run_safe] is checked by a computable test: every
   denominator of the straight-line program is one of five expressions whose values are
   the three pivots. *)
From Coq Require Import Reals List Lia Lra Bool ZArith Psatz.
From Coquelicot Require Import Coquelicot.
From ADV Require Import Base.Num C06.Model C06.Spec C06.ParamT C06.ProofsAlg C06.ProofsAna C06.ProofsLift C06.ProofsInst C06.ProofsOpen.
Import ListNotations.
Open Scope R_scope.

(* ------------------------------------------------------------------ safety by denominators *)
(* syntactic equality test, complete on constant-free expressions (sound everywhere) *)
Fixpoint expr_eqb (a b : expr) : bool :=
  match a, b with
  | Var i, Var j => Nat.eqb i j
  | EAdd a1 a2, EAdd b1 b2 | ESub a1 a2, ESub b1 b2
  | EMul a1 a2, EMul b1 b2 | EDiv a1 a2, EDiv b1 b2 => expr_eqb a1 b1 && expr_eqb a2 b2
  | ENeg a1, ENeg b1 => expr_eqb a1 b1
  | _, _ => false
  end.

Lemma expr_eqb_eq a : forall b, expr_eqb a b = true -> a = b.
Proof.
  induction a as [q|c|a1 IH1 a2 IH2|a1 IH1 a2 IH2|a1 IH1 a2 IH2|a1 IH1 a2 IH2|a1 IH1|a1 IH1|a1 IH1|a1 IH1|a1 IH1 a2 IH2|];
    intros [q'|c'|b1 b2|b1 b2|b1 b2|b1 b2|b1|b1|b1|b1|b1 b2|]; cbn [expr_eqb]; intro H; try discriminate H.
  - apply Nat.eqb_eq in H. subst. reflexivity.
  - apply andb_prop in H as [H1 H2]. rewrite (IH1 _ H1), (IH2 _ H2). reflexivity.
  - apply andb_prop in H as [H1 H2]. rewrite (IH1 _ H1), (IH2 _ H2). reflexivity.
  - apply andb_prop in H as [H1 H2]. rewrite (IH1 _ H1), (IH2 _ H2). reflexivity.
  - apply andb_prop in H as [H1 H2]. rewrite (IH1 _ H1), (IH2 _ H2). reflexivity.
  - rewrite (IH1 _ H). reflexivity.
Qed.

(* e uses + - * / neg only and every denominator is (syntactically) in ds *)
Fixpoint dsafe (ds : list expr) (e : expr) : bool :=
  match e with
  | Var _ | Cst _ => true
  | EAdd a b | ESub a b | EMul a b => dsafe ds a && dsafe ds b
  | EDiv a b => dsafe ds a && dsafe ds b && existsb (expr_eqb b) ds
  | ENeg a => dsafe ds a
  | _ => false
  end.

Lemma dsafe_sound x ds e : (forall d, In d ds -> evalR x d <> 0) -> dsafe ds e = true -> safe x e.
Proof.
  intro HD.
  induction e as [q|c|e1 IHe1 e2 IHe2|e1 IHe1 e2 IHe2|e1 IHe1 e2 IHe2|e1 IHe1 e2 IHe2|e IHe|e IHe|e IHe|e IHe|e1 IHe1 e2 IHe2|];
    cbn [dsafe safe]; intro H; try discriminate H; try exact I.
  - apply andb_prop in H as [H1 H2]. split; auto.
  - apply andb_prop in H as [H1 H2]. split; auto.
  - apply andb_prop in H as [H1 H2]. split; auto.
  - apply andb_prop in H as [H12 H3]. apply andb_prop in H12 as [H1 H2]. split; [auto|]. split; [auto|].
    apply existsb_exists in H3 as (d & Hin & Heq). apply expr_eqb_eq in Heq. subst d. apply HD. exact Hin.
  - auto.
Qed.

Lemma dsafe_all_sound x ds E : (forall d, In d ds -> evalR x d <> 0) -> forallb (dsafe ds) E = true -> List.Forall (safe x) E.
Proof.
  intros HD H. rewrite forallb_forall in H. apply Forall_forall. intros e He. apply (dsafe_sound x ds e HD). apply H. exact He.
Qed.

(* ------------------------------------------------------------------ the symbolic carrier with an ORACLE for the comparisons *)
(* used only to name the straight-line program: the run at x equals the oracle run when the oracle
   answers as the comparisons at x do *)
Definition NumEo (lt : expr -> expr -> bool) : Num expr :=
  mkNum expr (Cst 0) (Cst 1) EAdd ESub EMul EDiv ENeg EAbs ESqrt
        lt (fun a b => false) (fun a b => false) (fun z => Cst (IZR z)) (fun _ => false).
Definition NumXEo lt : M5.NumX expr := M5.mkNumX expr (NumEo lt) ENegInf EMax ESqrt.

Definition lt_never (a b : expr) : bool := false.
(* "|x0| < |x3|" is the only comparison answered yes *)
Definition lt_03 (a b : expr) : bool := match a, b with EAbs (Var 0), EAbs (Var 3) => true | _, _ => false end.

Definition run_oracle lt : option (list expr) := p_inv M4.InvPlain 3 expr (NumXEo lt) ELog (in_E (all_vars 9)).

(* the two straight-line programs (9 outputs each, sizes 1395 x3, 231 x3, 63 x3 nodes) *)
Definition inv3_E_ne : list expr := Eval cbv -[IZR] in match run_oracle lt_never with Some E => E | None => [] end.
Definition inv3_E_ex : list expr := Eval cbv -[IZR] in match run_oracle lt_03 with Some E => E | None => [] end.

Lemma run_oracle_ne : run_oracle lt_never = Some inv3_E_ne.
Proof. cbv -[IZR]. reflexivity. Qed.
Lemma run_oracle_ex : run_oracle lt_03 = Some inv3_E_ex.
Proof. cbv -[IZR]. reflexivity. Qed.

(* ------------------------------------------------------------------ the named pieces: pivot row a, second row b, third row g *)
Section Piv.
Variables ia0 ia1 ia2 ib0 ib1 ib2 ig0 ig1 ig2 : nat.
Let a0 := Var ia0. Let a1 := Var ia1. Let a2 := Var ia2.
Let b0 := Var ib0. Let b1 := Var ib1. Let b2 := Var ib2.
Let g0 := Var ig0. Let g1 := Var ig1. Let g2 := Var ig2.

(* forward step 0 *)
Definition q_c1 := EDiv b0 a0.
Definition q_c2 := EDiv g0 a0.
Definition q_b0 := ESub b0 (EMul a0 q_c1).
Definition q_b1 := ESub b1 (EMul a1 q_c1).
Definition q_b2 := ESub b2 (EMul a2 q_c1).
Definition q_g0 := ESub g0 (EMul a0 q_c2).
Definition q_g1 := ESub g1 (EMul a1 q_c2).
Definition q_g2 := ESub g2 (EMul a2 q_c2).
(* forward step 1 *)
Definition q_c := EDiv q_g1 q_b1.
Definition q_h1 := ESub q_g1 (EMul q_b1 q_c).
Definition q_h2 := ESub q_g2 (EMul q_b2 q_c).          (* third pivot *)
(* back step i = 2 (rows a and b), i = 1 (row a) *)
Definition q_z02 := ESub a2 (EDiv (EMul a2 q_h2) q_h2).
Definition q_a01 := ESub a1 (EDiv (EMul q_z02 q_h1) q_h2).
Definition q_a00 := ESub a0 (EDiv (EMul q_z02 q_g0) q_h2).
Definition q_z12 := ESub q_b2 (EDiv (EMul q_b2 q_h2) q_h2).
Definition q_cc1 := ESub q_b1 (EDiv (EMul q_z12 q_h1) q_h2).   (* divisor of back step 1: value = second pivot *)
Definition q_b00 := ESub q_b0 (EDiv (EMul q_z12 q_g0) q_h2).
Definition q_z01 := ESub q_a01 (EDiv (EMul q_a01 q_cc1) q_cc1).
Definition q_cc0 := ESub q_a00 (EDiv (EMul q_z01 q_b00) q_cc1). (* divisor of back step 0: value = first pivot *)
(* every denominator of the program *)
Definition q_dens : list expr := [q_cc0; q_h2; a0; q_b1; q_cc1].

(* the pivot pattern "row a wins step 0, row b wins step 1", last pivot non-zero *)
Definition inv3_cond (x : nat -> R) : Prop :=
  Rabs (evalR x b0) < Rabs (evalR x a0) /\ Rabs (evalR x g0) < Rabs (evalR x a0) /\
  Rabs (evalR x q_g1) < Rabs (evalR x q_b1) /\ evalR x q_h2 <> 0.

Lemma abs_lt_nz u v : Rabs u < Rabs v -> v <> 0.
Proof. intros H E. rewrite E, Rabs_R0 in H. pose proof (Rabs_pos u). lra. Qed.

Lemma ev_zero_pat x r c : evalR x c <> 0 -> evalR x (ESub r (EDiv (EMul r c) c)) = 0.
Proof. intro H. change (evalR x r - evalR x r * evalR x c / evalR x c = 0). field. exact H. Qed.
Lemma ev_keep_pat x r z w c : evalR x z = 0 -> evalR x (ESub r (EDiv (EMul z w) c)) = evalR x r.
Proof. intro H. change (evalR x r - evalR x z * evalR x w / evalR x c = evalR x r). rewrite H. unfold Rdiv. ring. Qed.

Lemma inv3_cond_nz x : inv3_cond x -> evalR x a0 <> 0 /\ evalR x q_b1 <> 0 /\ evalR x q_h2 <> 0.
Proof.
  intros (H1 & H2 & H3 & H4). split; [exact (abs_lt_nz _ _ H1)|]. split; [exact (abs_lt_nz _ _ H3)|exact H4].
Qed.

Lemma q_cc1_val x : evalR x q_h2 <> 0 -> evalR x q_cc1 = evalR x q_b1.
Proof. intro N2. unfold q_cc1. apply ev_keep_pat. unfold q_z12. apply ev_zero_pat. exact N2. Qed.

Lemma q_cc0_val x : evalR x q_h2 <> 0 -> evalR x q_cc1 <> 0 -> evalR x q_cc0 = evalR x a0.
Proof.
  intros N2 N1. unfold q_cc0. rewrite ev_keep_pat.
  - unfold q_a00. apply ev_keep_pat. unfold q_z02. apply ev_zero_pat. exact N2.
  - unfold q_z01. apply ev_zero_pat. exact N1.
Qed.

Lemma inv3_cond_dens x : inv3_cond x -> forall d, In d q_dens -> evalR x d <> 0.
Proof.
  intros D. destruct (inv3_cond_nz x D) as (N0 & N1 & N2).
  assert (C1 : evalR x q_cc1 <> 0) by (rewrite (q_cc1_val x N2); exact N1).
  assert (C0 : evalR x q_cc0 <> 0) by (rewrite (q_cc0_val x N2 C1); exact N0).
  intros d [<-|[<-|[<-|[<-|[<-|[]]]]]]; assumption.
Qed.

Lemma inv3_cond_safe x : inv3_cond x -> safe x q_g1 /\ safe x q_b1 /\ safe x q_h2.
Proof.
  intros D. destruct (inv3_cond_nz x D) as (N0 & N1 & N2).
  assert (Sg1 : safe x q_g1) by (cbn [safe q_g1 q_c2]; repeat split; exact N0).
  assert (Sb1 : safe x q_b1) by (cbn [safe q_b1 q_c1]; repeat split; exact N0).
  split; [exact Sg1|]. split; [exact Sb1|].
  unfold q_h2. cbn [safe]. split; [cbn [safe q_g2 q_c2]; repeat split; exact N0|].
  split; [cbn [safe q_b2 q_c1]; repeat split; exact N0|]. unfold q_c. cbn [safe]. repeat split; assumption.
Qed.

Lemma inv3_cond_open x : inv3_cond x -> locally x inv3_cond.
Proof.
  intros D. destruct (inv3_cond_safe x D) as (Sg1 & Sb1 & Sh2). destruct D as (H1 & H2 & H3 & H4).
  apply filter_and; [apply abs_lt_locally; [exact I|exact I|exact H1]|].
  apply filter_and; [apply abs_lt_locally; [exact I|exact I|exact H2]|].
  apply filter_and; [apply abs_lt_locally; assumption|].
  apply neq_locally; assumption.
Qed.

End Piv.

Lemma Rltb_true_lt a b : a < b -> Rltb a b = true.
Proof. intro H. apply Rltb_true. exact H. Qed.

(* ------------------------------------------------------------------ the forward phase, step by step *)
(* each fwd_step over the carrier at x equals the oracle's once the value of the pivot search is known *)
Ltac fwd_steps lt FM0tac FM1tac :=
  match goal with
  | |- M4.fwd (NumE ?x) 3 ?msk ?s0 = _ =>
    pose (F0 := M4.mkF (seq 0 3) s0 (@nil expr));
    pose (F1 := M4.fwd_step (NumEo lt) 3 msk F0 0);
    pose (F2 := M4.fwd_step (NumEo lt) 3 msk F1 1);
    pose (F3 := M4.fwd_step (NumEo lt) 3 msk F2 2);
    assert (S1 : M4.fwd_step (NumE x) 3 msk F0 0 = F1);
    [ assert (FM : M4.find_max (NumE x) (M4.sa (M4.fs F0)) (M4.fp F0) msk 3 0
                   = M4.find_max (NumEo lt) (M4.sa (M4.fs F0)) (M4.fp F0) msk 3 0);
      [ cbv -[Rltb evalR IZR]; FM0tac
      | unfold F1, M4.fwd_step; rewrite FM; cbv -[Rltb evalR IZR]; reflexivity ]
    | assert (S2 : M4.fwd_step (NumE x) 3 msk F1 1 = F2);
      [ assert (FM : M4.find_max (NumE x) (M4.sa (M4.fs F1)) (M4.fp F1) msk 3 1
                     = M4.find_max (NumEo lt) (M4.sa (M4.fs F1)) (M4.fp F1) msk 3 1);
        [ cbv -[Rltb evalR IZR]; FM1tac
        | unfold F2, M4.fwd_step; rewrite FM; cbv -[Rltb evalR IZR]; reflexivity ]
      | assert (S3 : M4.fwd_step (NumE x) 3 msk F2 2 = F3);
        [ unfold F3, M4.fwd_step; cbv -[Rltb evalR IZR]; reflexivity
        | transitivity (M4.fwd_step (NumE x) 3 msk (M4.fwd_step (NumE x) 3 msk (M4.fwd_step (NumE x) 3 msk F0 0) 1) 2);
          [ reflexivity | rewrite S1, S2, S3; cbv -[IZR]; reflexivity ] ] ] ]
  end.

Definition s0_of (x : nat -> R) : M4.st :=
  M4.mkSt (chunk 3 3 (in_E (all_vars 9))) (M4.ident (M5.nx (NumXE x)) 3) (M4.ones (M5.nx (NumXE x)) 3).

(* ================================================================== (i) no row exchange *)
Definition inv3_dom_ne (x : nat -> R) : Prop := inv3_cond 0 1 2 3 4 5 6 7 8 x.

Lemma inv3_dom_ne_explicit x : inv3_dom_ne x <->
  Rabs (x 3%nat) < Rabs (x 0%nat) /\ Rabs (x 6%nat) < Rabs (x 0%nat) /\
  Rabs (x 7%nat - x 1%nat * (x 6%nat / x 0%nat)) < Rabs (x 4%nat - x 1%nat * (x 3%nat / x 0%nat)) /\
  (x 8%nat - x 2%nat * (x 6%nat / x 0%nat))
  - (x 5%nat - x 2%nat * (x 3%nat / x 0%nat))
    * ((x 7%nat - x 1%nat * (x 6%nat / x 0%nat)) / (x 4%nat - x 1%nat * (x 3%nat / x 0%nat))) <> 0.
Proof. reflexivity. Qed.

Lemma inv3_fwd_ne x : inv3_dom_ne x ->
  M4.fwd (M5.nx (NumXE x)) 3 (M4.all_true 3) (s0_of x) = M4.fwd (NumEo lt_never) 3 (M4.all_true 3) (s0_of x).
Proof.
  intros (H1 & H2 & H3 & _). unfold s0_of.
  assert (E01 : Rltb (evalR x (EAbs (Var 0))) (evalR x (EAbs (Var 3))) = false) by (apply Rltb_false; apply Rlt_le; exact H1).
  assert (E02 : Rltb (evalR x (EAbs (Var 0))) (evalR x (EAbs (Var 6))) = false) by (apply Rltb_false; apply Rlt_le; exact H2).
  assert (E12 : Rltb (evalR x (EAbs (q_b1 0 1 3 4))) (evalR x (EAbs (q_g1 0 1 6 7))) = false)
    by (apply Rltb_false; apply Rlt_le; exact H3).
  cbv -[Rltb evalR IZR] in E01, E02, E12.
  change (M5.nx (NumXE x)) with (NumE x).
  fwd_steps lt_never
    ltac:(rewrite E01; cbv -[Rltb evalR IZR]; rewrite E02; reflexivity)
    ltac:(rewrite E12; reflexivity).
Qed.

Lemma inv3_run_ne x : inv3_dom_ne x -> runE (p_inv M4.InvPlain 3) x (all_vars 9) = Some inv3_E_ne.
Proof.
  intro D. rewrite <- run_oracle_ne. unfold runE, run_oracle, p_inv, M4.m_inverse, M4.gj_run, M4.gj_core.
  change (M4.mkSt (chunk 3 3 (in_E (all_vars 9))) (M4.ident (M5.nx (NumXE x)) 3) (M4.ones (M5.nx (NumXE x)) 3)) with (s0_of x).
  rewrite (inv3_fwd_ne x D).
  cbv -[IZR]. reflexivity.
Qed.

Lemma inv3_dens_ne : forallb (dsafe (q_dens 0 1 2 3 4 5 6 7 8)) inv3_E_ne = true.
Proof. vm_compute. reflexivity. Qed.

Lemma inv3_E_safe_ne x : inv3_dom_ne x -> List.Forall (safe x) inv3_E_ne.
Proof.
  intro D. apply (dsafe_all_sound x (q_dens 0 1 2 3 4 5 6 7 8)); [|exact inv3_dens_ne].
  apply inv3_cond_dens. exact D.
Qed.

Lemma inv3_safe_ne x : inv3_dom_ne x -> run_safe (p_inv M4.InvPlain 3) (all_vars 9) x.
Proof. intro D. exists inv3_E_ne. split; [apply inv3_run_ne; exact D|apply inv3_E_safe_ne; exact D]. Qed.

Lemma inv3_stable_ne x : inv3_dom_ne x -> stable (p_inv M4.InvPlain 3) (all_vars 9) x.
Proof.
  intro D. apply (stable_of_locally _ _ x inv3_dom_ne inv3_E_ne inv3_run_ne). apply inv3_cond_open. exact D.
Qed.

Theorem inv3_jets_no_exchange k o x : inv3_dom_ne x ->
  exists J, runJ (p_inv M4.InvPlain 3) k o x (all_vars 9) = Some J /\
            runR (p_inv M4.InvPlain 3) x (all_vars 9) = Some (map jv J) /\
            J = map (evalJ k o x) inv3_E_ne /\
            (forall q, holds k o (outR (p_inv M4.InvPlain 3) (all_vars 9) q) x (nth q J (jconst 0))) /\
            (forall q, holds k o (fun y => evalR y (nth q inv3_E_ne (Cst 0))) x (nth q J (jconst 0))).
Proof.
  intro D.
  destruct (jets_of_open (p_inv M4.InvPlain 3) (routine_param (RInv M4.InvPlain 3)) k o x (all_vars 9) inv3_E_ne inv3_dom_ne
              inv3_run_ne (inv3_cond_open _ _ _ _ _ _ _ _ _ x D) (inv3_E_safe_ne x D)) as (_ & _ & HJ).
  exact HJ.
Qed.

(* ================================================================== (ii) one row exchange, at step 0 *)
(* pivot row = row 1 (entries 3 4 5), then row 0, then row 2 *)
Definition inv3_dom_ex (x : nat -> R) : Prop := inv3_cond 3 4 5 0 1 2 6 7 8 x.

Lemma inv3_dom_ex_explicit x : inv3_dom_ex x <->
  Rabs (x 0%nat) < Rabs (x 3%nat) /\ Rabs (x 6%nat) < Rabs (x 3%nat) /\
  Rabs (x 7%nat - x 4%nat * (x 6%nat / x 3%nat)) < Rabs (x 1%nat - x 4%nat * (x 0%nat / x 3%nat)) /\
  (x 8%nat - x 5%nat * (x 6%nat / x 3%nat))
  - (x 2%nat - x 5%nat * (x 0%nat / x 3%nat))
    * ((x 7%nat - x 4%nat * (x 6%nat / x 3%nat)) / (x 1%nat - x 4%nat * (x 0%nat / x 3%nat))) <> 0.
Proof. reflexivity. Qed.

Lemma inv3_fwd_ex x : inv3_dom_ex x ->
  M4.fwd (M5.nx (NumXE x)) 3 (M4.all_true 3) (s0_of x) = M4.fwd (NumEo lt_03) 3 (M4.all_true 3) (s0_of x).
Proof.
  intros (H1 & H2 & H3 & _). unfold s0_of.
  assert (E01 : Rltb (evalR x (EAbs (Var 0))) (evalR x (EAbs (Var 3))) = true) by (apply Rltb_true_lt; exact H1).
  assert (E02 : Rltb (evalR x (EAbs (Var 3))) (evalR x (EAbs (Var 6))) = false) by (apply Rltb_false; apply Rlt_le; exact H2).
  assert (E12 : Rltb (evalR x (EAbs (q_b1 3 4 0 1))) (evalR x (EAbs (q_g1 3 4 6 7))) = false)
    by (apply Rltb_false; apply Rlt_le; exact H3).
  cbv -[Rltb evalR IZR] in E01, E02, E12.
  change (M5.nx (NumXE x)) with (NumE x).
  fwd_steps lt_03
    ltac:(rewrite E01; cbv -[Rltb evalR IZR]; rewrite E02; reflexivity)
    ltac:(rewrite E12; reflexivity).
Qed.

Lemma inv3_run_ex x : inv3_dom_ex x -> runE (p_inv M4.InvPlain 3) x (all_vars 9) = Some inv3_E_ex.
Proof.
  intro D. rewrite <- run_oracle_ex. unfold runE, run_oracle, p_inv, M4.m_inverse, M4.gj_run, M4.gj_core.
  change (M4.mkSt (chunk 3 3 (in_E (all_vars 9))) (M4.ident (M5.nx (NumXE x)) 3) (M4.ones (M5.nx (NumXE x)) 3)) with (s0_of x).
  rewrite (inv3_fwd_ex x D).
  cbv -[IZR]. reflexivity.
Qed.

Lemma inv3_dens_ex : forallb (dsafe (q_dens 3 4 5 0 1 2 6 7 8)) inv3_E_ex = true.
Proof. vm_compute. reflexivity. Qed.

Lemma inv3_E_safe_ex x : inv3_dom_ex x -> List.Forall (safe x) inv3_E_ex.
Proof.
  intro D. apply (dsafe_all_sound x (q_dens 3 4 5 0 1 2 6 7 8)); [|exact inv3_dens_ex].
  apply inv3_cond_dens. exact D.
Qed.

Lemma inv3_safe_ex x : inv3_dom_ex x -> run_safe (p_inv M4.InvPlain 3) (all_vars 9) x.
Proof. intro D. exists inv3_E_ex. split; [apply inv3_run_ex; exact D|apply inv3_E_safe_ex; exact D]. Qed.

Lemma inv3_stable_ex x : inv3_dom_ex x -> stable (p_inv M4.InvPlain 3) (all_vars 9) x.
Proof.
  intro D. apply (stable_of_locally _ _ x inv3_dom_ex inv3_E_ex inv3_run_ex). apply inv3_cond_open. exact D.
Qed.

Theorem inv3_jets_one_exchange k o x : inv3_dom_ex x ->
  exists J, runJ (p_inv M4.InvPlain 3) k o x (all_vars 9) = Some J /\
            runR (p_inv M4.InvPlain 3) x (all_vars 9) = Some (map jv J) /\
            J = map (evalJ k o x) inv3_E_ex /\
            (forall q, holds k o (outR (p_inv M4.InvPlain 3) (all_vars 9) q) x (nth q J (jconst 0))) /\
            (forall q, holds k o (fun y => evalR y (nth q inv3_E_ex (Cst 0))) x (nth q J (jconst 0))).
Proof.
  intro D.
  destruct (jets_of_open (p_inv M4.InvPlain 3) (routine_param (RInv M4.InvPlain 3)) k o x (all_vars 9) inv3_E_ex inv3_dom_ex
              inv3_run_ex (inv3_cond_open _ _ _ _ _ _ _ _ _ x D) (inv3_E_safe_ex x D)) as (_ & _ & HJ).
  exact HJ.
Qed.

(* ------------------------------------------------------------------ the domains are inhabited *)
Lemma Rabs_lt_pos a b : - b < a -> a < b -> Rabs a < Rabs b.
Proof. intros H1 H2. rewrite (Rabs_right b) by lra. apply Rabs_def1; lra. Qed.

(* [[4,1,2],[1,3,0],[2,1,5]] *)
Example inv3_dom_ne_example : inv3_dom_ne (fun i => nth i [4; 1; 2; 1; 3; 0; 2; 1; 5] 0).
Proof.
  apply inv3_dom_ne_explicit. cbn [nth].
  split; [apply Rabs_lt_pos; lra|]. split; [apply Rabs_lt_pos; lra|]. split; [apply Rabs_lt_pos; lra|].
  replace ((5 - 2 * (2 / 4) - (0 - 2 * (1 / 4)) * ((1 - 1 * (2 / 4)) / (3 - 1 * (1 / 4))))) with (45 / 11) by field. lra.
Qed.

(* the same matrix with rows 0 and 1 exchanged: [[1,3,0],[4,1,2],[2,1,5]] *)
Example inv3_dom_ex_example : inv3_dom_ex (fun i => nth i [1; 3; 0; 4; 1; 2; 2; 1; 5] 0).
Proof.
  apply inv3_dom_ex_explicit. cbn [nth].
  split; [apply Rabs_lt_pos; lra|]. split; [apply Rabs_lt_pos; lra|]. split; [apply Rabs_lt_pos; lra|].
  replace ((5 - 2 * (2 / 4) - (0 - 2 * (1 / 4)) * ((1 - 1 * (2 / 4)) / (3 - 1 * (1 / 4))))) with (45 / 11) by field. lra.
Qed.
