(* C06/Spec.v — what the property says, over the reals.

   A routine is a program [m : prog] (Model.v).  Its inputs are described by a
   [spec]: each entry is variable number i < k ("activated") or a constant.
   Running m on *Real64 scalars is [runJ m k o x s]; running it on plain floats
   is [runR m x s]; both at the point x.

   C06 says: the VALUES of the two runs agree, and the gradient / Hessian slots
   of output r are the first / second partial derivatives, at x, of the real
   function  y |-> (runR m y s)_r  with respect to the activated inputs.

   Partial derivatives are taken along coordinate lines (Coquelicot is_derive);
   the second partial d_i d_j F is the derivative along i of a function that is
   the partial along j of F at every point of the i-line near x. *)
From Coq Require Import Reals List.
From Coquelicot Require Import Coquelicot.
From ADV Require Import Base.Num C06.Model.
Import ListNotations.
Open Scope R_scope.

Definition upd_pt (y : nat -> R) (i : nat) (t : R) : nat -> R := fun q => if Nat.eqb q i then t else y q.

Definition partial (F : (nat -> R) -> R) (i : nat) (y : nat -> R) (d : R) : Prop :=
  is_derive (fun t => F (upd_pt y i t)) (y i) d.

Definition partial2 (F : (nat -> R) -> R) (i j : nat) (y : nat -> R) (h : R) : Prop :=
  exists G : R -> R,
    locally (y i) (fun s => partial F j (upd_pt y i s) (G s)) /\ is_derive G (y i) h.

(* an output jet holds the derivatives of F at x (k variables, order o) *)
Definition holds (k o : nat) (F : (nat -> R) -> R) (x : nat -> R) (J : jet R) : Prop :=
  jv J = F x /\
  ((1 <= o)%nat -> forall i, (i < k)%nat -> partial F i x (gd NumDR J i)) /\
  ((2 <= o)%nat -> forall i j, (i < k)%nat -> (j < k)%nat -> partial2 F i j x (gh NumDR J i j)).

(* the real function computed for output r *)
Definition outR (m : prog) (s : spec) (r : nat) : (nat -> R) -> R :=
  fun y => match runR m y s with Some l => nth r l 0 | None => 0 end.

(* points within delta of x in every coordinate *)
Definition box (x : nat -> R) (delta : R) (y : nat -> R) : Prop := forall q, Rabs (y q - x q) < delta.

(* "the branch decisions (pivot choice, sign tests, error exits) are locally constant at x":
   every point near x executes the same straight-line program as x *)
Definition stable (m : prog) (s : spec) (x : nat -> R) : Prop :=
  exists delta, 0 < delta /\ forall y, box x delta y -> runE m y s = runE m x s.

(* every arithmetic step of the run at x is inside its domain of differentiability *)
Definition run_safe (m : prog) (s : spec) (x : nat -> R) : Prop :=
  exists E, runE m x s = Some E /\ List.Forall (safe x) E.

(* a spec only mentions variables below k *)
Definition spec_ok (k : nat) (s : spec) : Prop :=
  List.Forall (fun p => match fst p with Some i => (i < k)%nat | None => True end) s.

(* matrices over R by index (row lists), for the matrix-calculus statements *)
Definition G2 (M : list (list R)) (i j : nat) : R := nth j (nth i M []) 0.
