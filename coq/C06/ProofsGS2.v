(* C06/ProofsGS2.v — gramSchmidt (p_gs, model M5.gram_schmidt2) with every hypothesis of
   jet_lift discharged on the 2 x 2 matrices with independent columns.

   The model has NO data-dependent branch (M5.gs_cols: the fuel is the number of columns,
   there is no zero test on a norm): [stable] holds at every point and for every size.
   [run_safe] needs the two norms r_00, r_11 (arguments of Sqrt, then divisors) positive. *)
From Coq Require Import Reals List Lia Lra Bool ZArith Psatz.
From Coquelicot Require Import Coquelicot.
From ADV Require Import Base.Num C06.Model C06.Spec C06.ParamT C06.ProofsAlg C06.ProofsAna C06.ProofsLift C06.ProofsInst C06.ProofsOpen.
Import ListNotations.
Open Scope R_scope.

(* no comparison is ever consulted: all sizes, all inputs *)
Lemma stable_gs n m s x : stable (p_gs n m) s x.
Proof. exists 1. split; [lra|]. intros y _. reflexivity. Qed.

Theorem gs_jets n m k o x s : run_safe (p_gs n m) s x ->
  exists J, runJ (p_gs n m) k o x s = Some J /\ runR (p_gs n m) x s = Some (map jv J) /\
            forall q, holds k o (outR (p_gs n m) s q) x (nth q J (jconst 0)).
Proof. intro H. apply (routine_jets (RGramSchmidt n m) k o x s H). apply stable_gs. Qed.

(* ------------------------------------------------------------------ 2 x 2: A = [[x0,x1],[x2,x3]], columns (x0,x2), (x1,x3) *)
Definition gs2_n0 : expr := EAdd (EAdd (Cst 0) (EMul (Var 0) (Var 0))) (EMul (Var 2) (Var 2)).
Definition gs2_r00 : expr := ESqrt gs2_n0.
Definition gs2_q0 : expr := EDiv (Var 0) gs2_r00.
Definition gs2_q1 : expr := EDiv (Var 2) gs2_r00.
Definition gs2_r01 : expr := EAdd (EAdd (Cst 0) (EMul gs2_q0 (Var 1))) (EMul gs2_q1 (Var 3)).
Definition gs2_w0 : expr := ESub (Var 1) (EMul gs2_r01 gs2_q0).
Definition gs2_w1 : expr := ESub (Var 3) (EMul gs2_r01 gs2_q1).
Definition gs2_n1 : expr := EAdd (EAdd (Cst 0) (EMul gs2_w0 gs2_w0)) (EMul gs2_w1 gs2_w1).
Definition gs2_r11 : expr := ESqrt gs2_n1.
(* Q (row major) ++ R (row major) *)
Definition gs2_E : list expr :=
  [gs2_q0; EDiv gs2_w0 gs2_r11; gs2_q1; EDiv gs2_w1 gs2_r11;   gs2_r00; gs2_r01; Cst 0; gs2_r11].

Lemma gs2_run x : runE (p_gs 2 2) x (all_vars 4) = Some gs2_E.
Proof. unfold runE. cbv -[IZR]. reflexivity. Qed.

(* the squared norms are positive *)
Definition gs2_pos (x : nat -> R) : Prop := 0 < evalR x gs2_n0 /\ 0 < evalR x gs2_n1.
(* the columns are independent *)
Definition gs2_dom (x : nat -> R) : Prop :=
  0 < x 0%nat * x 0%nat + x 2%nat * x 2%nat /\ x 0%nat * x 3%nat - x 1%nat * x 2%nat <> 0.

Lemma gs2_n0_val x : evalR x gs2_n0 = x 0%nat * x 0%nat + x 2%nat * x 2%nat.
Proof. unfold evalR. cbn. ring. Qed.

Lemma gs2_w_val x : 0 < x 0%nat * x 0%nat + x 2%nat * x 2%nat ->
  evalR x gs2_w0 = - x 2%nat * (x 0%nat * x 3%nat - x 1%nat * x 2%nat) / (x 0%nat * x 0%nat + x 2%nat * x 2%nat) /\
  evalR x gs2_w1 = x 0%nat * (x 0%nat * x 3%nat - x 1%nat * x 2%nat) / (x 0%nat * x 0%nat + x 2%nat * x 2%nat).
Proof.
  intro HN. set (N := x 0%nat * x 0%nat + x 2%nat * x 2%nat) in *.
  assert (Hss : sqrt N * sqrt N = N) by (apply sqrt_sqrt; lra).
  assert (Hs : sqrt N <> 0) by (apply sqrt_pos_neq; exact HN).
  assert (HN' : N <> 0) by lra.
  assert (EN : 0 + x 0%nat * x 0%nat + x 2%nat * x 2%nat = N) by (unfold N; ring).
  unfold evalR. cbn. rewrite EN. set (s := sqrt N) in *. split.
  - transitivity ((x 1%nat * (s * s) - (x 0%nat * x 1%nat + x 2%nat * x 3%nat) * x 0%nat) / (s * s)); [field; exact Hs|].
    rewrite Hss. unfold N. field. exact HN'.
  - transitivity ((x 3%nat * (s * s) - (x 0%nat * x 1%nat + x 2%nat * x 3%nat) * x 2%nat) / (s * s)); [field; exact Hs|].
    rewrite Hss. unfold N. field. exact HN'.
Qed.

Lemma gs2_n1_val x : 0 < x 0%nat * x 0%nat + x 2%nat * x 2%nat ->
  evalR x gs2_n1 = (x 0%nat * x 3%nat - x 1%nat * x 2%nat) * (x 0%nat * x 3%nat - x 1%nat * x 2%nat)
                   / (x 0%nat * x 0%nat + x 2%nat * x 2%nat).
Proof.
  intro HN. destruct (gs2_w_val x HN) as [W0 W1].
  change (evalR x gs2_n1) with (0 + evalR x gs2_w0 * evalR x gs2_w0 + evalR x gs2_w1 * evalR x gs2_w1).
  rewrite W0, W1. field. lra.
Qed.

Lemma gs2_dom_pos x : gs2_dom x <-> gs2_pos x.
Proof.
  unfold gs2_dom, gs2_pos. rewrite gs2_n0_val. split.
  - intros [HN HD]. split; [exact HN|]. rewrite (gs2_n1_val x HN).
    apply Rdiv_lt_0_compat; [|exact HN].
    set (D := x 0%nat * x 3%nat - x 1%nat * x 2%nat) in *.
    destruct (Rtotal_order D 0) as [L|[E|G]]; [nra|contradiction|nra].
  - intros [HN H1]. split; [exact HN|]. rewrite (gs2_n1_val x HN) in H1.
    intro E. rewrite E in H1. unfold Rdiv in H1. rewrite !Rmult_0_l in H1. exact (Rlt_irrefl 0 H1).
Qed.

Lemma gs2_E_safe x : gs2_pos x -> List.Forall (safe x) gs2_E.
Proof.
  intros [P0 P1].
  assert (S0 : safe x gs2_n0) by (cbn; tauto).
  assert (Sr0 : safe x gs2_r00) by (split; assumption).
  assert (Nr0 : evalR x gs2_r00 <> 0) by (apply sqrt_pos_neq; exact P0).
  assert (Sq0 : safe x gs2_q0) by (cbn [safe gs2_q0]; repeat split; assumption).
  assert (Sq1 : safe x gs2_q1) by (cbn [safe gs2_q1]; repeat split; assumption).
  assert (Sr01 : safe x gs2_r01) by (cbn [safe gs2_r01]; repeat split; assumption).
  assert (Sw0 : safe x gs2_w0) by (cbn [safe gs2_w0]; repeat split; assumption).
  assert (Sw1 : safe x gs2_w1) by (cbn [safe gs2_w1]; repeat split; assumption).
  assert (S1 : safe x gs2_n1) by (cbn [safe gs2_n1]; repeat split; assumption).
  assert (Sr1 : safe x gs2_r11) by (split; assumption).
  assert (Nr1 : evalR x gs2_r11 <> 0) by (apply sqrt_pos_neq; exact P1).
  unfold gs2_E. repeat apply Forall_cons; try apply Forall_nil; try assumption; try exact I;
    cbn [safe]; repeat split; assumption.
Qed.

Lemma gs2_safe x : gs2_dom x -> run_safe (p_gs 2 2) (all_vars 4) x.
Proof. intro D. apply gs2_dom_pos in D. exists gs2_E. split; [apply gs2_run|apply gs2_E_safe; exact D]. Qed.

Theorem gs2_jets k o x : gs2_dom x ->
  exists J, runJ (p_gs 2 2) k o x (all_vars 4) = Some J /\
            runR (p_gs 2 2) x (all_vars 4) = Some (map jv J) /\
            J = map (evalJ k o x) gs2_E /\
            (forall q, holds k o (outR (p_gs 2 2) (all_vars 4) q) x (nth q J (jconst 0))) /\
            (forall q, holds k o (fun y => evalR y (nth q gs2_E (Cst 0))) x (nth q J (jconst 0))).
Proof.
  intro D. apply gs2_dom_pos in D.
  destruct (jets_of_open (p_gs 2 2) (routine_param (RGramSchmidt 2 2)) k o x (all_vars 4) gs2_E (fun _ => True)
              (fun y _ => gs2_run y) (filter_true) (gs2_E_safe x D)) as (_ & _ & HJ).
  exact HJ.
Qed.

(* [[3,1],[4,2]]: columns (3,4), (1,2) *)
Example gs2_dom_example : gs2_dom (fun i => nth i [3; 1; 4; 2] 0).
Proof. split; cbn; lra. Qed.
