(* C06/Model32.v — the binary32 element types (round 2).

   Float32 (fast path of the Cholesky family, generic code elsewhere): every operation is ONE
   binary32 rounding of the exact result; carried as binary64 floats (every binary32 number is a
   binary64 number), op32 = r32 . op64  (53 >= 2*24+2: the double rounding is innocuous for
   + - * / sqrt).
   Real32 (generic path): scalar_real32_math.go computes every value and every chain-rule factor
   in float64 from GetFloat64() / GetDerivative() / GetHessian() of the operands (exact
   conversions of the stored binary32 numbers), evaluates the slot formulas of
   scalar_real32_derivative.go in float64 and rounds ONCE, when the slot is stored
   (setFloat64 / SetDerivative / SetHessian convert to float32).  Hence

       Real32 operation = [jst r32] (Real64 operation on the same jets)

   with the binary64 jet algebra of Model.v unchanged: [NumXJ32].  No proofs in this file. *)
From Coq Require Import List ZArith Bool Floats.
From ADV Require Import Base.Num C06.Model.
Import ListNotations.

(* float32(x) of Go: round to nearest even into binary32 (24 bit significand, emax 128, subnormals,
   overflow to infinity); NaN and infinities unchanged *)
Definition r32 (x : float) : float :=
  match Prim2SF x with
  | S754_finite s m e => SF2Prim (binary_normalize 24 128 (if s then Zneg m else Zpos m) e s)
  | _ => x
  end.

(* store a jet: every slot converted *)
Definition jst {A} (st : A -> A) (j : jet A) : jet A :=
  mkJ (st (jv j)) (ja j) (map st (jg j)) (map (map st) (jh j)).

Section Store.
Context {A : Type} (D : NumD A) (st : A -> A) (k o : nat).
Let N : Num A := M5.nx (dx D).

(* the plain carrier whose every operation is rounded by [st]; [sq] is its square root *)
Definition NumS (sq : A -> A) : Num A :=
  mkNum A (zero N) (one N)
        (fun x y => st (add N x y)) (fun x y => st (sub N x y)) (fun x y => st (mul N x y)) (fun x y => st (div N x y))
        (fun x => st (neg N x)) (nabs N) (fun x => st (sq x)) (ltb N) (leb N) (eqb N) (fun z => st (of_Z N z)) (is_nan N).
Definition NumXS (sq : A -> A) : M5.NumX A :=
  M5.mkNumX A (NumS sq) (M5.neg_inf (dx D)) (M5.fmax (dx D)) (fun x => st (sq x)).

(* the magic carrier whose every stored slot is rounded by [st] *)
Definition NumJS : Num (jet A) :=
  mkNum (jet A) (jconst (zero N)) (jconst (one N))
        (fun a b => jst st (jadd D k o a b)) (fun a b => jst st (jsub D k o a b))
        (fun a b => jst st (jmul D k o a b)) (fun a b => jst st (jdiv D k o a b))
        (fun a => jst st (jneg D k o a)) (fun a => jabsf D a) (fun a => jst st (jsqrt D k o a))
        (fun a b => ltb N (jv a) (jv b)) (fun a b => leb N (jv a) (jv b)) (fun a b => eqb N (jv a) (jv b))
        (fun z => jconst (st (of_Z N z))) (fun a => is_nan N (jv a)).
Definition NumXJS : M5.NumX (jet A) :=
  M5.mkNumX (jet A) NumJS (jconst (M5.neg_inf (dx D))) (fun a b => jconst (M5.fmax (dx D) (jv a) (jv b)))
            (fun a => jst st (jsqrt D k o a)).
Definition jlogS (a : jet A) : jet A := jst st (jlog D k o a).
End Store.
