(* C06 round 7: the dense matrix product on views of backing arrays (ModelView.v) computes the product of the
   operand views as they were before the call, under the aliasing the Go loops are written for. *)
From Coq Require Import List Bool Arith Lia ZArith.
From ADV Require Import Base.Num C06.Model C06.ModelView.
Import ListNotations.

Lemma vidx_T : forall v i j, vidx (vT v) i j = vidx v j i.
Proof. intros v i j. unfold vidx, vT; simpl. destruct (vtr v); simpl; lia. Qed.

Lemma vT_invol : forall v, vT (vT v) = v.
Proof. intros [b ro co r c rm cm t]. unfold vT; simpl. now rewrite negb_involutive. Qed.

Lemma vidx_slice : forall v rf rt cf ct i j, vidx (vslice v rf rt cf ct) i j = vidx v (rf + i) (cf + j).
Proof. intros v rf rt cf ct i j. unfold vidx, vslice; simpl. destruct (vtr v); lia. Qed.

Lemma length_upd : forall {A} (l : list A) i x, length (upd l i x) = length l.
Proof. induction l as [|h t IH]; intros [|i] x; simpl; auto. Qed.

Lemma nth_upd_same : forall {A} (l : list A) i x d, i < length l -> nth i (upd l i x) d = x.
Proof. induction l as [|h t IH]; intros [|i] x d Hi; simpl in *; try lia; auto. apply IH; lia. Qed.

Lemma nth_upd_other : forall {A} (l : list A) i x p d, p <> i -> nth p (upd l i x) d = nth p l d.
Proof.
  induction l as [|h t IH]; intros [|i] x [|p] d Hp; simpl; auto; try congruence.
  all: try (apply IH; congruence).
Qed.

Lemma nth_map_seq : forall {A} (f : nat -> A) n i d, i < n -> nth i (map f (seq 0 n)) d = f i.
Proof.
  intros A f n i d Hi. rewrite (nth_indep _ d (f 0)) by (rewrite map_length, seq_length; exact Hi).
  rewrite (map_nth f (seq 0 n) 0 i). now rewrite seq_nth by exact Hi.
Qed.

Lemma fold_left_ext_in : forall {A B} (f g : A -> B -> A) (l : list B) a,
  (forall a b, In b l -> f a b = g a b) -> fold_left f l a = fold_left g l a.
Proof.
  intros A B f g l. induction l as [|b t IH]; intros a H; simpl; auto.
  rewrite H by (left; reflexivity). apply IH. intros a' b' Hb. apply H. now right.
Qed.

Section View.
Context {A : Type} (N : Num A).
Let z := zero N.

Lemma fold_upd_length : forall (l : list nat) (f : nat -> nat) (g : nat -> A) S,
  length (fold_left (fun S i => upd S (f i) (g i)) l S) = length S.
Proof. induction l as [|i t IH]; intros f g S; simpl; auto. rewrite IH. apply length_upd. Qed.

Lemma fold_upd_other : forall (l : list nat) (f : nat -> nat) (g : nat -> A) S p,
  (forall i, In i l -> f i <> p) -> nth p (fold_left (fun S i => upd S (f i) (g i)) l S) z = nth p S z.
Proof.
  induction l as [|i t IH]; intros f g S p H; simpl; auto.
  rewrite IH by (intros i' Hi'; apply H; now right).
  apply nth_upd_other. intro E. apply (H i); [now left | now symmetry].
Qed.

Lemma fold_upd_hit : forall (l : list nat) (f : nat -> nat) (g : nat -> A) S i0,
  NoDup l -> In i0 l -> (forall i i', In i l -> In i' l -> f i = f i' -> i = i') -> f i0 < length S ->
  nth (f i0) (fold_left (fun S i => upd S (f i) (g i)) l S) z = g i0.
Proof.
  induction l as [|i t IH]; intros f g S i0 Hnd Hin Hinj Hlen; simpl; [contradiction|].
  inversion Hnd as [|? ? Hni Hnd']; subst.
  destruct (Nat.eq_dec i i0) as [E|NE].
  - subst i0. rewrite fold_upd_other.
    + now apply nth_upd_same.
    + intros i' Hi' E. assert (i' = i) by (apply Hinj; [now right | now left | exact E]). subst. contradiction.
  - destruct Hin as [E|Hin]; [contradiction|].
    apply IH; auto.
    + intros a b Ha Hb. apply Hinj; now right.
    + now rewrite length_upd.
Qed.

(* both loops of MdotM: an outer index o, the panel (val S o q) computed for all q from the memory as it is, then
   written to the cells (cell o q) *)
Definition panel_loop (no nq : nat) (cell : nat -> nat -> nat) (val : list A -> nat -> nat -> A) (l : list nat) (S : list A) :=
  fold_left (fun S o => let t3 := map (fun q => val S o q) (seq 0 nq) in
                        fold_left (fun S q => upd S (cell o q) (nth q t3 z)) (seq 0 nq) S) l S.

Lemma panel_loop_correct : forall (no nq : nat) cell val (S : list A),
  (forall o q, o < no -> q < nq -> cell o q < length S) ->
  (forall o q o' q', o < no -> q < nq -> o' < no -> q' < nq -> cell o q = cell o' q' -> o = o' /\ q = q') ->
  (forall S' o, o < no -> length S' = length S ->
     (forall p, (forall o' q', o' < o -> q' < nq -> cell o' q' <> p) -> nth p S' z = nth p S z) ->
     forall q, q < nq -> val S' o q = val S o q) ->
  forall len o0 S0, o0 + len <= no -> length S0 = length S ->
    (forall o q, o < o0 -> q < nq -> nth (cell o q) S0 z = val S o q) ->
    (forall p, (forall o q, o < o0 -> q < nq -> cell o q <> p) -> nth p S0 z = nth p S z) ->
    let S' := panel_loop no nq cell val (seq o0 len) S0 in
    length S' = length S /\
    (forall o q, o < o0 + len -> q < nq -> nth (cell o q) S' z = val S o q) /\
    (forall p, (forall o q, o < o0 + len -> q < nq -> cell o q <> p) -> nth p S' z = nth p S z).
Proof.
  intros no nq cell val S Hlen Hinj Hval. induction len as [|len IH]; intros o0 S0 Hb HL I1 I2; simpl.
  - rewrite Nat.add_0_r. auto.
  - set (S1 := fold_left (fun S q => upd S (cell o0 q) (nth q (map (fun q0 => val S0 o0 q0) (seq 0 nq)) z)) (seq 0 nq) S0).
    assert (L1 : length S1 = length S) by (unfold S1; rewrite fold_upd_length; exact HL).
    assert (V : forall q, q < nq -> val S0 o0 q = val S o0 q) by (apply Hval; [lia | exact HL | exact I2]).
    assert (J1 : forall o q, o < Datatypes.S o0 -> q < nq -> nth (cell o q) S1 z = val S o q).
    { intros o q Ho Hq. destruct (Nat.eq_dec o o0) as [E|NE].
      - subst o. unfold S1.
        rewrite (fold_upd_hit (seq 0 nq) (fun q => cell o0 q) (fun q => nth q (map (fun q0 => val S0 o0 q0) (seq 0 nq)) z) S0 q).
        + rewrite nth_map_seq by exact Hq. now apply V.
        + apply seq_NoDup.
        + apply in_seq; lia.
        + intros a b Ha Hb' E. apply in_seq in Ha. apply in_seq in Hb'.
          destruct (Hinj o0 a o0 b) as [_ R]; try lia; auto.
        + rewrite HL. apply Hlen; lia.
      - unfold S1. rewrite fold_upd_other.
        + apply I1; lia.
        + intros q' Hq' E. apply in_seq in Hq'. destruct (Hinj o0 q' o q) as [R _]; try lia; auto. }
    assert (J2 : forall p, (forall o q, o < Datatypes.S o0 -> q < nq -> cell o q <> p) -> nth p S1 z = nth p S z).
    { intros p Hp. unfold S1. rewrite fold_upd_other.
      - apply I2. intros o q Ho Hq. apply Hp; lia.
      - intros q Hq. apply in_seq in Hq. apply Hp; lia. }
    specialize (IH (Datatypes.S o0) S1). simpl in IH.
    replace (o0 + Datatypes.S len) with (Datatypes.S o0 + len) by lia. apply IH; auto. lia.
Qed.

Definition a_safe_col (va vr : view) (n m m1 : nat) :=
  forall i k i' j', i < n -> k < m1 -> i' < n -> j' < m -> vidx va i k <> vidx vr i' j'.

(* the buffered loop (r.storageLocation() == b.storageLocation()): the left operand does not meet the receiver and
   an entry of column j of the right operand is not a receiver cell of an EARLIER column *)
Lemma mdotm_store_buffered : forall (S : list A) (va vb vr : view),
  let n := vrows vr in let m := vcols vr in let m1 := vcols va in
  vrows va = n -> vcols vb = m -> vrows vb = m1 -> vbase vr = vbase vb ->
  (forall i j, i < n -> j < m -> vidx vr i j < length S) ->
  (forall i j i' j', i < n -> j < m -> i' < n -> j' < m -> vidx vr i j = vidx vr i' j' -> i = i' /\ j = j') ->
  a_safe_col va vr n m m1 ->
  (forall k j i' j', k < m1 -> j < m -> i' < n -> j' < j -> vidx vb k j <> vidx vr i' j') ->
  exists S', mdotm_store N S va vb vr = Some S' /\ length S' = length S /\
    (forall i j, i < n -> j < m -> sget N S' vr i j = vdot N S va vb m1 i j) /\
    (forall p, (forall i j, i < n -> j < m -> vidx vr i j <> p) -> nth p S' z = nth p S z).
Proof.
  intros S va vb vr n m m1 Ea Eb Em Ebase Hlen Hinj Ha Hb.
  unfold mdotm_store. fold n m m1. rewrite Ea, Eb, Em, !Nat.eqb_refl. simpl. rewrite Ebase, Nat.eqb_refl.
  eexists; split; [reflexivity|].
  pose proof (panel_loop_correct m n (fun j i => vidx vr i j) (fun S j i => vdot N S va vb m1 i j) S) as P.
  destruct (P (fun j i Hj Hi => Hlen i j Hi Hj)
              (fun j i j' i' Hj Hi Hj' Hi' E => let '(conj a b) := Hinj i j i' j' Hi Hj Hi' Hj' E in conj b a))
    with (len := m) (o0 := 0) (S0 := S) as (L & I1 & I2); auto; try lia.
  - intros S' j Hj HL Hsame i Hi. unfold vdot. apply fold_left_ext_in. intros t2 k Hk. apply in_seq in Hk.
    unfold sget. rewrite !Hsame; auto.
    + intros j' i' Hj' Hi' E. apply (Hb k j i' j'); try lia; auto.
    + intros j' i' Hj' Hi' E. apply (Ha i k i' j'); try lia; auto.
  - unfold panel_loop in *. simpl in *. split; [exact L|]. split.
    + intros i j Hi Hj. unfold sget. apply (I1 j i); lia.
    + intros p Hp. apply I2. intros j i Hj Hi. apply Hp; lia.
Qed.

(* the row loop (different storage locations): the right operand does not meet the receiver, and row i of the
   left operand is not a receiver cell of an EARLIER row (so r = a, the same view, is served) *)
Lemma mdotm_store_rows : forall (S : list A) (va vb vr : view),
  let n := vrows vr in let m := vcols vr in let m1 := vcols va in
  vrows va = n -> vcols vb = m -> vrows vb = m1 -> vbase vr <> vbase vb ->
  (forall i j, i < n -> j < m -> vidx vr i j < length S) ->
  (forall i j i' j', i < n -> j < m -> i' < n -> j' < m -> vidx vr i j = vidx vr i' j' -> i = i' /\ j = j') ->
  (forall i k i' j', i < n -> k < m1 -> i' < i -> j' < m -> vidx va i k <> vidx vr i' j') ->
  (forall k j i' j', k < m1 -> j < m -> i' < n -> j' < m -> vidx vb k j <> vidx vr i' j') ->
  exists S', mdotm_store N S va vb vr = Some S' /\ length S' = length S /\
    (forall i j, i < n -> j < m -> sget N S' vr i j = vdot N S va vb m1 i j) /\
    (forall p, (forall i j, i < n -> j < m -> vidx vr i j <> p) -> nth p S' z = nth p S z).
Proof.
  intros S va vb vr n m m1 Ea Eb Em Ebase Hlen Hinj Ha Hb.
  unfold mdotm_store. fold n m m1. rewrite Ea, Eb, Em, !Nat.eqb_refl. simpl.
  apply Nat.eqb_neq in Ebase. rewrite Ebase.
  eexists; split; [reflexivity|].
  pose proof (panel_loop_correct n m (fun i j => vidx vr i j) (fun S i j => vdot N S va vb m1 i j) S) as P.
  destruct (P Hlen Hinj) with (len := n) (o0 := 0) (S0 := S) as (L & I1 & I2); auto; try lia.
  - intros S' i Hi HL Hsame j Hj. unfold vdot. apply fold_left_ext_in. intros t2 k Hk. apply in_seq in Hk.
    unfold sget. rewrite !Hsame; auto.
    + intros i' j' Hi' Hj' E. apply (Hb k j i' j'); try lia; auto.
    + intros i' j' Hi' Hj' E. apply (Ha i k i' j'); try lia; auto.
Qed.

(* the accumulation of the memory model is the entry of the pure product (Model.mdotm, the program of
   matrix_product_derivatives) of the operand views read as matrices *)
Lemma vdot_pure : forall (S : list A) (va vb : view) i j,
  vrows vb = vcols va -> i < vrows va -> j < vcols vb ->
  nth j (nth i (mdotm N (vcols va) (vcols vb) (vread N S va) (vread N S vb)) []) z = vdot N S va vb (vcols va) i j.
Proof.
  intros S va vb i j Em Hi Hj. unfold mdotm, vread. rewrite map_map.
  rewrite (nth_map_seq _ (vrows va) i []) by exact Hi.
  rewrite (nth_map_seq _ (vcols vb) j z) by exact Hj.
  unfold vdot. apply fold_left_ext_in. intros t2 k Hk. apply in_seq in Hk.
  rewrite (nth_map_seq _ (vcols va) k) by lia.
  rewrite (nth_map_seq _ (vrows vb) k []) by lia.
  rewrite (nth_map_seq _ (vcols vb) j) by exact Hj. reflexivity.
Qed.

(* r.MdotM(a, r): result and right operand the SAME view, left operand elsewhere *)
Lemma mdotm_store_inplace_right : forall (S : list A) (va vr : view),
  let n := vrows vr in let m := vcols vr in
  vrows va = n -> vcols va = n ->
  (forall i j, i < n -> j < m -> vidx vr i j < length S) ->
  (forall i j i' j', i < n -> j < m -> i' < n -> j' < m -> vidx vr i j = vidx vr i' j' -> i = i' /\ j = j') ->
  a_safe_col va vr n m n ->
  exists S', mdotm_store N S va vr vr = Some S' /\ length S' = length S /\
    (forall i j, i < n -> j < m -> sget N S' vr i j = vdot N S va vr n i j) /\
    (forall p, (forall i j, i < n -> j < m -> vidx vr i j <> p) -> nth p S' z = nth p S z).
Proof.
  intros S va vr n m Ea Ec Hlen Hinj Ha.
  pose proof (mdotm_store_buffered S va vr vr) as P. simpl in P. rewrite Ec in P. apply P; auto.
  intros k j i' j' Hk Hj Hi' Hj' E. destruct (Hinj k j i' j') as [_ R]; auto; lia.
Qed.
End View.

(* F-C06-MDOTM-SLICE-ALIAS (known finding, HEAD): r.MdotM(r, b) with b a DISJOINT slice of the array r is a slice
   of: the storage test sends it through the column loop, which protects b only; row 0 of M = [1 2; 3 4; 5 6] times
   rows 1..2 is (13, 16), the loop leaves (13, 64) *)
Lemma mdotm_left_alias_witness :
  let S := [1; 2; 3; 4; 5; 6]%Z in
  let va := mkView 0 0 0 1 2 3 2 false in let vb := mkView 0 1 0 2 2 3 2 false in
  mdotm_store NumZ S va vb va = Some [13; 64; 3; 4; 5; 6]%Z /\
  map (fun j => vdot NumZ S va vb 2 0 j) [0; 1] = [13; 16]%Z /\
  (forall i k i' j', i < 1 -> k < 2 -> i' < i -> j' < 2 -> vidx va i k <> vidx va i' j') /\
  (forall k j i' j', k < 2 -> j < 2 -> i' < 1 -> j' < 2 -> vidx vb k j <> vidx va i' j').
Proof.
  cbv zeta. split; [vm_compute; reflexivity|]. split; [vm_compute; reflexivity|]. split.
  - intros; lia.
  - intros k j i' j' Hk Hj Hi Hj'. unfold vidx; simpl. lia.
Qed.

(* non-vacuity: overlapping slices of one 4 x 2 array at row offsets 1 (receiver) and 0 (right operand), left operand
   a transposed view of another array *)
Lemma buffered_overlap_example :
  let S := [1; 2; 3; 4; 5; 6; 7; 8; 1; 0; 2; 1; 0; 3]%Z in
  let va := mkView 8 0 0 2 2 2 3 true in let vb := mkView 0 0 0 2 2 4 2 false in let vr := mkView 0 1 0 2 2 4 2 false in
  mdotm_store NumZ S va vb vr = Some [1; 2; 7; 10; 3; 4; 7; 8; 1; 0; 2; 1; 0; 3]%Z /\
  vread NumZ S va = [[1; 2]; [0; 1]]%Z /\
  mdotm NumZ 2 2 (vread NumZ S va) (vread NumZ S vb) = [[7; 10]; [3; 4]]%Z.
Proof. vm_compute. repeat split. Qed.
