(* C06/ParamT2.v (round 2) — free theorems of the buffer-taking programs (paramcoq, no axioms). *)
From Coq Require Import List Bool Arith ZArith Reals.
From Param Require Import Param.
From ADV Require Import Base.Num C06.Model C06.ParamT C06.ModelBuf.
Import ListNotations.

Parametricity Recursive p_chol4_fresh.
Parametricity Recursive p_detpd_fresh.
Parametricity Recursive p_inv_fresh.
Parametricity Recursive p_backsub_fresh.
