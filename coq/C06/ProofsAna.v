(* C06/ProofsAna.v — real analysis (Coquelicot): the symbolic derivative of an
   expression IS the partial derivative of the function the expression denotes,
   on the domain [safe]; second partials; transport along local equality. *)
From Coq Require Import Reals List Lia Lra FunctionalExtensionality.
From Coquelicot Require Import Coquelicot.
From ADV Require Import Base.Num C06.Model C06.Spec C06.ProofsAlg.
Import ListNotations.
Open Scope R_scope.

Lemma upd_pt_self y i : upd_pt y i (y i) = y.
Proof. apply functional_extensionality. intro q. unfold upd_pt. destruct (Nat.eqb_spec q i); subst; reflexivity. Qed.

Lemma upd_pt_same y i t : upd_pt y i t i = t.
Proof. unfold upd_pt. rewrite Nat.eqb_refl. reflexivity. Qed.

Lemma upd_pt_upd y i s t : upd_pt (upd_pt y i s) i t = upd_pt y i t.
Proof. apply functional_extensionality. intro q. unfold upd_pt. destruct (Nat.eqb q i); reflexivity. Qed.

Lemma is_derive_eq (f : R -> R) a d d' : d = d' -> is_derive f a d -> is_derive f a d'.
Proof. intros; subst; assumption. Qed.

Lemma cont_neq (f : R -> R) a : continuous f a -> f a <> 0 -> locally a (fun t => f t <> 0).
Proof. intros C H. apply (C (fun y => y <> 0)). apply (open_neq 0). exact H. Qed.
Lemma cont_pos (f : R -> R) a : continuous f a -> 0 < f a -> locally a (fun t => 0 < f t).
Proof. intros C H. apply (C (fun y => 0 < y)). apply (open_gt 0). exact H. Qed.

Section Ana.

(* first partials *)
Lemma partial_eval e x i : safe x e -> partial (fun y => evalR y e) i x (evalR x (Dx i e)).
Proof.
  unfold partial.
  induction e as [q|c|e1 IHe1 e2 IHe2|e1 IHe1 e2 IHe2|e1 IHe1 e2 IHe2|e1 IHe1 e2 IHe2|e IHe|e IHe|e IHe|e IHe|e1 IHe1 e2 IHe2|];
    cbn [safe]; intros H; try contradiction.
  - cbn [Dx]. destruct (Nat.eqb_spec q i) as [E|E].
    + subst q. apply (is_derive_ext (fun t => t)).
      * intro t. unfold evalR; cbn. rewrite upd_pt_same. reflexivity.
      * apply (is_derive_id (x i)).
    + apply (is_derive_ext (fun _ => x q)).
      * intro t. unfold evalR; cbn. unfold upd_pt. destruct (Nat.eqb_spec q i); [contradiction|reflexivity].
      * apply (is_derive_const (x q) (x i)).
  - apply (is_derive_const c (x i)).
  - destruct H as [Ha Hb]. apply (is_derive_plus (fun t => evalR (upd_pt x i t) e1) (fun t => evalR (upd_pt x i t) e2));
      [apply IHe1|apply IHe2]; assumption.
  - destruct H as [Ha Hb]. apply (is_derive_minus (fun t => evalR (upd_pt x i t) e1) (fun t => evalR (upd_pt x i t) e2));
      [apply IHe1|apply IHe2]; assumption.
  - destruct H as [Ha Hb].
    pose proof (is_derive_mult (fun t => evalR (upd_pt x i t) e1) (fun t => evalR (upd_pt x i t) e2) (x i) _ _
                  (IHe1 Ha) (IHe2 Hb) Rmult_comm) as D.
    cbv beta in D. rewrite upd_pt_self in D.
    refine (is_derive_eq _ _ _ _ _ D). cbn [Dx]. unfold plus, mult; cbn. reflexivity.
  - destruct H as (Ha & Hb & Hn).
    assert (Hn' : evalR (upd_pt x i (x i)) e2 <> 0) by (rewrite upd_pt_self; exact Hn).
    pose proof (is_derive_div (fun t => evalR (upd_pt x i t) e1) (fun t => evalR (upd_pt x i t) e2) (x i) _ _
                  (IHe1 Ha) (IHe2 Hb) Hn') as D.
    cbv beta in D. rewrite upd_pt_self in D.
    refine (is_derive_eq _ _ _ _ _ D). cbn [Dx].
    change (evalR x (ESub (EDiv (Dx i e1) e2) (EDiv (EMul e1 (Dx i e2)) (EMul e2 e2))))
      with (evalR x (Dx i e1) / evalR x e2 - evalR x e1 * evalR x (Dx i e2) / (evalR x e2 * evalR x e2)).
    match goal with |- ?a = ?b => change (@eq R a b) end. field. exact Hn.
  - apply (is_derive_opp (fun t => evalR (upd_pt x i t) e)). apply IHe. exact H.
  - destruct H as (Ha & Hp).
    assert (Hp' : 0 < evalR (upd_pt x i (x i)) e) by (rewrite upd_pt_self; exact Hp).
    pose proof (is_derive_sqrt (fun t => evalR (upd_pt x i t) e) (x i) _ (IHe Ha) Hp') as D.
    cbv beta in D. rewrite upd_pt_self in D.
    refine (is_derive_eq _ _ _ _ _ D). reflexivity.
  - destruct H as (Ha & Hp).
    assert (Hp' : 0 < evalR (upd_pt x i (x i)) e) by (rewrite upd_pt_self; exact Hp).
    pose proof (is_derive_comp ln (fun t => evalR (upd_pt x i t) e) (x i) _ _
                  (is_derive_ln _ Hp') (IHe Ha)) as D.
    cbv beta in D. rewrite upd_pt_self in D.
    refine (is_derive_eq _ _ _ _ _ D). reflexivity.
Qed.

Lemma eval_line_continuous e x i : safe x e -> continuous (fun t => evalR (upd_pt x i t) e) (x i).
Proof.
  intro H. apply (ex_derive_continuous (fun t => evalR (upd_pt x i t) e)).
  exists (evalR x (Dx i e)). apply partial_eval. exact H.
Qed.

(* the domain is open along coordinate lines *)
Lemma safe_open_line e x i : safe x e -> locally (x i) (fun t => safe (upd_pt x i t) e).
Proof.
  induction e as [q|c|e1 IHe1 e2 IHe2|e1 IHe1 e2 IHe2|e1 IHe1 e2 IHe2|e1 IHe1 e2 IHe2|e IHe|e IHe|e IHe|e IHe|e1 IHe1 e2 IHe2|];
    cbn [safe]; intros H; try contradiction;
    try (apply filter_forall; intro; exact I);
    try (destruct H as [Ha Hb]; apply filter_and; [apply IHe1|apply IHe2]; assumption).
  - destruct H as (Ha & Hb & Hn). apply filter_and; [apply IHe1; exact Ha|]. apply filter_and; [apply IHe2; exact Hb|].
    apply (cont_neq (fun t => evalR (upd_pt x i t) e2)); [apply eval_line_continuous; exact Hb|].
    rewrite upd_pt_self. exact Hn.
  - apply IHe. exact H.
  - destruct H as (Ha & Hp). apply filter_and; [apply IHe; exact Ha|].
    apply (cont_pos (fun t => evalR (upd_pt x i t) e)); [apply eval_line_continuous; exact Ha|].
    rewrite upd_pt_self. exact Hp.
  - destruct H as (Ha & Hp). apply filter_and; [apply IHe; exact Ha|].
    apply (cont_pos (fun t => evalR (upd_pt x i t) e)); [apply eval_line_continuous; exact Ha|].
    rewrite upd_pt_self. exact Hp.
Qed.

(* second partials *)
Lemma partial2_eval e x i j : safe x e -> partial2 (fun y => evalR y e) i j x (evalR x (Dx i (Dx j e))).
Proof.
  intro H. exists (fun s => evalR (upd_pt x i s) (Dx j e)). split.
  - eapply filter_imp; [|apply (safe_open_line e x i H)].
    intros s Hs. apply partial_eval. exact Hs.
  - apply (partial_eval (Dx j e) x i). apply safe_Dx. exact H.
Qed.

(* transport along local equality *)
Lemma box_line x delta i t : 0 < delta -> Rabs (t - x i) < delta -> box x delta (upd_pt x i t).
Proof.
  intros Hd Ht q. unfold upd_pt. destruct (Nat.eqb_spec q i) as [E|E].
  - subst q. exact Ht.
  - replace (x q - x q) with 0 by ring. rewrite Rabs_R0. exact Hd.
Qed.

Lemma partial_ext_loc (F F' : (nat -> R) -> R) x delta i d :
  0 < delta -> (forall y, box x delta y -> F y = F' y) -> partial F i x d -> partial F' i x d.
Proof.
  intros Hd HE HP. unfold partial in *.
  apply (is_derive_ext_loc (fun t => F (upd_pt x i t))); [|exact HP].
  exists (mkposreal delta Hd). intros t Ht. apply HE. apply box_line; [exact Hd|].
  exact Ht.
Qed.

Lemma box_half x delta y z : box x (delta / 2) y -> box y (delta / 2) z -> box x delta z.
Proof.
  intros H1 H2 q. specialize (H1 q). specialize (H2 q).
  replace (z q - x q) with ((z q - y q) + (y q - x q)) by ring.
  eapply Rle_lt_trans; [apply Rabs_triang|]. lra.
Qed.

Lemma partial2_ext_loc (F F' : (nat -> R) -> R) x delta i j h :
  0 < delta -> (forall y, box x delta y -> F y = F' y) -> partial2 F i j x h -> partial2 F' i j x h.
Proof.
  intros Hd HE (G & HG & HD). exists G. split; [|exact HD].
  assert (Hd2 : 0 < delta / 2) by lra.
  assert (L : locally (x i) (fun s => Rabs (s - x i) < delta / 2)).
  { exists (mkposreal (delta / 2) Hd2). intros s Hs. exact Hs. }
  eapply filter_imp; [|apply (filter_and _ _ HG L)].
  intros s [H1 H2]. cbv beta in *.
  apply (partial_ext_loc F F' (upd_pt x i s) (delta / 2) j (G s) Hd2); [|exact H1].
  intros y Hy. apply HE. apply (box_half x delta (upd_pt x i s) y); [|exact Hy].
  apply box_line; assumption.
Qed.

End Ana.
