(* C06/ProofsLift.v — jet_lift for EVERY carrier-polymorphic program.

   A program m : prog comes with its free theorem [prog_R m m] (generated from
   the model text by paramcoq, ParamT.v).  Instantiating the free theorem at
     (symbolic carrier at x) ~ (jet carrier)     related by  j = evalJ e
     (symbolic carrier at y) ~ (reals)           related by  r = evalR y e
   turns the run over jets and the run over R into evaluations of ONE list of
   expressions E (the straight-line program executed at x); ProofsAlg/ProofsAna
   then say what the jets of E are. *)
From Coq Require Import Reals List Lia Lra Bool ZArith.
From Coquelicot Require Import Coquelicot.
From ADV Require Import Base.Num C06.Model C06.Spec C06.ParamT C06.ProofsAlg C06.ProofsAna.
Import ListNotations.
Open Scope R_scope.

(* ------------------------------------------------------------------ the generated relations on closed data are equality *)
Lemma nat_R_refl n : nat_R n n.
Proof. induction n; constructor; assumption. Qed.
Lemma bool_R_refl b : bool_R b b.
Proof. destruct b; constructor. Qed.
Lemma positive_R_eq p q : positive_R p q -> p = q.
Proof. induction 1; congruence. Qed.
Lemma Z_R_eq a b : Z_R a b -> a = b.
Proof. destruct 1 as [|p q H|p q H]; [reflexivity| |]; apply positive_R_eq in H; congruence. Qed.

Lemma list_R_fun {A B} (f : A -> B) l1 l2 : list_R A B (fun a b => b = f a) l1 l2 -> l2 = map f l1.
Proof. induction 1 as [|a b E l1 l2 H IH]; cbn; [reflexivity|]. rewrite E, IH. reflexivity. Qed.
Lemma list_R_map {A B} (f : A -> B) l : list_R A B (fun a b => b = f a) l (map f l).
Proof. induction l; cbn; constructor; auto. Qed.
Lemma option_list_R_fun {A B} (f : A -> B) o1 o2 :
  option_R (list A) (list B) (list_R A B (fun a b => b = f a)) o1 o2 -> o2 = option_map (map f) o1.
Proof. destruct 1 as [l1 l2 H|]; cbn; [|reflexivity]. apply list_R_fun in H. rewrite H. reflexivity. Qed.

(* ------------------------------------------------------------------ the two carrier relations *)
Section Rel.
Variables (k o : nat) (x : nat -> R).

Lemma rel_EJ : NumX_R expr (jet R) (fun e j => j = evalJ k o x e) (NumXE x) (NumXJ NumDR k o).
Proof.
  unfold NumXE, NumXJ. apply NumX_R_mkNumX_R.
  - unfold NumE, NumJ. apply Num_R_mkNum_R; intros; subst; try reflexivity;
      try (cbn; rewrite !jv_evalJ; apply bool_R_refl).
    + match goal with H : Z_R _ _ |- _ => apply Z_R_eq in H; subst end. reflexivity.
    + cbn. constructor.
  - reflexivity.
  - intros; subst. reflexivity.
  - intros; subst. reflexivity.
Qed.

Lemma rel_ER : NumX_R expr R (fun e r => r = evalR x e) (NumXE x) M5.NumXR.
Proof.
  unfold NumXE, M5.NumXR. apply NumX_R_mkNumX_R.
  - unfold NumE, NumR. apply Num_R_mkNum_R; intros; subst; try reflexivity; try apply bool_R_refl.
    match goal with H : Z_R _ _ |- _ => apply Z_R_eq in H; subst end. reflexivity.
  - reflexivity.
  - intros; subst. reflexivity.
  - intros; subst. reflexivity.
Qed.

Lemma in_J_rel s : in_J k o x s = map (evalJ k o x) (in_E s).
Proof. unfold in_J, in_E. rewrite map_map. apply map_ext. intros [[i|] c]; reflexivity. Qed.
Lemma in_R_rel s : in_R x s = map (evalR x) (in_E s).
Proof. unfold in_R, in_E. rewrite map_map. apply map_ext. intros [[i|] c]; reflexivity. Qed.

(* both runs are evaluations of the symbolic run *)
Lemma runJ_runE m (mR : prog_R m m) s : runJ m k o x s = option_map (map (evalJ k o x)) (runE m x s).
Proof.
  unfold runJ, runE. apply option_list_R_fun.
  apply (mR expr (jet R) (fun e j => j = evalJ k o x e) (NumXE x) (NumXJ NumDR k o) rel_EJ ELog (jlog NumDR k o)).
  - intros; subst. reflexivity.
  - rewrite in_J_rel. apply list_R_map.
Qed.

Lemma runR_runE m (mR : prog_R m m) s : runR m x s = option_map (map (evalR x)) (runE m x s).
Proof.
  unfold runR, runE. apply option_list_R_fun.
  apply (mR expr R (fun e r => r = evalR x e) (NumXE x) M5.NumXR rel_ER ELog ln).
  - intros; subst. reflexivity.
  - rewrite in_R_rel. apply list_R_map.
Qed.

End Rel.

(* ------------------------------------------------------------------ values: magic scalars = plain floats *)
Lemma values_agree m (mR : prog_R m m) k o x s :
  option_map (map jv) (runJ m k o x s) = runR m x s.
Proof.
  rewrite (runJ_runE k o x m mR), (runR_runE x m mR). destruct (runE m x s) as [E|]; cbn; [|reflexivity].
  rewrite map_map. f_equal. apply map_ext. intro e. apply jv_evalJ.
Qed.

(* ------------------------------------------------------------------ derivatives *)
Lemma box_self x delta : 0 < delta -> box x delta x.
Proof. intros H q. replace (x q - x q) with 0 by ring. rewrite Rabs_R0. exact H. Qed.

Lemma nth_safe x E r : List.Forall (safe x) E -> safe x (nth r E (Cst 0)).
Proof.
  intro H. destruct (nth_in_or_default r E (Cst 0)) as [I|D].
  - rewrite Forall_forall in H. apply H. exact I.
  - rewrite D. exact I.
Qed.

Theorem jet_lift_gen m (mR : prog_R m m) k o x s :
  run_safe m s x -> stable m s x ->
  exists J, runJ m k o x s = Some J /\
            runR m x s = Some (map jv J) /\
            forall r, holds k o (outR m s r) x (nth r J (jconst 0)).
Proof.
  intros (E & HE & HS) (delta & Hd & HST).
  exists (map (evalJ k o x) E). split; [|split].
  - rewrite (runJ_runE k o x m mR), HE. reflexivity.
  - rewrite (runR_runE x m mR), HE. cbn. rewrite map_map. f_equal. apply map_ext. intro e. symmetry. apply jv_evalJ.
  - intro r.
    assert (HF : forall y, box x delta y -> (fun z => evalR z (nth r E (Cst 0))) y = outR m s r y).
    { intros y Hy. unfold outR. rewrite (runR_runE y m mR), (HST y Hy), HE. cbn.
      change 0 with (evalR y (Cst 0)). rewrite map_nth. reflexivity. }
    change (jconst 0) with (evalJ k o x (Cst 0)). rewrite map_nth.
    pose proof (nth_safe x E r HS) as Hs. set (e := nth r E (Cst 0)) in *.
    split; [|split].
    + rewrite jv_evalJ. apply (HF x). apply box_self. exact Hd.
    + intros _ i Hi. apply (partial_ext_loc (fun z => evalR z e) _ x delta i _ Hd HF).
      rewrite (gd_evalJ k o x e Hs i Hi). apply partial_eval. exact Hs.
    + intros Ho i j Hi Hj. apply (partial2_ext_loc (fun z => evalR z e) _ x delta i j _ Hd HF).
      rewrite (gh_evalJ k o x e Hs Ho i j Hi Hj). apply partial2_eval. exact Hs.
Qed.

(* the reified-language form (no program, no branches): one expression *)
Theorem jet_lift_expr k o x e : safe x e ->
  holds k o (fun y => evalR y e) x (evalJ k o x e).
Proof.
  intro Hs. split; [apply jv_evalJ|split].
  - intros _ i Hi. rewrite (gd_evalJ k o x e Hs i Hi). apply partial_eval. exact Hs.
  - intros Ho i j Hi Hj. rewrite (gh_evalJ k o x e Hs Ho i j Hi Hj). apply partial2_eval. exact Hs.
Qed.
