(* C06/ProofsGlue.v — derivative-losing glue, and the Jacobian / Hessian helpers. *)
From Coq Require Import Reals List Lia Lra Bool ZArith Floats.
From Coquelicot Require Import Coquelicot.
From ADV Require Import Base.Num C06.Model C06.Spec C06.ParamT C06.ProofsAlg C06.ProofsAna C06.ProofsLift.
Import ListNotations.
Open Scope R_scope.

Lemma jsetf_clears (v : R) i j : gd NumDR (jsetf v) i = 0 /\ gh NumDR (jsetf v) i j = 0.
Proof. unfold jsetf, jconst, gd, gh; cbn. split; destruct i; try destruct j; reflexivity. Qed.

Lemma safe_not_lossy x e : safe x e -> lossy e = false.
Proof.
  induction e; cbn; intro H; try reflexivity; try contradiction;
    try (rewrite IHe1, IHe2 by tauto; reflexivity); try (apply IHe; tauto).
Qed.

(* cholesky_ldl_forcepd, 1 x 1: d_0 = max(|c_00|, delta) whatever the data: the output D is lossy *)
Lemma fpd1_lossy x bf dl a : exists E, runE (p_fpd 1) x [(None, bf); (None, dl); (Some 0%nat, a)] = Some E /\
  existsb lossy E = true.
Proof. eexists. split; [reflexivity|]. reflexivity. Qed.

Lemma jacobian_entries_partial (es : list expr) (xs : list R) i j :
  let k := length xs in let x := fun q => nth q xs 0 in
  List.Forall (safe x) es -> (j < k)%nat ->
  partial (fun y => evalR y (nth i es (Cst 0))) j x (gd NumDR (evalJ k 1 x (nth i es (Cst 0))) j).
Proof.
  intros k x HS Hj. pose proof (nth_safe x es i HS) as Hs.
  destruct (jet_lift_expr k 1 x _ Hs) as (_ & H1 & _). apply H1; [lia|exact Hj].
Qed.

Lemma hessian_entries_partial2 (e : expr) (xs : list R) i j :
  let k := length xs in let x := fun q => nth q xs 0 in
  safe x e -> (i < k)%nat -> (j < k)%nat ->
  partial2 (fun y => evalR y e) i j x (gh NumDR (evalJ k 2 x e) i j) /\
  gh NumDR (evalJ k 2 x e) i j = gh NumDR (evalJ k 2 x e) j i.
Proof.
  intros k x Hs Hi Hj. split.
  - destruct (jet_lift_expr k 2 x _ Hs) as (_ & _ & H2). apply H2; [lia|exact Hi|exact Hj].
  - rewrite !(gh_evalJ k 2 x e Hs) by (try lia; assumption). apply Dx_comm. exact Hs.
Qed.

(* singular systems (repaired in /repo 74e12ad; the generic path panicked before): at HEAD both the DenseFloat64
   path and the generic path of Gauss-Jordan leave through "return errors.New(system is computationally
   singular)".  The C04 model of HEAD has ONE outcome function for both paths: for every carrier, size, mask,
   variant and input the outcome (Ok state / error kind) does not depend on the path flag. *)
Lemma gj_outcome_path_independent A (N : Num A) (ut : bool) (n : nat) (msk : list bool) (s : M4.st) :
  M4.gj_run N true ut n msk s = M4.gj_run N false ut n msk s.
Proof. reflexivity. Qed.
Lemma inverse_outcome_path_independent A (N : Num A) (mode : M4.inv_mode) (n : nat) (msk : list bool) (m : list (list A)) :
  M4.m_inverse N true mode n msk m = M4.m_inverse N false mode n msk m.
Proof. destruct mode; reflexivity. Qed.
(* binary64 run of the C04 model on the former witness [[0]] (0/0 = NaN is how singularity is detected) *)
Lemma gj_singular_agree :
  M4.gj_run NumF true false 1 [true] (M4.mkSt [[0%float]] [[1%float]] [1%float]) = M4.ErrSingular /\
  M4.gj_run NumF false false 1 [true] (M4.mkSt [[0%float]] [[1%float]] [1%float]) = M4.ErrSingular.
Proof. split; vm_compute; reflexivity. Qed.
