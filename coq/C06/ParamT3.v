(* C06/ParamT3.v (round 5) — free theorems of the option-set programs and of the LDL kernels with explicit
   factor buffers (paramcoq, no axioms). *)
From Coq Require Import List Bool Arith ZArith Reals.
From Param Require Import Param.
From ADV Require Import Base.Num C06.Model C06.ParamT C06.ModelBuf C06.ParamT2 C06.ModelOpt.
Import ListNotations.

Parametricity Recursive p_gjm.
Parametricity Recursive p_invm.
Parametricity Recursive p_ldl_fresh.
Parametricity Recursive p_fpd_fresh.
