(* C06/ProofsDetN.v — the naive determinant for EVERY size n:
     det_safe_general       run_safe (p_det n) s x  at every point, for every input spec
                            (the routine uses only + - * on the inputs),
     det_jets_general       hence the jets of determinantNaive are its derivatives, no hypothesis,
     logdet_jets_general_n  log(det) for general n: where the determinant is positive, the jet
                            of Log applied to the routine's output holds the derivatives of
                            y |-> ln (det y).
   Self-contained (does not depend on the cofactor file). *)
From Coq Require Import Reals List Lia Lra Bool ZArith Psatz FunctionalExtensionality.
From Coquelicot Require Import Coquelicot.
From ADV Require Import Base.Num C06.Model C06.Spec C06.ParamT C06.ProofsAlg C06.ProofsAna C06.ProofsLift C06.ProofsInst.
Import ListNotations.
Open Scope R_scope.

(* ------------------------------------------------------------------ lists of safe expressions *)
Lemma Forall_firstn_ {T} (P : T -> Prop) n : forall l, List.Forall P l -> List.Forall P (firstn n l).
Proof.
  induction n as [|n IH]; intros [|a l] H; cbn; try constructor.
  - inversion H; assumption.
  - apply IH. inversion H; assumption.
Qed.
Lemma Forall_skipn_ {T} (P : T -> Prop) n : forall l, List.Forall P l -> List.Forall P (skipn n l).
Proof.
  induction n as [|n IH]; intros [|a l] H; cbn; try constructor; try assumption.
  - inversion H; assumption.
  - inversion H; assumption.
  - apply IH. inversion H; assumption.
Qed.

Definition mat_safe (x : nat -> R) (a : list (list expr)) : Prop := List.Forall (List.Forall (safe x)) a.

Lemma in_E_safe x s : List.Forall (safe x) (in_E s).
Proof.
  unfold in_E. apply Forall_forall. intros e He. apply in_map_iff in He as (p & <- & _).
  destruct (fst p); exact I.
Qed.

Lemma chunk_safe x n rows : forall l, List.Forall (safe x) l -> mat_safe x (chunk n rows l).
Proof.
  induction rows as [|r IH]; intros l H; cbn; constructor.
  - apply Forall_firstn_. exact H.
  - apply IH. apply Forall_skipn_. exact H.
Qed.

Lemma row_safe x a i : mat_safe x a -> List.Forall (safe x) (nth i a []).
Proof.
  intro H. destruct (nth_in_or_default i a []) as [I|D].
  - unfold mat_safe in H. rewrite Forall_forall in H. apply H. exact I.
  - rewrite D. constructor.
Qed.

Lemma mget_safe x a i j : mat_safe x a -> safe x (M4.mget (NumE x) a i j).
Proof. intro H. unfold M4.mget, M4.vget, M4.row. apply (nth_safe x _ j). apply row_safe. exact H. Qed.

Lemma minor0_safe x a j : mat_safe x a -> mat_safe x (M4.minor0 a j).
Proof.
  intro H. unfold M4.minor0, mat_safe. apply Forall_forall. intros r Hr. apply in_map_iff in Hr as (r0 & <- & Hin).
  assert (Hr0 : List.Forall (safe x) r0).
  { destruct a as [|a0 a']; [destruct Hin|]. cbn in Hin. inversion H as [|? ? _ H']. subst.
    rewrite Forall_forall in H'. apply H'. exact Hin. }
  unfold M4.drop_col. apply Forall_app. split; [apply Forall_firstn_|apply Forall_skipn_]; exact Hr0.
Qed.

(* ------------------------------------------------------------------ det_naive over the symbolic carrier is safe *)
Lemma det_naive_SSS {A} (N : Num A) m a :
  M4.det_naive N (S (S (S m))) a =
  fold_left (fun det j1 =>
               let t1 := mul N (M4.mget N a 0 j1) (M4.det_naive N (S (S m)) (M4.minor0 a j1)) in
               if Nat.even j1 then add N det t1 else sub N det t1)
            (seq 0 (S (S (S m)))) (zero N).
Proof. reflexivity. Qed.

Lemma fold_signed_safe x (t : nat -> expr) : (forall j, safe x (t j)) ->
  forall l acc, safe x acc ->
  safe x (fold_left (fun det j1 => if Nat.even j1 then add (NumE x) det (t j1) else sub (NumE x) det (t j1)) l acc).
Proof.
  intros Ht l. induction l as [|j l IH]; intros acc Ha; cbn [fold_left]; [exact Ha|].
  apply IH. destruct (Nat.even j); (split; [exact Ha|apply Ht]).
Qed.

Lemma det_naive_safe x n : forall a, mat_safe x a -> safe x (M4.det_naive (NumE x) n a).
Proof.
  induction n as [|n IH]; intros a Ha.
  - exact I.
  - destruct n as [|[|m]].
    + apply mget_safe. exact Ha.
    + change (safe x (ESub (EMul (M4.mget (NumE x) a 0 0) (M4.mget (NumE x) a 1 1))
                           (EMul (M4.mget (NumE x) a 1 0) (M4.mget (NumE x) a 0 1)))).
      cbn [safe]. repeat split; apply mget_safe; exact Ha.
    + rewrite det_naive_SSS.
      apply (fold_signed_safe x (fun j1 => mul (NumE x) (M4.mget (NumE x) a 0 j1)
                                               (M4.det_naive (NumE x) (S (S m)) (M4.minor0 a j1)))).
      * intro j. split; [apply mget_safe; exact Ha|]. apply IH. apply minor0_safe. exact Ha.
      * exact I.
Qed.

(* ------------------------------------------------------------------ the single symbolic output of p_det n *)
Definition det_E (n : nat) (s : spec) (x : nat -> R) : expr := M4.det_naive (NumE x) n (chunk n n (in_E s)).

Lemma det_run n s x : runE (p_det n) x s = Some [det_E n s x].
Proof. reflexivity. Qed.

(* no comparison is consulted: the expression does not depend on the point *)
Lemma det_E_indep n s x y : det_E n s y = det_E n s x.
Proof. reflexivity. Qed.

Lemma det_E_safe n s x : safe x (det_E n s x).
Proof. apply det_naive_safe. apply chunk_safe. apply in_E_safe. Qed.

Theorem det_safe_general : forall n s x, run_safe (p_det n) s x.
Proof.
  intros n s x. exists [det_E n s x]. split; [apply det_run|]. constructor; [apply det_E_safe|constructor].
Qed.

(* determinantNaive, every size, every point, every choice of activated inputs *)
Theorem det_jets_general n k o x s :
  exists J, runJ (p_det n) k o x s = Some [J] /\ runR (p_det n) x s = Some [jv J] /\
            holds k o (outR (p_det n) s 0) x J.
Proof.
  destruct (det_jets n k o x s (det_safe_general n s x)) as (J & HJ & HR & HH).
  pose proof (runR_runE x (p_det n) (routine_param (RDet n)) s) as ER. rewrite det_run in ER. cbn [option_map map] in ER.
  rewrite ER in HR. destruct J as [|J0 [|J1 J]]; try discriminate HR.
  exists J0. split; [exact HJ|]. split; [rewrite ER; exact HR|]. exact (HH 0%nat).
Qed.

(* the real function computed by the routine is the denotation of det_E *)
Lemma det_outR n s x y : outR (p_det n) s 0 y = evalR y (det_E n s x).
Proof.
  unfold outR. rewrite (runR_runE y (p_det n) (routine_param (RDet n)) s), det_run. cbn [option_map map nth].
  rewrite (det_E_indep n s x y). reflexivity.
Qed.

(* log det for general n, from det's theorem + positivity *)
Theorem logdet_jets_general_n n s k o x :
  0 < evalR x (det_E n s x) ->
  holds k o (fun y => ln (outR (p_det n) s 0 y)) x (evalJ k o x (ELog (det_E n s x))).
Proof.
  intro Hp.
  assert (EF : (fun y => ln (outR (p_det n) s 0 y)) = (fun y => evalR y (ELog (det_E n s x)))).
  { apply functional_extensionality. intro y. rewrite (det_outR n s x y). reflexivity. }
  rewrite EF. apply jet_lift_expr. split; [apply det_E_safe|exact Hp].
Qed.

(* the same with the positivity hypothesis on the routine's real output *)
Corollary logdet_jets_general_n_out n s k o x :
  0 < outR (p_det n) s 0 x ->
  holds k o (fun y => ln (outR (p_det n) s 0 y)) x (evalJ k o x (ELog (det_E n s x))).
Proof. intro Hp. apply logdet_jets_general_n. rewrite <- (det_outR n s x x). exact Hp. Qed.

(* and the jet is the one the library computes: Log applied to the output of the run on magic scalars *)
Lemma logdet_runJ n s k o x :
  option_map (map (jlog NumDR k o)) (runJ (p_det n) k o x s) = Some [evalJ k o x (ELog (det_E n s x))].
Proof.
  rewrite (runJ_runE k o x (p_det n) (routine_param (RDet n)) s), det_run. reflexivity.
Qed.

(* the hypothesis is satisfiable: n = 4, all 16 entries activated, the matrix
   [[2,1,0,0],[1,3,1,0],[0,1,2,1],[0,0,1,3]] has determinant 19 *)
Example logdet_dom_example :
  let x := fun i => nth i [2; 1; 0; 0;  1; 3; 1; 0;  0; 1; 2; 1;  0; 0; 1; 3] 0 in
  0 < evalR x (det_E 4 (all_vars 16) x).
Proof. intro x. unfold evalR, det_E. cbn. lra. Qed.
