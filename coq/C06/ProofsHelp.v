(* C06/ProofsHelp.v — the Jacobian / Hessian helpers as the statement lists of the source (round 6):
   the run of the translated text returns the matrices of first / second partial derivatives of the supplied
   function - for EVERY caller's vector (pre-activated ones included) and every prior receiver content; rejection /
   replacement of wrong dimensions; sparse = dense for every recycled receiver (model of HEAD after the repairs
   8241a1e and 9a15545 of the two defects this file used to refute). *)
From Coq Require Import Reals List Lia Lra Bool ZArith Arith Floats.
From Coquelicot Require Import Coquelicot.
From ADV Require Import Base.Num C06.Model C06.Model32 C06.Spec C06.ModelHelp C06.ParamT C06.ProofsAlg C06.ProofsAna C06.ProofsLift
                        C06.ProofsGlue C06.Corr.
Import ListNotations.
Open Scope R_scope.

(* ---------------------------------------------------------------- lists *)
Lemma nth_map_combine_seq {T U} (f : nat * T -> U) (l : list T) (i : nat) (d : U) (dT : T) :
  (i < length l)%nat -> nth i (map f (combine (seq 0 (length l)) l)) d = f (i, nth i l dT).
Proof.
  intro Hi.
  assert (Hl : length (combine (seq 0 (length l)) l) = length l) by (rewrite combine_length, seq_length; lia).
  rewrite (nth_indep _ d (f (0%nat, dT))) by (rewrite map_length, Hl; exact Hi).
  rewrite (map_nth f). rewrite combine_nth by (rewrite seq_length; reflexivity).
  rewrite seq_nth by exact Hi. reflexivity.
Qed.

Lemma nth_map_lt {T U} (f : T -> U) (l : list T) (i : nat) (d : U) (dT : T) :
  (i < length l)%nat -> nth i (map f l) d = f (nth i l dT).
Proof. intro Hi. rewrite (nth_indep _ d (f dT)) by (rewrite map_length; exact Hi). apply map_nth. Qed.

Lemma nth_repeat_lt {T} (a d : T) (n i : nat) : (i < n)%nat -> nth i (repeat a n) d = a.
Proof. revert i. induction n; intros i Hi; [lia|]. destruct i; [reflexivity|]. cbn. apply IHn. lia. Qed.

(* ---------------------------------------------------------------- the supplied function *)
Lemma teval_R (xs : list R) (t : texpr) :
  teval M5.NumXR ln xs t = evalR (fun q => nth q xs 0) (to_expr t).
Proof.
  induction t; cbn [teval to_expr]; unfold evalR in *; cbn [eval];
    try rewrite IHt1, IHt2; try rewrite IHt; reflexivity.
Qed.

Section TJ.
Variables (k o : nat) (xs : list R).
Hypothesis Hk : k = length xs.
Let x := fun q => nth q xs 0.
Let xj := map (fun p => jvar NumDR k o (fst p) (snd p)) (combine (seq 0 k) xs).
Lemma teval_J (t : texpr) : scoped k t = true ->
  teval (NumXJ NumDR k o) (jlog NumDR k o) xj t = evalJ k o x (to_expr t).
Proof.
  induction t; cbn [scoped teval to_expr]; intro Hs; unfold evalJ in *; cbn [eval].
  - apply Nat.ltb_lt in Hs. unfold xj. rewrite Hk in *.
    rewrite (nth_map_combine_seq _ xs i _ 0) by exact Hs. reflexivity.
  - reflexivity.
  - apply andb_true_iff in Hs. destruct Hs as [H1 H2]. rewrite IHt1, IHt2 by assumption. reflexivity.
  - apply andb_true_iff in Hs. destruct Hs as [H1 H2]. rewrite IHt1, IHt2 by assumption. reflexivity.
  - apply andb_true_iff in Hs. destruct Hs as [H1 H2]. rewrite IHt1, IHt2 by assumption. reflexivity.
  - apply andb_true_iff in Hs. destruct Hs as [H1 H2]. rewrite IHt1, IHt2 by assumption. reflexivity.
  - rewrite IHt by assumption. reflexivity.
  - rewrite IHt by assumption. reflexivity.
  - rewrite IHt by assumption. reflexivity.
Qed.
End TJ.

(* ---------------------------------------------------------------- the clone after Variables(o) *)
(* SetVariable clears whatever the clone carried: only the VALUES of the caller's vector matter *)
Lemma clone_vars {A} (D : NumD A) (k o : nat) (l : list nat) (x_ : list (msc A)) :
  map (fun p => set_variable D (fst p) k o (snd p)) (combine l x_)
  = map (fun p => jvar D k o (fst p) (snd p)) (combine l (map mv x_)).
Proof.
  revert l. induction x_ as [|a x_ IH]; intros l; destruct l as [|i l]; try reflexivity.
  cbn [map combine fst snd]. rewrite (IH l). reflexivity.
Qed.

(* ---------------------------------------------------------------- the runs over R *)
Definition runR_helper := helper_run NumDR (NumXJ NumDR) (jlog NumDR) (fun v : R => v).

Definition jac_matrix (ts : list texpr) (xs : list R) : list (list R) :=
  let k := length xs in let x := fun q => nth q xs 0 in
  map (fun i => map (fun j => gd NumDR (evalJ k 1 x (to_expr (nth i ts (TCst 0)))) j) (seq 0 k)) (seq 0 (length ts)).
Definition hes_matrix (t : texpr) (xs : list R) : list (list R) :=
  let k := length xs in let x := fun q => nth q xs 0 in
  map (fun i => map (fun j => gh NumDR (evalJ k 2 x (to_expr t)) i j) (seq 0 k)) (seq 0 k).

Lemma vf_len (ts : list texpr) B X lg x : length (vf_of ts B X lg x) = length ts.
Proof. unfold vf_of. apply map_length. Qed.

Ltac hstep := cbn [helper_run src_helper prog_jac_dense prog_hes_dense prog_jac_sparse prog_hes_sparse hexec step hinit
                   h_n h_m h_rn h_rm h_r h_xarg h_x h_o h_xj h_y dimv condv].

Lemma y_jac (ts : list texpr) (x_ : list (msc R)) : forallb (scoped (length x_)) ts = true ->
  forall i, (i < length ts)%nat ->
  nth i (vf_of ts (jet R) (NumXJ NumDR (length x_) 1) (jlog NumDR (length x_) 1)
           (map (fun p => set_variable NumDR (fst p) (length x_) 1 (snd p)) (combine (seq 0 (length x_)) x_)))
      (jconst (zero (M5.nx (dx NumDR))))
  = evalJ (length x_) 1 (fun q => nth q (map mv x_) 0) (to_expr (nth i ts (TCst 0))).
Proof.
  intros Hs i Hi. unfold vf_of. rewrite (nth_map_lt _ ts i _ (TCst 0)) by exact Hi.
  rewrite (clone_vars NumDR).
  rewrite forallb_forall in Hs.
  apply (teval_J (length x_) 1 (map mv x_)); [rewrite map_length; reflexivity|].
  apply Hs. apply nth_In. exact Hi.
Qed.

(* (a) dense Jacobian: the receiver ends up holding the gradient slots of the outputs - whatever it held before -
   and the caller's vector is returned as it was *)
Lemma jac_dense_run (ts : list texpr) (x_ : list (msc R)) (r0 : list (list R)) :
  forallb (scoped (length x_)) ts = true ->
  runR_helper (vf_of ts) 0 false (length ts) (length x_) r0 x_ = HOk (jac_matrix ts (map mv x_)) x_.
Proof.
  intros Hs. unfold runR_helper. hstep.
  rewrite !vf_len, !Nat.eqb_refl. cbn [negb orb]. hstep.
  rewrite !Nat.leb_refl, !orb_true_r. hstep. f_equal.
  unfold jac_matrix. rewrite map_length.
  apply map_ext_in. intros i Hi. apply in_seq in Hi.
  apply map_ext_in. intros j Hj. apply in_seq in Hj.
  replace (i <? length ts)%nat with true by (symmetry; apply Nat.ltb_lt; lia).
  replace (j <? length x_)%nat with true by (symmetry; apply Nat.ltb_lt; lia).
  cbn [andb cellv h_y]. pose proof (y_jac ts x_ Hs i ltac:(lia)) as Y; unfold vf_of in Y |- *; rewrite !Y. reflexivity.
Qed.

(* (b) dense Jacobian: wrong receiver dimensions are rejected *)
Lemma jac_dense_mismatch (f : vfun) (x_ : list (msc R)) (rn rm : nat) (r0 : list (list R)) :
  (rm <> length x_ \/
   rn <> length (f (jet R) (NumXJ NumDR (length x_) 1) (jlog NumDR (length x_) 1)
                   (map (fun p => set_variable NumDR (fst p) (length x_) 1 (snd p)) (combine (seq 0 (length x_)) x_)))) ->
  runR_helper f 0 false rn rm r0 x_ = HPanic.
Proof.
  intros H. unfold runR_helper. hstep.
  match goal with |- context [if ?c then _ else _] => assert (Hc : c = true) end.
  { apply orb_true_iff. destruct H as [H|H]; [left|right]; apply negb_true_iff, Nat.eqb_neq; congruence. }
  rewrite Hc. reflexivity.
Qed.

(* (c) dense Hessian *)
Lemma hes_dense_run (t : texpr) (x_ : list (msc R)) (r0 : list (list R)) :
  scoped (length x_) t = true ->
  runR_helper (vf_of [t]) 1 false (length x_) (length x_) r0 x_ = HOk (hes_matrix t (map mv x_)) x_.
Proof.
  intros Hs. unfold runR_helper. hstep.
  rewrite !Nat.eqb_refl. cbn [negb orb]. hstep.
  rewrite !Nat.leb_refl, !orb_true_r. hstep. f_equal.
  unfold hes_matrix. rewrite map_length.
  apply map_ext_in. intros i Hi. apply in_seq in Hi.
  apply map_ext_in. intros j Hj. apply in_seq in Hj.
  replace (i <? length x_)%nat with true by (symmetry; apply Nat.ltb_lt; lia).
  replace (j <? length x_)%nat with true by (symmetry; apply Nat.ltb_lt; lia).
  cbn [andb cellv h_y vf_of map nth]. rewrite (clone_vars NumDR).
  rewrite (teval_J (length x_) 2 (map mv x_)) by (try (rewrite map_length; reflexivity); exact Hs).
  reflexivity.
Qed.

Lemma hes_dense_mismatch (f : vfun) (x_ : list (msc R)) (rn rm : nat) (r0 : list (list R)) :
  (rn <> length x_ \/ rn <> rm) -> runR_helper f 1 false rn rm r0 x_ = HPanic.
Proof.
  intros H. unfold runR_helper. hstep.
  match goal with |- context [if ?c then _ else _] => assert (Hc : c = true) end.
  { apply orb_true_iff. destruct H as [H|H]; [left|right]; apply negb_true_iff, Nat.eqb_neq; congruence. }
  rewrite Hc. reflexivity.
Qed.

(* ---------------------------------------------------------------- the entries are the partial derivatives *)
Lemma nth2_map_seq {T} (g : nat -> nat -> T) (n m i j : nat) (d : T) : (i < n)%nat -> (j < m)%nat ->
  nth j (nth i (map (fun i => map (fun j => g i j) (seq 0 m)) (seq 0 n)) []) d = g i j.
Proof.
  intros Hi Hj. rewrite (nth_map_lt _ (seq 0 n) i _ 0%nat) by (rewrite seq_length; exact Hi).
  rewrite (nth_map_lt _ (seq 0 m) j _ 0%nat) by (rewrite seq_length; exact Hj).
  rewrite !seq_nth by assumption. reflexivity.
Qed.

Lemma to_expr_nth (ts : list texpr) i : nth i (map to_expr ts) (Cst 0) = to_expr (nth i ts (TCst 0)).
Proof. change (Cst 0) with (to_expr (TCst 0)). apply map_nth. Qed.

Theorem jacobian_helper_partials (ts : list texpr) (x_ : list (msc R)) (r0 : list (list R)) :
  let k := length x_ in let x := fun q => nth q (map mv x_) 0 in
  forallb (scoped k) ts = true -> List.Forall (safe x) (map to_expr ts) ->
  exists M, runR_helper (vf_of ts) 0 false (length ts) k r0 x_ = HOk M x_ /\
    length M = length ts /\
    forall i j, (i < length ts)%nat -> (j < k)%nat ->
      partial (fun y => evalR y (to_expr (nth i ts (TCst 0)))) j x (nth j (nth i M []) 0).
Proof.
  intros k x Hs Hsafe. exists (jac_matrix ts (map mv x_)). split; [apply jac_dense_run; assumption|].
  split; [unfold jac_matrix; rewrite map_length, seq_length; reflexivity|].
  intros i j Hi Hj. unfold jac_matrix. rewrite map_length.
  rewrite (nth2_map_seq (fun i j => gd NumDR (evalJ (length x_) 1 (fun q => nth q (map mv x_) 0) (to_expr (nth i ts (TCst 0)))) j))
    by assumption.
  pose proof (jacobian_entries_partial (map to_expr ts) (map mv x_) i j) as P. cbv zeta in P.
  rewrite map_length, to_expr_nth in P. apply P; assumption.
Qed.

Theorem hessian_helper_partials (t : texpr) (x_ : list (msc R)) (r0 : list (list R)) :
  let k := length x_ in let x := fun q => nth q (map mv x_) 0 in
  scoped k t = true -> safe x (to_expr t) ->
  exists M, runR_helper (vf_of [t]) 1 false k k r0 x_ = HOk M x_ /\
    length M = k /\
    forall i j, (i < k)%nat -> (j < k)%nat ->
      partial2 (fun y => evalR y (to_expr t)) i j x (nth j (nth i M []) 0) /\
      nth j (nth i M []) 0 = nth i (nth j M []) 0.
Proof.
  intros k x Hs Hsafe. exists (hes_matrix t (map mv x_)). split; [apply hes_dense_run; assumption|].
  split; [unfold hes_matrix; rewrite !map_length, seq_length; reflexivity|].
  intros i j Hi Hj. unfold hes_matrix. rewrite map_length.
  rewrite !(nth2_map_seq (fun i j => gh NumDR (evalJ (length x_) 2 (fun q => nth q (map mv x_) 0) (to_expr t)) i j)) by assumption.
  pose proof (hessian_entries_partial2 (to_expr t) (map mv x_) i j) as P. cbv zeta in P.
  rewrite map_length in P. apply P; assumption.
Qed.

(* ---------------------------------------------------------------- sparse receivers *)
Definition zmatR (n m : nat) : list (list R) := repeat (repeat 0 m) n.

Lemma rget_zmat n m i j : rget NumDR (zmatR n m) i j = 0.
Proof.
  unfold rget, zmatR. destruct (Nat.lt_ge_cases i n) as [Hi|Hi].
  - rewrite (nth_repeat_lt _ _ n i Hi). destruct (Nat.lt_ge_cases j m) as [Hj|Hj].
    + apply nth_repeat_lt. exact Hj.
    + apply nth_overflow. rewrite repeat_length. exact Hj.
  - rewrite (nth_overflow (repeat (repeat 0 m) n)) by (rewrite repeat_length; exact Hi). destruct j; reflexivity.
Qed.

Lemma nz_store (v : R) : (if eqb (M5.nx (dx NumDR)) v (zero (M5.nx (dx NumDR))) then 0 else v) = v.
Proof.
  cbn. unfold Reqb. destruct (Req_EM_T v 0) as [E|E]; [symmetry; exact E|reflexivity].
Qed.

(* a receiver of the RIGHT dimensions is Reset, whatever it held (recycled result matrices included) ... *)
Lemma jac_sparse_match (ts : list texpr) (x_ : list (msc R)) (r0 : list (list R)) :
  forallb (scoped (length x_)) ts = true ->
  runR_helper (vf_of ts) 0 true (length ts) (length x_) r0 x_ = HOk (jac_matrix ts (map mv x_)) x_.
Proof.
  intros Hs. unfold runR_helper. hstep.
  rewrite !vf_len, !Nat.eqb_refl. cbn [negb orb]. hstep.
  rewrite !Nat.leb_refl, !orb_true_r. hstep. f_equal.
  unfold jac_matrix. rewrite map_length.
  apply map_ext_in. intros i Hi. apply in_seq in Hi.
  apply map_ext_in. intros j Hj. apply in_seq in Hj.
  replace (i <? length ts)%nat with true by (symmetry; apply Nat.ltb_lt; lia).
  replace (j <? length x_)%nat with true by (symmetry; apply Nat.ltb_lt; lia).
  cbn [andb cellv h_y]. pose proof (y_jac ts x_ Hs i ltac:(lia)) as Y; unfold vf_of in Y |- *; rewrite !Y.
  change (repeat (repeat (zero (M5.nx (dx NumDR))) (length x_)) (length ts)) with (zmatR (length ts) (length x_)).
  rewrite rget_zmat. apply nz_store.
Qed.

(* ... and a receiver of the WRONG dimensions is replaced by a fresh one of the right dimensions *)
Lemma jac_sparse_realloc (ts : list texpr) (x_ : list (msc R)) (rn rm : nat) (r0 : list (list R)) :
  forallb (scoped (length x_)) ts = true ->
  (rm <> length x_ \/ rn <> length ts) ->
  runR_helper (vf_of ts) 0 true rn rm r0 x_ = HOk (jac_matrix ts (map mv x_)) x_.
Proof.
  intros Hs H. unfold runR_helper. hstep.
  match goal with |- context [if ?c then _ else _] => assert (Hcc : c = true) end.
  { rewrite !vf_len. cbn [orb]. apply orb_true_iff.
    destruct H as [H|H]; [left|right]; apply negb_true_iff, Nat.eqb_neq; congruence. }
  rewrite Hcc. hstep. rewrite !vf_len.
  rewrite !Nat.leb_refl, !orb_true_r. hstep. f_equal.
  unfold jac_matrix. rewrite map_length.
  apply map_ext_in. intros i Hi. apply in_seq in Hi.
  apply map_ext_in. intros j Hj. apply in_seq in Hj.
  replace (i <? length ts)%nat with true by (symmetry; apply Nat.ltb_lt; lia).
  replace (j <? length x_)%nat with true by (symmetry; apply Nat.ltb_lt; lia).
  cbn [andb cellv h_y]. pose proof (y_jac ts x_ Hs i ltac:(lia)) as Y; unfold vf_of in Y |- *; rewrite !Y.
  change (repeat (repeat (zero (M5.nx (dx NumDR))) (length x_)) (length ts)) with (zmatR (length ts) (length x_)).
  rewrite rget_zmat. apply nz_store.
Qed.

(* hence: EVERY receiver - any dimensions, any content *)
Lemma jac_sparse_run (ts : list texpr) (x_ : list (msc R)) (rn rm : nat) (r0 : list (list R)) :
  forallb (scoped (length x_)) ts = true ->
  runR_helper (vf_of ts) 0 true rn rm r0 x_ = HOk (jac_matrix ts (map mv x_)) x_.
Proof.
  intros Hs. destruct (Nat.eq_dec rm (length x_)) as [-> | Hm]; [|apply jac_sparse_realloc; [exact Hs|left; exact Hm]].
  destruct (Nat.eq_dec rn (length ts)) as [-> | Hn]; [|apply jac_sparse_realloc; [exact Hs|right; exact Hn]].
  apply jac_sparse_match. exact Hs.
Qed.

Lemma hes_sparse_match (t : texpr) (x_ : list (msc R)) (r0 : list (list R)) :
  scoped (length x_) t = true ->
  runR_helper (vf_of [t]) 1 true (length x_) (length x_) r0 x_ = HOk (hes_matrix t (map mv x_)) x_.
Proof.
  intros Hs. unfold runR_helper. hstep.
  rewrite !Nat.eqb_refl. cbn [negb orb]. hstep.
  rewrite !Nat.leb_refl, !orb_true_r. hstep. f_equal.
  unfold hes_matrix. rewrite map_length.
  apply map_ext_in. intros i Hi. apply in_seq in Hi.
  apply map_ext_in. intros j Hj. apply in_seq in Hj.
  replace (i <? length x_)%nat with true by (symmetry; apply Nat.ltb_lt; lia).
  replace (j <? length x_)%nat with true by (symmetry; apply Nat.ltb_lt; lia).
  cbn [andb cellv h_y vf_of map nth]. rewrite (clone_vars NumDR).
  rewrite (teval_J (length x_) 2 (map mv x_)) by (try (rewrite map_length; reflexivity); exact Hs).
  change (repeat (repeat (zero (M5.nx (dx NumDR))) (length x_)) (length x_)) with (zmatR (length x_) (length x_)).
  rewrite rget_zmat. apply nz_store.
Qed.

Lemma hes_sparse_realloc (t : texpr) (x_ : list (msc R)) (rn rm : nat) (r0 : list (list R)) :
  scoped (length x_) t = true ->
  (rn <> length x_ \/ rn <> rm) ->
  runR_helper (vf_of [t]) 1 true rn rm r0 x_ = HOk (hes_matrix t (map mv x_)) x_.
Proof.
  intros Hs H. unfold runR_helper. hstep.
  match goal with |- context [if ?c then _ else _] => assert (Hcc : c = true) end.
  { cbn [orb]. apply orb_true_iff.
    destruct H as [H|H]; [left|right]; apply negb_true_iff, Nat.eqb_neq; congruence. }
  rewrite Hcc. hstep.
  rewrite !Nat.leb_refl, !orb_true_r. hstep. f_equal.
  unfold hes_matrix. rewrite map_length.
  apply map_ext_in. intros i Hi. apply in_seq in Hi.
  apply map_ext_in. intros j Hj. apply in_seq in Hj.
  replace (i <? length x_)%nat with true by (symmetry; apply Nat.ltb_lt; lia).
  replace (j <? length x_)%nat with true by (symmetry; apply Nat.ltb_lt; lia).
  cbn [andb cellv h_y vf_of map nth]. rewrite (clone_vars NumDR).
  rewrite (teval_J (length x_) 2 (map mv x_)) by (try (rewrite map_length; reflexivity); exact Hs).
  change (repeat (repeat (zero (M5.nx (dx NumDR))) (length x_)) (length x_)) with (zmatR (length x_) (length x_)).
  rewrite rget_zmat. apply nz_store.
Qed.

Lemma hes_sparse_run (t : texpr) (x_ : list (msc R)) (rn rm : nat) (r0 : list (list R)) :
  scoped (length x_) t = true ->
  runR_helper (vf_of [t]) 1 true rn rm r0 x_ = HOk (hes_matrix t (map mv x_)) x_.
Proof.
  intros Hs. destruct (Nat.eq_dec rn (length x_)) as [-> | Hn]; [|apply hes_sparse_realloc; [exact Hs|left; exact Hn]].
  destruct (Nat.eq_dec (length x_) rm) as [<- | Hm]; [|apply hes_sparse_realloc; [exact Hs|right; exact Hm]].
  apply hes_sparse_match. exact Hs.
Qed.

(* sparse = dense, for every receiver content (dimensions of the derivative) *)
Lemma sparse_equals_dense (ts : list texpr) (t : texpr) (x_ : list (msc R)) (r0 r0' : list (list R)) :
  forallb (scoped (length x_)) ts = true -> scoped (length x_) t = true ->
  runR_helper (vf_of ts) 0 true (length ts) (length x_) r0 x_ = runR_helper (vf_of ts) 0 false (length ts) (length x_) r0' x_ /\
  runR_helper (vf_of [t]) 1 true (length x_) (length x_) r0 x_ = runR_helper (vf_of [t]) 1 false (length x_) (length x_) r0' x_.
Proof.
  intros Hs Ht. split.
  - rewrite jac_sparse_run, jac_dense_run by assumption. reflexivity.
  - rewrite hes_sparse_run, hes_dense_run by assumption. reflexivity.
Qed.

(* ---------------------------------------------------------------- the former witnesses, on binary64 (model of HEAD) *)
Definition runF_helper := helper_run NumDFg (NumXJ NumDFg) (jlog NumDFg) (fun v : float => v).

(* f(x) = x0 + x1 at (6, 5), the caller's vector already allocated for (2 variables, order 1) with x0 carrying the
   gradient (3, 2) of an earlier computation: [1 1], as for the plain vector (before 8241a1e: [1 3]) *)
Lemma jacobian_preactivated_witness :
  runF_helper (vf_of [TAdd (TVar 0) (TVar 1)]) 0 false 1 2 [[0; 0]]%float [ms_plain 6%float; ms_plain 5%float]
    = HOk [[1; 1]]%float [ms_plain 6%float; ms_plain 5%float] /\
  runF_helper (vf_of [TAdd (TVar 0) (TVar 1)]) 0 false 1 2 [[0; 0]]%float
              [mkMs 6%float 2 1 [3; 2]%float []; mkMs 5%float 2 1 [0; 1]%float []]
    = HOk [[1; 1]]%float [mkMs 6%float 2 1 [3; 2]%float []; mkMs 5%float 2 1 [0; 1]%float []].
Proof. split; vm_compute; reflexivity. Qed.

(* f(x) = x0 * x0 at (6, 5), sparse receiver recycled with the entry (0,1) = 7: [12 0], as the dense copy
   (before 9a15545: [12 7]) *)
Lemma sparse_recycled_witness :
  runF_helper (vf_of [TMul (TVar 0) (TVar 0)]) 0 true 1 2 [[0; 7]]%float [ms_plain 6%float; ms_plain 5%float]
    = HOk [[12; 0]]%float [ms_plain 6%float; ms_plain 5%float] /\
  runF_helper (vf_of [TMul (TVar 0) (TVar 0)]) 0 false 1 2 [[0; 7]]%float [ms_plain 6%float; ms_plain 5%float]
    = HOk [[12; 0]]%float [ms_plain 6%float; ms_plain 5%float].
Proof. split; vm_compute; reflexivity. Qed.

(* ---------------------------------------------------------------- non-vacuity *)
(* a caller's vector that is already activated over 2 variables at order 1 AND at the point (2, 3) *)
Lemma helper_example_hyps :
  let x_ := [mkMs 2 2 1 [3; 2] []; mkMs 3 2 1 [0; 1] []] in let x := fun q => nth q (map mv x_) 0 in
  forallb (scoped 2) [TMul (TVar 0) (TVar 1); TDiv (TVar 0) (TVar 1)] = true /\
  List.Forall (safe x) (map to_expr [TMul (TVar 0) (TVar 1); TDiv (TVar 0) (TVar 1)]).
Proof.
  cbv zeta. split; [reflexivity|].
  repeat constructor; cbn; lra.
Qed.
