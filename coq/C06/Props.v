(* C06 — property theorems (statements; proofs in Proofs*.v).

   Carrier R.  [runJ m k o x s] is the run of routine m on magic scalars (k
   activated entries, order o) at the point x, [runR m x s] the run on plain
   reals, [holds k o F x J]: the scalar J carries F x, the first partials of F in
   its gradient slots and the second partials in its Hessian slots. *)
From Coq Require Import Reals List Lia Lra Bool ZArith Floats.
From Coquelicot Require Import Coquelicot.
From ADV Require Import Base.Num C06.Model C06.Spec C06.ParamT C06.ProofsAlg C06.ProofsAna C06.ProofsLift
                        C06.ProofsInst C06.ProofsGJ2 C06.ProofsCalc C06.ProofsGlue C06.ProofsVal C06.Corr.
From ADV Require Import C04.Model2 C04.ProofsBuf C06.Model32 C06.ModelBuf C06.ParamT2 C06.ProofsBuf C06.ProofsBuf2 C06.ProofsVal32
                        C06.ProofsJacobi C06.ProofsOpen C06.ProofsLdl C06.ProofsInv3 C06.ProofsGS2.
From ADV Require C06.ProofsDetN.
From ADV Require Import C06.ModelOpt C06.ParamT3 C06.ProofsOpt C06.ProofsOptBuf.
From ADV Require Import C06.ModelHelp C06.ProofsHelp.
From ADV Require Import C06.ModelView C06.ProofsView.
Import ListNotations.
Open Scope R_scope.

(* (1a) jet_lift for the reified carrier operations: the jet the library computes for an expression
   (any nesting of + - * / neg sqrt log over variables and constants) is value, gradient, Hessian of
   the real function the expression denotes - wherever every division, sqrt and log is in its domain *)
Theorem jet_lift : forall k o x e, safe x e -> holds k o (fun y => evalR y e) x (evalJ k o x e).
Proof. exact jet_lift_expr. Qed.

(* (1b) ... and for EVERY carrier-polymorphic program m (its free theorem [prog_R m m] is generated from
   the program text): the run on magic scalars returns the values of the run on reals, and output q
   carries the partial derivatives of the real function  y |-> (runR m y s)_q  - wherever the executed
   arithmetic is in its domain and the branch decisions are locally constant *)
Theorem jet_lift_programs : forall (m : prog), prog_R m m -> forall k o x s,
  run_safe m s x -> stable m s x ->
  exists J, runJ m k o x s = Some J /\ runR m x s = Some (map jv J) /\
            forall q, holds k o (outR m s q) x (nth q J (jconst 0)).
Proof. exact jet_lift_gen. Qed.

(* values never depend on the derivative bookkeeping: no hypothesis at all (errors included) *)
Theorem magic_values_equal_plain_values : forall (m : prog), prog_R m m -> forall k o x s,
  option_map (map jv) (runJ m k o x s) = runR m x s.
Proof. exact values_agree. Qed.

(* (2) all modelled routines: back substitution, determinant (naive / PD / log-scale), inverse (plain,
   upper triangular, positive definite), Gauss-Jordan (both variants), Cholesky, LDL, matrix product,
   Gram-Schmidt, Hessenberg, Householder, Givens, tri-/bidiagonalisation *)
Theorem all_routines_values : forall r k o x s,
  option_map (map jv) (runJ (prog_of_routine r) k o x s) = runR (prog_of_routine r) x s.
Proof. exact routine_values. Qed.

Theorem all_routines_derivatives : forall r k o x s,
  run_safe (prog_of_routine r) s x -> stable (prog_of_routine r) s x ->
  exists J, runJ (prog_of_routine r) k o x s = Some J /\
            runR (prog_of_routine r) x s = Some (map jv J) /\
            forall q, holds k o (outR (prog_of_routine r) s q) x (nth q J (jconst 0)).
Proof. exact routine_jets. Qed.

(* branch-free routines: no stability hypothesis, all sizes *)
Theorem back_substitution_derivatives : forall n k o x s, run_safe (p_backsub n) s x ->
  exists J, runJ (p_backsub n) k o x s = Some J /\ runR (p_backsub n) x s = Some (map jv J) /\
            forall q, holds k o (outR (p_backsub n) s q) x (nth q J (jconst 0)).
Proof. exact backsub_jets. Qed.

Theorem determinant_derivatives : forall n k o x s, run_safe (p_det n) s x ->
  exists J, runJ (p_det n) k o x s = Some J /\ runR (p_det n) x s = Some (map jv J) /\
            forall q, holds k o (outR (p_det n) s q) x (nth q J (jconst 0)).
Proof. exact det_jets. Qed.

Theorem matrix_product_derivatives : forall n m1 m k o x s, run_safe (p_mdotm n m1 m) s x ->
  exists J, runJ (p_mdotm n m1 m) k o x s = Some J /\ runR (p_mdotm n m1 m) x s = Some (map jv J) /\
            forall q, holds k o (outR (p_mdotm n m1 m) s q) x (nth q J (jconst 0)).
Proof. exact mdotm_jets. Qed.

(* concrete sizes, every hypothesis discharged (these are also the satisfiability examples) *)
Theorem determinant_2x2 : forall k o x,
  exists J, runJ (p_det 2) k o x (all_vars 4) = Some [J] /\
            holds k o (fun y => y 0%nat * y 3%nat - y 2%nat * y 1%nat) x J.
Proof. exact det2_jets. Qed.

Theorem determinant_3x3 : forall k o x,
  exists J, runJ (p_det 3) k o x (all_vars 9) = Some [J] /\
            holds k o (fun y => 0 + y 0%nat * (y 4%nat * y 8%nat - y 7%nat * y 5%nat)
                                 - y 1%nat * (y 3%nat * y 8%nat - y 6%nat * y 5%nat)
                                 + y 2%nat * (y 3%nat * y 7%nat - y 6%nat * y 4%nat)) x J.
Proof. exact det3_jets. Qed.

Theorem back_substitution_2x2 : forall k o x, x 0%nat <> 0 -> x 3%nat <> 0 ->
  exists J, runJ (p_backsub 2) k o x (all_vars 6) = Some J /\ runR (p_backsub 2) x (all_vars 6) = Some (map jv J) /\
            forall q, holds k o (outR (p_backsub 2) (all_vars 6) q) x (nth q J (jconst 0)).
Proof. exact backsub2_jets. Qed.

Theorem back_substitution_3x3 : forall k o x, x 0%nat <> 0 -> x 4%nat <> 0 -> x 8%nat <> 0 ->
  exists J, runJ (p_backsub 3) k o x (all_vars 12) = Some J /\ runR (p_backsub 3) x (all_vars 12) = Some (map jv J) /\
            forall q, holds k o (outR (p_backsub 3) (all_vars 12) q) x (nth q J (jconst 0)).
Proof. exact backsub3_jets. Qed.

(* a routine WITH branches (error exit t < 0) and a square root, all hypotheses discharged *)
Theorem cholesky_1x1 : forall k o x, 0 < x 0%nat ->
  exists J, runJ (p_chol 1) k o x (all_vars 1) = Some [J] /\ holds k o (fun y => R_sqrt.sqrt (y 0%nat - 0)) x J.
Proof. exact chol1_jets. Qed.

Theorem cholesky_2x2 : forall k o x, chol2_dom x ->
  exists J, runJ (p_chol 2) k o x (all_vars 4) = Some J /\ runR (p_chol 2) x (all_vars 4) = Some (map jv J) /\
            forall q, holds k o (fun y => evalR y (nth q chol2_E (Cst 0))) x (nth q J (jconst 0)).
Proof. exact chol2_jets. Qed.

(* a routine with a PIVOT decision, all hypotheses discharged: matrixInverse (Gauss-Jordan) on an invertible
   2 x 2 matrix [[x0 x1] [x2 x3]] when no row exchange happens (|x2| < |x0|): the four outputs are the entries
   of the inverse and carry their partial derivatives *)
Theorem matrix_inverse_2x2_no_pivot_change : forall k o x, inv2_dom x ->
  exists J, runJ (p_inv M4.InvPlain 2) k o x (all_vars 4) = Some J /\
            runR (p_inv M4.InvPlain 2) x (all_vars 4) = Some (map jv J) /\
            (let D := x 0%nat * x 3%nat - x 1%nat * x 2%nat in
             map jv J = [x 3%nat / D; - x 1%nat / D; - x 2%nat / D; x 0%nat / D]) /\
            forall q, holds k o (outR (p_inv M4.InvPlain 2) (all_vars 4) q) x (nth q J (jconst 0)).
Proof. exact inv2_jets. Qed.
Example inv2_dom_nontrivial : inv2_dom (fun i => nth i [4; 1; 2; 3] 0).
Proof. exact inv2_dom_example. Qed.

(* the hypotheses of the general theorems are satisfiable by non-trivial instances *)
Example hyps_nontrivial_det3 : forall x, run_safe (p_det 3) (all_vars 9) x /\ stable (p_det 3) (all_vars 9) x.
Proof. intro x. split; [apply det3_safe|apply stable_det]. Qed.
Example hyps_nontrivial_cholesky : forall x, 0 < x 0%nat ->
  run_safe (prog_of_routine (RChol 1)) (all_vars 1) x /\ stable (prog_of_routine (RChol 1)) (all_vars 1) x.
Proof. intros x H. split; [apply chol1_safe|apply chol1_stable]; exact H. Qed.
Example chol2_dom_nontrivial : chol2_dom (fun i => nth i [4; 2; 2; 3] 0).
Proof. exact chol2_dom_example. Qed.

(* (3) matrix calculus over R.  d(A^-1) = - A^-1 dA A^-1, entrywise, every n: from differentiating A X = I *)
Theorem inverse_derivative : forall n (A X : nat -> nat -> R -> R) (dA dX : nat -> nat -> R) t0,
  (forall i j, (i < n)%nat -> (j < n)%nat -> is_derive (A i j) t0 (dA i j)) ->
  (forall i j, (i < n)%nat -> (j < n)%nat -> is_derive (X i j) t0 (dX i j)) ->
  locally t0 (fun t => forall i j, (i < n)%nat -> (j < n)%nat -> msum n (fun c => A i c t * X c j t) = kron i j) ->
  (forall i j, (i < n)%nat -> (j < n)%nat -> msum n (fun c => X i c t0 * A c j t0) = kron i j) ->
  forall i j, (i < n)%nat -> (j < n)%nat ->
    dX i j = - msum n (fun c => msum n (fun d => X i c t0 * dA c d * X d j t0)).
Proof. exact inverse_derivative_formula. Qed.

(* d log det A = tr(A^-1 dA) for 2 x 2: the gradient slots of log(det A) are the entries of inv(A)' *)
Theorem logdet_gradient_2x2 : forall k o x, 0 < x 0%nat * x 3%nat - x 2%nat * x 1%nat -> (4 <= k)%nat ->
  let J := evalJ k o x (ELog det2_expr) in
  let dt := x 0%nat * x 3%nat - x 2%nat * x 1%nat in
  holds k o (fun y => ln (y 0%nat * y 3%nat - y 2%nat * y 1%nat)) x J /\
  gd NumDR J 0 = x 3%nat / dt /\ gd NumDR J 1 = - x 2%nat / dt /\
  gd NumDR J 2 = - x 1%nat / dt /\ gd NumDR J 3 = x 0%nat / dt.
Proof. exact logdet2_gradient. Qed.

(* the gradient slots of the 2 x 2 determinant are the cofactors, det * inv(A)' *)
Theorem det_gradient_2x2 : forall k o x, (4 <= k)%nat ->
  let J := evalJ k o x det2_expr in
  gd NumDR J 0 = x 3%nat /\ gd NumDR J 1 = - x 2%nat /\ gd NumDR J 2 = - x 1%nat /\ gd NumDR J 3 = x 0%nat.
Proof. exact det2_gradient. Qed.

(* (4) "same values as on plain float matrices", at the level of the machine numbers: for EVERY base
   carrier with one square root - in particular binary64, bit for bit, NaN and infinities included - and
   every carrier-polymorphic program, the value part of the run on magic scalars IS the run on plain
   scalars.  (The generic Go path is this one text for both element types.) *)
Theorem magic_values_any_carrier : forall A (D : NumD A) (k o : nat) (m : prog), prog_R m m ->
  forall inp : list (jet A),
  (forall a, nsqrt (M5.nx (dx D)) a = M5.gsqrt (dx D) a) ->
  option_map (map jv) (m (jet A) (NumXJ D k o) (jlog D k o) inp) = m A (dx D) (nlog D) (map jv inp).
Proof. intros A D k o m mR inp H. exact (values_agree_any_carrier D k o m mR inp H). Qed.

Theorem magic_values_binary64 : forall (k o : nat) (m : prog), prog_R m m -> forall inp : list (jet float),
  option_map (map jv) (m (jet float) (NumXJ NumDFg k o) (jlog NumDFg k o) inp)
  = m float NumXFg (fun x => x) (map jv inp).
Proof. intros k o m mR inp. apply (values_agree_any_carrier NumDFg k o m mR inp). intro a. reflexivity. Qed.

(* fast = generic: the hand-specialised Float64 paths are mirrored by the SAME polymorphic text run on a
   carrier that differs from the generic one in the square root only (math.Sqrt vs math.Pow(x, 0.5)), and
   these agree except at -0 and -Inf; that the Go fast paths are this text is the correspondence (Corr.KV) *)
Theorem fast_generic_carriers_agree : forall x : float,
  PrimFloat.eqb x 0%float = false -> PrimFloat.eqb x neg_infinity = false ->
  M5.gsqrt M5.NumXFfast x = M5.gsqrt NumXFg x.
Proof. exact fast_generic_sqrt. Qed.

(* singular systems: "fast paths equal generic paths" holds for the OUTCOME KIND too (former known finding
   F-GJ-SINGULAR-PANIC, repaired in /repo 74e12ad: the generic path panicked where the Float64 path returned an
   error).  For every carrier, size, mask, variant (plain / upper triangular) and input the model of HEAD gives
   the same outcome - Ok with the same state, or the same error - on both paths, for gaussJordan.Run and for
   the three modes of matrixInverse.Run; on the former witness [[0]] (binary64) both return the error. *)
Theorem fast_generic_singular_outcome_agree :
  (forall A (N : Num A) (ut : bool) (n : nat) (msk : list bool) (s : M4.st),
      M4.gj_run N true ut n msk s = M4.gj_run N false ut n msk s) /\
  (forall A (N : Num A) (mode : M4.inv_mode) (n : nat) (msk : list bool) (m : list (list A)),
      M4.m_inverse N true mode n msk m = M4.m_inverse N false mode n msk m) /\
  M4.gj_run NumF true false 1 [true] (M4.mkSt [[0%float]] [[1%float]] [1%float]) = M4.ErrSingular /\
  M4.gj_run NumF false false 1 [true] (M4.mkSt [[0%float]] [[1%float]] [1%float]) = M4.ErrSingular.
Proof. exact (conj gj_outcome_path_independent (conj inverse_outcome_path_independent gj_singular_agree)). Qed.

(* (5) Jacobian / Hessian helpers: entries are the partial derivatives (for f given by expressions) *)
Theorem jacobian_entries : forall (es : list expr) (xs : list R) i j,
  let k := length xs in let x := fun q => nth q xs 0 in
  List.Forall (safe x) es -> (j < k)%nat ->
  partial (fun y => evalR y (nth i es (Cst 0))) j x
          (gd NumDR (evalJ k 1 x (nth i es (Cst 0))) j).
Proof. exact jacobian_entries_partial. Qed.

Theorem hessian_entries : forall (e : expr) (xs : list R) i j,
  let k := length xs in let x := fun q => nth q xs 0 in
  safe x e -> (i < k)%nat -> (j < k)%nat ->
  partial2 (fun y => evalR y e) i j x (gh NumDR (evalJ k 2 x e) i j) /\
  gh NumDR (evalJ k 2 x e) i j = gh NumDR (evalJ k 2 x e) j i.
Proof. exact hessian_entries_partial2. Qed.

(* (6) derivative-losing glue.  SetFloat64 clears, Set copies: *)
Theorem setfloat_clears : forall (v : R) i j, gd NumDR (jsetf v) i = 0 /\ gh NumDR (jsetf v) i j = 0.
Proof. exact jsetf_clears. Qed.
Theorem set_copies : forall (a : jet R), jset a = a.
Proof. reflexivity. Qed.
(* a GetFloat64 -> SetFloat64 round trip is, in a carrier-polymorphic program, only reachable through
   math.Max / math.Inf / Abs-inside-a-comparison; an output that is [safe] contains none of them *)
Theorem no_round_trip_on_safe_outputs : forall x e, safe x e -> lossy e = false.
Proof. exact safe_not_lossy. Qed.
(* cholesky_ldl_forcepd goes through GetFloat64/SetFloat64 by design: its pivot d_j is lossy, so the
   routine is outside the derivative theorems (excluded, as the design says) *)
Theorem forcepd_excluded : forall x bf dl a, exists E, runE (p_fpd 1) x [(None, bf); (None, dl); (Some 0%nat, a)] = Some E /\
  existsb lossy E = true.
Proof. exact fpd1_lossy. Qed.

(* ================================================================== round 2 *)

(* (7) RECYCLED InSitu BUFFERS.  For EVERY carrier the Cholesky factorisation does not depend on what the
   factor buffer InSitu.L held before (every entry it reads it wrote before in the same run; the strict upper
   triangle is overwritten with the constant 0 - the loop of seeded regression C06-4) ... *)
Theorem cholesky_factor_buffer_independent : forall (A : Type) (N : Num A) (n : nat) (Am L0 L0' : list (list A)),
  wfm n L0 -> wfm n L0' -> M4.cholesky N n Am L0 = M4.cholesky N n Am L0'.
Proof. exact @cholesky_L0_indep. Qed.

(* ... hence matrixInverse.Run (all three modes) does not depend on ANY of its four caller-supplied buffers
   (Id, A, B: C04's theorem; Cholesky.L: here), nor determinant.Run(PositiveDefinite [, LogScale]) on its one *)
Theorem matrix_inverse_all_buffers_independent :
  forall (A : Type) (N : Num A) (dense : bool) (mode : M4.inv_mode) (n : nat) (omsk : option (list bool))
         (bf : inv_bufs (A:=A)) (m : list (list A)),
    wfm n m -> wf_all_bufs n bf ->
    m_inverse_insitu N dense mode n omsk bf m = m_inverse_v2 N dense mode n omsk m.
Proof. exact @m_inverse_all_bufs_indep. Qed.

Theorem determinant_pd_buffer_independent :
  forall (A : Type) (N : Num A) (lg : A -> A) (logscale : bool) (n : nat) (bufL : option (list (list A))) (m : list (list A)),
    (forall b, bufL = Some b -> wfm n b) ->
    det_pd_insitu N lg logscale n bufL m = det_pd_insitu N lg logscale n None m.
Proof. exact @det_pd_insitu_indep. Qed.

(* ... and at the magic carrier: jet_lift for the BUFFER-TAKING routines with ARBITRARY prior buffer content.
   [bufs] is any list of jets of the right length - any values, activity flags, gradients, Hessians: whatever an
   earlier call on another matrix, at another order, with another activated subset left behind.  The outputs
   carry the value and the partial derivatives of the real function the fresh call computes (the jet analogue
   of C04's history_independence). *)
Theorem recycled_buffers_cholesky : forall n k o x s (bufs : list (jet R)),
  length bufs = (n * n)%nat -> (n * n <= length s)%nat ->
  run_safe (p_chol4_fresh n) s x -> stable (p_chol4_fresh n) s x ->
  exists J, runJbuf (p_chol4_buf n) k o x bufs s = Some J /\ runR (p_chol4_fresh n) x s = Some (map jv J) /\
            forall q, holds k o (outR (p_chol4_fresh n) s q) x (nth q J (jconst 0)).
Proof. exact chol_recycled_jets. Qed.

Theorem recycled_buffers_determinant_pd : forall logscale n k o x s (bufs : list (jet R)),
  length bufs = (n * n)%nat -> run_safe (p_detpd_fresh logscale n) s x -> stable (p_detpd_fresh logscale n) s x ->
  exists J, runJbuf (p_detpd_buf logscale n) k o x bufs s = Some J /\ runR (p_detpd_fresh logscale n) x s = Some (map jv J) /\
            forall q, holds k o (outR (p_detpd_fresh logscale n) s q) x (nth q J (jconst 0)).
Proof. exact detpd_recycled_jets. Qed.

Theorem recycled_buffers_matrix_inverse : forall mode n k o x s (bId bA bL bB : list (jet R)),
  length bId = (n * n)%nat -> length bA = (n * n)%nat -> length bL = (n * n)%nat -> length bB = n -> (n * n <= length s)%nat ->
  run_safe (p_inv_fresh mode n) s x -> stable (p_inv_fresh mode n) s x ->
  exists J, runJbuf (p_inv_buf mode n) k o x (bId ++ bA ++ bL ++ bB) s = Some J /\
            runR (p_inv_fresh mode n) x s = Some (map jv J) /\
            forall q, holds k o (outR (p_inv_fresh mode n) s q) x (nth q J (jconst 0)).
Proof. exact inv_recycled_jets. Qed.

Theorem recycled_buffers_back_substitution : forall n k o x s (bufA x0 : list (jet R)),
  length bufA = (n * n)%nat -> length x0 = n -> (n * n <= length s)%nat -> run_safe (p_backsub_fresh n) s x ->
  exists J, runJbuf (p_backsub_buf n) k o x (bufA ++ x0) s = Some J /\
            runR (p_backsub_fresh n) x s = Some (map jv J) /\
            forall q, holds k o (outR (p_backsub_fresh n) s q) x (nth q J (jconst 0)).
Proof. exact backsub_recycled_jets. Qed.

(* satisfiable: the 1 x 1 factorisation into a buffer holding ANY jet b *)
Example recycled_buffers_nontrivial : forall k o x (b : jet R), 0 < x 0%nat ->
  exists J, runJbuf (p_chol4_buf 1) k o x [b] [(Some 0%nat, 0)] = Some J /\
            forall q, holds k o (outR (p_chol4_fresh 1) [(Some 0%nat, 0)] q) x (nth q J (jconst 0)).
Proof. exact chol_recycled_1x1. Qed.

(* (8) the 32 bit element types.  Real32 stores every slot rounded to binary32 (jets [NumXJS .. r32]); its VALUES
   are those of the plain carrier whose every operation is rounded once (Float32 semantics) - for every base
   carrier, rounding function and program *)
Theorem magic_values_store_rounded : forall A (D : NumD A) (st : A -> A) (k o : nat) (m : prog), prog_R m m ->
  forall inp : list (jet A),
  option_map (map jv) (m (jet A) (NumXJS D st k o) (jlogS D st k o) inp)
  = m A (NumXS D st (M5.gsqrt (dx D))) (fun a => st (nlog D a)) (map jv inp).
Proof. intros A D st k o m mR inp. exact (values_agree_store_rounded D st k o m mR inp). Qed.

Theorem magic_values_binary32 : forall (k o : nat) (m : prog), prog_R m m -> forall inp : list (jet float),
  option_map (map jv) (m (jet float) (NumXJS NumDFg r32 k o) (jlogS NumDFg r32 k o) inp)
  = m float NumXF32gen (fun a => r32 a) (map jv inp).
Proof. intros k o m mR inp. exact (values_agree_store_rounded NumDFg r32 k o m mR inp). Qed.

(* (9) matrix calculus, GENERAL n.  The partial derivative of the determinant the library computes with respect
   to entry (i,j) is the cofactor (C04's determinant_linear_in_every_row at the reals) ... *)
Theorem determinant_partial_is_cofactor : forall n i j x, (i < n)%nat -> (j < n)%nat ->
  partial (outR (p_det n) (all_vars (n * n)) 0) (i * n + j) x (Cof n (Mx n x) i j).
Proof. exact det_partial_is_cofactor_program. Qed.

Theorem cofactor_expansion_general_n : forall n (M : nat -> nat -> R) k i, (k < n)%nat -> (i < n)%nat ->
  msum n (fun j => M k j * Cof n M i j) = if Nat.eqb k i then Det n M else 0.
Proof. exact cofactor_expansion. Qed.

(* ... d log det A = tr(A^-1 dA): the gradient of log det is inv(A) transposed, for ANY left inverse X ... *)
Theorem logdet_gradient_general_n : forall n x (X : nat -> nat -> R),
  0 < outR (p_det n) (all_vars (n * n)) 0 x ->
  (forall i j, (i < n)%nat -> (j < n)%nat -> msum n (fun c => X i c * x (c * n + j)%nat) = kron i j) ->
  forall i j, (i < n)%nat -> (j < n)%nat ->
    partial (fun y => ln (outR (p_det n) (all_vars (n * n)) 0 y)) (i * n + j) x (X j i).
Proof. exact logdet_derivative_general_n_program. Qed.

(* ... along any differentiable curve of matrices (Jacobi's formula, and its log form as a trace) *)
Theorem jacobi_formula_general_n : forall n (M : nat -> nat -> R -> R) (dM : nat -> nat -> R) t0,
  (forall i j, (i < n)%nat -> (j < n)%nat -> is_derive (M i j) t0 (dM i j)) ->
  is_derive (fun t => Det n (fun r c => M r c t)) t0
            (msum n (fun i => msum n (fun j => dM i j * Cof n (fun r c => M r c t0) i j))).
Proof. exact jacobi_formula. Qed.

Theorem logdet_differential_is_trace_general_n : forall n M dM (X : nat -> nat -> R) t0,
  (forall i j, (i < n)%nat -> (j < n)%nat -> is_derive (M i j) t0 (dM i j)) ->
  0 < Det n (fun r c => M r c t0) ->
  (forall i j, (i < n)%nat -> (j < n)%nat -> msum n (fun c => X i c * M c j t0) = kron i j) ->
  is_derive (fun t => ln (Det n (fun r c => M r c t))) t0 (msum n (fun j => msum n (fun i => X j i * dM i j))).
Proof. exact logdet_differential_is_trace_curve. Qed.

(* ... the gradient slots the library computes for the determinant ARE the cofactors, every n, no hypothesis *)
Theorem determinant_gradient_slots_are_cofactors : forall n k o x, (n * n <= k)%nat -> (1 <= o)%nat ->
  exists J, runJ (p_det n) k o x (all_vars (n * n)) = Some [J] /\ jv J = detF n x /\
            forall i j, (i < n)%nat -> (j < n)%nat -> gd NumDR J (i * n + j) = Cof n (Mx n x) i j.
Proof. exact det_gradient_slots_are_cofactors. Qed.

Theorem determinant_derivatives_all_n_no_hypothesis : forall n k o x s,
  exists J, runJ (p_det n) k o x s = Some [J] /\ holds k o (outR (p_det n) s 0) x J.
Proof. exact determinant_derivatives_unconditional. Qed.

(* the second-order identity for the inverse: X'' = (X A' X) A' X + X A' (X A' X) for A'' = 0, every n *)
Theorem inverse_second_derivative : forall n (A X dX : nat -> nat -> R -> R) (dA ddX : nat -> nat -> R) t0,
  locally t0 (fun t => forall i j, (i < n)%nat -> (j < n)%nat -> is_derive (A i j) t (dA i j)) ->
  locally t0 (fun t => forall i j, (i < n)%nat -> (j < n)%nat -> is_derive (X i j) t (dX i j t)) ->
  (forall i j, (i < n)%nat -> (j < n)%nat -> is_derive (dX i j) t0 (ddX i j)) ->
  locally t0 (fun t => forall i j, (i < n)%nat -> (j < n)%nat -> msum n (fun c => A i c t * X c j t) = kron i j) ->
  locally t0 (fun t => forall i j, (i < n)%nat -> (j < n)%nat -> msum n (fun c => X i c t * A c j t) = kron i j) ->
  let P := fun i j => msum n (fun c => msum n (fun d => X i c t0 * dA c d * X d j t0)) in
  forall i j, (i < n)%nat -> (j < n)%nat ->
    ddX i j = msum n (fun c => msum n (fun d => P i c * dA c d * X d j t0))
            + msum n (fun c => msum n (fun d => X i c t0 * dA c d * P d j)).
Proof. exact inverse_second_derivative_formula. Qed.

(* (10) more routines with EVERY hypothesis discharged (run_safe and stable proved on an explicit open domain;
   openness from the continuity of the symbolic pivots, ProofsOpen.v).  The 3 x 3 inverse with its pivot search:
   no row exchange, and exactly one exchange at the first step; the pivot order is fixed by strict inequalities *)
Theorem matrix_inverse_3x3_no_row_exchange : forall k o x, inv3_dom_ne x ->
  exists J, runJ (p_inv M4.InvPlain 3) k o x (all_vars 9) = Some J /\
            runR (p_inv M4.InvPlain 3) x (all_vars 9) = Some (map jv J) /\
            J = map (evalJ k o x) inv3_E_ne /\
            (forall q, holds k o (outR (p_inv M4.InvPlain 3) (all_vars 9) q) x (nth q J (jconst 0))) /\
            (forall q, holds k o (fun y => evalR y (nth q inv3_E_ne (Cst 0))) x (nth q J (jconst 0))).
Proof. exact inv3_jets_no_exchange. Qed.
Example inv3_no_exchange_nontrivial : inv3_dom_ne (fun i => nth i [4; 1; 2; 1; 3; 0; 2; 1; 5] 0).
Proof. exact inv3_dom_ne_example. Qed.

Theorem matrix_inverse_3x3_one_row_exchange : forall k o x, inv3_dom_ex x ->
  exists J, runJ (p_inv M4.InvPlain 3) k o x (all_vars 9) = Some J /\
            runR (p_inv M4.InvPlain 3) x (all_vars 9) = Some (map jv J) /\
            J = map (evalJ k o x) inv3_E_ex /\
            (forall q, holds k o (outR (p_inv M4.InvPlain 3) (all_vars 9) q) x (nth q J (jconst 0))) /\
            (forall q, holds k o (fun y => evalR y (nth q inv3_E_ex (Cst 0))) x (nth q J (jconst 0))).
Proof. exact inv3_jets_one_exchange. Qed.
Example inv3_one_exchange_nontrivial : inv3_dom_ex (fun i => nth i [1; 3; 0; 4; 1; 2; 2; 1; 5] 0).
Proof. exact inv3_dom_ex_example. Qed.

(* LDL, 2 x 2 and 3 x 3, on the domain where the leading principal minors are positive *)
Theorem ldl_2x2 : forall k o x, ldl2_dom x ->
  exists J, runJ (p_ldl 2) k o x (all_vars 4) = Some J /\
            runR (p_ldl 2) x (all_vars 4) = Some (map jv J) /\
            map jv J = [1; 0; x 2%nat / x 0%nat; 1;   x 0%nat; 0; 0; (x 0%nat * x 3%nat - x 2%nat * x 2%nat) / x 0%nat] /\
            (forall q, holds k o (outR (p_ldl 2) (all_vars 4) q) x (nth q J (jconst 0))) /\
            (forall q, holds k o (fun y => evalR y (nth q ldl2_E (Cst 0))) x (nth q J (jconst 0))).
Proof. exact ldl2_jets. Qed.
Theorem ldl_3x3 : forall k o x, ldl3_dom x ->
  exists J, runJ (p_ldl 3) k o x (all_vars 9) = Some J /\
            runR (p_ldl 3) x (all_vars 9) = Some (map jv J) /\
            J = map (evalJ k o x) ldl3_E /\
            (forall q, holds k o (outR (p_ldl 3) (all_vars 9) q) x (nth q J (jconst 0))) /\
            (forall q, holds k o (fun y => evalR y (nth q ldl3_E (Cst 0))) x (nth q J (jconst 0))).
Proof. exact ldl3_jets. Qed.
Example ldl_domains_nontrivial : ldl2_dom (fun i => nth i [4; 7; 2; 3] 0) /\ ldl3_dom (fun i => nth i [4; 9; 9; 2; 5; 9; 2; 3; 6] 0).
Proof. exact (conj ldl2_dom_example ldl3_dom_example). Qed.

(* Gram-Schmidt has no data-dependent branch: no stability hypothesis, all sizes; 2 x 2 fully discharged on the
   domain where the columns are independent *)
Theorem gram_schmidt_derivatives : forall n m k o x s, run_safe (p_gs n m) s x ->
  exists J, runJ (p_gs n m) k o x s = Some J /\ runR (p_gs n m) x s = Some (map jv J) /\
            forall q, holds k o (outR (p_gs n m) s q) x (nth q J (jconst 0)).
Proof. exact gs_jets. Qed.
Theorem gram_schmidt_2x2 : forall k o x, gs2_dom x ->
  exists J, runJ (p_gs 2 2) k o x (all_vars 4) = Some J /\
            runR (p_gs 2 2) x (all_vars 4) = Some (map jv J) /\
            J = map (evalJ k o x) gs2_E /\
            (forall q, holds k o (outR (p_gs 2 2) (all_vars 4) q) x (nth q J (jconst 0))) /\
            (forall q, holds k o (fun y => evalR y (nth q gs2_E (Cst 0))) x (nth q J (jconst 0))).
Proof. exact gs2_jets. Qed.
Example gs2_dom_nontrivial : gs2_dom (fun i => nth i [3; 1; 4; 2] 0).
Proof. exact gs2_dom_example. Qed.

(* log det for general n from the determinant's theorem + positivity: the jet the library computes for
   Log(determinant) carries value, gradient and Hessian of  y |-> ln (det y) *)
Theorem logdet_jets_general_n : forall n s k o x, 0 < outR (p_det n) s 0 x ->
  holds k o (fun y => ln (outR (p_det n) s 0 y)) x (evalJ k o x (ELog (ProofsDetN.det_E n s x))).
Proof. exact ProofsDetN.logdet_jets_general_n_out. Qed.

(* (10) round 5: type dispatch under option combinations.
   [chol_dispatch] / [gj_dispatch] are the type dispatches of cholesky.Run / gaussJordan.Run in source order;
   [src_table] is the table of (option flags, concrete-type assertions, callee) rows that harness/c06/dispatch.go
   extracts from the Go source with go/ast on every run (Corr.KDisp compares them).
   (a) the table, read first-match, IS the dispatch function, for every option set and every combination of
       concrete types the assertions can see (Float32 / Float64 / anything else, per asserted expression) *)
Theorem source_table_is_cholesky_dispatch : forall ldl fpd tA tL tD tS tT,
  interp (chol_flags ldl fpd) (chol_tys tA tL tD tS tT) (src_table 0) = Some (kern_name (chol_dispatch ldl fpd tA tL tD tS tT)).
Proof. exact src_table_is_chol_dispatch. Qed.
Theorem source_table_is_gauss_jordan_dispatch : forall ut ta tb tx,
  interp (gj_flags ut) (gj_tys ta tb tx) (src_table 1) = Some (kern_name (gj_dispatch ut ta tb tx)).
Proof. exact src_table_is_gj_dispatch. Qed.
(* (b) whatever the types, the kernel reached computes the program of the OPTION SET (LDL x ForcePD; UpperTriangular):
       the type dispatch selects a copy, never another algorithm; the Float64 copy runs iff every assertion holds *)
Theorem dispatch_respects_options_cholesky : forall ldl fpd tA tL tD tS tT n,
  kern_prog (chol_dispatch ldl fpd tA tL tD tS tT) n = chol_prog ldl fpd n.
Proof. exact chol_kernel_program. Qed.
Theorem dispatch_respects_options_gauss_jordan : forall ut ta tb tx n,
  kern_prog (gj_dispatch ut ta tb tx) n = p_gj ut n.
Proof. exact gj_kernel_program. Qed.
Theorem cholesky_specialised_iff_all_assertions : forall ldl fpd tA tL tD tS tT,
  snd (chol_dispatch ldl fpd tA tL tD tS tT) = IF64 <->
  (tA = CF64 /\ tL = CF64 /\ tS = CF64 /\ tT = CF64 /\ (ldl = true -> tD = CF64)).
Proof. exact chol_fast64_iff. Qed.
(* (c) per row pair of one option set: ANY row on magic scalars (k activated entries, order ord) returns the
       factors AND the error status of ANY row on plain scalars - every carrier with one square root, every
       input (not positive definite with ForcePD, singular, NaN ... included) *)
Theorem cholesky_rows_agree : forall A (D : NumD A) (k ord : nat),
  (forall a, nsqrt (M5.nx (dx D)) a = M5.gsqrt (dx D) a) ->
  forall ldl fpd tA tL tD tS tT tA' tL' tD' tS' tT' n (inp : list (jet A)),
  option_map (map jv) (kern_prog (chol_dispatch ldl fpd tA tL tD tS tT) n (jet A) (NumXJ D k ord) (jlog D k ord) inp)
  = kern_prog (chol_dispatch ldl fpd tA' tL' tD' tS' tT') n A (dx D) (nlog D) (map jv inp).
Proof. exact (@chol_rows_agree). Qed.
Theorem gauss_jordan_rows_agree : forall A (D : NumD A) (k ord : nat),
  (forall a, nsqrt (M5.nx (dx D)) a = M5.gsqrt (dx D) a) ->
  forall ut ta tb tx ta' tb' tx' n (inp : list (jet A)),
  option_map (map jv) (kern_prog (gj_dispatch ut ta tb tx) n (jet A) (NumXJ D k ord) (jlog D k ord) inp)
  = kern_prog (gj_dispatch ut ta' tb' tx') n A (dx D) (nlog D) (map jv inp).
Proof. exact (@gj_rows_agree). Qed.
(* every option set of cholesky.Run (LDL x ForcePD), gaussJordan.Run (UpperTriangular x Submatrix),
   matrixInverse.Run (PositiveDefinite x UpperTriangular x Submatrix) and determinant.Run (PositiveDefinite) *)
Theorem every_option_set_magic_equals_plain : forall A (D : NumD A) (k ord : nat),
  (forall a, nsqrt (M5.nx (dx D)) a = M5.gsqrt (dx D) a) ->
  forall (r o : nat) (d : list nat) (inp : list (jet A)),
  option_map (map jv) (opt_prog r o d (jet A) (NumXJ D k ord) (jlog D k ord) inp)
  = opt_prog r o d A (dx D) (nlog D) (map jv inp).
Proof. exact (@option_set_values). Qed.
(* satisfiable and non-trivial: ForcePD on the indefinite [[0,1],[1,0]] over binary64 returns factors (LDL alone
   reports "not positive definite"), the same through the magic carrier *)
Example force_pd_indefinite_binary64 :
  chol_prog true false 2 float NumXFg (fun x => x) [0; 1; 1; 0]%float = None /\
  (exists l, chol_prog true true 2 float NumXFg (fun x => x) [0x1p-67; 0x1p-67; 0; 1; 1; 0]%float = Some l) /\
  option_map (map jv) (chol_prog true true 2 (jet float) (NumXJ NumDFg 1 1) (jlog NumDFg 1 1)
                         (map jconst [0x1p-67; 0x1p-67; 0; 1; 1; 0]%float))
  = chol_prog true true 2 float NumXFg (fun x => x) [0x1p-67; 0x1p-67; 0; 1; 1; 0]%float.
Proof. exact force_pd_example. Qed.

(* (11) round 5: recycled FACTOR buffers of the LDL kernels.  [ldl_buf] / [fpd_buf] are cholesky_ldl /
   cholesky_ldl_forcepd as matrix-state machines over explicit buffers L0 (InSitu.L) and D0 (InSitu.D), every write
   of the Go text an mset (tied: Corr.KO replays them on every LDL / ForcePD row).  For EVERY carrier - the jet
   carrier included: value, activity, gradient and Hessian of every buffer entry - and every input, the factors
   and the error status do not depend on what the buffers held (an earlier, different factor; its strictly upper
   triangle; a dense inverse; garbage) *)
Theorem ldl_factor_buffers_do_not_leak : forall A (X : M5.NumX A) n (Am L0 D0 L0' D0' : list (list A)),
  wfm n L0 -> wfm n L0' -> wfm n D0 -> wfm n D0' -> ldl_buf X n Am L0 D0 = ldl_buf X n Am L0' D0'.
Proof. exact (@ldl_buf_indep). Qed.
Theorem force_pd_factor_buffers_do_not_leak : forall A (X : M5.NumX A) n (Am : list (list A)) bfloor delta (L0 D0 L0' D0' : list (list A)),
  wfm n L0 -> wfm n L0' -> wfm n D0 -> wfm n D0' ->
  fpd_buf X n Am bfloor delta L0 D0 = fpd_buf X n Am bfloor delta L0' D0'.
Proof. exact (@fpd_buf_indep). Qed.
Theorem ldl_recycled_equals_fresh : forall A (X : M5.NumX A) (lg : A -> A) n (bL bD data : list A),
  length bL = (n * n)%nat -> length bD = (n * n)%nat ->
  p_ldl_buf n A X lg (bL ++ bD ++ data) = p_ldl_fresh n A X lg data /\
  p_fpd_buf n A X lg (bL ++ bD ++ data) = p_fpd_fresh n A X lg data.
Proof. intros A X lg n bL bD data HL HD. exact (conj (ldl_prog_buf_indep X lg n bL bD data HL HD) (fpd_prog_buf_indep X lg n bL bD data HL HD)). Qed.
(* hence on magic scalars: the recycled run (arbitrary jets in both factor buffers) returns the values and the error
   status of the fresh run on plain scalars *)
Theorem ldl_recycled_magic_equals_fresh_plain : forall A (D : NumD A) (k ord n : nat) (bL bD data : list (jet A)),
  (forall a, nsqrt (M5.nx (dx D)) a = M5.gsqrt (dx D) a) ->
  length bL = (n * n)%nat -> length bD = (n * n)%nat ->
  option_map (map jv) (p_ldl_buf n (jet A) (NumXJ D k ord) (jlog D k ord) (bL ++ bD ++ data))
    = p_ldl_fresh n A (dx D) (nlog D) (map jv data) /\
  option_map (map jv) (p_fpd_buf n (jet A) (NumXJ D k ord) (jlog D k ord) (bL ++ bD ++ data))
    = p_fpd_fresh n A (dx D) (nlog D) (map jv data).
Proof. exact (@ldl_recycled_magic). Qed.

(* ================================================================== round 6 *)

(* (12) the Jacobian / Hessian helpers AS THE TEXT OF THE SOURCE.  [src_helper which sparse] is the statement list
   that harness/c06/helpsrc.go translates from the bodies of (r *DenseReal64Matrix) / (r *SparseReal64Matrix)
   Jacobian / Hessian with go/ast on every run (Corr.KHSrc compares; the 32 copies for the other element types must
   be that text up to the constructor name); [runR_helper f which sparse rn rm r0 x_] interprets it (ModelHelp.hexec)
   on a receiver of rn x rm entries r0 and the caller's vector x_ (value, N, Order, gradient, Hessian per entry), the
   supplied function f running on the library's magic scalars.
   (a) the dense Jacobian helper returns the matrix of first partial derivatives of the supplied function - for EVERY
       prior content r0 of the receiver (every entry is written) and EVERY caller's vector: plain, or already
       activated in any way, over any number of variables, at any order, with any gradient / Hessian slots (only its
       VALUES matter; former known finding F-C06-HELPER-PREACTIVATED, repaired in /repo 8241a1e) - and hands the
       caller's vector back untouched *)
Theorem jacobian_helper_returns_first_partials : forall (ts : list texpr) (x_ : list (msc R)) (r0 : list (list R)),
  let k := length x_ in let x := fun q => nth q (map mv x_) 0 in
  forallb (scoped k) ts = true -> List.Forall (safe x) (map to_expr ts) ->
  exists M, runR_helper (vf_of ts) 0 false (length ts) k r0 x_ = HOk M x_ /\
    length M = length ts /\
    forall i j, (i < length ts)%nat -> (j < k)%nat ->
      partial (fun y => evalR y (to_expr (nth i ts (TCst 0)))) j x (nth j (nth i M []) 0).
Proof. exact jacobian_helper_partials. Qed.

(* (b) the dense Hessian helper returns the (symmetric) matrix of second partial derivatives, same generality *)
Theorem hessian_helper_returns_second_partials : forall (t : texpr) (x_ : list (msc R)) (r0 : list (list R)),
  let k := length x_ in let x := fun q => nth q (map mv x_) 0 in
  scoped k t = true -> safe x (to_expr t) ->
  exists M, runR_helper (vf_of [t]) 1 false k k r0 x_ = HOk M x_ /\
    length M = k /\
    forall i j, (i < k)%nat -> (j < k)%nat ->
      partial2 (fun y => evalR y (to_expr t)) i j x (nth j (nth i M []) 0) /\
      nth j (nth i M []) 0 = nth i (nth j M []) 0.
Proof. exact hessian_helper_partials. Qed.

(* the function the partial derivatives are taken of IS the supplied function run on plain reals *)
Theorem helper_function_on_reals : forall (xs : list R) (t : texpr),
  teval M5.NumXR ln xs t = evalR (fun q => nth q xs 0) (to_expr t).
Proof. exact teval_R. Qed.

(* (c) frame: the result is a closed expression of the point alone - not of the receiver's content, not of the
   derivative state of the caller's vector *)
Theorem jacobian_helper_result_closed_form : forall (ts : list texpr) (x_ : list (msc R)) (r0 : list (list R)),
  forallb (scoped (length x_)) ts = true ->
  runR_helper (vf_of ts) 0 false (length ts) (length x_) r0 x_ = HOk (jac_matrix ts (map mv x_)) x_.
Proof. exact jac_dense_run. Qed.
Theorem hessian_helper_result_closed_form : forall (t : texpr) (x_ : list (msc R)) (r0 : list (list R)),
  scoped (length x_) t = true ->
  runR_helper (vf_of [t]) 1 false (length x_) (length x_) r0 x_ = HOk (hes_matrix t (map mv x_)) x_.
Proof. exact hes_dense_run. Qed.
(* the clone after Variables(o) is the vector of fresh variables at the caller's VALUES, for every carrier *)
Theorem helper_clone_forgets_callers_derivatives : forall A (D : NumD A) (k o : nat) (l : list nat) (x_ : list (msc A)),
  map (fun p => set_variable D (fst p) k o (snd p)) (combine l x_)
  = map (fun p => jvar D k o (fst p) (snd p)) (combine l (map mv x_)).
Proof. exact (@clone_vars). Qed.

(* (d) dense receivers of the wrong dimensions are rejected (every supplied function, every vector) *)
Theorem jacobian_helper_rejects_wrong_dimensions : forall (f : vfun) (x_ : list (msc R)) (rn rm : nat) (r0 : list (list R)),
  (rm <> length x_ \/
   rn <> length (f (jet R) (NumXJ NumDR (length x_) 1) (jlog NumDR (length x_) 1)
                   (map (fun p => set_variable NumDR (fst p) (length x_) 1 (snd p)) (combine (seq 0 (length x_)) x_)))) ->
  runR_helper f 0 false rn rm r0 x_ = HPanic.
Proof. exact jac_dense_mismatch. Qed.
Theorem hessian_helper_rejects_wrong_dimensions : forall (f : vfun) (x_ : list (msc R)) (rn rm : nat) (r0 : list (list R)),
  (rn <> length x_ \/ rn <> rm) -> runR_helper f 1 false rn rm r0 x_ = HPanic.
Proof. exact hes_dense_mismatch. Qed.

(* (e) the sparse copies: for EVERY receiver - any dimensions (wrong ones are replaced), any content (a recycled result
   matrix of matching dimensions is Reset: former known finding F-C06-SPARSE-HELPER-STALE, repaired in /repo 9a15545) -
   they return the matrix of partial derivatives ... *)
Theorem sparse_jacobian_helper_every_receiver : forall (ts : list texpr) (x_ : list (msc R)) (rn rm : nat) (r0 : list (list R)),
  forallb (scoped (length x_)) ts = true ->
  runR_helper (vf_of ts) 0 true rn rm r0 x_ = HOk (jac_matrix ts (map mv x_)) x_.
Proof. exact jac_sparse_run. Qed.
Theorem sparse_hessian_helper_every_receiver : forall (t : texpr) (x_ : list (msc R)) (rn rm : nat) (r0 : list (list R)),
  scoped (length x_) t = true ->
  runR_helper (vf_of [t]) 1 true rn rm r0 x_ = HOk (hes_matrix t (map mv x_)) x_.
Proof. exact hes_sparse_run. Qed.
(* ... i.e. what the dense copies return, whatever either receiver held *)
Theorem sparse_helpers_equal_dense_helpers : forall (ts : list texpr) (t : texpr) (x_ : list (msc R)) (r0 r0' : list (list R)),
  forallb (scoped (length x_)) ts = true -> scoped (length x_) t = true ->
  runR_helper (vf_of ts) 0 true (length ts) (length x_) r0 x_ = runR_helper (vf_of ts) 0 false (length ts) (length x_) r0' x_ /\
  runR_helper (vf_of [t]) 1 true (length x_) (length x_) r0 x_ = runR_helper (vf_of [t]) 1 false (length x_) (length x_) r0' x_.
Proof. exact sparse_equals_dense. Qed.

(* the hypotheses are satisfiable by a non-trivial instance: f = (x0 x1, x0 / x1) at the point (2, 3), the caller's
   vector already activated over 2 variables at order 1 and carrying the gradient of an earlier computation *)
Example helper_hypotheses_nontrivial :
  let x_ := [mkMs 2 2 1 [3; 2] []; mkMs 3 2 1 [0; 1] []] in let x := fun q => nth q (map mv x_) 0 in
  forallb (scoped 2) [TMul (TVar 0) (TVar 1); TDiv (TVar 0) (TVar 1)] = true /\
  List.Forall (safe x) (map to_expr [TMul (TVar 0) (TVar 1); TDiv (TVar 0) (TVar 1)]).
Proof. exact helper_example_hyps. Qed.

(* (f) the two former refutation witnesses, now regression examples (binary64 run of the model of HEAD): the Jacobian
   of x0 + x1 at (6, 5) is [1 1] also when x0 carries the gradient (3, 2) over 2 variables at order 1; the Jacobian of
   x0^2 at (6, 5) into a 1 x 2 sparse receiver that held (0, 7) is (12, 0), as for the dense copy *)
Example jacobian_helper_preactivated_vector_binary64 :
  runF_helper (vf_of [TAdd (TVar 0) (TVar 1)]) 0 false 1 2 [[0; 0]]%float [ms_plain 6%float; ms_plain 5%float]
    = HOk [[1; 1]]%float [ms_plain 6%float; ms_plain 5%float] /\
  runF_helper (vf_of [TAdd (TVar 0) (TVar 1)]) 0 false 1 2 [[0; 0]]%float
              [mkMs 6%float 2 1 [3; 2]%float []; mkMs 5%float 2 1 [0; 1]%float []]
    = HOk [[1; 1]]%float [mkMs 6%float 2 1 [3; 2]%float []; mkMs 5%float 2 1 [0; 1]%float []].
Proof. exact jacobian_preactivated_witness. Qed.
Example sparse_helper_recycled_receiver_binary64 :
  runF_helper (vf_of [TMul (TVar 0) (TVar 0)]) 0 true 1 2 [[0; 7]]%float [ms_plain 6%float; ms_plain 5%float]
    = HOk [[12; 0]]%float [ms_plain 6%float; ms_plain 5%float] /\
  runF_helper (vf_of [TMul (TVar 0) (TVar 0)]) 0 false 1 2 [[0; 7]]%float [ms_plain 6%float; ms_plain 5%float]
    = HOk [[12; 0]]%float [ms_plain 6%float; ms_plain 5%float].
Proof. exact sparse_recycled_witness. Qed.

(* ---- round 7: dense products on VIEWS of backing arrays (ModelView.v: DenseReal64Matrix.index / SLICE / MagicT /
   storageLocation and the two loops of MdotM / MDOTM written against ONE memory, in the order of the Go loops).
   Every carrier (reals, binary64, jets: the entries are magic scalars with their derivatives). *)
Close Scope R_scope.
Open Scope nat_scope.

(* (g1) a transposed view reads the transposed entries; a slice reads the shifted entries *)
Theorem view_transpose_index : forall v i j, vidx (vT v) i j = vidx v j i.
Proof. exact vidx_T. Qed.
Theorem view_slice_index : forall v rf rt cf ct i j, vidx (vslice v rf rt cf ct) i j = vidx v (rf + i) (cf + j).
Proof. exact vidx_slice. Qed.

(* (g2) the accumulation of the memory model is the entry of the pure product p_mdotm is about
   (matrix_product_derivatives), taken of the operand views read as matrices - transposed / sliced or not *)
Theorem view_product_entry : forall {A} (N : Num A) (S : list A) (va vb : view) i j,
  vrows vb = vcols va -> i < vrows va -> j < vcols vb ->
  nth j (nth i (mdotm N (vcols va) (vcols vb) (vread N S va) (vread N S vb)) []) (zero N) = vdot N S va vb (vcols va) i j.
Proof. exact @vdot_pure. Qed.

(* (g3) the buffered loop (result and right operand in the SAME array, storageLocation equal): if the left operand
   does not meet the receiver and no entry of column j of the right operand is a receiver cell of an earlier column
   (the same view; slices of one array at different ROW offsets, overlapping or not; ...), the receiver view holds
   the product of the operands AS THEY WERE BEFORE THE CALL and no other cell of the memory changes *)
Theorem mdotm_views_same_array : forall {A} (N : Num A) (S : list A) (va vb vr : view),
  let n := vrows vr in let m := vcols vr in let m1 := vcols va in
  vrows va = n -> vcols vb = m -> vrows vb = m1 -> vbase vr = vbase vb ->
  (forall i j, i < n -> j < m -> vidx vr i j < length S) ->
  (forall i j i' j', i < n -> j < m -> i' < n -> j' < m -> vidx vr i j = vidx vr i' j' -> i = i' /\ j = j') ->
  (forall i k i' j', i < n -> k < m1 -> i' < n -> j' < m -> vidx va i k <> vidx vr i' j') ->
  (forall k j i' j', k < m1 -> j < m -> i' < n -> j' < j -> vidx vb k j <> vidx vr i' j') ->
  exists S', mdotm_store N S va vb vr = Some S' /\ length S' = length S /\
    (forall i j, i < n -> j < m -> sget N S' vr i j = vdot N S va vb m1 i j) /\
    (forall p, (forall i j, i < n -> j < m -> vidx vr i j <> p) -> nth p S' (zero N) = nth p S (zero N)).
Proof. exact @mdotm_store_buffered. Qed.

(* (g4) the row loop (different arrays): the right operand does not meet the receiver, row i of the left operand is
   not a receiver cell of an earlier row (r = a, the same view, included) *)
Theorem mdotm_views_other_array : forall {A} (N : Num A) (S : list A) (va vb vr : view),
  let n := vrows vr in let m := vcols vr in let m1 := vcols va in
  vrows va = n -> vcols vb = m -> vrows vb = m1 -> vbase vr <> vbase vb ->
  (forall i j, i < n -> j < m -> vidx vr i j < length S) ->
  (forall i j i' j', i < n -> j < m -> i' < n -> j' < m -> vidx vr i j = vidx vr i' j' -> i = i' /\ j = j') ->
  (forall i k i' j', i < n -> k < m1 -> i' < i -> j' < m -> vidx va i k <> vidx vr i' j') ->
  (forall k j i' j', k < m1 -> j < m -> i' < n -> j' < m -> vidx vb k j <> vidx vr i' j') ->
  exists S', mdotm_store N S va vb vr = Some S' /\ length S' = length S /\
    (forall i j, i < n -> j < m -> sget N S' vr i j = vdot N S va vb m1 i j) /\
    (forall p, (forall i j, i < n -> j < m -> vidx vr i j <> p) -> nth p S' (zero N) = nth p S (zero N)).
Proof. exact @mdotm_store_rows. Qed.

(* (g5) r.MdotM(a, r): result and right operand the same view *)
Theorem mdotm_views_inplace_right : forall {A} (N : Num A) (S : list A) (va vr : view),
  let n := vrows vr in let m := vcols vr in
  vrows va = n -> vcols va = n ->
  (forall i j, i < n -> j < m -> vidx vr i j < length S) ->
  (forall i j i' j', i < n -> j < m -> i' < n -> j' < m -> vidx vr i j = vidx vr i' j' -> i = i' /\ j = j') ->
  (forall i k i' j', i < n -> k < n -> i' < n -> j' < m -> vidx va i k <> vidx vr i' j') ->
  exists S', mdotm_store N S va vr vr = Some S' /\ length S' = length S /\
    (forall i j, i < n -> j < m -> sget N S' vr i j = vdot N S va vr n i j) /\
    (forall p, (forall i j, i < n -> j < m -> vidx vr i j <> p) -> nth p S' (zero N) = nth p S (zero N)).
Proof. exact @mdotm_store_inplace_right. Qed.

(* non-vacuity of (g3): receiver = rows 1..2, right operand = rows 0..1 of one 4 x 2 array (overlapping in row 1),
   left operand a transposed view of another array: the buffered loop leaves the product (the row loop would not) *)
Example mdotm_views_overlap_example :
  let S := [1; 2; 3; 4; 5; 6; 7; 8; 1; 0; 2; 1; 0; 3]%Z in
  let va := mkView 8 0 0 2 2 2 3 true in let vb := mkView 0 0 0 2 2 4 2 false in let vr := mkView 0 1 0 2 2 4 2 false in
  mdotm_store NumZ S va vb vr = Some [1; 2; 7; 10; 3; 4; 7; 8; 1; 0; 2; 1; 0; 3]%Z /\
  vread NumZ S va = [[1; 2]; [0; 1]]%Z /\
  mdotm NumZ 2 2 (vread NumZ S va) (vread NumZ S vb) = [[7; 10]; [3; 4]]%Z.
Proof. exact buffered_overlap_example. Qed.

(* (g6) KNOWN FINDING F-C06-MDOTM-SLICE-ALIAS (HEAD): the hypotheses of (g4) EXCEPT "different arrays" do not suffice -
   r.MdotM(r, b) with b a disjoint slice of the array r is a slice of goes through the column loop (equal storage
   location), which protects b only: row 0 of [1 2; 3 4; 5 6] times rows 1..2 is (13, 16), the loop leaves (13, 64) *)
Theorem mdotm_views_left_alias_same_array_refuted :
  let S := [1; 2; 3; 4; 5; 6]%Z in
  let va := mkView 0 0 0 1 2 3 2 false in let vb := mkView 0 1 0 2 2 3 2 false in
  mdotm_store NumZ S va vb va = Some [13; 64; 3; 4; 5; 6]%Z /\
  map (fun j => vdot NumZ S va vb 2 0 j) [0; 1] = [13; 16]%Z /\
  (forall i k i' j', i < 1 -> k < 2 -> i' < i -> j' < 2 -> vidx va i k <> vidx va i' j') /\
  (forall k j i' j', k < 2 -> j < 2 -> i' < 1 -> j' < 2 -> vidx vb k j <> vidx va i' j').
Proof. exact mdotm_left_alias_witness. Qed.

(* Not proved (stated for the record):
   inverse_3x3_values_partial - that the straight-line programs inv3_E_ne / inv3_E_ex evaluate to the entries of the
     inverse is not proved symbolically (2x2: proved); the general theorem all_routines_derivatives + the bit-exact
     derivative replay + the closed-formula certificates (Corr.KF kind 0) tie it.
   cholesky_models_agree_partial - the buffer-taking Cholesky model is C04's (M4.cholesky), the fresh p_chol is C05's
     (M5.cholesky); their equality is not proved (both are tied to Go on the same cases, fresh and recycled).
   ldl_models_agree_partial - the buffer-taking LDL / ForcePD machines (ModelOpt.ldl_buf / fpd_buf) and C05's column-list
     models (M5.cholesky_ldl / cholesky_ldl_forcepd, used by the derivative theorems) are not proved equal; both are
     replayed against Go on the same rows (Corr.KO).
   recycled Gram-Schmidt / Hessenberg / tri-/bidiagonalisation buffers: tie only (Go's recycled run = the
     fresh model term), no buffer-taking model.
   view_products_partial - (g3)-(g5) are about MdotM / MDOTM; the vector products on views (mdotv_store / vdotm_store:
     MdotV / MDOTV / VdotM / VDOTM accumulate in the receiver entry directly) are modelled and replayed, not proved;
     result and right operand overlapping at different COLUMN offsets: modelled and replayed, no theorem (the code
     does not compute the product there).
   helpers_arbitrary_closure_partial - the helper theorems quantify over supplied functions given by expressions
     (+ - * / neg sqrt log over the argument entries and integer constants); an arbitrary Go closure is outside. *)
