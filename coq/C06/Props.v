(* C06 — property theorems (statements; proofs in Proofs*.v).

   Carrier R.  [runJ m k o x s] is the run of routine m on magic scalars (k
   activated entries, order o) at the point x, [runR m x s] the run on plain
   reals, [holds k o F x J]: the scalar J carries F x, the first partials of F in
   its gradient slots and the second partials in its Hessian slots. *)
From Coq Require Import Reals List Lia Lra Bool ZArith Floats.
From Coquelicot Require Import Coquelicot.
From ADV Require Import Base.Num C06.Model C06.Spec C06.ParamT C06.ProofsAlg C06.ProofsAna C06.ProofsLift
                        C06.ProofsInst C06.ProofsGJ2 C06.ProofsCalc C06.ProofsGlue C06.ProofsVal C06.Corr.
Import ListNotations.
Open Scope R_scope.

(* (1a) jet_lift for the reified carrier operations: the jet the library computes for an expression
   (any nesting of + - * / neg sqrt log over variables and constants) is value, gradient, Hessian of
   the real function the expression denotes - wherever every division, sqrt and log is in its domain *)
Theorem jet_lift : forall k o x e, safe x e -> holds k o (fun y => evalR y e) x (evalJ k o x e).
Proof. exact jet_lift_expr. Qed.

(* (1b) ... and for EVERY carrier-polymorphic program m (its free theorem [prog_R m m] is generated from
   the program text): the run on magic scalars returns the values of the run on reals, and output q
   carries the partial derivatives of the real function  y |-> (runR m y s)_q  - wherever the executed
   arithmetic is in its domain and the branch decisions are locally constant *)
Theorem jet_lift_programs : forall (m : prog), prog_R m m -> forall k o x s,
  run_safe m s x -> stable m s x ->
  exists J, runJ m k o x s = Some J /\ runR m x s = Some (map jv J) /\
            forall q, holds k o (outR m s q) x (nth q J (jconst 0)).
Proof. exact jet_lift_gen. Qed.

(* values never depend on the derivative bookkeeping: no hypothesis at all (errors included) *)
Theorem magic_values_equal_plain_values : forall (m : prog), prog_R m m -> forall k o x s,
  option_map (map jv) (runJ m k o x s) = runR m x s.
Proof. exact values_agree. Qed.

(* (2) all modelled routines: back substitution, determinant (naive / PD / log-scale), inverse (plain,
   upper triangular, positive definite), Gauss-Jordan (both variants), Cholesky, LDL, matrix product,
   Gram-Schmidt, Hessenberg, Householder, Givens, tri-/bidiagonalisation *)
Theorem all_routines_values : forall r k o x s,
  option_map (map jv) (runJ (prog_of_routine r) k o x s) = runR (prog_of_routine r) x s.
Proof. exact routine_values. Qed.

Theorem all_routines_derivatives : forall r k o x s,
  run_safe (prog_of_routine r) s x -> stable (prog_of_routine r) s x ->
  exists J, runJ (prog_of_routine r) k o x s = Some J /\
            runR (prog_of_routine r) x s = Some (map jv J) /\
            forall q, holds k o (outR (prog_of_routine r) s q) x (nth q J (jconst 0)).
Proof. exact routine_jets. Qed.

(* branch-free routines: no stability hypothesis, all sizes *)
Theorem back_substitution_derivatives : forall n k o x s, run_safe (p_backsub n) s x ->
  exists J, runJ (p_backsub n) k o x s = Some J /\ runR (p_backsub n) x s = Some (map jv J) /\
            forall q, holds k o (outR (p_backsub n) s q) x (nth q J (jconst 0)).
Proof. exact backsub_jets. Qed.

Theorem determinant_derivatives : forall n k o x s, run_safe (p_det n) s x ->
  exists J, runJ (p_det n) k o x s = Some J /\ runR (p_det n) x s = Some (map jv J) /\
            forall q, holds k o (outR (p_det n) s q) x (nth q J (jconst 0)).
Proof. exact det_jets. Qed.

Theorem matrix_product_derivatives : forall n m1 m k o x s, run_safe (p_mdotm n m1 m) s x ->
  exists J, runJ (p_mdotm n m1 m) k o x s = Some J /\ runR (p_mdotm n m1 m) x s = Some (map jv J) /\
            forall q, holds k o (outR (p_mdotm n m1 m) s q) x (nth q J (jconst 0)).
Proof. exact mdotm_jets. Qed.

(* concrete sizes, every hypothesis discharged (these are also the satisfiability examples) *)
Theorem determinant_2x2 : forall k o x,
  exists J, runJ (p_det 2) k o x (all_vars 4) = Some [J] /\
            holds k o (fun y => y 0%nat * y 3%nat - y 2%nat * y 1%nat) x J.
Proof. exact det2_jets. Qed.

Theorem determinant_3x3 : forall k o x,
  exists J, runJ (p_det 3) k o x (all_vars 9) = Some [J] /\
            holds k o (fun y => 0 + y 0%nat * (y 4%nat * y 8%nat - y 7%nat * y 5%nat)
                                 - y 1%nat * (y 3%nat * y 8%nat - y 6%nat * y 5%nat)
                                 + y 2%nat * (y 3%nat * y 7%nat - y 6%nat * y 4%nat)) x J.
Proof. exact det3_jets. Qed.

Theorem back_substitution_2x2 : forall k o x, x 0%nat <> 0 -> x 3%nat <> 0 ->
  exists J, runJ (p_backsub 2) k o x (all_vars 6) = Some J /\ runR (p_backsub 2) x (all_vars 6) = Some (map jv J) /\
            forall q, holds k o (outR (p_backsub 2) (all_vars 6) q) x (nth q J (jconst 0)).
Proof. exact backsub2_jets. Qed.

Theorem back_substitution_3x3 : forall k o x, x 0%nat <> 0 -> x 4%nat <> 0 -> x 8%nat <> 0 ->
  exists J, runJ (p_backsub 3) k o x (all_vars 12) = Some J /\ runR (p_backsub 3) x (all_vars 12) = Some (map jv J) /\
            forall q, holds k o (outR (p_backsub 3) (all_vars 12) q) x (nth q J (jconst 0)).
Proof. exact backsub3_jets. Qed.

(* a routine WITH branches (error exit t < 0) and a square root, all hypotheses discharged *)
Theorem cholesky_1x1 : forall k o x, 0 < x 0%nat ->
  exists J, runJ (p_chol 1) k o x (all_vars 1) = Some [J] /\ holds k o (fun y => R_sqrt.sqrt (y 0%nat - 0)) x J.
Proof. exact chol1_jets. Qed.

Theorem cholesky_2x2 : forall k o x, chol2_dom x ->
  exists J, runJ (p_chol 2) k o x (all_vars 4) = Some J /\ runR (p_chol 2) x (all_vars 4) = Some (map jv J) /\
            forall q, holds k o (fun y => evalR y (nth q chol2_E (Cst 0))) x (nth q J (jconst 0)).
Proof. exact chol2_jets. Qed.

(* a routine with a PIVOT decision, all hypotheses discharged: matrixInverse (Gauss-Jordan) on an invertible
   2 x 2 matrix [[x0 x1] [x2 x3]] when no row exchange happens (|x2| < |x0|): the four outputs are the entries
   of the inverse and carry their partial derivatives *)
Theorem matrix_inverse_2x2_no_pivot_change : forall k o x, inv2_dom x ->
  exists J, runJ (p_inv M4.InvPlain 2) k o x (all_vars 4) = Some J /\
            runR (p_inv M4.InvPlain 2) x (all_vars 4) = Some (map jv J) /\
            (let D := x 0%nat * x 3%nat - x 1%nat * x 2%nat in
             map jv J = [x 3%nat / D; - x 1%nat / D; - x 2%nat / D; x 0%nat / D]) /\
            forall q, holds k o (outR (p_inv M4.InvPlain 2) (all_vars 4) q) x (nth q J (jconst 0)).
Proof. exact inv2_jets. Qed.
Example inv2_dom_nontrivial : inv2_dom (fun i => nth i [4; 1; 2; 3] 0).
Proof. exact inv2_dom_example. Qed.

(* the hypotheses of the general theorems are satisfiable by non-trivial instances *)
Example hyps_nontrivial_det3 : forall x, run_safe (p_det 3) (all_vars 9) x /\ stable (p_det 3) (all_vars 9) x.
Proof. intro x. split; [apply det3_safe|apply stable_det]. Qed.
Example hyps_nontrivial_cholesky : forall x, 0 < x 0%nat ->
  run_safe (prog_of_routine (RChol 1)) (all_vars 1) x /\ stable (prog_of_routine (RChol 1)) (all_vars 1) x.
Proof. intros x H. split; [apply chol1_safe|apply chol1_stable]; exact H. Qed.
Example chol2_dom_nontrivial : chol2_dom (fun i => nth i [4; 2; 2; 3] 0).
Proof. exact chol2_dom_example. Qed.

(* (3) matrix calculus over R.  d(A^-1) = - A^-1 dA A^-1, entrywise, every n: from differentiating A X = I *)
Theorem inverse_derivative : forall n (A X : nat -> nat -> R -> R) (dA dX : nat -> nat -> R) t0,
  (forall i j, (i < n)%nat -> (j < n)%nat -> is_derive (A i j) t0 (dA i j)) ->
  (forall i j, (i < n)%nat -> (j < n)%nat -> is_derive (X i j) t0 (dX i j)) ->
  locally t0 (fun t => forall i j, (i < n)%nat -> (j < n)%nat -> msum n (fun c => A i c t * X c j t) = kron i j) ->
  (forall i j, (i < n)%nat -> (j < n)%nat -> msum n (fun c => X i c t0 * A c j t0) = kron i j) ->
  forall i j, (i < n)%nat -> (j < n)%nat ->
    dX i j = - msum n (fun c => msum n (fun d => X i c t0 * dA c d * X d j t0)).
Proof. exact inverse_derivative_formula. Qed.

(* d log det A = tr(A^-1 dA) for 2 x 2: the gradient slots of log(det A) are the entries of inv(A)' *)
Theorem logdet_gradient_2x2 : forall k o x, 0 < x 0%nat * x 3%nat - x 2%nat * x 1%nat -> (4 <= k)%nat ->
  let J := evalJ k o x (ELog det2_expr) in
  let dt := x 0%nat * x 3%nat - x 2%nat * x 1%nat in
  holds k o (fun y => ln (y 0%nat * y 3%nat - y 2%nat * y 1%nat)) x J /\
  gd NumDR J 0 = x 3%nat / dt /\ gd NumDR J 1 = - x 2%nat / dt /\
  gd NumDR J 2 = - x 1%nat / dt /\ gd NumDR J 3 = x 0%nat / dt.
Proof. exact logdet2_gradient. Qed.

(* the gradient slots of the 2 x 2 determinant are the cofactors, det * inv(A)' *)
Theorem det_gradient_2x2 : forall k o x, (4 <= k)%nat ->
  let J := evalJ k o x det2_expr in
  gd NumDR J 0 = x 3%nat /\ gd NumDR J 1 = - x 2%nat /\ gd NumDR J 2 = - x 1%nat /\ gd NumDR J 3 = x 0%nat.
Proof. exact det2_gradient. Qed.

(* (4) "same values as on plain float matrices", at the level of the machine numbers: for EVERY base
   carrier with one square root - in particular binary64, bit for bit, NaN and infinities included - and
   every carrier-polymorphic program, the value part of the run on magic scalars IS the run on plain
   scalars.  (The generic Go path is this one text for both element types.) *)
Theorem magic_values_any_carrier : forall A (D : NumD A) (k o : nat) (m : prog), prog_R m m ->
  forall inp : list (jet A),
  (forall a, nsqrt (M5.nx (dx D)) a = M5.gsqrt (dx D) a) ->
  option_map (map jv) (m (jet A) (NumXJ D k o) (jlog D k o) inp) = m A (dx D) (nlog D) (map jv inp).
Proof. intros A D k o m mR inp H. exact (values_agree_any_carrier D k o m mR inp H). Qed.

Theorem magic_values_binary64 : forall (k o : nat) (m : prog), prog_R m m -> forall inp : list (jet float),
  option_map (map jv) (m (jet float) (NumXJ NumDFg k o) (jlog NumDFg k o) inp)
  = m float NumXFg (fun x => x) (map jv inp).
Proof. intros k o m mR inp. apply (values_agree_any_carrier NumDFg k o m mR inp). intro a. reflexivity. Qed.

(* fast = generic: the hand-specialised Float64 paths are mirrored by the SAME polymorphic text run on a
   carrier that differs from the generic one in the square root only (math.Sqrt vs math.Pow(x, 0.5)), and
   these agree except at -0 and -Inf; that the Go fast paths are this text is the correspondence (Corr.KV) *)
Theorem fast_generic_carriers_agree : forall x : float,
  PrimFloat.eqb x 0%float = false -> PrimFloat.eqb x neg_infinity = false ->
  M5.gsqrt M5.NumXFfast x = M5.gsqrt NumXFg x.
Proof. exact fast_generic_sqrt. Qed.

(* singular systems: "fast paths equal generic paths" holds for the OUTCOME KIND too (former known finding
   F-GJ-SINGULAR-PANIC, repaired in /repo 74e12ad: the generic path panicked where the Float64 path returned an
   error).  For every carrier, size, mask, variant (plain / upper triangular) and input the model of HEAD gives
   the same outcome - Ok with the same state, or the same error - on both paths, for gaussJordan.Run and for
   the three modes of matrixInverse.Run; on the former witness [[0]] (binary64) both return the error. *)
Theorem fast_generic_singular_outcome_agree :
  (forall A (N : Num A) (ut : bool) (n : nat) (msk : list bool) (s : M4.st),
      M4.gj_run N true ut n msk s = M4.gj_run N false ut n msk s) /\
  (forall A (N : Num A) (mode : M4.inv_mode) (n : nat) (msk : list bool) (m : list (list A)),
      M4.m_inverse N true mode n msk m = M4.m_inverse N false mode n msk m) /\
  M4.gj_run NumF true false 1 [true] (M4.mkSt [[0%float]] [[1%float]] [1%float]) = M4.ErrSingular /\
  M4.gj_run NumF false false 1 [true] (M4.mkSt [[0%float]] [[1%float]] [1%float]) = M4.ErrSingular.
Proof. exact (conj gj_outcome_path_independent (conj inverse_outcome_path_independent gj_singular_agree)). Qed.

(* (5) Jacobian / Hessian helpers: entries are the partial derivatives (for f given by expressions) *)
Theorem jacobian_entries : forall (es : list expr) (xs : list R) i j,
  let k := length xs in let x := fun q => nth q xs 0 in
  List.Forall (safe x) es -> (j < k)%nat ->
  partial (fun y => evalR y (nth i es (Cst 0))) j x
          (gd NumDR (evalJ k 1 x (nth i es (Cst 0))) j).
Proof. exact jacobian_entries_partial. Qed.

Theorem hessian_entries : forall (e : expr) (xs : list R) i j,
  let k := length xs in let x := fun q => nth q xs 0 in
  safe x e -> (i < k)%nat -> (j < k)%nat ->
  partial2 (fun y => evalR y e) i j x (gh NumDR (evalJ k 2 x e) i j) /\
  gh NumDR (evalJ k 2 x e) i j = gh NumDR (evalJ k 2 x e) j i.
Proof. exact hessian_entries_partial2. Qed.

(* (6) derivative-losing glue.  SetFloat64 clears, Set copies: *)
Theorem setfloat_clears : forall (v : R) i j, gd NumDR (jsetf v) i = 0 /\ gh NumDR (jsetf v) i j = 0.
Proof. exact jsetf_clears. Qed.
Theorem set_copies : forall (a : jet R), jset a = a.
Proof. reflexivity. Qed.
(* a GetFloat64 -> SetFloat64 round trip is, in a carrier-polymorphic program, only reachable through
   math.Max / math.Inf / Abs-inside-a-comparison; an output that is [safe] contains none of them *)
Theorem no_round_trip_on_safe_outputs : forall x e, safe x e -> lossy e = false.
Proof. exact safe_not_lossy. Qed.
(* cholesky_ldl_forcepd goes through GetFloat64/SetFloat64 by design: its pivot d_j is lossy, so the
   routine is outside the derivative theorems (excluded, as the design says) *)
Theorem forcepd_excluded : forall x bf dl a, exists E, runE (p_fpd 1) x [(None, bf); (None, dl); (Some 0%nat, a)] = Some E /\
  existsb lossy E = true.
Proof. exact fpd1_lossy. Qed.

(* Not proved (stated for the record):
   gauss_jordan_3x3_partial - run_safe/stable of the 3x3 inverse are not discharged in Coq (the 2x2 case is:
     matrix_inverse_2x2_no_pivot_change); the general theorem all_routines_derivatives covers every size under
     those two hypotheses, and the bit-exact derivative replay and the closed-formula certificates tie it.
   logdet_general_n_partial - d log det A = tr(A^-1 dA) for general n (Jacobi's formula) is certified per
     run in exact rational arithmetic from Go's output (Corr.KF kinds 1, 2), not proved. *)
