(* C06/ProofsOpt.v (round 5) — type dispatch under option combinations.

   (a) the dispatch functions [chol_dispatch] / [gj_dispatch] (ModelOpt.v, source order of the Run functions)
       never change the algorithm FAMILY an option set asks for, whatever the concrete types the assertions
       see: the kernel reached computes the program of the option set;
   (b) the table extracted from the Go source ([src_table], compared with the source on every run by
       Corr.KDisp), interpreted first-match, IS that dispatch function - for every option set and every
       combination of concrete types;
   (c) hence, for every two rows of the table that belong to one option set - in particular the generic
       kernel on magic scalars and a hand-specialised kernel on plain scalars - the results agree: factors
       and error status, for every carrier, every input (non positive definite, singular, NaN, ... included),
       every activation pattern and order. *)
From Coq Require Import List Bool Arith ZArith Lia.
From ADV Require Import Base.Num C06.Model C06.ParamT C06.ModelBuf C06.ParamT2 C06.ModelOpt C06.ParamT3 C06.ProofsVal.
Import ListNotations.

(* ---- (a) *)
Lemma chol_dispatch_family ldl fpd tA tL tD tS tT : fst (chol_dispatch ldl fpd tA tL tD tS tT) = chol_fam ldl fpd.
Proof. destruct ldl, fpd, tA, tL, tD, tS, tT; reflexivity. Qed.
Lemma gj_dispatch_family ut ta tb tx : fst (gj_dispatch ut ta tb tx) = gj_fam ut.
Proof. destruct ut, ta, tb, tx; reflexivity. Qed.

Lemma chol_kernel_program ldl fpd tA tL tD tS tT n :
  kern_prog (chol_dispatch ldl fpd tA tL tD tS tT) n = chol_prog ldl fpd n.
Proof. unfold kern_prog. rewrite chol_dispatch_family. destruct ldl, fpd; reflexivity. Qed.
Lemma gj_kernel_program ut ta tb tx n : kern_prog (gj_dispatch ut ta tb tx) n = p_gj ut n.
Proof. unfold kern_prog. rewrite gj_dispatch_family. destruct ut; reflexivity. Qed.

(* the specialised copy is selected exactly when EVERY assertion of its block holds *)
Lemma chol_fast64_iff ldl fpd tA tL tD tS tT :
  snd (chol_dispatch ldl fpd tA tL tD tS tT) = IF64 <->
  (tA = CF64 /\ tL = CF64 /\ tS = CF64 /\ tT = CF64 /\ (ldl = true -> tD = CF64)).
Proof.
  destruct ldl, fpd, tA, tL, tD, tS, tT; cbn; split; intro H;
    try discriminate H; try reflexivity;
    try (repeat split; try reflexivity; intro; try reflexivity; discriminate);
    try (destruct H as (H1 & H2 & H3 & H4 & H5); try discriminate H1; try discriminate H2; try discriminate H3;
         try discriminate H4; try (specialize (H5 eq_refl); discriminate H5)).
Qed.

(* ---- (b) *)
Lemma src_table_is_chol_dispatch ldl fpd tA tL tD tS tT :
  interp (chol_flags ldl fpd) (chol_tys tA tL tD tS tT) (src_table 0) = Some (kern_name (chol_dispatch ldl fpd tA tL tD tS tT)).
Proof. destruct ldl, fpd, tA, tL, tD, tS, tT; vm_compute; reflexivity. Qed.
Lemma src_table_is_gj_dispatch ut ta tb tx :
  interp (gj_flags ut) (gj_tys ta tb tx) (src_table 1) = Some (kern_name (gj_dispatch ut ta tb tx)).
Proof. destruct ut, ta, tb, tx; vm_compute; reflexivity. Qed.

(* ---- (c) *)
Lemma nat_R_rf n : nat_R n n. Proof. induction n; constructor; assumption. Qed.
Lemma bool_R_rf b : bool_R b b. Proof. destruct b; constructor. Qed.
Lemma list_bool_R_rf (l : list bool) : list_R bool bool bool_R l l.
Proof. induction l; constructor; [apply bool_R_rf|assumption]. Qed.
Lemma inv_mode_R_rf (m : M4.inv_mode) : inv_mode_R m m.
Proof. destruct m; constructor. Qed.

Lemma chol_prog_R ldl fpd n : prog_R (chol_prog ldl fpd n) (chol_prog ldl fpd n).
Proof.
  destruct ldl, fpd; cbn.
  - exact (ADV_o_C06_o_Model_o_p_fpd_R n n (nat_R_rf n)).
  - exact (ADV_o_C06_o_Model_o_p_ldl_R n n (nat_R_rf n)).
  - exact (ADV_o_C06_o_Model_o_p_chol_R n n (nat_R_rf n)).
  - exact (ADV_o_C06_o_Model_o_p_chol_R n n (nat_R_rf n)).
Qed.

Lemma opt_prog_R r o d : prog_R (opt_prog r o d) (opt_prog r o d).
Proof.
  unfold opt_prog.
  destruct r as [|[|[|[|r]]]].
  - apply chol_prog_R.
  - exact (p_gjm_R _ _ (bool_R_rf _) _ _ (nat_R_rf _) _ _ (list_bool_R_rf _)).
  - refine (p_invm_R _ _ (inv_mode_R_rf _) _ _ (nat_R_rf _) _ _ _).
    destruct (tl d); constructor. apply list_bool_R_rf.
  - destruct (Nat.odd o); [exact (p_detpd_R _ _ (nat_R_rf _))|exact (p_det_R _ _ (nat_R_rf _))].
  - intros A1 A2 AR X1 X2 XR l1 l2 lR i1 i2 iR. constructor.
Qed.

Section Agree.
Context {A : Type} (D : NumD A) (k ord : nat).
Hypothesis one_sqrt : forall a, nsqrt (M5.nx (dx D)) a = M5.gsqrt (dx D) a.

(* every option set of the four Run functions: the run on magic scalars returns the factors and the error
   status of the run on plain scalars *)
Theorem option_set_values (r o : nat) (d : list nat) (inp : list (jet A)) :
  option_map (map jv) (opt_prog r o d (jet A) (NumXJ D k ord) (jlog D k ord) inp)
  = opt_prog r o d A (dx D) (nlog D) (map jv inp).
Proof. apply values_agree_any_carrier; [apply opt_prog_R|exact one_sqrt]. Qed.

(* two rows of the cholesky.Run table with the same option set: ANY types on the magic side, ANY on the plain *)
Theorem chol_rows_agree ldl fpd tA tL tD tS tT tA' tL' tD' tS' tT' n (inp : list (jet A)) :
  option_map (map jv) (kern_prog (chol_dispatch ldl fpd tA tL tD tS tT) n (jet A) (NumXJ D k ord) (jlog D k ord) inp)
  = kern_prog (chol_dispatch ldl fpd tA' tL' tD' tS' tT') n A (dx D) (nlog D) (map jv inp).
Proof. rewrite !chol_kernel_program. apply values_agree_any_carrier; [apply chol_prog_R|exact one_sqrt]. Qed.

Theorem gj_rows_agree ut ta tb tx ta' tb' tx' n (inp : list (jet A)) :
  option_map (map jv) (kern_prog (gj_dispatch ut ta tb tx) n (jet A) (NumXJ D k ord) (jlog D k ord) inp)
  = kern_prog (gj_dispatch ut ta' tb' tx') n A (dx D) (nlog D) (map jv inp).
Proof.
  rewrite !gj_kernel_program. apply values_agree_any_carrier; [|exact one_sqrt].
  exact (p_gj_R _ _ (bool_R_rf _) _ _ (nat_R_rf _)).
Qed.
End Agree.

From Coq Require Import Floats.
From ADV Require Import C06.Corr.
Lemma force_pd_example :
  chol_prog true false 2 float NumXFg (fun x => x) [0; 1; 1; 0]%float = None /\
  (exists l, chol_prog true true 2 float NumXFg (fun x => x) [0x1p-67; 0x1p-67; 0; 1; 1; 0]%float = Some l) /\
  option_map (map jv) (chol_prog true true 2 (jet float) (NumXJ NumDFg 1 1) (jlog NumDFg 1 1)
                         (map jconst [0x1p-67; 0x1p-67; 0; 1; 1; 0]%float))
  = chol_prog true true 2 float NumXFg (fun x => x) [0x1p-67; 0x1p-67; 0; 1; 1; 0]%float.
Proof. split; [vm_compute; reflexivity|]. split; [eexists; vm_compute; reflexivity|vm_compute; reflexivity]. Qed.
