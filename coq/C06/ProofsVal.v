(* C06/ProofsVal.v — "running a routine on magic scalars yields the same values as
   running it on plain scalars", for EVERY base carrier (in particular binary64,
   bit for bit, NaN and infinities included) and every carrier-polymorphic
   program: [jv] is a homomorphism of carriers, and programs are parametric. *)
From Coq Require Import List Bool ZArith Floats.
From ADV Require Import Base.Num C06.Model C06.ParamT.
Import ListNotations.

Lemma bool_R_refl' b : bool_R b b.
Proof. destruct b; constructor. Qed.
Lemma positive_R_eq' p q : positive_R p q -> p = q.
Proof. induction 1; congruence. Qed.
Lemma Z_R_eq' a b : Z_R a b -> a = b.
Proof. destruct 1 as [|p q H|p q H]; [reflexivity| |]; apply positive_R_eq' in H; congruence. Qed.

Lemma jv_jdy' {A} (D : NumD A) k o a b v0 v10 v01 v11 v20 v02 : jv (jdy D k o a b v0 v10 v01 v11 v20 v02) = v0.
Proof. unfold jdy. destruct (ja a || ja b); reflexivity. Qed.
Lemma jv_jmon' {A} (D : NumD A) k o a v0 v1 v2 : jv (jmon D k o a v0 v1 v2) = v0.
Proof. unfold jmon. destruct (ja a); reflexivity. Qed.

(* hypothesis: the base carrier has ONE square root (true of the reals and of the generic binary64 carrier) *)
Lemma rel_JV {A} (D : NumD A) (k o : nat) :
  (forall a, nsqrt (M5.nx (dx D)) a = M5.gsqrt (dx D) a) ->
  NumX_R (jet A) A (fun j a => jv j = a) (NumXJ D k o) (dx D).
Proof.
  intro one_sqrt.
  destruct D as [X pmh pm3h lg]. destruct X as [N ninf fmx gsq]. destruct N. cbn in one_sqrt.
  unfold NumXJ, NumJ. cbn. apply NumX_R_mkNumX_R.
  - apply Num_R_mkNum_R; intros; subst; cbn;
      try reflexivity; try apply bool_R_refl';
      try (unfold jadd, jsub, jmul, jdiv; rewrite jv_jdy'; reflexivity);
      try (unfold jneg; rewrite jv_jmon'; reflexivity).
    + unfold jsqrt. rewrite jv_jmon'. cbn. symmetry. apply one_sqrt.
    + match goal with H : Z_R _ _ |- _ => apply Z_R_eq' in H; subst end. reflexivity.
  - reflexivity.
  - intros; subst. reflexivity.
  - intros; subst. unfold jsqrt. rewrite jv_jmon'. reflexivity.
Qed.

Lemma list_R_jv {A} (js : list (jet A)) : list_R (jet A) A (fun j a => jv j = a) js (map jv js).
Proof. induction js; cbn; constructor; auto. Qed.
Lemma list_R_jv_inv {A} (js : list (jet A)) l : list_R (jet A) A (fun j a => jv j = a) js l -> map jv js = l.
Proof. induction 1 as [|j a E js l H IH]; cbn; [reflexivity|]. rewrite E, IH. reflexivity. Qed.

Theorem values_agree_any_carrier {A} (D : NumD A) (k o : nat) (m : prog) (mR : prog_R m m) (inp : list (jet A)) :
  (forall a, nsqrt (M5.nx (dx D)) a = M5.gsqrt (dx D) a) ->
  option_map (map jv) (m (jet A) (NumXJ D k o) (jlog D k o) inp) = m A (dx D) (nlog D) (map jv inp).
Proof.
  intro one_sqrt.
  pose proof (mR (jet A) A (fun j a => jv j = a) (NumXJ D k o) (dx D) (rel_JV D k o one_sqrt) (jlog D k o) (nlog D)) as H.
  assert (HL : forall (j : jet A) (a : A), jv j = a -> jv (jlog D k o j) = nlog D a).
  { intros j a E. subst. unfold jlog. rewrite jv_jmon'. reflexivity. }
  specialize (H HL inp (map jv inp) (list_R_jv inp)).
  destruct H as [js l HR|]; cbn; [|reflexivity]. f_equal. apply list_R_jv_inv. exact HR.
Qed.

(* the two binary64 carriers of the correspondence (Float64 fast path: math.Sqrt; generic path:
   math.Pow(x, 0.5)) differ at -0 and -Inf only *)
Lemma fast_generic_sqrt (x : float) :
  PrimFloat.eqb x 0%float = false -> PrimFloat.eqb x neg_infinity = false ->
  M5.gsqrt M5.NumXFfast x = M5.go_pow_half x.
Proof. intros H1 H2. cbn. unfold M5.go_pow_half. rewrite H1, H2. reflexivity. Qed.
Lemma fast_generic_sqrt_pos_zero : M5.gsqrt M5.NumXFfast 0%float = M5.go_pow_half 0%float.
Proof. vm_compute. reflexivity. Qed.
