(* C06/ProofsCalc.v — matrix calculus over R.
   (a) d(A^-1) = -A^-1 dA A^-1 entrywise, every n, by differentiating A X = I;
   (b) 2x2: the gradient of det is the cofactor matrix, the gradient of log det
       is inv(A)' — read off the jets the library computes. *)
From Coq Require Import Reals List Lia Lra Bool ZArith.
From Coquelicot Require Import Coquelicot.
From ADV Require Import Base.Num C06.Model C06.Spec C06.ProofsAlg C06.ProofsAna C06.ProofsLift.
Import ListNotations.
Open Scope R_scope.

Fixpoint msum (n : nat) (f : nat -> R) : R :=
  match n with O => 0 | S m => msum m f + f m end.
Definition kron (i j : nat) : R := if Nat.eqb i j then 1 else 0.

Lemma msum_ext n f g : (forall c, (c < n)%nat -> f c = g c) -> msum n f = msum n g.
Proof. induction n; intro H; cbn; [reflexivity|]. rewrite IHn by (intros; apply H; lia). rewrite H by lia. reflexivity. Qed.
Lemma msum_plus n f g : msum n (fun c => f c + g c) = msum n f + msum n g.
Proof. induction n; cbn; [ring|]. rewrite IHn. ring. Qed.
Lemma msum_scal n a f : a * msum n f = msum n (fun c => a * f c).
Proof. induction n; cbn; [ring|]. rewrite <- IHn. ring. Qed.
Lemma msum_zero n : msum n (fun _ => 0) = 0.
Proof. induction n; cbn; [reflexivity|]. rewrite IHn. ring. Qed.
Lemma msum_swap n m f : msum n (fun i => msum m (fun c => f i c)) = msum m (fun c => msum n (fun i => f i c)).
Proof.
  induction n; cbn.
  - symmetry. apply msum_zero.
  - rewrite IHn. rewrite <- msum_plus. reflexivity.
Qed.
Lemma msum_kron n p g : (p < n)%nat -> msum n (fun c => kron p c * g c) = g p.
Proof.
  induction n; intro H; [lia|]. cbn. destruct (Nat.eq_dec p n) as [E|E].
  - subst p. unfold kron at 2. rewrite Nat.eqb_refl.
    rewrite (msum_ext n _ (fun _ => 0)).
    + rewrite msum_zero. ring.
    + intros c Hc. unfold kron. destruct (Nat.eqb_spec n c); [lia|ring].
  - rewrite IHn by lia. unfold kron. destruct (Nat.eqb_spec p n); [contradiction|ring].
Qed.

Lemma is_derive_msum n (f : nat -> R -> R) (df : nat -> R) t0 :
  (forall c, (c < n)%nat -> is_derive (f c) t0 (df c)) ->
  is_derive (fun t => msum n (fun c => f c t)) t0 (msum n df).
Proof.
  induction n; intro H; cbn.
  - apply (is_derive_const 0 t0).
  - apply (is_derive_plus (fun t => msum n (fun c => f c t)) (f n)); [apply IHn; intros; apply H; lia|apply H; lia].
Qed.

Theorem inverse_derivative_formula n (A X : nat -> nat -> R -> R) (dA dX : nat -> nat -> R) t0 :
  (forall i j, (i < n)%nat -> (j < n)%nat -> is_derive (A i j) t0 (dA i j)) ->
  (forall i j, (i < n)%nat -> (j < n)%nat -> is_derive (X i j) t0 (dX i j)) ->
  locally t0 (fun t => forall i j, (i < n)%nat -> (j < n)%nat -> msum n (fun c => A i c t * X c j t) = kron i j) ->
  (forall i j, (i < n)%nat -> (j < n)%nat -> msum n (fun c => X i c t0 * A c j t0) = kron i j) ->
  forall i j, (i < n)%nat -> (j < n)%nat ->
    dX i j = - msum n (fun c => msum n (fun d => X i c t0 * dA c d * X d j t0)).
Proof.
  intros HA HX HI HL p j Hp Hj.
  (* differentiate (A X)_ij = delta_ij *)
  assert (E1 : forall i, (i < n)%nat -> msum n (fun c => dA i c * X c j t0 + A i c t0 * dX c j) = 0).
  { intros i Hi.
    assert (D1 : is_derive (fun t => msum n (fun c => A i c t * X c j t)) t0
                           (msum n (fun c => dA i c * X c j t0 + A i c t0 * dX c j))).
    { apply (is_derive_msum n (fun c t => A i c t * X c j t)). intros c Hc.
      pose proof (is_derive_mult (A i c) (X c j) t0 _ _ (HA i c Hi Hc) (HX c j Hc Hj) Rmult_comm) as D.
      exact D. }
    assert (D2 : is_derive (fun t => msum n (fun c => A i c t * X c j t)) t0 0).
    { apply (is_derive_ext_loc (fun _ => kron i j)).
      - eapply filter_imp; [|exact HI]. intros t Ht. cbv beta. symmetry. apply Ht; assumption.
      - apply (is_derive_const (kron i j) t0). }
    apply is_derive_unique in D1. apply is_derive_unique in D2. rewrite D1 in D2. exact D2. }
  (* multiply by X_pi and sum over i *)
  assert (E2 : msum n (fun i => X p i t0 * msum n (fun c => dA i c * X c j t0 + A i c t0 * dX c j)) = 0).
  { rewrite (msum_ext n _ (fun _ => 0)); [apply msum_zero|]. intros i Hi. rewrite (E1 i Hi). ring. }
  assert (E3 : msum n (fun i => X p i t0 * msum n (fun c => dA i c * X c j t0 + A i c t0 * dX c j))
               = msum n (fun c => msum n (fun d => X p c t0 * dA c d * X d j t0)) + dX p j).
  { rewrite (msum_ext n _ (fun i => msum n (fun c => X p i t0 * dA i c * X c j t0)
                                   + msum n (fun c => X p i t0 * A i c t0 * dX c j))).
    2:{ intros i Hi. rewrite msum_scal, <- msum_plus. apply msum_ext. intros c Hc. ring. }
    rewrite msum_plus. f_equal.
    rewrite msum_swap.
    rewrite (msum_ext n _ (fun c => kron p c * dX c j)).
    - apply (msum_kron n p (fun c => dX c j) Hp).
    - intros c Hc. rewrite <- (HL p c Hp Hc). rewrite Rmult_comm, msum_scal. apply msum_ext. intros i Hi. ring. }
  rewrite E3 in E2. lra.
Qed.

(* ------------------------------------------------------------------ 2 x 2 *)
Definition det2_expr : expr := ESub (EMul (Var 0) (Var 3)) (EMul (Var 2) (Var 1)).

Lemma det2_gradient k o x : (4 <= k)%nat ->
  let J := evalJ k o x det2_expr in
  gd NumDR J 0 = x 3%nat /\ gd NumDR J 1 = - x 2%nat /\ gd NumDR J 2 = - x 1%nat /\ gd NumDR J 3 = x 0%nat.
Proof.
  intros Hk J. assert (Hs : safe x det2_expr) by (cbn; tauto).
  unfold J. rewrite !(gd_evalJ k o x det2_expr Hs) by lia.
  unfold det2_expr, evalR. cbn. repeat split; ring.
Qed.

Lemma logdet2_gradient k o x : 0 < x 0%nat * x 3%nat - x 2%nat * x 1%nat -> (4 <= k)%nat ->
  let J := evalJ k o x (ELog det2_expr) in
  let dt := x 0%nat * x 3%nat - x 2%nat * x 1%nat in
  holds k o (fun y => ln (y 0%nat * y 3%nat - y 2%nat * y 1%nat)) x J /\
  gd NumDR J 0 = x 3%nat / dt /\ gd NumDR J 1 = - x 2%nat / dt /\
  gd NumDR J 2 = - x 1%nat / dt /\ gd NumDR J 3 = x 0%nat / dt.
Proof.
  intros Hd Hk J dt.
  assert (Hs : safe x (ELog det2_expr)) by (cbn; repeat split; exact Hd).
  split; [exact (jet_lift_expr k o x (ELog det2_expr) Hs)|].
  unfold J. rewrite !(gd_evalJ k o x (ELog det2_expr) Hs) by lia.
  unfold det2_expr, evalR, dt. cbn. repeat split; field; lra.
Qed.
