(* C06/ProofsLdl.v — cholesky_ldl (p_ldl) 2x2 and 3x3 with EVERY hypothesis of jet_lift
   discharged on the open domain where the pivots d_j are positive
   (the routine's only branch is  "d_j <= 0 -> error").

   The routine reads the lower triangle (2x2: entries 0 2 3; 3x3: entries 0 3 4 6 7 8)
   and returns L (row major) followed by the diagonal matrix D.
   stable comes from ProofsOpen: positivity of a safe expression is an open condition. *)
From Coq Require Import Reals List Lia Lra Bool ZArith Psatz.
From Coquelicot Require Import Coquelicot.
From ADV Require Import Base.Num C06.Model C06.Spec C06.ParamT C06.ProofsAlg C06.ProofsAna C06.ProofsLift C06.ProofsInst C06.ProofsOpen.
Import ListNotations.
Open Scope R_scope.

Lemma Rleb_false a b : b < a -> Rleb a b = false.
Proof. intro H. unfold Rleb. destruct (Rle_dec a b); [lra|reflexivity]. Qed.

Lemma pos_neq a : 0 < a -> a <> 0.
Proof. intros H E. rewrite E in H. exact (Rlt_irrefl 0 H). Qed.

(* ================================================================== 2 x 2 *)
Definition ldl2_d0 : expr := ESub (Var 0) (Cst 0).
Definition ldl2_l10 : expr := EDiv (ESub (Var 2) (Cst 0)) ldl2_d0.
Definition ldl2_d1 : expr := ESub (Var 3) (EAdd (Cst 0) (EMul ldl2_d0 (EMul ldl2_l10 ldl2_l10))).
(* L ++ D *)
Definition ldl2_E : list expr :=
  [Cst 1; Cst 0; ldl2_l10; Cst 1;   ldl2_d0; Cst 0; Cst 0; ldl2_d1].

(* the domain as explicit inequalities: leading principal minors positive *)
Definition ldl2_dom (x : nat -> R) : Prop :=
  0 < x 0%nat /\ 0 < x 0%nat * x 3%nat - x 2%nat * x 2%nat.
(* ... and through the symbolic pivots *)
Definition ldl2_piv (x : nat -> R) : Prop := 0 < evalR x ldl2_d0 /\ 0 < evalR x ldl2_d1.

Lemma ldl2_d1_val x : x 0%nat <> 0 -> evalR x ldl2_d1 = (x 0%nat * x 3%nat - x 2%nat * x 2%nat) / x 0%nat.
Proof. intro H. unfold evalR. cbn. field. lra. Qed.

Lemma ldl2_dom_piv x : ldl2_dom x <-> ldl2_piv x.
Proof.
  unfold ldl2_dom, ldl2_piv. split.
  - intros [H0 H1]. split; [unfold evalR; cbn; lra|].
    rewrite ldl2_d1_val by (apply pos_neq; exact H0). apply Rdiv_lt_0_compat; assumption.
  - intros [H0 H1]. assert (P0 : 0 < x 0%nat) by (unfold evalR in H0; cbn in H0; lra).
    split; [exact P0|]. rewrite ldl2_d1_val in H1 by (apply pos_neq; exact P0).
    replace (x 0%nat * x 3%nat - x 2%nat * x 2%nat)
      with (x 0%nat * ((x 0%nat * x 3%nat - x 2%nat * x 2%nat) / x 0%nat)) by (field; lra).
    apply Rmult_lt_0_compat; assumption.
Qed.

Lemma ldl2_run x : ldl2_piv x -> runE (p_ldl 2) x (all_vars 4) = Some ldl2_E.
Proof.
  intros [H0 H1]. unfold runE.
  assert (E0 : Rleb (evalR x ldl2_d0) (evalR x (Cst 0)) = false) by (apply Rleb_false; exact H0).
  assert (E1 : Rleb (evalR x ldl2_d1) (evalR x (Cst 0)) = false) by (apply Rleb_false; exact H1).
  cbv -[Rleb evalR IZR] in E0, E1 |- *.
  rewrite E0, E1. reflexivity.
Qed.

Lemma ldl2_piv_safe x : ldl2_piv x -> safe x ldl2_d0 /\ safe x ldl2_d1.
Proof.
  intros [H0 H1]. pose proof (pos_neq _ H0) as N0.
  unfold ldl2_d1, ldl2_l10, ldl2_d0 in *. cbn [safe]. repeat split; exact N0.
Qed.

Lemma ldl2_E_safe x : ldl2_piv x -> List.Forall (safe x) ldl2_E.
Proof.
  intros D. destruct (ldl2_piv_safe x D) as [S0 S1]. destruct D as [H0 H1]. pose proof (pos_neq _ H0) as N0.
  unfold ldl2_E. repeat apply Forall_cons; try apply Forall_nil; try exact S0; try exact S1; try exact I.
  unfold ldl2_l10, ldl2_d0 in *. cbn [safe]. repeat split; exact N0.
Qed.

Lemma ldl2_piv_open x : ldl2_piv x -> locally x ldl2_piv.
Proof.
  intros D. destruct (ldl2_piv_safe x D) as [S0 S1]. destruct D as [H0 H1].
  apply filter_and; apply pos_locally; assumption.
Qed.

Lemma ldl2_safe x : ldl2_dom x -> run_safe (p_ldl 2) (all_vars 4) x.
Proof.
  intro D. apply ldl2_dom_piv in D. exists ldl2_E. split; [apply ldl2_run; exact D|apply ldl2_E_safe; exact D].
Qed.

Lemma ldl2_stable x : ldl2_dom x -> stable (p_ldl 2) (all_vars 4) x.
Proof.
  intro D. apply ldl2_dom_piv in D.
  apply (stable_of_locally _ _ x ldl2_piv ldl2_E ldl2_run). apply ldl2_piv_open. exact D.
Qed.

(* the values: L = [[1,0],[c/a,1]], D = diag(a, (a b - c^2)/a) for the matrix [[a,.],[c,b]] *)
Lemma ldl2_values x : ldl2_dom x ->
  map (evalR x) ldl2_E =
  [1; 0; x 2%nat / x 0%nat; 1;   x 0%nat; 0; 0; (x 0%nat * x 3%nat - x 2%nat * x 2%nat) / x 0%nat].
Proof.
  intros [H0 H1]. unfold ldl2_E. cbn [map].
  rewrite ldl2_d1_val by (apply pos_neq; exact H0).
  unfold evalR. cbn.
  repeat (apply (f_equal2 (@cons R)); [try reflexivity; try (field; lra); try ring|]). reflexivity.
Qed.

Theorem ldl2_jets k o x : ldl2_dom x ->
  exists J, runJ (p_ldl 2) k o x (all_vars 4) = Some J /\
            runR (p_ldl 2) x (all_vars 4) = Some (map jv J) /\
            map jv J = [1; 0; x 2%nat / x 0%nat; 1;   x 0%nat; 0; 0; (x 0%nat * x 3%nat - x 2%nat * x 2%nat) / x 0%nat] /\
            (forall q, holds k o (outR (p_ldl 2) (all_vars 4) q) x (nth q J (jconst 0))) /\
            (forall q, holds k o (fun y => evalR y (nth q ldl2_E (Cst 0))) x (nth q J (jconst 0))).
Proof.
  intro D. pose proof D as Dp. apply ldl2_dom_piv in Dp.
  destruct (jets_of_open (p_ldl 2) (routine_param (RLdl 2)) k o x (all_vars 4) ldl2_E ldl2_piv
              ldl2_run (ldl2_piv_open x Dp) (ldl2_E_safe x Dp)) as (_ & _ & J & HJ & HR & HJE & HO & HE).
  exists J. split; [exact HJ|]. split; [exact HR|]. split; [|split; [exact HO|exact HE]].
  rewrite HJE, map_map. rewrite <- (ldl2_values x D). apply map_ext. intro e. apply jv_evalJ.
Qed.

Example ldl2_dom_example : ldl2_dom (fun i => nth i [4; 7; 2; 3] 0).
Proof. split; cbn; lra. Qed.

(* ================================================================== 3 x 3 *)
Definition ldl3_d0 : expr := ESub (Var 0) (Cst 0).
Definition ldl3_l10 : expr := EDiv (ESub (Var 3) (Cst 0)) ldl3_d0.
Definition ldl3_l20 : expr := EDiv (ESub (Var 6) (Cst 0)) ldl3_d0.
Definition ldl3_d1 : expr := ESub (Var 4) (EAdd (Cst 0) (EMul ldl3_d0 (EMul ldl3_l10 ldl3_l10))).
Definition ldl3_l21 : expr := EDiv (ESub (Var 7) (EAdd (Cst 0) (EMul ldl3_d0 (EMul ldl3_l20 ldl3_l10)))) ldl3_d1.
Definition ldl3_d2 : expr :=
  ESub (Var 8) (EAdd (EAdd (Cst 0) (EMul ldl3_d0 (EMul ldl3_l20 ldl3_l20))) (EMul ldl3_d1 (EMul ldl3_l21 ldl3_l21))).
Definition ldl3_E : list expr :=
  [Cst 1; Cst 0; Cst 0;   ldl3_l10; Cst 1; Cst 0;   ldl3_l20; ldl3_l21; Cst 1;
   ldl3_d0; Cst 0; Cst 0;   Cst 0; ldl3_d1; Cst 0;   Cst 0; Cst 0; ldl3_d2].

(* the domain through the symbolic pivots ... *)
Definition ldl3_piv (x : nat -> R) : Prop :=
  0 < evalR x ldl3_d0 /\ 0 < evalR x ldl3_d1 /\ 0 < evalR x ldl3_d2.
(* ... and as explicit inequalities: the three leading principal minors of the symmetric
   matrix whose lower triangle is read (x0; x3 x4; x6 x7 x8) are positive *)
Definition ldl3_m2 (x : nat -> R) : R := x 0%nat * x 4%nat - x 3%nat * x 3%nat.
Definition ldl3_m3 (x : nat -> R) : R :=
  x 0%nat * (x 4%nat * x 8%nat - x 7%nat * x 7%nat)
  - x 3%nat * (x 3%nat * x 8%nat - x 7%nat * x 6%nat)
  + x 6%nat * (x 3%nat * x 7%nat - x 4%nat * x 6%nat).
Definition ldl3_dom (x : nat -> R) : Prop := 0 < x 0%nat /\ 0 < ldl3_m2 x /\ 0 < ldl3_m3 x.

Lemma ldl3_d0_val x : evalR x ldl3_d0 = x 0%nat.
Proof. unfold evalR. cbn. ring. Qed.
Lemma ldl3_d1_val x : x 0%nat <> 0 -> evalR x ldl3_d1 = ldl3_m2 x / x 0%nat.
Proof. intro H. unfold evalR, ldl3_m2. cbn. field. lra. Qed.
Lemma ldl3_d2_val x : x 0%nat <> 0 -> ldl3_m2 x <> 0 -> evalR x ldl3_d2 = ldl3_m3 x / ldl3_m2 x.
Proof.
  intros H H2. unfold ldl3_m2 in H2. unfold evalR, ldl3_m3, ldl3_m2. cbn. field.
  repeat split; lra.
Qed.

Lemma div_pos_iff a b : 0 < b -> (0 < a / b <-> 0 < a).
Proof.
  intro Hb. split; intro H.
  - replace a with (b * (a / b)) by (field; lra). apply Rmult_lt_0_compat; assumption.
  - apply Rdiv_lt_0_compat; assumption.
Qed.

Lemma ldl3_dom_piv x : ldl3_dom x <-> ldl3_piv x.
Proof.
  unfold ldl3_dom, ldl3_piv. rewrite ldl3_d0_val. split.
  - intros (H0 & H1 & H2).
    rewrite ldl3_d1_val by (apply pos_neq; exact H0).
    rewrite ldl3_d2_val by (apply pos_neq; assumption).
    split; [exact H0|]. split; apply Rdiv_lt_0_compat; assumption.
  - intros (H0 & H1 & H2).
    pose proof (pos_neq _ H0) as N0.
    rewrite (ldl3_d1_val x N0) in H1. apply (proj1 (div_pos_iff _ _ H0)) in H1.
    pose proof (pos_neq _ H1) as N1.
    rewrite (ldl3_d2_val x N0 N1) in H2. apply (proj1 (div_pos_iff _ _ H1)) in H2.
    split; [exact H0|]. split; assumption.
Qed.

Lemma ldl3_run x : ldl3_piv x -> runE (p_ldl 3) x (all_vars 9) = Some ldl3_E.
Proof.
  intros (H0 & H1 & H2). unfold runE.
  assert (E0 : Rleb (evalR x ldl3_d0) (evalR x (Cst 0)) = false) by (apply Rleb_false; exact H0).
  assert (E1 : Rleb (evalR x ldl3_d1) (evalR x (Cst 0)) = false) by (apply Rleb_false; exact H1).
  assert (E2 : Rleb (evalR x ldl3_d2) (evalR x (Cst 0)) = false) by (apply Rleb_false; exact H2).
  cbv -[Rleb evalR IZR] in E0, E1, E2 |- *.
  rewrite E0, E1, E2. reflexivity.
Qed.

Lemma ldl3_piv_safe x : ldl3_piv x ->
  safe x ldl3_d0 /\ safe x ldl3_d1 /\ safe x ldl3_d2 /\ safe x ldl3_l10 /\ safe x ldl3_l20 /\ safe x ldl3_l21.
Proof.
  intros (H0 & H1 & H2). pose proof (pos_neq _ H0) as N0. pose proof (pos_neq _ H1) as N1.
  assert (S0 : safe x ldl3_d0) by (cbn; auto).
  assert (S10 : safe x ldl3_l10) by (cbn [safe ldl3_l10]; repeat split; exact N0).
  assert (S20 : safe x ldl3_l20) by (cbn [safe ldl3_l20]; repeat split; exact N0).
  assert (S1 : safe x ldl3_d1) by (cbn [safe ldl3_d1]; repeat split; assumption).
  assert (S21 : safe x ldl3_l21) by (cbn [safe ldl3_l21]; repeat split; assumption).
  assert (S2 : safe x ldl3_d2) by (cbn [safe ldl3_d2]; repeat split; assumption).
  repeat split; assumption.
Qed.

Lemma ldl3_E_safe x : ldl3_piv x -> List.Forall (safe x) ldl3_E.
Proof.
  intros D. destruct (ldl3_piv_safe x D) as (S0 & S1 & S2 & S10 & S20 & S21).
  unfold ldl3_E. repeat apply Forall_cons; try apply Forall_nil; try assumption; exact I.
Qed.

Lemma ldl3_piv_open x : ldl3_piv x -> locally x ldl3_piv.
Proof.
  intros D. destruct (ldl3_piv_safe x D) as (S0 & S1 & S2 & _). destruct D as (H0 & H1 & H2).
  apply filter_and; [|apply filter_and]; apply pos_locally; assumption.
Qed.

Lemma ldl3_safe x : ldl3_dom x -> run_safe (p_ldl 3) (all_vars 9) x.
Proof.
  intro D. apply ldl3_dom_piv in D. exists ldl3_E. split; [apply ldl3_run; exact D|apply ldl3_E_safe; exact D].
Qed.

Lemma ldl3_stable x : ldl3_dom x -> stable (p_ldl 3) (all_vars 9) x.
Proof.
  intro D. apply ldl3_dom_piv in D.
  apply (stable_of_locally _ _ x ldl3_piv ldl3_E ldl3_run). apply ldl3_piv_open. exact D.
Qed.

(* the pivots are the ratios of consecutive leading principal minors *)
Lemma ldl3_pivot_values x : ldl3_dom x ->
  evalR x ldl3_d0 = x 0%nat /\ evalR x ldl3_d1 = ldl3_m2 x / x 0%nat /\ evalR x ldl3_d2 = ldl3_m3 x / ldl3_m2 x.
Proof.
  intros (H0 & H1 & H2). split; [apply ldl3_d0_val|]. split; [apply ldl3_d1_val|apply ldl3_d2_val]; apply pos_neq; assumption.
Qed.

Theorem ldl3_jets k o x : ldl3_dom x ->
  exists J, runJ (p_ldl 3) k o x (all_vars 9) = Some J /\
            runR (p_ldl 3) x (all_vars 9) = Some (map jv J) /\
            J = map (evalJ k o x) ldl3_E /\
            (forall q, holds k o (outR (p_ldl 3) (all_vars 9) q) x (nth q J (jconst 0))) /\
            (forall q, holds k o (fun y => evalR y (nth q ldl3_E (Cst 0))) x (nth q J (jconst 0))).
Proof.
  intro D. apply ldl3_dom_piv in D.
  destruct (jets_of_open (p_ldl 3) (routine_param (RLdl 3)) k o x (all_vars 9) ldl3_E ldl3_piv
              ldl3_run (ldl3_piv_open x D) (ldl3_E_safe x D)) as (_ & _ & HJ).
  exact HJ.
Qed.

(* [[4,2,2],[2,5,3],[2,3,6]] : minors 4, 16, 60; the upper triangle is not read *)
Example ldl3_dom_example : ldl3_dom (fun i => nth i [4; 9; 9; 2; 5; 9; 2; 3; 6] 0).
Proof. unfold ldl3_dom, ldl3_m2, ldl3_m3. cbn. repeat split; lra. Qed.
