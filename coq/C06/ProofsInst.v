(* C06/ProofsInst.v — jet_lift instantiated: every modelled routine, and the
   branch-free routines without the "locally constant branches" hypothesis;
   concrete sizes (2x2, 3x3) with the hypotheses discharged. *)
From Coq Require Import Reals List Lia Lra Bool ZArith Psatz.
From Coquelicot Require Import Coquelicot.
From ADV Require Import Base.Num C06.Model C06.Spec C06.ParamT C06.ProofsAlg C06.ProofsAna C06.ProofsLift.
Import ListNotations.
Open Scope R_scope.

(* ------------------------------------------------------------------ all modelled routines *)
Inductive routine :=
| RBacksub (n : nat) | RDet (n : nat) | RDetPD (n : nat) | RLogDetPD (n : nat)
| RInv (mode : M4.inv_mode) (n : nat) | RGJ (ut : bool) (n : nat)
| RChol (n : nat) | RLdl (n : nat) | RMdotM (n m1 m : nat)
| RGramSchmidt (n m : nat) | RHessenberg (n : nat) | RHouseholder | RGivens
| RTridiag (n : nat) | RBidiag (m n : nat).

Definition prog_of_routine (r : routine) : prog :=
  match r with
  | RBacksub n => p_backsub n | RDet n => p_det n | RDetPD n => p_detpd n | RLogDetPD n => p_logdetpd n
  | RInv mode n => p_inv mode n | RGJ ut n => p_gj ut n
  | RChol n => p_chol n | RLdl n => p_ldl n | RMdotM n m1 m => p_mdotm n m1 m
  | RGramSchmidt n m => p_gs n m | RHessenberg n => p_hess n | RHouseholder => p_house | RGivens => p_givens
  | RTridiag n => p_tridiag n | RBidiag m n => p_bidiag m n
  end.

Lemma inv_mode_R_refl m : inv_mode_R m m.
Proof. destruct m; constructor. Qed.

(* the free theorem of every routine (ParamT.v) at equal size parameters *)
Definition routine_param (r : routine) : prog_R (prog_of_routine r) (prog_of_routine r) :=
  match r return prog_R (prog_of_routine r) (prog_of_routine r) with
  | RBacksub n => p_backsub_R n n (nat_R_refl n)
  | RDet n => p_det_R n n (nat_R_refl n)
  | RDetPD n => p_detpd_R n n (nat_R_refl n)
  | RLogDetPD n => p_logdetpd_R n n (nat_R_refl n)
  | RInv mode n => p_inv_R mode mode (inv_mode_R_refl mode) n n (nat_R_refl n)
  | RGJ ut n => p_gj_R ut ut (bool_R_refl ut) n n (nat_R_refl n)
  | RChol n => ADV_o_C06_o_Model_o_p_chol_R n n (nat_R_refl n)
  | RLdl n => ADV_o_C06_o_Model_o_p_ldl_R n n (nat_R_refl n)
  | RMdotM n m1 m => p_mdotm_R n n (nat_R_refl n) m1 m1 (nat_R_refl m1) m m (nat_R_refl m)
  | RGramSchmidt n m => ADV_o_C06_o_Model_o_p_gs_R n n (nat_R_refl n) m m (nat_R_refl m)
  | RHessenberg n => ADV_o_C06_o_Model_o_p_hess_R n n (nat_R_refl n)
  | RHouseholder => ADV_o_C06_o_Model_o_p_house_R
  | RGivens => ADV_o_C06_o_Model_o_p_givens_R
  | RTridiag n => ADV_o_C06_o_Model_o_p_tridiag_R n n (nat_R_refl n)
  | RBidiag m n => ADV_o_C06_o_Model_o_p_bidiag_R m m (nat_R_refl m) n n (nat_R_refl n)
  end.

Theorem routine_values r k o x s :
  option_map (map jv) (runJ (prog_of_routine r) k o x s) = runR (prog_of_routine r) x s.
Proof. apply values_agree. apply routine_param. Qed.

Theorem routine_jets r k o x s :
  run_safe (prog_of_routine r) s x -> stable (prog_of_routine r) s x ->
  exists J, runJ (prog_of_routine r) k o x s = Some J /\
            runR (prog_of_routine r) x s = Some (map jv J) /\
            forall q, holds k o (outR (prog_of_routine r) s q) x (nth q J (jconst 0)).
Proof. apply jet_lift_gen. apply routine_param. Qed.

(* ------------------------------------------------------------------ branch-free routines: no comparison is ever consulted *)
Lemma stable_backsub n s x : stable (p_backsub n) s x.
Proof. exists 1. split; [lra|]. intros y _. reflexivity. Qed.
Lemma stable_det n s x : stable (p_det n) s x.
Proof. exists 1. split; [lra|]. intros y _. reflexivity. Qed.
Lemma stable_mdotm n m1 m s x : stable (p_mdotm n m1 m) s x.
Proof. exists 1. split; [lra|]. intros y _. reflexivity. Qed.

Theorem backsub_jets n k o x s : run_safe (p_backsub n) s x ->
  exists J, runJ (p_backsub n) k o x s = Some J /\ runR (p_backsub n) x s = Some (map jv J) /\
            forall q, holds k o (outR (p_backsub n) s q) x (nth q J (jconst 0)).
Proof. intro H. apply (routine_jets (RBacksub n) k o x s H). apply stable_backsub. Qed.

Theorem det_jets n k o x s : run_safe (p_det n) s x ->
  exists J, runJ (p_det n) k o x s = Some J /\ runR (p_det n) x s = Some (map jv J) /\
            forall q, holds k o (outR (p_det n) s q) x (nth q J (jconst 0)).
Proof. intro H. apply (routine_jets (RDet n) k o x s H). apply stable_det. Qed.

Theorem mdotm_jets n m1 m k o x s : run_safe (p_mdotm n m1 m) s x ->
  exists J, runJ (p_mdotm n m1 m) k o x s = Some J /\ runR (p_mdotm n m1 m) x s = Some (map jv J) /\
            forall q, holds k o (outR (p_mdotm n m1 m) s q) x (nth q J (jconst 0)).
Proof. intro H. apply (routine_jets (RMdotM n m1 m) k o x s H). apply stable_mdotm. Qed.

(* ------------------------------------------------------------------ concrete sizes, hypotheses discharged *)
(* all entries activated, in row-major order *)
Definition all_vars (m : nat) : spec := map (fun i => (Some i, 0)) (seq 0 m).

(* determinant 2x2 and 3x3: no hypothesis at all, every point *)
Lemma det2_safe x : run_safe (p_det 2) (all_vars 4) x.
Proof. eexists. split; [reflexivity|]. repeat constructor. Qed.
Lemma det3_safe x : run_safe (p_det 3) (all_vars 9) x.
Proof. eexists. split; [reflexivity|]. repeat constructor. Qed.

Theorem det2_jets k o x :
  exists J, runJ (p_det 2) k o x (all_vars 4) = Some [J] /\
            holds k o (fun y => y 0%nat * y 3%nat - y 2%nat * y 1%nat) x J.
Proof.
  destruct (det_jets 2 k o x (all_vars 4) (det2_safe x)) as (J & HJ & HR & HH).
  destruct J as [|J0 [|J1 J]]; try discriminate HR. exists J0. split; [exact HJ|].
  exact (HH 0%nat).
Qed.

Theorem det3_jets k o x :
  exists J, runJ (p_det 3) k o x (all_vars 9) = Some [J] /\
            holds k o (fun y => 0 + y 0%nat * (y 4%nat * y 8%nat - y 7%nat * y 5%nat)
                                 - y 1%nat * (y 3%nat * y 8%nat - y 6%nat * y 5%nat)
                                 + y 2%nat * (y 3%nat * y 7%nat - y 6%nat * y 4%nat)) x J.
Proof.
  destruct (det_jets 3 k o x (all_vars 9) (det3_safe x)) as (J & HJ & HR & HH).
  destruct J as [|J0 [|J1 J]]; try discriminate HR. exists J0. split; [exact HJ|].
  exact (HH 0%nat).
Qed.

(* matrix product 2x2 * 2x2 *)
Lemma mdotm2_safe x : run_safe (p_mdotm 2 2 2) (all_vars 8) x.
Proof. eexists. split; [reflexivity|]. repeat constructor. Qed.

(* back substitution 2x2 and 3x3: the diagonal must be non-zero *)
Lemma backsub2_safe x : x 0%nat <> 0 -> x 3%nat <> 0 -> run_safe (p_backsub 2) (all_vars 6) x.
Proof.
  intros H0 H3. eexists. split; [reflexivity|].
  repeat constructor; cbn; assumption.
Qed.
Lemma backsub3_safe x : x 0%nat <> 0 -> x 4%nat <> 0 -> x 8%nat <> 0 -> run_safe (p_backsub 3) (all_vars 12) x.
Proof.
  intros H0 H4 H8. eexists. split; [reflexivity|].
  repeat constructor; cbn; assumption.
Qed.

Theorem backsub2_jets k o x : x 0%nat <> 0 -> x 3%nat <> 0 ->
  exists J, runJ (p_backsub 2) k o x (all_vars 6) = Some J /\ runR (p_backsub 2) x (all_vars 6) = Some (map jv J) /\
            forall q, holds k o (outR (p_backsub 2) (all_vars 6) q) x (nth q J (jconst 0)).
Proof. intros H0 H3. apply backsub_jets. apply backsub2_safe; assumption. Qed.

Theorem backsub3_jets k o x : x 0%nat <> 0 -> x 4%nat <> 0 -> x 8%nat <> 0 ->
  exists J, runJ (p_backsub 3) k o x (all_vars 12) = Some J /\ runR (p_backsub 3) x (all_vars 12) = Some (map jv J) /\
            forall q, holds k o (outR (p_backsub 3) (all_vars 12) q) x (nth q J (jconst 0)).
Proof. intros H0 H4 H8. apply backsub_jets. apply backsub3_safe; assumption. Qed.

(* ------------------------------------------------------------------ a branching routine with every hypothesis discharged: Cholesky *)
Lemma Rltb_false a b : b <= a -> Rltb a b = false.
Proof. intro H. unfold Rltb. destruct (Rlt_dec a b); [lra|reflexivity]. Qed.

(* 1 x 1 *)
Lemma chol1_run x : 0 < x 0%nat -> runE (p_chol 1) x (all_vars 1) = Some [ESqrt (ESub (Var 0) (Cst 0))].
Proof.
  intros H. unfold runE, p_chol, M5.cholesky, M5.cholesky_with. cbn -[Rltb evalR].
  rewrite Rltb_false by (cbn; lra). reflexivity.
Qed.

Lemma chol1_safe x : 0 < x 0%nat -> run_safe (p_chol 1) (all_vars 1) x.
Proof.
  intro H. eexists. split; [apply chol1_run; exact H|]. repeat constructor. cbn. lra.
Qed.

Lemma chol1_stable x : 0 < x 0%nat -> stable (p_chol 1) (all_vars 1) x.
Proof.
  intro H. exists (x 0%nat). split; [exact H|]. intros y Hy.
  rewrite (chol1_run x H). apply chol1_run.
  specialize (Hy 0%nat). apply Rabs_def2 in Hy. lra.
Qed.

Theorem chol1_jets k o x : 0 < x 0%nat ->
  exists J, runJ (p_chol 1) k o x (all_vars 1) = Some [J] /\ holds k o (fun y => sqrt (y 0%nat - 0)) x J.
Proof.
  intro H.
  destruct (routine_jets (RChol 1) k o x (all_vars 1) (chol1_safe x H) (chol1_stable x H)) as (J & HJ & HR & HH).
  pose proof (runR_runE x (p_chol 1) (routine_param (RChol 1)) (all_vars 1)) as E. cbn [prog_of_routine] in *.
  rewrite (chol1_run x H) in E. rewrite E in HR. cbn in HR.
  destruct J as [|J0 [|J1 J]]; try discriminate HR. exists J0. split; [exact HJ|].
  destruct (HH 0%nat) as (H1 & H2 & H3). cbn [nth] in *.
  destruct (chol1_stable x H) as (delta & Hd & Hst).
  assert (HF : forall y, box x delta y -> outR (p_chol 1) (all_vars 1) 0 y = sqrt (y 0%nat - 0)).
  { intros y Hy. unfold outR. rewrite (runR_runE y (p_chol 1) (routine_param (RChol 1))).
    rewrite (Hst y Hy), (chol1_run x H). reflexivity. }
  split; [|split].
  - rewrite H1. apply HF. apply box_self. exact Hd.
  - intros Ho i Hi. apply (partial_ext_loc _ _ x delta i _ Hd HF). apply H2; assumption.
  - intros Ho i j Hi Hj. apply (partial2_ext_loc _ _ x delta i j _ Hd HF). apply H3; assumption.
Qed.

(* 2 x 2 (the routine reads the lower triangle: entries 0, 2, 3) *)
Definition chol2_E : list expr :=
  let l00 := ESqrt (ESub (Var 0) (Cst 0)) in
  let l10 := EDiv (ESub (Var 2) (Cst 0)) l00 in
  [l00; Cst 0; l10; ESqrt (ESub (Var 3) (EAdd (Cst 0) (EMul l10 l10)))].

Definition chol2_dom (x : nat -> R) : Prop :=
  0 < x 0%nat /\ 0 < x 3%nat - (x 2%nat / sqrt (x 0%nat)) * (x 2%nat / sqrt (x 0%nat)).

Lemma chol2_run x : chol2_dom x -> runE (p_chol 2) x (all_vars 4) = Some chol2_E.
Proof.
  intros [H H2]. unfold runE, p_chol, M5.cholesky, M5.cholesky_with. cbn -[Rltb evalR].
  rewrite Rltb_false by (cbn; lra). cbn -[Rltb evalR].
  rewrite Rltb_false; [reflexivity|]. cbn. rewrite !Rminus_0_r, Rplus_0_l. lra.
Qed.

Lemma chol2_safe x : chol2_dom x -> run_safe (p_chol 2) (all_vars 4) x.
Proof.
  intros D. pose proof D as [H H2]. exists chol2_E. split; [apply chol2_run; exact D|].
  assert (Hs : sqrt (x 0%nat - 0) <> 0) by (apply sqrt_pos_neq; lra).
  unfold chol2_E. repeat constructor; cbn; try lra; try exact Hs.
  rewrite !Rminus_0_r, Rplus_0_l. lra.
Qed.

Lemma chol2_dom_poly y : 0 < y 0%nat ->
  (0 < y 3%nat - (y 2%nat / sqrt (y 0%nat)) * (y 2%nat / sqrt (y 0%nat)) <-> 0 < y 0%nat * y 3%nat - y 2%nat * y 2%nat).
Proof.
  intro H. assert (Hs : sqrt (y 0%nat) <> 0) by (apply sqrt_pos_neq; exact H).
  assert (E : y 2%nat / sqrt (y 0%nat) * (y 2%nat / sqrt (y 0%nat)) = y 2%nat * y 2%nat / y 0%nat).
  { rewrite <- (sqrt_sqrt (y 0%nat)) at 3 by lra. field. exact Hs. }
  rewrite E. split; intro K.
  - assert (0 < y 0%nat * (y 3%nat - y 2%nat * y 2%nat / y 0%nat)) by (apply Rmult_lt_0_compat; assumption).
    replace (y 0%nat * y 3%nat - y 2%nat * y 2%nat) with (y 0%nat * (y 3%nat - y 2%nat * y 2%nat / y 0%nat)) by (field; lra).
    assumption.
  - replace (y 3%nat - y 2%nat * y 2%nat / y 0%nat) with ((y 0%nat * y 3%nat - y 2%nat * y 2%nat) / y 0%nat) by (field; lra).
    apply Rdiv_lt_0_compat; assumption.
Qed.

Lemma poly_open (x0 x2 x3 : R) : 0 < x0 -> 0 < x0 * x3 - x2 * x2 ->
  exists delta, 0 < delta /\ forall a b d, Rabs a < delta -> Rabs b < delta -> Rabs d < delta ->
    0 < x0 + a /\ 0 < (x0 + a) * (x3 + b) - (x2 + d) * (x2 + d).
Proof.
  intros H0 Hc. set (c := x0 * x3 - x2 * x2) in *.
  set (M := Rabs x0 + Rabs x3 + Rabs x2 + 1).
  assert (HM : 1 <= M) by (unfold M; pose proof (Rabs_pos x0); pose proof (Rabs_pos x3); pose proof (Rabs_pos x2); lra).
  assert (B0 : Rabs x0 <= M) by (unfold M; pose proof (Rabs_pos x3); pose proof (Rabs_pos x2); lra).
  assert (B3 : Rabs x3 <= M) by (unfold M; pose proof (Rabs_pos x0); pose proof (Rabs_pos x2); lra).
  assert (B2 : Rabs x2 <= M) by (unfold M; pose proof (Rabs_pos x0); pose proof (Rabs_pos x3); lra).
  assert (Hq : 0 < c / (8 * M)) by (apply Rdiv_lt_0_compat; lra).
  exists (Rmin (x0 / 2) (Rmin 1 (c / (8 * M)))). split.
  - repeat apply Rmin_glb_lt; lra.
  - intros a b d Ha Hb Hd.
    set (dl := Rmin (x0 / 2) (Rmin 1 (c / (8 * M)))) in *.
    assert (D1 : dl <= x0 / 2) by apply Rmin_l.
    assert (D2 : dl <= 1) by (eapply Rle_trans; [apply Rmin_r|apply Rmin_l]).
    assert (D3 : dl <= c / (8 * M)) by (eapply Rle_trans; [apply Rmin_r|apply Rmin_r]).
    assert (D4 : dl * (8 * M) <= c).
    { apply (Rmult_le_compat_r (8 * M)) in D3; [|lra]. replace (c / (8 * M) * (8 * M)) with c in D3 by (field; lra). exact D3. }
    assert (Dp : 0 < dl) by (eapply Rle_lt_trans; [apply Rabs_pos|exact Ha]).
    apply Rabs_def2 in Ha. apply Rabs_def2 in Hb. apply Rabs_def2 in Hd.
    apply Rabs_le_between in B0. apply Rabs_le_between in B3. apply Rabs_le_between in B2.
    split; [lra|].
    assert (T1 : - (M * dl) <= x0 * b) by nra.
    assert (T2 : - (M * dl) <= x3 * a) by nra.
    assert (T3 : - (M * dl) <= a * b) by nra.
    assert (T4 : - (2 * M * dl) <= - (2 * x2 * d)) by nra.
    assert (T5 : - (M * dl) <= - (d * d)) by nra.
    replace ((x0 + a) * (x3 + b) - (x2 + d) * (x2 + d)) with (c + x0 * b + x3 * a + a * b - 2 * x2 * d - d * d) by (unfold c; ring).
    nra.
Qed.

Lemma chol2_stable x : chol2_dom x -> stable (p_chol 2) (all_vars 4) x.
Proof.
  intros D. pose proof D as [H0 H2].
  apply (chol2_dom_poly x H0) in H2.
  destruct (poly_open (x 0%nat) (x 2%nat) (x 3%nat) H0 H2) as (delta & Hd & HP).
  exists delta. split; [exact Hd|]. intros y Hy.
  rewrite (chol2_run x D). apply chol2_run.
  destruct (HP (y 0%nat - x 0%nat) (y 3%nat - x 3%nat) (y 2%nat - x 2%nat) (Hy 0%nat) (Hy 3%nat) (Hy 2%nat)) as [P0 P1].
  replace (x 0%nat + (y 0%nat - x 0%nat)) with (y 0%nat) in * by ring.
  replace (x 3%nat + (y 3%nat - x 3%nat)) with (y 3%nat) in * by ring.
  replace (x 2%nat + (y 2%nat - x 2%nat)) with (y 2%nat) in * by ring.
  split; [exact P0|]. apply (chol2_dom_poly y P0). exact P1.
Qed.

Theorem chol2_jets k o x : chol2_dom x ->
  exists J, runJ (p_chol 2) k o x (all_vars 4) = Some J /\ runR (p_chol 2) x (all_vars 4) = Some (map jv J) /\
            forall q, holds k o (fun y => evalR y (nth q chol2_E (Cst 0))) x (nth q J (jconst 0)).
Proof.
  intro D.
  pose proof (runJ_runE k o x (p_chol 2) (routine_param (RChol 2)) (all_vars 4)) as EJ.
  pose proof (runR_runE x (p_chol 2) (routine_param (RChol 2)) (all_vars 4)) as ER.
  rewrite (chol2_run x D) in EJ, ER. cbn [option_map] in EJ, ER.
  exists (map (evalJ k o x) chol2_E). split; [exact EJ|]. split.
  - rewrite ER, map_map. apply f_equal. apply map_ext. intro e. symmetry. apply jv_evalJ.
  - intro q. change (jconst 0) with (evalJ k o x (Cst 0)). rewrite map_nth.
    apply jet_lift_expr. apply nth_safe.
    destruct (chol2_safe x D) as (E & HE & HS). rewrite (chol2_run x D) in HE. injection HE as <-. exact HS.
Qed.

Lemma chol2_dom_example : chol2_dom (fun i => nth i [4; 2; 2; 3] 0).
Proof.
  assert (H0 : 0 < (fun i => nth i [4; 2; 2; 3] 0) 0%nat) by (cbn; lra).
  split; [exact H0|]. apply (chol2_dom_poly _ H0). cbn. lra.
Qed.
