(* C06/ModelOpt.v (round 5) — option combinations, type dispatch, factor buffers.

   (1) [chol_prog] / [p_gjm] / [p_invm] / [det_prog]: the program an OPTION SET of cholesky.Run (LDL x ForcePD),
       gaussJordan.Run (UpperTriangular x Submatrix), matrixInverse.Run (PositiveDefinite x UpperTriangular x
       Submatrix) and determinant.Run (PositiveDefinite) denotes.
   (2) the TYPE DISPATCH of the two Run functions that have hand-specialised kernels (cholesky.go,
       gaussJordan.go) in source order: [chol_dispatch], [gj_dispatch]; the dispatch TABLE as extracted from the
       Go source by go/ast on every run (harness/c06/dispatch.go) is compared with [src_table] and [src_table]
       is interpreted (first matching row) by [interp].
   (3) the LDL kernels as buffer-taking matrix-state machines ([ldl_buf], [fpd_buf]): the factor buffers L and
       D are explicit arguments (what the caller's InSitu struct held before), every write of the Go text is an
       [mset].
   No proofs in this file. *)
From Coq Require Import List ZArith Bool Reals Floats Arith.
From Coq Require String.
Import String.StringSyntax.
Notation string := String.string.
From ADV Require Import Base.Num.
From ADV Require C04.Model C04.Model2 C05.Model.
From ADV Require Import C06.Model C06.ModelBuf.
Import ListNotations.
Local Open Scope nat_scope.

(* ------------------------------------------------------------------ (1) option sets *)
Definition bits_mask (d : list nat) : list bool := map (fun b => negb (Nat.eqb b 0)) d.

(* cholesky.Run(a [, LDL{ldl}] [, ForcePD{fpd}]): ForcePD is read only when LDL is set.
   For the ForcePD program the two literals 1e-20 are the first two inputs (p_fpd). *)
Definition chol_prog (ldl fpd : bool) (n : nat) : prog :=
  if ldl then (if fpd then p_fpd n else p_ldl n) else p_chol n.

(* gaussJordan.Run(a, x, b [, UpperTriangular{ut}] [, Submatrix{msk}]) *)
Definition p_gjm (ut : bool) (n : nat) (msk : list bool) : prog := fun A X lg inp =>
  of_outcome (fun s => concat (M4.sa s) ++ concat (M4.sx s) ++ M4.sb s)
    (M4.gj_run (M5.nx X) false ut n msk
       (M4.mkSt (chunk n n inp) (chunk n n (skipn (n * n) inp)) (skipn (2 * (n * n)) inp))).

(* matrixInverse.Run(m [, PositiveDefinite] [, UpperTriangular] [, Submatrix{msk}]) *)
Definition p_invm (mode : M4.inv_mode) (n : nat) (omsk : option (list bool)) : prog := fun A X lg inp =>
  of_outcome (@concat A) (M4b.m_inverse_v2 (M5.nx X) false mode n omsk (chunk n n inp)).
(* PositiveDefinite wins over UpperTriangular (matrixInverse.go Run, last if) *)
Definition inv_mode_of (pd ut : bool) : M4.inv_mode := if pd then M4.InvPD else if ut then M4.InvUT else M4.InvPlain.

(* routine r, option bits o, dims d = n :: (mask bits, empty = no Submatrix option) *)
Definition opt_prog (r o : nat) (d : list nat) : prog :=
  let n := nth 0 d 0 in
  let mb := tl d in
  let b0 := Nat.odd o in let b1 := Nat.odd (o / 2) in
  match r with
  | 0 => chol_prog b0 b1 n
  | 1 => p_gjm b0 n (match mb with [] => M4.all_true n | _ => bits_mask mb end)
  | 2 => p_invm (inv_mode_of b0 b1) n (match mb with [] => None | _ => Some (bits_mask mb) end)
  | 3 => if b0 then p_detpd n else p_det n
  | _ => fun _ _ _ _ => None
  end.

(* ------------------------------------------------------------------ (2) type dispatch *)
Inductive cty := CF32 | CF64 | COther.     (* what a concrete-type assertion sees *)
Inductive impl := IF32 | IF64 | IGen.      (* which hand-written copy runs *)
Inductive fam := FChol | FLdl | FFpd | FGJ | FGJUT.
Definition kern := (fam * impl)%type.

Definition cty_eqb (a b : cty) : bool :=
  match a, b with CF32, CF32 | CF64, CF64 | COther, COther => true | _, _ => false end.
Definition all_ty (t : cty) (l : list cty) : bool := forallb (cty_eqb t) l.

(* cholesky.go Run, lines "if ldl { {Float32} {Float64} generic } else { {Float32} {Float64} generic }" *)
Definition chol_dispatch (ldl fpd : bool) (tA tL tD tS tT : cty) : kern :=
  if ldl then
    if all_ty CF32 [tA; tL; tD; tS; tT] then (if fpd then (FFpd, IF32) else (FLdl, IF32))
    else if all_ty CF64 [tA; tL; tD; tS; tT] then (if fpd then (FFpd, IF64) else (FLdl, IF64))
    else (if fpd then (FFpd, IGen) else (FLdl, IGen))
  else
    if all_ty CF32 [tA; tL; tS; tT] then (FChol, IF32)
    else if all_ty CF64 [tA; tL; tS; tT] then (FChol, IF64)
    else (FChol, IGen).

(* gaussJordan.go Run *)
Definition gj_dispatch (ut : bool) (ta tb tx : cty) : kern :=
  if all_ty CF64 [ta; tb; tx] then (if ut then (FGJUT, IF64) else (FGJ, IF64))
  else (if ut then (FGJUT, IGen) else (FGJ, IGen)).

(* the algorithm family an option set asks for, whatever the types *)
Definition chol_fam (ldl fpd : bool) : fam := if ldl then (if fpd then FFpd else FLdl) else FChol.
Definition gj_fam (ut : bool) : fam := if ut then FGJUT else FGJ.

(* the program a kernel computes: the three copies of a family are the same text up to the
   element type (replayed: Corr.v), so the program depends on the family only *)
Definition fam_prog (f : fam) (n : nat) : prog :=
  match f with
  | FChol => p_chol n | FLdl => p_ldl n | FFpd => p_fpd n
  | FGJ => p_gj false n | FGJUT => p_gj true n
  end.
Definition kern_prog (k : kern) (n : nat) : prog := fam_prog (fst k) n.

(* ---- the table as it stands in the source ---- *)
(* a row: option-flag conditions on the path, (asserted expression, asserted type) guards that must all
   hold, callee, arguments *)
Record srow := mkRow { r_conds : list (string * bool); r_guards : list (string * string); r_callee : string; r_args : list string }.

Definition str_eqb := String.eqb.
Definition pair_eqb {S T} (e1 : S -> S -> bool) (e2 : T -> T -> bool) (a b : S * T) : bool :=
  e1 (fst a) (fst b) && e2 (snd a) (snd b).
Fixpoint leqb {T} (e : T -> T -> bool) (a b : list T) : bool :=
  match a, b with [] , [] => true | x :: a', y :: b' => e x y && leqb e a' b' | _, _ => false end.
Definition srow_eqb (a b : srow) : bool :=
  leqb (pair_eqb str_eqb Bool.eqb) (r_conds a) (r_conds b)
  && leqb (pair_eqb str_eqb str_eqb) (r_guards a) (r_guards b)
  && str_eqb (r_callee a) (r_callee b) && leqb str_eqb (r_args a) (r_args b).

Local Open Scope string_scope.
Definition g5 (t s : string) : list (string * string) :=
  [("a", String.append "*Dense" (String.append t "Matrix")); ("inSitu.L", String.append "*Dense" (String.append t "Matrix")); ("inSitu.D", String.append "*Dense" (String.append t "Matrix"));
   ("inSitu.S", s); ("inSitu.T", s)].
Definition g4 (t s : string) : list (string * string) :=
  [("a", String.append "*Dense" (String.append t "Matrix")); ("inSitu.L", String.append "*Dense" (String.append t "Matrix")); ("inSitu.S", s); ("inSitu.T", s)].

(* cholesky.go: option parsing rows (callee "=") then the dispatch rows in source order *)
Definition src_table_chol : list srow :=
  [ mkRow [] [("arg", "LDL")] "=" ["ldl"; "a.Value"];
    mkRow [] [("arg", "ForcePD")] "=" ["forcePD"; "a.Value"];
    mkRow [] [("arg", "*InSitu")] "=" ["inSitu"; "a"];
    mkRow [("ldl", true); ("forcePD", true)] (g5 "Float32" "Float32") "cholesky_ldl_forcepd_float32" ["A"; "L"; "D"; "s"; "t"];
    mkRow [("ldl", true); ("forcePD", false)] (g5 "Float32" "Float32") "cholesky_ldl_float32" ["A"; "L"; "D"; "s"; "t"];
    mkRow [("ldl", true); ("forcePD", true)] (g5 "Float64" "Float64") "cholesky_ldl_forcepd_float64" ["A"; "L"; "D"; "s"; "t"];
    mkRow [("ldl", true); ("forcePD", false)] (g5 "Float64" "Float64") "cholesky_ldl_float64" ["A"; "L"; "D"; "s"; "t"];
    mkRow [("ldl", true); ("forcePD", true)] [] "cholesky_ldl_forcepd" ["a"; "inSitu.L"; "inSitu.D"; "inSitu.S"; "inSitu.T"];
    mkRow [("ldl", true); ("forcePD", false)] [] "cholesky_ldl" ["a"; "inSitu.L"; "inSitu.D"; "inSitu.S"; "inSitu.T"];
    mkRow [("ldl", false)] (g4 "Float32" "Float32") "cholesky_float32" ["A"; "L"; "s"; "t"];
    mkRow [("ldl", false)] (g4 "Float64" "Float64") "cholesky_float64" ["A"; "L"; "s"; "t"];
    mkRow [("ldl", false)] [] "cholesky" ["a"; "inSitu.L"; "inSitu.S"; "inSitu.T"] ].

Definition g3 : list (string * string) :=
  [("a", "*DenseFloat64Matrix"); ("b", "DenseFloat64Vector"); ("x", "*DenseFloat64Matrix")].
Definition src_table_gj : list srow :=
  [ mkRow [] [("arg", "Submatrix")] "=" ["submatrix"; "a.Value"];
    mkRow [] [("arg", "UpperTriangular")] "=" ["triangular"; "a.Value"];
    mkRow [("triangular", true)] g3 "gaussJordanUpperTriangular_DenseFloat64" ["ad"; "xd"; "bd"; "submatrix"];
    mkRow [("triangular", false)] g3 "gaussJordan_DenseFloat64" ["ad"; "xd"; "bd"; "submatrix"];
    mkRow [("triangular", true)] [] "gaussJordanUpperTriangular" ["a"; "x"; "b"; "submatrix"];
    mkRow [("triangular", false)] [] "gaussJordan" ["a"; "x"; "b"; "submatrix"] ].

Definition src_table (r : nat) : list srow :=
  match r with 0%nat => src_table_chol | 1%nat => src_table_gj | _ => [] end.

(* first matching row: flags : flag name -> value, tys : asserted expression -> concrete type name *)
Fixpoint interp (flags : string -> bool) (tys : string -> string) (t : list srow) : option string :=
  match t with
  | [] => None
  | r :: t' =>
      if str_eqb (r_callee r) "=" then interp flags tys t'
      else if forallb (fun c => Bool.eqb (flags (fst c)) (snd c)) (r_conds r)
              && forallb (fun g => str_eqb (tys (fst g)) (snd g)) (r_guards r)
           then Some (r_callee r) else interp flags tys t'
  end.

Definition kern_name (k : kern) : string :=
  match k with
  | (FChol, IF32) => "cholesky_float32" | (FChol, IF64) => "cholesky_float64" | (FChol, IGen) => "cholesky"
  | (FLdl, IF32) => "cholesky_ldl_float32" | (FLdl, IF64) => "cholesky_ldl_float64" | (FLdl, IGen) => "cholesky_ldl"
  | (FFpd, IF32) => "cholesky_ldl_forcepd_float32" | (FFpd, IF64) => "cholesky_ldl_forcepd_float64"
  | (FFpd, IGen) => "cholesky_ldl_forcepd"
  | (FGJ, IF64) => "gaussJordan_DenseFloat64" | (FGJ, _) => "gaussJordan"
  | (FGJUT, IF64) => "gaussJordanUpperTriangular_DenseFloat64" | (FGJUT, _) => "gaussJordanUpperTriangular"
  end.

(* concrete type names as the assertions spell them; matrices / vectors / scalars *)
Definition mname (t : cty) : string :=
  match t with CF32 => "*DenseFloat32Matrix" | CF64 => "*DenseFloat64Matrix" | COther => "?" end.
Definition vname (t : cty) : string :=
  match t with CF32 => "DenseFloat32Vector" | CF64 => "DenseFloat64Vector" | COther => "?" end.
Definition sname (t : cty) : string :=
  match t with CF32 => "Float32" | CF64 => "Float64" | COther => "?" end.

Definition chol_flags (ldl fpd : bool) (f : string) : bool :=
  if str_eqb f "ldl" then ldl else if str_eqb f "forcePD" then fpd else false.
Definition chol_tys (tA tL tD tS tT : cty) (e : string) : string :=
  if str_eqb e "a" then mname tA else if str_eqb e "inSitu.L" then mname tL else if str_eqb e "inSitu.D" then mname tD
  else if str_eqb e "inSitu.S" then sname tS else if str_eqb e "inSitu.T" then sname tT else "".
Definition gj_flags (ut : bool) (f : string) : bool := if str_eqb f "triangular" then ut else false.
Definition gj_tys (ta tb tx : cty) (e : string) : string :=
  if str_eqb e "a" then mname ta else if str_eqb e "b" then vname tb else if str_eqb e "x" then mname tx else "".
Local Close Scope string_scope.

Definition all_cty : list cty := [CF32; CF64; COther].
Definition all_bool : list bool := [true; false].

(* ------------------------------------------------------------------ (3) LDL kernels with explicit factor buffers *)
Section LdlBuf.
Context {A : Type} (X : M5.NumX A).
Let N : Num A := M5.nx X.
Variable n : nat.
Variable Am : list (list A).

(* s.Reset(); for k < j { t.Mul(L[r,k], L[j,k]); t.Mul(D[k,k], t); s.Add(s, t) } *)
Definition ldl_s (L D : list (list A)) (r j : nat) : A :=
  fold_left (fun s k => add N s (mul N (M4.mget N D k k) (mul N (M4.mget N L r k) (M4.mget N L j k)))) (seq 0 j) (zero N).

Definition clear_row (L : list (list A)) (j : nat) : list (list A) :=
  fold_left (fun L k => M4.mset L j k (zero N)) (seq (S j) (n - S j)) L.

(* cholesky_ldl, one column *)
Definition ldl_col (o : option (list (list A) * list (list A))) (j : nat) : option (list (list A) * list (list A)) :=
  match o with None => None | Some (L, D) =>
    let c := sub N (M4.mget N Am j j) (ldl_s L D j j) in
    let D1 := M4.mset D j j c in
    if leb N (M4.mget N D1 j j) (zero N) then None else
    let L1 := clear_row (M4.mset L j j (one N)) j in
    Some (fold_left (fun L i => M4.mset L i j (div N (sub N (M4.mget N Am i j) (ldl_s L D1 i j)) (M4.mget N D1 j j)))
                    (seq (S j) (n - S j)) L1, D1)
  end.

(* Run clears a caller-supplied D ("inSitu.D.Map(SetFloat64(0))") *)
Definition clear_mat (D : list (list A)) : list (list A) := map (map (fun _ => zero N)) D.

Definition ldl_buf (L0 D0 : list (list A)) : option (list (list A) * list (list A)) :=
  fold_left ldl_col (seq 0 n) (Some (L0, clear_mat D0)).

(* cholesky_ldl_forcepd, one column; beta, delta as in C05.Model *)
Definition fpd_col (beta delta : A) (LD : list (list A) * list (list A)) (j : nat) : list (list A) * list (list A) :=
  let '(L, D) := LD in
  let L1 := clear_row (M4.mset L j j (one N)) j in
  let D1 := M4.mset D j j (sub N (M4.mget N Am j j) (ldl_s L1 D j j)) in
  (* L[i,j] <- c_ij ; theta = running max of |c_ij| *)
  let Lt := fold_left (fun (st : list (list A) * A) i =>
                let L := fst st in
                let L' := M4.mset L i j (sub N (M4.mget N Am i j) (ldl_s L D1 i j)) in
                (L', M5.upd_max X (snd st) (M4.mget N L' i j)))
              (seq (S j) (n - S j)) (L1, M5.neg_inf X) in
  let L2 := fst Lt in let theta := snd Lt in
  let cjj := M4.mget N D1 j j in
  let d := if Nat.eqb j (n - 1) then M5.fmax X (nabs N cjj) delta
           else let q := div N theta beta in M5.fmax X (M5.fmax X (nabs N cjj) (mul N q q)) delta in
  let D2 := M4.mset D1 j j d in
  (fold_left (fun L i => M4.mset L i j (div N (M4.mget N L i j) (M4.mget N D2 j j))) (seq (S j) (n - S j)) L2, D2).

Definition fpd_buf (bfloor delta : A) (L0 D0 : list (list A)) : list (list A) * list (list A) :=
  fold_left (fpd_col (M5.fpd_beta X bfloor Am) delta) (seq 0 n) (L0, clear_mat D0).

End LdlBuf.

(* as programs: input  L0 (n*n) ++ D0 (n*n) ++ data *)
Definition p_ldl_buf (n : nat) : prog := fun A X lg inp =>
  let q := n * n in
  match ldl_buf X n (chunk n n (skipn (2 * q) inp)) (chunk n n inp) (chunk n n (skipn q inp)) with
  | Some (L, D) => Some (concat L ++ concat D) | None => None end.
Definition p_ldl_fresh (n : nat) : prog := fun A X lg inp =>
  match ldl_buf X n (chunk n n inp) (M4.zmat (M5.nx X) n) (M4.zmat (M5.nx X) n) with
  | Some (L, D) => Some (concat L ++ concat D) | None => None end.
(* data = bfloor :: delta :: a *)
Definition p_fpd_buf (n : nat) : prog := fun A X lg inp =>
  let q := n * n in
  let data := skipn (2 * q) inp in
  let r := fpd_buf X n (chunk n n (skipn 2 data)) (nth 0 data (zero (M5.nx X))) (nth 1 data (zero (M5.nx X)))
                   (chunk n n inp) (chunk n n (skipn q inp)) in
  Some (concat (fst r) ++ concat (snd r)).
Definition p_fpd_fresh (n : nat) : prog := fun A X lg inp =>
  let r := fpd_buf X n (chunk n n (skipn 2 inp)) (nth 0 inp (zero (M5.nx X))) (nth 1 inp (zero (M5.nx X)))
                   (M4.zmat (M5.nx X) n) (M4.zmat (M5.nx X) n) in
  Some (concat (fst r) ++ concat (snd r)).
