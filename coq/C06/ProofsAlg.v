(* C06/ProofsAlg.v — algebra of the jet carrier over R: the jet the library
   computes for an expression consists of the values of the expression and of
   its symbolic first and second derivatives. *)
From Coq Require Import Reals List Lia Lra Arith Bool.
From ADV Require Import Base.Num C06.Model C06.Spec.
Import ListNotations.
Open Scope R_scope.

Lemma nth_map_seq {B} (f : nat -> B) n i d : (i < n)%nat -> nth i (map f (seq 0 n)) d = f i.
Proof.
  intro H. rewrite (nth_indep _ d (f 0%nat)) by (rewrite map_length, seq_length; lia).
  rewrite map_nth, seq_nth by lia. reflexivity.
Qed.

Definition wfj (j : jet R) : Prop := ja j = false -> jg j = [] /\ jh j = [].

Lemma gd_inact j i : wfj j -> ja j = false -> gd NumDR j i = 0.
Proof. intros W H. destruct (W H) as [E _]. unfold gd. rewrite E. destruct i; reflexivity. Qed.
Lemma gh_inact j i q : wfj j -> ja j = false -> gh NumDR j i q = 0.
Proof. intros W H. destruct (W H) as [_ E]. unfold gh. rewrite E. destruct i; destruct q; reflexivity. Qed.

Lemma wfj_const c : wfj (jconst c).
Proof. intro; split; reflexivity. Qed.

Section Alg.
Variables (k o : nat).

Lemma wfj_jmon a v0 v1 v2 : wfj (jmon NumDR k o a v0 v1 v2).
Proof. unfold jmon. destruct (ja a); [intro H; discriminate H|apply wfj_const]. Qed.
Lemma wfj_jdy a b v0 v10 v01 v11 v20 v02 : wfj (jdy NumDR k o a b v0 v10 v01 v11 v20 v02).
Proof. unfold jdy. destruct (ja a || ja b); [intro H; discriminate H|apply wfj_const]. Qed.

Lemma gd_jmon a v0 v1 v2 i : wfj a -> (i < k)%nat ->
  gd NumDR (jmon NumDR k o a v0 v1 v2) i = gd NumDR a i * v1.
Proof.
  intros W H. unfold jmon. destruct (ja a) eqn:E.
  - unfold gd at 1. cbn [jg]. rewrite nth_map_seq by exact H. reflexivity.
  - rewrite (gd_inact a i W E). unfold gd, jconst; cbn. destruct i; cbn; ring.
Qed.

Lemma gd_jdy a b v0 v10 v01 v11 v20 v02 i : wfj a -> wfj b -> (i < k)%nat ->
  gd NumDR (jdy NumDR k o a b v0 v10 v01 v11 v20 v02) i = gd NumDR a i * v10 + gd NumDR b i * v01.
Proof.
  intros Wa Wb H. unfold jdy. destruct (ja a) eqn:Ea; destruct (ja b) eqn:Eb; cbn [orb];
    try (unfold gd at 1; cbn [jg]; rewrite nth_map_seq by exact H; reflexivity).
  rewrite (gd_inact a i Wa Ea), (gd_inact b i Wb Eb). unfold gd, jconst; cbn. destruct i; cbn; ring.
Qed.

Lemma gh_hmat cell i j : (2 <= o)%nat -> (i < k)%nat -> (j < k)%nat ->
  nth j (nth i (hmat k o cell) []) 0 = cell (Nat.min i j) (Nat.max i j).
Proof.
  intros Ho Hi Hj. unfold hmat. destruct (2 <=? o)%nat eqn:E; [|apply Nat.leb_gt in E; lia].
  rewrite nth_map_seq by exact Hi. rewrite nth_map_seq by exact Hj. reflexivity.
Qed.

Lemma gh_jmon a v0 v1 v2 i j : wfj a -> (2 <= o)%nat -> (i < k)%nat -> (j < k)%nat ->
  gh NumDR (jmon NumDR k o a v0 v1 v2) i j =
  gd NumDR a (Nat.min i j) * gd NumDR a (Nat.max i j) * v2 + gh NumDR a (Nat.min i j) (Nat.max i j) * v1.
Proof.
  intros W Ho Hi Hj. unfold jmon. destruct (ja a) eqn:E.
  - unfold gh at 1. cbn [jh]. rewrite gh_hmat by assumption. reflexivity.
  - rewrite !(gd_inact a _ W E), (gh_inact a _ _ W E). unfold gh, jconst; cbn. destruct i; destruct j; cbn; ring.
Qed.

Lemma gh_jdy a b v0 v10 v01 v11 v20 v02 i j : wfj a -> wfj b -> (2 <= o)%nat -> (i < k)%nat -> (j < k)%nat ->
  let p := Nat.min i j in let q := Nat.max i j in
  gh NumDR (jdy NumDR k o a b v0 v10 v01 v11 v20 v02) i j =
  gh NumDR a p q * v10 + gh NumDR b p q * v01 + gd NumDR a p * gd NumDR a q * v20
  + gd NumDR b p * gd NumDR b q * v02 + gd NumDR a p * gd NumDR b q * v11 + gd NumDR b p * gd NumDR a q * v11.
Proof.
  intros Wa Wb Ho Hi Hj p q. unfold jdy. destruct (ja a) eqn:Ea; destruct (ja b) eqn:Eb; cbn [orb];
    try (unfold gh at 1; cbn [jh]; rewrite gh_hmat by assumption; reflexivity).
  rewrite !(gd_inact a _ Wa Ea), !(gd_inact b _ Wb Eb), !(gh_inact a _ _ Wa Ea), !(gh_inact b _ _ Wb Eb).
  unfold gh, jconst; cbn. destruct i; destruct j; cbn; ring.
Qed.

End Alg.

(* ------------------------------------------------------------------ evaluation lemmas *)
Section EvalJ.
Variables (k o : nat) (x : nat -> R).
Local Notation EJ := (evalJ k o x).
Local Notation ER := (evalR x).

Lemma jv_jdy a b v0 v10 v01 v11 v20 v02 : jv (jdy NumDR k o a b v0 v10 v01 v11 v20 v02) = v0.
Proof. unfold jdy. destruct (ja a || ja b); reflexivity. Qed.
Lemma jv_jmon a v0 v1 v2 : jv (jmon NumDR k o a v0 v1 v2) = v0.
Proof. unfold jmon. destruct (ja a); reflexivity. Qed.

Lemma jv_evalJ e : jv (EJ e) = ER e.
Proof.
  induction e; try reflexivity.
  - change (jv (jadd NumDR k o (EJ e1) (EJ e2)) = ER e1 + ER e2). unfold jadd. rewrite jv_jdy, IHe1, IHe2. reflexivity.
  - change (jv (jsub NumDR k o (EJ e1) (EJ e2)) = ER e1 - ER e2). unfold jsub. rewrite jv_jdy, IHe1, IHe2. reflexivity.
  - change (jv (jmul NumDR k o (EJ e1) (EJ e2)) = ER e1 * ER e2). unfold jmul. rewrite jv_jdy, IHe1, IHe2. reflexivity.
  - change (jv (jdiv NumDR k o (EJ e1) (EJ e2)) = ER e1 / ER e2). unfold jdiv. rewrite jv_jdy, IHe1, IHe2. reflexivity.
  - change (jv (jneg NumDR k o (EJ e)) = - ER e). unfold jneg. rewrite jv_jmon, IHe. reflexivity.
  - change (jv (jabsf NumDR (EJ e)) = Rabs (ER e)). unfold jabsf. cbn. rewrite IHe. reflexivity.
  - change (jv (jsqrt NumDR k o (EJ e)) = sqrt (ER e)). unfold jsqrt. rewrite jv_jmon, IHe. reflexivity.
  - change (jv (jlog NumDR k o (EJ e)) = ln (ER e)). unfold jlog. rewrite jv_jmon, IHe. reflexivity.
  - change (jv (jconst (Rmax (jv (EJ e1)) (jv (EJ e2)))) = Rmax (ER e1) (ER e2)). cbn. rewrite IHe1, IHe2. reflexivity.
Qed.

Lemma wfj_evalJ e : wfj (EJ e).
Proof.
  induction e; try apply wfj_const;
    try (first [apply wfj_jdy | apply wfj_jmon]).
  - cbn. intro H. discriminate H.
Qed.

End EvalJ.

(* ------------------------------------------------------------------ symbolic derivatives *)
Section Deriv.
Variables (k o : nat) (x : nat -> R).
Local Notation EJ := (evalJ k o x).
Local Notation ER := (evalR x).

Lemma ER_add a b : ER (EAdd a b) = ER a + ER b. Proof. reflexivity. Qed.
Lemma ER_sub a b : ER (ESub a b) = ER a - ER b. Proof. reflexivity. Qed.
Lemma ER_mul a b : ER (EMul a b) = ER a * ER b. Proof. reflexivity. Qed.
Lemma ER_div a b : ER (EDiv a b) = ER a / ER b. Proof. reflexivity. Qed.
Lemma ER_neg a : ER (ENeg a) = - ER a. Proof. reflexivity. Qed.
Lemma ER_sqrt a : ER (ESqrt a) = sqrt (ER a). Proof. reflexivity. Qed.
Lemma ER_log a : ER (ELog a) = ln (ER a). Proof. reflexivity. Qed.
Lemma ER_cst c : ER (Cst c) = c. Proof. reflexivity. Qed.
Lemma ER_c2 : ER c2 = 2. Proof. reflexivity. Qed.

Ltac er := cbn [Dx c2]; repeat first [rewrite ER_add | rewrite ER_sub | rewrite ER_mul | rewrite ER_div | rewrite ER_neg
                                  | rewrite ER_sqrt | rewrite ER_log | rewrite ER_c2 | rewrite ER_cst].

Lemma sqrt_pos_neq a : 0 < a -> sqrt a <> 0.
Proof. intro H. apply Rgt_not_eq. apply sqrt_lt_R0. exact H. Qed.

Lemma safe_Dx i e : safe x e -> safe x (Dx i e).
Proof.
  clear k o.
  induction e; cbn [Dx safe]; intros H; try tauto.
  - destruct (Nat.eqb i0 i); exact I.
  - destruct H as (Ha & Hb & Hn). repeat split; try tauto.
    rewrite ER_mul. apply Rmult_integral_contrapositive; split; exact Hn.
  - destruct H as (Ha & Hp). repeat split; try tauto.
    rewrite ER_mul, ER_c2, ER_sqrt. apply Rmult_integral_contrapositive; split; [lra|apply sqrt_pos_neq; exact Hp].
  - destruct H as (Ha & Hp). repeat split; try tauto. lra.
Qed.

(* Schwarz for the symbolic derivative *)
Lemma Dx_comm i j e : safe x e -> ER (Dx i (Dx j e)) = ER (Dx j (Dx i e)).
Proof.
  induction e; cbn [safe]; intros H.
  - cbn [Dx]. destruct (Nat.eqb i0 j); destruct (Nat.eqb i0 i); reflexivity.
  - reflexivity.
  - er. rewrite IHe1, IHe2 by tauto. ring.
  - er. rewrite IHe1, IHe2 by tauto. ring.
  - er. rewrite IHe1, IHe2 by tauto. ring.
  - destruct H as (Ha & Hb & Hn). er. rewrite IHe1, IHe2 by tauto. field. exact Hn.
  - er. rewrite IHe by tauto. ring.
  - reflexivity.
  - destruct H as (Ha & Hp). er. rewrite IHe by tauto.
    pose proof (sqrt_pos_neq _ Hp) as Hs. field. exact Hs.
  - destruct H as (Ha & Hp). er. rewrite IHe by tauto. field. lra.
  - reflexivity.
  - reflexivity.
Qed.

Lemma minmax_sym e i j : safe x e -> ER (Dx (Nat.min i j) (Dx (Nat.max i j) e)) = ER (Dx i (Dx j e)).
Proof.
  intro H. destruct (le_ge_dec i j) as [L|L].
  - rewrite Nat.min_l, Nat.max_r by lia. reflexivity.
  - rewrite Nat.min_r, Nat.max_l by lia. apply Dx_comm. exact H.
Qed.

Lemma nth_repeat2 (i j : nat) : (i < k)%nat -> (j < k)%nat -> nth j (nth i (repeat (repeat 0 k) k) []) 0 = 0.
Proof.
  intros Hi Hj. rewrite (nth_indep _ [] (repeat 0 k)) by (rewrite repeat_length; exact Hi).
  rewrite nth_repeat. apply nth_repeat.
Qed.

Ltac cj := cbn [M5.nx dx NumDR M5.NumXR NumR zero one add sub mul div neg of_Z nsqrt M5.gsqrt pw_mh pw_m3h nlog m1 two half].

Lemma gd_evalJ e : safe x e -> forall i, (i < k)%nat -> gd NumDR (EJ e) i = ER (Dx i e).
Proof.
  induction e as [q|c|e1 IHe1 e2 IHe2|e1 IHe1 e2 IHe2|e1 IHe1 e2 IHe2|e1 IHe1 e2 IHe2|e IHe|e IHe|e IHe|e IHe|e1 IHe1 e2 IHe2|]; cbn [safe]; intros H i Hi; try contradiction.
  - change (EJ (Var q)) with (jvar NumDR k o q (x q)). unfold gd, jvar. cbn [jg]. rewrite nth_map_seq by exact Hi.
    cbn [Dx]. rewrite Nat.eqb_sym. destruct (Nat.eqb q i); reflexivity.
  - unfold gd. cbn. destruct i; reflexivity.
  - change (EJ (EAdd e1 e2)) with (jadd NumDR k o (EJ e1) (EJ e2)). unfold jadd.
    rewrite gd_jdy by (auto using wfj_evalJ). rewrite IHe1, IHe2 by tauto. er. cj. ring.
  - change (EJ (ESub e1 e2)) with (jsub NumDR k o (EJ e1) (EJ e2)). unfold jsub.
    rewrite gd_jdy by (auto using wfj_evalJ). rewrite IHe1, IHe2 by tauto. er. cj. ring.
  - change (EJ (EMul e1 e2)) with (jmul NumDR k o (EJ e1) (EJ e2)). unfold jmul.
    rewrite gd_jdy by (auto using wfj_evalJ). rewrite IHe1, IHe2 by tauto. rewrite !jv_evalJ. er. cj. ring.
  - destruct H as (Ha & Hb & Hn).
    change (EJ (EDiv e1 e2)) with (jdiv NumDR k o (EJ e1) (EJ e2)). unfold jdiv.
    rewrite gd_jdy by (auto using wfj_evalJ). rewrite IHe1, IHe2 by tauto. rewrite !jv_evalJ. er. cj. field. exact Hn.
  - change (EJ (ENeg e)) with (jneg NumDR k o (EJ e)). unfold jneg.
    rewrite gd_jmon by (auto using wfj_evalJ). rewrite IHe by tauto. er. cj. ring.
  - destruct H as (Ha & Hp). pose proof (sqrt_pos_neq _ Hp) as Hs.
    change (EJ (ESqrt e)) with (jsqrt NumDR k o (EJ e)). unfold jsqrt.
    rewrite gd_jmon by (auto using wfj_evalJ). rewrite IHe by tauto. rewrite !jv_evalJ. er. cj. field. exact Hs.
  - destruct H as (Ha & Hp).
    change (EJ (ELog e)) with (jlog NumDR k o (EJ e)). unfold jlog.
    rewrite gd_jmon by (auto using wfj_evalJ). rewrite IHe by tauto. rewrite !jv_evalJ. er. cj. field. lra.
Qed.

Lemma gh_evalJ e : safe x e -> (2 <= o)%nat -> forall i j, (i < k)%nat -> (j < k)%nat ->
  gh NumDR (EJ e) i j = ER (Dx i (Dx j e)).
Proof.
  intros Hs Ho. induction e as [q|c|e1 IHe1 e2 IHe2|e1 IHe1 e2 IHe2|e1 IHe1 e2 IHe2|e1 IHe1 e2 IHe2|e IHe|e IHe|e IHe|e IHe|e1 IHe1 e2 IHe2|]; cbn [safe] in Hs; intros i j Hi Hj; try contradiction.
  - change (EJ (Var q)) with (jvar NumDR k o q (x q)). unfold gh, jvar. cbn [jh].
    destruct (2 <=? o)%nat eqn:E; [|apply Nat.leb_gt in E; lia].
    cj. rewrite nth_repeat2 by assumption. cbn [Dx]. destruct (Nat.eqb q j); reflexivity.
  - unfold gh. cbn. destruct i; destruct j; reflexivity.
  - assert (Hp : (Nat.min i j < k)%nat) by lia. assert (Hq : (Nat.max i j < k)%nat) by lia.
    rewrite <- (minmax_sym (EAdd e1 e2) i j) by (cbn [safe]; tauto).
    change (EJ (EAdd e1 e2)) with (jadd NumDR k o (EJ e1) (EJ e2)). unfold jadd.
    rewrite gh_jdy by (auto using wfj_evalJ). cbv zeta.
    rewrite IHe1, IHe2 by tauto. rewrite !gd_evalJ by tauto. er. cj. ring.
  - assert (Hp : (Nat.min i j < k)%nat) by lia. assert (Hq : (Nat.max i j < k)%nat) by lia.
    rewrite <- (minmax_sym (ESub e1 e2) i j) by (cbn [safe]; tauto).
    change (EJ (ESub e1 e2)) with (jsub NumDR k o (EJ e1) (EJ e2)). unfold jsub.
    rewrite gh_jdy by (auto using wfj_evalJ). cbv zeta.
    rewrite IHe1, IHe2 by tauto. rewrite !gd_evalJ by tauto. er. cj. ring.
  - assert (Hp : (Nat.min i j < k)%nat) by lia. assert (Hq : (Nat.max i j < k)%nat) by lia.
    rewrite <- (minmax_sym (EMul e1 e2) i j) by (cbn [safe]; tauto).
    change (EJ (EMul e1 e2)) with (jmul NumDR k o (EJ e1) (EJ e2)). unfold jmul.
    rewrite gh_jdy by (auto using wfj_evalJ). cbv zeta.
    rewrite IHe1, IHe2 by tauto. rewrite !gd_evalJ by tauto. rewrite !jv_evalJ. er. cj. ring.
  - destruct Hs as (Ha & Hb & Hn).
    assert (Hp : (Nat.min i j < k)%nat) by lia. assert (Hq : (Nat.max i j < k)%nat) by lia.
    rewrite <- (minmax_sym (EDiv e1 e2) i j) by (cbn [safe]; tauto).
    change (EJ (EDiv e1 e2)) with (jdiv NumDR k o (EJ e1) (EJ e2)). unfold jdiv.
    rewrite gh_jdy by (auto using wfj_evalJ). cbv zeta.
    rewrite IHe1, IHe2 by tauto. rewrite !gd_evalJ by tauto. rewrite !jv_evalJ. er. cj. field. exact Hn.
  - assert (Hp : (Nat.min i j < k)%nat) by lia. assert (Hq : (Nat.max i j < k)%nat) by lia.
    rewrite <- (minmax_sym (ENeg e) i j) by (cbn [safe]; tauto).
    change (EJ (ENeg e)) with (jneg NumDR k o (EJ e)). unfold jneg.
    rewrite gh_jmon by (auto using wfj_evalJ).
    rewrite IHe by tauto. rewrite !gd_evalJ by tauto. er. cj. ring.
  - destruct Hs as (Ha & Hpos). pose proof (sqrt_pos_neq _ Hpos) as Hsq.
    assert (Hp : (Nat.min i j < k)%nat) by lia. assert (Hq : (Nat.max i j < k)%nat) by lia.
    rewrite <- (minmax_sym (ESqrt e) i j) by (cbn [safe]; tauto).
    change (EJ (ESqrt e)) with (jsqrt NumDR k o (EJ e)). unfold jsqrt.
    rewrite gh_jmon by (auto using wfj_evalJ).
    rewrite IHe by tauto. rewrite !gd_evalJ by tauto. rewrite !jv_evalJ. er. cj.
    assert (Hss : ER e = sqrt (ER e) * sqrt (ER e)) by (symmetry; apply sqrt_sqrt; lra).
    set (s := sqrt (ER e)) in *. clearbody s. rewrite Hss. field. exact Hsq.
  - destruct Hs as (Ha & Hpos).
    assert (Hp : (Nat.min i j < k)%nat) by lia. assert (Hq : (Nat.max i j < k)%nat) by lia.
    rewrite <- (minmax_sym (ELog e) i j) by (cbn [safe]; tauto).
    change (EJ (ELog e)) with (jlog NumDR k o (EJ e)). unfold jlog.
    rewrite gh_jmon by (auto using wfj_evalJ).
    rewrite IHe by tauto. rewrite !gd_evalJ by tauto. rewrite !jv_evalJ. er. cj. field. lra.
Qed.

End Deriv.
