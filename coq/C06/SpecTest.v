(* C06/SpecTest.v — executable sanity tests of the definitions (vm_compute on binary64). *)
From Coq Require Import List ZArith Bool Floats.
From ADV Require Import Base.Num Base.Corr C06.Model C06.Corr.
Import ListNotations.

Definition J2 := NumXJ NumDFg 2 2.
Definition x0 := jvar NumDFg 2 2 0 3%float.
Definition x1 := jvar NumDFg 2 2 1 2%float.
Definition N2 := M5.nx J2.

(* d(x0*x1) = (x1, x0), d2 = [[0,1],[1,0]] *)
Example mul_jet : let j := mul N2 x0 x1 in
  (jv j, jg j, jh j) = (6%float, [2%float; 3%float], [[0%float; 1%float]; [1%float; 0%float]]).
Proof. vm_compute. reflexivity. Qed.

(* d(x0/x1) = (1/x1, -x0/x1^2) = (0.5, -0.75); d2 = [[0, -1/4], [-1/4, 2*3/8]] *)
Example div_jet : let j := div N2 x0 x1 in
  (jv j, jg j, jh j) = (1.5%float, [0.5%float; (-0.75)%float], [[0%float; (-0.25)%float]; [(-0.25)%float; 0.75%float]]).
Proof. vm_compute. reflexivity. Qed.

(* sqrt(4): value 2, derivative 1/4 *)
Example sqrt_jet : let j := M5.gsqrt J2 (jvar NumDFg 2 2 0 4%float) in
  (jv j, jg j) = (2%float, [0.25%float; 0%float]).
Proof. vm_compute. reflexivity. Qed.

(* constants carry nothing; SetFloat64 clears, Set copies *)
Example const_jet : jg (mul N2 (jconst 2%float) (jconst 5%float)) = [] /\ jsetf 7%float = jconst 7%float /\ jset x0 = x0.
Proof. repeat split. Qed.

(* determinant of [[3,2],[1,4]] with all entries activated: value 10, gradient = cofactors (4,-1,-2,3) *)
Example det2_float :
  match prog_of 1 [2] (jet float) (NumXJ NumDFg 4 1) (jlog NumDFg 4 1)
          (map (seed1 NumDFg 4 1) [(Some 0, 3%float); (Some 1, 2%float); (Some 2, 1%float); (Some 3, 4%float)]) with
  | Some [j] => (jv j, jg j) = (10%float, [4%float; (-1)%float; (-2)%float; 3%float])
  | _ => False
  end.
Proof. vm_compute. reflexivity. Qed.

(* Jacobian helper on f(x) = (x0*x0, -x1) at (3, 5) *)
Example jac_test : jacobian NumDFg (fun B X lg => vf X 1) [3%float; 5%float] = [[6%float; 0%float]; [(-0)%float; (-1)%float]].
Proof. vm_compute. reflexivity. Qed.
