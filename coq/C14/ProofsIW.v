(* C14 — inverse Wishart and normal-inverse-Wishart: LogPdf = ln (textbook density) for every dimension,
   relative to the logged determinants / inverses and to the multivariate gamma function exp (mlgam d .). *)
From Coq Require Import Reals ZArith Bool Lra Lia Psatz List.
From ADV Require Import Base.Num C14.ER C14.Model C14.Spec C14.ProofsER C14.ProofsCont C14.VModel C14.ProofsVec C14.IWModel.
Import ListNotations.
Open Scope R_scope.

(* |S|^(nu/2) / (2^(nu d/2) Gamma_d(nu/2)) |X|^(-(nu+d+1)/2) exp(-tr(S X^-1)/2) *)
Definition iw_pdf (mlgam : nat -> R -> R) (nu : R) (d : nat) (sdet xdet tr : R) : R :=
  Rpower sdet (nu / 2) / (Rpower 2 (nu * INR d / 2) * exp (mlgam d (nu / 2)))
  * Rpower xdet (- ((nu + INR d + 1) / 2)) * exp (- (tr / 2)).
Definition iw_valid (nu : R) (d : nat) (sdet : R) := INR d - 1 < nu /\ 0 < sdet.

Section IW.
Variable mlgam : nat -> R -> R.

Lemma iw_formula nu s sdet xinv xdet :
  length (nth 0 s []) = length s -> 0 < sdet -> 0 < xdet ->
  exists d, iw_new mlgam nu s sdet = Some d /\
    iw_logpdf d xinv xdet = Val (Fin (ln (iw_pdf mlgam nu (length s) sdet xdet (mtrace_had s xinv)))).
Proof.
  intros Hsq Hs Hx. unfold iw_new. rewrite Hsq, Nat.eqb_refl. cbn [negb]. rewrite Rleb_f by lra.
  eexists; split; [reflexivity|]. unfold iw_logpdf; cbn [iw_nu iw_s iw_n iw_d iw_z].
  rewrite Rleb_f by lra. rewrite <- INR_IZR_INZ. set (d := INR (length s)). set (tr := mtrace_had s xinv).
  rewrite !elog_pos by lra. rewrite !ediv_fin by lra. red_er. rewrite !ediv_fin by lra. red_er. do 2 f_equal.
  unfold iw_pdf. fold d. set (g := mlgam (length s) (nu / 2)).
  ln_all. fin.
Qed.

(* the trace term: the code's element-wise product gives tr (S X^-1) when S is diagonal ... *)
Definition diagonal (s : list (list R)) := forall i j, i <> j -> nth j (nth i s []) 0 = 0.
Lemma dot_single l c i : (forall j, j <> i -> nth j l 0 = 0) -> (length l <= length c)%nat ->
  dot l c = nth i l 0 * nth i c 0.
Proof.
  unfold dot. assert (G : forall l c acc i, (forall j, j <> i -> nth j l 0 = 0) -> (length l <= length c)%nat ->
    fold_left (fun a p => a + fst p * snd p) (combine l c) acc = acc + nth i l 0 * nth i c 0).
  { clear. induction l as [|x l IH]; intros c acc i H Hl.
    - cbn. destruct i; cbn; ring.
    - destruct c as [|y c]; [cbn in Hl; lia|]. cbn [combine fold_left fst snd]. destruct i as [|i].
      + rewrite (IH c _ (length l + length c + 1)%nat).
        * rewrite nth_overflow by lia. cbn. ring.
        * intros j Hj. apply (H (S j)). lia.
        * cbn in Hl. lia.
      + rewrite (IH c _ i).
        * pose proof (H 0%nat ltac:(lia)) as Hx. cbn in Hx. cbn [nth]. rewrite Hx. ring.
        * intros j Hj. apply (H (S j)). lia.
        * cbn in Hl. lia. }
  intros H Hl. rewrite (G l c 0 i H Hl). ring.
Qed.
Lemma column_nth (xinv : list (list R)) i k : nth k (column xinv i) 0 = nth i (nth k xinv []) 0.
Proof.
  unfold column. revert k. induction xinv as [|row m IH]; intros [|k]; cbn [map nth]; try apply IH; try reflexivity;
    destruct i; reflexivity.
Qed.
Lemma iw_trace_diagonal s xinv : diagonal s -> (forall i, (length (nth i s []) <= length xinv)%nat) ->
  mtrace_had s xinv = mtrace_mul s xinv.
Proof.
  intros Hd Hl. unfold mtrace_had, mtrace_mul.
  assert (G : forall l acc,
    fold_left (fun a i => a + nth i (nth i s []) 0 * nth i (nth i xinv []) 0) l acc =
    fold_left (fun a i => a + dot (nth i s []) (column xinv i)) l acc); [|apply G].
  induction l as [|i l IH]; intro acc; [reflexivity|]. cbn [fold_left]. rewrite IH. f_equal. f_equal.
  rewrite (dot_single _ _ i).
  - f_equal. symmetry. apply column_nth.
  - intros j Hj. apply Hd. lia.
  - unfold column. rewrite map_length. apply Hl.
Qed.
(* ... and not in general: S = [[1,-1],[-1,2]], X^-1 = [[5,-1/2],[-1/2,1/4]] (|S| = |X| = 1, nu = 3/2): the textbook
   trace is 13/2, the code uses 11/2 and returns a log-density that is too large by 1/2 *)
Lemma iw_formula_refuted : exists d,
  iw_new mlgam (3 / 2) [[1; -1]; [-1; 2]] 1 = Some d /\
  iw_logpdf d [[5; - (1 / 2)]; [- (1 / 2); 1 / 4]] 1 =
    Val (Fin (ln (iw_pdf mlgam (3 / 2) 2 1 1 (mtrace_mul [[1; -1]; [-1; 2]] [[5; - (1 / 2)]; [- (1 / 2); 1 / 4]])) + 1 / 2)).
Proof.
  destruct (iw_formula (3 / 2) [[1; -1]; [-1; 2]] 1 [[5; - (1 / 2)]; [- (1 / 2); 1 / 4]] 1 eq_refl Rlt_0_1 Rlt_0_1)
    as (d & E1 & E2).
  exists d. split; [exact E1|]. rewrite E2. do 2 f_equal.
  unfold iw_pdf. replace (mtrace_had _ _) with (11 / 2) by (unfold mtrace_had; cbn; field).
  replace (mtrace_mul _ _) with (13 / 2) by (unfold mtrace_mul, dot, column; cbn; field).
  set (A := Rpower 1 (3 / 2 / 2) / _ * _). assert (0 < A).
  { unfold A. repeat apply Rmult_lt_0_compat; try (unfold Rpower; apply exp_pos).
    apply Rinv_0_lt_compat. apply Rmult_lt_0_compat; [unfold Rpower|]; apply exp_pos. }
  rewrite !ln_mult, !ln_exp by (try apply exp_pos; assumption). lra.
Qed.

(* the constructor: non-square S and a non-positive logged determinant are rejected; NOTHING else is *)
Lemma iw_ctor nu s sdet :
  iw_new mlgam nu s sdet = None <-> (length s <> length (nth 0 s []) \/ sdet <= 0).
Proof.
  unfold iw_new. destruct (Nat.eqb_spec (length s) (length (nth 0 s []))) as [E|E]; cbn [negb].
  - destruct (Rleb sdet 0) eqn:L.
    + apply Rleb_true in L. split; [intros _; right; exact L|reflexivity].
    + split; [discriminate|]. intros [H|H]; [contradiction|]. rewrite Rleb_t in L by exact H. discriminate.
  - split; [intros _; left; exact E|reflexivity].
Qed.
(* quirk: degrees of freedom outside the textbook range nu > d - 1 are accepted (F-C14-IW-NU) *)
Lemma iw_ctor_accepts_small_nu : exists d, iw_new mlgam (1 / 2) [[1; 0]; [0; 1]] 1 = Some d /\ ~ iw_valid (1 / 2) 2 1.
Proof.
  unfold iw_new. cbn [length nth Nat.eqb negb]. rewrite Rleb_f by lra. eexists; split; [reflexivity|].
  unfold iw_valid. cbn. lra.
Qed.
Lemma iw_not_pd d xinv xdet : xdet <= 0 -> iw_logpdf d xinv xdet = ErrDim.
Proof. intro H. unfold iw_logpdf. rewrite Rleb_t by exact H. reflexivity. Qed.

(* normal-inverse-Wishart: N(mu | Mu, Sigma/kappa) IW(Sigma | nu, Lambda) *)
Lemma niw_formula kappa nu mu lambda ldet x pinv pdet xinv xdet :
  length (nth 0 lambda []) = length lambda -> length mu = length lambda -> length x = length mu ->
  0 < ldet -> 0 < pdet -> 0 < xdet ->
  exists d, niw_new mlgam kappa nu mu lambda ldet = Some d /\
    niw_logpdf d x pinv pdet xinv xdet =
      Val (Fin (ln (mvn_pdf (length mu) pdet (qform pinv x mu) *
                    iw_pdf mlgam nu (length lambda) ldet xdet (mtrace_had lambda xinv)))).
Proof.
  intros H1 H2 H3 Hl Hp Hx.
  destruct (iw_formula nu lambda ldet xinv xdet H1 Hl Hx) as (iw & E1 & E2).
  destruct (mvn_formula mu pinv pdet x Hp H3) as (nrm & E3 & E4).
  unfold niw_new. rewrite H1, Nat.eqb_refl.
  replace (length lambda =? length mu)%nat with true by (symmetry; apply Nat.eqb_eq; congruence).
  cbn [andb negb]. rewrite E1.
  eexists; split; [reflexivity|]. unfold niw_logpdf; cbn [niw_iw niw_mu]. rewrite E3, E4, E2. cbn [eadd].
  do 2 f_equal. rewrite ln_mult; [reflexivity| |].
  - unfold mvn_pdf. assert (HP := PI_RGT_0). assert (0 < (2 * PI) ^ length mu) by (apply pow_lt; lra).
    apply Rmult_lt_0_compat; [|apply exp_pos]. apply Rinv_0_lt_compat, sqrt_lt_R0. nra.
  - unfold iw_pdf. repeat apply Rmult_lt_0_compat; try apply exp_pos; try (unfold Rpower; apply exp_pos).
    apply Rinv_0_lt_compat. apply Rmult_lt_0_compat; [unfold Rpower|]; apply exp_pos.
Qed.
Lemma niw_ctor_dims kappa nu mu lambda ldet : length lambda <> length mu -> niw_new mlgam kappa nu mu lambda ldet = None.
Proof.
  intro H. unfold niw_new. apply Nat.eqb_neq in H. rewrite H, andb_false_r. reflexivity.
Qed.
(* F-C14-NIW-CLONE as the model has it *)
Lemma niw_clone_panics d x pinv pdet xinv xdet : niw_clone_logpdf d x pinv pdet xinv xdet = Panic.
Proof. reflexivity. Qed.
End IW.
