(* C14 — carrier of the distribution models: the reals extended by the three
   IEEE special values the Go code can produce and test for (+Inf, -Inf, NaN).
   Finite arithmetic is exact real arithmetic (rounding, overflow and signed
   zeros are NOT modelled: DESIGN §6.3); the special values follow IEEE-754 /
   package math, so that `0 * -Inf = NaN`, `log 0 = -Inf`, `log (-1) = NaN`,
   `Lgamma(0) = +Inf` are visible in the models exactly where Go has them.
   Definitions only (this file is part of the model). *)
From Coq Require Import Reals ZArith Bool.
From Flocq Require Import Core.Raux.
From ADV Require Import Base.Num.
Open Scope R_scope.

Inductive ER := Fin (v : R) | PInf | NInf | NaN.

(* sign of a finite real as Go's comparisons see it *)
Definition Rpos (a : R) : bool := Rltb 0 a.
Definition Rneg (a : R) : bool := Rltb a 0.

Definition eneg (a : ER) : ER :=
  match a with Fin x => Fin (- x) | PInf => NInf | NInf => PInf | NaN => NaN end.
Definition eabs (a : ER) : ER :=
  match a with Fin x => Fin (Rabs x) | PInf | NInf => PInf | NaN => NaN end.
Definition eadd (a b : ER) : ER :=
  match a, b with
  | Fin x, Fin y => Fin (x + y)
  | NaN, _ | _, NaN => NaN
  | PInf, NInf | NInf, PInf => NaN
  | PInf, _ | _, PInf => PInf
  | NInf, _ | _, NInf => NInf
  end.
Definition esub (a b : ER) : ER := eadd a (eneg b).
(* product of an infinity of sign [pos] with a finite factor x *)
Definition inf_times (pos : bool) (x : R) : ER :=
  if Rpos x then (if pos then PInf else NInf)
  else if Rneg x then (if pos then NInf else PInf) else NaN.
Definition emul (a b : ER) : ER :=
  match a, b with
  | Fin x, Fin y => Fin (x * y)
  | NaN, _ | _, NaN => NaN
  | PInf, Fin y => inf_times true y | Fin x, PInf => inf_times true x
  | NInf, Fin y => inf_times false y | Fin x, NInf => inf_times false x
  | PInf, PInf | NInf, NInf => PInf
  | PInf, NInf | NInf, PInf => NInf
  end.
Definition ediv (a b : ER) : ER :=
  match a, b with
  | Fin x, Fin y => if Reqb y 0 then (if Rpos x then PInf else if Rneg x then NInf else NaN)
                    else Fin (x / y)
  | NaN, _ | _, NaN => NaN
  | Fin _, PInf | Fin _, NInf => Fin 0
  | PInf, Fin y => if Rneg y then NInf else PInf
  | NInf, Fin y => if Rneg y then PInf else NInf
  | _, _ => NaN
  end.
Definition eexp (a : ER) : ER :=
  match a with Fin x => Fin (exp x) | PInf => PInf | NInf => Fin 0 | NaN => NaN end.
Definition elog (a : ER) : ER :=
  match a with
  | Fin x => if Rpos x then Fin (ln x) else if Rneg x then NaN else NInf
  | PInf => PInf | NInf => NaN | NaN => NaN
  end.
Definition elog1p (a : ER) : ER :=
  match a with
  | Fin x => if Rltb (-1) x then Fin (ln (1 + x)) else if Rltb x (-1) then NaN else NInf
  | PInf => PInf | NInf => NaN | NaN => NaN
  end.
(* math.Pow restricted to what the guarded call sites reach: positive base is
   Rpower; base 0 follows math.Pow; a negative base is only defined by Go for
   integer exponents and is never reached behind the support guards: NaN. *)
Definition epow (a b : ER) : ER :=
  match a, b with
  | Fin x, Fin y =>
      if Rpos x then Fin (Rpower x y)
      else if Rneg x then NaN
      else if Rpos y then Fin 0 else if Rneg y then PInf else Fin 1
  | _, _ => NaN
  end.

(* x is an integer value: math.Floor(v) == v *)
Definition is_intb (x : R) : bool := Reqb (IZR (Zfloor x)) x.

(* Scalar.Lgamma: math.Lgamma, +Inf at the poles 0,-1,-2,...; [lgam] is the
   real log-gamma function, a parameter of the model (its values are the
   business of C13).  The sign -1 => NaN rule of Scalar.Lgamma concerns
   negative non-integers, never reached for validated parameters. *)
Definition elgam (lgam : R -> R) (a : ER) : ER :=
  match a with
  | Fin x => if Rleb x 0 && is_intb x then PInf else Fin (lgam x)
  | PInf => PInf | NInf => PInf | NaN => NaN
  end.
Definition elerfc (lerfc : R -> R) (a : ER) : ER :=
  match a with Fin x => Fin (lerfc x) | PInf => NInf | NInf => Fin (ln 2) | NaN => NaN end.
Definition egamP (gamP : R -> R -> R) (a : R) (b : ER) : ER :=
  match b with Fin x => Fin (gamP a x) | PInf => Fin 1 | _ => NaN end.

(* comparisons on finite values as Go's float comparisons; any comparison with NaN is false *)
Definition eltb (a b : ER) : bool :=
  match a, b with
  | Fin x, Fin y => Rltb x y
  | NInf, Fin _ | NInf, PInf | Fin _, PInf => true
  | _, _ => false
  end.
Definition eis_nan (a : ER) : bool := match a with NaN => true | _ => false end.
Definition eis_ninf (a : ER) : bool := match a with NInf => true | _ => false end.
(* a.GetFloat64() == 0.0 *)
Definition eis_zero (a : ER) : bool := match a with Fin x => Reqb x 0 | _ => false end.
Definition efin (a : ER) : option R := match a with Fin x => Some x | _ => None end.
