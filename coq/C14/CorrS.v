(* C14 — shapes of the Pdf / Cdf methods (round 6).  [model_shapes] is the table the model is proved about: every Pdf
   method, and the Cdf methods marked SExpOf, are `if err := d.M(r, x); err != nil { return err }; r.Exp(r); return nil`
   (M = LogPdf / LogCdf); SOther = a body of its own (gamma / chi-squared Cdf, modelled operation by operation in
   Model.v).  harness/c14 (inventory.go, go/ast) re-generates the table from the library source on every run as
   [gen_shapes] in runs/C14/gen_shapes.v, which is compiled against this file and must satisfy
   gen_shapes = model_shapes; ProofsPdf.exp_wrappers_sound proves that the dispatcher [eval] obeys the table. *)
From Coq Require Import String List.
From ADV Require Import C14.Model.
Import ListNotations.
Open Scope string_scope.

Inductive shape := SExpOf (m : string) | SOther.

Definition model_shapes : list (string * string * string * shape) := [
  ("matrixDistribution", "InverseWishartDistribution", "Pdf", SExpOf "LogPdf");
  ("matrixDistribution", "NormalIWishartDistribution", "Pdf", SExpOf "LogPdf");
  ("scalarDistribution", "BetaDistribution", "Pdf", SExpOf "LogPdf");
  ("scalarDistribution", "BinomialDistribution", "Pdf", SExpOf "LogPdf");
  ("scalarDistribution", "CategoricalDistribution", "Cdf", SExpOf "LogCdf");
  ("scalarDistribution", "CategoricalDistribution", "Pdf", SExpOf "LogPdf");
  ("scalarDistribution", "CauchyDistribution", "Pdf", SExpOf "LogPdf");
  ("scalarDistribution", "ChiSquaredDistribution", "Cdf", SOther);
  ("scalarDistribution", "ChiSquaredDistribution", "Pdf", SExpOf "LogPdf");
  ("scalarDistribution", "DeltaDistribution", "Pdf", SExpOf "LogPdf");
  ("scalarDistribution", "ExponentialDistribution", "Cdf", SExpOf "LogCdf");
  ("scalarDistribution", "ExponentialDistribution", "Pdf", SExpOf "LogPdf");
  ("scalarDistribution", "GParetoDistribution", "Cdf", SExpOf "LogCdf");
  ("scalarDistribution", "GParetoDistribution", "Pdf", SExpOf "LogPdf");
  ("scalarDistribution", "GammaDistribution", "Cdf", SOther);
  ("scalarDistribution", "GammaDistribution", "Pdf", SExpOf "LogPdf");
  ("scalarDistribution", "GeneralizedGammaDistribution", "Pdf", SExpOf "LogPdf");
  ("scalarDistribution", "GeometricDistribution", "Pdf", SExpOf "LogPdf");
  ("scalarDistribution", "GevDistribution", "Cdf", SExpOf "LogCdf");
  ("scalarDistribution", "GevDistribution", "Pdf", SExpOf "LogPdf");
  ("scalarDistribution", "LaplaceDistribution", "Cdf", SExpOf "LogCdf");
  ("scalarDistribution", "LaplaceDistribution", "Pdf", SExpOf "LogPdf");
  ("scalarDistribution", "NegativeBinomialDistribution", "Pdf", SExpOf "LogPdf");
  ("scalarDistribution", "NormalDistribution", "Cdf", SExpOf "LogCdf");
  ("scalarDistribution", "ParetoDistribution", "Cdf", SExpOf "LogCdf");
  ("scalarDistribution", "ParetoDistribution", "Pdf", SExpOf "LogPdf");
  ("scalarDistribution", "PdfLogTransform", "Pdf", SExpOf "LogPdf");
  ("scalarDistribution", "PdfTranslation", "Pdf", SExpOf "LogPdf");
  ("scalarDistribution", "PoissonDistribution", "Pdf", SExpOf "LogPdf");
  ("scalarDistribution", "PowerLawDistribution", "Cdf", SExpOf "LogCdf");
  ("scalarDistribution", "PowerLawDistribution", "Pdf", SExpOf "LogPdf");
  ("vectorDistribution", "LogisticRegression", "Pdf", SExpOf "LogPdf");
  ("vectorDistribution", "NormalDistribution", "Pdf", SExpOf "LogPdf");
  ("vectorDistribution", "SkewNormalDistribution", "Pdf", SExpOf "LogPdf");
  ("vectorDistribution", "TDistribution", "Pdf", SExpOf "LogPdf")
].

Definition shape_eqb (a b : shape) : bool :=
  match a, b with SExpOf m, SExpOf n => String.eqb m n | SOther, SOther => true | _, _ => false end.

Fixpoint lookup_shape (tbl : list (string * string * string * shape)) (pkg ty m : string) : option shape :=
  match tbl with
  | [] => None
  | (p, t, n, s) :: tl => if (String.eqb p pkg && String.eqb t ty && String.eqb n m)%bool then Some s else lookup_shape tl pkg ty m
  end.

(* the Go type behind a family of the scalar dispatcher (the two wrapper families: the wrapper type) *)
Definition fam_type (f : fam) : string :=
  match f with
  | FNormal => "NormalDistribution" | FExponential => "ExponentialDistribution" | FLaplace => "LaplaceDistribution"
  | FPareto => "ParetoDistribution" | FGPareto => "GParetoDistribution" | FGev => "GevDistribution"
  | FGamma => "GammaDistribution" | FBeta => "BetaDistribution" | FBinomial => "BinomialDistribution"
  | FCategorical => "CategoricalDistribution" | FCauchy => "CauchyDistribution" | FChiSquared => "ChiSquaredDistribution"
  | FDelta => "DeltaDistribution" | FGenGamma => "GeneralizedGammaDistribution" | FGeometric => "GeometricDistribution"
  | FNegBinomial => "NegativeBinomialDistribution" | FPoisson => "PoissonDistribution" | FPowerLaw => "PowerLawDistribution"
  | FTransNormal => "PdfTranslation" | FLogTransNormal => "PdfLogTransform"
  end.
Definition fn_name (g : fn) : string :=
  match g with LogPdf => "LogPdf" | LogCdf => "LogCdf" | Cdf => "Cdf" | Ctor => "New" | Pdf => "Pdf" end.

(* the table says: method g of the type behind family f is `if err := d.m(r, x); err != nil { return err }; r.Exp(r)` *)
Definition scalar_pkg : string := "scalarDistribution".
Definition exp_wrapper_of (f : fam) (g m : fn) : Prop :=
  lookup_shape model_shapes scalar_pkg (fam_type f) (fn_name g) = Some (SExpOf (fn_name m)).
