(* C14 — refutation lemmas: the faithful model of the unchanged code violates the
   property at these witnesses (known findings, corpus/C14/known_findings_proposed.json).
   Each is proved with the correspondence tactic of Corr.v on the witness. *)
From Coq Require Import Reals ZArith Bool List Lra.
From Interval Require Import Tactic.
From ADV Require Import Base.Num C14.ER C14.Model C14.Spec C14.ProofsER C14.Corr.
Import ListNotations.
Open Scope R_scope.

Section Refuted.
Variables (lgam lerfc : R -> R) (gamP : R -> R -> R).
Notation EV := (eval lgam lerfc gamP).

(* Laplace "LogCdf" at x = mu is the cdf 1/2, not ln (1/2); Cdf = exp(1/2) > 1 *)
Lemma laplace_logcdf_refuted :
  agrees (EV FLaplace LogCdf [0; 1] [] 0) (OVal (1 / 2) (1 / 1000)) /\
  agrees (EV FLaplace Cdf [0; 1] [] 0) (OVal (16487 / 10000) (1 / 1000)) /\
  ln (laplace_cdf_spec 0 1 0) < - (69 / 100).
Proof.
  split; [solve_case | split; [solve_case|]].
  unfold laplace_cdf_spec. destruct (Rle_dec 0 0); [|lra]. interval.
Qed.
Lemma laplace_ctor_refuted : EV FLaplace Ctor [0; -1] [] 0 <> CtorErr /\ ~ laplace_valid 0 (-1).
Proof. split; [cbv [eval with_d P nth lap_new]; discriminate | unfold laplace_valid; lra]. Qed.

(* power law "Cdf" below xmin is 4; at x = 2 it is 1/4 = the survival function, the cdf is 3/4 *)
Lemma powerlaw_logcdf_refuted :
  agrees (EV FPowerLaw Cdf [3; 1] [] (1 / 2)) (OVal 4 (1 / 1000)) /\
  agrees (EV FPowerLaw Cdf [3; 1] [] 2) (OVal (1 / 4) (1 / 1000)) /\
  Rabs (powerlaw_cdf_spec 3 1 2 - 3 / 4) <= 1 / 1000.
Proof.
  split; [solve_case | split; [solve_case|]]. unfold powerlaw_cdf_spec. interval.
Qed.
Lemma powerlaw_ctor_refuted :
  agrees (EV FPowerLaw Ctor [1 / 2; -1] [] 0) (OVal 0 0) /\ ~ powerlaw_valid (1 / 2) (-1).
Proof. split; [solve_case | unfold powerlaw_valid; lra]. Qed.

(* chi-squared: NaN (not -Inf) below the support; any k accepted *)
Lemma chisq_support_refuted :
  agrees (EV FChiSquared LogPdf [3] [] (-1)) ONaN /\ agrees (EV FChiSquared LogPdf [2] [] 0) ONaN.
Proof. split; solve_case. Qed.
Lemma chisq_ctor_refuted : agrees (EV FChiSquared Ctor [-3] [] 0) (OVal 0 0) /\ ~ chisq_valid (-3).
Proof. split; [solve_case | unfold chisq_valid; lra]. Qed.

(* categorical: non-integers are truncated (finite value outside the support), index panics, Cdf adds one *)
Lemma categorical_support_refuted :
  agrees (EV FCategorical LogPdf [1 / 4; 1 / 4; 1 / 2] [] (IZR (-1) + 1 / 2)) (OVal (- (13863 / 10000)) (1 / 1000)) /\
  agrees (EV FCategorical LogPdf [1 / 4; 1 / 4; 1 / 2] [] (IZR 3)) OPanic.
Proof. split; solve_case. Qed.
Lemma categorical_cdf_refuted :
  agrees (EV FCategorical Cdf [1] [] (IZR 0)) (OVal 2 (1 / 1000)) /\
  agrees (EV FCategorical Cdf [1 / 4; 1 / 4; 1 / 2] [] (IZR (-2))) (OVal 1 (1 / 1000)).
Proof. split; solve_case. Qed.

(* success probability on the boundary: 0 * log 0 = NaN *)
Lemma binomial_boundary_refuted :
  agrees (EV FBinomial LogPdf [0] [5%Z] (IZR 0)) ONaN /\ binomial_valid 0 5.
Proof. split; [solve_case | unfold binomial_valid; split; [lra | discriminate]]. Qed.
Lemma geometric_boundary_refuted :
  agrees (EV FGeometric LogPdf [1] [] (IZR 0)) ONaN /\ geometric_valid 1.
Proof. split; [solve_case | unfold geometric_valid; lra]. Qed.

(* cdf = 0 above the upper end point of the support (xi < 0) *)
Lemma gpareto_cdf_upper_refuted :
  agrees (EV FGPareto Cdf [2; 3 / 4; -1] [] 5) (OVal 0 0) /\
  agrees (EV FGPareto Cdf [2; 3 / 4; -1] [] (5 / 2)) (OVal (2 / 3) (1 / 1000)).
Proof. split; solve_case. Qed.
Lemma gev_cdf_upper_refuted :
  agrees (EV FGev Cdf [0; 1; -1] [] 2) (OVal 0 0) /\
  agrees (EV FGev Cdf [0; 1; -1] [] (1 / 2)) (OVal (6065 / 10000) (1 / 1000)).
Proof. split; solve_case. Qed.

End Refuted.
