(* C14 — mixtures (generic.Mixture and its scalar / vector wrappers): on the log scale the code computes
   ln (sum_j (w_j / W) p_j), W = sum_j w_j, for EVERY number of components, with -Inf exactly when the
   mixture density is 0 (in particular when every component returns -Inf); Posterior is the log of the
   posterior probability of a set of states; the stored log-weights are normalised. *)
From Coq Require Import Reals ZArith Bool Lra Lia Psatz List.
From ADV Require Import Base.Num C14.ER C14.Model C14.ProofsER C14.MixModel.
Import ListNotations.
Open Scope R_scope.

(* e is the logarithm, in the extended reals, of the non-negative real s *)
Definition rep (e : ER) (s : R) : Prop := (0 < s /\ e = Fin (ln s)) \/ (s = 0 /\ e = NInf).
(* textbook side *)
Fixpoint sumR (ws : list R) : R := match ws with [] => 0 | w :: r => w + sumR r end.
Fixpoint dotp (ws ps : list R) : R :=
  match ws, ps with w :: r, p :: q => w * p + dotp r q | _, _ => 0 end.
(* the mixture density sum_j (w_j / W) p_j *)
Definition mixture_pdf (ws ps : list R) : R := dotp ws ps / sumR ws.

Lemma rep_nonneg e s : rep e s -> 0 <= s.
Proof. intros [[H _]|[H _]]; lra. Qed.
Lemma rep_fin s : 0 < s -> rep (Fin (ln s)) s.
Proof. intro H. left. auto. Qed.
Lemma rep_elog w : 0 <= w -> rep (elog (Fin w)) w.
Proof.
  intro H. destruct (Req_dec w 0) as [E|E].
  - right. split; [exact E|]. apply elog_zero. exact E.
  - left. split; [lra|]. apply elog_pos. lra.
Qed.

Lemma logadd_fin x y : logadd (Fin x) (Fin y) = Fin (ln (exp x + exp y)).
Proof.
  assert (K : forall a b, ln (1 + exp (a + - b)) + b = ln (exp a + exp b)).
  { intros a b. rewrite <- (ln_exp b) at 2. rewrite <- ln_mult.
    - f_equal. rewrite Rmult_plus_distr_r, <- exp_plus. replace (a + - b + b) with a by ring. ring.
    - pose proof (exp_pos (a + - b)). lra.
    - apply exp_pos. }
  unfold logadd. cbn [eltb]. destruct (Rltb y x); cbn [esub eneg eadd eexp];
    (rewrite elog1p_gt by (match goal with |- _ < exp ?u => pose proof (exp_pos u) end; lra));
    cbn [eadd]; rewrite K; f_equal; f_equal; ring.
Qed.
Lemma logadd_ninf_l b : b <> NaN -> b <> PInf -> logadd NInf b = b.
Proof. destruct b; intros H1 H2; try congruence; reflexivity. Qed.
Lemma logadd_ninf_r x : logadd (Fin x) NInf = Fin x.
Proof. reflexivity. Qed.

Lemma rep_logadd a b s t : rep a s -> rep b t -> rep (logadd a b) (s + t).
Proof.
  intros [[Hs ->]|[-> ->]] [[Ht ->]|[-> ->]].
  - rewrite logadd_fin, !exp_ln by assumption. left. split; [lra|reflexivity].
  - rewrite logadd_ninf_r, Rplus_0_r. left. auto.
  - rewrite logadd_ninf_l, Rplus_0_l by discriminate. left. auto.
  - right. split; [lra|reflexivity].
Qed.
Lemma rep_eadd a b s t : rep a s -> rep b t -> rep (eadd a b) (s * t).
Proof.
  intros [[Hs ->]|[-> ->]] [[Ht ->]|[-> ->]]; cbn [eadd].
  - left. split; [apply Rmult_lt_0_compat; assumption|]. rewrite ln_mult by assumption. reflexivity.
  - right. split; [ring|reflexivity].
  - right. split; [ring|reflexivity].
  - right. split; [ring|reflexivity].
Qed.
(* division by the normaliser W > 0 *)
Lemma rep_sub_norm a s W : 0 < W -> rep a s -> rep (esub a (Fin (ln W))) (s / W).
Proof.
  intros HW [[Hs ->]|[-> ->]]; cbn [esub eneg eadd].
  - left. split; [apply Rdiv_lt_0_compat; assumption|].
    unfold Rdiv. rewrite ln_mult, ln_Rinv by (try apply Rinv_0_lt_compat; assumption). reflexivity.
  - right. split; [unfold Rdiv; ring|reflexivity].
Qed.

Lemma fold_logadd_rep lw : forall ws acc s, Forall2 rep lw ws -> rep acc s ->
  rep (fold_left (fun t l => logadd t l) lw acc) (s + sumR ws).
Proof.
  induction lw as [|l lw IH]; intros ws acc s H Ha; inversion H; subst; cbn [fold_left sumR].
  - rewrite Rplus_0_r. exact Ha.
  - replace (s + (y + sumR l')) with ((s + y) + sumR l') by ring.
    apply IH; [assumption|]. apply rep_logadd; assumption.
Qed.

Lemma Forall2_len {A B} (Rel : A -> B -> Prop) l1 l2 : Forall2 Rel l1 l2 -> length l1 = length l2.
Proof. induction 1; cbn; congruence. Qed.

Lemma Forall2_rep_elog w : Forall (fun t => 0 <= t) w -> Forall2 rep (map (fun t => elog (Fin t)) w) w.
Proof. induction 1; cbn [map]; constructor; [apply rep_elog; assumption|assumption]. Qed.

Lemma sumR_nonneg w : Forall (fun t => 0 <= t) w -> 0 <= sumR w.
Proof. induction 1; cbn [sumR]; lra. Qed.

Lemma existsb_neg_false w : Forall (fun t => 0 <= t) w -> existsb (fun t => Rltb t 0) w = false.
Proof. induction 1; cbn [existsb]; [reflexivity|]. rewrite Rltb_f by assumption. assumption. Qed.

(* the constructor: normalised log-weights *)
Lemma mix_new_ok w : Forall (fun t => 0 <= t) w -> 0 < sumR w ->
  exists lw, mix_new w = Some lw /\ Forall2 rep lw (map (fun t => t / sumR w) w).
Proof.
  intros Hw HW. unfold mix_new. rewrite existsb_neg_false by exact Hw.
  eexists; split; [reflexivity|]. unfold mix_normalize.
  pose proof (fold_logadd_rep _ w NInf 0 (Forall2_rep_elog w Hw) (or_intror (conj eq_refl eq_refl))) as Ht.
  rewrite Rplus_0_l in Ht. destruct Ht as [[_ ->]|[E _]]; [|lra].
  set (W := sumR w) in *. clearbody W.
  induction Hw as [|x l Hx Hl IH]; cbn [map]; constructor; [|exact IH].
  apply rep_sub_norm; [exact HW|apply rep_elog; exact Hx].
Qed.
Lemma mix_ctor w : mix_new w = None <-> Exists (fun t => t < 0) w.
Proof.
  unfold mix_new. destruct (existsb (fun t => Rltb t 0) w) eqn:E.
  - split; [intros _|reflexivity]. apply existsb_exists in E. destruct E as (t & Hin & Ht).
    apply Exists_exists. exists t. split; [exact Hin|]. apply Rltb_true in Ht. exact Ht.
  - split; [discriminate|]. intro H. apply Exists_exists in H. destruct H as (t & Hin & Ht).
    assert (existsb (fun t => Rltb t 0) w = true) by (apply existsb_exists; exists t; split; [exact Hin|apply Rltb_t; exact Ht]).
    congruence.
Qed.
(* the weights the object stores sum to one *)
Lemma sumR_div w W : sumR (map (fun t => t / W) w) = sumR w / W.
Proof. induction w as [|x l IH]; cbn [map sumR]; [unfold Rdiv; ring|]. rewrite IH. unfold Rdiv. ring. Qed.
Lemma mix_weights_normalised w : 0 < sumR w -> sumR (map (fun t => t / sumR w) w) = 1.
Proof. intro H. rewrite sumR_div. unfold Rdiv. apply Rinv_r. lra. Qed.
Lemma dotp_div w W ps : dotp (map (fun t => t / W) w) ps = dotp w ps / W.
Proof.
  revert ps. induction w as [|x l IH]; intros [|p q]; cbn [map dotp]; try (unfold Rdiv; ring).
  rewrite IH. unfold Rdiv. ring.
Qed.

(* LogPdf loop: any accumulator, any number of components *)
Lemma mix_fold lw : forall ws cs ps acc s, Forall2 rep lw ws -> Forall2 rep cs ps -> rep acc s ->
  exists e, fold_left (fun a p => mix_step a (fst p) (snd p)) (combine lw (map Val cs)) (Val acc) = Val e
            /\ rep e (s + dotp ws ps).
Proof.
  induction lw as [|l lw IH]; intros ws cs ps acc s Hw Hc Ha.
  - inversion Hw; subst. cbn. exists acc. rewrite Rplus_0_r. auto.
  - inversion Hw as [|? w ? ws' Hl Hw']; subst. destruct Hc as [|c p cs' ps' Hcp Hc'].
    + cbn. exists acc. rewrite Rplus_0_r. auto.
    + cbn [map combine fold_left fst snd mix_step dotp].
      replace (s + (w * p + dotp ws' ps')) with ((s + p * w) + dotp ws' ps') by ring.
      apply IH; [assumption|assumption|]. apply rep_logadd; [assumption|]. apply rep_eadd; assumption.
Qed.

Theorem mixture_formula w cs ps :
  Forall (fun t => 0 <= t) w -> 0 < sumR w -> Forall2 rep cs ps ->
  exists lw e, mix_new_wrapped w (length w) = Some lw /\ mix_logpdf lw (map Val cs) = Val e
               /\ rep e (mixture_pdf w ps).
Proof.
  intros Hw HW Hc. destruct (mix_new_ok w Hw HW) as (lw & E & Hlw).
  assert (Hlen : length lw = length w).
  { apply Forall2_len in Hlw. rewrite map_length in Hlw. exact Hlw. }
  destruct (mix_fold lw _ cs ps NInf 0 Hlw Hc (or_intror (conj eq_refl eq_refl))) as (e & E2 & He).
  exists lw, e. split; [|split].
  - unfold mix_new_wrapped. rewrite E, Hlen, Nat.eqb_refl, orb_true_r. reflexivity.
  - exact E2.
  - rewrite Rplus_0_l, dotp_div in He. exact He.
Qed.

(* readable corollaries *)
Lemma rep_pos e s : rep e s -> 0 < s -> e = Fin (ln s).
Proof. intros [[_ H]|[H _]] Hs; [exact H|lra]. Qed.
Lemma rep_zero e s : rep e s -> s = 0 -> e = NInf.
Proof. intros [[H _]|[_ H]] Hs; [lra|exact H]. Qed.
Lemma dotp_zero ws ps : Forall (fun p => p = 0) ps -> dotp ws ps = 0.
Proof.
  intro H. revert ws. induction H as [|p q Hp Hq IH]; intros [|w r]; cbn [dotp]; try reflexivity.
  rewrite IH, Hp. ring.
Qed.
Lemma Forall2_ninf n : Forall2 rep (repeat NInf n) (repeat 0 n).
Proof. induction n; cbn; constructor; [right; auto|assumption]. Qed.
(* every component returns -Inf  ==>  the mixture returns -Inf (never NaN, never finite) *)
Theorem mixture_support w :
  Forall (fun t => 0 <= t) w -> 0 < sumR w ->
  exists lw, mix_new_wrapped w (length w) = Some lw /\
             mix_logpdf lw (map Val (repeat NInf (length w))) = Val NInf.
Proof.
  intros Hw HW. destruct (mixture_formula w _ _ Hw HW (Forall2_ninf (length w))) as (lw & e & E1 & E2 & He).
  exists lw. split; [exact E1|]. rewrite E2. f_equal. apply (rep_zero _ _ He).
  unfold mixture_pdf. rewrite dotp_zero; [unfold Rdiv; ring|]. clear. induction (length w); cbn; constructor; auto.
Qed.
(* the first failing component's error is the mixture's error *)
Lemma mix_logpdf_error_sticks l acc : (forall v, acc <> Val v) ->
  fold_left (fun a p => mix_step a (fst p) (snd p)) l acc = acc.
Proof.
  intro H. induction l as [|p l IH]; [reflexivity|]. cbn [fold_left].
  replace (mix_step acc (fst p) (snd p)) with acc by (destruct acc; try reflexivity; exfalso; eapply H; reflexivity).
  exact IH.
Qed.

(* ---- Posterior: log of (sum over states of w_j p_j) / (sum over all j of w_j p_j) *)
Fixpoint sel (ws ps : list R) (states : list Z) : R :=
  match states with
  | [] => 0
  | j :: r => nth (Z.to_nat j) ws 0 * nth (Z.to_nat j) ps 0 + sel ws ps r
  end.
Lemma Forall2_nth {A B} (Rel : A -> B -> Prop) l1 l2 k a b : Forall2 Rel l1 l2 -> (k < length l1)%nat ->
  Rel (nth k l1 a) (nth k l2 b).
Proof.
  intro H. revert k. induction H; intros [|k] Hk; cbn in *; try lia; [assumption|]. apply IHForall2. lia.
Qed.
Lemma nth_map_div k w W : nth k (map (fun t => t / W) w) 0 = nth k w 0 / W.
Proof. revert k. induction w as [|x l IH]; intros [|k]; cbn [map nth]; try apply IH; unfold Rdiv; ring. Qed.
Lemma mix_states_fold lw ws cs ps : Forall2 rep lw ws -> Forall2 rep cs ps -> length lw = length cs ->
  forall states acc s, Forall (fun j => (0 <= j < Z.of_nat (length lw))%Z) states -> rep acc s ->
  exists e, fold_left (fun acc j =>
               match acc with
               | Val _ =>
                   if (j <? 0)%Z || (Z.of_nat (length lw) <=? j)%Z then ErrDim
                   else mix_step acc (nth (Z.to_nat j) lw NaN) (nth (Z.to_nat j) (map Val cs) Panic)
               | e => e
               end) states (Val acc) = Val e /\ rep e (s + sel ws ps states).
Proof.
  intros Hw Hc Hlen. induction states as [|j r IH]; intros acc s Hs Ha.
  - cbn. exists acc. rewrite Rplus_0_r. auto.
  - inversion Hs as [|? ? Hj Hr]; subst. cbn [fold_left sel].
    replace ((j <? 0)%Z || (Z.of_nat (length lw) <=? j)%Z) with false
      by (symmetry; apply orb_false_iff; split; [apply Z.ltb_ge|apply Z.leb_gt]; lia).
    assert (Hk : (Z.to_nat j < length lw)%nat) by lia.
    replace (nth (Z.to_nat j) (map Val cs) Panic) with (Val (nth (Z.to_nat j) cs NaN)).
    2:{ rewrite <- (map_nth Val). apply nth_indep. rewrite map_length. lia. }
    cbn [mix_step].
    replace (s + (nth (Z.to_nat j) ws 0 * nth (Z.to_nat j) ps 0 + sel ws ps r))
      with ((s + nth (Z.to_nat j) ps 0 * nth (Z.to_nat j) ws 0) + sel ws ps r) by ring.
    apply IH; [assumption|]. apply rep_logadd; [assumption|]. apply rep_eadd.
    + apply Forall2_nth; [assumption|lia].
    + apply Forall2_nth; assumption.
Qed.

Lemma dotp_nonneg w ps : Forall (fun t => 0 <= t) w -> Forall (fun t => 0 <= t) ps -> 0 <= dotp w ps.
Proof.
  intro Hw. revert ps. induction Hw as [|x l Hx Hl IH]; intros ps Hp; [cbn; lra|].
  destruct Hp as [|p q Hp Hq]; cbn [dotp]; [lra|]. specialize (IH q Hq). nra.
Qed.
Lemma dotp_zero_terms w ps : Forall (fun t => 0 <= t) w -> Forall (fun t => 0 <= t) ps -> dotp w ps = 0 ->
  forall k, nth k w 0 * nth k ps 0 = 0.
Proof.
  intro Hw. revert ps. induction Hw as [|x l Hx Hl IH]; intros ps Hp Hz k.
  - destruct k; cbn; ring.
  - destruct Hp as [|p q Hp Hq]; [destruct k; cbn; ring|]. cbn [dotp] in Hz.
    pose proof (dotp_nonneg l q Hl Hq). assert (0 <= x * p) by nra.
    destruct k as [|k]; cbn [nth]; [lra|]. apply IH; [assumption|lra].
Qed.

Theorem mixture_posterior w cs ps states :
  Forall (fun t => 0 <= t) w -> 0 < sumR w -> Forall2 rep cs ps -> length cs = length w ->
  Forall (fun j => (0 <= j < Z.of_nat (length w))%Z) states ->
  exists lw, mix_new_wrapped w (length w) = Some lw /\
    (0 < dotp w ps -> exists e, mix_posterior lw (map Val cs) states = Val e /\ rep e (sel w ps states / dotp w ps)) /\
    (dotp w ps = 0 -> mix_posterior lw (map Val cs) states = Val NaN).
Proof.
  intros Hw HW Hc Hlen Hst. destruct (mix_new_ok w Hw HW) as (lw & E & Hlw).
  assert (Hl : length lw = length w).
  { apply Forall2_len in Hlw. rewrite map_length in Hlw. exact Hlw. }
  assert (E1 : mix_new_wrapped w (length w) = Some lw).
  { unfold mix_new_wrapped. rewrite E, Hl, Nat.eqb_refl, orb_true_r. reflexivity. }
  exists lw. split; [exact E1|].
  assert (Hst' : Forall (fun j => (0 <= j < Z.of_nat (length lw))%Z) states) by (rewrite Hl; exact Hst).
  destruct (mix_states_fold lw _ cs ps Hlw Hc (eq_trans Hl (eq_sym Hlen)) states NInf 0 Hst'
              (or_intror (conj eq_refl eq_refl))) as (r & Er & Hr).
  destruct (mix_fold lw _ cs ps NInf 0 Hlw Hc (or_intror (conj eq_refl eq_refl))) as (z & Ez & Hz).
  rewrite Rplus_0_l in Hr, Hz. rewrite dotp_div in Hz.
  assert (Hsel : sel (map (fun t => t / sumR w) w) ps states = sel w ps states / sumR w).
  { clear. induction states as [|j r IH]; cbn [sel]; [unfold Rdiv; ring|]. rewrite IH.
    rewrite nth_map_div. unfold Rdiv. ring. }
  rewrite Hsel in Hr.
  assert (Hpost : mix_posterior lw (map Val cs) states = Val (esub r z)).
  { unfold mix_posterior, mix_states, mix_logpdf. rewrite Er, Ez. reflexivity. }
  split.
  - intro Hpos. exists (esub r z). split; [exact Hpost|].
    assert (Hz' : z = Fin (ln (dotp w ps / sumR w))) by (apply (rep_pos _ _ Hz); apply Rdiv_lt_0_compat; assumption).
    rewrite Hz'. replace (sel w ps states / dotp w ps) with ((sel w ps states / sumR w) / (dotp w ps / sumR w))
      by (field; lra).
    apply rep_sub_norm; [apply Rdiv_lt_0_compat; assumption|exact Hr].
  - intro Hzero. rewrite Hpost. f_equal.
    assert (Hz' : z = NInf) by (apply (rep_zero _ _ Hz); rewrite Hzero; unfold Rdiv; ring).
    subst z.
    assert (Hps : Forall (fun p => 0 <= p) ps).
    { clear -Hc. induction Hc; constructor; [eapply rep_nonneg; eassumption|assumption]. }
    assert (Hs0 : sel w ps states = 0).
    { clear -Hw Hps Hzero. induction states as [|j r IH]; cbn [sel]; [reflexivity|].
      rewrite IH, (dotp_zero_terms w ps Hw Hps Hzero). ring. }
    rewrite Hs0 in Hr. rewrite (rep_zero _ _ Hr) by (unfold Rdiv; ring). reflexivity.
Qed.

(* a state outside the range is an error of Posterior / Likelihood *)
Lemma mix_states_oob lw comps f j : (j < 0 \/ Z.of_nat (length lw) <= j)%Z -> mix_states lw comps [j] f = ErrDim.
Proof.
  intro H. unfold mix_states. cbn [fold_left].
  replace ((j <? 0)%Z || (Z.of_nat (length lw) <=? j)%Z) with true; [reflexivity|].
  symmetry. apply orb_true_iff. destruct H; [left; apply Z.ltb_lt|right; apply Z.leb_le]; assumption.
Qed.

(* quirk: all weights zero are accepted and every stored log-weight is NaN *)
Lemma mix_all_zero_quirk : mix_new [0; 0] = Some [NaN; NaN].
Proof.
  unfold mix_new. cbn [existsb]. rewrite !Rltb_f by lra. cbn [orb map].
  rewrite !elog_zero by reflexivity. reflexivity.
Qed.
