(* C14 — rewriting lemmas for the extended-real carrier (used by the family
   proofs and by the certified correspondence tactic in Corr.v). *)
From Coq Require Import Reals ZArith Bool Lra Lia.
From Flocq Require Import Core.Raux.
From ADV Require Import Base.Num C14.ER.
Open Scope R_scope.

Lemma Rltb_t a b : a < b -> Rltb a b = true.
Proof. intro H. apply Rltb_true. exact H. Qed.
Lemma Rltb_f a b : b <= a -> Rltb a b = false.
Proof. intro H. destruct (Rltb a b) eqn:E; auto. apply Rltb_true in E. lra. Qed.
Lemma Rleb_t a b : a <= b -> Rleb a b = true.
Proof. intro H. apply Rleb_true. exact H. Qed.
Lemma Rleb_f a b : b < a -> Rleb a b = false.
Proof. intro H. destruct (Rleb a b) eqn:E; auto. apply Rleb_true in E. lra. Qed.
Lemma Reqb_t a b : a = b -> Reqb a b = true.
Proof. intro H. apply Reqb_true. exact H. Qed.
Lemma Reqb_f a b : a <> b -> Reqb a b = false.
Proof. intro H. destruct (Reqb a b) eqn:E; auto. apply Reqb_true in E. tauto. Qed.

Lemma Rpos_t a : 0 < a -> Rpos a = true.  Proof. apply Rltb_t. Qed.
Lemma Rpos_f a : a <= 0 -> Rpos a = false. Proof. apply Rltb_f. Qed.
Lemma Rneg_t a : a < 0 -> Rneg a = true.  Proof. apply Rltb_t. Qed.
Lemma Rneg_f a : 0 <= a -> Rneg a = false. Proof. apply Rltb_f. Qed.

Lemma elog_pos x : 0 < x -> elog (Fin x) = Fin (ln x).
Proof. intro H. unfold elog. rewrite Rpos_t; auto. Qed.
Lemma elog_zero x : x = 0 -> elog (Fin x) = NInf.
Proof. intro H. unfold elog. rewrite Rpos_f, Rneg_f; auto; lra. Qed.
Lemma elog_neg x : x < 0 -> elog (Fin x) = NaN.
Proof. intro H. unfold elog. rewrite Rpos_f, Rneg_t; auto; lra. Qed.

Lemma elog1p_gt x : -1 < x -> elog1p (Fin x) = Fin (ln (1 + x)).
Proof. intro H. unfold elog1p. rewrite Rltb_t; auto. Qed.
Lemma elog1p_eq x : x = -1 -> elog1p (Fin x) = NInf.
Proof. intro H. unfold elog1p. rewrite !Rltb_f; auto; lra. Qed.
Lemma elog1p_lt x : x < -1 -> elog1p (Fin x) = NaN.
Proof. intro H. unfold elog1p. rewrite Rltb_f, Rltb_t; auto; lra. Qed.

Lemma ediv_fin x y : y <> 0 -> ediv (Fin x) (Fin y) = Fin (x / y).
Proof. intro H. unfold ediv. rewrite Reqb_f; auto. Qed.
Lemma ediv_zero_pos x y : y = 0 -> 0 < x -> ediv (Fin x) (Fin y) = PInf.
Proof. intros H1 H2. unfold ediv. rewrite Reqb_t, Rpos_t; auto. Qed.
Lemma ediv_zero_neg x y : y = 0 -> x < 0 -> ediv (Fin x) (Fin y) = NInf.
Proof. intros H1 H2. unfold ediv. rewrite Reqb_t, Rpos_f, Rneg_t; auto; lra. Qed.
Lemma ediv_zero_zero x y : y = 0 -> x = 0 -> ediv (Fin x) (Fin y) = NaN.
Proof. intros H1 H2. unfold ediv. rewrite Reqb_t, Rpos_f, Rneg_f; auto; lra. Qed.

Lemma epow_pos x y : 0 < x -> epow (Fin x) (Fin y) = Fin (Rpower x y).
Proof. intro H. unfold epow. rewrite Rpos_t; auto. Qed.
Lemma epow_zero_pos x y : x = 0 -> 0 < y -> epow (Fin x) (Fin y) = Fin 0.
Proof. intros H1 H2. unfold epow. rewrite (Rpos_f x), (Rneg_f x), Rpos_t; auto; lra. Qed.
Lemma epow_zero_neg x y : x = 0 -> y < 0 -> epow (Fin x) (Fin y) = PInf.
Proof. intros H1 H2. unfold epow. rewrite (Rpos_f x), (Rneg_f x), Rpos_f, Rneg_t; auto; lra. Qed.

Lemma inf_times_pos s x : 0 < x -> inf_times s x = if s then PInf else NInf.
Proof. intro H. unfold inf_times. rewrite Rpos_t; auto. Qed.
Lemma inf_times_neg s x : x < 0 -> inf_times s x = if s then NInf else PInf.
Proof. intro H. unfold inf_times. rewrite Rpos_f, Rneg_t; auto; lra. Qed.
Lemma inf_times_zero s x : x = 0 -> inf_times s x = NaN.
Proof. intro H. unfold inf_times. rewrite Rpos_f, Rneg_f; auto; lra. Qed.

(* integrality *)
Lemma is_intb_IZR k : is_intb (IZR k) = true.
Proof. unfold is_intb. rewrite Zfloor_IZR. apply Reqb_t. reflexivity. Qed.
Lemma is_intb_eq x k : x = IZR k -> is_intb x = true.
Proof. intros ->. apply is_intb_IZR. Qed.
Lemma is_intb_between x k : IZR k < x < IZR k + 1 -> is_intb x = false.
Proof.
  intro H. unfold is_intb. rewrite (Zfloor_imp k).
  - apply Reqb_f. lra.
  - rewrite plus_IZR. simpl. lra.
Qed.
Lemma is_intb_half k : is_intb (IZR k + 1 / 2) = false.
Proof. apply (is_intb_between _ k). lra. Qed.
Lemma is_intb_true_inv x : is_intb x = true -> exists k, x = IZR k.
Proof. unfold is_intb. intro H. apply Reqb_true in H. eexists. symmetry. exact H. Qed.
Lemma is_intb_false_inv x : is_intb x = false -> forall k, x <> IZR k.
Proof. intros H k E. rewrite (is_intb_eq x k E) in H. discriminate. Qed.

Lemma Ztrunc_half k : Ztrunc (IZR k + 1 / 2) = (if (0 <=? k)%Z then k else k + 1)%Z.
Proof.
  destruct (Z.leb_spec 0 k) as [H|H].
  - rewrite Ztrunc_floor. apply Zfloor_imp. rewrite plus_IZR. simpl. lra.
    apply IZR_le in H. lra.
  - rewrite Ztrunc_ceil. apply Zceil_imp. replace (k + 1 - 1)%Z with k by lia.
    rewrite plus_IZR. simpl. lra.
    assert (k + 1 <= 0)%Z by lia. apply IZR_le in H0. rewrite plus_IZR in H0. simpl in H0. lra.
Qed.

Lemma elgam_pos lg x : 0 < x -> elgam lg (Fin x) = Fin (lg x).
Proof. intro H. unfold elgam. rewrite Rleb_f; auto. Qed.
Lemma elgam_pole lg x : x <= 0 -> is_intb x = true -> elgam lg (Fin x) = PInf.
Proof. intros H1 H2. unfold elgam. rewrite Rleb_t, H2; auto. Qed.
