(* C14 — executable instance of the parameter-layout model (MixParam.v) for the correspondence: entries of a
   parameter vector are binary64 values, i.e. exact rationals or one of the three special values (a zero
   weight is stored as log 0 = -Inf), leaves are the scalar families whose GetParameters / SetParameters copy
   the entries unchanged; the guards are the constructors' (`x <= 0.0` is false for NaN).  harness/c14/param.go
   logs, per case, the tree before, the vector handed to SetParameters, the outcome, the tree after and the two
   GetParameters() vectors; [pcheck] replays the model on it inside Coq (vm_compute, exact). *)
From Coq Require Import QArith List Bool Arith.
From ADV Require Import C14.MixParam.
Import ListNotations.
Open Scope nat_scope.

Inductive qx := QF (q : Q) | QNInf | QPInf | QNaN.
Arguments QF q%Q.
Definition qf (n : Z) (d : positive) : qx := QF (Qmake n d).
Arguments qf n%Z d%positive.
Definition qx_eqb (a b : qx) : bool :=
  match a, b with
  | QF x, QF y => Qeq_bool x y
  | QNInf, QNInf | QPInf, QPInf | QNaN, QNaN => true
  | _, _ => false
  end.
(* Go: x <= c *)
Definition qx_le (a : qx) (c : Q) : bool :=
  match a with QF x => Qle_bool x c | QNInf => true | QPInf | QNaN => false end.
Arguments qx_le a c%Q.
(* Go: x > c *)
Definition qx_gt (a : qx) (c : Q) : bool :=
  match a with QF x => negb (Qle_bool x c) | QPInf => true | QNInf | QNaN => false end.

Arguments qx_gt a c%Q.

Inductive lfam := LNormal | LLaplace | LExponential | LGamma | LGev | LGPareto | LCauchy | LPareto | LPowerLaw
                | LPoisson | LGeometric | LGenGamma | LChiSquared.
Definition lfam_eqb (a b : lfam) : bool :=
  match a, b with
  | LNormal, LNormal | LLaplace, LLaplace | LExponential, LExponential | LGamma, LGamma | LGev, LGev
  | LGPareto, LGPareto | LCauchy, LCauchy | LPareto, LPareto | LPowerLaw, LPowerLaw | LPoisson, LPoisson
  | LGeometric, LGeometric | LGenGamma, LGenGamma | LChiSquared, LChiSquared => true
  | _, _ => false
  end.
Definition l_arity (f : lfam) : nat :=
  match f with
  | LExponential | LPoisson | LGeometric | LChiSquared => 1
  | LNormal | LLaplace | LGamma | LCauchy | LPareto | LPowerLaw => 2
  | LGev | LGPareto | LGenGamma => 3
  end.
Definition A (p : list qx) (k : nat) : qx := nth k p QNaN.
(* the constructor accepts the window: negation of its `if ... { return nil, error }` *)
Definition l_guard (f : lfam) (p : list qx) : bool :=
  match f with
  | LNormal | LLaplace | LCauchy | LGev | LGPareto => negb (qx_le (A p 1) 0)
  | LExponential | LPoisson | LChiSquared => negb (qx_le (A p 0) 0)
  | LGamma | LPareto => negb (qx_le (A p 0) 0 || qx_le (A p 1) 0)
  | LPowerLaw => negb (qx_le (A p 0) 1) && negb (qx_le (A p 1) 0)
  | LGeometric => negb (qx_le (A p 0) 0 || qx_gt (A p 0) 1)
  | LGenGamma => negb (qx_le (A p 0) 0 || qx_le (A p 1) 0 || qx_le (A p 2) 0)
  end.

Lemma l_arity_pos f : 0 < l_arity f.
Proof. destruct f; cbn; repeat constructor. Qed.

Notation qtree := (ptree qx lfam).
Definition qget : qtree -> list qx := tree_get qx lfam.
Definition qset : qtree -> list qx -> sres qtree := tree_set qx lfam l_arity l_guard.

Fixpoint list_eqb {X} (e : X -> X -> bool) (a b : list X) : bool :=
  match a, b with
  | [], [] => true
  | x :: s, y :: t => e x y && list_eqb e s t
  | _, _ => false
  end.
Fixpoint qtree_eqb (t u : qtree) : bool :=
  match t, u with
  | PLeaf f ps, PLeaf g qs => lfam_eqb f g && list_eqb qx_eqb ps qs
  | PIid c, PIid d => qtree_eqb c d
  | PProd cs, PProd ds =>
      (fix all2 (l m : list qtree) : bool :=
         match l, m with [], [] => true | c :: tl, d :: tm => qtree_eqb c d && all2 tl tm | _, _ => false end) cs ds
  | PMix lw cs, PMix lv ds =>
      list_eqb qx_eqb lw lv &&
      (fix all2 (l m : list qtree) : bool :=
         match l, m with [], [] => true | c :: tl, d :: tm => qtree_eqb c d && all2 tl tm | _, _ => false end) cs ds
  | _, _ => false
  end.

(* observed outcome of SetParameters: 0 = nil, 1 = error, 2 = panic *)
Definition pcheck (init : qtree) (g0 p : list qx) (kind : nat) (post : qtree) (g1 : list qx) : bool :=
  list_eqb qx_eqb (qget init) g0 &&
  match qset init p, kind with
  | SOk t, 0 | SErr t, 1 | SPanic t, 2 => qtree_eqb t post
  | _, _ => false
  end &&
  list_eqb qx_eqb (qget post) g1.

Tactic Notation "chkp" constr(k) constr(b) :=
  tryif (assert (b = true) by (vm_compute; reflexivity)) then idtac else idtac "MISMATCH" k.

(* self-tests: 3 x Normal (K = 3, 2 parameters each); a heterogeneous nested mixture; an error half-way *)
Definition N (a b : Q) : qtree := PLeaf LNormal [QF a; QF b].
Arguments N (a b)%Q.
Goal pcheck (PMix [QF (-1); QF (-1); QNInf] [N 0 1; N 1 2; N 2 3])
            [QF (-1); QF (-1); QNInf; QF 0; QF 1; QF 1; QF 2; QF 2; QF 3]
            [QF (-2); QF (-3); QF (-4); QF 10; QF 11; QF 12; QF 13; QF 14; QF 15] 0
            (PMix [QF (-2); QF (-3); QF (-4)] [N 10 11; N 12 13; N 14 15])
            [QF (-2); QF (-3); QF (-4); QF 10; QF 11; QF 12; QF 13; QF 14; QF 15] = true.
Proof. vm_compute. reflexivity. Qed.
Goal pcheck (PMix [QF (-1); QF (-1)] [PLeaf LGev [QF 0; QF 1; QF (1#2)]; PMix [QF 0] [PLeaf LExponential [QF 2]]])
            [QF (-1); QF (-1); QF 0; QF 1; QF (1#2); QF 0; QF 2]
            [QF (-3); QF (-4); QF 5; QF 6; QF 7; QF (-8); QF 9; QF 77] 0
            (PMix [QF (-3); QF (-4)] [PLeaf LGev [QF 5; QF 6; QF 7]; PMix [QF (-8)] [PLeaf LExponential [QF 9]]])
            [QF (-3); QF (-4); QF 5; QF 6; QF 7; QF (-8); QF 9] = true.
Proof. vm_compute. reflexivity. Qed.
Goal pcheck (PMix [QF (-1); QF (-1)] [N 0 1; N 1 2]) [QF (-1); QF (-1); QF 0; QF 1; QF 1; QF 2]
            [QF (-3); QF (-4); QF 5; QF 6; QF 7; QF (-1)] 1
            (PMix [QF (-3); QF (-4)] [N 5 6; N 1 2]) [QF (-3); QF (-4); QF 5; QF 6; QF 1; QF 2] = true.
Proof. vm_compute. reflexivity. Qed.
Goal pcheck (PMix [QF (-1); QF (-1)] [N 0 1; N 1 2]) [QF (-1); QF (-1); QF 0; QF 1; QF 1; QF 2]
            [QF (-3); QF (-4); QF 5; QF 6; QF 7] 2
            (PMix [QF (-3); QF (-4)] [N 5 6; N 1 2]) [QF (-3); QF (-4); QF 5; QF 6; QF 1; QF 2] = true.
Proof. vm_compute. reflexivity. Qed.
