(* C14 — parameter LAYOUT of the composite distributions (HEAD):

     scalarDistribution / vectorDistribution / matrixDistribution  Mixture.GetParameters / SetParameters
     vectorDistribution.ScalarId, matrixDistribution.VectorId      (products: own cursor, own length checks)
     vectorDistribution.ScalarIid, matrixDistribution.VectorIid    (transparent: delegate to the inner one)

   The three Mixture wrappers have the same text:

     GetParameters:  p := LogWeights; for i < NComponents { p = p.AppendVector(Edist[i].GetParameters()) }
     SetParameters:  n := len(LogWeights)
                     generic.SetParameters(parameters.Slice(0,n))      (dimension check, element-wise Set)
                     parameters = parameters.Slice(n, Dim)
                     if parameters.Dim() > 0 {
                       for i < NComponents {
                         n := Edist[i].GetParameters().Dim()
                         if err := Edist[i].SetParameters(parameters.Slice(0,n)); err != nil { return err }
                         parameters = parameters.Slice(n, Dim) } }

   so the parameter vector is  [log-weights (K)] ++ window_0 ++ ... ++ window_{K-1}  (++ ignored rest), the
   window of component i having the length of ITS OWN current parameter vector.  A component can again be a
   mixture (nested layout).  Everything is written over an arbitrary carrier T of the vector entries and an
   arbitrary component type C (get / set), once; [ptree] then ties the knot for finite nestings of leaves,
   products, i.i.d. wrappers and mixtures.  A mutator returns the state it leaves behind in all three outcomes
   (nil / error / panic): an object updated half-way is visible.  `Slice(i,j)` is Go's v[i:j] on a vector whose
   capacity equals its length (panic if j > len).  No proofs in this file. *)
From Coq Require Import List Arith Bool.
Import ListNotations.

Inductive sres (C : Type) := SOk (c : C) | SErr (c : C) | SPanic (c : C).
Arguments SOk {C} c. Arguments SErr {C} c. Arguments SPanic {C} c.
Definition smap {A B} (f : A -> B) (r : sres A) : sres B :=
  match r with SOk a => SOk (f a) | SErr a => SErr (f a) | SPanic a => SPanic (f a) end.
Definition sstate {A} (r : sres A) : A := match r with SOk a | SErr a | SPanic a => a end.

Section Layout.
Variable T : Type.

(* v[i:j] *)
Definition vslice (p : list T) (i j : nat) : option (list T) :=
  if (i <=? j) && (j <=? length p) then Some (firstn (j - i) (skipn i p)) else None.

Section Comp.
Variable C : Type.
Variable get : C -> list T.
Variable set : C -> list T -> sres C.

(* the component loop of Mixture.SetParameters, `for i := 0; i < NComponents; i++` over Edist; [rest] is the
   cursor, [k] the number of iterations left; Edist[i] beyond the slice panics *)
Fixpoint mix_loop (cs : list C) (k : nat) (rest : list T) {struct cs} : sres (list C) :=
  match k with
  | O => SOk cs
  | S k' =>
      match cs with
      | [] => SPanic []
      | c :: tl =>
          let n := length (get c) in
          match vslice rest 0 n with
          | None => SPanic (c :: tl)
          | Some win =>
              match set c win with
              | SOk c' =>
                  match vslice rest n (length rest) with
                  | None => SPanic (c' :: tl)
                  | Some rest' => smap (cons c') (mix_loop tl k' rest')
                  end
              | SErr c' => SErr (c' :: tl)
              | SPanic c' => SPanic (c' :: tl)
              end
          end
      end
  end.

(* state of a mixture: stored log-weights and the emission distributions *)
Fixpoint flat_take (cs : list C) (k : nat) {struct cs} : list T :=
  match k, cs with
  | S k', c :: tl => get c ++ flat_take tl k'
  | _, _ => []
  end.
Definition mix_get (lw : list T) (cs : list C) : list T := lw ++ flat_take cs (length lw).

Definition mix_set (lw : list T) (cs : list C) (p : list T) : sres (list T * list C) :=
  let n := length lw in
  match vslice p 0 n with
  | None => SPanic (lw, cs)
  | Some w =>
      if negb (length w =? n) then SErr (lw, cs) else      (* generic.SetParameters: "invalid set of parameters" *)
      match vslice p n (length p) with
      | None => SPanic (w, cs)
      | Some rest =>
          if 0 <? length rest then smap (fun cs' => (w, cs')) (mix_loop cs n rest)
          else SOk (w, cs)
      end
  end.

(* ScalarId / VectorId: `if parameters.Dim() < n { return error }` per component, and an error AFTER every
   component has been updated when entries are left over *)
Fixpoint prod_loop (cs : list C) (rest : list T) : sres (list C) :=
  match cs with
  | [] => if 0 <? length rest then SErr [] else SOk []
  | c :: tl =>
      let n := length (get c) in
      if length rest <? n then SErr (c :: tl) else
      match set c (firstn n rest) with
      | SOk c' => smap (cons c') (prod_loop tl (skipn n rest))
      | SErr c' => SErr (c' :: tl)
      | SPanic c' => SPanic (c' :: tl)
      end
  end.

(* what the loops are supposed to be: component i is handed the i-th window, stop at the first failure *)
Fixpoint seq_set (cs : list C) (qs : list (list T)) : sres (list C) :=
  match cs, qs with
  | c :: tl, q :: qt =>
      match set c q with
      | SOk c' => smap (cons c') (seq_set tl qt)
      | SErr c' => SErr (c' :: tl)
      | SPanic c' => SPanic (c' :: tl)
      end
  | _, _ => SOk cs
  end.
End Comp.

(* ---- finite nestings ------------------------------------------------------------------------------ *)
(* leaves: a family tag with an arity and the constructor's guard on the window (NewX(p[0], .., p[a-1]));
   `*dist = *tmp` replaces the parameters, an error leaves them *)
Variable F : Type.
Variable arity : F -> nat.
Variable guard : F -> list T -> bool.

Inductive ptree :=
| PLeaf (f : F) (ps : list T)
| PIid (c : ptree)                          (* ScalarIid / VectorIid *)
| PProd (cs : list ptree)                   (* ScalarId / VectorId *)
| PMix (lw : list T) (cs : list ptree).     (* Mixture *)

Definition leaf_set (f : F) (ps win : list T) : sres (list T) :=
  if length win <? arity f then SPanic ps            (* parameters.At(k) out of range *)
  else if guard f win then SOk (firstn (arity f) win) else SErr ps.

Fixpoint tree_get (t : ptree) : list T :=
  match t with
  | PLeaf _ ps => ps
  | PIid c => tree_get c
  | PProd cs => flat_map tree_get cs
  | PMix lw cs => mix_get ptree tree_get lw cs
  end.

Fixpoint tree_set (t : ptree) (p : list T) : sres ptree :=
  match t with
  | PLeaf f ps => smap (PLeaf f) (leaf_set f ps p)
  | PIid c => smap PIid (tree_set c p)
  | PProd cs => smap PProd (prod_loop ptree tree_get tree_set cs p)
  | PMix lw cs => smap (fun s => PMix (fst s) (snd s)) (mix_set ptree tree_get tree_set lw cs p)
  end.

(* well-formed: what the constructors establish (at least one component; K = 1 is allowed) *)
Fixpoint tree_wf (t : ptree) : Prop :=
  match t with
  | PLeaf f ps => length ps = arity f /\ guard f ps = true
  | PIid c => tree_wf c
  | PProd cs => cs <> [] /\ (fix all (l : list ptree) : Prop := match l with [] => True | c :: tl => tree_wf c /\ all tl end) cs
  | PMix lw cs => length lw = length cs /\ lw <> [] /\
                  (fix all (l : list ptree) : Prop := match l with [] => True | c :: tl => tree_wf c /\ all tl end) cs
  end.

(* the shape the constructors establish, without the guards *)
Fixpoint tree_ok (t : ptree) : Prop :=
  match t with
  | PLeaf f ps => length ps = arity f
  | PIid c => tree_ok c
  | PProd cs => (fix all (l : list ptree) : Prop := match l with [] => True | c :: tl => tree_ok c /\ all tl end) cs
  | PMix lw cs => length lw = length cs /\
                  (fix all (l : list ptree) : Prop := match l with [] => True | c :: tl => tree_ok c /\ all tl end) cs
  end.

(* same nesting, same families, same numbers of components: the parameter vectors of the two are laid out alike *)
Fixpoint same_shape (t u : ptree) : Prop :=
  match t, u with
  | PLeaf f ps, PLeaf g qs => f = g /\ length ps = length qs
  | PIid c, PIid d => same_shape c d
  | PProd cs, PProd ds =>
      (fix all2 (l m : list ptree) : Prop :=
         match l, m with [], [] => True | c :: tl, d :: tm => same_shape c d /\ all2 tl tm | _, _ => False end) cs ds
  | PMix lw cs, PMix lv ds =>
      length lw = length lv /\ length lw = length cs /\
      (fix all2 (l m : list ptree) : Prop :=
         match l, m with [], [] => True | c :: tl, d :: tm => same_shape c d /\ all2 tl tm | _, _ => False end) cs ds
  | _, _ => False
  end.
End Layout.

Arguments PLeaf {T F} f ps. Arguments PIid {T F} c. Arguments PProd {T F} cs. Arguments PMix {T F} lw cs.
