(* C14 — models of the vector families statistics/vectorDistribution/{t,normal,scalarIid,scalarId}.go (HEAD).
   The LogPdf bodies and the normalisation constants cached by the constructors are modelled operation by
   operation over ER (C14/ER.v); the inverse and the determinant of Sigma, which the constructors obtain
   from algorithm/matrixInverse and algorithm/determinant, enter as data (they are exported fields
   SigmaInv / SigmaDet, logged by the harness).  No proofs in this file. *)
From Coq Require Import Reals ZArith Bool List.
From ADV Require Import Base.Num C14.ER C14.Model.
Import ListNotations.
Open Scope R_scope.

(* y.VsubV(x, mu) *)
Definition vsub (x mu : list R) : list R := map (fun p => fst p - snd p) (combine x mu).
(* r.VdotV(a, b): r = 0; r += a_i * b_i *)
Definition dot (a b : list R) : R := fold_left (fun acc p => acc + fst p * snd p) (combine a b) 0.
(* s.VdotM(y, A): s_i = sum_j y_j * A[j][i]   (A as a list of rows) *)
Definition column (A : list (list R)) (i : nat) : list R := map (fun row => nth i row 0) A.
Definition vdotm (y : list R) (A : list (list R)) : list R :=
  map (fun i => dot y (column A i)) (seq 0 (length y)).
(* (x - mu)^T A (x - mu) as the code computes it *)
Definition qform (A : list (list R)) (x mu : list R) : R :=
  let y := vsub x mu in dot (vdotm y A) y.

Section VModel.
Variable lgam : R -> R.
Notation LG := (elgam lgam).
Notation F := Fin (only parsing).

(* ------------------------------------------------- multivariate Student t *)
Record vt_d := { vt_nu : R; vt_mu : list R; vt_sinv : list (list R); vt_np : ER; vt_z : ER }.
Definition vt_new (nu : R) (mu : list R) (sinv : list (list R)) (sdet : R) : vt_d :=
  let n := Z.of_nat (length mu) in
  let d2 := F (IZR n / 2) in                 (* ConstFloat64(float64(n)/2.0) *)
  let n2 := ediv (F nu) (F 2) in
  let np := eadd n2 d2 in
  let z := LG np in
  let z := esub z (LG n2) in
  let z := esub z (ediv (elog (F sdet)) (F 2)) in
  let z := esub z (emul d2 (elog (emul (F nu) (F PI)))) in
  {| vt_nu := nu; vt_mu := mu; vt_sinv := sinv; vt_np := np; vt_z := z |}.
Definition vt_logpdf (d : vt_d) (x : list R) : res :=
  let r := F (qform (vt_sinv d) x (vt_mu d)) in
  let r := ediv r (F (vt_nu d)) in
  let r := eadd r (F 1) in
  let r := elog r in
  let r := emul r (vt_np d) in
  Val (esub (vt_z d) r).

(* ------------------------------------------------- multivariate normal *)
Record vn_d := { vn_mu : list R; vn_sinv : list (list R); vn_logh : ER }.
Definition vn_new (mu : list R) (sinv : list (list R)) (sdet : R) : option vn_d :=
  if Reqb sdet 0 then None else
  let n := Z.of_nat (length mu) in
  let c := F (IZR n * ln (2 * PI)) in        (* float64(n)*math.Log(2*math.Pi) *)
  let t1 := eabs (F sdet) in
  let t1 := elog t1 in
  let t1 := eadd c t1 in
  let h := emul (F (- (1 / 2))) t1 in
  Some {| vn_mu := mu; vn_sinv := sinv; vn_logh := h |}.
Definition vn_logpdf (d : vn_d) (x : list R) : res :=
  if negb (length x =? length (vn_mu d))%nat then ErrDim else
  let r := F (qform (vn_sinv d) x (vn_mu d)) in
  let r := ediv r (F 2) in
  Val (esub (vn_logh d) r).

End VModel.

(* ------------------------------------------------- products of scalar families *)
Definition prod_step (acc : res) (t : res) : res :=
  match acc with Val r => match t with Val v => Val (eadd r v) | e => e end | e => e end.
(* ScalarIid.LogPdf: n = -1 stands for "any dimension" in the dimension check, but the loop runs i < n *)
Definition iid_logpdf (inner : R -> res) (n : Z) (xs : list R) : res :=
  if negb (n =? -1)%Z && negb (Z.of_nat (length xs) =? n)%Z then ErrDim else
  fold_left (fun acc x => prod_step acc (inner x)) (firstn (Z.to_nat n) xs) (Val (Fin 0)).
(* ScalarId.LogPdf *)
Definition id_logpdf (inners : list (R -> res)) (xs : list R) : res :=
  if negb (length xs =? length inners)%nat then ErrDim else
  fold_left (fun acc p => prod_step acc (fst p (snd p))) (combine inners xs) (Val (Fin 0)).

(* VectorId.LogPdf (vectorDistribution/vectorId.go): a product over BLOCKS; component i has dimension m_i
   and sees x.ConstSlice(j, j+m_i), where j is the running sum of the dimensions of the components before
   it (`j += m`); an error of a component is returned at once *)
Fixpoint vid_loop (comps : list (nat * (list R -> res))) (j : nat) (x : list R) (r : ER) : res :=
  match comps with
  | [] => Val r
  | (m, lp) :: rest =>
      match lp (firstn m (skipn j x)) with
      | Val t => vid_loop rest (j + m) x (eadd r t)
      | e => e
      end
  end.
(* NewVectorId: n = sum of the Dim() of the components *)
Definition vid_dim (comps : list (nat * (list R -> res))) : nat := fold_left (fun a c => (a + fst c)%nat) comps 0%nat.
Definition vid_logpdf (comps : list (nat * (list R -> res))) (x : list R) : res :=
  if negb (length x =? vid_dim comps)%nat then ErrDim else vid_loop comps 0 x (Fin 0).

(* ------------------------------------------------- dispatcher for the correspondence *)
(* VVId: vectorDistribution.VectorId over ScalarIid components (family, dimension) *)
Inductive vfam := VT | VNormal | VIid (f : fam) | VId (fs : list fam) | VVId (cs : list (fam * nat)).
(* nu: degrees of freedom (VT); mu / sinv / sdet: location, logged inverse and determinant (VT, VNormal);
   pss / zss: parameter vectors of the scalar components (VIid: the head; VId: one per component);
   n: the dimension given to NewScalarIid *)
Definition veval (lgam lerfc : R -> R) (gamP : R -> R -> R) (v : vfam) (nu : R) (mu : list R)
    (sinv : list (list R)) (sdet : R) (pss : list (list R)) (zss : list (list Z)) (n : Z) (x : list R) : res :=
  match v with
  | VT => vt_logpdf (vt_new lgam nu mu sinv sdet) x
  | VNormal => match vn_new mu sinv sdet with Some d => vn_logpdf d x | None => CtorErr end
  | VIid f => iid_logpdf (eval lgam lerfc gamP f LogPdf (nth 0 pss []) (nth 0 zss [])) n x
  | VId fs => id_logpdf (map (fun k => eval lgam lerfc gamP (nth k fs FDelta) LogPdf (nth k pss []) (nth k zss []))
                             (seq 0 (length fs))) x
  | VVId cs => vid_logpdf (map (fun k => let c := nth k cs (FDelta, 0%nat) in
                                  (snd c, iid_logpdf (eval lgam lerfc gamP (fst c) LogPdf (nth k pss []) (nth k zss []))
                                                     (Z.of_nat (snd c))))
                               (seq 0 (length cs))) x
  end.
