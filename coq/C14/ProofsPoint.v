(* C14 — boundary parameter values the constructors ACCEPT: the distribution degenerates to a point mass
   (negative binomial p = 0, binomial theta = 0 / theta = 1, geometric p = 1).  The log-density must be 0 at the atom
   (the `0^0 = 1` special cases: x == 0 / n - x == 0 skip the product with log 0 = -Inf, which would be NaN) and
   -Inf everywhere else.  Negative binomial p = 1 (where p^k (1-p)^r is identically 0) is rejected by the constructor. *)
From Coq Require Import Reals ZArith Bool Lra Lia Psatz List.
From Flocq Require Import Core.Raux.
From ADV Require Import Base.Num C14.ER C14.Model C14.Spec C14.ProofsER C14.ProofsCont C14.ProofsDisc.
Import ListNotations.
Open Scope R_scope.

Section Point.
Variable lgam : R -> R.

Lemma IZR_pos k : (0 < k)%Z -> 0 < IZR k.
Proof. intro H. apply (IZR_lt 0 k H). Qed.

(* ------------------------------------------------------- negative binomial, p = 0: point mass at 0 *)
Lemma negbinomial_p0_point_mass r : 0 < r -> lgam 1 = 0 ->
  exists d, nb_new lgam r 0 = Some d /\
    nb_logpdf lgam d 0 = Val (Fin 0) /\
    (forall k, (0 < k)%Z -> nb_logpdf lgam d (IZR k) = Val NInf) /\
    (forall k, (k < 0)%Z -> nb_logpdf lgam d (IZR k) = Val NInf) /\
    (forall x, is_intb x = false -> nb_logpdf lgam d x = Val NInf).
Proof.
  intros Hr Hl. unfold nb_new. rewrite !Rleb_f, !Rltb_f by lra. cbn [orb].
  eexists; split; [reflexivity|]. repeat split; unfold nb_logpdf; cbn [m_r m_lp m_z m_c1].
  - change 0 with (IZR 0) at 2 3. rewrite is_intb_IZR. rewrite Rltb_f by lra. cbn [negb orb].
    rewrite Reqb_t by reflexivity. red_er. rewrite !elgam_pos by lra. rewrite elog_pos by lra. red_er.
    do 2 f_equal. replace (1 + - 0) with 1 by lra. replace (0 + 1) with 1 by lra. replace (r + 0) with r by lra.
    rewrite ln_1, Hl. lra.
  - intros k Hk. pose proof (IZR_pos k Hk). rewrite is_intb_IZR. rewrite Rltb_f by lra. cbn [negb orb].
    rewrite Reqb_f by lra. red_er. rewrite !elgam_pos by lra. rewrite (elog_pos (1 + - 0)) by lra.
    rewrite (elog_zero 0) by reflexivity. red_er. rewrite inf_times_pos by lra. reflexivity.
  - intros k Hk. rewrite Rltb_t by (apply IZR_neg; exact Hk). reflexivity.
  - intros x Hx. rewrite Hx. cbn [negb]. rewrite orb_true_r. reflexivity.
Qed.

(* p = 1 is rejected (guard `p >= 1.0`): the header's p^k (1-p)^r would be identically 0 there.  The constructor
   accepts exactly r > 0 and 0 <= p < 1 *)
Lemma negbinomial_p1_rejected r : nb_new lgam r 1 = None.
Proof.
  unfold nb_new. rewrite (Rleb_t 1 1) by lra. rewrite !orb_true_r. reflexivity.
Qed.

Lemma negbinomial_ctor_domain r p : (exists d, nb_new lgam r p = Some d) <-> negbinomial_valid r p.
Proof.
  unfold negbinomial_valid, nb_new. split.
  - intros [d H]. destruct (Rleb r 0) eqn:E1; [discriminate|]. destruct (Rltb p 0) eqn:E2; [discriminate|].
    destruct (Rleb 1 p) eqn:E3; [discriminate|]. clear H.
    assert (Hr : ~ r <= 0) by (intro A; apply Rleb_t in A; congruence).
    assert (Hp : ~ p < 0) by (intro A; apply Rltb_t in A; congruence).
    assert (Hq : ~ 1 <= p) by (intro A; apply Rleb_t in A; congruence).
    lra.
  - intros [Hr [H0 H1]]. rewrite !Rleb_f, !Rltb_f by lra. cbn [orb]. eexists; reflexivity.
Qed.

(* ------------------------------------------------------- geometric, p = 1: point mass at 0 *)
Lemma geometric_p1_point_mass :
  exists d, geo_new 1 = Some d /\
    geo_logpdf d 0 = Val (Fin 0) /\
    (forall k, (0 < k)%Z -> geo_logpdf d (IZR k) = Val NInf) /\
    (forall k, (k < 0)%Z -> geo_logpdf d (IZR k) = Val NInf).
Proof.
  unfold geo_new. rewrite Rleb_f, Rltb_f by lra. cbn [orb].
  eexists; split; [reflexivity|]. repeat split; unfold geo_logpdf; cbn [o_p1 o_p2].
  - change 0 with (IZR 0) at 1 2 3. rewrite is_intb_IZR. cbn [negb]. rewrite Rltb_f by (simpl; lra).
    rewrite Reqb_t by reflexivity. red_er. rewrite (elog_pos 1) by lra. red_er. rewrite ln_1. do 2 f_equal. lra.
  - intros k Hk. pose proof (IZR_pos k Hk). rewrite is_intb_IZR. cbn [negb]. rewrite Rltb_f by lra.
    rewrite Reqb_f by lra. red_er. rewrite (elog_zero (1 + - (1))) by lra. rewrite (elog_pos 1) by lra. red_er.
    rewrite inf_times_pos by lra. reflexivity.
  - intros k Hk. rewrite is_intb_IZR. cbn [negb]. rewrite Rltb_t by (apply IZR_neg; exact Hk). reflexivity.
Qed.

(* ------------------------------------------------------- binomial, theta = 0: point mass at 0; theta = 1: at n *)
Lemma binomial_theta0_point_mass n : (0 <= n)%Z -> lgam 1 = 0 ->
  exists d, bin_new lgam 0 n = Some d /\
    bin_logpdf lgam d 0 = Val (Fin 0) /\
    (forall k, (0 < k <= n)%Z -> bin_logpdf lgam d (IZR k) = Val NInf).
Proof.
  intros Hn Hl. unfold bin_new. rewrite !Rltb_f by lra.
  assert (En : (n <? 0)%Z = false) by (apply Z.ltb_ge; lia). rewrite En. cbn [orb].
  pose proof (IZR_nonneg n Hn) as Hn'.
  eexists; split; [reflexivity|]. split; unfold bin_logpdf; cbn [i_theta i_n i_np1 i_z i_c1 i_ct]; rewrite ?plus_IZR.
  - change 0 with (IZR 0) at 3. rewrite is_intb_IZR. rewrite !Rltb_f by lra. cbn [negb orb].
    rewrite Reqb_t by reflexivity. red_er. rewrite !elgam_pos by lra. rewrite elog_pos by lra. red_er. cbn [eis_zero].
    destruct (Reqb (IZR n + - 0) 0) eqn:E; red_er; do 2 f_equal;
      replace (IZR n + 1 + - 0) with (IZR n + 1) by lra; replace (0 + 1) with 1 by lra; rewrite Hl;
      replace (1 + - 0) with 1 by lra; rewrite ?ln_1; lra.
  - intros k [Hk0 Hk1]. pose proof (IZR_pos k Hk0). pose proof (IZR_le k n Hk1). rewrite is_intb_IZR.
    rewrite !Rltb_f by lra. cbn [negb orb]. rewrite Reqb_f by lra. red_er. rewrite !elgam_pos by lra.
    rewrite (elog_zero 0) by reflexivity. rewrite elog_pos by lra. red_er. rewrite inf_times_pos by lra. cbn [eis_zero].
    destruct (Reqb (IZR n + - IZR k) 0); red_er; reflexivity.
Qed.

Lemma binomial_theta1_point_mass n : (0 <= n)%Z -> lgam 1 = 0 ->
  exists d, bin_new lgam 1 n = Some d /\
    bin_logpdf lgam d (IZR n) = Val (Fin 0) /\
    (forall k, (0 <= k < n)%Z -> bin_logpdf lgam d (IZR k) = Val NInf).
Proof.
  intros Hn Hl. unfold bin_new. rewrite !Rltb_f by lra.
  assert (En : (n <? 0)%Z = false) by (apply Z.ltb_ge; lia). rewrite En. cbn [orb].
  pose proof (IZR_nonneg n Hn) as Hn'.
  eexists; split; [reflexivity|]. split; unfold bin_logpdf; cbn [i_theta i_n i_np1 i_z i_c1 i_ct]; rewrite ?plus_IZR.
  - rewrite is_intb_IZR. rewrite !Rltb_f by lra. cbn [negb orb]. red_er. rewrite !elgam_pos by lra.
    rewrite elog_pos by lra. red_er. cbn [eis_zero]. rewrite (Reqb_t (IZR n + - IZR n)) by lra.
    replace (IZR n + 1 + - IZR n) with 1 by lra. rewrite Hl, ln_1.
    destruct (Reqb (IZR n) 0); red_er; do 2 f_equal; lra.
  - intros k [Hk0 Hk1]. pose proof (IZR_nonneg k Hk0). pose proof (IZR_lt k n Hk1). rewrite is_intb_IZR.
    rewrite !Rltb_f by lra. cbn [negb orb]. red_er. rewrite !elgam_pos by lra.
    rewrite (elog_zero (1 + - (1))) by lra. rewrite elog_pos by lra. red_er. cbn [eis_zero].
    rewrite (Reqb_f (IZR n + - IZR k)) by lra. red_er. rewrite inf_times_pos by lra.
    destruct (Reqb (IZR k) 0); red_er; reflexivity.
Qed.
End Point.
