(* C14 — proofs about the parameter layout of mixtures / products (MixParam.v): component i is handed exactly
   its own window of the parameter vector, for every number of components and every per-component parameter
   count; SetParameters(GetParameters()) is the identity; nested mixtures by induction on the nesting. *)
From Coq Require Import List Arith Bool Lia.
From ADV Require Import C14.MixParam.
Import ListNotations.

Section Layout.
Variable T : Type.

Lemma vslice_app_l (a b : list T) : vslice T (a ++ b) 0 (length a) = Some a.
Proof.
  unfold vslice. rewrite app_length.
  replace ((0 <=? length a) && (length a <=? length a + length b)) with true.
  - cbn [skipn]. rewrite Nat.sub_0_r, firstn_app, Nat.sub_diag, firstn_all. cbn. now rewrite app_nil_r.
  - symmetry; apply andb_true_intro; split; apply Nat.leb_le; lia.
Qed.
Lemma vslice_app_r (a b : list T) : vslice T (a ++ b) (length a) (length (a ++ b)) = Some b.
Proof.
  unfold vslice.
  replace ((length a <=? length (a ++ b)) && (length (a ++ b) <=? length (a ++ b))) with true.
  - rewrite skipn_app, skipn_all, Nat.sub_diag. cbn [skipn app].
    rewrite app_length. replace (length a + length b - length a) with (length b) by lia. now rewrite firstn_all.
  - symmetry; apply andb_true_intro; split; apply Nat.leb_le; rewrite ?app_length; lia.
Qed.
Lemma vslice_short (p : list T) (n : nat) : length p < n -> vslice T p 0 n = None.
Proof. intro H. unfold vslice. replace (n <=? length p) with false; [now rewrite andb_false_r|]. symmetry; apply Nat.leb_gt; lia. Qed.

Section Comp.
Variable C : Type.
Variable get : C -> list T.
Variable set : C -> list T -> sres C.
Notation mix_loop := (mix_loop T C get set).
Notation mix_set := (mix_set T C get set).
Notation mix_get := (mix_get T C get).
Notation prod_loop := (prod_loop T C get set).
Notation seq_set := (seq_set T C set).
Notation flat_take := (flat_take T C get).

(* [qs] are windows for [cs]: the i-th has the length of the i-th component's current parameter vector *)
Definition windows (cs : list C) (qs : list (list T)) : Prop :=
  Forall2 (fun c q => length (get c) = length q) cs qs.

(* THE layout theorem of the loop: whatever the components do with their windows, component i is handed
   exactly the i-th window, and nothing after the first failure is touched *)
Lemma mix_loop_windows cs : forall qs extra,
  windows cs qs -> mix_loop cs (length cs) (concat qs ++ extra) = seq_set cs qs.
Proof.
  induction cs as [|c tl IH]; intros qs extra Hw; inversion Hw; subst; [reflexivity|].
  cbn [length MixParam.mix_loop MixParam.seq_set concat].
  rewrite <- app_assoc. rewrite H1 at 1. rewrite vslice_app_l.
  destruct (set c y) as [c'|c'|c']; [|reflexivity|reflexivity].
  rewrite H1. rewrite vslice_app_r. now rewrite IH.
Qed.

(* a cursor that runs out of entries panics and leaves the components before it updated *)
Lemma mix_loop_short c tl k rest :
  length rest < length (get c) -> mix_loop (c :: tl) (S k) rest = SPanic (c :: tl).
Proof. intro H. cbn [MixParam.mix_loop]. now rewrite vslice_short. Qed.

Lemma flat_take_all cs : flat_take cs (length cs) = flat_map get cs.
Proof. induction cs as [|c tl IH]; [reflexivity|]. cbn. now rewrite IH. Qed.
Lemma flat_map_concat cs : flat_map get cs = concat (map get cs).
Proof. induction cs as [|c tl IH]; [reflexivity|]. cbn. now rewrite IH. Qed.

Lemma mix_get_layout lw cs : length lw = length cs -> mix_get lw cs = lw ++ concat (map get cs).
Proof. intro H. unfold MixParam.mix_get. now rewrite H, flat_take_all, flat_map_concat. Qed.

(* Mixture.SetParameters(w ++ window_0 ++ ... ++ window_{K-1} ++ extra) *)
Lemma mix_set_windows lw cs w qs extra :
  length w = length lw -> length lw = length cs -> windows cs qs ->
  mix_set lw cs (w ++ concat qs ++ extra) =
    if 0 <? length (concat qs ++ extra) then smap (fun cs' => (w, cs')) (seq_set cs qs) else SOk (w, cs).
Proof.
  intros Hw Hk Hq. unfold MixParam.mix_set.
  rewrite <- Hw, vslice_app_l, Nat.eqb_refl. cbn [negb]. rewrite vslice_app_r.
  destruct (0 <? length (concat qs ++ extra)); [|reflexivity].
  now rewrite Hw, Hk, mix_loop_windows.
Qed.

Lemma seq_set_ok cs : forall ds,
  Forall2 (fun c d => set c (get d) = SOk d) cs ds -> seq_set cs (map get ds) = SOk ds.
Proof.
  induction cs as [|c tl IH]; intros ds H; inversion H; subst; [reflexivity|].
  cbn. rewrite H2. now rewrite IH.
Qed.

(* first failure at position i: components before i hold their new parameters, the others are untouched *)
Lemma seq_set_fail cs1 : forall ds1 c c' cs2 q qs2,
  Forall2 (fun c d => set c (get d) = SOk d) cs1 ds1 -> set c q = SErr c' ->
  seq_set (cs1 ++ c :: cs2) (map get ds1 ++ q :: qs2) = SErr (ds1 ++ c' :: cs2).
Proof.
  induction cs1 as [|a tl IH]; intros ds1 c c' cs2 q qs2 H He; inversion H; subst; cbn.
  - now rewrite He.
  - rewrite H2. now rewrite (IH _ _ _ _ _ _ H4 He).
Qed.

Lemma prod_loop_windows cs : forall qs extra,
  windows cs qs ->
  prod_loop cs (concat qs ++ extra) =
    match seq_set cs qs with
    | SOk cs' => if 0 <? length extra then SErr cs' else SOk cs'
    | r => r
    end.
Proof.
  induction cs as [|c tl IH]; intros qs extra Hw; inversion Hw; subst.
  - reflexivity.
  - cbn [MixParam.prod_loop MixParam.seq_set concat]. rewrite <- app_assoc.
    replace (length (y ++ concat l' ++ extra) <? length (get c)) with false
      by (symmetry; apply Nat.ltb_ge; rewrite app_length; lia).
    rewrite H1, firstn_app, Nat.sub_diag, firstn_all. cbn [firstn]. rewrite app_nil_r.
    destruct (set c y) as [c'|c'|c']; [|reflexivity|reflexivity].
    rewrite skipn_app, skipn_all, Nat.sub_diag. cbn [skipn app]. rewrite IH by assumption.
    destruct (seq_set tl l'); [destruct (0 <? length extra)|..]; reflexivity.
Qed.
End Comp.

(* ---- finite nestings ------------------------------------------------------------------------------ *)
Variable F : Type.
Variable arity : F -> nat.
Variable guard : F -> list T -> bool.
Notation ptree := (ptree T F).
Notation tree_get := (tree_get T F).
Notation tree_set := (tree_set T F arity guard).
Notation tree_wf := (tree_wf T F arity guard).
Notation same_shape := (same_shape T F).

Lemma ptree_induction (P : ptree -> Prop)
  (HL : forall f ps, P (PLeaf f ps)) (HI : forall c, P c -> P (PIid c))
  (HP : forall cs, Forall P cs -> P (PProd cs)) (HM : forall lw cs, Forall P cs -> P (PMix lw cs)) :
  forall t, P t.
Proof.
  fix IH 1. intros [f ps|c|cs|lw cs].
  - apply HL.
  - apply HI, IH.
  - apply HP. induction cs as [|c tl IHl]; constructor; [apply IH|apply IHl].
  - apply HM. induction cs as [|c tl IHl]; constructor; [apply IH|apply IHl].
Qed.

Definition wf_all := fix all (l : list ptree) : Prop := match l with [] => True | c :: tl => tree_wf c /\ all tl end.
Definition shape_all2 := fix all2 (l m : list ptree) : Prop :=
  match l, m with [], [] => True | c :: tl, d :: tm => same_shape c d /\ all2 tl tm | _, _ => False end.
Lemma wf_all_Forall l : wf_all l <-> Forall tree_wf l.
Proof. induction l as [|c tl IH]; cbn; split; intro H; [constructor|exact I|destruct H; constructor; tauto|inversion H; tauto]. Qed.
Lemma shape_all2_Forall2 l : forall m, shape_all2 l m <-> Forall2 same_shape l m.
Proof.
  induction l as [|c tl IH]; intros [|d tm]; cbn; split; intro H.
  - constructor.
  - exact I.
  - destruct H.
  - inversion H.
  - destruct H.
  - inversion H.
  - destruct H as [H1 H2]. constructor; [exact H1|now apply IH].
  - inversion H; subst. split; [assumption|now apply IH].
Qed.

Hypothesis arity_pos : forall f, 0 < arity f.

(* a well-formed distribution has at least one parameter *)
Lemma wf_pos : forall t, tree_wf t -> 0 < length (tree_get t).
Proof.
  apply (ptree_induction (fun t => tree_wf t -> 0 < length (tree_get t))).
  - intros f ps [Hl _]. cbn. rewrite Hl. apply arity_pos.
  - intros c IH H. exact (IH H).
  - intros cs IH [Hne H]. destruct cs as [|c tl]; [congruence|].
    cbn in H. destruct H as [Hc _]. inversion IH; subst. cbn [MixParam.tree_get flat_map]. rewrite app_length.
    specialize (H1 Hc). lia.
  - intros lw cs IH [_ [Hne _]]. cbn. unfold MixParam.mix_get. rewrite app_length.
    destruct lw; [congruence|cbn; lia].
Qed.

Lemma shape_and_window : forall t u, same_shape t u ->
  length (tree_get t) = length (tree_get u) /\ (tree_wf u -> tree_set t (tree_get u) = SOk u).
Proof.
  apply (ptree_induction (fun t => forall u, same_shape t u ->
           length (tree_get t) = length (tree_get u) /\ (tree_wf u -> tree_set t (tree_get u) = SOk u))).
  - intros f ps [g qs| | |]; cbn; try tauto. intros [<- Hl]. split; [exact Hl|]. intros [Ha Hg].
    unfold MixParam.leaf_set. rewrite Ha, Nat.ltb_irrefl, Hg. rewrite <- Ha, firstn_all. reflexivity.
  - intros c IH [|d| |]; cbn; try tauto. intro Hs. destruct (IH d Hs) as [Hl Hw]. split; [exact Hl|].
    intro Hd. now rewrite (Hw Hd).
  - intros cs IH [| |ds|]; cbn; try tauto. intro Hs. fold shape_all2 in Hs. apply shape_all2_Forall2 in Hs.
    assert (Hlen : Forall2 (fun c d => length (tree_get c) = length (tree_get d)) cs ds).
    { clear - IH Hs. induction Hs; inversion IH; subst; constructor; [apply (H2 _ H)|now apply IHHs]. }
    split.
    + clear - Hlen. induction Hlen; [reflexivity|]. cbn. rewrite !app_length. lia.
    + intros [Hne Hd]. fold wf_all in Hd. apply wf_all_Forall in Hd.
      rewrite (flat_map_concat ptree tree_get ds), <- (app_nil_r (concat _)).
      rewrite prod_loop_windows.
      * rewrite seq_set_ok; [reflexivity|].
        clear - IH Hs Hd. induction Hs; inversion IH; inversion Hd; subst; constructor; [now apply (H2 _ H)|now apply IHHs].
      * unfold windows. clear - Hlen. induction Hlen; cbn; constructor; assumption.
  - intros lw cs IH [| | |lv ds]; cbn; try tauto. intros [Hk [Hkc Hs]]. fold shape_all2 in Hs.
    apply shape_all2_Forall2 in Hs.
    assert (Hlen : Forall2 (fun c d => length (tree_get c) = length (tree_get d)) cs ds).
    { clear - IH Hs. induction Hs; inversion IH; subst; constructor; [apply (H2 _ H)|now apply IHHs]. }
    assert (Hcd : length cs = length ds) by (clear - Hs; induction Hs; cbn; lia).
    split.
    + unfold MixParam.mix_get. rewrite !app_length.
      replace (length lv) with (length ds) by lia. rewrite Hkc at 2. rewrite Hkc, Hcd at 1.
      rewrite !flat_take_all. f_equal. clear - Hlen. induction Hlen; [reflexivity|]. cbn. rewrite !app_length. lia.
    + intros [Hkd [Hne Hd]]. fold wf_all in Hd. apply wf_all_Forall in Hd.
      rewrite (mix_get_layout ptree tree_get lv ds Hkd), <- (app_nil_r (concat _)).
      rewrite mix_set_windows; [|lia|exact Hkc|].
      * replace (0 <? length (concat (map tree_get ds) ++ [])) with true.
        -- rewrite seq_set_ok; [reflexivity|].
           clear - IH Hs Hd. induction Hs; inversion IH; inversion Hd; subst; constructor; [now apply (H2 _ H)|now apply IHHs].
        -- symmetry. apply Nat.ltb_lt. rewrite app_nil_r.
           destruct ds as [|d tm]; [destruct lv; [congruence|discriminate]|].
           inversion Hd; subst. cbn. rewrite app_length. pose proof (wf_pos d H1). lia.
      * unfold windows. clear - Hlen. induction Hlen; cbn; constructor; assumption.
Qed.

(* WINDOW theorem: setting the parameter vector of ANY well-formed distribution u of the same shape makes t
   equal to u — every leaf, at every depth, receives exactly its own window *)
Theorem tree_set_window t u : same_shape t u -> tree_wf u -> tree_set t (tree_get u) = SOk u.
Proof. intros Hs Hw. now apply shape_and_window. Qed.

Lemma wf_same_shape : forall t, tree_wf t -> same_shape t t.
Proof.
  apply (ptree_induction (fun t => tree_wf t -> same_shape t t)).
  - intros f ps _. cbn. tauto.
  - intros c IH H. exact (IH H).
  - intros cs IH [_ H]. cbn. fold wf_all in H. fold shape_all2. apply shape_all2_Forall2.
    apply wf_all_Forall in H. clear - IH H. induction cs; constructor; inversion IH; inversion H; subst; auto.
  - intros lw cs IH [Hk [_ H]]. cbn. fold wf_all in H. fold shape_all2. repeat split; [exact Hk|].
    apply shape_all2_Forall2. apply wf_all_Forall in H. clear - IH H. induction cs; constructor; inversion IH; inversion H; subst; auto.
Qed.

(* ROUND TRIP *)
Theorem tree_roundtrip t : tree_wf t -> tree_set t (tree_get t) = SOk t.
Proof. intro H. apply tree_set_window; [now apply wf_same_shape|exact H]. Qed.

(* ... hence every observable of the state (the log-density in particular) is unchanged *)
Corollary tree_roundtrip_observable {A} (obs : ptree -> A) t :
  tree_wf t -> obs (sstate (tree_set t (tree_get t))) = obs t.
Proof. intro H. now rewrite tree_roundtrip. Qed.

End Layout.
