(* C14 — parameter layout, second part: whatever vector SetParameters accepts, GetParameters() afterwards
   returns exactly its prefix (no entry lost, duplicated or moved), for mixtures / products over any component
   type and for finite nestings. *)
From Coq Require Import List Arith Bool Lia.
From ADV Require Import C14.MixParam C14.ProofsMixParam.
Import ListNotations.

Section Layout.
Variable T : Type.

Section Comp.
Variable C : Type.
Variable get : C -> list T.
Variable set : C -> list T -> sres C.
Notation mix_loop := (mix_loop T C get set).
Notation mix_set := (mix_set T C get set).
Notation mix_get := (mix_get T C get).
Notation prod_loop := (prod_loop T C get set).
Notation flat_take := (flat_take T C get).
Notation flat_take_all := (flat_take_all T C get).

(* ---- whatever vector is accepted, GetParameters() afterwards returns exactly its prefix ---------------- *)
Lemma firstn_add (l : list T) n m : firstn (n + m) l = firstn n l ++ firstn m (skipn n l).
Proof.
  revert l; induction n as [|n IH]; intros [|x l]; cbn; try reflexivity.
  - now rewrite firstn_nil.
  - now rewrite IH.
Qed.
Lemma vslice0_inv (p : list T) n w : vslice T p 0 n = Some w -> n <= length p /\ w = firstn n p.
Proof.
  unfold vslice. cbn [Nat.leb andb skipn]. destruct (n <=? length p) eqn:E; [|discriminate].
  intro H; inversion H. rewrite Nat.sub_0_r. split; [now apply Nat.leb_le|reflexivity].
Qed.
Lemma vslice_tail_inv (p : list T) n r : vslice T p n (length p) = Some r -> r = skipn n p.
Proof.
  unfold vslice. destruct ((n <=? length p) && (length p <=? length p)); [|discriminate].
  intro H; inversion H. apply firstn_all2. rewrite skipn_length. lia.
Qed.

(* a component that accepts a window reports that window *)
Definition reports_window (c : C) : Prop :=
  forall q c', length q = length (get c) -> set c q = SOk c' -> get c' = q.

Lemma mix_loop_get cs : forall rest cs', Forall reports_window cs ->
  mix_loop cs (length cs) rest = SOk cs' ->
  flat_map get cs' = firstn (length (flat_map get cs)) rest /\ length cs' = length cs.
Proof.
  induction cs as [|c tl IH]; intros rest cs' Hl H.
  - cbn in H. inversion H. split; reflexivity.
  - inversion Hl as [|? ? Hc Htl]; subst. cbn [length MixParam.mix_loop] in H.
    destruct (vslice T rest 0 (length (get c))) as [win|] eqn:E1; [|discriminate].
    apply vslice0_inv in E1. destruct E1 as [Hn ->].
    destruct (set c (firstn (length (get c)) rest)) as [c1|c1|c1] eqn:E2; try discriminate.
    destruct (vslice T rest (length (get c)) (length rest)) as [rest'|] eqn:E3; [|discriminate].
    apply vslice_tail_inv in E3. subst rest'.
    destruct (mix_loop tl (length tl) (skipn (length (get c)) rest)) as [tl'|tl'|tl'] eqn:E4; try discriminate.
    cbn in H. inversion H; subst. destruct (IH _ _ Htl E4) as [Hg Hlen].
    assert (Hc1 : get c1 = firstn (length (get c)) rest) by (apply Hc; [rewrite firstn_length; lia|exact E2]).
    split; [|cbn; now rewrite Hlen].
    cbn [flat_map]. rewrite app_length, firstn_add, Hc1, Hg. reflexivity.
Qed.

Lemma mix_set_get lw cs p w' cs' : Forall reports_window cs -> length lw = length cs ->
  length (mix_get lw cs) <= length p -> mix_set lw cs p = SOk (w', cs') ->
  mix_get w' cs' = firstn (length (mix_get lw cs)) p /\ length w' = length lw /\ length cs' = length cs.
Proof.
  intros Hl Hk Hlen.
  assert (B : flat_take cs (length lw) = flat_map get cs) by (rewrite Hk; apply flat_take_all).
  unfold MixParam.mix_get in Hlen |- *. rewrite B, app_length in Hlen. rewrite B.
  unfold MixParam.mix_set.
  destruct (vslice T p 0 (length lw)) as [w|] eqn:E1; [|discriminate].
  apply vslice0_inv in E1. destruct E1 as [Hn ->].
  assert (Hw : length (firstn (length lw) p) = length lw) by (rewrite firstn_length; lia).
  rewrite Hw, Nat.eqb_refl. cbn [negb].
  destruct (vslice T p (length lw) (length p)) as [rest|] eqn:E2; [|discriminate].
  apply vslice_tail_inv in E2. subst rest.
  destruct (0 <? length (skipn (length lw) p)) eqn:E3.
  - destruct (mix_loop cs (length lw) (skipn (length lw) p)) as [c1|c1|c1] eqn:E4; try discriminate.
    cbn. intro H; inversion H; subst. rewrite Hk in E4. destruct (mix_loop_get _ _ _ Hl E4) as [Hg Hc].
    assert (A : flat_take cs' (length lw) = flat_map get cs') by (rewrite Hk, <- Hc; apply flat_take_all).
    rewrite Hw, A, app_length, firstn_add, Hg, Hk. auto.
  - intro H; inversion H; subst. apply Nat.ltb_ge in E3. rewrite skipn_length in E3.
    rewrite Hw, B, app_length.
    assert (H0 : length (flat_map get cs') = 0) by lia.
    rewrite H0, Nat.add_0_r. apply length_zero_iff_nil in H0. rewrite H0, app_nil_r. auto.
Qed.

Lemma prod_loop_get cs : forall rest cs', Forall reports_window cs ->
  prod_loop cs rest = SOk cs' ->
  flat_map get cs' = rest /\ length (flat_map get cs) = length rest /\ length cs' = length cs.
Proof.
  induction cs as [|c tl IH]; intros rest cs' Hl H.
  - cbn in H. destruct rest; cbn in H; [|discriminate]. inversion H. auto.
  - inversion Hl as [|? ? Hc Htl]; subst. cbn [MixParam.prod_loop] in H.
    destruct (length rest <? length (get c)) eqn:E1; [discriminate|]. apply Nat.ltb_ge in E1.
    destruct (set c (firstn (length (get c)) rest)) as [c1|c1|c1] eqn:E2; try discriminate.
    destruct (prod_loop tl (skipn (length (get c)) rest)) as [tl'|tl'|tl'] eqn:E4; try discriminate.
    cbn in H. inversion H; subst. destruct (IH _ _ Htl E4) as [Hg [Hlen Hn]].
    assert (Hc1 : get c1 = firstn (length (get c)) rest) by (apply Hc; [rewrite firstn_length; lia|exact E2]).
    cbn [flat_map length]. rewrite Hc1, Hg, firstn_skipn, app_length, Hlen, skipn_length, Hn. repeat split; lia.
Qed.
End Comp.

Variable F : Type.
Variable arity : F -> nat.
Variable guard : F -> list T -> bool.
Notation ptree := (ptree T F).
Notation tree_get := (tree_get T F).
Notation tree_set := (tree_set T F arity guard).
Notation ptree_induction := (ptree_induction T F).

Notation tree_ok := (tree_ok T F arity).
Definition ok_all := fix all (l : list ptree) : Prop := match l with [] => True | c :: tl => tree_ok c /\ all tl end.
Lemma ok_all_Forall l : ok_all l <-> Forall tree_ok l.
Proof. induction l as [|c tl IH]; cbn; split; intro H; [constructor|exact I|destruct H; constructor; tauto|inversion H; tauto]. Qed.

(* GET AFTER SET, any vector: if SetParameters(p) returns nil then GetParameters() is the prefix of p — no entry is
   lost, duplicated or moved, at any depth — and the shape is what it was *)
Theorem tree_get_after_set : forall t, tree_ok t -> forall p t', length (tree_get t) <= length p ->
  tree_set t p = SOk t' -> tree_get t' = firstn (length (tree_get t)) p /\ tree_ok t'.
Proof.
  apply (ptree_induction (fun t => tree_ok t -> forall p t', length (tree_get t) <= length p ->
           tree_set t p = SOk t' -> tree_get t' = firstn (length (tree_get t)) p /\ tree_ok t')).
  - intros f ps Hok p t' Hlen H. cbn in *. unfold MixParam.leaf_set in H.
    destruct (length p <? arity f) eqn:E; [discriminate|]. destruct (guard f p); [|discriminate].
    cbn in H. inversion H; subst. cbn. rewrite Hok. split; [reflexivity|]. apply Nat.ltb_ge in E. rewrite firstn_length. lia.
  - intros c IH Hok p t' Hlen H. cbn in *. destruct (tree_set c p) as [c1|c1|c1] eqn:E; try discriminate.
    cbn in H. inversion H; subst. cbn. now apply IH.
  - intros cs IH Hok p t' Hlen H. cbn in Hok. fold ok_all in Hok. apply ok_all_Forall in Hok. cbn in H.
    destruct (MixParam.prod_loop T ptree tree_get tree_set cs p) as [c1|c1|c1] eqn:E; try discriminate.
    cbn in H. inversion H; subst.
    assert (Hrep : Forall (fun c => reports_window ptree tree_get tree_set c /\
                                     forall q c', length q = length (tree_get c) -> tree_set c q = SOk c' -> tree_ok c') cs).
    { clear - IH Hok. induction cs; constructor; inversion IH; inversion Hok; subst; auto.
      split; intros q c' Hq Hs; destruct (H1 H5 q c' ltac:(lia) Hs) as [Hg Ho]; [|exact Ho].
      rewrite Hg, <- Hq. apply firstn_all. }
    destruct (prod_loop_get ptree tree_get tree_set cs p c1) as [Hg [Hl Hn]]; [|exact E|].
    { eapply Forall_impl; [|exact Hrep]. cbn. tauto. }
    cbn [MixParam.tree_get]. rewrite Hg, Hl, firstn_all. split; [reflexivity|].
    cbn. fold ok_all. apply ok_all_Forall.
    (* every new component is ok *)
    clear - Hrep E. revert p c1 E. induction cs as [|c tl IHl]; intros p c1 E.
    + destruct p; cbn in E; inversion E. constructor.
    + inversion Hrep as [|? ? [_ Hc] Htl]; subst. cbn [MixParam.prod_loop] in E.
      destruct (length p <? length (tree_get c)) eqn:E1; [discriminate|]. apply Nat.ltb_ge in E1.
      destruct (tree_set c (firstn (length (tree_get c)) p)) as [c2|c2|c2] eqn:E2; try discriminate.
      destruct (MixParam.prod_loop T ptree tree_get tree_set tl (skipn (length (tree_get c)) p)) as [tl'|tl'|tl'] eqn:E4; try discriminate.
      cbn in E. inversion E; subst c1. constructor; [|eapply IHl; eauto].
      apply (Hc (firstn (length (tree_get c)) p) c2); [rewrite firstn_length; lia|exact E2].
  - intros lw cs IH [Hk Hok] p t' Hlen H. fold ok_all in Hok. apply ok_all_Forall in Hok. cbn in H.
    destruct (MixParam.mix_set T ptree tree_get tree_set lw cs p) as [[w1 c1]|c1|c1] eqn:E; try discriminate.
    cbn in H. inversion H; subst.
    assert (Hrep : Forall (fun c => reports_window ptree tree_get tree_set c /\
                                     forall q c', length q = length (tree_get c) -> tree_set c q = SOk c' -> tree_ok c') cs).
    { clear - IH Hok. induction cs; constructor; inversion IH; inversion Hok; subst; auto.
      split; intros q c' Hq Hs; destruct (H1 H5 q c' ltac:(lia) Hs) as [Hg Ho]; [|exact Ho].
      rewrite Hg, <- Hq. apply firstn_all. }
    destruct (mix_set_get ptree tree_get tree_set lw cs p w1 c1) as [Hg [Hw Hn]]; [|exact Hk|exact Hlen|exact E|].
    { eapply Forall_impl; [|exact Hrep]. cbn. tauto. }
    cbn [MixParam.tree_get]. split; [exact Hg|]. cbn. fold ok_all. split; [lia|]. apply ok_all_Forall.
    (* every component of the result is ok: the updated ones by the induction hypothesis, the others as before *)
    unfold MixParam.mix_set in E.
    destruct (vslice T p 0 (length lw)); [|discriminate].
    destruct (negb (length l =? length lw)); [discriminate|].
    destruct (vslice T p (length lw) (length p)) as [rest|]; [|discriminate].
    destruct (0 <? length rest); [|inversion E; subst; exact Hok].
    destruct (MixParam.mix_loop T ptree tree_get tree_set cs (length lw) rest) as [c2|c2|c2] eqn:E4; try discriminate.
    cbn in E. inversion E; subst c2. rewrite Hk in E4. clear - Hrep E4. revert rest c1 E4.
    induction cs as [|c tl IHl]; intros rest c1 E4.
    + cbn in E4. inversion E4. constructor.
    + inversion Hrep as [|? ? [_ Hc] Htl]; subst. cbn [length MixParam.mix_loop] in E4.
      destruct (vslice T rest 0 (length (tree_get c))) as [win|] eqn:E1; [|discriminate].
      apply vslice0_inv in E1. destruct E1 as [Hn ->].
      destruct (tree_set c (firstn (length (tree_get c)) rest)) as [c2|c2|c2] eqn:E2; try discriminate.
      destruct (vslice T rest (length (tree_get c)) (length rest)) as [rest'|]; [|discriminate].
      destruct (MixParam.mix_loop T ptree tree_get tree_set tl (length tl) rest') as [tl'|tl'|tl'] eqn:E5; try discriminate.
      cbn in E4. inversion E4; subst c1. constructor; [|eapply IHl; eauto].
      apply (Hc (firstn (length (tree_get c)) rest) c2); [rewrite firstn_length; lia|exact E2].
Qed.

End Layout.
