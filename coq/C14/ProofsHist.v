(* C14 — cache coherence over mutator histories (SModel.v).
   For every scalar family: the state reached from a constructor by ANY sequence of the exported mutators
   (SetParameters, ImportConfig, Clone, GetParameters->SetParameters, ExportConfig->ImportConfig, SetN)
   is exactly the state a fresh constructor builds from the parameters the object reports
   ([twin]: new (get d) = Some d).  Hence every observable (LogPdf, LogCdf, Cdf) after the history equals
   that of the freshly constructed twin, and no history dereferences a nil clone. *)
From Coq Require Import Reals ZArith Bool List Lra Lia.
From Flocq Require Import Core.Raux.
From ADV Require Import Base.Num C14.ER C14.Model C14.SModel C14.ProofsER.
Import ListNotations.
Open Scope R_scope.

(* ---------------------------------------------------------------- generic part *)
Definition hres_inv {D} (panic_ok : Prop) (inv : D -> Prop) (r : hres D) : Prop :=
  match r with HOk d => inv d | HPanic => panic_ok | HOut => True end.

Lemma hrun_inv {D} (o : mut_ops D) (Pp : Prop) (inv : D -> Prop) :
  (forall d h, inv d -> hres_inv Pp inv (hstep o d h)) ->
  forall ops d, inv d -> hres_inv Pp inv (hrun o d ops).
Proof.
  intros Hstep ops. induction ops as [|h t IH]; intros d Hd; cbn.
  - exact Hd.
  - pose proof (Hstep d h Hd) as Hs. destruct (hstep o d h) as [d'| |]; cbn in *.
    + apply IH. exact Hs.
    + exact Hs.
    + exact I.
Qed.

Lemma fin_all_FL p : fin_all (FL p) = Some p.
Proof. induction p as [|x p IH]; cbn; [reflexivity|]. unfold FL in IH. rewrite IH. reflexivity. Qed.

Lemma with_fin_FL {D} p (k : list R -> hres D) : with_fin (FL p) k = k p.
Proof. unfold with_fin. rewrite fin_all_FL. reflexivity. Qed.

(* families all of whose mutators go through the constructor *)
Section Recon.
Context {D : Type} (new : list R -> option D) (get : D -> list R) (clone : D -> hres D).
Definition twin (d : D) : Prop := new (get d) = Some d.
Hypothesis idem : forall p d, new p = Some d -> twin d.
Hypothesis clone_ok : forall d, twin d -> clone d = HOk d.

Lemma recon_step d h : twin d -> hres_inv False twin (hstep (recon_ops new get clone) d h).
Proof.
  intro Hd. destruct h as [p|p| | | |n]; cbn.
  - rewrite with_fin_FL. destruct (new p) eqn:E; cbn; [exact (idem _ _ E)|exact Hd].
  - rewrite with_fin_FL. destruct (new p) eqn:E; cbn; [exact (idem _ _ E)|exact Hd].
  - rewrite (clone_ok d Hd). exact Hd.
  - rewrite with_fin_FL. rewrite Hd. exact Hd.
  - rewrite with_fin_FL. rewrite Hd. exact Hd.
  - exact Hd.
Qed.

Lemma recon_hist p d0 ops : new p = Some d0 -> hres_inv False twin (hrun (recon_ops new get clone) d0 ops).
Proof. intro H. apply hrun_inv; [apply recon_step|exact (idem _ _ H)]. Qed.

(* the parameter get/set round trip and the clone are the identity on a reachable state *)
Lemma recon_roundtrip d : twin d ->
  hstep (recon_ops new get clone) d HGetSet = HOk d /\ hstep (recon_ops new get clone) d HExpImp = HOk d
  /\ hstep (recon_ops new get clone) d HClone = HOk d.
Proof.
  intro Hd. cbn. rewrite with_fin_FL, Hd, (clone_ok d Hd). repeat split.
Qed.
End Recon.

(* the constructors: `if guard then None else Some {| ... |}` *)
Ltac ctor_inv H :=
  repeat match type of H with
         | (if ?b then None else _) = Some _ => let E := fresh "E" in destruct b eqn:E; [discriminate H|]
         end;
  injection H as H; subst.
Ltac head t := lazymatch t with ?f _ => head f | _ => t end.
Ltac idem_tac :=
  let p := fresh "p" in let d := fresh "d" in let H := fresh "H" in
  intros p d H; unfold twin;
  match goal with |- ?new (?get d) = _ => let h := head new in unfold h, get in * end;
  match type of H with ?l = _ => let h := head l in unfold h in H end;
  ctor_inv H; cbn [P nth];
  match goal with |- ?l = _ => let h := head l in unfold h end;
  cbn -[Rleb Rltb Reqb elog ediv esub eadd emul eneg elgam];
  repeat match goal with E : ?b = false |- context [?b] => rewrite E end;
  try reflexivity.

Section Families.
Variable lgam : R -> R.

(* ------------------------------------------------------------------ normal *)
Lemma normal_idem : forall p d, normal_newv p = Some d -> twin normal_newv normal_get d.
Proof. idem_tac. Qed.
Lemma normal_clone_ok d : twin normal_newv normal_get d ->
  new_or_nil (normal_new (n_mu d) (n_sigma d)) = HOk d.
Proof. unfold twin, normal_newv, normal_get. cbn [P nth]. intros ->. reflexivity. Qed.
Lemma normal_hist p d0 ops : normal_newv p = Some d0 ->
  hres_inv False (twin normal_newv normal_get) (hrun normal_ops d0 ops).
Proof. apply recon_hist; [exact normal_idem|exact normal_clone_ok]. Qed.

(* ------------------------------------------------------------- exponential *)
Lemma exp_idem : forall p d, exp_newv p = Some d -> twin exp_newv exp_get d.
Proof. idem_tac. Qed.
Lemma exp_hist p d0 ops : exp_newv p = Some d0 -> hres_inv False (twin exp_newv exp_get) (hrun exp_ops d0 ops).
Proof. apply recon_hist; [exact exp_idem|intros [] _; reflexivity]. Qed.

(* ----------------------------------------------------------------- laplace *)
Lemma lap_idem : forall p d, lap_newv p = Some d -> twin lap_newv lap_get d.
Proof. idem_tac. Qed.
Lemma lap_hist p d0 ops : lap_newv p = Some d0 -> hres_inv False (twin lap_newv lap_get) (hrun lap_ops d0 ops).
Proof. apply recon_hist; [exact lap_idem|intros [] _; reflexivity]. Qed.

(* ------------------------------------------------------------------ pareto *)
Lemma par_idem : forall p d, par_newv p = Some d -> twin par_newv par_get d.
Proof. idem_tac. Qed.
Lemma par_hist p d0 ops : par_newv p = Some d0 -> hres_inv False (twin par_newv par_get) (hrun par_ops d0 ops).
Proof. apply recon_hist; [exact par_idem|intros [] _; reflexivity]. Qed.

(* ------------------------------------------------------ generalised pareto *)
Lemma gp_idem : forall p d, gp_newv p = Some d -> twin gp_newv gp_get d.
Proof. idem_tac. Qed.
Lemma gp_hist p d0 ops : gp_newv p = Some d0 -> hres_inv False (twin gp_newv gp_get) (hrun gp_ops d0 ops).
Proof. apply recon_hist; [exact gp_idem|intros [] _; reflexivity]. Qed.

(* --------------------------------------------------------------------- gev *)
Lemma gev_idem : forall p d, gev_newv p = Some d -> twin gev_newv gev_get d.
Proof. idem_tac. Qed.
Lemma gev_hist p d0 ops : gev_newv p = Some d0 -> hres_inv False (twin gev_newv gev_get) (hrun gev_ops d0 ops).
Proof. apply recon_hist; [exact gev_idem|intros [] _; reflexivity]. Qed.

(* ------------------------------------------------------------------- gamma *)
Lemma gam_idem : forall p d, gam_newv lgam p = Some d -> twin (gam_newv lgam) gam_get d.
Proof. idem_tac. Qed.
Lemma gam_hist p d0 ops : gam_newv lgam p = Some d0 ->
  hres_inv False (twin (gam_newv lgam) gam_get) (hrun (gam_ops lgam) d0 ops).
Proof.
  apply recon_hist; [exact gam_idem|]. unfold twin, gam_newv, gam_get. cbn [P nth]. intros d ->. reflexivity.
Qed.

(* -------------------------------------------------------------------- beta *)
Lemma Reqb_10 : Reqb 1 1 = true /\ Reqb 0 1 = false.
Proof. split; [apply Reqb_t; reflexivity|apply Reqb_f; lra]. Qed.
Lemma beta_idem : forall p d, beta_newv lgam p = Some d -> twin (beta_newv lgam) beta_get d.
Proof.
  intros p d H. unfold twin, beta_newv, beta_get, beta_new in *. ctor_inv H. cbn [P nth b_alpha b_beta b_log].
  rewrite E. destruct (Reqb (P p 2) 1); [rewrite (proj1 Reqb_10)|rewrite (proj2 Reqb_10)]; reflexivity.
Qed.
Lemma beta_hist p d0 ops : beta_newv lgam p = Some d0 ->
  hres_inv False (twin (beta_newv lgam) beta_get) (hrun (beta_ops lgam) d0 ops).
Proof.
  apply recon_hist; [exact beta_idem|]. intros d Hd.
  assert (Hn : beta_new lgam (b_alpha d) (b_beta d) (b_log d) = Some d).
  { unfold twin, beta_newv, beta_get in Hd. cbn [P nth] in Hd.
    destruct (b_log d); [rewrite (proj1 Reqb_10) in Hd|rewrite (proj2 Reqb_10) in Hd]; exact Hd. }
  cbv beta. rewrite Hn. reflexivity.
Qed.

(* ------------------------------------------------------------------ cauchy *)
Lemma cau_idem : forall p d, cau_newv p = Some d -> twin cau_newv cau_get d.
Proof. idem_tac. Qed.
Lemma cau_hist p d0 ops : cau_newv p = Some d0 -> hres_inv False (twin cau_newv cau_get) (hrun cau_ops d0 ops).
Proof.
  apply recon_hist; [exact cau_idem|]. unfold twin, cau_newv, cau_get. cbn [P nth]. intros d ->. reflexivity.
Qed.

(* ------------------------------------------------------------- chi-squared *)
Lemma chi_idem : forall p d, chi_newv lgam p = Some d -> twin (chi_newv lgam) chi_get d.
Proof. idem_tac. Qed.
Lemma chi_hist p d0 ops : chi_newv lgam p = Some d0 ->
  hres_inv False (twin (chi_newv lgam) chi_get) (hrun (chi_ops lgam) d0 ops).
Proof.
  apply recon_hist; [exact chi_idem|]. unfold twin, chi_newv, chi_get. cbn [P nth]. intros d ->. reflexivity.
Qed.

(* ------------------------------------------------------------------- delta *)
Lemma delta_hist p d0 ops : delta_newv p = Some d0 ->
  hres_inv False (twin delta_newv (fun X => [X])) (hrun delta_ops d0 ops).
Proof. apply recon_hist; [intros q d _; reflexivity|intros d _; reflexivity]. Qed.

(* ------------------------------------------------------- generalised gamma *)
Lemma gg_idem : forall p d, gg_newv lgam p = Some d -> twin (gg_newv lgam) gg_get d.
Proof. idem_tac. Qed.
Lemma gg_hist p d0 ops : gg_newv lgam p = Some d0 ->
  hres_inv False (twin (gg_newv lgam) gg_get) (hrun (gg_ops lgam) d0 ops).
Proof.
  apply recon_hist; [exact gg_idem|]. unfold twin, gg_newv, gg_get. cbn [P nth]. intros d ->. reflexivity.
Qed.

(* --------------------------------------------------------------- geometric *)
Lemma geo_idem : forall p d, geo_newv p = Some d -> twin geo_newv geo_get d.
Proof. idem_tac. Qed.
Lemma geo_hist p d0 ops : geo_newv p = Some d0 -> hres_inv False (twin geo_newv geo_get) (hrun geo_ops d0 ops).
Proof. apply recon_hist; [exact geo_idem|intros [] _; reflexivity]. Qed.

(* ------------------------------------------------------- negative binomial *)
Lemma nb_idem : forall p d, nb_newv lgam p = Some d -> twin (nb_newv lgam) nb_get d.
Proof. idem_tac. Qed.
Lemma nb_hist p d0 ops : nb_newv lgam p = Some d0 ->
  hres_inv False (twin (nb_newv lgam) nb_get) (hrun (nb_ops lgam) d0 ops).
Proof.
  apply recon_hist; [exact nb_idem|]. unfold twin, nb_newv, nb_get. cbn [P nth]. intros d ->. reflexivity.
Qed.

(* ----------------------------------------------------------------- poisson *)
Lemma poi_idem : forall p d, poi_newv p = Some d -> twin poi_newv (fun l => [l]) d.
Proof.
  intros p d H. unfold twin, poi_newv, poi_new in *. ctor_inv H. cbn [P nth]. rewrite E. reflexivity.
Qed.
Lemma poi_hist p d0 ops : poi_newv p = Some d0 ->
  hres_inv False (twin poi_newv (fun l => [l])) (hrun poi_ops d0 ops).
Proof. apply recon_hist; [exact poi_idem|intros d _; reflexivity]. Qed.

(* --------------------------------------------------------------- power law *)
Lemma pl_idem : forall p d, pl_newv p = Some d -> twin pl_newv pl_get d.
Proof. idem_tac. Qed.
Lemma pl_hist p d0 ops : pl_newv p = Some d0 -> hres_inv False (twin pl_newv pl_get) (hrun pl_ops d0 ops).
Proof. apply recon_hist; [exact pl_idem|intros [] _; reflexivity]. Qed.

(* ---------------------------------------------------------------- binomial *)
(* the only family with an IN-PLACE mutator of a cached constant (SetN) *)
Definition bin_fresh (d : bin_d) : Prop := exists theta n, bin_new lgam theta n = Some d.

Lemma Rltb_false_inv a b : Rltb a b = false -> b <= a.
Proof.
  intro H. destruct (Rle_dec b a) as [Hle|Hn]; [exact Hle|].
  assert (Hlt : a < b) by lra. apply Rltb_true in Hlt. congruence.
Qed.

Lemma bin_new_inv theta n d : bin_new lgam theta n = Some d ->
  0 <= theta <= 1 /\ (0 <= n)%Z /\
  d = {| i_theta := elog (Fin theta); i_n := IZR n; i_np1 := IZR (n + 1);
         i_z := elgam lgam (Fin (IZR (n + 1))); i_c1 := Fin 1; i_ct := elog (esub (Fin 1) (Fin theta)) |}.
Proof.
  unfold bin_new. intro H. destruct (Rltb theta 0 || Rltb 1 theta || (n <? 0)%Z) eqn:E; [discriminate|].
  apply orb_false_elim in E. destruct E as [E E3]. apply orb_false_elim in E. destruct E as [E1 E2].
  apply Rltb_false_inv in E1. apply Rltb_false_inv in E2. apply Z.ltb_ge in E3.
  injection H as H. subst d. repeat split; try lra; try lia.
Qed.

Lemma bin_new_ok theta n : 0 <= theta <= 1 -> (0 <= n)%Z ->
  bin_new lgam theta n =
  Some {| i_theta := elog (Fin theta); i_n := IZR n; i_np1 := IZR (n + 1);
          i_z := elgam lgam (Fin (IZR (n + 1))); i_c1 := Fin 1; i_ct := elog (esub (Fin 1) (Fin theta)) |}.
Proof.
  intros Ht Hn. unfold bin_new. rewrite (Rltb_f theta 0), (Rltb_f 1 theta) by lra.
  replace (n <? 0)%Z with false by (symmetry; apply Z.ltb_ge; lia). reflexivity.
Qed.

(* SetN rebuilds exactly the state of a fresh constructor: the statement order n, np1, z matters *)
Lemma bin_setn_fresh theta n0 n d : bin_new lgam theta n0 = Some d -> (0 <= n)%Z ->
  exists d', bin_setn lgam d n = HOk d' /\ bin_new lgam theta n = Some d'.
Proof.
  intros H Hn. destruct (bin_new_inv _ _ _ H) as (Ht & _ & ->).
  unfold bin_setn. replace (n <? 0)%Z with false by (symmetry; apply Z.ltb_ge; lia).
  eexists. split; [reflexivity|]. rewrite (bin_new_ok theta n Ht Hn).
  unfold bin_with_z, bin_with_np1, bin_with_n. cbn. rewrite Z.add_0_r. reflexivity.
Qed.

Lemma eexp_elog theta : 0 <= theta -> eexp (elog (Fin theta)) = Fin theta.
Proof.
  intro H. destruct (Req_dec theta 0) as [->|Hz].
  - rewrite elog_zero by reflexivity. reflexivity.
  - rewrite elog_pos by lra. cbn. rewrite exp_ln by lra. reflexivity.
Qed.

Lemma nth_FL k p : nth k (FL p) (Fin 0) = Fin (nth k p 0).
Proof. unfold FL. apply (map_nth Fin). Qed.

Lemma bin_new_e_fresh th n d : bin_fresh d -> hres_inv False bin_fresh (bin_new_e lgam th n (HOk d)).
Proof.
  intro Hd. unfold bin_new_e. destruct th as [t| | |]; cbn; try exact I.
  destruct (bin_new lgam t n) eqn:E; cbn; [exists t, n; exact E|exact Hd].
Qed.

Lemma bin_step d h : bin_fresh d -> hres_inv False bin_fresh (hstep (bin_ops lgam) d h).
Proof.
  intros Hd. destruct h as [p|p| | | |n]; cbn [hstep bin_ops m_set m_imp m_clone m_get m_exp m_setn].
  - unfold bin_set. rewrite !nth_FL. apply bin_new_e_fresh. exact Hd.
  - unfold bin_imp. rewrite !nth_FL. apply bin_new_e_fresh. exact Hd.
  - destruct Hd as (theta & n & H). destruct (bin_new_inv _ _ _ H) as (Ht & Hn & Hd).
    unfold bin_clone. rewrite Hd at 1 2. cbn [i_theta i_n]. rewrite eexp_elog by lra. rewrite Ztrunc_IZR.
    unfold bin_new_e. rewrite H. cbn. exists theta, n. exact H.
  - unfold bin_set, bin_get. cbn [nth]. apply bin_new_e_fresh. exact Hd.
  - unfold bin_imp, bin_get. cbn [nth]. apply bin_new_e_fresh. exact Hd.
  - destruct (Z.ltb_spec n 0) as [Hneg|Hpos].
    + unfold bin_setn. replace (n <? 0)%Z with true by (symmetry; apply Z.ltb_lt; lia). exact Hd.
    + destruct Hd as (theta & n0 & H). destruct (bin_setn_fresh theta n0 n d H Hpos) as (d' & -> & H').
      exists theta, n. exact H'.
Qed.

Lemma bin_hist theta n d0 ops : bin_new lgam theta n = Some d0 ->
  hres_inv False bin_fresh (hrun (bin_ops lgam) d0 ops).
Proof. intro H. apply hrun_inv; [apply bin_step|exists theta, n; exact H]. Qed.

(* a fresh state is determined by what the object reports: GetParameters()[0] = log theta, GetN() = n *)
Lemma elog_inj a b : 0 <= a -> 0 <= b -> elog (Fin a) = elog (Fin b) -> a = b.
Proof.
  intros Ha Hb H. destruct (Req_dec a 0) as [Haz|Haz]; destruct (Req_dec b 0) as [Hbz|Hbz].
  - lra.
  - rewrite (elog_zero a), (elog_pos b) in H by lra. discriminate.
  - rewrite (elog_pos a), (elog_zero b) in H by lra. discriminate.
  - rewrite (elog_pos a), (elog_pos b) in H by lra. injection H as H. apply ln_inv; lra.
Qed.

Lemma bin_fresh_twin d : bin_fresh d ->
  forall theta n, 0 <= theta -> i_theta d = elog (Fin theta) -> i_n d = IZR n -> bin_new lgam theta n = Some d.
Proof.
  intros (t0 & n0 & H) theta n Ht Hth Hn. destruct (bin_new_inv _ _ _ H) as (Ht0 & Hn0 & Hd).
  rewrite Hd in Hth, Hn. cbn in Hth, Hn. apply eq_IZR in Hn. subst n0.
  apply elog_inj in Hth; try lra. subst t0. exact H.
Qed.

(* SetN(GetN()) and the parameter round trip are the identity; SetN twice = SetN once *)
Lemma bin_setn_same theta n d : bin_new lgam theta n = Some d -> bin_setn lgam d n = HOk d.
Proof.
  intro H. destruct (bin_new_inv _ _ _ H) as (_ & Hn & _).
  destruct (bin_setn_fresh theta n n d H Hn) as (d' & H1 & H2). rewrite H1. congruence.
Qed.
Lemma bin_getset_id d : bin_fresh d -> hstep (bin_ops lgam) d HGetSet = HOk d.
Proof.
  intros (theta & n & H). destruct (bin_new_inv _ _ _ H) as (Ht & Hn & Hd).
  cbn. unfold bin_set, bin_get. cbn [nth]. rewrite Hd at 1 2. cbn [i_theta i_n].
  rewrite eexp_elog by lra. rewrite Ztrunc_IZR. unfold bin_new_e. rewrite H. reflexivity.
Qed.

(* the regression this file was written for: with the last two statements of SetN swapped
   (z.Lgamma(np1) BEFORE np1.SetFloat64(n+1)) the cached normaliser is the one of the previous n *)
Definition bin_setn_swapped (d : bin_d) (n : Z) : hres bin_d :=
  if (n <? 0)%Z then HOk d else
  let d := bin_with_n d (IZR (n + 0)) in
  let d := bin_with_z d (elgam lgam (Fin (i_np1 d))) in
  let d := bin_with_np1 d (IZR (n + 1)) in
  HOk d.
Lemma bin_setn_swapped_stale theta n0 n d : bin_new lgam theta n0 = Some d -> (0 <= n)%Z ->
  exists d', bin_setn_swapped d n = HOk d' /\ i_n d' = IZR n /\ i_np1 d' = IZR (n + 1) /\
             i_z d' = elgam lgam (Fin (IZR (n0 + 1))).
Proof.
  intros H Hn. destruct (bin_new_inv _ _ _ H) as (_ & _ & ->). unfold bin_setn_swapped.
  replace (n <? 0)%Z with false by (symmetry; apply Z.ltb_ge; lia).
  eexists. split; [reflexivity|]. cbn. rewrite Z.add_0_r. repeat split.
Qed.

(* ------------------------------------------------------------- categorical *)
(* the stored vector IS the parameter vector (no cached constant): set/get/clone are the identity *)
Lemma cat_roundtrip (d : list ER) :
  hstep cat_ops d HGetSet = HOk d /\ hstep cat_ops d HClone = HOk d.
Proof.
  cbn. unfold cat_set. rewrite Nat.eqb_refl. rewrite map_id. split; reflexivity.
Qed.

End Families.
