(* C14 — multivariate skew normal: LogPdf = ln (2 phi_K(x - xi) Phi(alpha^T diag(scale)^-1 (x - xi))) for EVERY
   dimension, relative to the Section hypotheses on erfc (positivity, lerfc = ln erfc), with K = diag(s) omega
   diag(s) entering through its logged inverse / determinant; d = 1 is the scalar skew normal of location xi
   and scale s*sqrt(omega). *)
From Coq Require Import Reals ZArith Bool Lra Lia Psatz List.
From ADV Require Import Base.Num C14.ER C14.Model C14.Spec C14.ProofsER C14.ProofsCont C14.VModel C14.ProofsVec
  C14.ProofsCdf C14.SkewModel.
Import ListNotations.
Open Scope R_scope.

(* standard normal cdf through erfc *)
Definition Phi (erfc : R -> R) (t : R) : R := / 2 * erfc (- (t / sqrt 2)).
(* the textbook density as a function of d, |K|, the quadratic form q and the skewing argument t *)
Definition skew_pdf (erfc : R -> R) (d : nat) (kdet q t : R) : R := 2 * mvn_pdf d kdet q * Phi erfc t.

Section Skew.
Variables (lerfc erfc : R -> R).
Hypothesis erfc_pos : forall y, 0 < erfc y.
Hypothesis lerfc_spec : forall y, lerfc y = ln (erfc y).

Lemma mvn_pdf_pos d det q : 0 < det -> 0 < mvn_pdf d det q.
Proof.
  intro H. unfold mvn_pdf. assert (HP := PI_RGT_0). assert (0 < (2 * PI) ^ d) by (apply pow_lt; lra).
  apply Rmult_lt_0_compat; [|apply exp_pos]. apply Rinv_0_lt_compat, sqrt_lt_R0. nra.
Qed.

Lemma skew_formula xi omega alpha scale kinv kdet x :
  0 < kdet -> length omega = length xi -> length alpha = length xi -> length scale = length xi ->
  length (nth 0 omega []) = length xi -> length x = length xi -> Forall (fun s => s <> 0) scale ->
  exists d, sk_new xi omega alpha scale kinv kdet = Some d /\
    sk_logpdf lerfc d x =
      Val (Fin (ln (skew_pdf erfc (length xi) kdet (qform kinv x xi) (dot alpha (sk_z x xi scale))))).
Proof.
  intros Hdet H1 H2 H3 H4 Hx Hs.
  destruct (mvn_formula xi kinv kdet x Hdet Hx) as (n1 & E1 & E2).
  destruct (normal_cdf lerfc erfc erfc_pos lerfc_spec 0 1 Rlt_0_1) as (n2 & E3 & E4).
  unfold sk_new. rewrite H1, H2, H3, H4, !Nat.eqb_refl. cbn [andb negb]. rewrite E1, E3.
  eexists; split; [reflexivity|]. unfold sk_logpdf; cbn [sk_n1 sk_n2 sk_alpha sk_scale sk_l2].
  assert (Hmu : vn_mu n1 = xi).
  { unfold vn_new in E1. destruct (Reqb kdet 0); [discriminate|]. inversion E1. reflexivity. }
  rewrite Hmu, Hx, Nat.ltb_irrefl.
  replace (existsb (fun s => Reqb s 0) scale) with false.
  2:{ symmetry. clear -Hs. induction Hs as [|s l Hs Hl IH]; cbn [existsb]; [reflexivity|]. rewrite Reqb_f by exact Hs. exact IH. }
  rewrite E2. set (t := dot alpha (sk_z x xi scale)). destruct (E4 t) as [E5 _]. rewrite E5.
  cbn [eadd]. do 2 f_equal. unfold skew_pdf, normal_cdf_spec, Phi.
  set (q := qform kinv x xi). pose proof (mvn_pdf_pos (length xi) kdet q Hdet) as Hp.
  replace (- ((t - 0) / (1 * sqrt 2))) with (- (t / sqrt 2)).
  2:{ assert (0 < sqrt 2) by (apply sqrt_lt_R0; lra). field. lra. }
  pose proof (erfc_pos (- (t / sqrt 2))) as He.
  rewrite (ln_mult (2 * _)), (ln_mult 2) by nra. lra.
Qed.

(* the constructor rejects inconsistent dimensions and a singular kappa *)
Lemma skew_ctor_dims xi omega alpha scale kinv kdet :
  (length omega <> length xi \/ length omega <> length alpha \/ length omega <> length scale \/
   length omega <> length (nth 0 omega [])) ->
  sk_new xi omega alpha scale kinv kdet = None.
Proof.
  intro H. unfold sk_new.
  replace ((length omega =? length xi)%nat && (length omega =? length alpha)%nat &&
           (length omega =? length scale)%nat && (length omega =? length (nth 0 omega []))%nat) with false; [reflexivity|].
  symmetry. destruct H as [H|[H|[H|H]]]; apply Nat.eqb_neq in H; rewrite H; cbn;
    rewrite ?andb_false_r; reflexivity.
Qed.
Lemma skew_ctor_singular xi omega alpha scale kinv : sk_new xi omega alpha scale kinv 0 = None.
Proof.
  unfold sk_new. destruct (negb _); [reflexivity|]. unfold vn_new. rewrite Reqb_t by reflexivity. reflexivity.
Qed.
Lemma skew_dim_guard d x : (length (vn_mu (sk_n1 d)) < length x)%nat -> Forall (fun s => s <> 0) (sk_scale d) ->
  sk_logpdf lerfc d x = ErrDim.
Proof.
  intros H Hs. unfold sk_logpdf. replace (length x <? length (vn_mu (sk_n1 d)))%nat with false
    by (symmetry; apply Nat.ltb_ge; lia).
  replace (existsb (fun s => Reqb s 0) (sk_scale d)) with false.
  2:{ symmetry. induction Hs as [|s l Hs' Hl IH]; cbn [existsb]; [reflexivity|]. rewrite Reqb_f by exact Hs'. exact IH. }
  rewrite mvn_dim_guard by lia. reflexivity.
Qed.

(* d = 1: kappa = [s^2 w]; the scalar skew normal with location xi, scale sigma = s sqrt w and shape a:
   (2 / sigma) phi((x - xi)/sigma) Phi(a (x - xi) / s)  *)
Definition skew1_pdf (xi sigma t x : R) : R := 2 * normal_pdf xi sigma x * Phi erfc t.
Lemma skew_scalar_consistency xi w a s x : 0 < w -> s <> 0 ->
  sk_kappa [[w]] [s] = [[s * s * w]] /\
  exists d, sk_new [xi] [[w]] [a] [s] [[/ (s * s * w)]] (s * s * w) = Some d /\
    sk_logpdf lerfc d [x] = Val (Fin (ln (skew1_pdf xi (sqrt (s * s * w)) (a * ((x - xi) / s)) x))).
Proof.
  intros Hw Hs. split; [reflexivity|].
  assert (Hk : 0 < s * s * w) by (assert (0 < s * s) by nra; nra).
  destruct (skew_formula [xi] [[w]] [a] [s] [[/ (s * s * w)]] (s * s * w) [x] Hk eq_refl eq_refl eq_refl eq_refl eq_refl)
    as (d & E1 & E2); [repeat constructor; exact Hs|].
  exists d. split; [exact E1|]. rewrite E2. do 3 f_equal.
  unfold skew_pdf, skew1_pdf. f_equal.
  - f_equal. set (k := s * s * w) in *. assert (Hq : 0 < sqrt k) by (apply sqrt_lt_R0; exact Hk).
    pose proof (mvn_scalar_consistency xi (sqrt k) x Hq) as (dv & ds & F1 & F2 & F3).
    rewrite sqrt_sqrt in F1 by lra.
    destruct (mvn_formula [xi] [[/ k]] k [x] Hk eq_refl) as (dv' & G1 & G2).
    destruct (normal_formula xi (sqrt k) Hq) as (ds' & G3 & G4).
    assert (dv' = dv) by congruence. assert (ds' = ds) by congruence. subst.
    rewrite G2, G4 in F3. inversion F3 as [F4].
    apply ln_inv in F4; [exact F4|apply mvn_pdf_pos; exact Hk|].
    unfold normal_pdf. apply Rmult_lt_0_compat; [|apply exp_pos].
    apply Rinv_0_lt_compat, Rmult_lt_0_compat; [exact Hq|apply sqrt_lt_R0; pose proof PI_RGT_0; lra].
  - f_equal. unfold dot, sk_z. cbn. ring.
Qed.
End Skew.
