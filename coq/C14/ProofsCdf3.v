(* C14 — categorical LogCdf / Cdf are the partial sums of the weights (every number of categories, every real x). *)
From Coq Require Import Reals ZArith Bool Lra Lia List.
From ADV Require Import Base.Num C14.ER C14.Model C14.ProofsER C14.MixModel C14.ProofsMix.
Import ListNotations.
Open Scope R_scope.

(* sum of theta_k over the indices k (counted from k0) with k <= x *)
Fixpoint psum_from (k0 : nat) (theta : list R) (x : R) : R :=
  match theta with
  | [] => 0
  | t :: r => (if Rle_dec (IZR (Z.of_nat k0)) x then t else 0) + psum_from (S k0) r x
  end.

Lemma cat_fold x : forall l thl pre acc s0, Forall2 rep l thl -> rep acc s0 ->
  rep (fold_left (fun r k => if Rleb (IZR (Z.of_nat k)) x then logadd r (nth k (pre ++ l) NaN) else r)
                 (seq (length pre) (length l)) acc)
      (s0 + psum_from (length pre) thl x).
Proof.
  induction l as [|a l IH]; intros thl pre acc s0 H Ha; inversion H as [|? t ? thl' Hat Hl]; subst.
  - cbn. rewrite Rplus_0_r. exact Ha.
  - cbn [length seq fold_left psum_from].
    replace (nth (length pre) (pre ++ a :: l) NaN) with a by (rewrite app_nth2, Nat.sub_diag by lia; reflexivity).
    replace (pre ++ a :: l) with ((pre ++ [a]) ++ l) by (rewrite <- app_assoc; reflexivity).
    replace (S (length pre)) with (length (pre ++ [a])) by (rewrite app_length; cbn; lia).
    destruct (Rle_dec (IZR (Z.of_nat (length pre))) x) as [L|L].
    + rewrite Rleb_t by exact L.
      replace (s0 + (t + psum_from (length (pre ++ [a])) thl' x)) with ((s0 + t) + psum_from (length (pre ++ [a])) thl' x) by ring.
      apply IH; [exact Hl|]. apply rep_logadd; assumption.
    + rewrite Rleb_f by lra. rewrite Rplus_0_l. apply IH; assumption.
Qed.

Lemma cat_new_rep theta d : cat_new theta = Some d -> Forall2 rep d theta.
Proof.
  unfold cat_new. destruct theta as [|t0 r0]; [discriminate|].
  destruct (existsb (fun t => Rltb t 0) (t0 :: r0)) eqn:E; [discriminate|]. intro H; injection H as <-.
  assert (Hnn : Forall (fun t => 0 <= t) (t0 :: r0)).
  { apply Forall_forall. intros t Hin. destruct (Rle_dec 0 t) as [L|L]; [exact L|].
    assert (existsb (fun t => Rltb t 0) (t0 :: r0) = true) by (apply existsb_exists; exists t; split; [exact Hin|apply Rltb_t; lra]).
    congruence. }
  exact (Forall2_rep_elog (t0 :: r0) Hnn).
Qed.

Theorem categorical_cdf_partial_sums theta d x : cat_new theta = Some d ->
  exists e, cat_logcdf d x = Val e /\ rep e (psum_from 0 theta x) /\ cat_cdf d x = Val (Fin (psum_from 0 theta x)).
Proof.
  intro H. pose proof (cat_new_rep theta d H) as Hr.
  pose proof (cat_fold x d theta [] NInf 0 Hr (or_intror (conj eq_refl eq_refl))) as Hf.
  cbn [length app] in Hf. rewrite Rplus_0_l in Hf.
  eexists. split; [reflexivity|]. split; [exact Hf|].
  unfold cat_cdf, cat_logcdf. cbn [rmap]. destruct Hf as [[Hp ->]|[Hz ->]]; cbn [eexp].
  - rewrite exp_ln by exact Hp. reflexivity.
  - rewrite Hz. reflexivity.
Qed.

(* monotone in x *)
Lemma psum_from_mono theta : forall k0 x y, List.Forall (fun t => 0 <= t) theta -> x <= y ->
  psum_from k0 theta x <= psum_from k0 theta y.
Proof.
  induction theta as [|t r IH]; intros k0 x y Hn Hxy; [cbn; lra|]. inversion Hn; subst. cbn [psum_from].
  specialize (IH (S k0) x y H2 Hxy).
  destruct (Rle_dec (IZR (Z.of_nat k0)) x), (Rle_dec (IZR (Z.of_nat k0)) y); lra.
Qed.
