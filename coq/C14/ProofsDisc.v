(* C14 — formula / support / constructor lemmas for the discrete families. *)
From Coq Require Import Reals ZArith Bool Lra Lia Psatz List.
From Flocq Require Import Core.Raux.
From ADV Require Import Base.Num C14.ER C14.Model C14.Spec C14.ProofsER C14.ProofsCont.
Import ListNotations.
Open Scope R_scope.

Section Disc.
Variables (lgam : R -> R).

Lemma IZR_nonneg k : (0 <= k)%Z -> 0 <= IZR k.
Proof. intro H. apply (IZR_le 0 k H). Qed.
Lemma IZR_neg k : (k < 0)%Z -> IZR k < 0.
Proof. intro H. apply (IZR_lt k 0 H). Qed.

(* --------------------------------------------------------------- geometric *)
Lemma geometric_formula p : 0 < p < 1 ->
  exists d, geo_new p = Some d /\
    (forall k, (0 <= k)%Z -> geo_logpdf d (IZR k) = Val (Fin (ln (geometric_pmf p k)))) /\
    (forall k, (k < 0)%Z -> geo_logpdf d (IZR k) = Val NInf) /\
    (forall x, is_intb x = false -> geo_logpdf d x = ErrInt).
Proof.
  intros [H0 H1]. unfold geo_new. rewrite Rleb_f, Rltb_f by lra. cbn [orb].
  eexists; split; [reflexivity|]. repeat split; unfold geo_logpdf; cbn [o_p1 o_p2].
  - intros k Hk. rewrite is_intb_IZR. cbn [negb]. rewrite Rltb_f by (apply IZR_nonneg; exact Hk).
    destruct (Reqb (IZR k) 0) eqn:E; [apply Reqb_true in E|];
    red_er; rewrite !elog_pos by lra; red_er; do 2 f_equal;
    unfold geometric_pmf; set (q := 1 + - p); replace (1 - p) with q by (unfold q; lra);
    assert (0 < q) by (unfold q; lra); ln_all; try rewrite E; fin.
  - intros k Hk. rewrite is_intb_IZR. cbn [negb]. rewrite Rltb_t by (apply IZR_neg; exact Hk). reflexivity.
  - intros x Hx. rewrite Hx. reflexivity.
Qed.
(* p = 1 (accepted by the constructor): all mass at k = 0, no 0 * log 0 *)
Lemma geometric_boundary : exists d, geo_new 1 = Some d /\
    geo_logpdf d (IZR 0) = Val (Fin 0) /\ (forall k, (0 < k)%Z -> geo_logpdf d (IZR k) = Val NInf).
Proof.
  unfold geo_new. rewrite Rleb_f, Rltb_f by lra. cbn [orb].
  eexists; split; [reflexivity|]. split; unfold geo_logpdf; cbn [o_p1 o_p2].
  - rewrite is_intb_IZR. cbn [negb]. rewrite Rltb_f by lra. rewrite Reqb_t by reflexivity.
    rewrite elog_pos by lra. red_er. rewrite ln_1. do 2 f_equal. lra.
  - intros k Hk. rewrite is_intb_IZR. cbn [negb]. assert (0 < IZR k) by (apply (IZR_lt 0 k Hk)).
    rewrite Rltb_f by lra. rewrite Reqb_f by lra. red_er. rewrite (elog_zero (1 + - (1))) by lra.
    rewrite elog_pos by lra. red_er. rewrite inf_times_pos by lra. reflexivity.
Qed.
Lemma geometric_ctor p : geo_new p = None <-> ~ geometric_valid p.
Proof.
  unfold geo_new, geometric_valid.
  destruct (Rleb p 0) eqn:E1; [apply Rleb_true in E1; cbn; split; auto; intros _; lra|].
  destruct (Rltb 1 p) eqn:E2; [apply Rltb_true in E2; cbn; split; auto; intros _; lra|].
  cbn. split; [discriminate|]. intro H. exfalso. apply H.
  destruct (Rle_dec p 0) as [L|L]; [apply Rleb_t in L; congruence|].
  destruct (Rlt_dec 1 p) as [K|K]; [apply Rltb_t in K; congruence|]. lra.
Qed.

(* ----------------------------------------------------------------- poisson *)
Lemma poisson_formula lambda : poisson_valid lambda ->
  exists d, poi_new lambda = Some d /\
    (forall k, (0 <= k)%Z -> poi_logpdf lgam d (IZR k) = Val (Fin (ln (poisson_pmf lgam lambda k)))) /\
    (forall k, (k < 0)%Z -> poi_logpdf lgam d (IZR k) = Val NInf) /\
    (forall x, is_intb x = false -> poi_logpdf lgam d x = ErrInt).
Proof.
  unfold poisson_valid. intro Hl. unfold poi_new. rewrite Rleb_f by lra.
  eexists; split; [reflexivity|]. repeat split; unfold poi_logpdf.
  - intros k Hk. rewrite is_intb_IZR. cbn [negb]. pose proof (IZR_nonneg k Hk).
    rewrite Rltb_f by lra. red_er. rewrite elgam_pos by lra. rewrite elog_pos by lra. red_er. do 2 f_equal.
    unfold poisson_pmf, Gam. ln_all. fin.
  - intros k Hk. rewrite is_intb_IZR. cbn [negb]. rewrite Rltb_t by (apply IZR_neg; exact Hk). reflexivity.
  - intros x Hx. rewrite Hx. reflexivity.
Qed.
Lemma poisson_ctor lambda : poi_new lambda = None <-> ~ poisson_valid lambda.
Proof.
  unfold poi_new, poisson_valid. destruct (Rleb lambda 0) eqn:E.
  - apply Rleb_true in E. split; auto. intros _. lra.
  - split; [discriminate|]. intro H. exfalso. apply H.
    destruct (Rle_dec lambda 0) as [L|L]; [|lra]. apply Rleb_t in L. congruence.
Qed.

(* ------------------------------------------------------- negative binomial *)
Lemma negbinomial_formula r p : 0 < r -> 0 < p < 1 ->
  exists d, nb_new lgam r p = Some d /\
    (forall k, (0 <= k)%Z -> nb_logpdf lgam d (IZR k) = Val (Fin (ln (negbinomial_pmf lgam r p k)))) /\
    (forall k, (k < 0)%Z -> nb_logpdf lgam d (IZR k) = Val NInf) /\
    (forall x, is_intb x = false -> nb_logpdf lgam d x = Val NInf).
Proof.
  intros Hr [H0 H1]. unfold nb_new. rewrite !Rleb_f, !Rltb_f by lra. cbn [orb].
  eexists; split; [reflexivity|]. repeat split; unfold nb_logpdf; cbn [m_r m_lp m_z m_c1].
  - intros k Hk. rewrite is_intb_IZR. pose proof (IZR_nonneg k Hk). rewrite Rltb_f by lra. cbn [negb orb].
    destruct (Reqb (IZR k) 0) eqn:E; [apply Reqb_true in E|];
    red_er; rewrite !elgam_pos by lra; rewrite !elog_pos by lra; red_er; do 2 f_equal;
    unfold negbinomial_pmf, Gam; set (q := 1 + - p); replace (1 - p) with q by (unfold q; lra);
    assert (0 < q) by (unfold q; lra); ln_all; try rewrite E; fin.
  - intros k Hk. rewrite Rltb_t by (apply IZR_neg; exact Hk). reflexivity.
  - intros x Hx. rewrite Hx. cbn [negb]. rewrite orb_true_r. reflexivity.
Qed.

(* ---------------------------------------------------------------- binomial *)
Lemma binomial_formula theta n : 0 < theta < 1 -> (0 <= n)%Z ->
  exists d, bin_new lgam theta n = Some d /\
    (forall k, (0 <= k <= n)%Z -> bin_logpdf lgam d (IZR k) = Val (Fin (ln (binomial_pmf lgam theta n k)))) /\
    (forall k, (k < 0 \/ n < k)%Z -> bin_logpdf lgam d (IZR k) = Val NInf) /\
    (forall x, is_intb x = false -> bin_logpdf lgam d x = Val NInf).
Proof.
  intros [H0 H1] Hn. unfold bin_new. rewrite !Rltb_f by lra.
  assert (En : (n <? 0)%Z = false) by (apply Z.ltb_ge; lia). rewrite En. cbn [orb].
  pose proof (IZR_nonneg n Hn) as Hn'.
  eexists; split; [reflexivity|]. repeat split; unfold bin_logpdf; cbn [i_theta i_n i_np1 i_z i_c1 i_ct];
    rewrite ?plus_IZR.
  - intros k [Hk0 Hk1]. rewrite is_intb_IZR. pose proof (IZR_nonneg k Hk0). pose proof (IZR_le k n Hk1).
    rewrite !Rltb_f by lra. cbn [negb orb]. red_er. cbn [eis_zero].
    destruct (Reqb (IZR k) 0) eqn:E; [apply Reqb_true in E|];
    (destruct (Reqb (IZR n + - IZR k) 0) eqn:E'; [apply Reqb_true in E'|]);
    rewrite !elgam_pos by lra; rewrite ?elog_pos by lra;
    red_er; do 2 f_equal;
    unfold binomial_pmf, Gam; set (q := 1 + - theta); replace (1 - theta) with q by (unfold q; lra);
    assert (0 < q) by (unfold q; lra);
    replace (IZR n - IZR k + 1) with (IZR n + 1 + - IZR k) by lra;
    ln_all; replace (IZR n + - IZR k) with (IZR n - IZR k) in * by lra; try rewrite E'; try rewrite E; fin.
  - intros k [Hk|Hk].
    + rewrite Rltb_t by (apply IZR_neg; exact Hk). reflexivity.
    + rewrite (Rltb_t (IZR n) (IZR k)) by (apply IZR_lt; exact Hk). rewrite orb_true_r. reflexivity.
  - intros x Hx. rewrite Hx. cbn [negb]. rewrite orb_true_r. reflexivity.
Qed.
Lemma binomial_ctor theta n : bin_new lgam theta n = None <-> ~ binomial_valid theta n.
Proof.
  unfold bin_new, binomial_valid.
  destruct (Rltb theta 0) eqn:E1; [apply Rltb_true in E1; cbn; split; auto; intros _; lra|].
  destruct (Rltb 1 theta) eqn:E2; [apply Rltb_true in E2; cbn; split; auto; intros _; lra|].
  destruct (n <? 0)%Z eqn:E3; [apply Z.ltb_lt in E3; cbn; split; auto; intros _; lia|].
  cbn. split; [discriminate|]. intro H. exfalso. apply H. apply Z.ltb_ge in E3.
  destruct (Rlt_dec theta 0) as [L|L]; [apply Rltb_t in L; congruence|].
  destruct (Rlt_dec 1 theta) as [K|K]; [apply Rltb_t in K; congruence|]. split; [lra | lia].
Qed.

(* ------------------------------------------------------------- categorical *)
Lemma categorical_formula theta : theta <> [] -> Forall (fun t => 0 < t) theta ->
  exists d, cat_new theta = Some d /\
    (forall k, (0 <= k < Z.of_nat (length theta))%Z ->
      cat_logpdf d (IZR k) = Val (Fin (ln (nth (Z.to_nat k) theta 0)))) /\
    (forall k, (k < 0 \/ Z.of_nat (length theta) <= k)%Z -> cat_logpdf d (IZR k) = Val NInf) /\
    (forall x, is_intb x = false -> cat_logpdf d x = ErrInt).
Proof.
  intros Hne Hpos. unfold cat_new.
  assert (E : existsb (fun t => Rltb t 0) theta = false).
  { clear Hne. induction Hpos as [|t l Ht Hl IH]; [reflexivity|]. cbn. rewrite Rltb_f by lra. exact IH. }
  rewrite E. destruct theta as [|t0 l] eqn:Et; [contradiction|]. rewrite <- Et in *.
  eexists; split; [reflexivity|]. split; [|split].
  - intros k [Hk0 Hk1]. unfold cat_logpdf. rewrite is_intb_IZR. cbn [negb].
    rewrite Ztrunc_IZR. rewrite map_length.
    rewrite Rltb_f by (apply IZR_nonneg; exact Hk0).
    rewrite Rleb_f by (apply IZR_lt; exact Hk1). cbn [orb].
    assert (Hi : (Z.to_nat k < length theta)%nat) by lia.
    rewrite (nth_indep _ NaN (elog (Fin 0))) by (rewrite map_length; exact Hi).
    rewrite (map_nth (fun t => elog (Fin t))).
    rewrite elog_pos; [reflexivity|].
    rewrite Forall_forall in Hpos. apply Hpos. apply nth_In. exact Hi.
  - intros k Hk. unfold cat_logpdf. rewrite is_intb_IZR. cbn [negb]. rewrite map_length.
    destruct Hk as [Hk|Hk].
    + rewrite Rltb_t by (apply IZR_neg; exact Hk). reflexivity.
    + rewrite (Rleb_t (IZR (Z.of_nat (length theta)))) by (apply IZR_le; exact Hk).
      rewrite orb_true_r. reflexivity.
  - intros x Hx. unfold cat_logpdf. rewrite Hx. reflexivity.
Qed.
(* exp(LogPdf) summed over the support is the sum of the weights (= 1 for a normalised vector;
   the constructor does not normalise: categorical_ctor finding) *)
Lemma categorical_mass theta d : Forall (fun t => 0 < t) theta -> cat_new theta = Some d ->
  map eexp d = map Fin theta.
Proof.
  intros Hpos H.
  assert (Hd : d = map (fun t => elog (Fin t)) theta).
  { unfold cat_new in H. destruct theta as [|t0 l]; [discriminate|].
    destruct (existsb _ _); [discriminate|]. injection H as <-. reflexivity. }
  subst d. clear H. induction Hpos as [|t l Ht Hl IH]; [reflexivity|].
  cbn [map]. rewrite IH. f_equal. rewrite elog_pos by exact Ht. cbn. f_equal. apply exp_ln. exact Ht.
Qed.

(* ------------------------------------------------------------------- delta *)
Lemma delta_formula X x : delta_logpdf X x = if Req_EM_T x X then Val (Fin 0) else Val NInf.
Proof. unfold delta_logpdf, Reqb. destruct (Req_EM_T x X); reflexivity. Qed.

End Disc.
