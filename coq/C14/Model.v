(* C14 — executable-in-R models of statistics/scalarDistribution/*.go (HEAD).
   One definition per Go method, mirroring the sequence of scalar operations
   (receiver updates `r.Op(a,b)` become successive `let r := ...`), with the
   constants the constructors precompute stored in a record per family, so that
   a wrong constant, sign, operand or guard is visible.  Values live in ER
   (C14/ER.v): exact reals + {+Inf,-Inf,NaN} with IEEE special-value rules.
   Parameters and evaluation points are finite reals.
   [lgam], [lerfc], [gamP] (log-gamma, log-erfc, regularised lower incomplete
   gamma) are parameters of the model (Section variables): their values are
   C13's business.  No proofs in this file. *)
From Coq Require Import Reals ZArith Bool List.
From Flocq Require Import Core.Raux.
From ADV Require Import Base.Num C14.ER.
Import ListNotations.
Open Scope R_scope.

(* outcome of a LogPdf / LogCdf / Cdf call *)
Inductive res :=
| Val (v : ER)      (* returned nil; r holds v (Val NInf is the -Inf support exit) *)
| ErrInt            (* returned fmt.Errorf("... is not an integer") *)
| ErrNaN            (* returned fmt.Errorf("NaN value detected ...") (beta) *)
| Panic             (* index out of range (categorical) *)
| ErrDim            (* returned fmt.Errorf("... dimension ...") (vector families, VModel.v) *)
| CtorErr           (* constructor returned an error (dispatcher only) *)
| NoSuch.           (* method not offered / argument outside the model (dispatcher, wrappers) *)

Notation F := Fin (only parsing).
Definition rmap (f : ER -> ER) (r : res) : res := match r with Val v => Val (f v) | e => e end.

Section Model.
Variables (lgam lerfc : R -> R) (gamP : R -> R -> R).
Notation LG := (elgam lgam).

(* ------------------------------------------------------------------ normal *)
Record normal_d := { n_mu : R; n_sigma : R }.
Definition normal_new (mu sigma : R) : option normal_d :=
  if Rleb sigma 0 then None else Some {| n_mu := mu; n_sigma := sigma |}.
Definition normal_logpdf (d : normal_d) (x : R) : res :=
  let z := F (- (1/2) * ln (2 * PI)) in
  let t1 := elog (F (n_sigma d)) in
  let t1 := eneg t1 in
  let t1 := eadd t1 z in
  let t2 := esub (F x) (F (n_mu d)) in
  let t2 := emul t2 t2 in
  let t2 := ediv t2 (F 2) in
  let t2 := ediv t2 (F (n_sigma d)) in
  let t2 := ediv t2 (F (n_sigma d)) in
  Val (esub t1 t2).
Definition normal_logcdf (d : normal_d) (x : R) : res :=
  let t := emul (F (n_sigma d)) (F (sqrt 2)) in
  let r := esub (F x) (F (n_mu d)) in
  let r := ediv r t in
  let r := eneg r in
  let r := elerfc lerfc r in
  Val (esub r (F (ln 2))).
Definition normal_cdf d x := rmap eexp (normal_logcdf d x).
Definition normal_get (d : normal_d) : list R := [n_mu d; n_sigma d].
Definition normal_set (p : list R) := normal_new (nth 0 p 0) (nth 1 p 0).

(* ------------------------------------------------------------- exponential *)
Record exp_d := { e_lambda : R; e_lambdalog : ER }.
Definition exp_new (lambda : R) : option exp_d :=
  if Rleb lambda 0 then None
  else Some {| e_lambda := lambda; e_lambdalog := elog (F lambda) |}.
Definition exp_logpdf (d : exp_d) (x : R) : res :=
  if Rltb x 0 then Val NInf else
  let r := emul (F (e_lambda d)) (F x) in
  let r := eneg r in
  Val (eadd r (e_lambdalog d)).
Definition exp_logcdf (d : exp_d) (x : R) : res :=
  if Rltb x 0 then Val NInf else
  let r := emul (F (e_lambda d)) (F x) in
  let r := eneg r in
  let r := eexp r in
  let r := eneg r in
  Val (elog1p r).
Definition exp_cdf d x := rmap eexp (exp_logcdf d x).
Definition exp_get (d : exp_d) : list R := [e_lambda d].
Definition exp_set (p : list R) := exp_new (nth 0 p 0).

(* ----------------------------------------------------------------- laplace *)
Record lap_d := { l_mu : R; l_sigma : R; l_c1 : ER; l_c2 : ER; l_z : ER }.
Definition lap_new (mu sigma : R) : option lap_d :=
  if Rleb sigma 0 then None else
  let c2 := F 2 in
  let z := emul c2 (F sigma) in
  let z := elog z in
  Some {| l_mu := mu; l_sigma := sigma; l_c1 := F 1; l_c2 := c2; l_z := z |}.
Definition lap_logpdf (d : lap_d) (x : R) : res :=
  let r := esub (F x) (F (l_mu d)) in
  let r := eabs r in
  let r := ediv r (F (l_sigma d)) in
  let r := eneg r in
  Val (esub r (l_z d)).
(* x > mu: log1p(-exp(-|x-mu|/sigma)/2); else -|x-mu|/sigma - Ln2 *)
Definition lap_logcdf (d : lap_d) (x : R) : res :=
  let r := esub (F x) (F (l_mu d)) in
  let r := eabs r in
  let r := ediv r (F (l_sigma d)) in
  let r := eneg r in
  if Rltb (l_mu d) x then
    let r := eexp r in
    let r := ediv r (l_c2 d) in
    let r := eneg r in
    Val (elog1p r)
  else Val (esub r (F (ln 2))).
Definition lap_cdf d x := rmap eexp (lap_logcdf d x).
Definition lap_get (d : lap_d) : list R := [l_mu d; l_sigma d].
Definition lap_set (p : list R) := lap_new (nth 0 p 0) (nth 1 p 0).

(* ------------------------------------------------------------------ pareto *)
Record par_d := { p_lambda : R; p_kappa : R; p_kappa1p : ER; p_z : ER }.
Definition par_new (lambda kappa : R) : option par_d :=
  if Rleb lambda 0 then None else
  if Rleb kappa 0 then None else
  let kappa1p := eadd (F kappa) (F 1) in
  let t1 := elog (F kappa) in
  let t2 := elog (F lambda) in
  let t2 := emul (F kappa) t2 in
  let z := eadd t1 t2 in
  Some {| p_lambda := lambda; p_kappa := kappa; p_kappa1p := kappa1p; p_z := z |}.
Definition par_logpdf (d : par_d) (x : R) : res :=
  if Rltb x (p_lambda d) then Val NInf else
  let r := elog (F x) in
  let r := emul r (p_kappa1p d) in
  let r := eneg r in
  Val (eadd r (p_z d)).
Definition par_logcdf (d : par_d) (x : R) : res :=
  if Rltb x (p_lambda d) then Val NInf else
  let r := ediv (F (p_lambda d)) (F x) in
  let r := epow r (F (p_kappa d)) in
  let r := eneg r in
  Val (elog1p r).
Definition par_cdf d x := rmap eexp (par_logcdf d x).
Definition par_get (d : par_d) : list R := [p_lambda d; p_kappa d].
Definition par_set (p : list R) := par_new (nth 0 p 0) (nth 1 p 0).

(* ------------------------------------------------------ generalised pareto *)
Record gp_d := { g_mu : R; g_sigma : R; g_xi : R; g_cx1 : ER; g_cx2 : ER; g_cs : ER }.
Definition gp_new (mu sigma xi : R) : option gp_d :=
  if Rleb sigma 0 then None else
  let cx1 := ediv (F 1) (F xi) in
  let cx1 := eneg cx1 in
  let cx2 := esub cx1 (F 1) in
  let cs := elog (F sigma) in
  Some {| g_mu := mu; g_sigma := sigma; g_xi := xi; g_cx1 := cx1; g_cx2 := cx2; g_cs := cs |}.
Definition gp_guard (d : gp_d) (x : R) : bool :=
  if Rleb 0 (g_xi d) then Rltb x (g_mu d)
  else Rltb x (g_mu d) || Rltb (g_mu d - g_sigma d / g_xi d) x.
Definition gp_logpdf (d : gp_d) (x : R) : res :=
  if gp_guard d x then Val NInf else
  let r := esub (F x) (F (g_mu d)) in
  let r := ediv r (F (g_sigma d)) in
  let r := if Reqb (g_xi d) 0 then eneg r
           else
             let r := emul r (F (g_xi d)) in
             let r := elog1p r in
             emul r (g_cx2 d) in
  Val (esub r (g_cs d)).
Definition gp_logcdf (d : gp_d) (x : R) : res :=
  if Rltb x (g_mu d) then Val NInf else
  if negb (Rleb 0 (g_xi d)) && Rltb (g_mu d - g_sigma d / g_xi d) x then Val (F 0) else
  let r := esub (F x) (F (g_mu d)) in
  let r := ediv r (F (g_sigma d)) in
  let r := if Reqb (g_xi d) 0 then eexp (eneg r)
           else epow (eadd (emul r (F (g_xi d))) (F 1)) (g_cx1 d) in
  let r := eneg r in
  Val (elog1p r).
Definition gp_cdf d x := rmap eexp (gp_logcdf d x).
Definition gp_get (d : gp_d) : list R := [g_mu d; g_sigma d; g_xi d].
Definition gp_set (p : list R) := gp_new (nth 0 p 0) (nth 1 p 0) (nth 2 p 0).

(* --------------------------------------------------------------------- gev *)
Record gev_d := { v_mu : R; v_sigma : R; v_xi : R; v_cx : ER; v_cy : ER }.
Definition gev_new (mu sigma xi : R) : option gev_d :=
  if Rleb sigma 0 then None else
  let cx := eneg (ediv (F 1) (F xi)) in
  let cy := eadd (ediv (F 1) (F xi)) (F 1) in
  Some {| v_mu := mu; v_sigma := sigma; v_xi := xi; v_cx := cx; v_cy := cy |}.
Definition gev_guard (d : gev_d) (x : R) : bool :=
  Rleb (v_xi d * (x - v_mu d) / v_sigma d) (-1).
Definition gev_logpdf (d : gev_d) (x : R) : res :=
  if gev_guard d x then Val NInf else
  let t := esub (F x) (F (v_mu d)) in
  let t := ediv t (F (v_sigma d)) in
  let '(r, t) :=
    if Reqb (v_xi d) 0 then
      let t := eneg t in
      let r := t in
      let t := eexp t in
      (esub r t, t)
    else
      let t := emul t (F (v_xi d)) in
      let t := eadd t (F 1) in
      let r := epow t (v_cx d) in
      let r := eneg r in
      let t := elog t in
      let t := emul t (v_cy d) in
      (esub r t, t) in
  let t := elog (F (v_sigma d)) in
  Val (esub r t).
Definition gev_logcdf (d : gev_d) (x : R) : res :=
  if gev_guard d x then (if Rltb (v_xi d) 0 then Val (F 0) else Val NInf) else
  let r := F x in
  let r := esub r (F (v_mu d)) in
  let r := ediv r (F (v_sigma d)) in
  if Reqb (v_xi d) 0 then
    Val (eneg (eexp (eneg r)))
  else
    let r := emul r (F (v_xi d)) in
    let r := eadd r (F 1) in
    let r := epow r (v_cx d) in
    Val (eneg r).
Definition gev_cdf d x := rmap eexp (gev_logcdf d x).
Definition gev_get (d : gev_d) : list R := [v_mu d; v_sigma d; v_xi d].
Definition gev_set (p : list R) := gev_new (nth 0 p 0) (nth 1 p 0) (nth 2 p 0).

(* ------------------------------------------------------------------- gamma *)
Record gam_d := { a_alpha : R; a_beta : R; a_omega : ER; a_z : ER }.
Definition gam_new (alpha beta : R) : option gam_d :=
  if Rleb alpha 0 || Rleb beta 0 then None else
  let omega := esub (F alpha) (F 1) in
  let t1 := elog (F beta) in
  let t1 := emul (F alpha) t1 in
  let t2 := LG (F alpha) in
  Some {| a_alpha := alpha; a_beta := beta; a_omega := omega; a_z := esub t1 t2 |}.
Definition gam_logpdf (d : gam_d) (x : R) : res :=
  if Rleb x 0 then Val NInf else
  let t := emul (F x) (F (a_beta d)) in
  let r := elog (F x) in
  let r := emul r (a_omega d) in
  let r := esub r t in
  Val (eadd r (a_z d)).
Definition gam_cdf (d : gam_d) (x : R) : res :=
  if Rleb x 0 then Val (F 0) else
  let r := emul (F x) (F (a_beta d)) in
  Val (egamP gamP (a_alpha d) r).
Definition gam_logcdf d x := if Rleb x 0 then Val NInf else rmap elog (gam_cdf d x).
Definition gam_get (d : gam_d) : list R := [a_alpha d; a_beta d].
Definition gam_set (p : list R) := gam_new (nth 0 p 0) (nth 1 p 0).

(* -------------------------------------------------------------------- beta *)
Record beta_d := { b_alpha : R; b_beta : R; b_as1 : R; b_bs1 : R; b_z : ER; b_c1 : ER; b_log : bool }.
Definition beta_new (alpha beta : R) (logScale : bool) : option beta_d :=
  if Rleb alpha 0 || Rleb beta 0 then None else
  let t1 := eadd (F alpha) (F beta) in
  let t1 := LG t1 in
  let t2 := LG (F alpha) in
  let t3 := LG (F beta) in
  let t1 := esub t1 t2 in
  let t1 := esub t1 t3 in
  Some {| b_alpha := alpha; b_beta := beta; b_as1 := alpha - 1; b_bs1 := beta - 1; b_z := t1;
          b_c1 := if logScale then F 0 else F 1; b_log := logScale |}.
(* Scalar.LogSub(a, b, t) = log(exp a - exp b) *)
Definition logsub (a b : ER) : ER :=
  if eis_ninf b then a else
  let t := esub b a in
  let t := eexp t in
  let t := eneg t in
  let t := elog1p t in
  eadd t a.
Definition beta_logpdf (d : beta_d) (x : R) : res :=
  if (if b_log d then Rltb 0 x else Rltb x 0 || Rltb 1 x) then Val NInf else
  let '(t1, t2) :=
    if b_log d then
      let t2 := if Reqb (b_bs1 d) 0 && Reqb x 0 then F 0 else emul (logsub (b_c1 d) (F x)) (F (b_bs1 d)) in
      (* the shortcut for as1 = 0 is taken only at x = -Inf: never for a finite point *)
      let t1 := emul (F (b_as1 d)) (F x) in
      (t1, t2)
    else
      let t2 := if Reqb (b_bs1 d) 0 && Reqb x 1 then F 0
                else emul (elog (esub (b_c1 d) (F x))) (F (b_bs1 d)) in
      let t1 := if Reqb (b_as1 d) 0 && Reqb x 0 then F 0 else emul (elog (F x)) (F (b_as1 d)) in
      (t1, t2) in
  let r := eadd t1 t2 in
  let r := eadd r (b_z d) in
  if eis_nan r then ErrNaN else Val r.
Definition beta_get (d : beta_d) : list R := [b_alpha d; b_beta d; if b_log d then 1 else 0].
Definition beta_set (p : list R) := beta_new (nth 0 p 0) (nth 1 p 0) (Reqb (nth 2 p 0) 1).

(* ---------------------------------------------------------------- binomial *)
Record bin_d := { i_theta : ER; i_n : R; i_np1 : R; i_z : ER; i_c1 : ER; i_ct : ER }.
Definition bin_new (theta : R) (n : Z) : option bin_d :=
  if Rltb theta 0 || Rltb 1 theta || (n <? 0)%Z then None else
  let ct := esub (F 1) (F theta) in
  let ct := elog ct in
  Some {| i_theta := elog (F theta); i_n := IZR n; i_np1 := IZR (n + 1);
          i_z := LG (F (IZR (n + 1))); i_c1 := F 1; i_ct := ct |}.
Definition bin_logpdf (d : bin_d) (x : R) : res :=
  if Rltb x 0 || Rltb (i_n d) x || negb (is_intb x) then Val NInf else
  let t1 := eadd (F x) (i_c1 d) in
  let t1 := LG t1 in
  let t2 := esub (F (i_np1 d)) (F x) in
  let t2 := LG t2 in
  let r := esub (i_z d) t1 in
  let r := esub r t2 in
  let t1 := if Reqb x 0 then F 0 else emul (i_theta d) (F x) in
  let t2 := esub (F (i_n d)) (F x) in
  let t2 := if eis_zero t2 then F 0 else emul (i_ct d) t2 in
  let r := eadd r t1 in
  Val (eadd r t2).

(* ------------------------------------------------------------- categorical *)
(* the stored vector is log theta; no normalisation *)
Definition cat_new (theta : list R) : option (list ER) :=
  match theta with [] => None | _ =>
    if existsb (fun t => Rltb t 0) theta then None
    else Some (map (fun t => elog (F t)) theta) end.
Definition cat_logpdf (d : list ER) (x : R) : res :=
  if negb (is_intb x) then ErrInt else
  if Rltb x 0 || Rleb (IZR (Z.of_nat (length d))) x then Val NInf else
  let i := Ztrunc x in    (* int(x.GetFloat64()) *)
  Val (nth (Z.to_nat i) d NaN).
(* Scalar.LogAdd(a, b, t) *)
Definition logadd (a b : ER) : ER :=
  let '(a, b) := if eltb b a then (b, a) else (a, b) in
  match a with
  | PInf | NInf => b
  | _ => let t := esub a b in let t := eexp t in let t := elog1p t in eadd t b
  end.
(* r = -Inf; for i := 0; i < n && float64(i) <= x; i++ { r = LogAdd(r, theta[i]) }
   (the loop condition is monotone in i: the loop runs over the prefix of indices with i <= x) *)
Definition cat_logcdf (d : list ER) (x : R) : res :=
  Val (fold_left (fun r k => if Rleb (IZR (Z.of_nat k)) x then logadd r (nth k d NaN) else r)
                 (seq 0 (length d)) NInf).
Definition cat_cdf d x := rmap eexp (cat_logcdf d x).

(* ------------------------------------------------------------------ cauchy *)
Record cau_d := { c_mu : R; c_sigma : R; c_z : ER; c_s2 : ER }.
Definition cau_new (mu sigma : R) : option cau_d :=
  if Rleb sigma 0 then None else
  let t1 := ediv (F sigma) (F PI) in
  let t1 := elog t1 in
  let t2 := emul (F sigma) (F sigma) in
  Some {| c_mu := mu; c_sigma := sigma; c_z := t1; c_s2 := t2 |}.
Definition cau_logpdf (d : cau_d) (x : R) : res :=
  let r := esub (F x) (F (c_mu d)) in
  let r := emul r r in
  let r := eadd r (c_s2 d) in
  let r := elog r in
  Val (esub (c_z d) r).
Definition cau_get (d : cau_d) : list R := [c_mu d; c_sigma d].
Definition cau_set (p : list R) := cau_new (nth 0 p 0) (nth 1 p 0).

(* ------------------------------------------------------------- chi-squared *)
Record chi_d := { h_k : R; h_c : ER; h_l : R; h_e : ER; h_z : ER }.
Definition chi_new (k : R) : option chi_d :=
  if Rleb k 0 then None else
  let c2 := F 2 in
  let l := k / 2 in
  let e := esub (F l) (F 1) in
  let z := elog c2 in
  let z := emul (F l) z in
  let t1 := LG (F l) in
  let z := eadd z t1 in
  Some {| h_k := k; h_c := c2; h_l := l; h_e := e; h_z := z |}.
Definition chi_logpdf (d : chi_d) (x : R) : res :=
  if Rltb x 0 then Val NInf else
  let r := if eis_zero (h_e d) then F 0 else emul (elog (F x)) (h_e d) in
  let t := ediv (F x) (h_c d) in
  let r := esub r t in
  Val (esub r (h_z d)).
Definition chi_cdf (d : chi_d) (x : R) : res :=
  if Rleb x 0 then Val (F 0) else
  let r := ediv (F x) (h_c d) in
  Val (egamP gamP (h_l d) r).
Definition chi_logcdf d x := if Rleb x 0 then Val NInf else rmap elog (chi_cdf d x).

(* ------------------------------------------------------------------- delta *)
Definition delta_logpdf (X x : R) : res := if Reqb x X then Val (F 0) else Val NInf.

(* ------------------------------------------------------- generalised gamma *)
Record gg_d := { q_a : R; q_d : R; q_p : R; q_dm1 : ER; q_z : ER }.
Definition gg_new (a d p : R) : option gg_d :=
  if Rleb a 0 || Rleb d 0 || Rleb p 0 then None else
  let dm1 := esub (F d) (F 1) in
  let z := elog (F p) in
  let t1 := elog (F a) in
  let t1 := emul (F d) t1 in
  let z := esub z t1 in
  let t1 := ediv (F d) (F p) in
  let t1 := LG t1 in
  let z := esub z t1 in
  Some {| q_a := a; q_d := d; q_p := p; q_dm1 := dm1; q_z := z |}.
Definition gg_logpdf (g : gg_d) (x : R) : res :=
  if Rleb x 0 then Val NInf else
  let t := ediv (F x) (F (q_a g)) in
  let t := epow t (F (q_p g)) in
  let r := elog (F x) in
  let r := emul r (q_dm1 g) in
  let r := esub r t in
  Val (eadd r (q_z g)).
Definition gg_get (g : gg_d) : list R := [q_a g; q_d g; q_p g].
Definition gg_set (p : list R) := gg_new (nth 0 p 0) (nth 1 p 0) (nth 2 p 0).

(* --------------------------------------------------------------- geometric *)
Record geo_d := { o_p : R; o_p1 : ER; o_p2 : ER }.
Definition geo_new (p : R) : option geo_d :=
  if Rleb p 0 || Rltb 1 p then None else
  let p1 := elog (F p) in
  let p2 := esub (F 1) (F p) in
  let p2 := elog p2 in
  Some {| o_p := p; o_p1 := p1; o_p2 := p2 |}.
Definition geo_logpdf (d : geo_d) (x : R) : res :=
  if negb (is_intb x) then ErrInt else
  if Rltb x 0 then Val NInf else
  let r := if Reqb x 0 then F 0 else emul (F x) (o_p2 d) in
  Val (eadd r (o_p1 d)).
Definition geo_get (d : geo_d) : list R := [o_p d].
Definition geo_set (p : list R) := geo_new (nth 0 p 0).

(* ------------------------------------------------------- negative binomial *)
Record nb_d := { m_r : R; m_p : R; m_lp : ER; m_z : ER; m_c1 : ER }.
Definition nb_new (r p : R) : option nb_d :=
  if Rleb r 0 || Rltb p 0 || Rleb 1 p then None else
  let t1 := esub (F 1) (F p) in
  let t1 := elog t1 in
  let t1 := emul t1 (F r) in
  let t2 := LG (F r) in
  let t1 := esub t1 t2 in
  Some {| m_r := r; m_p := p; m_lp := elog (F p); m_z := t1; m_c1 := F 1 |}.
Definition nb_logpdf (d : nb_d) (x : R) : res :=
  if Rltb x 0 || negb (is_intb x) then Val NInf else
  let t1 := eadd (F (m_r d)) (F x) in
  let t1 := LG t1 in
  let t2 := eadd (F x) (m_c1 d) in
  let t2 := LG t2 in
  let r := if Reqb x 0 then F 0 else emul (F x) (m_lp d) in
  let r := eadd r t1 in
  let r := esub r t2 in
  Val (eadd r (m_z d)).
Definition nb_get (d : nb_d) : list R := [m_r d; m_p d].
Definition nb_set (p : list R) := nb_new (nth 0 p 0) (nth 1 p 0).

(* ----------------------------------------------------------------- poisson *)
Definition poi_new (lambda : R) : option R := if Rleb lambda 0 then None else Some lambda.
Definition poi_logpdf (lambda : R) (x : R) : res :=
  if negb (is_intb x) then ErrInt else
  if Rltb x 0 then Val NInf else
  let t := eadd (F x) (F 1) in
  let t := LG t in
  let r := elog (F lambda) in
  let r := emul r (F x) in
  let r := esub r t in
  Val (esub r (F lambda)).

(* --------------------------------------------------------------- power law *)
Record pl_d := { w_alpha : R; w_xmin : R; w_ca : ER; w_cz : ER }.
Definition pl_new (alpha xmin : R) : option pl_d :=
  if Rleb alpha 1 then None else
  if Rleb xmin 0 then None else
  let ca := esub (F 1) (F alpha) in
  let cz := esub (F alpha) (F 1) in
  let cz := ediv cz (F xmin) in
  let cz := elog cz in
  Some {| w_alpha := alpha; w_xmin := xmin; w_ca := ca; w_cz := cz |}.
Definition pl_logpdf (d : pl_d) (x : R) : res :=
  if Rltb x (w_xmin d) then Val NInf else
  let r := ediv (F x) (F (w_xmin d)) in
  let r := elog r in
  let r := emul r (F (w_alpha d)) in
  let r := eneg r in
  Val (eadd r (w_cz d)).
(* log(1 - (x/xmin)^(1-alpha)) *)
Definition pl_logcdf (d : pl_d) (x : R) : res :=
  if Rleb x (w_xmin d) then Val NInf else
  let r := ediv (F x) (F (w_xmin d)) in
  let r := elog r in
  let r := emul r (w_ca d) in
  let r := eexp r in
  let r := eneg r in
  Val (elog1p r).
Definition pl_cdf d x := rmap eexp (pl_logcdf d x).
Definition pl_get (d : pl_d) : list R := [w_alpha d; w_xmin d].
Definition pl_set (p : list R) := pl_new (nth 0 p 0) (nth 1 p 0).

(* ---------------------------------------------------------------- wrappers *)
(* PdfTranslation.LogPdf: y = x + c; inner.LogPdf(r, y) *)
Definition translation_logpdf (inner : R -> res) (c x : R) : res := inner (x + c).
(* PdfLogTransform.LogPdf: x < 0 => -Inf; y = log(x + c); inner.LogPdf(r, y); r -= y *)
Definition logtransform_logpdf (inner : R -> res) (c x : R) : res :=
  if Rltb x 0 then Val NInf else
  match elog (eadd (F x) (F c)) with
  | Fin y => match inner y with Val v => Val (esub v (F y)) | e => e end
  | _ => NoSuch        (* inner called at a non-finite point: outside this model *)
  end.

(* --------------------------------------------------------------------- Pdf *)
(* every Pdf method of the package is `if err := dist.LogPdf(r, x); err != nil { return err }; r.Exp(r); return nil`
   (the shape is re-read from the source on every run: harness/c14 inventory, CorrS.v); the scalar normal offers none *)
Definition exp_pdfm d x := rmap eexp (exp_logpdf d x).
Definition lap_pdfm d x := rmap eexp (lap_logpdf d x).
Definition par_pdfm d x := rmap eexp (par_logpdf d x).
Definition gp_pdfm d x := rmap eexp (gp_logpdf d x).
Definition gev_pdfm d x := rmap eexp (gev_logpdf d x).
Definition gam_pdfm d x := rmap eexp (gam_logpdf d x).
Definition beta_pdfm d x := rmap eexp (beta_logpdf d x).
Definition bin_pdfm d x := rmap eexp (bin_logpdf d x).
Definition cat_pdfm d x := rmap eexp (cat_logpdf d x).
Definition cau_pdfm d x := rmap eexp (cau_logpdf d x).
Definition chi_pdfm d x := rmap eexp (chi_logpdf d x).
Definition delta_pdfm X x := rmap eexp (delta_logpdf X x).
Definition gg_pdfm d x := rmap eexp (gg_logpdf d x).
Definition geo_pdfm d x := rmap eexp (geo_logpdf d x).
Definition nb_pdfm d x := rmap eexp (nb_logpdf d x).
Definition poi_pdfm l x := rmap eexp (poi_logpdf l x).
Definition pl_pdfm d x := rmap eexp (pl_logpdf d x).
(* the vector / matrix families (t, normal, skew normal, inverse Wishart, normal-inverse-Wishart): the same shape *)
Definition pdf_of (r : res) : res := rmap eexp r.
Definition translation_pdfm (inner : R -> res) (c x : R) : res := rmap eexp (translation_logpdf inner c x).
Definition logtransform_pdfm (inner : R -> res) (c x : R) : res := rmap eexp (logtransform_logpdf inner c x).

(* -------------------------------------------------------------- dispatcher *)
Inductive fam := FNormal | FExponential | FLaplace | FPareto | FGPareto | FGev | FGamma | FBeta
  | FBinomial | FCategorical | FCauchy | FChiSquared | FDelta | FGenGamma | FGeometric
  | FNegBinomial | FPoisson | FPowerLaw
  | FTransNormal      (* PdfTranslation(normal) *)
  | FLogTransNormal.  (* PdfLogTransform(normal) *)
Inductive fn := LogPdf | LogCdf | Cdf | Ctor   (* Ctor: only the constructor is run *)
  | Pdf.   (* the Pdf method: `if err := LogPdf(r, x); err != nil { return err }; r.Exp(r)` (round 6) *)

Definition P (ps : list R) (k : nat) : R := nth k ps 0.
Definition with_d {D} (o : option D) (k : D -> res) : res := match o with Some d => k d | None => CtorErr end.

(* ps: real parameters (for the wrappers the last one is the constant c);
   zs: integer parameters (binomial n; beta logScale 0/1);
   x: evaluation point *)
Definition eval (f : fam) (g : fn) (ps : list R) (zs : list Z) (x : R) : res :=
  match f, g with
  | FDelta, Ctor => Val (F 0)
  | FNormal, LogPdf => with_d (normal_new (P ps 0) (P ps 1)) (fun d => normal_logpdf d x)
  | FNormal, LogCdf => with_d (normal_new (P ps 0) (P ps 1)) (fun d => normal_logcdf d x)
  | FNormal, Cdf => with_d (normal_new (P ps 0) (P ps 1)) (fun d => normal_cdf d x)
  | FExponential, LogPdf => with_d (exp_new (P ps 0)) (fun d => exp_logpdf d x)
  | FExponential, LogCdf => with_d (exp_new (P ps 0)) (fun d => exp_logcdf d x)
  | FExponential, Cdf => with_d (exp_new (P ps 0)) (fun d => exp_cdf d x)
  | FLaplace, LogPdf => with_d (lap_new (P ps 0) (P ps 1)) (fun d => lap_logpdf d x)
  | FLaplace, LogCdf => with_d (lap_new (P ps 0) (P ps 1)) (fun d => lap_logcdf d x)
  | FLaplace, Cdf => with_d (lap_new (P ps 0) (P ps 1)) (fun d => lap_cdf d x)
  | FPareto, LogPdf => with_d (par_new (P ps 0) (P ps 1)) (fun d => par_logpdf d x)
  | FPareto, LogCdf => with_d (par_new (P ps 0) (P ps 1)) (fun d => par_logcdf d x)
  | FPareto, Cdf => with_d (par_new (P ps 0) (P ps 1)) (fun d => par_cdf d x)
  | FGPareto, LogPdf => with_d (gp_new (P ps 0) (P ps 1) (P ps 2)) (fun d => gp_logpdf d x)
  | FGPareto, LogCdf => with_d (gp_new (P ps 0) (P ps 1) (P ps 2)) (fun d => gp_logcdf d x)
  | FGPareto, Cdf => with_d (gp_new (P ps 0) (P ps 1) (P ps 2)) (fun d => gp_cdf d x)
  | FGev, LogPdf => with_d (gev_new (P ps 0) (P ps 1) (P ps 2)) (fun d => gev_logpdf d x)
  | FGev, LogCdf => with_d (gev_new (P ps 0) (P ps 1) (P ps 2)) (fun d => gev_logcdf d x)
  | FGev, Cdf => with_d (gev_new (P ps 0) (P ps 1) (P ps 2)) (fun d => gev_cdf d x)
  | FGamma, LogPdf => with_d (gam_new (P ps 0) (P ps 1)) (fun d => gam_logpdf d x)
  | FGamma, LogCdf => with_d (gam_new (P ps 0) (P ps 1)) (fun d => gam_logcdf d x)
  | FGamma, Cdf => with_d (gam_new (P ps 0) (P ps 1)) (fun d => gam_cdf d x)
  | FBeta, LogPdf => with_d (beta_new (P ps 0) (P ps 1) (Z.eqb (nth 0 zs 0%Z) 1)) (fun d => beta_logpdf d x)
  | FBinomial, LogPdf => with_d (bin_new (P ps 0) (nth 0 zs 0%Z)) (fun d => bin_logpdf d x)
  | FCategorical, LogPdf => with_d (cat_new ps) (fun d => cat_logpdf d x)
  | FCategorical, LogCdf => with_d (cat_new ps) (fun d => cat_logcdf d x)
  | FCategorical, Cdf => with_d (cat_new ps) (fun d => cat_cdf d x)
  | FCauchy, LogPdf => with_d (cau_new (P ps 0) (P ps 1)) (fun d => cau_logpdf d x)
  | FChiSquared, LogPdf => with_d (chi_new (P ps 0)) (fun d => chi_logpdf d x)
  | FChiSquared, LogCdf => with_d (chi_new (P ps 0)) (fun d => chi_logcdf d x)
  | FChiSquared, Cdf => with_d (chi_new (P ps 0)) (fun d => chi_cdf d x)
  | FDelta, LogPdf => delta_logpdf (P ps 0) x
  | FGenGamma, LogPdf => with_d (gg_new (P ps 0) (P ps 1) (P ps 2)) (fun d => gg_logpdf d x)
  | FGeometric, LogPdf => with_d (geo_new (P ps 0)) (fun d => geo_logpdf d x)
  | FNegBinomial, LogPdf => with_d (nb_new (P ps 0) (P ps 1)) (fun d => nb_logpdf d x)
  | FPoisson, LogPdf => with_d (poi_new (P ps 0)) (fun d => poi_logpdf d x)
  | FPowerLaw, LogPdf => with_d (pl_new (P ps 0) (P ps 1)) (fun d => pl_logpdf d x)
  | FPowerLaw, LogCdf => with_d (pl_new (P ps 0) (P ps 1)) (fun d => pl_logcdf d x)
  | FPowerLaw, Cdf => with_d (pl_new (P ps 0) (P ps 1)) (fun d => pl_cdf d x)
  | FTransNormal, LogPdf =>
      with_d (normal_new (P ps 0) (P ps 1)) (fun d => translation_logpdf (normal_logpdf d) (P ps 2) x)
  | FLogTransNormal, LogPdf =>
      with_d (normal_new (P ps 0) (P ps 1)) (fun d => logtransform_logpdf (normal_logpdf d) (P ps 2) x)
  | FExponential, Pdf => with_d (exp_new (P ps 0)) (fun d => exp_pdfm d x)
  | FLaplace, Pdf => with_d (lap_new (P ps 0) (P ps 1)) (fun d => lap_pdfm d x)
  | FPareto, Pdf => with_d (par_new (P ps 0) (P ps 1)) (fun d => par_pdfm d x)
  | FGPareto, Pdf => with_d (gp_new (P ps 0) (P ps 1) (P ps 2)) (fun d => gp_pdfm d x)
  | FGev, Pdf => with_d (gev_new (P ps 0) (P ps 1) (P ps 2)) (fun d => gev_pdfm d x)
  | FGamma, Pdf => with_d (gam_new (P ps 0) (P ps 1)) (fun d => gam_pdfm d x)
  | FBeta, Pdf => with_d (beta_new (P ps 0) (P ps 1) (Z.eqb (nth 0 zs 0%Z) 1)) (fun d => beta_pdfm d x)
  | FBinomial, Pdf => with_d (bin_new (P ps 0) (nth 0 zs 0%Z)) (fun d => bin_pdfm d x)
  | FCategorical, Pdf => with_d (cat_new ps) (fun d => cat_pdfm d x)
  | FCauchy, Pdf => with_d (cau_new (P ps 0) (P ps 1)) (fun d => cau_pdfm d x)
  | FChiSquared, Pdf => with_d (chi_new (P ps 0)) (fun d => chi_pdfm d x)
  | FDelta, Pdf => delta_pdfm (P ps 0) x
  | FGenGamma, Pdf => with_d (gg_new (P ps 0) (P ps 1) (P ps 2)) (fun d => gg_pdfm d x)
  | FGeometric, Pdf => with_d (geo_new (P ps 0)) (fun d => geo_pdfm d x)
  | FNegBinomial, Pdf => with_d (nb_new (P ps 0) (P ps 1)) (fun d => nb_pdfm d x)
  | FPoisson, Pdf => with_d (poi_new (P ps 0)) (fun d => poi_pdfm d x)
  | FPowerLaw, Pdf => with_d (pl_new (P ps 0) (P ps 1)) (fun d => pl_pdfm d x)
  | FTransNormal, Pdf =>
      with_d (normal_new (P ps 0) (P ps 1)) (fun d => translation_pdfm (normal_logpdf d) (P ps 2) x)
  | FLogTransNormal, Pdf =>
      with_d (normal_new (P ps 0) (P ps 1)) (fun d => logtransform_pdfm (normal_logpdf d) (P ps 2) x)
  | FNormal, Ctor | FTransNormal, Ctor | FLogTransNormal, Ctor => with_d (normal_new (P ps 0) (P ps 1)) (fun _ => Val (F 0))
  | FExponential, Ctor => with_d (exp_new (P ps 0)) (fun _ => Val (F 0))
  | FLaplace, Ctor => with_d (lap_new (P ps 0) (P ps 1)) (fun _ => Val (F 0))
  | FPareto, Ctor => with_d (par_new (P ps 0) (P ps 1)) (fun _ => Val (F 0))
  | FGPareto, Ctor => with_d (gp_new (P ps 0) (P ps 1) (P ps 2)) (fun _ => Val (F 0))
  | FGev, Ctor => with_d (gev_new (P ps 0) (P ps 1) (P ps 2)) (fun _ => Val (F 0))
  | FGamma, Ctor => with_d (gam_new (P ps 0) (P ps 1)) (fun _ => Val (F 0))
  | FBeta, Ctor => with_d (beta_new (P ps 0) (P ps 1) (Z.eqb (nth 0 zs 0%Z) 1)) (fun _ => Val (F 0))
  | FBinomial, Ctor => with_d (bin_new (P ps 0) (nth 0 zs 0%Z)) (fun _ => Val (F 0))
  | FCategorical, Ctor => with_d (cat_new ps) (fun _ => Val (F 0))
  | FCauchy, Ctor => with_d (cau_new (P ps 0) (P ps 1)) (fun _ => Val (F 0))
  | FChiSquared, Ctor => with_d (chi_new (P ps 0)) (fun _ => Val (F 0))
  | FGenGamma, Ctor => with_d (gg_new (P ps 0) (P ps 1) (P ps 2)) (fun _ => Val (F 0))
  | FGeometric, Ctor => with_d (geo_new (P ps 0)) (fun _ => Val (F 0))
  | FNegBinomial, Ctor => with_d (nb_new (P ps 0) (P ps 1)) (fun _ => Val (F 0))
  | FPoisson, Ctor => with_d (poi_new (P ps 0)) (fun _ => Val (F 0))
  | FPowerLaw, Ctor => with_d (pl_new (P ps 0) (P ps 1)) (fun _ => Val (F 0))
  | _, _ => NoSuch
  end.

End Model.
