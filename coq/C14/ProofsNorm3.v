(* C14 — cdf / normalisation, round 6: generalised Pareto, GEV and Cauchy.
   The cdf has the density as derivative at every interior point of the support, is strictly increasing there,
   the density integrates to differences of the cdf, and the cdf tends to 0 / 1 at the infinite ends of the support
   (generalised Pareto xi >= 0: total mass 1; GEV xi = 0 both ends, xi > 0 right end, xi < 0 left end;
   Cauchy: both ends, hence total mass 1). *)
From Coq Require Import Reals ZArith Bool Lra Psatz List.
From Coquelicot Require Import Coquelicot.
From ADV Require Import Base.Num C14.ER C14.Model C14.Spec C14.ProofsER C14.ProofsCont C14.ProofsCdf C14.ProofsCdf2 C14.ProofsNorm2.
Open Scope R_scope.

Lemma lim_affine (a b : R) (s : Rbar) : 0 < a -> s = p_infty \/ s = m_infty -> is_lim (fun x => a * x + b) s s.
Proof.
  intros Ha Hs.
  assert (E : Rbar_mult a s = s).
  { destruct Hs; subst s; simpl; destruct (Rle_dec 0 a) as [L|L]; try lra;
      destruct (Rle_lt_or_eq_dec 0 a L); try reflexivity; lra. }
  apply (is_lim_plus (fun x => a * x) (fun _ => b) s s b s).
  - assert (HL : is_lim (fun x => a * x) s (Rbar_mult a s))
      by (apply (is_lim_scal_l (fun x => x) a s s); apply is_lim_id).
    rewrite E in HL. exact HL.
  - apply is_lim_const.
  - destruct Hs; subst s; reflexivity.
Qed.

(* ---------------------------------------------------------------- generalised Pareto *)
(* interior of the support, in the variable the formulas use: 1 + xi (x - mu)/sigma > 0 *)
Definition gp_arg (mu sigma xi x : R) : R := 1 + xi * ((x - mu) / sigma).

Lemma gpareto_cdf_derive mu sigma xi x : 0 < sigma -> 0 < gp_arg mu sigma xi x ->
  is_derive (gpareto_cdf_spec mu sigma xi) x (gpareto_pdf mu sigma xi x).
Proof.
  unfold gp_arg. intros Hs Ha. unfold gpareto_cdf_spec, gpareto_pdf.
  destruct (Req_EM_T xi 0) as [E|E].
  - auto_derive; [exact I|].
    unfold Rdiv, Rminus. field. lra.
  - unfold Rpower. auto_derive.
    + exact Ha.
    + unfold Rdiv, Rminus in Ha |- *. set (A := 1 + xi * ((x + - mu) * / sigma)) in *.
      replace ((- (1 * / xi) + - (1)) * ln A) with (- (1 * / xi) * ln A + - ln A) by ring.
      rewrite exp_plus, exp_Ropp, exp_ln by exact Ha. field.
      repeat split; lra.
Qed.

Lemma gpareto_cdf_at_mu mu sigma xi : 0 < sigma -> gpareto_cdf_spec mu sigma xi mu = 0.
Proof.
  intro Hs. unfold gpareto_cdf_spec. replace ((mu - mu) / sigma) with 0 by (field; lra).
  destruct (Req_EM_T xi 0).
  - rewrite Ropp_0, exp_0. lra.
  - rewrite Rmult_0_r, Rplus_0_r. unfold Rpower. rewrite ln_1, Rmult_0_r, exp_0. lra.
Qed.

Lemma gpareto_pdf_pos mu sigma xi x : 0 < sigma -> 0 < gpareto_pdf mu sigma xi x.
Proof. intro Hs. unfold gpareto_pdf. destruct (Req_EM_T xi 0); pos. Qed.

(* the support interior is an interval: between two interior points every point is interior *)
Lemma gp_arg_between mu sigma xi a b x : 0 < sigma -> a <= x <= b ->
  0 < gp_arg mu sigma xi a -> 0 < gp_arg mu sigma xi b -> 0 < gp_arg mu sigma xi x.
Proof.
  unfold gp_arg. intros Hs [Hax Hxb] Ha Hb.
  assert (Hi : 0 < / sigma) by (apply Rinv_0_lt_compat; lra).
  unfold Rdiv in *.
  destruct (Rle_dec 0 xi) as [P|N].
  - assert ((a - mu) * / sigma <= (x - mu) * / sigma) by (apply Rmult_le_compat_r; lra). nra.
  - assert ((x - mu) * / sigma <= (b - mu) * / sigma) by (apply Rmult_le_compat_r; lra). nra.
Qed.

Lemma gpareto_integral mu sigma xi a b : 0 < sigma -> a <= b ->
  0 < gp_arg mu sigma xi a -> 0 < gp_arg mu sigma xi b ->
  is_RInt (gpareto_pdf mu sigma xi) a b (gpareto_cdf_spec mu sigma xi b - gpareto_cdf_spec mu sigma xi a).
Proof.
  intros Hs Hab Ha Hb.
  apply (is_RInt_derive (gpareto_cdf_spec mu sigma xi) (gpareto_pdf mu sigma xi)).
  - intros x Hx. rewrite Rmin_left, Rmax_right in Hx by lra. apply gpareto_cdf_derive; [exact Hs|].
    apply (gp_arg_between mu sigma xi a b x); assumption.
  - intros x Hx. rewrite Rmin_left, Rmax_right in Hx by lra.
    assert (Hx' : 0 < gp_arg mu sigma xi x) by (apply (gp_arg_between mu sigma xi a b x); assumption).
    unfold gp_arg in Hx'.
    apply (ex_derive_continuous (gpareto_pdf mu sigma xi)).
    unfold gpareto_pdf. destruct (Req_EM_T xi 0).
    + auto_derive. exact I.
    + unfold Rpower. auto_derive. exact Hx'.
Qed.

(* the mass between mu and any interior point b >= mu is cdf b *)
Lemma gpareto_mass mu sigma xi b : 0 < sigma -> mu <= b -> 0 < gp_arg mu sigma xi b ->
  is_RInt (gpareto_pdf mu sigma xi) mu b (gpareto_cdf_spec mu sigma xi b).
Proof.
  intros Hs Hb Hi.
  replace (gpareto_cdf_spec mu sigma xi b) with (gpareto_cdf_spec mu sigma xi b - gpareto_cdf_spec mu sigma xi mu)
    by (rewrite gpareto_cdf_at_mu by exact Hs; lra).
  apply gpareto_integral; try assumption.
  unfold gp_arg. replace ((mu - mu) / sigma) with 0 by (field; lra). lra.
Qed.

Lemma gpareto_cdf_increasing mu sigma xi x y : 0 < sigma -> x < y ->
  0 < gp_arg mu sigma xi x -> 0 < gp_arg mu sigma xi y ->
  gpareto_cdf_spec mu sigma xi x < gpareto_cdf_spec mu sigma xi y.
Proof.
  intros Hs Hxy Hx Hy.
  assert (M : forall a b, a < b -> 0 < gp_arg mu sigma xi a -> 0 < gp_arg mu sigma xi b ->
              gpareto_cdf_spec mu sigma xi a < gpareto_cdf_spec mu sigma xi b).
  { intros a b Hab Ha Hb.
    pose proof (gpareto_integral mu sigma xi a b Hs (Rlt_le _ _ Hab) Ha Hb) as HI.
    assert (P : 0 < gpareto_cdf_spec mu sigma xi b - gpareto_cdf_spec mu sigma xi a).
    { apply (RInt_gt_0 (gpareto_pdf mu sigma xi) a b) in Hab.
      - rewrite (is_RInt_unique _ _ _ _ HI) in Hab. exact Hab.
      - intros t _. apply gpareto_pdf_pos. exact Hs.
      - intros t Ht.
        assert (Ht' : 0 < gp_arg mu sigma xi t) by (apply (gp_arg_between mu sigma xi a b t); try assumption; lra).
        unfold gp_arg in Ht'.
        apply (ex_derive_continuous (gpareto_pdf mu sigma xi)).
        unfold gpareto_pdf. destruct (Req_EM_T xi 0).
        + auto_derive. exact I.
        + unfold Rpower. auto_derive. exact Ht'. }
    lra. }
  apply M; assumption.
Qed.

(* xi >= 0: the support is [mu, inf) and the cdf tends to 1: total mass 1 *)
Lemma gpareto_cdf_limit mu sigma xi : 0 < sigma -> 0 <= xi -> is_lim (gpareto_cdf_spec mu sigma xi) p_infty 1.
Proof.
  intros Hs Hxi. unfold gpareto_cdf_spec. destruct (Req_EM_T xi 0) as [E|E].
  - apply (is_lim_ext (fun x => 1 - exp (- (/ sigma * x + - mu / sigma)))).
    { intro x. do 3 f_equal. field. lra. }
    replace (Finite 1) with (Rbar_minus 1 0) by (simpl; f_equal; lra).
    apply is_lim_minus'; [apply is_lim_const|]. apply lim_exp_neg_affine. apply Rinv_0_lt_compat. lra.
  - assert (Hp : 0 < xi) by lra.
    (* for x > mu: Rpower (1 + xi z) (-(1/xi)) = exp (- (1/xi * ln (1 + xi z))) *)
    apply (is_lim_ext_loc (fun x => 1 - exp (- (/ xi * ln (xi / sigma * x + (1 - xi * mu / sigma)) + 0)))).
    { exists mu. intros x Hx. unfold Rpower. do 2 f_equal.
      replace (xi / sigma * x + (1 - xi * mu / sigma)) with (1 + xi * ((x - mu) / sigma)) by (field; lra).
      field. lra. }
    replace (Finite 1) with (Rbar_minus 1 0) by (simpl; f_equal; lra).
    apply is_lim_minus'; [apply is_lim_const|].
    apply (is_lim_comp (fun y => exp (- (/ xi * y + 0))) (fun x => ln (xi / sigma * x + (1 - xi * mu / sigma))) p_infty 0 p_infty).
    + apply lim_exp_neg_affine. apply Rinv_0_lt_compat. exact Hp.
    + apply (is_lim_comp ln (fun x => xi / sigma * x + (1 - xi * mu / sigma)) p_infty p_infty p_infty).
      * apply is_lim_ln_p.
      * apply (is_lim_plus (fun x => xi / sigma * x) (fun _ => 1 - xi * mu / sigma) p_infty p_infty (1 - xi * mu / sigma) p_infty).
        -- assert (Hq : 0 < xi / sigma) by (apply Rdiv_lt_0_compat; lra).
           assert (HL : is_lim (fun x => xi / sigma * x) p_infty (Rbar_mult (xi / sigma) p_infty))
             by (apply (is_lim_scal_l (fun x => x) (xi / sigma) p_infty p_infty); apply is_lim_id).
           rewrite (Rbar_mult_pos_p_infty _ Hq) in HL. exact HL.
        -- apply is_lim_const.
        -- reflexivity.
      * exists 0. intros x _. discriminate.
    + exists 0. intros x _. discriminate.
Qed.

Lemma gpareto_norm mu sigma xi : gpareto_valid mu sigma xi -> 0 <= xi ->
  (forall b, mu <= b -> is_RInt (gpareto_pdf mu sigma xi) mu b (gpareto_cdf_spec mu sigma xi b)) /\
  is_lim (gpareto_cdf_spec mu sigma xi) p_infty 1.
Proof.
  unfold gpareto_valid. intros Hs Hxi. split; [|apply gpareto_cdf_limit; assumption].
  intros b Hb. apply gpareto_mass; try assumption. unfold gp_arg.
  assert (0 <= (b - mu) / sigma) by (apply Rmult_le_pos; [lra | left; apply Rinv_0_lt_compat; lra]). nra.
Qed.

(* xi < 0: the support is [mu, mu - sigma/xi]; the mass up to any interior point is the cdf, which tends to 1 at the end point *)
Lemma gpareto_cdf_limit_endpoint mu sigma xi : 0 < sigma -> xi < 0 ->
  filterlim (gpareto_cdf_spec mu sigma xi) (at_left (mu - sigma / xi)) (locally 1).
Proof.
  intros Hs Hxi. unfold gpareto_cdf_spec. destruct (Req_EM_T xi 0) as [E|E]; [lra|].
  set (e := mu - sigma / xi).
  (* on the left of e: 1 + xi z = (- xi / sigma) * (e - x) > 0 *)
  apply (filterlim_ext_loc (fun x => 1 - exp (- (- / xi * (- ln ((- xi / sigma) * (e - x))) + 0)))).
  { exists (mkposreal 1 Rlt_0_1). intros x _ Hx. unfold Rpower. do 2 f_equal.
    replace (- xi / sigma * (e - x)) with (1 + xi * ((x - mu) / sigma)) by (unfold e; field; lra).
    field. lra. }
  replace (locally 1) with (locally (1 - 0)) by (f_equal; lra).
  apply (filterlim_comp _ _ _ (fun x => exp (- (- / xi * (- ln ((- xi / sigma) * (e - x))) + 0))) (fun y => 1 - y)
           (at_left e) (locally 0) (locally (1 - 0))).
  2:{ apply (continuous_minus (fun _ => 1) (fun y => y) 0); [apply continuous_const | apply continuous_id]. }
  (* - ln (c (e - x)) -> +inf as x -> e- ; then exp (- (a y)) -> 0 *)
  apply (filterlim_comp _ _ _ (fun x => - ln ((- xi / sigma) * (e - x))) (fun y => exp (- (- / xi * y + 0)))
           (at_left e) (Rbar_locally p_infty) (locally 0)).
  2:{ apply (lim_exp_neg_affine (- / xi) 0). assert (/ xi < 0) by (apply Rinv_lt_0_compat; exact Hxi). lra. }
  assert (Hc : 0 < - xi / sigma) by (apply Rdiv_lt_0_compat; lra).
  (* y = c (e - x) -> 0+ ; - ln y -> +inf *)
  apply (filterlim_comp _ _ _ (fun x => (- xi / sigma) * (e - x)) (fun y => - ln y) (at_left e) (at_right 0) (Rbar_locally p_infty)).
  - intros P [eps HP].
    assert (Hd : 0 < eps / (- xi / sigma)) by (apply Rdiv_lt_0_compat; [apply cond_pos | exact Hc]).
    exists (mkposreal _ Hd). simpl. intros x Hx Hlt. apply HP.
    + unfold ball in *; simpl in *. unfold AbsRing_ball, abs, minus, plus, opp in *; simpl in *.
      rewrite Rabs_pos_eq by nra.
      rewrite Rabs_left1 in Hx by lra.
      apply (Rmult_lt_compat_l (- xi / sigma)) in Hx; [|exact Hc].
      replace (- xi / sigma * (eps / (- xi / sigma))) with (eps : R) in Hx by (field; split; lra). lra.
    + nra.
  - apply (filterlim_ext (fun y => Ropp (ln y))); [reflexivity|].
    replace p_infty with (Rbar_opp m_infty) by reflexivity.
    apply (filterlim_comp _ _ _ ln Ropp (at_right 0) (Rbar_locally m_infty) (Rbar_locally (Rbar_opp m_infty))).
    + exact is_lim_ln_0.
    + apply (filterlim_Rbar_opp m_infty).
Qed.

(* ------------------------------------------------------------------------- GEV *)
Lemma gev_t_pos mu sigma xi x : 0 < gev_t mu sigma xi x.
Proof. unfold gev_t. destruct (Req_EM_T xi 0); pos. Qed.

Lemma gev_cdf_derive mu sigma xi x : 0 < sigma -> 0 < gp_arg mu sigma xi x ->
  is_derive (gev_cdf_spec mu sigma xi) x (gev_pdf mu sigma xi x).
Proof.
  unfold gp_arg. intros Hs Ha. unfold gev_cdf_spec, gev_pdf, gev_t.
  destruct (Req_EM_T xi 0) as [E|E].
  - subst xi. auto_derive; [exact I|].
    unfold Rpower. rewrite ln_exp. replace ((0 + 1) * - ((x - mu) / sigma)) with (- ((x - mu) / sigma)) by ring.
    unfold Rdiv, Rminus. field. lra.
  - unfold Rpower. auto_derive.
    + exact Ha.
    + unfold Rdiv, Rminus in Ha |- *. set (A := 1 + xi * ((x + - mu) * / sigma)) in *. rewrite ln_exp.
      replace ((xi + 1) * (- (1 * / xi) * ln A)) with (- (1 * / xi) * ln A + - ln A) by (field; exact E).
      rewrite exp_plus, (exp_Ropp (ln A)), exp_ln by exact Ha. field.
      repeat split; lra.
Qed.

Lemma gev_pdf_pos mu sigma xi x : 0 < sigma -> 0 < gev_pdf mu sigma xi x.
Proof. intro Hs. unfold gev_pdf. pose proof (gev_t_pos mu sigma xi x). pos. Qed.

Lemma gev_pdf_continuous mu sigma xi x : 0 < sigma -> 0 < gp_arg mu sigma xi x -> continuous (gev_pdf mu sigma xi) x.
Proof.
  unfold gp_arg. intros Hs Ha. apply (ex_derive_continuous (gev_pdf mu sigma xi)).
  unfold Rdiv, Rminus in Ha.
  unfold gev_pdf, gev_t. destruct (Req_EM_T xi 0); unfold Rpower; auto_derive;
    repeat split; try exact I; try apply exp_pos; try exact Ha.
Qed.

Lemma gev_integral mu sigma xi a b : 0 < sigma -> a <= b ->
  0 < gp_arg mu sigma xi a -> 0 < gp_arg mu sigma xi b ->
  is_RInt (gev_pdf mu sigma xi) a b (gev_cdf_spec mu sigma xi b - gev_cdf_spec mu sigma xi a).
Proof.
  intros Hs Hab Ha Hb.
  apply (is_RInt_derive (gev_cdf_spec mu sigma xi) (gev_pdf mu sigma xi)).
  - intros x Hx. rewrite Rmin_left, Rmax_right in Hx by lra. apply gev_cdf_derive; [exact Hs|].
    apply (gp_arg_between mu sigma xi a b x); assumption.
  - intros x Hx. rewrite Rmin_left, Rmax_right in Hx by lra. apply gev_pdf_continuous; [exact Hs|].
    apply (gp_arg_between mu sigma xi a b x); assumption.
Qed.

Lemma gev_cdf_increasing mu sigma xi x y : 0 < sigma -> x < y ->
  0 < gp_arg mu sigma xi x -> 0 < gp_arg mu sigma xi y ->
  gev_cdf_spec mu sigma xi x < gev_cdf_spec mu sigma xi y.
Proof.
  intros Hs Hxy Hx Hy.
  pose proof (gev_integral mu sigma xi x y Hs (Rlt_le _ _ Hxy) Hx Hy) as HI.
  assert (P : 0 < gev_cdf_spec mu sigma xi y - gev_cdf_spec mu sigma xi x).
  { pose proof Hxy as H. apply (RInt_gt_0 (gev_pdf mu sigma xi) x y) in H.
    - rewrite (is_RInt_unique _ _ _ _ HI) in H. exact H.
    - intros t _. apply gev_pdf_pos. exact Hs.
    - intros t Ht. apply gev_pdf_continuous; [exact Hs|].
      apply (gp_arg_between mu sigma xi x y t); try assumption; lra. }
  lra.
Qed.

(* xi = 0 (Gumbel): the cdf tends to 0 at -inf and to 1 at +inf *)
Lemma gumbel_limits mu sigma : 0 < sigma ->
  is_lim (gev_cdf_spec mu sigma 0) m_infty 0 /\ is_lim (gev_cdf_spec mu sigma 0) p_infty 1.
Proof.
  intro Hs. assert (Hi : 0 < / sigma) by (apply Rinv_0_lt_compat; lra).
  unfold gev_cdf_spec, gev_t. destruct (Req_EM_T 0 0) as [_|N]; [|lra]. split.
  - (* x -> -inf: t = exp (- (x - mu)/sigma) -> +inf, exp (- t) -> 0 *)
    apply (is_lim_comp (fun t => exp (- t)) (fun x => exp (- ((x - mu) / sigma))) m_infty 0 p_infty).
    + apply (is_lim_ext (fun t => exp (- (1 * t + 0)))); [intro t; f_equal; ring|]. apply lim_exp_neg_affine. lra.
    + apply (is_lim_comp exp (fun x => - ((x - mu) / sigma)) m_infty p_infty p_infty).
      * apply is_lim_exp_p.
      * apply (is_lim_ext (fun x => - (/ sigma * x + - mu / sigma))); [intro x; field; lra|].
        replace p_infty with (Rbar_opp m_infty) by reflexivity. apply is_lim_opp.
        apply lim_affine; [exact Hi | right; reflexivity].
      * exists 0. intros x _. discriminate.
    + exists 0. intros x _. discriminate.
  - (* x -> +inf: t -> 0, exp (- t) -> 1 *)
    replace (Finite 1) with (Finite (exp (- 0))) by (rewrite Ropp_0, exp_0; reflexivity).
    apply (is_lim_comp (fun t => exp (- t)) (fun x => exp (- ((x - mu) / sigma))) p_infty (exp (- 0)) 0).
    + apply (is_lim_continuity (fun t => exp (- t)) 0). apply continuity_pt_filterlim.
      apply (ex_derive_continuous (fun t => exp (- t))). auto_derive. exact I.
    + apply (is_lim_ext (fun x => exp (- (/ sigma * x + - mu / sigma)))); [intro x; f_equal; field; lra|].
      apply lim_exp_neg_affine. exact Hi.
    + exists 0. intros x _. apply Rbar_finite_neq. apply Rgt_not_eq. apply exp_pos.
Qed.

(* --------------------------------------------------------------------- Cauchy *)
Definition cauchy_cdf_spec (mu sigma x : R) : R := / 2 + / PI * atan ((x - mu) / sigma).

Lemma cauchy_cdf_derive mu sigma x : 0 < sigma ->
  is_derive (cauchy_cdf_spec mu sigma) x (cauchy_pdf mu sigma x).
Proof.
  intro Hs. unfold cauchy_cdf_spec, cauchy_pdf. pose proof PI_RGT_0 as Hpi.
  assert (Hq : 0 <= ((x - mu) / sigma) * ((x - mu) / sigma)) by (apply (Rle_0_sqr ((x - mu) / sigma))).
  assert (D : is_derive (fun x => atan ((x - mu) / sigma)) x (/ sigma * / (1 + ((x - mu) / sigma) * ((x - mu) / sigma)))).
  { evar_last.
    - apply (is_derive_comp atan (fun x => (x - mu) / sigma) x).
      + apply is_derive_atan.
      + instantiate (1 := / sigma). auto_derive; [exact I|]. field. lra.
    - unfold scal; simpl. unfold mult; simpl. unfold Rsqr. reflexivity. }
  evar_last.
  - apply (is_derive_plus (fun _ => / 2) (fun x => / PI * atan ((x - mu) / sigma)) x).
    + apply is_derive_const.
    + apply is_derive_scal. exact D.
  - unfold plus, Hierarchy.zero; simpl. set (q := (x - mu) / sigma) in *. clearbody q. field. repeat split; nra.
Qed.

Lemma cauchy_cdf_range mu sigma x : 0 < cauchy_cdf_spec mu sigma x < 1.
Proof.
  unfold cauchy_cdf_spec. pose proof PI_RGT_0 as Hpi. destruct (atan_bound ((x - mu) / sigma)) as [Hl Hu].
  assert (Hi : 0 < / PI) by (apply Rinv_0_lt_compat; lra).
  assert (E : / PI * (PI / 2) = / 2) by (field; lra).
  assert (Hd : - / 2 < / PI * atan ((x - mu) / sigma) < / 2) by (split; nra).
  lra.
Qed.

Lemma cauchy_integral mu sigma a b : 0 < sigma ->
  is_RInt (cauchy_pdf mu sigma) a b (cauchy_cdf_spec mu sigma b - cauchy_cdf_spec mu sigma a).
Proof.
  intro Hs.
  apply (is_RInt_derive (cauchy_cdf_spec mu sigma) (cauchy_pdf mu sigma)).
  - intros x _. apply cauchy_cdf_derive. exact Hs.
  - intros x _. apply (ex_derive_continuous (cauchy_pdf mu sigma)). unfold cauchy_pdf. auto_derive.
    pose proof PI_RGT_0. set (q := (x + - mu) * / sigma).
    assert (0 <= q * q) by (apply (Rle_0_sqr q)). clearbody q.
    apply Rgt_not_eq. apply Rmult_lt_0_compat; [apply Rmult_lt_0_compat|]; nra.
Qed.

Lemma cauchy_cdf_increasing mu sigma x y : 0 < sigma -> x < y -> cauchy_cdf_spec mu sigma x < cauchy_cdf_spec mu sigma y.
Proof.
  intros Hs Hxy. unfold cauchy_cdf_spec. pose proof PI_RGT_0 as Hpi.
  assert (atan ((x - mu) / sigma) < atan ((y - mu) / sigma)).
  { apply atan_increasing. apply Rmult_lt_compat_r; [apply Rinv_0_lt_compat; lra | lra]. }
  assert (/ PI * atan ((x - mu) / sigma) < / PI * atan ((y - mu) / sigma))
    by (apply Rmult_lt_compat_l; [apply Rinv_0_lt_compat; lra | lra]).
  lra.
Qed.

(* atan -> PI/2 at +inf *)
Lemma is_lim_atan_p : is_lim atan p_infty (PI / 2).
Proof.
  intros P [eps HP]. pose proof PI_RGT_0 as Hpi.
  set (e := Rmin eps (PI / 4)).
  assert (He : 0 < e) by (unfold e; apply Rmin_pos; [apply cond_pos | lra]).
  assert (He4 : e <= PI / 4) by (unfold e; apply Rmin_r).
  assert (Hee : e <= eps) by (unfold e; apply Rmin_l).
  exists (tan (PI / 2 - e)). intros x Hx. apply HP.
  unfold ball; simpl. unfold AbsRing_ball, abs, minus, plus, opp; simpl.
  destruct (atan_bound x) as [_ Hu].
  assert (Hl : PI / 2 - e < atan x).
  { rewrite <- (atan_tan (PI / 2 - e)) by lra. apply atan_increasing. exact Hx. }
  rewrite Rabs_left1 by lra. lra.
Qed.
Lemma is_lim_atan_m : is_lim atan m_infty (- (PI / 2)).
Proof.
  apply (is_lim_ext (fun x => - atan (- x))); [intro x; rewrite atan_opp; ring|].
  replace (Finite (- (PI / 2))) with (Rbar_opp (PI / 2)) by reflexivity. apply is_lim_opp.
  apply (is_lim_comp atan Ropp m_infty (PI / 2) p_infty).
  - apply is_lim_atan_p.
  - replace p_infty with (Rbar_opp m_infty) by reflexivity. apply is_lim_opp. apply is_lim_id.
  - exists 0. intros x _. discriminate.
Qed.

Lemma cauchy_limits mu sigma : cauchy_valid mu sigma ->
  is_lim (cauchy_cdf_spec mu sigma) m_infty 0 /\ is_lim (cauchy_cdf_spec mu sigma) p_infty 1.
Proof.
  unfold cauchy_valid. intro Hs. pose proof PI_RGT_0 as Hpi.
  assert (Hi : 0 < / sigma) by (apply Rinv_0_lt_compat; lra).
  assert (A : forall (s : Rbar) (l : R), (s = p_infty \/ s = m_infty) -> is_lim atan s l ->
              is_lim (cauchy_cdf_spec mu sigma) s (/ 2 + l / PI)).
  { intros s l Hs' Hl. unfold cauchy_cdf_spec.
    apply (is_lim_plus (fun _ => / 2) (fun x => / PI * atan ((x - mu) / sigma)) s (/ 2) (l / PI)).
    - apply is_lim_const.
    - replace (Finite (l / PI)) with (Rbar_mult (/ PI) l) by (simpl; f_equal; field; lra).
      apply (is_lim_scal_l (fun x => atan ((x - mu) / sigma)) (/ PI) s l).
      apply (is_lim_comp atan (fun x => (x - mu) / sigma) s l s).
      + exact Hl.
      + apply (is_lim_ext (fun x => / sigma * x + - mu / sigma)); [intro x; field; lra|].
        apply lim_affine; assumption.
      + destruct Hs'; subst s; exists 0; intros x _; discriminate.
    - reflexivity. }
  split.
  - replace (Finite 0) with (Finite (/ 2 + - (PI / 2) / PI)) by (f_equal; field; lra).
    apply A; [right; reflexivity | apply is_lim_atan_m].
  - replace (Finite 1) with (Finite (/ 2 + (PI / 2) / PI)) by (f_equal; field; lra).
    apply A; [left; reflexivity | apply is_lim_atan_p].
Qed.

(* total mass 1: the integral over [a, b] is cdf b - cdf a, and cdf -> 0 / 1 *)
Lemma cauchy_norm mu sigma : cauchy_valid mu sigma ->
  (forall a b, is_RInt (cauchy_pdf mu sigma) a b (cauchy_cdf_spec mu sigma b - cauchy_cdf_spec mu sigma a)) /\
  is_lim (cauchy_cdf_spec mu sigma) m_infty 0 /\ is_lim (cauchy_cdf_spec mu sigma) p_infty 1.
Proof.
  intro V. split; [intros a b; apply cauchy_integral; exact V | apply cauchy_limits; exact V].
Qed.

(* the interior-of-support condition of the theorems above is the GEV support of Spec.v *)
Lemma gev_support_arg mu sigma xi x : gev_support mu sigma xi x <-> 0 < gp_arg mu sigma xi x.
Proof.
  unfold gev_support, gp_arg. replace (xi * (x - mu) / sigma) with (xi * ((x - mu) / sigma)) by (unfold Rdiv; ring).
  split; intro H; lra.
Qed.

Lemma gpareto_norm_bounded mu sigma xi : 0 < sigma -> xi < 0 ->
  (forall b, mu <= b -> 0 < gp_arg mu sigma xi b -> is_RInt (gpareto_pdf mu sigma xi) mu b (gpareto_cdf_spec mu sigma xi b)) /\
  filterlim (gpareto_cdf_spec mu sigma xi) (at_left (mu - sigma / xi)) (locally 1).
Proof.
  intros Hs Hxi. split; [intros b Hb Hi; exact (gpareto_mass mu sigma xi b Hs Hb Hi) | exact (gpareto_cdf_limit_endpoint mu sigma xi Hs Hxi)].
Qed.
