(* C14 — property theorems (statements only; proofs in Proofs*.v).
   lgam / lerfc / gamP / erfc are universally quantified: nothing depends on which functions they are;
   the normal-cdf theorems carry their hypotheses about erfc explicitly.
   *_regress: the witnesses of the round-1 findings fixed in /repo, with the values the property demands. *)
From Coq Require Import Reals ZArith Bool List.
From Coquelicot Require Import Coquelicot.
From ADV Require Import Base.Num C14.ER C14.Model C14.VModel C14.SModel C14.Spec C14.Corr.
From ADV Require C14.ProofsHist.
Import ProofsHist (hres_inv, twin, bin_fresh, bin_setn_swapped).
From ADV Require C14.ProofsCont C14.ProofsDisc C14.ProofsNorm C14.ProofsCdf C14.ProofsCdf2 C14.ProofsNorm2 C14.ProofsVec C14.ProofsRegress.
Import ProofsVec (mvt_pdf, mvn_pdf, student_pdf).
Import ListNotations.
Open Scope R_scope.

Theorem normal_formula :
  forall mu sigma : R, normal_valid mu sigma -> exists d : normal_d, normal_new mu sigma = Some d /\ (forall x : R, normal_logpdf d x = Val (Fin (ln (normal_pdf mu sigma x)))).
Proof. exact ProofsCont.normal_formula. Qed.

Theorem exponential_formula :
  forall lambda : R, exponential_valid lambda -> exists d : exp_d, exp_new lambda = Some d /\ (forall x : R, 0 <= x -> exp_logpdf d x = Val (Fin (ln (exponential_pdf lambda x)))) /\ (forall x : R, x < 0 -> exp_logpdf d x = Val NInf).
Proof. exact ProofsCont.exponential_formula. Qed.

Theorem laplace_formula :
  forall mu sigma : R, laplace_valid mu sigma -> exists d : lap_d, lap_new mu sigma = Some d /\ (forall x : R, lap_logpdf d x = Val (Fin (ln (laplace_pdf mu sigma x)))).
Proof. exact ProofsCont.laplace_formula. Qed.

Theorem pareto_formula :
  forall lambda kappa : R, pareto_valid lambda kappa -> exists d : par_d, par_new lambda kappa = Some d /\ (forall x : R, lambda <= x -> par_logpdf d x = Val (Fin (ln (pareto_pdf lambda kappa x)))) /\ (forall x : R, x < lambda -> par_logpdf d x = Val NInf).
Proof. exact ProofsCont.pareto_formula. Qed.

Theorem gpareto_formula :
  forall mu sigma xi : R, gpareto_valid mu sigma xi -> exists d : gp_d, gp_new mu sigma xi = Some d /\ (forall x : R, mu <= x -> (xi < 0 -> x < mu - sigma / xi) -> gp_logpdf d x = Val (Fin (ln (gpareto_pdf mu sigma xi x)))) /\ (forall x : R, ~ gpareto_support mu sigma xi x -> gp_logpdf d x = Val NInf).
Proof. exact ProofsCont.gpareto_formula. Qed.

Theorem gev_formula :
  forall mu sigma xi : R, gev_valid mu sigma xi -> exists d : gev_d, gev_new mu sigma xi = Some d /\ (forall x : R, gev_support mu sigma xi x -> gev_logpdf d x = Val (Fin (ln (gev_pdf mu sigma xi x)))) /\ (forall x : R, ~ gev_support mu sigma xi x -> gev_logpdf d x = Val NInf).
Proof. exact ProofsCont.gev_formula. Qed.

Theorem cauchy_formula :
  forall mu sigma : R, cauchy_valid mu sigma -> exists d : cau_d, cau_new mu sigma = Some d /\ (forall x : R, cau_logpdf d x = Val (Fin (ln (cauchy_pdf mu sigma x)))).
Proof. exact ProofsCont.cauchy_formula. Qed.

Theorem powerlaw_formula :
  forall alpha xmin : R, powerlaw_valid alpha xmin -> exists d : pl_d, pl_new alpha xmin = Some d /\ (forall x : R, xmin <= x -> pl_logpdf d x = Val (Fin (ln (powerlaw_pdf alpha xmin x)))) /\ (forall x : R, x < xmin -> pl_logpdf d x = Val NInf).
Proof. exact ProofsCont.powerlaw_formula. Qed.

Theorem gamma_formula :
  forall (lgam : R -> R) (alpha beta : R), gamma_valid alpha beta -> exists d : gam_d, gam_new lgam alpha beta = Some d /\ (forall x : R, 0 < x -> gam_logpdf d x = Val (Fin (ln (gamma_pdf lgam alpha beta x)))) /\ (forall x : R, x <= 0 -> gam_logpdf d x = Val NInf).
Proof. exact ProofsCont.gamma_formula. Qed.

Theorem gengamma_formula :
  forall (lgam : R -> R) (a d p : R), gengamma_valid a d p -> exists g : gg_d, gg_new lgam a d p = Some g /\ (forall x : R, 0 < x -> gg_logpdf g x = Val (Fin (ln (gengamma_pdf lgam a d p x)))) /\ (forall x : R, x <= 0 -> gg_logpdf g x = Val NInf).
Proof. exact ProofsCont.gengamma_formula. Qed.

Theorem chisq_formula :
  forall (lgam : R -> R) (k : R), chisq_valid k -> exists d : chi_d, chi_new lgam k = Some d /\ (forall x : R, 0 < x -> chi_logpdf d x = Val (Fin (ln (chisq_pdf lgam k x)))) /\ (forall x : R, x < 0 -> chi_logpdf d x = Val NInf) /\ (2 < k -> chi_logpdf d 0 = Val NInf) /\ (k = 2 -> chi_logpdf d 0 = Val (Fin (ln (/ (2 * Gam lgam 1))))) /\ (k < 2 -> chi_logpdf d 0 = Val PInf).
Proof. exact ProofsCont.chisq_formula. Qed.

Theorem beta_formula :
  forall (lgam : R -> R) (a b : R), beta_valid a b -> exists d : beta_d, beta_new lgam a b false = Some d /\ (forall x : R, 0 < x < 1 -> beta_logpdf d x = Val (Fin (ln (beta_pdf lgam a b x)))) /\ (forall x : R, x < 0 \/ 1 < x -> beta_logpdf d x = Val NInf).
Proof. exact ProofsCont.beta_formula. Qed.

Theorem beta_logscale_formula :
  forall (lgam : R -> R) (a b : R), beta_valid a b -> exists d : beta_d, beta_new lgam a b true = Some d /\ (forall x : R, x < 0 -> beta_logpdf d x = Val (Fin (ln (beta_pdf lgam a b (exp x))))) /\ (forall x : R, 0 < x -> beta_logpdf d x = Val NInf).
Proof. exact ProofsCont.beta_logscale_formula. Qed.

Theorem geometric_formula :
  forall p : R, 0 < p < 1 -> exists d : geo_d, geo_new p = Some d /\ (forall k : Z, (0 <= k)%Z -> geo_logpdf d (IZR k) = Val (Fin (ln (geometric_pmf p k)))) /\ (forall k : Z, (k < 0)%Z -> geo_logpdf d (IZR k) = Val NInf) /\ (forall x : R, is_intb x = false -> geo_logpdf d x = ErrInt).
Proof. exact ProofsDisc.geometric_formula. Qed.

Theorem poisson_formula :
  forall (lgam : R -> R) (lambda : R), poisson_valid lambda -> exists d : R, poi_new lambda = Some d /\ (forall k : Z, (0 <= k)%Z -> poi_logpdf lgam d (IZR k) = Val (Fin (ln (poisson_pmf lgam lambda k)))) /\ (forall k : Z, (k < 0)%Z -> poi_logpdf lgam d (IZR k) = Val NInf) /\ (forall x : R, is_intb x = false -> poi_logpdf lgam d x = ErrInt).
Proof. exact ProofsDisc.poisson_formula. Qed.

Theorem negbinomial_formula :
  forall (lgam : R -> R) (r p : R), 0 < r -> 0 < p < 1 -> exists d : nb_d, nb_new lgam r p = Some d /\ (forall k : Z, (0 <= k)%Z -> nb_logpdf lgam d (IZR k) = Val (Fin (ln (negbinomial_pmf lgam r p k)))) /\ (forall k : Z, (k < 0)%Z -> nb_logpdf lgam d (IZR k) = Val NInf) /\ (forall x : R, is_intb x = false -> nb_logpdf lgam d x = Val NInf).
Proof. exact ProofsDisc.negbinomial_formula. Qed.

Theorem binomial_formula :
  forall (lgam : R -> R) (theta : R) (n : Z), 0 < theta < 1 -> (0 <= n)%Z -> exists d : bin_d, bin_new lgam theta n = Some d /\ (forall k : Z, (0 <= k <= n)%Z -> bin_logpdf lgam d (IZR k) = Val (Fin (ln (binomial_pmf lgam theta n k)))) /\ (forall k : Z, (k < 0)%Z \/ (n < k)%Z -> bin_logpdf lgam d (IZR k) = Val NInf) /\ (forall x : R, is_intb x = false -> bin_logpdf lgam d x = Val NInf).
Proof. exact ProofsDisc.binomial_formula. Qed.

Theorem categorical_formula :
  forall theta : list R, theta <> [] -> List.Forall (fun t : R => 0 < t) theta -> exists d : list ER, cat_new theta = Some d /\ (forall k : Z, (0 <= k < Z.of_nat (length theta))%Z -> cat_logpdf d (IZR k) = Val (Fin (ln (nth (Z.to_nat k) theta 0)))) /\ (forall k : Z, (k < 0)%Z \/ (Z.of_nat (length theta) <= k)%Z -> cat_logpdf d (IZR k) = Val NInf) /\ (forall x : R, is_intb x = false -> cat_logpdf d x = ErrInt).
Proof. exact ProofsDisc.categorical_formula. Qed.

Theorem geometric_boundary :
  exists d : geo_d, geo_new 1 = Some d /\ geo_logpdf d 0 = Val (Fin 0) /\ (forall k : Z, (0 < k)%Z -> geo_logpdf d (IZR k) = Val NInf).
Proof. exact ProofsDisc.geometric_boundary. Qed.

Theorem delta_formula :
  forall X x : R, delta_logpdf X x = (if Req_EM_T x X then Val (Fin 0) else Val NInf).
Proof. exact ProofsDisc.delta_formula. Qed.

Theorem translation_formula :
  forall (inner : R -> res) (f : R -> R) (c : R), (forall y : R, inner y = Val (Fin (ln (f y)))) -> forall x : R, translation_logpdf inner c x = Val (Fin (ln (f (x + c)))).
Proof. exact ProofsCont.translation_formula. Qed.

Theorem logtransform_formula :
  forall (inner : R -> res) (f : R -> R) (c : R), (forall y : R, inner y = Val (Fin (ln (f y)))) -> (forall y : R, 0 < f y) -> (forall x : R, 0 <= x -> 0 < x + c -> logtransform_logpdf inner c x = Val (Fin (ln (f (ln (x + c)) / (x + c))))) /\ (forall x : R, x < 0 -> logtransform_logpdf inner c x = Val NInf).
Proof. exact ProofsCont.logtransform_formula. Qed.

Theorem normal_ctor :
  forall mu sigma : R, normal_new mu sigma = None <-> ~ normal_valid mu sigma.
Proof. exact ProofsCont.normal_ctor. Qed.

Theorem exponential_ctor :
  forall lambda : R, exp_new lambda = None <-> ~ exponential_valid lambda.
Proof. exact ProofsCont.exponential_ctor. Qed.

Theorem pareto_ctor :
  forall lambda kappa : R, par_new lambda kappa = None <-> ~ pareto_valid lambda kappa.
Proof. exact ProofsCont.pareto_ctor. Qed.

Theorem cauchy_ctor :
  forall mu sigma : R, cau_new mu sigma = None <-> ~ cauchy_valid mu sigma.
Proof. exact ProofsCont.cauchy_ctor. Qed.

Theorem laplace_ctor :
  forall mu sigma : R, lap_new mu sigma = None <-> ~ laplace_valid mu sigma.
Proof. exact ProofsCont.laplace_ctor. Qed.

Theorem powerlaw_ctor :
  forall alpha xmin : R, pl_new alpha xmin = None <-> ~ powerlaw_valid alpha xmin.
Proof. exact ProofsCont.powerlaw_ctor. Qed.

Theorem chisq_ctor :
  forall (lgam : R -> R) (k : R), chi_new lgam k = None <-> ~ chisq_valid k.
Proof. exact ProofsCont.chisq_ctor. Qed.

Theorem gamma_ctor :
  forall (lgam : R -> R) (alpha beta : R), gam_new lgam alpha beta = None <-> ~ gamma_valid alpha beta.
Proof. exact ProofsCont.gamma_ctor. Qed.

Theorem geometric_ctor :
  forall p : R, geo_new p = None <-> ~ geometric_valid p.
Proof. exact ProofsDisc.geometric_ctor. Qed.

Theorem poisson_ctor :
  forall lambda : R, poi_new lambda = None <-> ~ poisson_valid lambda.
Proof. exact ProofsDisc.poisson_ctor. Qed.

Theorem binomial_ctor :
  forall (lgam : R -> R) (theta : R) (n : Z), bin_new lgam theta n = None <-> ~ binomial_valid theta n.
Proof. exact ProofsDisc.binomial_ctor. Qed.

Theorem normal_roundtrip :
  forall (mu sigma : R) (d : normal_d), normal_new mu sigma = Some d -> normal_set (normal_get d) = Some d.
Proof. exact ProofsCont.normal_roundtrip. Qed.

Theorem exponential_roundtrip :
  forall (lambda : R) (d : exp_d), exp_new lambda = Some d -> exp_set (exp_get d) = Some d.
Proof. exact ProofsCont.exponential_roundtrip. Qed.

Theorem geometric_norm :
  forall p : R, 0 < p < 1 -> is_series (fun k : nat => geometric_pmf p (Z.of_nat k)) 1.
Proof. exact ProofsNorm.geometric_norm. Qed.

Theorem exponential_norm :
  forall lambda : R, 0 < lambda -> (forall b : R, is_RInt (exponential_pdf lambda) 0 b (exponential_cdf_spec lambda b)) /\ is_lim (exponential_cdf_spec lambda) p_infty 1.
Proof. exact ProofsNorm.exponential_norm. Qed.

Theorem categorical_mass :
  forall (theta : list R) (d : list ER), List.Forall (fun t : R => 0 < t) theta -> cat_new theta = Some d -> map eexp d = map Fin theta.
Proof. exact ProofsDisc.categorical_mass. Qed.

Theorem exponential_cdf :
  forall lambda : R, exponential_valid lambda -> exists d : exp_d, exp_new lambda = Some d /\ (forall x : R, 0 < x -> exp_logcdf d x = Val (Fin (ln (exponential_cdf_spec lambda x)))) /\ (forall x : R, 0 <= x -> exp_cdf d x = Val (Fin (exponential_cdf_spec lambda x))) /\ (forall x : R, x < 0 -> exp_logcdf d x = Val NInf /\ exp_cdf d x = Val (Fin 0)).
Proof. exact ProofsCdf.exponential_cdf. Qed.

Theorem exponential_cdf_derive :
  forall (lambda : R) (x : R_AbsRing), is_derive (exponential_cdf_spec lambda) x (exponential_pdf lambda x).
Proof. exact ProofsCdf.exponential_cdf_derive. Qed.

Theorem exponential_cdf_monotone :
  forall lambda x y : R, 0 < lambda -> x <= y -> exponential_cdf_spec lambda x <= exponential_cdf_spec lambda y.
Proof. exact ProofsCdf.exponential_cdf_monotone. Qed.

Theorem pareto_cdf :
  forall lambda kappa : R, pareto_valid lambda kappa -> exists d : par_d, par_new lambda kappa = Some d /\ (forall x : R, lambda < x -> par_logcdf d x = Val (Fin (ln (pareto_cdf_spec lambda kappa x))) /\ par_cdf d x = Val (Fin (pareto_cdf_spec lambda kappa x))) /\ (forall x : R, x < lambda -> par_logcdf d x = Val NInf /\ par_cdf d x = Val (Fin 0)).
Proof. exact ProofsCdf.pareto_cdf. Qed.

Theorem normal_cdf :
  forall lerfc erfc : R -> R, (forall y : R, 0 < erfc y) -> (forall y : R, lerfc y = ln (erfc y)) -> forall mu sigma : R, normal_valid mu sigma -> exists d : normal_d, normal_new mu sigma = Some d /\ (forall x : R, normal_logcdf lerfc d x = Val (Fin (ln (normal_cdf_spec erfc mu sigma x))) /\ Model.normal_cdf lerfc d x = Val (Fin (normal_cdf_spec erfc mu sigma x))).
Proof. exact ProofsCdf.normal_cdf. Qed.

Theorem normal_cdf_derive :
  forall erfc : R -> R, (forall y : R_AbsRing, is_derive erfc y (- (2 / sqrt PI) * exp (- (y * y)))) -> forall (mu sigma : R) (x : R_AbsRing), 0 < sigma -> is_derive (normal_cdf_spec erfc mu sigma) x (normal_pdf mu sigma x).
Proof. exact ProofsCdf.normal_cdf_derive. Qed.

Theorem laplace_cdf :
  forall mu sigma : R, laplace_valid mu sigma -> exists d : lap_d, lap_new mu sigma = Some d /\ (forall x : R, lap_logcdf d x = Val (Fin (ln (laplace_cdf_spec mu sigma x))) /\ lap_cdf d x = Val (Fin (laplace_cdf_spec mu sigma x))).
Proof. exact ProofsCdf2.laplace_cdf. Qed.

Theorem laplace_cdf_range :
  forall mu sigma x : R, 0 < sigma -> 0 < laplace_cdf_spec mu sigma x < 1.
Proof. exact ProofsCdf2.laplace_cdf_range. Qed.

Theorem laplace_cdf_monotone :
  forall mu sigma x y : R, 0 < sigma -> x <= y -> laplace_cdf_spec mu sigma x <= laplace_cdf_spec mu sigma y.
Proof. exact ProofsCdf2.laplace_cdf_monotone. Qed.

Theorem laplace_cdf_derive :
  forall mu sigma x : R, 0 < sigma -> x <> mu -> is_derive (laplace_cdf_spec mu sigma) x (laplace_pdf mu sigma x).
Proof. exact ProofsCdf2.laplace_cdf_derive. Qed.

Theorem powerlaw_cdf :
  forall alpha xmin : R, powerlaw_valid alpha xmin -> exists d : pl_d, pl_new alpha xmin = Some d /\ (forall x : R, xmin < x -> pl_logcdf d x = Val (Fin (ln (powerlaw_cdf_spec alpha xmin x))) /\ pl_cdf d x = Val (Fin (powerlaw_cdf_spec alpha xmin x))) /\ (forall x : R, x <= xmin -> pl_logcdf d x = Val NInf /\ pl_cdf d x = Val (Fin 0)).
Proof. exact ProofsCdf2.powerlaw_cdf. Qed.

Theorem powerlaw_cdf_at_xmin :
  forall alpha xmin : R, 0 < xmin -> powerlaw_cdf_spec alpha xmin xmin = 0.
Proof. exact ProofsCdf2.powerlaw_cdf_at_xmin. Qed.

Theorem powerlaw_cdf_monotone :
  forall alpha xmin x y : R, powerlaw_valid alpha xmin -> xmin <= x -> x <= y -> 0 <= powerlaw_cdf_spec alpha xmin x <= powerlaw_cdf_spec alpha xmin y /\ powerlaw_cdf_spec alpha xmin y < 1.
Proof. exact ProofsCdf2.powerlaw_cdf_monotone. Qed.

Theorem gpareto_cdf :
  forall mu sigma xi : R, gpareto_valid mu sigma xi -> exists d : gp_d, gp_new mu sigma xi = Some d /\ (forall x : R, mu < x -> (xi < 0 -> x < mu - sigma / xi) -> gp_logcdf d x = Val (Fin (ln (gpareto_cdf_spec mu sigma xi x))) /\ gp_cdf d x = Val (Fin (gpareto_cdf_spec mu sigma xi x))) /\ (forall x : R, x < mu -> gp_logcdf d x = Val NInf /\ gp_cdf d x = Val (Fin 0)) /\ (forall x : R, xi < 0 -> mu - sigma / xi < x -> gp_logcdf d x = Val (Fin 0) /\ gp_cdf d x = Val (Fin 1)).
Proof. exact ProofsCdf2.gpareto_cdf. Qed.

Theorem gev_cdf :
  forall mu sigma xi : R, gev_valid mu sigma xi -> exists d : gev_d, gev_new mu sigma xi = Some d /\ (forall x : R, gev_support mu sigma xi x -> gev_logcdf d x = Val (Fin (ln (gev_cdf_spec mu sigma xi x))) /\ gev_cdf d x = Val (Fin (gev_cdf_spec mu sigma xi x))) /\ (forall x : R, ~ gev_support mu sigma xi x -> xi < 0 -> gev_logcdf d x = Val (Fin 0) /\ gev_cdf d x = Val (Fin 1)) /\ (forall x : R, ~ gev_support mu sigma xi x -> 0 <= xi -> gev_logcdf d x = Val NInf /\ gev_cdf d x = Val (Fin 0)).
Proof. exact ProofsCdf2.gev_cdf. Qed.

Theorem gev_cdf_range :
  forall mu sigma xi x : R, 0 < gev_cdf_spec mu sigma xi x < 1.
Proof. exact ProofsCdf2.gev_cdf_range. Qed.

Theorem gamma_cdf :
  forall (lgam : R -> R) (gamP : R -> R -> R) (alpha beta : R), gamma_valid alpha beta -> exists d : gam_d, gam_new lgam alpha beta = Some d /\ (forall x : R, 0 < x -> gam_cdf gamP d x = Val (Fin (gamP alpha (x * beta))) /\ gam_logcdf gamP d x = Val (elog (Fin (gamP alpha (x * beta))))) /\ (forall x : R, x <= 0 -> gam_cdf gamP d x = Val (Fin 0) /\ gam_logcdf gamP d x = Val NInf).
Proof. exact ProofsCdf2.gamma_cdf. Qed.

Theorem chisq_cdf :
  forall (lgam : R -> R) (gamP : R -> R -> R) (k : R), chisq_valid k -> exists d : chi_d, chi_new lgam k = Some d /\ (forall x : R, 0 < x -> chi_cdf gamP d x = Val (Fin (gamP (k / 2) (x / 2))) /\ chi_logcdf gamP d x = Val (elog (Fin (gamP (k / 2) (x / 2))))) /\ (forall x : R, x <= 0 -> chi_cdf gamP d x = Val (Fin 0) /\ chi_logcdf gamP d x = Val NInf).
Proof. exact ProofsCdf2.chisq_cdf. Qed.

Theorem mvt_formula :
  forall (lgam : R -> R) (nu : R) (mu : list R) (sinv : list (list R)) (sdet : R) (x : list R), 0 < nu -> 0 < sdet -> 0 <= qform sinv x mu -> vt_logpdf (vt_new lgam nu mu sinv sdet) x = Val (Fin (ln (mvt_pdf lgam nu (length mu) sdet (qform sinv x mu)))).
Proof. exact ProofsVec.mvt_formula. Qed.

Theorem mvn_formula :
  forall (mu : list R) (sinv : list (list R)) (sdet : R) (x : list R), 0 < sdet -> length x = length mu -> exists d : vn_d, vn_new mu sinv sdet = Some d /\ vn_logpdf d x = Val (Fin (ln (mvn_pdf (length mu) sdet (qform sinv x mu)))).
Proof. exact ProofsVec.mvn_formula. Qed.

Theorem mvn_ctor :
  forall (mu : list R) (sinv : list (list R)) (sdet : R), vn_new mu sinv sdet = None <-> sdet = 0.
Proof. exact ProofsVec.mvn_ctor. Qed.

Theorem mvn_dim_guard :
  forall (d : vn_d) (x : list R), length x <> length (vn_mu d) -> vn_logpdf d x = ErrDim.
Proof. exact ProofsVec.mvn_dim_guard. Qed.

Theorem mvn_scalar_consistency :
  forall m s x : R, 0 < s -> exists (dv : vn_d) (ds : normal_d), vn_new [m] [[/ (s * s)]] (s * s) = Some dv /\ normal_new m s = Some ds /\ vn_logpdf dv [x] = normal_logpdf ds x.
Proof. exact ProofsVec.mvn_scalar_consistency. Qed.

Theorem mvt_scalar_consistency :
  forall (lgam : R -> R) (nu m s x : R), 0 < nu -> 0 < s -> vt_logpdf (vt_new lgam nu [m] [[/ (s * s)]] (s * s)) [x] = Val (Fin (ln (student_pdf lgam nu m s x))).
Proof. exact ProofsVec.mvt_scalar_consistency. Qed.

Theorem iid_formula :
  forall (inner : R -> res) (g : R -> R) (xs : list R), (forall x : R, In x xs -> inner x = Val (Fin (g x))) -> iid_logpdf inner (Z.of_nat (length xs)) xs = Val (Fin (fold_left (fun a x : R => a + g x) xs 0)).
Proof. exact ProofsVec.iid_formula. Qed.

Theorem iid_dim_guard :
  forall (inner : R -> res) (n : Z) (xs : list R), n <> (-1)%Z -> Z.of_nat (length xs) <> n -> iid_logpdf inner n xs = ErrDim.
Proof. exact ProofsVec.iid_dim_guard. Qed.

Theorem iid_anydim_quirk :
  forall (inner : R -> res) (xs : list R), iid_logpdf inner (-1) xs = Val (Fin 0).
Proof. exact ProofsVec.iid_anydim_quirk. Qed.

Theorem id_formula :
  forall (inners : list (R -> res)) (xs gs : list R), length xs = length inners -> Forall2 (fun (p : (R -> res) * R) (v : R) => fst p (snd p) = Val (Fin v)) (combine inners xs) gs -> id_logpdf inners xs = Val (Fin (fold_left Rplus gs 0)).
Proof. exact ProofsVec.id_formula. Qed.

Theorem laplace_limits :
  forall mu sigma : R, laplace_valid mu sigma -> is_lim (laplace_cdf_spec mu sigma) m_infty 0 /\ is_lim (laplace_cdf_spec mu sigma) p_infty 1.
Proof. exact ProofsNorm2.laplace_limits. Qed.

Theorem pareto_cdf_derive :
  forall lambda kappa x : R, 0 < lambda -> 0 < x -> is_derive (pareto_cdf_spec lambda kappa) x (pareto_pdf lambda kappa x).
Proof. exact ProofsNorm2.pareto_cdf_derive. Qed.

Theorem pareto_norm :
  forall lambda kappa : R, pareto_valid lambda kappa -> (forall b : R, lambda <= b -> is_RInt (pareto_pdf lambda kappa) lambda b (pareto_cdf_spec lambda kappa b)) /\ is_lim (pareto_cdf_spec lambda kappa) p_infty 1.
Proof. exact ProofsNorm2.pareto_norm. Qed.

Theorem powerlaw_cdf_derive :
  forall alpha xmin x : R, 0 < xmin -> 0 < x -> is_derive (powerlaw_cdf_spec alpha xmin) x (powerlaw_pdf alpha xmin x).
Proof. exact ProofsNorm2.powerlaw_cdf_derive. Qed.

Theorem powerlaw_norm :
  forall alpha xmin : R, powerlaw_valid alpha xmin -> (forall b : R, xmin <= b -> is_RInt (powerlaw_pdf alpha xmin) xmin b (powerlaw_cdf_spec alpha xmin b)) /\ is_lim (powerlaw_cdf_spec alpha xmin) p_infty 1.
Proof. exact ProofsNorm2.powerlaw_norm. Qed.

Theorem laplace_cdf_regress :
  forall (lgam lerfc : R -> R) (gamP : R -> R -> R), agrees (eval lgam lerfc gamP FLaplace LogCdf [0; 1] [] 0) (OVal (- (6931 / 10000)) (1 / 1000)) /\ agrees (eval lgam lerfc gamP FLaplace Cdf [0; 1] [] 0) (OVal (1 / 2) (1 / 1000)) /\ agrees (eval lgam lerfc gamP FLaplace Cdf [0; 1] [] 1) (OVal (8161 / 10000) (1 / 1000)) /\ agrees (eval lgam lerfc gamP FLaplace Ctor [0; -1] [] 0) OCtorErr.
Proof. exact ProofsRegress.laplace_cdf_regress. Qed.

Theorem powerlaw_cdf_regress :
  forall (lgam lerfc : R -> R) (gamP : R -> R -> R), agrees (eval lgam lerfc gamP FPowerLaw Cdf [3; 1] [] (1 / 2)) (OVal 0 0) /\ agrees (eval lgam lerfc gamP FPowerLaw Cdf [3; 1] [] 2) (OVal (3 / 4) (1 / 1000)) /\ agrees (eval lgam lerfc gamP FPowerLaw Ctor [1 / 2; 1] [] 0) OCtorErr /\ agrees (eval lgam lerfc gamP FPowerLaw Ctor [3; -1] [] 0) OCtorErr.
Proof. exact ProofsRegress.powerlaw_cdf_regress. Qed.

Theorem chisq_regress :
  forall (lgam lerfc : R -> R) (gamP : R -> R -> R), agrees (eval lgam lerfc gamP FChiSquared LogPdf [3] [] (-1)) ONInf /\ (at1 lgam 1 0 -> agrees (eval lgam lerfc gamP FChiSquared LogPdf [2] [] 0) (OVal (- (6931 / 10000)) (1 / 1000))) /\ agrees (eval lgam lerfc gamP FChiSquared Ctor [-3] [] 0) OCtorErr /\ agrees (eval lgam lerfc gamP FChiSquared Cdf [3] [] (-1)) (OVal 0 0) /\ agrees (eval lgam lerfc gamP FGamma Cdf [2; 3] [] (-1)) (OVal 0 0) /\ agrees (eval lgam lerfc gamP FGamma LogCdf [2; 3] [] 0) ONInf.
Proof. exact ProofsRegress.chisq_regress. Qed.

Theorem categorical_regress :
  forall (lgam lerfc : R -> R) (gamP : R -> R -> R), agrees (eval lgam lerfc gamP FCategorical LogPdf [1 / 4; 1 / 4; 1 / 2] [] (-1 + 1 / 2)) OErrInt /\ agrees (eval lgam lerfc gamP FCategorical LogPdf [1 / 4; 1 / 4; 1 / 2] [] 3) ONInf /\ agrees (eval lgam lerfc gamP FCategorical Cdf [1] [] 0) (OVal 1 (1 / 1000)) /\ agrees (eval lgam lerfc gamP FCategorical Cdf [1 / 4; 1 / 4; 1 / 2] [] (-2)) (OVal 0 0) /\ agrees (eval lgam lerfc gamP FCategorical Cdf [1 / 4; 1 / 4; 1 / 2] [] 7) (OVal 1 (1 / 1000)).
Proof. exact ProofsRegress.categorical_regress. Qed.

Theorem boundary_regress :
  forall (lgam lerfc : R -> R) (gamP : R -> R -> R), (at1 lgam 1 0 -> at1 lgam 6 (ln 120) -> agrees (eval lgam lerfc gamP FBinomial LogPdf [0] [5%Z] 0) (OVal 0 (1 / 1000))) /\ agrees (eval lgam lerfc gamP FBinomial LogPdf [0] [5%Z] 2) ONInf /\ agrees (eval lgam lerfc gamP FGeometric LogPdf [1] [] 0) (OVal 0 (1 / 1000)) /\ agrees (eval lgam lerfc gamP FGeometric LogPdf [1] [] 3) ONInf.
Proof. exact ProofsRegress.boundary_regress. Qed.

Theorem upper_endpoint_regress :
  forall (lgam lerfc : R -> R) (gamP : R -> R -> R), agrees (eval lgam lerfc gamP FGPareto Cdf [2; 3 / 4; -1] [] 5) (OVal 1 (1 / 1000)) /\ agrees (eval lgam lerfc gamP FGPareto Cdf [2; 3 / 4; -1] [] (5 / 2)) (OVal (2 / 3) (1 / 1000)) /\ agrees (eval lgam lerfc gamP FGev Cdf [0; 1; -1] [] 2) (OVal 1 (1 / 1000)) /\ agrees (eval lgam lerfc gamP FGev Cdf [0; 1; -1] [] (1 / 2)) (OVal (6065 / 10000) (1 / 1000)).
Proof. exact ProofsRegress.upper_endpoint_regress. Qed.

From Coq Require Import Lra.

(* ---- cache coherence over mutator histories (SModel.v / ProofsHist.v) ----
   For every family: start from ANY accepted constructor call, apply ANY sequence of the exported mutators
   (SetParameters p | ImportConfig p | Clone | SetParameters(GetParameters()) | ImportConfig(ExportConfig()) | SetN n,
   with arbitrary, changing values; refused updates included).  The state reached is exactly the state a
   fresh constructor builds from the parameters the object then reports (twin new get d := new (get d) = Some d),
   cached constants included: every method of the object is then the method of that fresh twin.  No history
   dereferences a nil clone (the False in hres_inv). *)
Theorem normal_history_coherent :
  forall (p : list R) d0 (ops : list hop), normal_newv p = Some d0 -> hres_inv False (twin (normal_newv) normal_get) (hrun (normal_ops) d0 ops).
Proof. exact ProofsHist.normal_hist. Qed.

Theorem exponential_history_coherent :
  forall (p : list R) d0 (ops : list hop), exp_newv p = Some d0 -> hres_inv False (twin (exp_newv) exp_get) (hrun (exp_ops) d0 ops).
Proof. exact ProofsHist.exp_hist. Qed.

Theorem laplace_history_coherent :
  forall (p : list R) d0 (ops : list hop), lap_newv p = Some d0 -> hres_inv False (twin (lap_newv) lap_get) (hrun (lap_ops) d0 ops).
Proof. exact ProofsHist.lap_hist. Qed.

Theorem pareto_history_coherent :
  forall (p : list R) d0 (ops : list hop), par_newv p = Some d0 -> hres_inv False (twin (par_newv) par_get) (hrun (par_ops) d0 ops).
Proof. exact ProofsHist.par_hist. Qed.

Theorem gpareto_history_coherent :
  forall (p : list R) d0 (ops : list hop), gp_newv p = Some d0 -> hres_inv False (twin (gp_newv) gp_get) (hrun (gp_ops) d0 ops).
Proof. exact ProofsHist.gp_hist. Qed.

Theorem gev_history_coherent :
  forall (p : list R) d0 (ops : list hop), gev_newv p = Some d0 -> hres_inv False (twin (gev_newv) gev_get) (hrun (gev_ops) d0 ops).
Proof. exact ProofsHist.gev_hist. Qed.

Theorem gamma_history_coherent :
  forall (lgam : R -> R) (p : list R) d0 (ops : list hop), gam_newv lgam p = Some d0 -> hres_inv False (twin (gam_newv lgam) gam_get) (hrun (gam_ops lgam) d0 ops).
Proof. intro lgam; exact (ProofsHist.gam_hist lgam). Qed.

Theorem beta_history_coherent :
  forall (lgam : R -> R) (p : list R) d0 (ops : list hop), beta_newv lgam p = Some d0 -> hres_inv False (twin (beta_newv lgam) beta_get) (hrun (beta_ops lgam) d0 ops).
Proof. intro lgam; exact (ProofsHist.beta_hist lgam). Qed.

Theorem cauchy_history_coherent :
  forall (p : list R) d0 (ops : list hop), cau_newv p = Some d0 -> hres_inv False (twin (cau_newv) cau_get) (hrun (cau_ops) d0 ops).
Proof. exact ProofsHist.cau_hist. Qed.

Theorem chisquared_history_coherent :
  forall (lgam : R -> R) (p : list R) d0 (ops : list hop), chi_newv lgam p = Some d0 -> hres_inv False (twin (chi_newv lgam) chi_get) (hrun (chi_ops lgam) d0 ops).
Proof. intro lgam; exact (ProofsHist.chi_hist lgam). Qed.

Theorem gengamma_history_coherent :
  forall (lgam : R -> R) (p : list R) d0 (ops : list hop), gg_newv lgam p = Some d0 -> hres_inv False (twin (gg_newv lgam) gg_get) (hrun (gg_ops lgam) d0 ops).
Proof. intro lgam; exact (ProofsHist.gg_hist lgam). Qed.

Theorem geometric_history_coherent :
  forall (p : list R) d0 (ops : list hop), geo_newv p = Some d0 -> hres_inv False (twin (geo_newv) geo_get) (hrun (geo_ops) d0 ops).
Proof. exact ProofsHist.geo_hist. Qed.

Theorem negbinomial_history_coherent :
  forall (lgam : R -> R) (p : list R) d0 (ops : list hop), nb_newv lgam p = Some d0 -> hres_inv False (twin (nb_newv lgam) nb_get) (hrun (nb_ops lgam) d0 ops).
Proof. intro lgam; exact (ProofsHist.nb_hist lgam). Qed.

Theorem poisson_history_coherent :
  forall (p : list R) d0 (ops : list hop), poi_newv p = Some d0 -> hres_inv False (twin (poi_newv) (fun l => [l])) (hrun (poi_ops) d0 ops).
Proof. exact ProofsHist.poi_hist. Qed.

Theorem powerlaw_history_coherent :
  forall (p : list R) d0 (ops : list hop), pl_newv p = Some d0 -> hres_inv False (twin (pl_newv) pl_get) (hrun (pl_ops) d0 ops).
Proof. exact ProofsHist.pl_hist. Qed.

Theorem delta_history_coherent :
  forall (p : list R) d0 (ops : list hop), delta_newv p = Some d0 -> hres_inv False (twin (delta_newv) (fun X => [X])) (hrun (delta_ops) d0 ops).
Proof. exact ProofsHist.delta_hist. Qed.

(* binomial: the one family with an in-place mutator of a cached constant (SetN: n, np1, z in this order) *)
Theorem binomial_history_coherent :
  forall (lgam : R -> R) (theta : R) (n : Z) d0 (ops : list hop), bin_new lgam theta n = Some d0 ->
  hres_inv False (bin_fresh lgam) (hrun (bin_ops lgam) d0 ops).
Proof. exact ProofsHist.bin_hist. Qed.

(* ... and a coherent binomial state is the fresh state of what it reports (GetParameters()[0] = log theta, GetN() = n) *)
Theorem binomial_fresh_is_twin :
  forall (lgam : R -> R) d, bin_fresh lgam d ->
  forall theta n, 0 <= theta -> i_theta d = elog (Fin theta) -> i_n d = IZR n -> bin_new lgam theta n = Some d.
Proof. exact ProofsHist.bin_fresh_twin. Qed.

Theorem binomial_setn_fresh :
  forall (lgam : R -> R) theta n0 n d, bin_new lgam theta n0 = Some d -> (0 <= n)%Z ->
  exists d', bin_setn lgam d n = HOk d' /\ bin_new lgam theta n = Some d'.
Proof. exact ProofsHist.bin_setn_fresh. Qed.

(* the seeded regression (z.Lgamma(np1) before np1.SetFloat64): n and np1 are right, z is the normaliser of the OLD n *)
Theorem binomial_setn_swapped_refuted :
  forall (lgam : R -> R) theta n0 n d, bin_new lgam theta n0 = Some d -> (0 <= n)%Z ->
  exists d', bin_setn_swapped lgam d n = HOk d' /\ i_n d' = IZR n /\ i_np1 d' = IZR (n + 1) /\
             i_z d' = elgam lgam (Fin (IZR (n0 + 1))).
Proof. exact ProofsHist.bin_setn_swapped_stale. Qed.

Theorem categorical_set_get_clone_identity :
  forall d : list ER, hstep cat_ops d HGetSet = HOk d /\ hstep cat_ops d HClone = HOk d.
Proof. exact ProofsHist.cat_roundtrip. Qed.

Example history_ex : exists d0, normal_newv [1; 2] = Some d0 /\
  exists d, hrun normal_ops d0 [HSet [3; 4]; HSet [0; -1]; HClone; HGetSet; HImp [5; 6]; HExpImp] = HOk d /\ normal_get d = [5; 6].
Proof.
  unfold normal_newv, normal_new, P. cbn [nth]. rewrite (ProofsER.Rleb_f 2 0) by lra. eexists. split; [reflexivity|].
  cbv -[Rleb IZR].
  repeat (first [ rewrite (ProofsER.Rleb_f 4 0) by lra | rewrite (ProofsER.Rleb_t (-1) 0) by lra
                | rewrite (ProofsER.Rleb_f 6 0) by lra ]; cbv -[Rleb IZR]).
  eexists. split; reflexivity.
Qed.

(* the hypotheses are satisfiable by non-trivial instances *)
Example normal_valid_ex : normal_valid (1 / 2) 2 /\ gamma_valid (5 / 2) 3 /\ gpareto_valid 0 1 (-1 / 2) /\
  gpareto_support 0 1 (-1 / 2) 1 /\ gev_support 0 1 (1 / 2) 3 /\ powerlaw_valid 3 1 /\ beta_valid (1 / 2) 2.
Proof.
  unfold normal_valid, gamma_valid, gpareto_valid, gpareto_support, gev_support, powerlaw_valid, beta_valid.
  repeat split; try lra.
Qed.

(* ---- round 4: mixtures (generic.Mixture + scalar / vector wrappers), multivariate skew normal, inverse Wishart and
   normal-inverse-Wishart.  [rep e s]: e is ln s in the extended reals (-Inf for s = 0).  iw_formula / niw_formula
   state what the code computes (element-wise product under the trace: F-C14-IW-TRACE); iw_trace_diagonal /
   iw_formula_refuted say when that is, and that it is not in general, the textbook trace. *)
From ADV Require Import C14.MixModel C14.SkewModel C14.IWModel.
From ADV Require C14.ProofsMix C14.ProofsSkew C14.ProofsIW.
Import ProofsMix (rep, sumR, dotp, mixture_pdf, sel).
Import ProofsSkew (Phi, skew_pdf, skew1_pdf).
Import ProofsIW (iw_pdf, iw_valid, diagonal).

Theorem mixture_formula :
  forall (w : list R) (cs : list ER) (ps : list R), List.Forall (fun t : R => 0 <= t) w -> 0 < sumR w -> List.Forall2 rep cs ps -> exists (lw : list ER) (e : ER), mix_new_wrapped w (length w) = Some lw /\ mix_logpdf lw (map Val cs) = Val e /\ rep e (mixture_pdf w ps).
Proof. exact ProofsMix.mixture_formula. Qed.

Theorem mixture_support :
  forall w : list R, List.Forall (fun t : R => 0 <= t) w -> 0 < sumR w -> exists lw : list ER, mix_new_wrapped w (length w) = Some lw /\ mix_logpdf lw (map Val (repeat NInf (length w))) = Val NInf.
Proof. exact ProofsMix.mixture_support. Qed.

Theorem mixture_posterior :
  forall (w : list R) (cs : list ER) (ps : list R) (states : list Z), List.Forall (fun t : R => 0 <= t) w -> 0 < sumR w -> List.Forall2 rep cs ps -> length cs = length w -> List.Forall (fun j : Z => (0 <= j < Z.of_nat (length w))%Z) states -> exists lw : list ER, mix_new_wrapped w (length w) = Some lw /\ (0 < dotp w ps -> exists e : ER, mix_posterior lw (map Val cs) states = Val e /\ rep e (sel w ps states / dotp w ps)) /\ (dotp w ps = 0 -> mix_posterior lw (map Val cs) states = Val NaN).
Proof. exact ProofsMix.mixture_posterior. Qed.

Theorem mix_ctor :
  forall w : list R, mix_new w = None <-> List.Exists (fun t : R => t < 0) w.
Proof. exact ProofsMix.mix_ctor. Qed.

Theorem mix_weights_normalised :
  forall w : list R, 0 < sumR w -> sumR (map (fun t : R => t / sumR w) w) = 1.
Proof. exact ProofsMix.mix_weights_normalised. Qed.

Theorem mix_all_zero_quirk :
  mix_new [0; 0] = Some [NaN; NaN].
Proof. exact ProofsMix.mix_all_zero_quirk. Qed.

Theorem mix_states_oob :
  forall (lw : list ER) (comps : list res) (f : res -> ER -> res -> res) (j : Z), (j < 0)%Z \/ (Z.of_nat (length lw) <= j)%Z -> mix_states lw comps [j] f = ErrDim.
Proof. exact ProofsMix.mix_states_oob. Qed.

Theorem skew_formula :
  forall lerfc erfc : R -> R, (forall y : R, 0 < erfc y) -> (forall y : R, lerfc y = ln (erfc y)) -> forall (xi : list R) (omega : list (list R)) (alpha scale : list R) (kinv : list (list R)) (kdet : R) (x : list R), 0 < kdet -> length omega = length xi -> length alpha = length xi -> length scale = length xi -> length (nth 0 omega []) = length xi -> length x = length xi -> List.Forall (fun s : R => s <> 0) scale -> exists d : sk_d, sk_new xi omega alpha scale kinv kdet = Some d /\ sk_logpdf lerfc d x = Val (Fin (ln (skew_pdf erfc (length xi) kdet (qform kinv x xi) (dot alpha (sk_z x xi scale))))).
Proof. exact ProofsSkew.skew_formula. Qed.

Theorem skew_scalar_consistency :
  forall lerfc erfc : R -> R, (forall y : R, 0 < erfc y) -> (forall y : R, lerfc y = ln (erfc y)) -> forall xi w a s x : R, 0 < w -> s <> 0 -> sk_kappa [[w]] [s] = [[s * s * w]] /\ (exists d : sk_d, sk_new [xi] [[w]] [a] [s] [[/ (s * s * w)]] (s * s * w) = Some d /\ sk_logpdf lerfc d [x] = Val (Fin (ln (skew1_pdf erfc xi (sqrt (s * s * w)) (a * ((x - xi) / s)) x)))).
Proof. exact ProofsSkew.skew_scalar_consistency. Qed.

Theorem skew_ctor_dims :
  forall (xi : list R) (omega : list (list R)) (alpha scale : list R) (kinv : list (list R)) (kdet : R), length omega <> length xi \/ length omega <> length alpha \/ length omega <> length scale \/ length omega <> length (nth 0 omega []) -> sk_new xi omega alpha scale kinv kdet = None.
Proof. exact ProofsSkew.skew_ctor_dims. Qed.

Theorem skew_ctor_singular :
  forall (xi : list R) (omega : list (list R)) (alpha scale : list R) (kinv : list (list R)), sk_new xi omega alpha scale kinv 0 = None.
Proof. exact ProofsSkew.skew_ctor_singular. Qed.

Theorem skew_dim_guard :
  forall (lerfc : R -> R) (d : sk_d) (x : list R), (length (vn_mu (sk_n1 d)) < length x)%nat -> List.Forall (fun s : R => s <> 0) (sk_scale d) -> sk_logpdf lerfc d x = ErrDim.
Proof. exact ProofsSkew.skew_dim_guard. Qed.

Theorem iw_formula :
  forall (mlgam : nat -> R -> R) (nu : R) (s : list (list R)) (sdet : R) (xinv : list (list R)) (xdet : R), length (nth 0 s []) = length s -> 0 < sdet -> 0 < xdet -> exists d : iw_t, iw_new mlgam nu s sdet = Some d /\ iw_logpdf d xinv xdet = Val (Fin (ln (iw_pdf mlgam nu (length s) sdet xdet (mtrace_had s xinv)))).
Proof. exact ProofsIW.iw_formula. Qed.

Theorem iw_trace_diagonal :
  forall s xinv : list (list R), diagonal s -> (forall i : nat, (length (nth i s []) <= length xinv)%nat) -> mtrace_had s xinv = mtrace_mul s xinv.
Proof. exact ProofsIW.iw_trace_diagonal. Qed.

Theorem iw_formula_refuted :
  forall mlgam : nat -> R -> R, exists d : iw_t, iw_new mlgam (3 / 2) [[1; -1]; [-1; 2]] 1 = Some d /\ iw_logpdf d [[5; - (1 / 2)]; [- (1 / 2); 1 / 4]] 1 = Val (Fin (ln (iw_pdf mlgam (3 / 2) 2 1 1 (mtrace_mul [[1; -1]; [-1; 2]] [[5; - (1 / 2)]; [- (1 / 2); 1 / 4]])) + 1 / 2)).
Proof. exact ProofsIW.iw_formula_refuted. Qed.

Theorem iw_ctor :
  forall (mlgam : nat -> R -> R) (nu : R) (s : list (list R)) (sdet : R), iw_new mlgam nu s sdet = None <-> length s <> length (nth 0 s []) \/ sdet <= 0.
Proof. exact ProofsIW.iw_ctor. Qed.

Theorem iw_ctor_accepts_small_nu :
  forall mlgam : nat -> R -> R, exists d : iw_t, iw_new mlgam (1 / 2) [[1; 0]; [0; 1]] 1 = Some d /\ ~ iw_valid (1 / 2) 2 1.
Proof. exact ProofsIW.iw_ctor_accepts_small_nu. Qed.

Theorem iw_not_pd :
  forall (d : iw_t) (xinv : list (list R)) (xdet : R), xdet <= 0 -> iw_logpdf d xinv xdet = ErrDim.
Proof. exact ProofsIW.iw_not_pd. Qed.

Theorem niw_formula :
  forall (mlgam : nat -> R -> R) (kappa nu : R) (mu : list R) (lambda : list (list R)) (ldet : R) (x : list R) (pinv : list (list R)) (pdet : R) (xinv : list (list R)) (xdet : R), length (nth 0 lambda []) = length lambda -> length mu = length lambda -> length x = length mu -> 0 < ldet -> 0 < pdet -> 0 < xdet -> exists d : niw_t, niw_new mlgam kappa nu mu lambda ldet = Some d /\ niw_logpdf d x pinv pdet xinv xdet = Val (Fin (ln (mvn_pdf (length mu) pdet (qform pinv x mu) * iw_pdf mlgam nu (length lambda) ldet xdet (mtrace_had lambda xinv)))).
Proof. exact ProofsIW.niw_formula. Qed.

Theorem niw_ctor_dims :
  forall (mlgam : nat -> R -> R) (kappa nu : R) (mu : list R) (lambda : list (list R)) (ldet : R), length lambda <> length mu -> niw_new mlgam kappa nu mu lambda ldet = None.
Proof. exact ProofsIW.niw_ctor_dims. Qed.

Theorem niw_clone_panics :
  forall (d : niw_t) (x : list R) (pinv : list (list R)) (pdet : R) (xinv : list (list R)) (xdet : R), niw_clone_logpdf d x pinv pdet xinv xdet = Panic.
Proof. exact ProofsIW.niw_clone_panics. Qed.

Example mixture_formula_instance :
  exists (lw : list ER) (e : ER), mix_new_wrapped [1; 3] 2 = Some lw /\ mix_logpdf lw (map Val [Fin (ln (1 / 2)); NInf]) = Val e /\ rep e (mixture_pdf [1; 3] [1 / 2; 0]).
Proof.
  apply (ProofsMix.mixture_formula [1; 3] [Fin (ln (1 / 2)); NInf] [1 / 2; 0]).
  - repeat constructor; Lra.lra.
  - cbn; Lra.lra.
  - constructor; [left; split; [Lra.lra|reflexivity]|constructor; [right; split; reflexivity|constructor]].
Qed.

(* categorical LogCdf / Cdf = partial sums of the weights, for every number of categories and every real x *)
From ADV Require C14.ProofsCdf3.
Import ProofsCdf3 (psum_from).
Theorem categorical_cdf_partial_sums :
  forall (theta : list R) (d : list ER) (x : R), cat_new theta = Some d -> exists e : ER, cat_logcdf d x = Val e /\ rep e (psum_from 0 theta x) /\ cat_cdf d x = Val (Fin (psum_from 0 theta x)).
Proof. exact ProofsCdf3.categorical_cdf_partial_sums. Qed.

Theorem categorical_cdf_monotone :
  forall (theta : list R) (k0 : nat) (x y : R), List.Forall (fun t : R => 0 <= t) theta -> x <= y -> psum_from k0 theta x <= psum_from k0 theta y.
Proof. exact ProofsCdf3.psum_from_mono. Qed.

(* ---- round 5: parameter layout of mixtures / products (MixParam.v).  T = entries of a parameter vector,
   C = any component type with its GetParameters / SetParameters; K = length cs and the per-component
   parameter counts length (get c) are arbitrary. ---- *)
From ADV Require C14.MixParam C14.ProofsMixParam C14.CorrP.
Import MixParam.
Open Scope nat_scope.

(* the component loop of Mixture.SetParameters hands component i exactly the i-th window, whatever K and the window lengths *)
Theorem mixture_loop_windows :
  forall (T C : Type) (get : C -> list T) (set : C -> list T -> sres C) (cs : list C) (qs : list (list T)) (extra : list T), Forall2 (fun c q => length (get c) = length q) cs qs -> mix_loop T C get set cs (length cs) (concat qs ++ extra) = seq_set T C set cs qs.
Proof. exact ProofsMixParam.mix_loop_windows. Qed.

(* Mixture.SetParameters(log-weights ++ window_0 ++ ... ++ window_{K-1} ++ extra) *)
Theorem mixture_set_windows :
  forall (T C : Type) (get : C -> list T) (set : C -> list T -> sres C) (lw : list T) (cs : list C) (w : list T) (qs : list (list T)) (extra : list T), length w = length lw -> length lw = length cs -> Forall2 (fun c q => length (get c) = length q) cs qs -> mix_set T C get set lw cs (w ++ concat qs ++ extra) = (if 0 <? length (concat qs ++ extra) then smap (fun cs' : list C => (w, cs')) (seq_set T C set cs qs) else SOk (w, cs)).
Proof. exact ProofsMixParam.mix_set_windows. Qed.

Theorem mixture_get_layout :
  forall (T C : Type) (get : C -> list T) (lw : list T) (cs : list C), length lw = length cs -> mix_get T C get lw cs = lw ++ concat (map get cs).
Proof. exact ProofsMixParam.mix_get_layout. Qed.

(* all windows accepted: component i becomes d_i *)
Theorem mixture_windows_all_accepted :
  forall (T C : Type) (get : C -> list T) (set : C -> list T -> sres C) (cs ds : list C), Forall2 (fun c d : C => set c (get d) = SOk d) cs ds -> seq_set T C set cs (map get ds) = SOk ds.
Proof. exact ProofsMixParam.seq_set_ok. Qed.

(* first refused window at position i: an error, the components before i hold their new parameters, i and the later ones are untouched *)
Theorem mixture_first_refused_window :
  forall (T C : Type) (get : C -> list T) (set : C -> list T -> sres C) (cs1 ds1 : list C) (c c' : C) (cs2 : list C) (q : list T) (qs2 : list (list T)), Forall2 (fun c0 d : C => set c0 (get d) = SOk d) cs1 ds1 -> set c q = SErr c' -> seq_set T C set (cs1 ++ c :: cs2) (map get ds1 ++ q :: qs2) = SErr (ds1 ++ c' :: cs2).
Proof. exact ProofsMixParam.seq_set_fail. Qed.

(* a cursor that runs out of entries panics (Slice beyond the length) *)
Theorem mixture_short_vector_panics :
  forall (T C : Type) (get : C -> list T) (set : C -> list T -> sres C) (c : C) (tl : list C) (k : nat) (rest : list T), length rest < length (get c) -> mix_loop T C get set (c :: tl) (S k) rest = SPanic (c :: tl).
Proof. exact ProofsMixParam.mix_loop_short. Qed.

(* ScalarId / VectorId: same windows; entries left over are an error AFTER every component has been updated *)
Theorem product_set_windows :
  forall (T C : Type) (get : C -> list T) (set : C -> list T -> sres C) (cs : list C) (qs : list (list T)) (extra : list T), Forall2 (fun c q => length (get c) = length q) cs qs -> prod_loop T C get set cs (concat qs ++ extra) = match seq_set T C set cs qs with SOk cs' => if 0 <? length extra then SErr cs' else SOk cs' | SErr c => SErr c | SPanic c => SPanic c end.
Proof. exact ProofsMixParam.prod_loop_windows. Qed.

(* finite nestings of leaves, i.i.d. wrappers, products and mixtures: SetParameters(GetParameters() of ANY well-formed
   distribution u of the same shape) makes the object equal to u — every leaf at every depth receives its own window *)
Theorem composite_set_window :
  forall (T F : Type) (arity : F -> nat) (guard : F -> list T -> bool), (forall f : F, 0 < arity f) -> forall t u : ptree T F, same_shape T F t u -> tree_wf T F arity guard u -> tree_set T F arity guard t (tree_get T F u) = SOk u.
Proof. exact ProofsMixParam.tree_set_window. Qed.

Theorem composite_roundtrip :
  forall (T F : Type) (arity : F -> nat) (guard : F -> list T -> bool), (forall f : F, 0 < arity f) -> forall t : ptree T F, tree_wf T F arity guard t -> tree_set T F arity guard t (tree_get T F t) = SOk t.
Proof. exact ProofsMixParam.tree_roundtrip. Qed.

(* ... so every observable of the state, the log-density in particular, is what it was *)
Theorem composite_roundtrip_observable :
  forall (T F : Type) (arity : F -> nat) (guard : F -> list T -> bool), (forall f : F, 0 < arity f) -> forall (A : Type) (obs : ptree T F -> A) (t : ptree T F), tree_wf T F arity guard t -> obs (sstate (tree_set T F arity guard t (tree_get T F t))) = obs t.
Proof. exact ProofsMixParam.tree_roundtrip_observable. Qed.

(* the hypotheses are satisfiable: Laplace + Exponential + Gamma + a nested 2 x GEV mixture (K = 4, windows 2, 1, 2, 8) *)
Example composite_roundtrip_instance :
  let t := PMix [CorrP.qf (-1) 1; CorrP.QNInf; CorrP.qf (-3) 2; CorrP.qf (-2) 1]
                [PLeaf CorrP.LLaplace [CorrP.qf 0 1; CorrP.qf 1 2]; PLeaf CorrP.LExponential [CorrP.qf 3 1];
                 PIid (PLeaf CorrP.LGamma [CorrP.qf 2 1; CorrP.qf 1 4]);
                 PMix [CorrP.qf (-1) 1; CorrP.qf (-1) 1] [PLeaf CorrP.LGev [CorrP.qf 0 1; CorrP.qf 1 1; CorrP.qf 1 2]; PLeaf CorrP.LGev [CorrP.qf 1 1; CorrP.qf 2 1; CorrP.qf (-1) 2]]] in
  tree_wf CorrP.qx CorrP.lfam CorrP.l_arity CorrP.l_guard t /\ length (tree_get _ _ t) = 17%nat /\
  tree_set CorrP.qx CorrP.lfam CorrP.l_arity CorrP.l_guard t (tree_get _ _ t) = SOk t.
Proof.
  intro t. assert (H : tree_wf CorrP.qx CorrP.lfam CorrP.l_arity CorrP.l_guard t) by (cbv; intuition congruence).
  split; [exact H|split; [reflexivity|]]. exact (ProofsMixParam.tree_roundtrip _ _ _ _ CorrP.l_arity_pos t H).
Qed.

(* GET AFTER SET, any vector: a component "reports its window" if, when it accepts a window, its GetParameters() is that window *)
From ADV Require C14.ProofsMixParam2.
Theorem mixture_get_after_set :
  forall (T C : Type) (get : C -> list T) (set : C -> list T -> sres C) (lw : list T) (cs : list C) (p w' : list T) (cs' : list C), List.Forall (fun c => forall (q : list T) (c' : C), length q = length (get c) -> set c q = SOk c' -> get c' = q) cs -> length lw = length cs -> length (mix_get T C get lw cs) <= length p -> mix_set T C get set lw cs p = SOk (w', cs') -> mix_get T C get w' cs' = firstn (length (mix_get T C get lw cs)) p /\ length w' = length lw /\ length cs' = length cs.
Proof. exact ProofsMixParam2.mix_set_get. Qed.

Theorem product_get_after_set :
  forall (T C : Type) (get : C -> list T) (set : C -> list T -> sres C) (cs : list C) (rest : list T) (cs' : list C), List.Forall (fun c => forall (q : list T) (c' : C), length q = length (get c) -> set c q = SOk c' -> get c' = q) cs -> prod_loop T C get set cs rest = SOk cs' -> flat_map get cs' = rest /\ length (flat_map get cs) = length rest /\ length cs' = length cs.
Proof. exact ProofsMixParam2.prod_loop_get. Qed.

(* finite nestings: if SetParameters(p) returns nil then GetParameters() is the prefix of p — no entry lost, duplicated or moved at any depth *)
Theorem composite_get_after_set :
  forall (T F : Type) (arity : F -> nat) (guard : F -> list T -> bool) (t : ptree T F), tree_ok T F arity t -> forall (p : list T) (t' : ptree T F), length (tree_get T F t) <= length p -> tree_set T F arity guard t p = SOk t' -> tree_get T F t' = firstn (length (tree_get T F t)) p /\ tree_ok T F arity t'.
Proof. exact ProofsMixParam2.tree_get_after_set. Qed.

(* ---- round 6: the Pdf METHODS (`if err := LogPdf(r, x); err != nil { return err }; r.Exp(r)`: Model.X_pdfm / pdf_of).
   Pdf returns the textbook density / mass itself on the support and exactly 0 outside it (never negative, never NaN);
   an error of LogPdf is passed on.  The shape of every Pdf / Cdf method of the three packages is re-read from the
   source on every run (CorrS.model_shapes against the generated gen_shapes); exp_wrappers_sound: the dispatcher
   obeys that table. ---- *)
Close Scope nat_scope.
Open Scope R_scope.
From ADV Require Import C14.CorrS.
From ADV Require C14.ProofsPdf.
Import ProofsPdf (nonneg_res).

Theorem pdf_never_negative :
  forall r : res, nonneg_res (pdf_of r).
Proof. exact ProofsPdf.pdf_of_nonneg. Qed.

Theorem pdf_passes_errors_on :
  forall r : res, (forall v : ER, r <> Val v) -> pdf_of r = r.
Proof. exact ProofsPdf.pdf_of_err. Qed.

Theorem exp_wrappers_sound :
  forall (lgam lerfc : R -> R) (gamP : R -> R -> R) (f : fam) (g m : fn), exp_wrapper_of f g m -> forall (ps : list R) (zs : list Z) (x : R), eval lgam lerfc gamP f g ps zs x = pdf_of (eval lgam lerfc gamP f m ps zs x).
Proof. exact ProofsPdf.exp_wrappers_sound. Qed.

Theorem exp_wrappers_cover_pdf :
  forall f : fam, f <> FNormal -> exp_wrapper_of f Pdf LogPdf.
Proof. exact ProofsPdf.exp_wrappers_cover. Qed.

Theorem exp_wrappers_cover_cdf :
  forall f : fam, In f [FNormal; FExponential; FLaplace; FPareto; FGPareto; FGev; FCategorical; FPowerLaw] -> exp_wrapper_of f Cdf LogCdf.
Proof. exact ProofsPdf.exp_wrappers_cdf. Qed.

Theorem exponential_density :
  forall lambda : R, exponential_valid lambda -> exists d : exp_d, exp_new lambda = Some d /\ (forall x : R, 0 <= x -> exp_pdfm d x = Val (Fin (exponential_pdf lambda x))) /\ (forall x : R, x < 0 -> exp_pdfm d x = Val (Fin 0)).
Proof. exact ProofsPdf.exponential_density. Qed.

Theorem laplace_density :
  forall mu sigma : R, laplace_valid mu sigma -> exists d : lap_d, lap_new mu sigma = Some d /\ (forall x : R, lap_pdfm d x = Val (Fin (laplace_pdf mu sigma x))).
Proof. exact ProofsPdf.laplace_density. Qed.

Theorem pareto_density :
  forall lambda kappa : R, pareto_valid lambda kappa -> exists d : par_d, par_new lambda kappa = Some d /\ (forall x : R, lambda <= x -> par_pdfm d x = Val (Fin (pareto_pdf lambda kappa x))) /\ (forall x : R, x < lambda -> par_pdfm d x = Val (Fin 0)).
Proof. exact ProofsPdf.pareto_density. Qed.

Theorem gpareto_density :
  forall mu sigma xi : R, gpareto_valid mu sigma xi -> exists d : gp_d, gp_new mu sigma xi = Some d /\ (forall x : R, mu <= x -> (xi < 0 -> x < mu - sigma / xi) -> gp_pdfm d x = Val (Fin (gpareto_pdf mu sigma xi x))) /\ (forall x : R, ~ gpareto_support mu sigma xi x -> gp_pdfm d x = Val (Fin 0)).
Proof. exact ProofsPdf.gpareto_density. Qed.

Theorem gev_density :
  forall mu sigma xi : R, gev_valid mu sigma xi -> exists d : gev_d, gev_new mu sigma xi = Some d /\ (forall x : R, gev_support mu sigma xi x -> gev_pdfm d x = Val (Fin (gev_pdf mu sigma xi x))) /\ (forall x : R, ~ gev_support mu sigma xi x -> gev_pdfm d x = Val (Fin 0)).
Proof. exact ProofsPdf.gev_density. Qed.

Theorem cauchy_density :
  forall mu sigma : R, cauchy_valid mu sigma -> exists d : cau_d, cau_new mu sigma = Some d /\ (forall x : R, cau_pdfm d x = Val (Fin (cauchy_pdf mu sigma x))).
Proof. exact ProofsPdf.cauchy_density. Qed.

Theorem powerlaw_density :
  forall alpha xmin : R, powerlaw_valid alpha xmin -> exists d : pl_d, pl_new alpha xmin = Some d /\ (forall x : R, xmin <= x -> pl_pdfm d x = Val (Fin (powerlaw_pdf alpha xmin x))) /\ (forall x : R, x < xmin -> pl_pdfm d x = Val (Fin 0)).
Proof. exact ProofsPdf.powerlaw_density. Qed.

Theorem gamma_density :
  forall (lgam : R -> R) (alpha beta : R), gamma_valid alpha beta -> exists d : gam_d, gam_new lgam alpha beta = Some d /\ (forall x : R, 0 < x -> gam_pdfm d x = Val (Fin (gamma_pdf lgam alpha beta x))) /\ (forall x : R, x <= 0 -> gam_pdfm d x = Val (Fin 0)).
Proof. exact ProofsPdf.gamma_density. Qed.

Theorem gengamma_density :
  forall (lgam : R -> R) (a d p : R), gengamma_valid a d p -> exists g : gg_d, gg_new lgam a d p = Some g /\ (forall x : R, 0 < x -> gg_pdfm g x = Val (Fin (gengamma_pdf lgam a d p x))) /\ (forall x : R, x <= 0 -> gg_pdfm g x = Val (Fin 0)).
Proof. exact ProofsPdf.gengamma_density. Qed.

Theorem chisq_density :
  forall (lgam : R -> R) (k : R), chisq_valid k -> exists d : chi_d, chi_new lgam k = Some d /\ (forall x : R, 0 < x -> chi_pdfm d x = Val (Fin (chisq_pdf lgam k x))) /\ (forall x : R, x < 0 -> chi_pdfm d x = Val (Fin 0)) /\ (2 < k -> chi_pdfm d 0 = Val (Fin 0)) /\ (k = 2 -> chi_pdfm d 0 = Val (Fin (/ (2 * Gam lgam 1)))) /\ (k < 2 -> chi_pdfm d 0 = Val PInf).
Proof. exact ProofsPdf.chisq_density. Qed.

Theorem beta_density :
  forall (lgam : R -> R) (a b : R), beta_valid a b -> exists d : beta_d, beta_new lgam a b false = Some d /\ (forall x : R, 0 < x < 1 -> beta_pdfm d x = Val (Fin (beta_pdf lgam a b x))) /\ (forall x : R, x < 0 \/ 1 < x -> beta_pdfm d x = Val (Fin 0)).
Proof. exact ProofsPdf.beta_density. Qed.

Theorem beta_logscale_density :
  forall (lgam : R -> R) (a b : R), beta_valid a b -> exists d : beta_d, beta_new lgam a b true = Some d /\ (forall x : R, x < 0 -> beta_pdfm d x = Val (Fin (beta_pdf lgam a b (exp x)))) /\ (forall x : R, 0 < x -> beta_pdfm d x = Val (Fin 0)).
Proof. exact ProofsPdf.beta_logscale_density. Qed.

Theorem geometric_mass :
  forall p : R, 0 < p < 1 -> exists d : geo_d, geo_new p = Some d /\ (forall k : Z, (0 <= k)%Z -> geo_pdfm d (IZR k) = Val (Fin (geometric_pmf p k))) /\ (forall k : Z, (k < 0)%Z -> geo_pdfm d (IZR k) = Val (Fin 0)) /\ (forall x : R, is_intb x = false -> geo_pdfm d x = ErrInt).
Proof. exact ProofsPdf.geometric_mass. Qed.

Theorem poisson_mass :
  forall (lgam : R -> R) (lambda : R), poisson_valid lambda -> exists d : R, poi_new lambda = Some d /\ (forall k : Z, (0 <= k)%Z -> poi_pdfm lgam d (IZR k) = Val (Fin (poisson_pmf lgam lambda k))) /\ (forall k : Z, (k < 0)%Z -> poi_pdfm lgam d (IZR k) = Val (Fin 0)) /\ (forall x : R, is_intb x = false -> poi_pdfm lgam d x = ErrInt).
Proof. exact ProofsPdf.poisson_mass. Qed.

Theorem negbinomial_mass :
  forall (lgam : R -> R) (r p : R), 0 < r -> 0 < p < 1 -> exists d : nb_d, nb_new lgam r p = Some d /\ (forall k : Z, (0 <= k)%Z -> nb_pdfm lgam d (IZR k) = Val (Fin (negbinomial_pmf lgam r p k))) /\ (forall k : Z, (k < 0)%Z -> nb_pdfm lgam d (IZR k) = Val (Fin 0)) /\ (forall x : R, is_intb x = false -> nb_pdfm lgam d x = Val (Fin 0)).
Proof. exact ProofsPdf.negbinomial_mass. Qed.

Theorem binomial_mass :
  forall (lgam : R -> R) (theta : R) (n : Z), 0 < theta < 1 -> (0 <= n)%Z -> exists d : bin_d, bin_new lgam theta n = Some d /\ (forall k : Z, (0 <= k <= n)%Z -> bin_pdfm lgam d (IZR k) = Val (Fin (binomial_pmf lgam theta n k))) /\ (forall k : Z, (k < 0)%Z \/ (n < k)%Z -> bin_pdfm lgam d (IZR k) = Val (Fin 0)) /\ (forall x : R, is_intb x = false -> bin_pdfm lgam d x = Val (Fin 0)).
Proof. exact ProofsPdf.binomial_mass. Qed.

Theorem categorical_mass_pdf :
  forall theta : list R, theta <> [] -> List.Forall (fun t : R => 0 < t) theta -> exists d : list ER, cat_new theta = Some d /\ (forall k : Z, (0 <= k < Z.of_nat (length theta))%Z -> cat_pdfm d (IZR k) = Val (Fin (nth (Z.to_nat k) theta 0))) /\ (forall k : Z, (k < 0)%Z \/ (Z.of_nat (length theta) <= k)%Z -> cat_pdfm d (IZR k) = Val (Fin 0)) /\ (forall x : R, is_intb x = false -> cat_pdfm d x = ErrInt).
Proof. exact ProofsPdf.categorical_mass_pdf. Qed.

Theorem delta_mass :
  forall X x : R, delta_pdfm X x = (if Req_EM_T x X then Val (Fin 1) else Val (Fin 0)).
Proof. exact ProofsPdf.delta_mass. Qed.

Theorem translation_density :
  forall (inner : R -> res) (f : R -> R) (c : R), (forall y : R, inner y = Val (Fin (ln (f y)))) -> (forall y : R, 0 < f y) -> forall x : R, translation_pdfm inner c x = Val (Fin (f (x + c))).
Proof. exact ProofsPdf.translation_density. Qed.

Theorem logtransform_density :
  forall (inner : R -> res) (f : R -> R) (c : R), (forall y : R, inner y = Val (Fin (ln (f y)))) -> (forall y : R, 0 < f y) -> (forall x : R, 0 <= x -> 0 < x + c -> logtransform_pdfm inner c x = Val (Fin (f (ln (x + c)) / (x + c)))) /\ (forall x : R, x < 0 -> logtransform_pdfm inner c x = Val (Fin 0)).
Proof. exact ProofsPdf.logtransform_density. Qed.

Theorem mvt_density :
  forall (lgam : R -> R) (nu : R) (mu : list R) (sinv : list (list R)) (sdet : R) (x : list R), 0 < nu -> 0 < sdet -> 0 <= qform sinv x mu -> pdf_of (vt_logpdf (vt_new lgam nu mu sinv sdet) x) = Val (Fin (mvt_pdf lgam nu (length mu) sdet (qform sinv x mu))).
Proof. exact ProofsPdf.mvt_density. Qed.

Theorem mvn_density :
  forall (mu : list R) (sinv : list (list R)) (sdet : R) (x : list R), 0 < sdet -> length x = length mu -> exists d : vn_d, vn_new mu sinv sdet = Some d /\ pdf_of (vn_logpdf d x) = Val (Fin (mvn_pdf (length mu) sdet (qform sinv x mu))).
Proof. exact ProofsPdf.mvn_density. Qed.

(* non-vacuity: the wrapped normal is an instance of the wrapper theorems (inner = normal LogPdf, f = its density > 0),
   and the table has the exp-wrappers the dispatcher theorem is about *)
Example translation_density_instance :
  exists d : normal_d, normal_new 1 2 = Some d /\ forall x : R, translation_pdfm (normal_logpdf d) 3 x = Val (Fin (normal_pdf 1 2 (x + 3))).
Proof.
  destruct (ProofsCont.normal_formula 1 2) as (d & Hn & Hf); [unfold normal_valid; lra|].
  exists d. split; [exact Hn|]. apply ProofsPdf.translation_density; [exact Hf|].
  intro y. unfold normal_pdf. apply Rmult_lt_0_compat; [|apply exp_pos].
  apply Rinv_0_lt_compat, Rmult_lt_0_compat; [lra|]. apply sqrt_lt_R0. pose proof PI_RGT_0. lra.
Qed.

Example exp_wrappers_instance :
  exp_wrapper_of FGev Pdf LogPdf /\ exp_wrapper_of FLaplace Cdf LogCdf /\ ~ exp_wrapper_of FGamma Cdf LogCdf /\ ~ exp_wrapper_of FNormal Pdf LogPdf.
Proof. repeat split; try reflexivity; intro H; discriminate H. Qed.

(* ---- round 6: cdf / normalisation of the generalised Pareto, GEV and Cauchy families (ProofsNorm3.v).
   [gp_arg mu sigma xi x] = 1 + xi (x - mu)/sigma; it is positive exactly on the interior of the support. ---- *)
From ADV Require C14.ProofsNorm3.
Import ProofsNorm3 (gp_arg, cauchy_cdf_spec).

Theorem gev_support_is_gp_arg_pos :
  forall mu sigma xi x : R, gev_support mu sigma xi x <-> 0 < gp_arg mu sigma xi x.
Proof. exact ProofsNorm3.gev_support_arg. Qed.

Theorem gpareto_cdf_derive :
  forall mu sigma xi x : R, 0 < sigma -> 0 < gp_arg mu sigma xi x -> is_derive (gpareto_cdf_spec mu sigma xi) x (gpareto_pdf mu sigma xi x).
Proof. exact ProofsNorm3.gpareto_cdf_derive. Qed.

Theorem gpareto_integral :
  forall mu sigma xi a b : R, 0 < sigma -> a <= b -> 0 < gp_arg mu sigma xi a -> 0 < gp_arg mu sigma xi b -> is_RInt (gpareto_pdf mu sigma xi) a b (gpareto_cdf_spec mu sigma xi b - gpareto_cdf_spec mu sigma xi a).
Proof. exact ProofsNorm3.gpareto_integral. Qed.

Theorem gpareto_cdf_increasing :
  forall mu sigma xi x y : R, 0 < sigma -> x < y -> 0 < gp_arg mu sigma xi x -> 0 < gp_arg mu sigma xi y -> gpareto_cdf_spec mu sigma xi x < gpareto_cdf_spec mu sigma xi y.
Proof. exact ProofsNorm3.gpareto_cdf_increasing. Qed.

Theorem gpareto_norm :
  forall mu sigma xi : R, gpareto_valid mu sigma xi -> 0 <= xi -> (forall b : R, mu <= b -> is_RInt (gpareto_pdf mu sigma xi) mu b (gpareto_cdf_spec mu sigma xi b)) /\ is_lim (gpareto_cdf_spec mu sigma xi) p_infty 1.
Proof. exact ProofsNorm3.gpareto_norm. Qed.

Theorem gpareto_norm_bounded_support :
  forall mu sigma xi : R, 0 < sigma -> xi < 0 -> (forall b : R, mu <= b -> 0 < gp_arg mu sigma xi b -> is_RInt (gpareto_pdf mu sigma xi) mu b (gpareto_cdf_spec mu sigma xi b)) /\ filterlim (gpareto_cdf_spec mu sigma xi) (at_left (mu - sigma / xi)) (locally 1).
Proof. exact ProofsNorm3.gpareto_norm_bounded. Qed.

Theorem gev_cdf_derive :
  forall mu sigma xi x : R, 0 < sigma -> 0 < gp_arg mu sigma xi x -> is_derive (gev_cdf_spec mu sigma xi) x (gev_pdf mu sigma xi x).
Proof. exact ProofsNorm3.gev_cdf_derive. Qed.

Theorem gev_integral :
  forall mu sigma xi a b : R, 0 < sigma -> a <= b -> 0 < gp_arg mu sigma xi a -> 0 < gp_arg mu sigma xi b -> is_RInt (gev_pdf mu sigma xi) a b (gev_cdf_spec mu sigma xi b - gev_cdf_spec mu sigma xi a).
Proof. exact ProofsNorm3.gev_integral. Qed.

Theorem gev_cdf_increasing :
  forall mu sigma xi x y : R, 0 < sigma -> x < y -> 0 < gp_arg mu sigma xi x -> 0 < gp_arg mu sigma xi y -> gev_cdf_spec mu sigma xi x < gev_cdf_spec mu sigma xi y.
Proof. exact ProofsNorm3.gev_cdf_increasing. Qed.

Theorem gumbel_limits_partial :  (* GEV with xi = 0; the limits at the end points for xi <> 0 are not proved *)
  forall mu sigma : R, 0 < sigma -> is_lim (gev_cdf_spec mu sigma 0) m_infty 0 /\ is_lim (gev_cdf_spec mu sigma 0) p_infty 1.
Proof. exact ProofsNorm3.gumbel_limits. Qed.

Theorem cauchy_cdf_derive :
  forall (mu sigma : R) (x : R_AbsRing), 0 < sigma -> is_derive (cauchy_cdf_spec mu sigma) x (cauchy_pdf mu sigma x).
Proof. exact ProofsNorm3.cauchy_cdf_derive. Qed.

Theorem cauchy_cdf_range :
  forall mu sigma x : R, 0 < cauchy_cdf_spec mu sigma x < 1.
Proof. exact ProofsNorm3.cauchy_cdf_range. Qed.

Theorem cauchy_cdf_increasing :
  forall mu sigma x y : R, 0 < sigma -> x < y -> cauchy_cdf_spec mu sigma x < cauchy_cdf_spec mu sigma y.
Proof. exact ProofsNorm3.cauchy_cdf_increasing. Qed.

Theorem cauchy_norm :
  forall mu sigma : R, cauchy_valid mu sigma -> (forall a b : R, is_RInt (cauchy_pdf mu sigma) a b (cauchy_cdf_spec mu sigma b - cauchy_cdf_spec mu sigma a)) /\ is_lim (cauchy_cdf_spec mu sigma) m_infty 0 /\ is_lim (cauchy_cdf_spec mu sigma) p_infty 1.
Proof. exact ProofsNorm3.cauchy_norm. Qed.

(* non-vacuity: interior points of the three kinds of support *)
Example gp_arg_instances :
  0 < gp_arg 0 1 (1 / 2) 3 /\ 0 < gp_arg 0 1 (-1 / 2) 1 /\ 0 < gp_arg 2 (3 / 4) 0 (-5) /\ ~ 0 < gp_arg 0 1 (-1 / 2) 2 /\ gpareto_valid 0 1 (1 / 2) /\ cauchy_valid 1 2.
Proof. unfold gp_arg, gpareto_valid, cauchy_valid. repeat split; try lra. Qed.

(* ------------------------------------------------------------------ round 7 *)
(* vectorDistribution.VectorId: product over blocks of DIFFERENT dimensions (running offset j += Dim()) *)
From ADV Require C14.ProofsVid C14.ProofsPoint.
Import ProofsVid (blocks_fit, block_results, probe_first).

(* every list of components, every block layout: the product at the concatenation of the blocks is the
   error-propagating sum of the component results, each component on its own block *)
Theorem vectorid_blocks :
  forall (comps : list (nat * (list R -> res))) (bs : list (list R)), blocks_fit comps bs -> vid_logpdf comps (concat bs) = fold_left prod_step (block_results comps bs) (Val (Fin 0)).
Proof. exact ProofsVid.vid_blocks. Qed.

Theorem vectorid_formula :
  forall (comps : list (nat * (list R -> res))) (bs : list (list R)) (vs : list R), blocks_fit comps bs -> List.Forall2 (fun (r : res) (v : R) => r = Val (Fin v)) (block_results comps bs) vs -> vid_logpdf comps (concat bs) = Val (Fin (fold_left Rplus vs 0)).
Proof. exact ProofsVid.vid_formula. Qed.

(* one block outside the support of its component (the others finite or -Inf): the product is -Inf *)
Theorem vectorid_support :
  forall (comps : list (nat * (list R -> res))) (bs : list (list R)), blocks_fit comps bs -> List.Forall (fun r : res => exists v : ER, r = Val v /\ (v = NInf \/ (exists q : R, v = Fin q))) (block_results comps bs) -> List.Exists (fun r : res => r = Val NInf) (block_results comps bs) -> vid_logpdf comps (concat bs) = Val NInf.
Proof. exact ProofsVid.vid_support. Qed.

Theorem vectorid_dim_guard :
  forall (comps : list (nat * (list R -> res))) (x : list R), length x <> vid_dim comps -> vid_logpdf comps x = ErrDim.
Proof. exact ProofsVid.vid_dim_guard. Qed.

(* non-vacuity: layouts 2+1+1 and 1+2 with components that report the first entry of the block they are given *)
Example vectorid_layout_instance :
  vid_logpdf [(2%nat, probe_first); (1%nat, probe_first); (1%nat, probe_first)] [1; 10; 100; 1000] = Val (Fin (0 + 1 + 100 + 1000)) /\ vid_logpdf [(1%nat, probe_first); (2%nat, probe_first)] [1; 10; 100] = Val (Fin (0 + 1 + 10)).
Proof. exact ProofsVid.vid_layout_example. Qed.
Example vectorid_blocks_instance :
  blocks_fit [(2%nat, probe_first); (1%nat, probe_first)] [[1; 10]; [100]] /\ List.Forall2 (fun (r : res) (v : R) => r = Val (Fin v)) (block_results [(2%nat, probe_first); (1%nat, probe_first)] [[1; 10]; [100]]) [1; 100].
Proof. split; repeat constructor. Qed.

(* boundary parameter values accepted by the constructors: point masses (`0^0 = 1` branches) *)
Theorem negbinomial_p0_point_mass :
  forall (lgam : R -> R) (r : R), 0 < r -> lgam 1 = 0 -> exists d : nb_d, nb_new lgam r 0 = Some d /\ nb_logpdf lgam d 0 = Val (Fin 0) /\ (forall k : Z, (0 < k)%Z -> nb_logpdf lgam d (IZR k) = Val NInf) /\ (forall k : Z, (k < 0)%Z -> nb_logpdf lgam d (IZR k) = Val NInf) /\ (forall x : R, is_intb x = false -> nb_logpdf lgam d x = Val NInf).
Proof. exact ProofsPoint.negbinomial_p0_point_mass. Qed.

(* p = 1 (where p^k (1-p)^r is identically 0) is rejected: the constructor accepts exactly r > 0, 0 <= p < 1 *)
Theorem negbinomial_p1_rejected :
  forall (lgam : R -> R) (r : R), nb_new lgam r 1 = None.
Proof. exact ProofsPoint.negbinomial_p1_rejected. Qed.

Theorem negbinomial_ctor_domain :
  forall (lgam : R -> R) (r p : R), (exists d : nb_d, nb_new lgam r p = Some d) <-> negbinomial_valid r p.
Proof. exact ProofsPoint.negbinomial_ctor_domain. Qed.

(* non-vacuity: both sides of the boundary: (5/2, 0) and (5/2, 1/2) are inside the domain, (5/2, 1) is not *)
Example negbinomial_ctor_domain_instance :
  negbinomial_valid (5 / 2) 0 /\ negbinomial_valid (5 / 2) (1 / 2) /\ ~ negbinomial_valid (5 / 2) 1.
Proof. unfold negbinomial_valid. lra. Qed.

Theorem geometric_p1_point_mass :
  exists d : geo_d, geo_new 1 = Some d /\ geo_logpdf d 0 = Val (Fin 0) /\ (forall k : Z, (0 < k)%Z -> geo_logpdf d (IZR k) = Val NInf) /\ (forall k : Z, (k < 0)%Z -> geo_logpdf d (IZR k) = Val NInf).
Proof. exact ProofsPoint.geometric_p1_point_mass. Qed.

Theorem binomial_theta0_point_mass :
  forall (lgam : R -> R) (n : Z), (0 <= n)%Z -> lgam 1 = 0 -> exists d : bin_d, bin_new lgam 0 n = Some d /\ bin_logpdf lgam d 0 = Val (Fin 0) /\ (forall k : Z, (0 < k <= n)%Z -> bin_logpdf lgam d (IZR k) = Val NInf).
Proof. exact ProofsPoint.binomial_theta0_point_mass. Qed.

Theorem binomial_theta1_point_mass :
  forall (lgam : R -> R) (n : Z), (0 <= n)%Z -> lgam 1 = 0 -> exists d : bin_d, bin_new lgam 1 n = Some d /\ bin_logpdf lgam d (IZR n) = Val (Fin 0) /\ (forall k : Z, (0 <= k < n)%Z -> bin_logpdf lgam d (IZR k) = Val NInf).
Proof. exact ProofsPoint.binomial_theta1_point_mass. Qed.

(* non-vacuity: a log-gamma candidate with lgam 1 = 0, and parameters in range *)
Example point_mass_instance :
  (fun x : R => x - 1) 1 = 0 /\ 0 < 5 / 2 /\ (0 <= 3)%Z /\ (0 < 2 <= 3)%Z.
Proof. repeat split; try lra; discriminate. Qed.
