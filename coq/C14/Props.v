(* C14 — property theorems (statements only; proofs in Proofs*.v).
   lgam / lerfc / gamP / erfc are universally quantified: nothing depends on which functions they are;
   the normal-cdf theorems carry their hypotheses about erfc explicitly.
   *_partial: the part of the property that holds for a family whose remaining part is REFUTED on the
   faithful model (chi-squared: no support guard, no constructor validation -> chisq_*_refuted;
   categorical: truncation / index panic / unnormalised weights -> categorical_*_refuted).
   *_refuted: known findings (corpus/C14/known_findings_proposed.json). *)
From Coq Require Import Reals ZArith Bool List.
From Coquelicot Require Import Coquelicot.
From ADV Require Import Base.Num C14.ER C14.Model C14.Spec C14.Corr.
From ADV Require C14.ProofsCont C14.ProofsDisc C14.ProofsNorm C14.ProofsCdf C14.ProofsRefuted.
Import ListNotations.
Open Scope R_scope.

Theorem normal_formula :
  forall mu sigma : R, normal_valid mu sigma -> exists d : normal_d, normal_new mu sigma = Some d /\ (forall x : R, normal_logpdf d x = Val (Fin (ln (normal_pdf mu sigma x)))).
Proof. exact ProofsCont.normal_formula. Qed.

Theorem exponential_formula :
  forall lambda : R, exponential_valid lambda -> exists d : exp_d, exp_new lambda = Some d /\ (forall x : R, 0 <= x -> exp_logpdf d x = Val (Fin (ln (exponential_pdf lambda x)))) /\ (forall x : R, x < 0 -> exp_logpdf d x = Val NInf).
Proof. exact ProofsCont.exponential_formula. Qed.

Theorem laplace_formula :
  forall mu sigma : R, laplace_valid mu sigma -> exists d : lap_d, lap_new mu sigma = Some d /\ (forall x : R, lap_logpdf d x = Val (Fin (ln (laplace_pdf mu sigma x)))).
Proof. exact ProofsCont.laplace_formula. Qed.

Theorem pareto_formula :
  forall lambda kappa : R, pareto_valid lambda kappa -> exists d : par_d, par_new lambda kappa = Some d /\ (forall x : R, lambda <= x -> par_logpdf d x = Val (Fin (ln (pareto_pdf lambda kappa x)))) /\ (forall x : R, x < lambda -> par_logpdf d x = Val NInf).
Proof. exact ProofsCont.pareto_formula. Qed.

Theorem gpareto_formula :
  forall mu sigma xi : R, gpareto_valid mu sigma xi -> exists d : gp_d, gp_new mu sigma xi = Some d /\ (forall x : R, mu <= x -> (xi < 0 -> x < mu - sigma / xi) -> gp_logpdf d x = Val (Fin (ln (gpareto_pdf mu sigma xi x)))) /\ (forall x : R, ~ gpareto_support mu sigma xi x -> gp_logpdf d x = Val NInf).
Proof. exact ProofsCont.gpareto_formula. Qed.

Theorem gev_formula :
  forall mu sigma xi : R, gev_valid mu sigma xi -> exists d : gev_d, gev_new mu sigma xi = Some d /\ (forall x : R, gev_support mu sigma xi x -> gev_logpdf d x = Val (Fin (ln (gev_pdf mu sigma xi x)))) /\ (forall x : R, ~ gev_support mu sigma xi x -> gev_logpdf d x = Val NInf).
Proof. exact ProofsCont.gev_formula. Qed.

Theorem cauchy_formula :
  forall mu sigma : R, cauchy_valid mu sigma -> exists d : cau_d, cau_new mu sigma = Some d /\ (forall x : R, cau_logpdf d x = Val (Fin (ln (cauchy_pdf mu sigma x)))).
Proof. exact ProofsCont.cauchy_formula. Qed.

Theorem powerlaw_formula :
  forall alpha xmin : R, powerlaw_valid alpha xmin -> exists d : pl_d, pl_new alpha xmin = Some d /\ (forall x : R, xmin <= x -> pl_logpdf d x = Val (Fin (ln (powerlaw_pdf alpha xmin x)))) /\ (forall x : R, x < xmin -> pl_logpdf d x = Val NInf).
Proof. exact ProofsCont.powerlaw_formula. Qed.

Theorem gamma_formula :
  forall (lgam : R -> R) (alpha beta : R), gamma_valid alpha beta -> exists d : gam_d, gam_new lgam alpha beta = Some d /\ (forall x : R, 0 < x -> gam_logpdf d x = Val (Fin (ln (gamma_pdf lgam alpha beta x)))) /\ (forall x : R, x <= 0 -> gam_logpdf d x = Val NInf).
Proof. exact ProofsCont.gamma_formula. Qed.

Theorem gengamma_formula :
  forall (lgam : R -> R) (a d p : R), gengamma_valid a d p -> exists g : gg_d, gg_new lgam a d p = Some g /\ (forall x : R, 0 < x -> gg_logpdf g x = Val (Fin (ln (gengamma_pdf lgam a d p x)))) /\ (forall x : R, x <= 0 -> gg_logpdf g x = Val NInf).
Proof. exact ProofsCont.gengamma_formula. Qed.

Theorem chisq_formula_partial :
  forall (lgam : R -> R) (k : R), chisq_valid k -> exists d : chi_d, chi_new lgam k = Some d /\ (forall x : R, 0 < x -> chi_logpdf d x = Val (Fin (ln (chisq_pdf lgam k x)))).
Proof. exact ProofsCont.chisq_formula. Qed.

Theorem beta_formula :
  forall (lgam : R -> R) (a b : R), beta_valid a b -> exists d : beta_d, beta_new lgam a b false = Some d /\ (forall x : R, 0 < x < 1 -> beta_logpdf d x = Val (Fin (ln (beta_pdf lgam a b x)))) /\ (forall x : R, x < 0 \/ 1 < x -> beta_logpdf d x = Val NInf).
Proof. exact ProofsCont.beta_formula. Qed.

Theorem beta_logscale_formula :
  forall (lgam : R -> R) (a b : R), beta_valid a b -> exists d : beta_d, beta_new lgam a b true = Some d /\ (forall x : R, x < 0 -> beta_logpdf d x = Val (Fin (ln (beta_pdf lgam a b (exp x))))) /\ (forall x : R, 0 < x -> beta_logpdf d x = Val NInf).
Proof. exact ProofsCont.beta_logscale_formula. Qed.

Theorem geometric_formula :
  forall p : R, 0 < p < 1 -> exists d : geo_d, geo_new p = Some d /\ (forall k : Z, (0 <= k)%Z -> geo_logpdf d (IZR k) = Val (Fin (ln (geometric_pmf p k)))) /\ (forall k : Z, (k < 0)%Z -> geo_logpdf d (IZR k) = Val NInf) /\ (forall x : R, is_intb x = false -> geo_logpdf d x = ErrInt).
Proof. exact ProofsDisc.geometric_formula. Qed.

Theorem poisson_formula :
  forall (lgam : R -> R) (lambda : R), poisson_valid lambda -> exists d : R, poi_new lambda = Some d /\ (forall k : Z, (0 <= k)%Z -> poi_logpdf lgam d (IZR k) = Val (Fin (ln (poisson_pmf lgam lambda k)))) /\ (forall k : Z, (k < 0)%Z -> poi_logpdf lgam d (IZR k) = Val NInf) /\ (forall x : R, is_intb x = false -> poi_logpdf lgam d x = ErrInt).
Proof. exact ProofsDisc.poisson_formula. Qed.

Theorem negbinomial_formula :
  forall (lgam : R -> R) (r p : R), 0 < r -> 0 < p < 1 -> exists d : nb_d, nb_new lgam r p = Some d /\ (forall k : Z, (0 <= k)%Z -> nb_logpdf lgam d (IZR k) = Val (Fin (ln (negbinomial_pmf lgam r p k)))) /\ (forall k : Z, (k < 0)%Z -> nb_logpdf lgam d (IZR k) = Val NInf) /\ (forall x : R, is_intb x = false -> nb_logpdf lgam d x = Val NInf).
Proof. exact ProofsDisc.negbinomial_formula. Qed.

Theorem binomial_formula :
  forall (lgam : R -> R) (theta : R) (n : Z), 0 < theta < 1 -> (0 <= n)%Z -> exists d : bin_d, bin_new lgam theta n = Some d /\ (forall k : Z, (0 <= k <= n)%Z -> bin_logpdf lgam d (IZR k) = Val (Fin (ln (binomial_pmf lgam theta n k)))) /\ (forall k : Z, (k < 0)%Z \/ (n < k)%Z -> bin_logpdf lgam d (IZR k) = Val NInf) /\ (forall x : R, is_intb x = false -> bin_logpdf lgam d x = Val NInf).
Proof. exact ProofsDisc.binomial_formula. Qed.

Theorem categorical_formula_partial :
  forall theta : list R, theta <> [] -> List.Forall (fun t : R => 0 < t) theta -> exists d : list ER, cat_new theta = Some d /\ (forall k : Z, (0 <= k < Z.of_nat (length theta))%Z -> cat_logpdf d (IZR k) = Val (Fin (ln (nth (Z.to_nat k) theta 0)))).
Proof. exact ProofsDisc.categorical_formula. Qed.

Theorem delta_formula :
  forall X x : R, delta_logpdf X x = (if Req_EM_T x X then Val (Fin 0) else Val NInf).
Proof. exact ProofsDisc.delta_formula. Qed.

Theorem translation_formula :
  forall (inner : R -> res) (f : R -> R) (c : R), (forall y : R, inner y = Val (Fin (ln (f y)))) -> forall x : R, translation_logpdf inner c x = Val (Fin (ln (f (x + c)))).
Proof. exact ProofsCont.translation_formula. Qed.

Theorem logtransform_formula :
  forall (inner : R -> res) (f : R -> R) (c : R), (forall y : R, inner y = Val (Fin (ln (f y)))) -> (forall y : R, 0 < f y) -> (forall x : R, 0 <= x -> 0 < x + c -> logtransform_logpdf inner c x = Val (Fin (ln (f (ln (x + c)) / (x + c))))) /\ (forall x : R, x < 0 -> logtransform_logpdf inner c x = Val NInf).
Proof. exact ProofsCont.logtransform_formula. Qed.

Theorem normal_ctor :
  forall mu sigma : R, normal_new mu sigma = None <-> ~ normal_valid mu sigma.
Proof. exact ProofsCont.normal_ctor. Qed.

Theorem exponential_ctor :
  forall lambda : R, exp_new lambda = None <-> ~ exponential_valid lambda.
Proof. exact ProofsCont.exponential_ctor. Qed.

Theorem pareto_ctor :
  forall lambda kappa : R, par_new lambda kappa = None <-> ~ pareto_valid lambda kappa.
Proof. exact ProofsCont.pareto_ctor. Qed.

Theorem cauchy_ctor :
  forall mu sigma : R, cau_new mu sigma = None <-> ~ cauchy_valid mu sigma.
Proof. exact ProofsCont.cauchy_ctor. Qed.

Theorem gamma_ctor :
  forall (lgam : R -> R) (alpha beta : R), gam_new lgam alpha beta = None <-> ~ gamma_valid alpha beta.
Proof. exact ProofsCont.gamma_ctor. Qed.

Theorem geometric_ctor :
  forall p : R, geo_new p = None <-> ~ geometric_valid p.
Proof. exact ProofsDisc.geometric_ctor. Qed.

Theorem poisson_ctor :
  forall lambda : R, poi_new lambda = None <-> ~ poisson_valid lambda.
Proof. exact ProofsDisc.poisson_ctor. Qed.

Theorem binomial_ctor :
  forall (lgam : R -> R) (theta : R) (n : Z), bin_new lgam theta n = None <-> ~ binomial_valid theta n.
Proof. exact ProofsDisc.binomial_ctor. Qed.

Theorem normal_roundtrip :
  forall (mu sigma : R) (d : normal_d), normal_new mu sigma = Some d -> normal_set (normal_get d) = Some d.
Proof. exact ProofsCont.normal_roundtrip. Qed.

Theorem exponential_roundtrip :
  forall (lambda : R) (d : exp_d), exp_new lambda = Some d -> exp_set (exp_get d) = Some d.
Proof. exact ProofsCont.exponential_roundtrip. Qed.

Theorem geometric_norm :
  forall p : R, 0 < p < 1 -> is_series (fun k : nat => geometric_pmf p (Z.of_nat k)) 1.
Proof. exact ProofsNorm.geometric_norm. Qed.

Theorem exponential_norm :
  forall lambda : R, 0 < lambda -> (forall b : R, is_RInt (exponential_pdf lambda) 0 b (exponential_cdf_spec lambda b)) /\ is_lim (exponential_cdf_spec lambda) p_infty 1.
Proof. exact ProofsNorm.exponential_norm. Qed.

Theorem categorical_mass :
  forall (theta : list R) (d : list ER), List.Forall (fun t : R => 0 < t) theta -> cat_new theta = Some d -> map eexp d = map Fin theta.
Proof. exact ProofsDisc.categorical_mass. Qed.

Theorem exponential_cdf :
  forall lambda : R, exponential_valid lambda -> exists d : exp_d, exp_new lambda = Some d /\ (forall x : R, 0 < x -> exp_logcdf d x = Val (Fin (ln (exponential_cdf_spec lambda x)))) /\ (forall x : R, 0 <= x -> exp_cdf d x = Val (Fin (exponential_cdf_spec lambda x))) /\ (forall x : R, x < 0 -> exp_logcdf d x = Val NInf /\ exp_cdf d x = Val (Fin 0)).
Proof. exact ProofsCdf.exponential_cdf. Qed.

Theorem exponential_cdf_derive :
  forall (lambda : R) (x : R_AbsRing), is_derive (exponential_cdf_spec lambda) x (exponential_pdf lambda x).
Proof. exact ProofsCdf.exponential_cdf_derive. Qed.

Theorem exponential_cdf_monotone :
  forall lambda x y : R, 0 < lambda -> x <= y -> exponential_cdf_spec lambda x <= exponential_cdf_spec lambda y.
Proof. exact ProofsCdf.exponential_cdf_monotone. Qed.

Theorem pareto_cdf :
  forall lambda kappa : R, pareto_valid lambda kappa -> exists d : par_d, par_new lambda kappa = Some d /\ (forall x : R, lambda < x -> par_logcdf d x = Val (Fin (ln (pareto_cdf_spec lambda kappa x))) /\ par_cdf d x = Val (Fin (pareto_cdf_spec lambda kappa x))) /\ (forall x : R, x < lambda -> par_logcdf d x = Val NInf /\ par_cdf d x = Val (Fin 0)).
Proof. exact ProofsCdf.pareto_cdf. Qed.

Theorem normal_cdf :
  forall lerfc erfc : R -> R, (forall y : R, 0 < erfc y) -> (forall y : R, lerfc y = ln (erfc y)) -> forall mu sigma : R, normal_valid mu sigma -> exists d : normal_d, normal_new mu sigma = Some d /\ (forall x : R, normal_logcdf lerfc d x = Val (Fin (ln (normal_cdf_spec erfc mu sigma x))) /\ Model.normal_cdf lerfc d x = Val (Fin (normal_cdf_spec erfc mu sigma x))).
Proof. exact ProofsCdf.normal_cdf. Qed.

Theorem normal_cdf_derive :
  forall erfc : R -> R, (forall y : R_AbsRing, is_derive erfc y (- (2 / sqrt PI) * exp (- (y * y)))) -> forall (mu sigma : R) (x : R_AbsRing), 0 < sigma -> is_derive (normal_cdf_spec erfc mu sigma) x (normal_pdf mu sigma x).
Proof. exact ProofsCdf.normal_cdf_derive. Qed.

Theorem laplace_logcdf_refuted :
  forall (lgam lerfc : R -> R) (gamP : R -> R -> R), agrees (eval lgam lerfc gamP FLaplace LogCdf [0; 1] [] 0) (OVal (1 / 2) (1 / 1000)) /\ agrees (eval lgam lerfc gamP FLaplace Cdf [0; 1] [] 0) (OVal (16487 / 10000) (1 / 1000)) /\ ln (laplace_cdf_spec 0 1 0) < - (69 / 100).
Proof. exact ProofsRefuted.laplace_logcdf_refuted. Qed.

Theorem laplace_ctor_refuted :
  forall (lgam lerfc : R -> R) (gamP : R -> R -> R), eval lgam lerfc gamP FLaplace Ctor [0; -1] [] 0 <> CtorErr /\ ~ laplace_valid 0 (-1).
Proof. exact ProofsRefuted.laplace_ctor_refuted. Qed.

Theorem powerlaw_logcdf_refuted :
  forall (lgam lerfc : R -> R) (gamP : R -> R -> R), agrees (eval lgam lerfc gamP FPowerLaw Cdf [3; 1] [] (1 / 2)) (OVal 4 (1 / 1000)) /\ agrees (eval lgam lerfc gamP FPowerLaw Cdf [3; 1] [] 2) (OVal (1 / 4) (1 / 1000)) /\ Rabs (powerlaw_cdf_spec 3 1 2 - 3 / 4) <= 1 / 1000.
Proof. exact ProofsRefuted.powerlaw_logcdf_refuted. Qed.

Theorem powerlaw_ctor_refuted :
  forall (lgam lerfc : R -> R) (gamP : R -> R -> R), agrees (eval lgam lerfc gamP FPowerLaw Ctor [1 / 2; -1] [] 0) (OVal 0 0) /\ ~ powerlaw_valid (1 / 2) (-1).
Proof. exact ProofsRefuted.powerlaw_ctor_refuted. Qed.

Theorem chisq_support_refuted :
  forall (lgam lerfc : R -> R) (gamP : R -> R -> R), agrees (eval lgam lerfc gamP FChiSquared LogPdf [3] [] (-1)) ONaN /\ agrees (eval lgam lerfc gamP FChiSquared LogPdf [2] [] 0) ONaN.
Proof. exact ProofsRefuted.chisq_support_refuted. Qed.

Theorem chisq_ctor_refuted :
  forall (lgam lerfc : R -> R) (gamP : R -> R -> R), agrees (eval lgam lerfc gamP FChiSquared Ctor [-3] [] 0) (OVal 0 0) /\ ~ chisq_valid (-3).
Proof. exact ProofsRefuted.chisq_ctor_refuted. Qed.

Theorem categorical_support_refuted :
  forall (lgam lerfc : R -> R) (gamP : R -> R -> R), agrees (eval lgam lerfc gamP FCategorical LogPdf [1 / 4; 1 / 4; 1 / 2] [] (-1 + 1 / 2)) (OVal (- (13863 / 10000)) (1 / 1000)) /\ agrees (eval lgam lerfc gamP FCategorical LogPdf [1 / 4; 1 / 4; 1 / 2] [] 3) OPanic.
Proof. exact ProofsRefuted.categorical_support_refuted. Qed.

Theorem categorical_cdf_refuted :
  forall (lgam lerfc : R -> R) (gamP : R -> R -> R), agrees (eval lgam lerfc gamP FCategorical Cdf [1] [] 0) (OVal 2 (1 / 1000)) /\ agrees (eval lgam lerfc gamP FCategorical Cdf [1 / 4; 1 / 4; 1 / 2] [] (-2)) (OVal 1 (1 / 1000)).
Proof. exact ProofsRefuted.categorical_cdf_refuted. Qed.

Theorem binomial_boundary_refuted :
  forall (lgam lerfc : R -> R) (gamP : R -> R -> R), agrees (eval lgam lerfc gamP FBinomial LogPdf [0] [5%Z] 0) ONaN /\ binomial_valid 0 5.
Proof. exact ProofsRefuted.binomial_boundary_refuted. Qed.

Theorem geometric_boundary_refuted :
  forall (lgam lerfc : R -> R) (gamP : R -> R -> R), agrees (eval lgam lerfc gamP FGeometric LogPdf [1] [] 0) ONaN /\ geometric_valid 1.
Proof. exact ProofsRefuted.geometric_boundary_refuted. Qed.

Theorem gpareto_cdf_upper_refuted :
  forall (lgam lerfc : R -> R) (gamP : R -> R -> R), agrees (eval lgam lerfc gamP FGPareto Cdf [2; 3 / 4; -1] [] 5) (OVal 0 0) /\ agrees (eval lgam lerfc gamP FGPareto Cdf [2; 3 / 4; -1] [] (5 / 2)) (OVal (2 / 3) (1 / 1000)).
Proof. exact ProofsRefuted.gpareto_cdf_upper_refuted. Qed.

Theorem gev_cdf_upper_refuted :
  forall (lgam lerfc : R -> R) (gamP : R -> R -> R), agrees (eval lgam lerfc gamP FGev Cdf [0; 1; -1] [] 2) (OVal 0 0) /\ agrees (eval lgam lerfc gamP FGev Cdf [0; 1; -1] [] (1 / 2)) (OVal (6065 / 10000) (1 / 1000)).
Proof. exact ProofsRefuted.gev_cdf_upper_refuted. Qed.

From Coq Require Import Lra.
(* the hypotheses are satisfiable by non-trivial instances *)
Example normal_valid_ex : normal_valid (1 / 2) 2 /\ gamma_valid (5 / 2) 3 /\ gpareto_valid 0 1 (-1 / 2) /\
  gpareto_support 0 1 (-1 / 2) 1 /\ gev_support 0 1 (1 / 2) 3 /\ powerlaw_valid 3 1 /\ beta_valid (1 / 2) 2.
Proof.
  unfold normal_valid, gamma_valid, gpareto_valid, gpareto_support, gev_support, powerlaw_valid, beta_valid.
  repeat split; try lra.
Qed.
