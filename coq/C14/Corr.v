(* C14 — certified correspondence: every case written by harness/c14 is a
   proposition [agrees (eval lgam lerfc gamP family method params x) observed]
   about the R model of Model.v, universally quantified over the special
   functions and assuming only the logged values of lgamma / logerfc / gammaP at
   the arguments the Go run passed to them (those values are C13's business).
   [solve_case] decides the guards by exact arithmetic (lra on the dyadic
   inputs), and encloses the finite value with Coq-Interval. *)
From Coq Require Import Reals ZArith Bool List Lra.
From Flocq Require Import Core.Raux.
From Coquelicot Require Rcomplements.
From Interval Require Import Tactic.
From ADV Require Import Base.Num C14.ER C14.Model C14.VModel C14.ProofsER.
Import ListNotations.
Open Scope R_scope.

Inductive obs :=
| OVal (q tol : R)   (* finite value q (exact binary64), tolerance tol *)
| OPInf | ONInf | ONaN | OErrInt | OErrNaN | OPanic | OCtorErr | OErrDim.

Definition agrees (r : res) (o : obs) : Prop :=
  match o with
  | OVal q tol => exists v, r = Val (Fin v) /\ Rabs (v - q) <= tol
  | OPInf => r = Val PInf
  | ONInf => r = Val NInf
  | ONaN => r = Val NaN
  | OErrInt => r = ErrInt
  | OErrNaN => r = ErrNaN
  | OPanic => r = Panic
  | OCtorErr => r = CtorErr
  | OErrDim => r = ErrDim
  end.

(* logged value of a special function at one argument *)
Definition at1 (f : R -> R) (a v : R) : Prop := forall y, y = a -> f y = v.
(* logged value v of f assumed (within epsv) on an eps-neighbourhood of the binary64 argument a *)
Definition near1 (f : R -> R) (a eps v epsv : R) : Prop :=
  forall y, Rabs (y - a) <= eps -> Rabs (f y - v) <= epsv.
Definition at2 (f : R -> R -> R) (a b v : R) : Prop := forall y z, y = a -> z = b -> f y z = v.

Ltac side := first [ lra | interval with (i_prec 60) ].

(* the integer denoted by an arithmetic expression over integer literals *)
Ltac zof e :=
  lazymatch e with
  | IZR ?a => constr:(a)
  | ?x + ?y => let a := zof x in let b := zof y in constr:((a + b)%Z)
  | ?x - ?y => let a := zof x in let b := zof y in constr:((a - b)%Z)
  | ?x * ?y => let a := zof x in let b := zof y in constr:((a * b)%Z)
  | - ?x => let a := zof x in constr:((- a)%Z)
  end.
Ltac int_true e :=
  let k := zof e in let k' := eval cbv in k in
  apply (is_intb_eq e k'); lra.

(* exact simplifications needed at evaluation points lying exactly on a boundary *)
Lemma Rpower_1_l y : Rpower 1 y = 1.
Proof. unfold Rpower. rewrite ln_1, Rmult_0_r. apply exp_0. Qed.
Lemma Rdiv_0_l' x : 0 / x = 0.
Proof. unfold Rdiv. apply Rmult_0_l. Qed.
Lemma Rplus_opp_r' x : x + - x = 0.
Proof. apply Rplus_opp_r. Qed.
Lemma Rdiv_same' x : x <> 0 -> x / x = 1.
Proof. intro H. unfold Rdiv. apply Rinv_r. exact H. Qed.
Ltac r_zero :=
  repeat match goal with |- context [?a / ?a] => rewrite (Rdiv_same' a) by lra end;
  rewrite ?ln_1, ?Rplus_opp_r', ?Rdiv_0_l', ?Rmult_0_r, ?Rmult_0_l, ?Ropp_0, ?Rplus_0_r, ?Rplus_0_l, ?exp_0, ?Rpower_1_l, ?Rabs_R0.

Ltac er_step :=
  match goal with
  | |- context [Rltb ?a ?b] => first [ rewrite (Rltb_t a b) by side | rewrite (Rltb_f a b) by side ]
  | |- context [Rleb ?a ?b] => first [ rewrite (Rleb_t a b) by side | rewrite (Rleb_f a b) by side ]
  | |- context [Reqb ?a ?b] => first [ rewrite (Reqb_t a b) by (r_zero; lra) | rewrite (Reqb_f a b) by side ]
  | |- context [Rpos ?a] => first [ rewrite (Rpos_t a) by side | rewrite (Rpos_f a) by side ]
  | |- context [Rneg ?a] => first [ rewrite (Rneg_t a) by side | rewrite (Rneg_f a) by side ]
  | |- context [is_intb (IZR ?k)] => rewrite (is_intb_IZR k)
  | |- context [is_intb (IZR ?k + 1 / 2)] => rewrite (is_intb_half k)
  | |- context [is_intb ?e] =>
      let H := fresh in assert (H : is_intb e = true) by int_true e; rewrite H; clear H
  | |- context [elog (Fin ?x)] =>
      first [ rewrite (elog_pos x) by side | rewrite (elog_zero x) by (r_zero; lra) | rewrite (elog_neg x) by side ]
  | |- context [elog1p (Fin ?x)] =>
      first [ rewrite (elog1p_gt x) by side | rewrite (elog1p_eq x) by (r_zero; lra) | rewrite (elog1p_lt x) by side ]
  | |- context [ediv (Fin ?x) (Fin ?y)] =>
      first [ rewrite (ediv_fin x y) by side
            | rewrite (ediv_zero_pos x y) by side | rewrite (ediv_zero_neg x y) by side
            | rewrite (ediv_zero_zero x y) by lra ]
  | |- context [epow (Fin ?x) (Fin ?y)] =>
      first [ rewrite (epow_pos x y) by side
            | rewrite (epow_zero_pos x y) by lra | rewrite (epow_zero_neg x y) by lra ]
  | |- context [inf_times ?s ?x] =>
      first [ rewrite (inf_times_pos s x) by side | rewrite (inf_times_neg s x) by side
            | rewrite (inf_times_zero s x) by (r_zero; lra) ]
  | |- context [elgam ?lg (Fin ?x)] =>
      first [ rewrite (elgam_pos lg x) by side
            | rewrite (elgam_pole lg x) by (first [ lra | int_true x ]) ]
  end.

Ltac er_red :=
  cbn [eadd esub emul eneg eabs eexp elerfc egamP eltb eis_nan eis_ninf eis_zero rmap fst snd negb orb andb].

(* use the logged special-function values *)
Ltac use_logged :=
  repeat match goal with
  | H : at1 ?f ?a ?v |- context [?f ?e] => rewrite (H e) by lra
  | H : at2 ?f ?a ?b ?v |- context [?f ?e1 ?e2] => rewrite (H e1 e2) by lra
  end.

Ltac use_near :=
  repeat match goal with
  | H : near1 ?f ?a ?eps ?v ?epsv |- context [?f ?e] =>
      let Hb := fresh in let Hv := fresh in let z := fresh "z" in
      assert (Hb : Rabs (e - a) <= eps) by interval with (i_prec 60);
      pose proof (proj1 (Coquelicot.Rcomplements.Rabs_le_between' _ _ _) (H e Hb)) as Hv;
      clear Hb; set (z := f e) in *; clearbody z
  end.

Ltac solve_case :=
  intros;
  cbv beta iota zeta delta [veval eval with_d P cat_logpdf cat_logcdf cat_cdf cat_pdfm pdf_of nth];
  rewrite ?Ztrunc_IZR, ?Ztrunc_half;
  cbv -[Rplus Rminus Rmult Rdiv Ropp Rinv Rabs exp ln Rpower sqrt PI IZR Rltb Rleb Reqb Rpos Rneg
        is_intb Zfloor Ztrunc
        eadd esub emul ediv eneg eabs eexp elog elog1p epow inf_times elgam elerfc egamP eltb eis_nan eis_ninf eis_zero
        agrees at1 at2 near1];
  er_red; use_logged; repeat (er_step; er_red; use_logged);
  (* a comparison of two values that are EQUAL in exact arithmetic (LogAdd of a partial sum with an equal
     weight) cannot be decided by enclosures: both orders are certified *)
  repeat (match goal with |- context [Rltb ?a ?b] => destruct (Rltb a b) end;
          er_red; repeat (er_step; er_red; use_logged));
  cbv [agrees];
  first [ reflexivity
        | eexists; split; [ reflexivity | use_logged; use_near; interval with (i_prec 60) ] ].

(* one line of output per failing case, the file always compiles *)
Tactic Notation "chk" constr(k) constr(P) :=
  tryif (assert P by solve_case) then idtac else idtac "MISMATCH" k.
