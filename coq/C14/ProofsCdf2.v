(* C14 — CDF lemmas, round 2: Laplace, power law, generalised Pareto, GEV (LogCdf = ln Cdf = ln of the
   textbook cdf inside the support, 0 / 1 outside, monotone), gamma / chi-squared guards, categorical
   partial sums. *)
From Coq Require Import Reals ZArith Bool Lra Lia Psatz List.
From Coquelicot Require Import Coquelicot.
From ADV Require Import Base.Num C14.ER C14.Model C14.Spec C14.ProofsER C14.ProofsCont C14.ProofsCdf.
Import ListNotations.
Open Scope R_scope.

Lemma exp_neg_le_1 a : 0 <= a -> exp (- a) <= 1.
Proof. intro H. destruct (Req_dec a 0) as [->|N]; [rewrite Ropp_0, exp_0; lra|]. left. apply exp_neg_lt_1. lra. Qed.

(* ----------------------------------------------------------------- laplace *)
Lemma laplace_cdf mu sigma : laplace_valid mu sigma ->
  exists d, lap_new mu sigma = Some d /\
    forall x, lap_logcdf d x = Val (Fin (ln (laplace_cdf_spec mu sigma x))) /\
              lap_cdf d x = Val (Fin (laplace_cdf_spec mu sigma x)).
Proof.
  unfold laplace_valid. intro Hs. unfold lap_new. rewrite Rleb_f by lra.
  eexists; split; [reflexivity|]. intro x. unfold lap_cdf, lap_logcdf, laplace_cdf_spec; cbn [l_mu l_sigma l_c2].
  red_er. rewrite ediv_fin by lra. red_er.
  destruct (Rle_dec x mu) as [L|L].
  - rewrite Rltb_f by lra. red_er. rewrite Rabs_left1 by lra.
    assert (E : - (- (x + - mu) / sigma) + - ln 2 = ln (/ 2 * exp (- ((mu - x) / sigma)))).
    { ln_all. fin. }
    rewrite E. split; [reflexivity|]. cbn. do 2 f_equal. apply exp_ln. pos.
  - rewrite Rltb_t by lra. red_er. rewrite Rabs_right by lra. rewrite ediv_fin by lra. red_er.
    assert (Hq : 0 <= (x + - mu) / sigma) by (apply Rmult_le_pos; [lra | left; apply Rinv_0_lt_compat; lra]).
    pose proof (exp_neg_le_1 _ Hq) as H1. pose proof (exp_pos (- ((x + - mu) / sigma))) as H0.
    rewrite elog1p_gt by lra.
    replace (1 + - (exp (- ((x + - mu) / sigma)) / 2)) with (1 - / 2 * exp (- ((x - mu) / sigma)))
      by (replace (x + - mu) with (x - mu) by lra; lra).
    split; [reflexivity|]. cbn. do 2 f_equal. apply exp_ln.
    replace (x - mu) with (x + - mu) by lra. lra.
Qed.
Lemma laplace_cdf_range mu sigma x : 0 < sigma -> 0 < laplace_cdf_spec mu sigma x < 1.
Proof.
  intro Hs. unfold laplace_cdf_spec. destruct (Rle_dec x mu) as [L|L].
  - assert (Hq : 0 <= (mu - x) / sigma) by (apply Rmult_le_pos; [lra | left; apply Rinv_0_lt_compat; lra]).
    pose proof (exp_neg_le_1 _ Hq). pose proof (exp_pos (- ((mu - x) / sigma))). lra.
  - assert (Hq : 0 <= (x - mu) / sigma) by (apply Rmult_le_pos; [lra | left; apply Rinv_0_lt_compat; lra]).
    pose proof (exp_neg_le_1 _ Hq). pose proof (exp_pos (- ((x - mu) / sigma))). lra.
Qed.
Lemma exp_le_mono a b : a <= b -> exp a <= exp b.
Proof. intro H. destruct (Req_dec a b) as [->|N]; [lra|]. left. apply exp_increasing. lra. Qed.
Lemma laplace_cdf_monotone mu sigma x y : 0 < sigma -> x <= y ->
  laplace_cdf_spec mu sigma x <= laplace_cdf_spec mu sigma y.
Proof.
  intros Hs Hxy. unfold laplace_cdf_spec.
  assert (Hi : 0 < / sigma) by (apply Rinv_0_lt_compat; lra).
  destruct (Rle_dec x mu) as [L|L]; destruct (Rle_dec y mu) as [K|K]; try lra.
  - assert (exp (- ((mu - x) / sigma)) <= exp (- ((mu - y) / sigma))) by (apply exp_le_mono; unfold Rdiv; nra). lra.
  - assert (Hq : 0 <= (mu - x) / sigma) by (apply Rmult_le_pos; lra).
    assert (Hr : 0 <= (y - mu) / sigma) by (apply Rmult_le_pos; lra).
    pose proof (exp_neg_le_1 _ Hq). pose proof (exp_neg_le_1 _ Hr). lra.
  - assert (exp (- ((y - mu) / sigma)) <= exp (- ((x - mu) / sigma))) by (apply exp_le_mono; unfold Rdiv; nra). lra.
Qed.
(* the density is the derivative of the cdf (away from the kink of |x - mu|) *)
Lemma laplace_cdf_derive mu sigma x : 0 < sigma -> x <> mu ->
  is_derive (laplace_cdf_spec mu sigma) x (laplace_pdf mu sigma x).
Proof.
  intros Hs Hx. destruct (Rlt_dec x mu) as [L|L].
  - apply (is_derive_ext_loc (fun x => / 2 * exp (- ((mu - x) / sigma)))).
    + exists (mkposreal (mu - x) ltac:(lra)). intros y Hy. unfold ball in Hy; simpl in Hy.
      unfold AbsRing_ball, abs, minus, plus, opp in Hy; simpl in Hy.
      apply Rabs_def2 in Hy. unfold laplace_cdf_spec. destruct (Rle_dec y mu); [reflexivity | lra].
    + unfold laplace_pdf. rewrite Rabs_left by lra. auto_derive; [exact I|]. 
      replace (- (- (x - mu) / sigma)) with (- ((mu + - x) * / sigma)) by (field; lra). field. lra.
  - assert (K : mu < x) by lra.
    apply (is_derive_ext_loc (fun x => 1 - / 2 * exp (- ((x - mu) / sigma)))).
    + exists (mkposreal (x - mu) ltac:(lra)). intros y Hy. unfold ball in Hy; simpl in Hy.
      unfold AbsRing_ball, abs, minus, plus, opp in Hy; simpl in Hy.
      apply Rabs_def2 in Hy. unfold laplace_cdf_spec. destruct (Rle_dec y mu); [lra | reflexivity].
    + unfold laplace_pdf. rewrite Rabs_right by lra. auto_derive; [exact I|].
      replace (- ((x - mu) / sigma)) with (- ((x + - mu) * / sigma)) by (field; lra). field. lra.
Qed.

(* --------------------------------------------------------------- power law *)
Lemma Rpower_lt_1_neg u e : 1 < u -> e < 0 -> Rpower u e < 1.
Proof.
  intros Hu He. unfold Rpower. rewrite <- exp_0. apply exp_increasing.
  assert (0 < ln u) by (rewrite <- ln_1; apply ln_increasing; lra). nra.
Qed.
Lemma Rpower_lt_1_pos u e : 0 < u < 1 -> 0 < e -> Rpower u e < 1.
Proof.
  intros Hu He. unfold Rpower. rewrite <- exp_0. apply exp_increasing.
  assert (ln u < 0) by (rewrite <- ln_1; apply ln_increasing; lra). nra.
Qed.
Lemma powerlaw_cdf alpha xmin : powerlaw_valid alpha xmin ->
  exists d, pl_new alpha xmin = Some d /\
    (forall x, xmin < x -> pl_logcdf d x = Val (Fin (ln (powerlaw_cdf_spec alpha xmin x))) /\
                           pl_cdf d x = Val (Fin (powerlaw_cdf_spec alpha xmin x))) /\
    (forall x, x <= xmin -> pl_logcdf d x = Val NInf /\ pl_cdf d x = Val (Fin 0)).
Proof.
  unfold powerlaw_valid. intros [Ha Hx]. unfold pl_new. rewrite !Rleb_f by lra.
  eexists; split; [reflexivity|]. unfold pl_cdf, pl_logcdf, powerlaw_cdf_spec; cbn [w_xmin w_ca].
  split; intros x H.
  - rewrite Rleb_f by lra. rewrite ediv_fin by lra.
    assert (Hu : 1 < x / xmin) by (apply Rlt_div_r; lra).
    rewrite elog_pos by lra. red_er.
    pose proof (Rpower_lt_1_neg (x / xmin) (1 - alpha) Hu ltac:(lra)) as Hp.
    assert (Hp0 : 0 < Rpower (x / xmin) (1 - alpha)) by (unfold Rpower; apply exp_pos).
    replace (exp (ln (x / xmin) * (1 + - alpha))) with (Rpower (x / xmin) (1 - alpha))
      by (unfold Rpower; f_equal; ring).
    rewrite elog1p_gt by lra.
    replace (1 + - Rpower (x / xmin) (1 - alpha)) with (1 - Rpower (x / xmin) (1 - alpha)) by lra.
    split; [reflexivity|]. cbn. do 2 f_equal. apply exp_ln. lra.
  - rewrite Rleb_t by lra. split; reflexivity.
Qed.
Lemma powerlaw_cdf_at_xmin alpha xmin : 0 < xmin -> powerlaw_cdf_spec alpha xmin xmin = 0.
Proof.
  intro H. unfold powerlaw_cdf_spec. replace (xmin / xmin) with 1 by (field; lra).
  unfold Rpower. rewrite ln_1, Rmult_0_r, exp_0. lra.
Qed.
Lemma powerlaw_cdf_monotone alpha xmin x y : powerlaw_valid alpha xmin -> xmin <= x -> x <= y ->
  0 <= powerlaw_cdf_spec alpha xmin x <= powerlaw_cdf_spec alpha xmin y /\ powerlaw_cdf_spec alpha xmin y < 1.
Proof.
  unfold powerlaw_valid. intros [Ha Hm] Hx Hxy. unfold powerlaw_cdf_spec.
  assert (Hi : 0 < / xmin) by (apply Rinv_0_lt_compat; lra).
  assert (Hu : 1 <= x / xmin) by (apply Rle_div_r; lra).
  assert (Hv : x / xmin <= y / xmin) by (unfold Rdiv; nra).
  assert (L1 : 0 <= ln (x / xmin)).
  { destruct (Req_dec (x / xmin) 1) as [->|N]; [rewrite ln_1; lra|]. left. rewrite <- ln_1. apply ln_increasing; lra. }
  assert (L2 : ln (x / xmin) <= ln (y / xmin)).
  { destruct (Req_dec (x / xmin) (y / xmin)) as [->|N]; [lra|]. left. apply ln_increasing; lra. }
  unfold Rpower.
  assert (exp ((1 - alpha) * ln (y / xmin)) <= exp ((1 - alpha) * ln (x / xmin))) by (apply exp_le_mono; apply Rmult_le_compat_neg_l; lra).
  assert (exp ((1 - alpha) * ln (x / xmin)) <= 1).
  { apply Rle_trans with (exp 0); [|rewrite exp_0; lra]. apply exp_le_mono.
    rewrite <- (Rmult_0_r (1 - alpha)). apply Rmult_le_compat_neg_l; lra. }
  pose proof (exp_pos ((1 - alpha) * ln (y / xmin))). lra.
Qed.

(* ------------------------------------------------------ generalised pareto *)
Lemma gpareto_cdf mu sigma xi : gpareto_valid mu sigma xi ->
  exists d, gp_new mu sigma xi = Some d /\
    (forall x, mu < x -> (xi < 0 -> x < mu - sigma / xi) ->
       gp_logcdf d x = Val (Fin (ln (gpareto_cdf_spec mu sigma xi x))) /\
       gp_cdf d x = Val (Fin (gpareto_cdf_spec mu sigma xi x))) /\
    (forall x, x < mu -> gp_logcdf d x = Val NInf /\ gp_cdf d x = Val (Fin 0)) /\
    (forall x, xi < 0 -> mu - sigma / xi < x -> gp_logcdf d x = Val (Fin 0) /\ gp_cdf d x = Val (Fin 1)).
Proof.
  unfold gpareto_valid. intro Hs. unfold gp_new. rewrite Rleb_f by lra.
  eexists; split; [reflexivity|]. unfold gp_cdf, gp_logcdf, gpareto_cdf_spec; cbn [g_mu g_sigma g_xi g_cx1].
  assert (Hi : 0 < / sigma) by (apply Rinv_0_lt_compat; lra).
  split; [|split].
  - intros x H1 H2. rewrite Rltb_f by lra.
    assert (G : negb (Rleb 0 xi) && Rltb (mu - sigma / xi) x = false).
    { destruct (Rle_dec 0 xi) as [L|L]; [rewrite Rleb_t by lra; reflexivity|].
      rewrite Rleb_f by lra. rewrite Rltb_f by (specialize (H2 ltac:(lra)); lra). reflexivity. }
    rewrite G. red_er. rewrite (ediv_fin (x + - mu)) by lra.
    assert (Hz : 0 < (x + - mu) / sigma) by (apply Rmult_lt_0_compat; lra).
    destruct (Req_EM_T xi 0) as [Z|NZ].
    + rewrite Reqb_t by lra. red_er. pose proof (exp_neg_lt_1 _ Hz) as He.
      pose proof (exp_pos (- ((x + - mu) / sigma))).
      rewrite elog1p_gt by lra. replace (x - mu) with (x + - mu) by lra.
      replace (1 + - exp (- ((x + - mu) / sigma))) with (1 - exp (- ((x + - mu) / sigma))) by lra.
      split; [reflexivity|]. cbn. do 2 f_equal. apply exp_ln. lra.
    + rewrite Reqb_f by lra. red_er. rewrite (ediv_fin 1 xi) by lra. red_er.
      set (t := (x + - mu) / sigma * xi + 1).
      assert (Et : 1 + xi * ((x - mu) / sigma) = t) by (unfold t; field; lra). rewrite Et.
      assert (Ht : 0 < t /\ Rpower t (- (1 / xi)) < 1).
      { destruct (Rlt_dec xi 0) as [L|L].
        - assert (t < 1) by (unfold t; nra).
          assert (0 < t).
          { specialize (H2 L). unfold t.
            assert ((x + - mu) * (- xi) < sigma).
            { assert (- sigma / xi * (- xi) = sigma) by (field; lra).
              assert ((x + - mu) * - xi < - sigma / xi * - xi) by (apply Rmult_lt_compat_r; [lra|]; unfold Rdiv in *; lra).
              lra. }
            replace ((x + - mu) / sigma * xi + 1) with ((sigma - (x + - mu) * - xi) * / sigma) by (field; lra).
            apply Rmult_lt_0_compat; lra. }
          split; [lra|]. apply Rpower_lt_1_pos; [lra|].
          assert (0 < / - xi) by (apply Rinv_0_lt_compat; lra).
          replace (- (1 / xi)) with (/ - xi) by (field; lra). lra.
        - assert (0 < xi) by lra. assert (1 < t) by (unfold t; nra).
          split; [lra|]. apply Rpower_lt_1_neg; [lra|].
          assert (0 < / xi) by (apply Rinv_0_lt_compat; lra). unfold Rdiv. lra. }
      destruct Ht as [Ht0 Ht1]. rewrite epow_pos by exact Ht0. red_er.
      assert (0 < Rpower t (- (1 / xi))) by (unfold Rpower; apply exp_pos).
      rewrite elog1p_gt by lra.
      replace (1 + - Rpower t (- (1 / xi))) with (1 - Rpower t (- (1 / xi))) by lra.
      split; [reflexivity|]. cbn. do 2 f_equal. apply exp_ln. lra.
  - intros x H. rewrite Rltb_t by lra. split; reflexivity.
  - intros x Hxi H.
    assert (0 < - sigma / xi) by (replace (- sigma / xi) with (sigma * / - xi) by (field; lra);
      apply Rmult_lt_0_compat; [lra | apply Rinv_0_lt_compat; lra]).
    rewrite Rltb_f by (unfold Rdiv in *; lra). rewrite Rleb_f by lra. rewrite Rltb_t by lra. cbn [negb andb rmap eexp].
    rewrite exp_0. split; reflexivity.
Qed.

(* --------------------------------------------------------------------- gev *)
Lemma gev_cdf mu sigma xi : gev_valid mu sigma xi ->
  exists d, gev_new mu sigma xi = Some d /\
    (forall x, gev_support mu sigma xi x ->
       gev_logcdf d x = Val (Fin (ln (gev_cdf_spec mu sigma xi x))) /\
       gev_cdf d x = Val (Fin (gev_cdf_spec mu sigma xi x))) /\
    (forall x, ~ gev_support mu sigma xi x -> xi < 0 -> gev_logcdf d x = Val (Fin 0) /\ gev_cdf d x = Val (Fin 1)) /\
    (forall x, ~ gev_support mu sigma xi x -> 0 <= xi -> gev_logcdf d x = Val NInf /\ gev_cdf d x = Val (Fin 0)).
Proof.
  unfold gev_valid, gev_support. intro Hs. unfold gev_new. rewrite Rleb_f by lra.
  eexists; split; [reflexivity|]. unfold gev_cdf, gev_logcdf, gev_guard, gev_cdf_spec, gev_t; cbn [v_mu v_sigma v_xi v_cx].
  split; [|split].
  - intros x Hx. rewrite Rleb_f by lra. red_er. rewrite (ediv_fin (x + - mu)) by lra.
    destruct (Req_EM_T xi 0) as [Z|NZ].
    + rewrite Reqb_t by lra. red_er. rewrite ln_exp. replace (x - mu) with (x + - mu) by lra.
      split; reflexivity.
    + rewrite Reqb_f by lra. red_er. rewrite (ediv_fin 1 xi) by lra. red_er.
      assert (Ht : 0 < (x + - mu) / sigma * xi + 1).
      { replace ((x + - mu) / sigma * xi) with (xi * (x - mu) / sigma) by (field; lra). lra. }
      rewrite epow_pos by exact Ht. red_er. rewrite ln_exp.
      replace (1 + xi * ((x - mu) / sigma)) with ((x + - mu) / sigma * xi + 1) by (field; lra).
      split; reflexivity.
  - intros x Hn Hxi. assert (xi * (x - mu) / sigma <= -1) by lra. rewrite Rleb_t by lra.
    rewrite Rltb_t by lra. cbn [rmap eexp]. rewrite exp_0. split; reflexivity.
  - intros x Hn Hxi. assert (xi * (x - mu) / sigma <= -1) by lra. rewrite Rleb_t by lra.
    rewrite Rltb_f by lra. split; reflexivity.
Qed.
Lemma gev_cdf_range mu sigma xi x : 0 < gev_cdf_spec mu sigma xi x < 1.
Proof.
  unfold gev_cdf_spec. split; [apply exp_pos|]. apply exp_neg_lt_1.
  unfold gev_t. destruct (Req_EM_T xi 0); [apply exp_pos | unfold Rpower; apply exp_pos].
Qed.

(* ------------------------------------------------- gamma / chi-squared cdf *)
Section GamP.
Variables (lgam : R -> R) (gamP : R -> R -> R).
Lemma gamma_cdf alpha beta : gamma_valid alpha beta ->
  exists d, gam_new lgam alpha beta = Some d /\
    (forall x, 0 < x -> gam_cdf gamP d x = Val (Fin (gamP alpha (x * beta))) /\
                        gam_logcdf gamP d x = Val (elog (Fin (gamP alpha (x * beta))))) /\
    (forall x, x <= 0 -> gam_cdf gamP d x = Val (Fin 0) /\ gam_logcdf gamP d x = Val NInf).
Proof.
  unfold gamma_valid. intros [Ha Hb]. unfold gam_new. rewrite !Rleb_f by lra. cbn [orb].
  eexists; split; [reflexivity|]. unfold gam_logcdf, gam_cdf; cbn [a_alpha a_beta].
  split; intros x Hx.
  - rewrite !Rleb_f by lra. split; reflexivity.
  - rewrite !Rleb_t by lra. split; reflexivity.
Qed.
Lemma chisq_cdf k : chisq_valid k ->
  exists d, chi_new lgam k = Some d /\
    (forall x, 0 < x -> chi_cdf gamP d x = Val (Fin (gamP (k / 2) (x / 2))) /\
                        chi_logcdf gamP d x = Val (elog (Fin (gamP (k / 2) (x / 2))))) /\
    (forall x, x <= 0 -> chi_cdf gamP d x = Val (Fin 0) /\ chi_logcdf gamP d x = Val NInf).
Proof.
  unfold chisq_valid. intro Hk. unfold chi_new. rewrite Rleb_f by lra.
  eexists; split; [reflexivity|]. unfold chi_logcdf, chi_cdf; cbn [h_l h_c].
  split; intros x Hx.
  - rewrite !Rleb_f by lra. rewrite ediv_fin by lra. split; reflexivity.
  - rewrite !Rleb_t by lra. split; reflexivity.
Qed.
End GamP.
