(* C14 — model of statistics/vectorDistribution/skewnormal.go (HEAD): Azzalini's multivariate skew normal.
   The constructor builds kappa = diag(scale) omega diag(scale), a vector normal Normal1 = N(xi, kappa)
   (VModel.vn_new: inverse and determinant of kappa enter as logged data, they are the exported fields
   Normal1.SigmaInv / SigmaDet) and a standard scalar normal Normal2 = N(0,1), and caches l2 = ln 2.
   LogPdf: z_i = (x_i - xi_i) / scale_i; t = alpha . z; Normal1.LogPdf(x) + Normal2.LogCdf(t) + l2.
   No proofs in this file. *)
From Coq Require Import Reals ZArith Bool List.
From ADV Require Import Base.Num C14.ER C14.Model C14.VModel.
Import ListNotations.
Open Scope R_scope.

(* kappa.At(i,j) = (scale_i * scale_j) * omega_ij *)
Definition sk_kappa (omega : list (list R)) (scale : list R) : list (list R) :=
  map (fun p => map (fun q => (snd p * snd q) * fst q) (combine (fst p) scale)) (combine omega scale).

Section Skew.
Variable lerfc : R -> R.

Record sk_d := { sk_n1 : vn_d; sk_n2 : normal_d; sk_alpha : list R; sk_scale : list R; sk_l2 : ER }.

(* n, m = omega.Dims(); kinv / kdet: matrixInverse / determinant of kappa as Normal1 stores them *)
Definition sk_new (xi : list R) (omega : list (list R)) (alpha scale : list R) (kinv : list (list R)) (kdet : R)
  : option sk_d :=
  let n := length omega in
  let m := length (nth 0 omega []) in
  if negb ((n =? length xi)%nat && (n =? length alpha)%nat && (n =? length scale)%nat && (n =? m)%nat) then None else
  match vn_new xi kinv kdet with
  | None => None
  | Some n1 =>
      match normal_new 0 1 with
      | None => None
      | Some n2 => Some {| sk_n1 := n1; sk_n2 := n2; sk_alpha := alpha; sk_scale := scale; sk_l2 := Fin (ln 2) |}
      end
  end.

(* z.At(i).Div(t.Sub(x_i, mu_i), scale_i) *)
Definition sk_z (x mu scale : list R) : list R :=
  map (fun p => (fst (fst p) - snd (fst p)) / snd p) (combine (combine x mu) scale).

Definition sk_logpdf (d : sk_d) (x : list R) : res :=
  let n := length (vn_mu (sk_n1 d)) in
  if (length x <? n)%nat then Panic else                 (* x.ConstAt(i) out of range *)
  if existsb (fun s => Reqb s 0) (sk_scale d) then NoSuch else  (* division by a zero scale: outside the model
                                                                   (kappa is then singular: the constructor fails) *)
  let t := dot (sk_alpha d) (sk_z x (vn_mu (sk_n1 d)) (sk_scale d)) in
  match vn_logpdf (sk_n1 d) x with
  | Val r1 =>
      match normal_logcdf lerfc (sk_n2 d) t with
      | Val r2 => Val (eadd (eadd r1 r2) (sk_l2 d))
      | e => e
      end
  | e => e
  end.

Definition skew_eval (xi : list R) (omega : list (list R)) (alpha scale : list R) (kinv : list (list R)) (kdet : R)
    (x : list R) : res :=
  match sk_new xi omega alpha scale kinv kdet with
  | Some d => sk_logpdf d x
  | None => CtorErr
  end.
End Skew.
