(* C14 — normalisation lemmas (elementary antiderivative / geometric series). *)
From Coq Require Import Reals ZArith Bool Lra Psatz List.
From Coquelicot Require Import Coquelicot.
From ADV Require Import Base.Num C14.ER C14.Model C14.Spec C14.ProofsER C14.ProofsCont C14.ProofsCdf.
Open Scope R_scope.

Lemma is_series_eq (a : nat -> R) (l l' : R) : l = l' -> is_series a l -> is_series a l'.
Proof. intros ->. auto. Qed.

(* geometric: sum_k (1-p)^k p = 1 *)
Lemma geometric_norm p : 0 < p < 1 -> is_series (fun k => geometric_pmf p (Z.of_nat k)) 1.
Proof.
  intros [H0 H1].
  assert (Habs : Rabs (1 - p) < 1) by (rewrite Rabs_pos_eq; lra).
  pose proof (is_series_scal p (fun k => (1 - p) ^ k) _ (is_series_geom (1 - p) Habs)) as HS.
  assert (HS' : is_series (fun n : nat => scal p ((1 - p) ^ n)) 1).
  { apply (is_series_eq _ (p * / (1 - (1 - p)))); [field; lra | exact HS]. }
  eapply is_series_ext; [| exact HS'].
  intro k. unfold geometric_pmf. rewrite <- INR_IZR_INZ. rewrite Rpower_pow by lra.
  unfold scal; simpl; unfold mult; simpl. ring.
Qed.

(* exponential: the density integrates to the cdf on [0,b], and the cdf tends to 1 *)
Lemma exponential_integral lambda b : 
  is_RInt (exponential_pdf lambda) 0 b (exponential_cdf_spec lambda b).
Proof.
  replace (exponential_cdf_spec lambda b)
    with (minus (exponential_cdf_spec lambda b) (exponential_cdf_spec lambda 0)).
  2:{ rewrite exponential_cdf_at_0. unfold minus, plus, opp; simpl. lra. }
  apply (is_RInt_derive (exponential_cdf_spec lambda) (exponential_pdf lambda)).
  - intros x _. apply exponential_cdf_derive.
  - intros x _. apply (ex_derive_continuous (exponential_pdf lambda)).
    unfold exponential_pdf. auto_derive. exact I.
Qed.
Lemma exponential_cdf_limit lambda : 0 < lambda -> is_lim (exponential_cdf_spec lambda) p_infty 1.
Proof.
  intro Hl. unfold exponential_cdf_spec.
  apply (is_lim_minus (fun _ => 1) (fun b => exp (- (lambda * b))) p_infty 1 0).
  - apply is_lim_const.
  - apply (is_lim_comp exp (fun b => - (lambda * b)) p_infty 0 m_infty).
    + apply is_lim_exp_m.
    + replace m_infty with (Rbar_opp p_infty) by reflexivity. apply is_lim_opp.
      assert (HL : is_lim (fun b => lambda * b) p_infty (Rbar_mult lambda p_infty))
        by (apply (is_lim_scal_l (fun b => b) lambda p_infty p_infty); apply is_lim_id).
      assert (EM : Rbar_mult lambda p_infty = p_infty).
      { simpl. destruct (Rle_dec 0 lambda) as [L|L]; [|lra].
        destruct (Rle_lt_or_eq_dec 0 lambda L); [reflexivity | lra]. }
      rewrite EM in HL. exact HL.
    + exists 0. intros x _. discriminate.
  - unfold is_Rbar_minus, is_Rbar_plus. simpl. do 2 f_equal. lra.
Qed.
(* together: the improper integral of the density over [0, inf) is 1 *)
Lemma exponential_norm lambda : 0 < lambda ->
  (forall b, is_RInt (exponential_pdf lambda) 0 b (exponential_cdf_spec lambda b)) /\
  is_lim (exponential_cdf_spec lambda) p_infty 1.
Proof. intro Hl. split; [intro b; apply exponential_integral | apply exponential_cdf_limit; exact Hl]. Qed.
