(* C14 — normalisation, round 2: the densities of the elementary-antiderivative families integrate to
   their cdf (is_RInt) and the cdf tends to 1 (Pareto, power law; Laplace limits at both ends). *)
From Coq Require Import Reals ZArith Bool Lra Psatz List.
From Coquelicot Require Import Coquelicot.
From ADV Require Import Base.Num C14.ER C14.Model C14.Spec C14.ProofsER C14.ProofsCont C14.ProofsCdf C14.ProofsCdf2.
Open Scope R_scope.

Lemma Rbar_mult_pos_p_infty a : 0 < a -> Rbar_mult a p_infty = p_infty.
Proof.
  intro H. simpl. destruct (Rle_dec 0 a) as [L|L]; [|lra].
  destruct (Rle_lt_or_eq_dec 0 a L); [reflexivity | lra].
Qed.
(* exp (- (a x + b)) -> 0 at +inf for a > 0 *)
Lemma lim_exp_neg_affine a b : 0 < a -> is_lim (fun x => exp (- (a * x + b))) p_infty 0.
Proof.
  intro Ha.
  apply (is_lim_comp exp (fun x => - (a * x + b)) p_infty 0 m_infty).
  - apply is_lim_exp_m.
  - replace m_infty with (Rbar_opp p_infty) by reflexivity. apply is_lim_opp.
    apply (is_lim_plus (fun x => a * x) (fun _ => b) p_infty p_infty b p_infty).
    + assert (HL : is_lim (fun x => a * x) p_infty (Rbar_mult a p_infty))
        by (apply (is_lim_scal_l (fun x => x) a p_infty p_infty); apply is_lim_id).
      rewrite (Rbar_mult_pos_p_infty a Ha) in HL. exact HL.
    + apply is_lim_const.
    + reflexivity.
  - exists 0. intros x _. discriminate.
Qed.

(* Laplace: the cdf tends to 1 at +inf and to 0 at -inf *)
Lemma laplace_cdf_limit_right mu sigma : 0 < sigma -> is_lim (laplace_cdf_spec mu sigma) p_infty 1.
Proof.
  intro Hs.
  apply (is_lim_ext_loc (fun x => 1 - / 2 * exp (- (/ sigma * x + - mu / sigma)))).
  { exists mu. intros x Hx. unfold laplace_cdf_spec. destruct (Rle_dec x mu); [lra|].
    do 3 f_equal. field. lra. }
  replace (Finite 1) with (Rbar_minus 1 (Rbar_mult (/ 2) 0)) by (simpl; f_equal; lra).
  apply is_lim_minus'; [apply is_lim_const|].
  apply (is_lim_scal_l (fun x => exp (- (/ sigma * x + - mu / sigma))) (/ 2) p_infty 0).
  apply lim_exp_neg_affine. apply Rinv_0_lt_compat; lra.
Qed.
Lemma laplace_cdf_limit_left mu sigma : 0 < sigma -> is_lim (laplace_cdf_spec mu sigma) m_infty 0.
Proof.
  intro Hs.
  apply (is_lim_ext_loc (fun x => / 2 * exp (- (/ sigma * (- x) + mu / sigma)))).
  { exists mu. intros x Hx. unfold laplace_cdf_spec. destruct (Rle_dec x mu); [|lra].
    do 3 f_equal. field. lra. }
  replace (Finite 0) with (Rbar_mult (/ 2) 0) by (simpl; f_equal; lra).
  apply (is_lim_scal_l (fun x => exp (- (/ sigma * (- x) + mu / sigma))) (/ 2) m_infty 0).
  apply (is_lim_comp (fun y => exp (- (/ sigma * y + mu / sigma))) (fun x => - x) m_infty 0 p_infty).
  - apply lim_exp_neg_affine. apply Rinv_0_lt_compat; lra.
  - replace p_infty with (Rbar_opp m_infty) by reflexivity. apply is_lim_opp. apply is_lim_id.
  - exists 0. intros x _. discriminate.
Qed.

(* Pareto: d/dx cdf = pdf on (0, inf); the density integrates to the cdf on [lambda, b]; the cdf tends to 1 *)
Lemma pareto_cdf_derive lambda kappa x : 0 < lambda -> 0 < x ->
  is_derive (pareto_cdf_spec lambda kappa) x (pareto_pdf lambda kappa x).
Proof.
  intros Hl Hx. unfold pareto_cdf_spec, pareto_pdf, Rpower.
  assert (Hi : 0 < / x) by (apply Rinv_0_lt_compat; lra).
  auto_derive.
  - split; [lra|]. split; [apply Rmult_lt_0_compat; lra | exact I].
  - unfold Rdiv. rewrite ln_mult, ln_Rinv by lra.
    replace ((kappa + 1) * ln x) with (kappa * ln x + ln x) by ring.
    rewrite exp_plus, exp_ln by lra.
    replace (kappa * (ln lambda + - ln x)) with (kappa * ln lambda + - (kappa * ln x)) by ring.
    rewrite exp_plus, exp_Ropp. pose proof (exp_pos (kappa * ln x)). field. split; lra.
Qed.
Lemma pareto_cdf_at_lambda lambda kappa : 0 < lambda -> pareto_cdf_spec lambda kappa lambda = 0.
Proof.
  intro H. unfold pareto_cdf_spec. replace (lambda / lambda) with 1 by (field; lra).
  unfold Rpower. rewrite ln_1, Rmult_0_r, exp_0. lra.
Qed.
Lemma pareto_integral lambda kappa b : 0 < lambda -> lambda <= b ->
  is_RInt (pareto_pdf lambda kappa) lambda b (pareto_cdf_spec lambda kappa b).
Proof.
  intros Hl Hb.
  replace (pareto_cdf_spec lambda kappa b)
    with (minus (pareto_cdf_spec lambda kappa b) (pareto_cdf_spec lambda kappa lambda)).
  2:{ rewrite pareto_cdf_at_lambda by lra. unfold minus, plus, opp; simpl. lra. }
  apply (is_RInt_derive (pareto_cdf_spec lambda kappa) (pareto_pdf lambda kappa)).
  - intros x Hx. rewrite Rmin_left, Rmax_right in Hx by lra. apply pareto_cdf_derive; lra.
  - intros x Hx. rewrite Rmin_left, Rmax_right in Hx by lra.
    apply (ex_derive_continuous (pareto_pdf lambda kappa)).
    unfold pareto_pdf, Rpower. auto_derive. split; [lra|]. split; [|exact I].
    apply Rgt_not_eq. apply exp_pos.
Qed.
Lemma pareto_cdf_limit lambda kappa : 0 < lambda -> 0 < kappa -> is_lim (pareto_cdf_spec lambda kappa) p_infty 1.
Proof.
  intros Hl Hk.
  apply (is_lim_ext_loc (fun x => 1 - exp (- (kappa * ln x + - (kappa * ln lambda))))).
  { exists 0. intros x Hx. unfold pareto_cdf_spec, Rpower. do 2 f_equal. unfold Rdiv.
    rewrite ln_mult, ln_Rinv by (try apply Rinv_0_lt_compat; lra). ring. }
  replace (Finite 1) with (Rbar_minus 1 0) by (simpl; f_equal; lra).
  apply is_lim_minus'; [apply is_lim_const|].
  apply (is_lim_comp (fun y => exp (- (kappa * y + - (kappa * ln lambda)))) ln p_infty 0 p_infty).
  - apply lim_exp_neg_affine; lra.
  - apply is_lim_ln_p.
  - exists 0. intros x _. discriminate.
Qed.
(* together: the improper integral of the Pareto density over [lambda, inf) is 1 *)
Lemma pareto_norm lambda kappa : pareto_valid lambda kappa ->
  (forall b, lambda <= b -> is_RInt (pareto_pdf lambda kappa) lambda b (pareto_cdf_spec lambda kappa b)) /\
  is_lim (pareto_cdf_spec lambda kappa) p_infty 1.
Proof.
  intros [Hl Hk]. split; [intros b Hb; apply pareto_integral; lra | apply pareto_cdf_limit; lra].
Qed.

(* power law *)
Lemma powerlaw_cdf_derive alpha xmin x : 0 < xmin -> 0 < x ->
  is_derive (powerlaw_cdf_spec alpha xmin) x (powerlaw_pdf alpha xmin x).
Proof.
  intros Hm Hx. unfold powerlaw_cdf_spec, powerlaw_pdf, Rpower.
  assert (Hi : 0 < / xmin) by (apply Rinv_0_lt_compat; lra).
  assert (Hq : 0 < x / xmin) by (apply Rmult_lt_0_compat; lra).
  auto_derive.
  - exact Hq.
  - change (x * / xmin) with (x / xmin).
    replace ((1 - alpha) * ln (x / xmin)) with (- alpha * ln (x / xmin) + ln (x / xmin)) by ring.
    rewrite exp_plus, exp_ln by exact Hq. field. lra.
Qed.
Lemma powerlaw_integral alpha xmin b : 0 < xmin -> xmin <= b ->
  is_RInt (powerlaw_pdf alpha xmin) xmin b (powerlaw_cdf_spec alpha xmin b).
Proof.
  intros Hm Hb.
  replace (powerlaw_cdf_spec alpha xmin b)
    with (minus (powerlaw_cdf_spec alpha xmin b) (powerlaw_cdf_spec alpha xmin xmin)).
  2:{ rewrite powerlaw_cdf_at_xmin by lra. unfold minus, plus, opp; simpl. lra. }
  apply (is_RInt_derive (powerlaw_cdf_spec alpha xmin) (powerlaw_pdf alpha xmin)).
  - intros x Hx. rewrite Rmin_left, Rmax_right in Hx by lra. apply powerlaw_cdf_derive; lra.
  - intros x Hx. rewrite Rmin_left, Rmax_right in Hx by lra.
    apply (ex_derive_continuous (powerlaw_pdf alpha xmin)).
    unfold powerlaw_pdf, Rpower. auto_derive.
    repeat split; try lra; try (apply Rmult_lt_0_compat; [lra | apply Rinv_0_lt_compat; lra]).
Qed.
Lemma powerlaw_cdf_limit alpha xmin : 1 < alpha -> 0 < xmin -> is_lim (powerlaw_cdf_spec alpha xmin) p_infty 1.
Proof.
  intros Ha Hm.
  apply (is_lim_ext_loc (fun x => 1 - exp (- ((alpha - 1) * ln x + - ((alpha - 1) * ln xmin))))).
  { exists 0. intros x Hx. unfold powerlaw_cdf_spec, Rpower. do 2 f_equal. unfold Rdiv.
    rewrite ln_mult, ln_Rinv by (try apply Rinv_0_lt_compat; lra). ring. }
  replace (Finite 1) with (Rbar_minus 1 0) by (simpl; f_equal; lra).
  apply is_lim_minus'; [apply is_lim_const|].
  apply (is_lim_comp (fun y => exp (- ((alpha - 1) * y + - ((alpha - 1) * ln xmin)))) ln p_infty 0 p_infty).
  - apply lim_exp_neg_affine; lra.
  - apply is_lim_ln_p.
  - exists 0. intros x _. discriminate.
Qed.
Lemma powerlaw_norm alpha xmin : powerlaw_valid alpha xmin ->
  (forall b, xmin <= b -> is_RInt (powerlaw_pdf alpha xmin) xmin b (powerlaw_cdf_spec alpha xmin b)) /\
  is_lim (powerlaw_cdf_spec alpha xmin) p_infty 1.
Proof.
  intros [Ha Hm]. split; [intros b Hb; apply powerlaw_integral; lra | apply powerlaw_cdf_limit; lra].
Qed.
Lemma laplace_limits mu sigma : laplace_valid mu sigma ->
  is_lim (laplace_cdf_spec mu sigma) m_infty 0 /\ is_lim (laplace_cdf_spec mu sigma) p_infty 1.
Proof. intro H. split; [apply laplace_cdf_limit_left | apply laplace_cdf_limit_right]; exact H. Qed.
