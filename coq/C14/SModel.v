(* C14 — distributions as STATE: the records of Model.v (parameters + the constants the constructors
   cache: z, c1, c2, np1, LambdaLog, kappa1p, cx, cy, ...) with every exported mutator of
   statistics/scalarDistribution as a transition, statement by statement and in the order of the Go
   source (HEAD):

     SetParameters / ImportConfig   `if tmp, err := NewX(...); err != nil { return err } else { *dist = *tmp }`
                                    (every family but the two below; the parameter indices, the exp() that
                                    binomial applies to parameters.At(0), the `== 1.0` of beta's logScale are
                                    as coded; an error leaves the state untouched)
     BinomialDistribution.SetN      in place: n.SetFloat64; np1.SetFloat64; z.Lgamma(np1)   (ORDER matters)
     CategoricalDistribution.SetParameters   in place: Theta.Set(parameters) (panics on a dimension mismatch)
     Clone                          either through the constructor on the current parameters (normal, beta,
                                    binomial [exp(Theta), int(n)], cauchy, chi-squared, gamma, generalised gamma,
                                    negative binomial) or field by field INCLUDING the cached constants
                                    (categorical, delta, exponential, geometric, gev, gpareto, laplace, pareto,
                                    poisson, power law)
     GetParameters / ExportConfig   what the object reports (binomial: log theta; categorical: log theta /
                                    exp of it in the configuration)

   The inventory of mutators is checked against the Go source on every run (harness/c14 --extra inventory,
   go/ast).  A history is a list of [hop]; [heval] = constructor, history, then one method call.
   No proofs in this file. *)
From Coq Require Import Reals ZArith Bool List.
From Flocq Require Import Core.Raux.
From ADV Require Import Base.Num C14.ER C14.Model.
Import ListNotations.
Open Scope R_scope.

(* result of a mutator: new state, a nil dereference / index panic, or an input outside the model
   (a non-finite parameter handed to a constructor) *)
Inductive hres (D : Type) := HOk (d : D) | HPanic | HOut.
Arguments HOk {D} d. Arguments HPanic {D}. Arguments HOut {D}.
Definition hbind {D} (r : hres D) (k : D -> hres D) : hres D :=
  match r with HOk d => k d | HPanic => HPanic | HOut => HOut end.

(* `if tmp, err := New(...); err != nil { return err } else { *dist = *tmp }` *)
Definition assign_or_keep {D} (d : D) (tmp : option D) : hres D :=
  match tmp with Some d' => HOk d' | None => HOk d end.
(* `r, _ := New(...); return r`: a nil pointer when the constructor refuses *)
Definition new_or_nil {D} (tmp : option D) : hres D :=
  match tmp with Some d' => HOk d' | None => HPanic end.

(* all entries of a parameter vector finite *)
Fixpoint fin_all (p : list ER) : option (list R) :=
  match p with
  | [] => Some []
  | Fin x :: q => match fin_all q with Some l => Some (x :: l) | None => None end
  | _ => None
  end.
Definition with_fin {D} (p : list ER) (k : list R -> hres D) : hres D :=
  match fin_all p with Some q => k q | None => HOut end.
Definition FL (l : list R) : list ER := map Fin l.

(* the mutators of one family *)
Record mut_ops (D : Type) := {
  m_set : D -> list ER -> hres D;      (* SetParameters(p) *)
  m_imp : D -> list ER -> hres D;      (* ImportConfig of a configuration holding the floats p *)
  m_clone : D -> hres D;               (* d = d.Clone() *)
  m_get : D -> list ER;                (* GetParameters() *)
  m_exp : D -> list ER;                (* the floats ExportConfig() writes *)
  m_setn : D -> Z -> hres D }.         (* SetN(n) (binomial; identity elsewhere: no such method) *)
Arguments m_set {D}. Arguments m_imp {D}. Arguments m_clone {D}. Arguments m_get {D}.
Arguments m_exp {D}. Arguments m_setn {D}.

Inductive hop :=
| HSet (p : list R)      (* SetParameters(p) *)
| HImp (p : list R)      (* ImportConfig({p}) *)
| HClone                 (* continue with the clone *)
| HGetSet                (* SetParameters(GetParameters()) *)
| HExpImp                (* ImportConfig(ExportConfig()) *)
| HSetN (n : Z).         (* SetN(n) *)

Definition hstep {D} (o : mut_ops D) (d : D) (h : hop) : hres D :=
  match h with
  | HSet p => m_set o d (FL p)
  | HImp p => m_imp o d (FL p)
  | HClone => m_clone o d
  | HGetSet => m_set o d (m_get o d)
  | HExpImp => m_imp o d (m_exp o d)
  | HSetN n => m_setn o d n
  end.
Fixpoint hrun {D} (o : mut_ops D) (d : D) (ops : list hop) : hres D :=
  match ops with
  | [] => HOk d
  | h :: t => hbind (hstep o d h) (fun d' => hrun o d' t)
  end.

Section SModel.
Variables (lgam : R -> R).
Notation LG := (elgam lgam).
Notation F := Fin (only parsing).

(* a family all of whose mutators go through the constructor: ctor args are positions of the vector *)
Definition recon_ops {D} (new : list R -> option D) (get : D -> list R) (clone : D -> hres D) : mut_ops D :=
  {| m_set := fun d p => with_fin p (fun q => assign_or_keep d (new q));
     m_imp := fun d p => with_fin p (fun q => assign_or_keep d (new q));
     m_clone := clone;
     m_get := fun d => FL (get d);
     m_exp := fun d => FL (get d);
     m_setn := fun d _ => HOk d |}.

(* ------------------------------------------------------------------ normal *)
Definition normal_newv (p : list R) := normal_new (P p 0) (P p 1).
Definition normal_ops : mut_ops normal_d :=
  recon_ops normal_newv normal_get (fun d => new_or_nil (normal_new (n_mu d) (n_sigma d))).

(* ------------------------------------------------------------- exponential *)
Definition exp_newv (p : list R) := exp_new (P p 0).
Definition exp_ops : mut_ops exp_d :=
  recon_ops exp_newv exp_get
    (fun d => HOk {| e_lambda := e_lambda d; e_lambdalog := e_lambdalog d |}).

(* ----------------------------------------------------------------- laplace *)
Definition lap_newv (p : list R) := lap_new (P p 0) (P p 1).
Definition lap_ops : mut_ops lap_d :=
  recon_ops lap_newv lap_get
    (fun d => HOk {| l_mu := l_mu d; l_sigma := l_sigma d; l_c1 := l_c1 d; l_c2 := l_c2 d; l_z := l_z d |}).

(* ------------------------------------------------------------------ pareto *)
Definition par_newv (p : list R) := par_new (P p 0) (P p 1).
Definition par_ops : mut_ops par_d :=
  recon_ops par_newv par_get
    (fun d => HOk {| p_lambda := p_lambda d; p_kappa := p_kappa d; p_kappa1p := p_kappa1p d; p_z := p_z d |}).

(* ------------------------------------------------------ generalised pareto *)
Definition gp_newv (p : list R) := gp_new (P p 0) (P p 1) (P p 2).
Definition gp_ops : mut_ops gp_d :=
  recon_ops gp_newv gp_get
    (fun d => HOk {| g_mu := g_mu d; g_sigma := g_sigma d; g_xi := g_xi d;
                     g_cx1 := g_cx1 d; g_cx2 := g_cx2 d; g_cs := g_cs d |}).

(* --------------------------------------------------------------------- gev *)
Definition gev_newv (p : list R) := gev_new (P p 0) (P p 1) (P p 2).
Definition gev_ops : mut_ops gev_d :=
  recon_ops gev_newv gev_get
    (fun d => HOk {| v_mu := v_mu d; v_sigma := v_sigma d; v_xi := v_xi d; v_cx := v_cx d; v_cy := v_cy d |}).

(* ------------------------------------------------------------------- gamma *)
Definition gam_newv (p : list R) := gam_new lgam (P p 0) (P p 1).
Definition gam_ops : mut_ops gam_d :=
  recon_ops gam_newv gam_get (fun d => new_or_nil (gam_new lgam (a_alpha d) (a_beta d))).

(* -------------------------------------------------------------------- beta *)
Definition beta_newv (p : list R) := beta_new lgam (P p 0) (P p 1) (Reqb (P p 2) 1).
Definition beta_ops : mut_ops beta_d :=
  recon_ops beta_newv beta_get (fun d => new_or_nil (beta_new lgam (b_alpha d) (b_beta d) (b_log d))).

(* ---------------------------------------------------------------- binomial *)
(* field updates of the in-place mutator *)
Definition bin_with_n (d : bin_d) (v : R) : bin_d :=
  {| i_theta := i_theta d; i_n := v; i_np1 := i_np1 d; i_z := i_z d; i_c1 := i_c1 d; i_ct := i_ct d |}.
Definition bin_with_np1 (d : bin_d) (v : R) : bin_d :=
  {| i_theta := i_theta d; i_n := i_n d; i_np1 := v; i_z := i_z d; i_c1 := i_c1 d; i_ct := i_ct d |}.
Definition bin_with_z (d : bin_d) (v : ER) : bin_d :=
  {| i_theta := i_theta d; i_n := i_n d; i_np1 := i_np1 d; i_z := v; i_c1 := i_c1 d; i_ct := i_ct d |}.
(* SetN: if n < 0 { return error }; n.SetFloat64(n+0); np1.SetFloat64(n+1); z.Lgamma(np1) *)
Definition bin_setn (d : bin_d) (n : Z) : hres bin_d :=
  if (n <? 0)%Z then HOk d else
  let d := bin_with_n d (IZR (n + 0)) in
  let d := bin_with_np1 d (IZR (n + 1)) in
  let d := bin_with_z d (LG (F (i_np1 d))) in
  HOk d.
(* NewBinomialDistribution on a possibly special first argument: exp(Theta) is a finite real
   whenever Theta is a logarithm *)
Definition bin_new_e (theta : ER) (n : Z) : hres bin_d -> hres bin_d :=
  fun other => match theta with
               | Fin t => match bin_new lgam t n with Some d => HOk d | None => other end
               | _ => HOut end.
(* SetParameters: t := p[0]; t.Exp(t); n := int(p[1]) *)
Definition bin_set (d : bin_d) (p : list ER) : hres bin_d :=
  match nth 1 p (Fin 0) with
  | Fin n => bin_new_e (eexp (nth 0 p (Fin 0))) (Ztrunc n) (HOk d)
  | _ => HOut end.
(* ImportConfig: theta := p[0]; n := int(p[1]) *)
Definition bin_imp (d : bin_d) (p : list ER) : hres bin_d :=
  match nth 1 p (Fin 0) with
  | Fin n => bin_new_e (nth 0 p (Fin 0)) (Ztrunc n) (HOk d)
  | _ => HOut end.
(* Clone: t.Exp(dist.Theta); r, _ := New(t, int(n)) *)
Definition bin_clone (d : bin_d) : hres bin_d :=
  bin_new_e (eexp (i_theta d)) (Ztrunc (i_n d)) HPanic.
Definition bin_get (d : bin_d) : list ER := [i_theta d; Fin (i_n d)].
Definition bin_ops : mut_ops bin_d :=
  {| m_set := bin_set; m_imp := bin_imp; m_clone := bin_clone; m_get := bin_get; m_exp := bin_get;
     m_setn := bin_setn |}.

(* ------------------------------------------------------------- categorical *)
(* SetParameters: dist.Theta.Set(parameters) in place *)
Definition cat_set (d : list ER) (p : list ER) : hres (list ER) :=
  if (length p =? length d)%nat then HOk p else HPanic.
Definition cat_imp (d : list ER) (p : list ER) : hres (list ER) :=
  with_fin p (fun q => assign_or_keep d (cat_new q)).
Definition cat_ops : mut_ops (list ER) :=
  {| m_set := cat_set; m_imp := cat_imp; m_clone := fun d => HOk (map (fun t => t) d);
     m_get := fun d => d; m_exp := fun d => map eexp d; m_setn := fun d _ => HOk d |}.

(* ------------------------------------------------------------------ cauchy *)
Definition cau_newv (p : list R) := cau_new (P p 0) (P p 1).
Definition cau_ops : mut_ops cau_d :=
  recon_ops cau_newv cau_get (fun d => new_or_nil (cau_new (c_mu d) (c_sigma d))).

(* ------------------------------------------------------------- chi-squared *)
Definition chi_newv (p : list R) := chi_new lgam (P p 0).
Definition chi_get (d : chi_d) : list R := [h_k d].
Definition chi_ops : mut_ops chi_d :=
  recon_ops chi_newv chi_get (fun d => new_or_nil (chi_new lgam (h_k d))).

(* ------------------------------------------------------------------- delta *)
Definition delta_newv (p : list R) : option R := Some (P p 0).
Definition delta_ops : mut_ops R := recon_ops delta_newv (fun X => [X]) (fun X => HOk X).

(* ------------------------------------------------------- generalised gamma *)
Definition gg_newv (p : list R) := gg_new lgam (P p 0) (P p 1) (P p 2).
Definition gg_ops : mut_ops gg_d :=
  recon_ops gg_newv gg_get (fun g => new_or_nil (gg_new lgam (q_a g) (q_d g) (q_p g))).

(* --------------------------------------------------------------- geometric *)
Definition geo_newv (p : list R) := geo_new (P p 0).
Definition geo_ops : mut_ops geo_d :=
  recon_ops geo_newv geo_get (fun d => HOk {| o_p := o_p d; o_p1 := o_p1 d; o_p2 := o_p2 d |}).

(* ------------------------------------------------------- negative binomial *)
Definition nb_newv (p : list R) := nb_new lgam (P p 0) (P p 1).
Definition nb_ops : mut_ops nb_d :=
  recon_ops nb_newv nb_get (fun d => new_or_nil (nb_new lgam (m_r d) (m_p d))).

(* ----------------------------------------------------------------- poisson *)
Definition poi_newv (p : list R) := poi_new (P p 0).
Definition poi_ops : mut_ops R := recon_ops poi_newv (fun l => [l]) (fun l => HOk l).

(* --------------------------------------------------------------- power law *)
Definition pl_newv (p : list R) := pl_new (P p 0) (P p 1).
Definition pl_ops : mut_ops pl_d :=
  recon_ops pl_newv pl_get
    (fun d => HOk {| w_alpha := w_alpha d; w_xmin := w_xmin d; w_ca := w_ca d; w_cz := w_cz d |}).

(* ---------------------------------------------------------------- dispatcher *)
Variables (lerfc : R -> R) (gamP : R -> R -> R).

Definition after {D} (o : mut_ops D) (d0 : option D) (ops : list hop) (k : D -> res) : res :=
  match d0 with
  | None => CtorErr
  | Some d => match hrun o d ops with HOk d' => k d' | HPanic => Panic | HOut => NoSuch end
  end.

(* constructor(ps, zs); the history ops; then method g at x *)
Definition heval (f : fam) (g : fn) (ps : list R) (zs : list Z) (ops : list hop) (x : R) : res :=
  match f, g with
  | FNormal, LogPdf => after normal_ops (normal_newv ps) ops (fun d => normal_logpdf d x)
  | FNormal, LogCdf => after normal_ops (normal_newv ps) ops (fun d => normal_logcdf lerfc d x)
  | FNormal, Cdf => after normal_ops (normal_newv ps) ops (fun d => normal_cdf lerfc d x)
  | FExponential, LogPdf => after exp_ops (exp_newv ps) ops (fun d => exp_logpdf d x)
  | FExponential, LogCdf => after exp_ops (exp_newv ps) ops (fun d => exp_logcdf d x)
  | FExponential, Cdf => after exp_ops (exp_newv ps) ops (fun d => exp_cdf d x)
  | FLaplace, LogPdf => after lap_ops (lap_newv ps) ops (fun d => lap_logpdf d x)
  | FLaplace, LogCdf => after lap_ops (lap_newv ps) ops (fun d => lap_logcdf d x)
  | FLaplace, Cdf => after lap_ops (lap_newv ps) ops (fun d => lap_cdf d x)
  | FPareto, LogPdf => after par_ops (par_newv ps) ops (fun d => par_logpdf d x)
  | FPareto, LogCdf => after par_ops (par_newv ps) ops (fun d => par_logcdf d x)
  | FPareto, Cdf => after par_ops (par_newv ps) ops (fun d => par_cdf d x)
  | FGPareto, LogPdf => after gp_ops (gp_newv ps) ops (fun d => gp_logpdf d x)
  | FGPareto, LogCdf => after gp_ops (gp_newv ps) ops (fun d => gp_logcdf d x)
  | FGPareto, Cdf => after gp_ops (gp_newv ps) ops (fun d => gp_cdf d x)
  | FGev, LogPdf => after gev_ops (gev_newv ps) ops (fun d => gev_logpdf d x)
  | FGev, LogCdf => after gev_ops (gev_newv ps) ops (fun d => gev_logcdf d x)
  | FGev, Cdf => after gev_ops (gev_newv ps) ops (fun d => gev_cdf d x)
  | FGamma, LogPdf => after gam_ops (gam_newv ps) ops (fun d => gam_logpdf d x)
  | FGamma, LogCdf => after gam_ops (gam_newv ps) ops (fun d => gam_logcdf gamP d x)
  | FGamma, Cdf => after gam_ops (gam_newv ps) ops (fun d => gam_cdf gamP d x)
  | FBeta, LogPdf => after beta_ops (beta_new lgam (P ps 0) (P ps 1) (Z.eqb (nth 0 zs 0%Z) 1)) ops
                       (fun d => beta_logpdf d x)
  | FBinomial, LogPdf => after bin_ops (bin_new lgam (P ps 0) (nth 0 zs 0%Z)) ops (fun d => bin_logpdf lgam d x)
  | FCategorical, LogPdf => after cat_ops (cat_new ps) ops (fun d => cat_logpdf d x)
  | FCategorical, LogCdf => after cat_ops (cat_new ps) ops (fun d => cat_logcdf d x)
  | FCategorical, Cdf => after cat_ops (cat_new ps) ops (fun d => cat_cdf d x)
  | FCauchy, LogPdf => after cau_ops (cau_newv ps) ops (fun d => cau_logpdf d x)
  | FChiSquared, LogPdf => after chi_ops (chi_newv ps) ops (fun d => chi_logpdf d x)
  | FChiSquared, LogCdf => after chi_ops (chi_newv ps) ops (fun d => chi_logcdf gamP d x)
  | FChiSquared, Cdf => after chi_ops (chi_newv ps) ops (fun d => chi_cdf gamP d x)
  | FDelta, LogPdf => after delta_ops (delta_newv ps) ops (fun X => delta_logpdf X x)
  | FGenGamma, LogPdf => after gg_ops (gg_newv ps) ops (fun d => gg_logpdf d x)
  | FGeometric, LogPdf => after geo_ops (geo_newv ps) ops (fun d => geo_logpdf d x)
  | FNegBinomial, LogPdf => after nb_ops (nb_newv ps) ops (fun d => nb_logpdf lgam d x)
  | FPoisson, LogPdf => after poi_ops (poi_newv ps) ops (fun d => poi_logpdf lgam d x)
  | FPowerLaw, LogPdf => after pl_ops (pl_newv ps) ops (fun d => pl_logpdf d x)
  | FPowerLaw, LogCdf => after pl_ops (pl_newv ps) ops (fun d => pl_logcdf d x)
  | FPowerLaw, Cdf => after pl_ops (pl_newv ps) ops (fun d => pl_cdf d x)
  (* the wrappers promote Get/SetParameters of the inner distribution; c is kept *)
  | FTransNormal, LogPdf =>
      after normal_ops (normal_newv ps) ops (fun d => translation_logpdf (normal_logpdf d) (P ps 2) x)
  | FLogTransNormal, LogPdf =>
      after normal_ops (normal_newv ps) ops (fun d => logtransform_logpdf (normal_logpdf d) (P ps 2) x)
  (* round 6: the Pdf methods after a history *)
  | FExponential, Pdf => after exp_ops (exp_newv ps) ops (fun d => exp_pdfm d x)
  | FLaplace, Pdf => after lap_ops (lap_newv ps) ops (fun d => lap_pdfm d x)
  | FPareto, Pdf => after par_ops (par_newv ps) ops (fun d => par_pdfm d x)
  | FGPareto, Pdf => after gp_ops (gp_newv ps) ops (fun d => gp_pdfm d x)
  | FGev, Pdf => after gev_ops (gev_newv ps) ops (fun d => gev_pdfm d x)
  | FGamma, Pdf => after gam_ops (gam_newv ps) ops (fun d => gam_pdfm d x)
  | FBeta, Pdf => after beta_ops (beta_new lgam (P ps 0) (P ps 1) (Z.eqb (nth 0 zs 0%Z) 1)) ops
                       (fun d => beta_pdfm d x)
  | FBinomial, Pdf => after bin_ops (bin_new lgam (P ps 0) (nth 0 zs 0%Z)) ops (fun d => bin_pdfm lgam d x)
  | FCategorical, Pdf => after cat_ops (cat_new ps) ops (fun d => cat_pdfm d x)
  | FCauchy, Pdf => after cau_ops (cau_newv ps) ops (fun d => cau_pdfm d x)
  | FChiSquared, Pdf => after chi_ops (chi_newv ps) ops (fun d => chi_pdfm d x)
  | FDelta, Pdf => after delta_ops (delta_newv ps) ops (fun X => delta_pdfm X x)
  | FGenGamma, Pdf => after gg_ops (gg_newv ps) ops (fun d => gg_pdfm d x)
  | FGeometric, Pdf => after geo_ops (geo_newv ps) ops (fun d => geo_pdfm d x)
  | FNegBinomial, Pdf => after nb_ops (nb_newv ps) ops (fun d => nb_pdfm lgam d x)
  | FPoisson, Pdf => after poi_ops (poi_newv ps) ops (fun d => poi_pdfm lgam d x)
  | FPowerLaw, Pdf => after pl_ops (pl_newv ps) ops (fun d => pl_pdfm d x)
  | FTransNormal, Pdf =>
      after normal_ops (normal_newv ps) ops (fun d => translation_pdfm (normal_logpdf d) (P ps 2) x)
  | FLogTransNormal, Pdf =>
      after normal_ops (normal_newv ps) ops (fun d => logtransform_pdfm (normal_logpdf d) (P ps 2) x)
  | _, _ => NoSuch
  end.

End SModel.
