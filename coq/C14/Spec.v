(* C14 — specification: the textbook density / mass function of every scalar
   family under the parametrisation its constructor names, the validity
   predicate of its parameters and its support.  [Gam] is the Gamma function on
   the positive reals, given through its logarithm [lgam] (a Section variable:
   nothing here depends on which function it is). *)
From Coq Require Import Reals ZArith.
Open Scope R_scope.

Section Spec.
Variable lgam : R -> R.
Definition Gam (x : R) : R := exp (lgam x).

(* normal(mu, sigma): sigma is the standard deviation; support R *)
Definition normal_valid (mu sigma : R) := 0 < sigma.
Definition normal_pdf (mu sigma x : R) := / (sigma * sqrt (2 * PI)) * exp (- ((x - mu) ^ 2 / (2 * sigma ^ 2))).
Definition normal_cdf_spec (erfc : R -> R) (mu sigma x : R) := / 2 * erfc (- ((x - mu) / (sigma * sqrt 2))).

(* exponential(lambda): rate; support [0, inf) *)
Definition exponential_valid (lambda : R) := 0 < lambda.
Definition exponential_pdf (lambda x : R) := lambda * exp (- (lambda * x)).
Definition exponential_cdf_spec (lambda x : R) := 1 - exp (- (lambda * x)).

(* laplace(mu, sigma): location, scale; support R *)
Definition laplace_valid (mu sigma : R) := 0 < sigma.
Definition laplace_pdf (mu sigma x : R) := / (2 * sigma) * exp (- (Rabs (x - mu) / sigma)).
Definition laplace_cdf_spec (mu sigma x : R) :=
  if Rle_dec x mu then / 2 * exp (- ((mu - x) / sigma)) else 1 - / 2 * exp (- ((x - mu) / sigma)).

(* pareto(lambda, kappa): scale (minimum), shape; support [lambda, inf) *)
Definition pareto_valid (lambda kappa : R) := 0 < lambda /\ 0 < kappa.
Definition pareto_pdf (lambda kappa x : R) := kappa * Rpower lambda kappa / Rpower x (kappa + 1).
Definition pareto_cdf_spec (lambda kappa x : R) := 1 - Rpower (lambda / x) kappa.

(* generalised pareto(mu, sigma, xi); support [mu, inf) for xi >= 0, [mu, mu - sigma/xi] for xi < 0 *)
Definition gpareto_valid (mu sigma xi : R) := 0 < sigma.
Definition gpareto_support (mu sigma xi x : R) := mu <= x /\ (xi < 0 -> x <= mu - sigma / xi).
Definition gpareto_pdf (mu sigma xi x : R) :=
  if Req_EM_T xi 0 then / sigma * exp (- ((x - mu) / sigma))
  else / sigma * Rpower (1 + xi * ((x - mu) / sigma)) (- (1 / xi) - 1).
Definition gpareto_cdf_spec (mu sigma xi x : R) :=
  if Req_EM_T xi 0 then 1 - exp (- ((x - mu) / sigma))
  else 1 - Rpower (1 + xi * ((x - mu) / sigma)) (- (1 / xi)).

(* GEV(mu, sigma, xi); support { x | 1 + xi (x - mu)/sigma > 0 } *)
Definition gev_valid (mu sigma xi : R) := 0 < sigma.
Definition gev_support (mu sigma xi x : R) := -1 < xi * (x - mu) / sigma.
Definition gev_t (mu sigma xi x : R) :=
  if Req_EM_T xi 0 then exp (- ((x - mu) / sigma)) else Rpower (1 + xi * ((x - mu) / sigma)) (- (1 / xi)).
Definition gev_pdf (mu sigma xi x : R) :=
  / sigma * Rpower (gev_t mu sigma xi x) (xi + 1) * exp (- gev_t mu sigma xi x).
Definition gev_cdf_spec (mu sigma xi x : R) := exp (- gev_t mu sigma xi x).

(* gamma(alpha, beta): shape, rate; support (0, inf) *)
Definition gamma_valid (alpha beta : R) := 0 < alpha /\ 0 < beta.
Definition gamma_pdf (alpha beta x : R) :=
  Rpower beta alpha / Gam alpha * Rpower x (alpha - 1) * exp (- (beta * x)).

(* beta(alpha, beta); support (0,1).  With logScale the argument is log(theta)
   and LogPdf is the log-density of theta evaluated at theta = exp x. *)
Definition beta_valid (a b : R) := 0 < a /\ 0 < b.
Definition beta_pdf (a b x : R) := Gam (a + b) / (Gam a * Gam b) * Rpower x (a - 1) * Rpower (1 - x) (b - 1).

(* binomial(theta, n); support {0..n}; C(n,k) = Gam(n+1) / (Gam(k+1) Gam(n-k+1)) *)
Definition binomial_valid (theta : R) (n : Z) := 0 <= theta <= 1 /\ (0 <= n)%Z.
Definition binomial_pmf (theta : R) (n k : Z) :=
  Gam (IZR n + 1) / (Gam (IZR k + 1) * Gam (IZR n - IZR k + 1)) * Rpower theta (IZR k) * Rpower (1 - theta) (IZR n - IZR k).

(* cauchy(mu, sigma); support R *)
Definition cauchy_valid (mu sigma : R) := 0 < sigma.
Definition cauchy_pdf (mu sigma x : R) := / (PI * sigma * (1 + ((x - mu) / sigma) ^ 2)).

(* chi-squared(k); support (0, inf) *)
Definition chisq_valid (k : R) := 0 < k.
Definition chisq_pdf (k x : R) := / (Rpower 2 (k / 2) * Gam (k / 2)) * Rpower x (k / 2 - 1) * exp (- (x / 2)).

(* generalised gamma(a, d, p); support (0, inf) *)
Definition gengamma_valid (a d p : R) := 0 < a /\ 0 < d /\ 0 < p.
Definition gengamma_pdf (a d p x : R) :=
  p / Rpower a d / Gam (d / p) * Rpower x (d - 1) * exp (- Rpower (x / a) p).

(* geometric(p): number of failures before the first success; support {0,1,...} *)
Definition geometric_valid (p : R) := 0 < p <= 1.
Definition geometric_pmf (p : R) (k : Z) := Rpower (1 - p) (IZR k) * p.

(* negative binomial(r, p) as the file's header comment names it:
   Gamma(r+k)/Gamma(k+1)/Gamma(r) p^k (1-p)^r; support {0,1,...} *)
Definition negbinomial_valid (r p : R) := 0 < r /\ 0 <= p < 1.
Definition negbinomial_pmf (r p : R) (k : Z) :=
  Gam (r + IZR k) / (Gam (IZR k + 1) * Gam r) * Rpower p (IZR k) * Rpower (1 - p) r.

(* poisson(lambda); support {0,1,...} *)
Definition poisson_valid (lambda : R) := 0 < lambda.
Definition poisson_pmf (lambda : R) (k : Z) := Rpower lambda (IZR k) * exp (- lambda) / Gam (IZR k + 1).

(* power law(alpha, xmin); support [xmin, inf) *)
Definition powerlaw_valid (alpha xmin : R) := 1 < alpha /\ 0 < xmin.
Definition powerlaw_pdf (alpha xmin x : R) := (alpha - 1) / xmin * Rpower (x / xmin) (- alpha).
Definition powerlaw_cdf_spec (alpha xmin x : R) := 1 - Rpower (x / xmin) (1 - alpha).

End Spec.
