(* C14 — CDF lemmas: LogCdf = ln Cdf = ln (textbook cdf), the cdf has the density
   as derivative and is monotone (exponential; Pareto values; normal relative to
   Section hypotheses about erfc). *)
From Coq Require Import Reals ZArith Bool Lra Psatz List.
From Coquelicot Require Import Coquelicot.
From ADV Require Import Base.Num C14.ER C14.Model C14.Spec C14.ProofsER C14.ProofsCont.
Open Scope R_scope.

Lemma exp_neg_lt_1 a : 0 < a -> exp (- a) < 1.
Proof. intro H. rewrite <- exp_0. apply exp_increasing. lra. Qed.

(* ------------------------------------------------------------- exponential *)
Lemma exponential_cdf lambda : exponential_valid lambda ->
  exists d, exp_new lambda = Some d /\
    (forall x, 0 < x -> exp_logcdf d x = Val (Fin (ln (exponential_cdf_spec lambda x)))) /\
    (forall x, 0 <= x -> exp_cdf d x = Val (Fin (exponential_cdf_spec lambda x))) /\
    (forall x, x < 0 -> exp_logcdf d x = Val NInf /\ exp_cdf d x = Val (Fin 0)).
Proof.
  unfold exponential_valid. intro Hl. unfold exp_new. rewrite Rleb_f by lra.
  eexists; split; [reflexivity|]. unfold exp_cdf, exp_logcdf, exponential_cdf_spec; cbn [e_lambda].
  assert (Hlt : forall x, 0 < x -> -1 < - exp (- (lambda * x))).
  { intros x Hx. assert (0 < lambda * x) by (apply Rmult_lt_0_compat; lra). pose proof (exp_neg_lt_1 _ H). lra. }
  repeat split.
  - intros x Hx. rewrite Rltb_f by lra. red_er. rewrite elog1p_gt by (apply Hlt; exact Hx).
    reflexivity.
  - intros x Hx. rewrite Rltb_f by lra. red_er. destruct (Req_dec x 0) as [Z|NZ].
    + subst x. rewrite elog1p_eq by (rewrite Rmult_0_r, Ropp_0, exp_0; lra). cbn.
      rewrite Rmult_0_r, Ropp_0, exp_0. do 2 f_equal. lra.
    + assert (Hx' : 0 < x) by lra. rewrite elog1p_gt by (apply Hlt; exact Hx'). cbn. do 2 f_equal.
      rewrite exp_ln by (specialize (Hlt x Hx'); lra). lra.
  - rewrite Rltb_t by lra. reflexivity.
  - rewrite Rltb_t by lra. reflexivity.
Qed.
Lemma exponential_cdf_derive lambda x :
  is_derive (exponential_cdf_spec lambda) x (exponential_pdf lambda x).
Proof. unfold exponential_cdf_spec, exponential_pdf. auto_derive; [exact I | ring]. Qed.
Lemma exponential_cdf_monotone lambda x y : 0 < lambda -> x <= y ->
  exponential_cdf_spec lambda x <= exponential_cdf_spec lambda y.
Proof.
  intros Hl Hxy. unfold exponential_cdf_spec.
  destruct (Req_dec x y) as [->|N]; [lra|].
  assert (exp (- (lambda * y)) < exp (- (lambda * x))) by (apply exp_increasing; nra). lra.
Qed.
Lemma exponential_cdf_at_0 lambda : exponential_cdf_spec lambda 0 = 0.
Proof. unfold exponential_cdf_spec. rewrite Rmult_0_r, Ropp_0, exp_0. lra. Qed.

(* ------------------------------------------------------------------ pareto *)
Lemma pareto_cdf lambda kappa : pareto_valid lambda kappa ->
  exists d, par_new lambda kappa = Some d /\
    (forall x, lambda < x -> par_logcdf d x = Val (Fin (ln (pareto_cdf_spec lambda kappa x))) /\
                             par_cdf d x = Val (Fin (pareto_cdf_spec lambda kappa x))) /\
    (forall x, x < lambda -> par_logcdf d x = Val NInf /\ par_cdf d x = Val (Fin 0)).
Proof.
  unfold pareto_valid. intros [Hl Hk]. unfold par_new. rewrite !Rleb_f by lra.
  eexists; split; [reflexivity|]. unfold par_cdf, par_logcdf, pareto_cdf_spec; cbn [p_lambda p_kappa].
  split; intros x Hx.
  - rewrite Rltb_f by lra. rewrite ediv_fin by lra.
    assert (Hq1 : 0 < lambda / x) by (apply Rdiv_lt_0_compat; lra).
    assert (Hq2 : lambda / x < 1) by (apply Rlt_div_l; lra).
    rewrite epow_pos by lra. red_er.
    assert (Hp : Rpower (lambda / x) kappa < 1).
    { unfold Rpower. rewrite <- exp_0. apply exp_increasing.
      assert (ln (lambda / x) < 0) by (rewrite <- ln_1; apply ln_increasing; lra). nra. }
    assert (0 < Rpower (lambda / x) kappa) by (unfold Rpower; apply exp_pos).
    rewrite elog1p_gt by lra. cbn. split; [reflexivity|]. do 2 f_equal. rewrite exp_ln by lra. lra.
  - rewrite Rltb_t by lra. split; reflexivity.
Qed.

(* ------------------------------------------------------------------ normal *)
Section Normal.
(* erfc is not definable from the standard library without an integral; the
   statements are relative to these Section hypotheses (C13 ties LogErfc / Erfc
   to certified anchors) *)
Variables (lerfc erfc : R -> R).
Hypothesis erfc_pos : forall y, 0 < erfc y.
Hypothesis lerfc_spec : forall y, lerfc y = ln (erfc y).

Lemma normal_cdf mu sigma : normal_valid mu sigma ->
  exists d, normal_new mu sigma = Some d /\
    forall x, normal_logcdf lerfc d x = Val (Fin (ln (normal_cdf_spec erfc mu sigma x))) /\
              normal_cdf lerfc d x = Val (Fin (normal_cdf_spec erfc mu sigma x)).
Proof.
  unfold normal_valid. intro Hs. unfold normal_new. rewrite Rleb_f by lra.
  eexists; split; [reflexivity|]. intro x. unfold normal_cdf, normal_logcdf, normal_cdf_spec; cbn [n_mu n_sigma].
  red_er. assert (0 < sqrt 2) by (apply sqrt_lt_R0; lra).
  rewrite ediv_fin by nra. red_er. cbn [elerfc]. red_er. rewrite lerfc_spec.
  replace (x + - mu) with (x - mu) by lra.
  set (y := - ((x - mu) / (sigma * sqrt 2))). pose proof (erfc_pos y).
  split; do 2 f_equal.
  - rewrite ln_mult, ln_Rinv by pos. lra.
  - replace (ln (erfc y) + - ln 2) with (ln (/ 2 * erfc y)) by (rewrite ln_mult, ln_Rinv by pos; lra).
    apply exp_ln. pos.
Qed.

Hypothesis erfc_derive : forall y, is_derive erfc y (- (2 / sqrt PI) * exp (- (y * y))).

Lemma normal_cdf_derive mu sigma x : 0 < sigma ->
  is_derive (normal_cdf_spec erfc mu sigma) x (normal_pdf mu sigma x).
Proof.
  intro Hs. unfold normal_cdf_spec, normal_pdf.
  assert (H2 : 0 < sqrt 2) by (apply sqrt_lt_R0; lra).
  assert (HP : 0 < sqrt PI) by (apply sqrt_lt_R0; apply PI_RGT_0).
  set (g := fun x => - ((x - mu) / (sigma * sqrt 2))).
  assert (Dg : is_derive g x (- / (sigma * sqrt 2))).
  { unfold g. auto_derive; [nra | field; nra]. }
  apply (is_derive_ext (fun t => scal (/ 2) (erfc (g t)))).
  { intro t. reflexivity. }
  replace (/ (sigma * sqrt (2 * PI)) * exp (- ((x - mu) ^ 2 / (2 * sigma ^ 2))))
    with (scal (/ 2) (scal (- / (sigma * sqrt 2)) (- (2 / sqrt PI) * exp (- (g x * g x))))).
  { apply is_derive_scal. apply (is_derive_comp erfc g x); [apply erfc_derive | exact Dg]. }
  unfold scal; simpl; unfold mult; simpl. unfold g.
  rewrite sqrt_mult by (pose proof PI_RGT_0; lra).
  replace (- ((x - mu) / (sigma * sqrt 2)) * - ((x - mu) / (sigma * sqrt 2)))
    with ((x - mu) ^ 2 / (2 * sigma ^ 2)).
  2:{ field_simplify_eq; [|nra]. replace (sqrt 2 ^ 2) with 2 by (simpl; rewrite Rmult_1_r, sqrt_sqrt; lra). ring. }
  simpl pow. set (E := exp _). field. nra.
Qed.
End Normal.
