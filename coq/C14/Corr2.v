(* C14 — certified correspondence for the round-4 models (mixtures, skew normal, matrix families): the
   propositions written by harness/c14/wide.go are decided by Corr.solve_case after the dispatchers of
   MixModel / SkewModel / IWModel have been unfolded (the generic [cbv] of solve_case does that: only
   the real and extended-real operations are kept folded). *)
From Coq Require Import Reals ZArith Bool List Lra.
From Flocq Require Import Core.Raux.
From Interval Require Import Tactic.
From ADV Require Import Base.Num C14.ER C14.Model C14.VModel C14.ProofsER C14.Corr C14.MixModel C14.ProofsMix C14.SkewModel C14.IWModel.
Import ListNotations.
Open Scope R_scope.

(* LogAdd without comparisons: ln (e^x + e^y) whatever the order of x and y (ProofsMix.logadd_fin); the
   generic route (both orders of an undecidable comparison) is exponential in the number of components *)
Lemma logadd_ninf_any b : logadd NInf b = b.
Proof. destruct b; reflexivity. Qed.
Lemma logadd_nan_r a : logadd a NaN = NaN.
Proof. destruct a; reflexivity. Qed.
Lemma logadd_nan_l b : logadd NaN b = NaN.
Proof. destruct b; reflexivity. Qed.
Ltac mix_step_t :=
  first [ rewrite logadd_fin | rewrite logadd_ninf_r | rewrite logadd_ninf_any
        | rewrite logadd_nan_r | rewrite logadd_nan_l | er_step ].
Ltac solve_wide :=
  intros;
  cbv -[Rplus Rminus Rmult Rdiv Ropp Rinv Rabs exp ln Rpower sqrt PI IZR Rltb Rleb Reqb Rpos Rneg
        is_intb Zfloor Ztrunc logadd
        eadd esub emul ediv eneg eabs eexp elog elog1p epow inf_times elgam elerfc egamP eltb eis_nan eis_ninf eis_zero
        agrees at1 at2 near1];
  er_red; use_logged; repeat (mix_step_t; er_red; use_logged);
  solve_case.
Tactic Notation "chkw" constr(k) constr(P) :=
  tryif (assert P by solve_wide) then idtac else idtac "MISMATCH" k.

(* self-test: two components, unnormalised weights 1 and 3, component log-densities ln(1/2) and -Inf *)
Goal agrees (mix_eval [1; 3] [Val (Fin (- (6243314768165359 / 9007199254740992))); Val NInf] MLogPdf)
            (OVal (- (18729944304496077 / 9007199254740992)) (3 / 4294967296)).
Proof. solve_wide. Qed.
Goal agrees (mix_eval [1; 3] [Val NInf; Val NInf] MLogPdf) ONInf.
Proof. solve_wide. Qed.
Goal agrees (mix_eval [1; 3] [Val NInf; Val NInf] (MPosterior [0%Z])) ONaN.
Proof. solve_wide. Qed.
Goal agrees (mix_eval [1; -1] [Val NInf; Val NInf] MLogPdf) OCtorErr.
Proof. solve_wide. Qed.
Goal agrees (mix_eval [1; 1] [Val (Fin 0); Val (Fin 0)] (MPosterior [0%Z; 2%Z])) OErrDim.
Proof. solve_wide. Qed.
