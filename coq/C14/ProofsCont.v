(* C14 — formula / support / constructor lemmas for the continuous families. *)
From Coq Require Import Reals ZArith Bool Lra Psatz List.
From ADV Require Import Base.Num C14.ER C14.Model C14.Spec C14.ProofsER.
Import ListNotations.
Open Scope R_scope.

Ltac pos :=
  repeat first [ assumption | lra | apply exp_pos | apply PI_RGT_0 | apply Rmult_lt_0_compat
               | apply Rinv_0_lt_compat | apply sqrt_lt_R0 | apply Rdiv_lt_0_compat
               | (unfold Rpower; apply exp_pos) | nra ].
Ltac red_er := cbn [eadd esub emul eneg eabs eexp rmap].

Lemma ln_Rpower x y : ln (Rpower x y) = y * ln x.
Proof. unfold Rpower. apply ln_exp. Qed.

Lemma ln_sqrt x : 0 < x -> ln (sqrt x) = ln x / 2.
Proof.
  intro H. assert (Hs : 0 < sqrt x) by (apply sqrt_lt_R0; exact H).
  rewrite <- (sqrt_sqrt x) at 2 by lra. rewrite ln_mult by assumption. lra.
Qed.

(* expand every logarithm of a product / quotient / power / exponential on both sides *)
Ltac ln_all :=
  unfold Rdiv;
  repeat first [ rewrite ln_mult by pos | rewrite ln_Rinv by pos | rewrite ln_Rpower | rewrite ln_exp
               | rewrite ln_sqrt by pos | rewrite ln_1 ].
Ltac fin := first [ lra | ring | (field; first [ lra | repeat split; lra ]) ].

Section Cont.
Variables (lgam lerfc : R -> R) (gamP : R -> R -> R).

(* ------------------------------------------------------------------ normal *)
Lemma normal_formula mu sigma : normal_valid mu sigma ->
  exists d, normal_new mu sigma = Some d /\
            forall x, normal_logpdf d x = Val (Fin (ln (normal_pdf mu sigma x))).
Proof.
  unfold normal_valid. intro Hs. unfold normal_new. rewrite Rleb_f by lra.
  eexists; split; [reflexivity|]. intro x. unfold normal_logpdf; cbn [n_mu n_sigma].
  rewrite elog_pos by lra. red_er. rewrite !ediv_fin by lra. red_er. do 2 f_equal.
  unfold normal_pdf. ln_all. fin.
Qed.
Lemma normal_ctor mu sigma : normal_new mu sigma = None <-> ~ normal_valid mu sigma.
Proof.
  unfold normal_new, normal_valid. destruct (Rleb sigma 0) eqn:E.
  - apply Rleb_true in E. split; auto. intros _. lra.
  - split; [discriminate|]. intro H. exfalso. apply H.
    destruct (Rle_dec sigma 0) as [L|L]; [|lra]. apply Rleb_t in L. congruence.
Qed.
Lemma normal_roundtrip mu sigma d : normal_new mu sigma = Some d -> normal_set (normal_get d) = Some d.
Proof.
  unfold normal_new. destruct (Rleb sigma 0) eqn:E; [discriminate|]. intro H; inversion H; subst.
  unfold normal_set, normal_get, normal_new. cbn. rewrite E. reflexivity.
Qed.

(* ------------------------------------------------------------- exponential *)
Lemma exponential_formula lambda : exponential_valid lambda ->
  exists d, exp_new lambda = Some d /\
    (forall x, 0 <= x -> exp_logpdf d x = Val (Fin (ln (exponential_pdf lambda x)))) /\
    (forall x, x < 0 -> exp_logpdf d x = Val NInf).
Proof.
  unfold exponential_valid. intro Hl. unfold exp_new. rewrite Rleb_f by lra.
  eexists; split; [reflexivity|]. split; intros x Hx; unfold exp_logpdf; cbn [e_lambda e_lambdalog].
  - rewrite Rltb_f by lra. rewrite elog_pos by lra. red_er. do 2 f_equal.
    unfold exponential_pdf. ln_all. fin.
  - rewrite Rltb_t by lra. reflexivity.
Qed.
Lemma exponential_ctor lambda : exp_new lambda = None <-> ~ exponential_valid lambda.
Proof.
  unfold exp_new, exponential_valid. destruct (Rleb lambda 0) eqn:E.
  - apply Rleb_true in E. split; auto. intros _. lra.
  - split; [discriminate|]. intro H. exfalso. apply H.
    destruct (Rle_dec lambda 0) as [L|L]; [|lra]. apply Rleb_t in L. congruence.
Qed.
Lemma exponential_roundtrip lambda d : exp_new lambda = Some d -> exp_set (exp_get d) = Some d.
Proof.
  unfold exp_new. destruct (Rleb lambda 0) eqn:E; [discriminate|]. intro H; inversion H; subst.
  unfold exp_set, exp_get, exp_new. cbn. rewrite E. reflexivity.
Qed.

(* ----------------------------------------------------------------- laplace *)
Lemma laplace_formula mu sigma : laplace_valid mu sigma ->
  exists d, lap_new mu sigma = Some d /\
            forall x, lap_logpdf d x = Val (Fin (ln (laplace_pdf mu sigma x))).
Proof.
  unfold laplace_valid. intro Hs. unfold lap_new. rewrite Rleb_f by lra. eexists; split; [reflexivity|]. intro x.
  unfold lap_logpdf; cbn [l_mu l_sigma l_z]. red_er. rewrite elog_pos by lra. rewrite ediv_fin by lra.
  red_er. do 2 f_equal. unfold laplace_pdf.
  replace (x + - mu) with (x - mu) by lra. ln_all. fin.
Qed.
Lemma laplace_ctor mu sigma : lap_new mu sigma = None <-> ~ laplace_valid mu sigma.
Proof.
  unfold lap_new, laplace_valid. destruct (Rleb sigma 0) eqn:E.
  - apply Rleb_true in E. split; auto. intros _. lra.
  - split; [discriminate|]. intro H. exfalso. apply H.
    destruct (Rle_dec sigma 0) as [L|L]; [|lra]. apply Rleb_t in L. congruence.
Qed.

(* ------------------------------------------------------------------ pareto *)
Lemma pareto_formula lambda kappa : pareto_valid lambda kappa ->
  exists d, par_new lambda kappa = Some d /\
    (forall x, lambda <= x -> par_logpdf d x = Val (Fin (ln (pareto_pdf lambda kappa x)))) /\
    (forall x, x < lambda -> par_logpdf d x = Val NInf).
Proof.
  unfold pareto_valid. intros [Hl Hk]. unfold par_new. rewrite !Rleb_f by lra.
  eexists; split; [reflexivity|]. split; intros x Hx; unfold par_logpdf; cbn [p_lambda p_kappa1p p_z].
  - rewrite Rltb_f by lra. rewrite !elog_pos by lra. red_er. do 2 f_equal.
    unfold pareto_pdf. ln_all. fin.
  - rewrite Rltb_t by lra. reflexivity.
Qed.
Lemma pareto_ctor lambda kappa : par_new lambda kappa = None <-> ~ pareto_valid lambda kappa.
Proof.
  unfold par_new, pareto_valid.
  destruct (Rleb lambda 0) eqn:E1; [apply Rleb_true in E1; split; auto; intros _; lra|].
  destruct (Rleb kappa 0) eqn:E2; [apply Rleb_true in E2; split; auto; intros _; lra|].
  split; [discriminate|]. intro H. exfalso. apply H.
  destruct (Rle_dec lambda 0) as [L|L]; [apply Rleb_t in L; congruence|].
  destruct (Rle_dec kappa 0) as [K|K]; [apply Rleb_t in K; congruence|]. lra.
Qed.

(* ------------------------------------------------------ generalised pareto *)
Lemma gpareto_guard_false mu sigma xi x d :
  0 < sigma -> g_mu d = mu -> g_sigma d = sigma -> g_xi d = xi ->
  gpareto_support mu sigma xi x -> gp_guard d x = false.
Proof.
  intros Hs E1 E2 E3 [H1 H2]. unfold gp_guard. rewrite E1, E2, E3.
  destruct (Rleb 0 xi) eqn:E.
  - apply Rltb_f. lra.
  - rewrite Rltb_f by lra. cbn. apply Rltb_f. apply H2.
    destruct (Rle_dec 0 xi) as [L|L]; [apply Rleb_t in L; congruence | lra].
Qed.
Lemma gpareto_guard_true mu sigma xi x d :
  g_mu d = mu -> g_sigma d = sigma -> g_xi d = xi ->
  ~ gpareto_support mu sigma xi x -> gp_guard d x = true.
Proof.
  intros E1 E2 E3 Hn. unfold gp_guard. rewrite E1, E2, E3. unfold gpareto_support in Hn.
  destruct (Rleb 0 xi) eqn:E.
  - apply Rleb_true in E. apply Rltb_t. destruct (Rlt_dec x mu); auto. exfalso. apply Hn. split; lra.
  - destruct (Rlt_dec x mu) as [L|L]; [rewrite Rltb_t by lra; reflexivity|].
    rewrite Rltb_f by lra. cbn. apply Rltb_t.
    destruct (Rlt_dec (mu - sigma / xi) x); auto. exfalso. apply Hn. split; lra.
Qed.
Lemma gpareto_arg_pos sigma xi z : 0 < sigma -> 0 <= z -> (xi < 0 -> z * sigma < - sigma / xi) -> -1 < z * xi.
Proof.
  intros Hs Hz H. destruct (Rlt_dec xi 0) as [L|L]; [|nra].
  specialize (H L). assert (Hx : 0 < - xi) by lra.
  assert (z * sigma * (- xi) < - sigma / xi * (- xi)) by (apply Rmult_lt_compat_r; lra).
  replace (- sigma / xi * - xi) with sigma in H0 by (field; lra). nra.
Qed.
(* interior of the support (the upper end point for xi < 0 has density 0 or infinity) *)
Lemma gpareto_formula mu sigma xi : gpareto_valid mu sigma xi ->
  exists d, gp_new mu sigma xi = Some d /\
    (forall x, mu <= x -> (xi < 0 -> x < mu - sigma / xi) ->
               gp_logpdf d x = Val (Fin (ln (gpareto_pdf mu sigma xi x)))) /\
    (forall x, ~ gpareto_support mu sigma xi x -> gp_logpdf d x = Val NInf).
Proof.
  unfold gpareto_valid. intro Hs. unfold gp_new. rewrite Rleb_f by lra.
  eexists; split; [reflexivity|]. split.
  - intros x H1 H2. unfold gp_logpdf.
    rewrite (gpareto_guard_false mu sigma xi x) by
      (first [ reflexivity | lra | split; [lra | intro L; specialize (H2 L); lra] ]).
    cbn [g_mu g_sigma g_xi g_cx2 g_cs]. red_er. rewrite (ediv_fin (x + - mu)) by lra. rewrite elog_pos by lra.
    unfold gpareto_pdf. destruct (Req_EM_T xi 0) as [Z|NZ].
    + rewrite Reqb_t by lra. red_er. do 2 f_equal.
      replace (x + - mu) with (x - mu) by lra. ln_all. fin.
    + rewrite Reqb_f by lra. red_er.
      assert (Harg : -1 < (x + - mu) / sigma * xi).
      { apply gpareto_arg_pos with (sigma := sigma); auto.
        - apply Rmult_le_pos; [lra | left; apply Rinv_0_lt_compat; lra].
        - intro L. specialize (H2 L). replace ((x + - mu) / sigma * sigma) with (x - mu) by (field; lra). lra. }
      rewrite elog1p_gt by exact Harg. rewrite ediv_fin by lra. red_er. do 2 f_equal.
      replace (1 + xi * ((x - mu) / sigma)) with (1 + (x + - mu) / sigma * xi) by (field; lra).
      set (t := 1 + (x + - mu) / sigma * xi) in *.
      rewrite ln_mult, ln_Rinv, ln_Rpower by pos. fin.
  - intros x Hn. unfold gp_logpdf.
    rewrite (gpareto_guard_true mu sigma xi x) by (first [reflexivity | exact Hn]). reflexivity.
Qed.

(* --------------------------------------------------------------------- gev *)
Lemma gev_formula mu sigma xi : gev_valid mu sigma xi ->
  exists d, gev_new mu sigma xi = Some d /\
    (forall x, gev_support mu sigma xi x -> gev_logpdf d x = Val (Fin (ln (gev_pdf mu sigma xi x)))) /\
    (forall x, ~ gev_support mu sigma xi x -> gev_logpdf d x = Val NInf).
Proof.
  unfold gev_valid, gev_support. intro Hs. unfold gev_new. rewrite Rleb_f by lra.
  eexists; split; [reflexivity|]. split; intros x Hx; unfold gev_logpdf, gev_guard; cbn [v_mu v_sigma v_xi v_cx v_cy].
  - rewrite Rleb_f by lra. red_er. rewrite (ediv_fin (x + - mu)) by lra.
    unfold gev_pdf, gev_t. destruct (Req_EM_T xi 0) as [Z|NZ].
    + rewrite Reqb_t by lra. red_er. rewrite elog_pos by lra. red_er. do 2 f_equal.
      replace (x + - mu) with (x - mu) by lra. subst xi.
      rewrite ln_mult, ln_mult, ln_Rinv, ln_Rpower, !ln_exp by pos. fin.
    + rewrite Reqb_f by lra. red_er.
      assert (Ht : 0 < (x + - mu) / sigma * xi + 1).
      { replace ((x + - mu) / sigma * xi) with (xi * (x - mu) / sigma) by (field; lra). lra. }
      rewrite !ediv_fin by lra. red_er. rewrite epow_pos by exact Ht. rewrite !elog_pos by lra. red_er.
      do 2 f_equal.
      replace (1 + xi * ((x - mu) / sigma)) with ((x + - mu) / sigma * xi + 1) by (field; lra).
      set (t := (x + - mu) / sigma * xi + 1) in *.
      rewrite ln_mult, ln_mult, ln_Rinv, ln_Rpower, ln_Rpower, ln_exp by pos.
      fin.
  - assert (xi * (x - mu) / sigma <= -1) by lra. rewrite Rleb_t by lra. reflexivity.
Qed.

(* ------------------------------------------------------------------ cauchy *)
Lemma cauchy_formula mu sigma : cauchy_valid mu sigma ->
  exists d, cau_new mu sigma = Some d /\
            forall x, cau_logpdf d x = Val (Fin (ln (cauchy_pdf mu sigma x))).
Proof.
  unfold cauchy_valid. intro Hs. unfold cau_new. rewrite Rleb_f by lra.
  eexists; split; [reflexivity|]. intro x. unfold cau_logpdf; cbn [c_mu c_z c_s2].
  assert (HP := PI_RGT_0).
  rewrite ediv_fin by lra. rewrite elog_pos by pos. red_er.
  assert (Hq : 0 < (x + - mu) * (x + - mu) + sigma * sigma).
  { assert (0 <= (x + - mu) * (x + - mu)) by (apply Rle_0_sqr || nra). nra. }
  rewrite elog_pos by exact Hq. red_er. do 2 f_equal.
  unfold cauchy_pdf.
  replace (PI * sigma * (1 + ((x - mu) / sigma) ^ 2)) with (PI / sigma * ((x + - mu) * (x + - mu) + sigma * sigma)) by (field; lra).
  set (q := (x + - mu) * (x + - mu) + sigma * sigma) in *.
  ln_all. fin.
Qed.
Lemma cauchy_ctor mu sigma : cau_new mu sigma = None <-> ~ cauchy_valid mu sigma.
Proof.
  unfold cau_new, cauchy_valid. destruct (Rleb sigma 0) eqn:E.
  - apply Rleb_true in E. split; auto. intros _. lra.
  - split; [discriminate|]. intro H. exfalso. apply H.
    destruct (Rle_dec sigma 0) as [L|L]; [|lra]. apply Rleb_t in L. congruence.
Qed.

(* --------------------------------------------------------------- power law *)
Lemma powerlaw_formula alpha xmin : powerlaw_valid alpha xmin ->
  exists d, pl_new alpha xmin = Some d /\
    (forall x, xmin <= x -> pl_logpdf d x = Val (Fin (ln (powerlaw_pdf alpha xmin x)))) /\
    (forall x, x < xmin -> pl_logpdf d x = Val NInf).
Proof.
  unfold powerlaw_valid. intros [Ha Hx]. unfold pl_new. rewrite !Rleb_f by lra.
  eexists; split; [reflexivity|]. split; intros x H; unfold pl_logpdf; cbn [w_xmin w_alpha w_cz].
  - rewrite Rltb_f by lra. red_er. rewrite !ediv_fin by lra.
    assert (0 < x / xmin) by (apply Rdiv_lt_0_compat; lra).
    assert (0 < (alpha + - (1)) / xmin) by (apply Rdiv_lt_0_compat; lra).
    rewrite !elog_pos by assumption. red_er. do 2 f_equal.
    unfold powerlaw_pdf. replace (alpha - 1) with (alpha + - (1)) by lra.
    set (u := x / xmin) in *. set (w := (alpha + - (1)) / xmin) in *.
    rewrite ln_mult, ln_Rpower by pos. fin.
  - rewrite Rltb_t by lra. reflexivity.
Qed.
Lemma powerlaw_ctor alpha xmin : pl_new alpha xmin = None <-> ~ powerlaw_valid alpha xmin.
Proof.
  unfold pl_new, powerlaw_valid.
  destruct (Rleb alpha 1) eqn:E1; [apply Rleb_true in E1; split; auto; intros _; lra|].
  destruct (Rleb xmin 0) eqn:E2; [apply Rleb_true in E2; split; auto; intros _; lra|].
  split; [discriminate|]. intro H. exfalso. apply H.
  destruct (Rle_dec alpha 1) as [L|L]; [apply Rleb_t in L; congruence|].
  destruct (Rle_dec xmin 0) as [K|K]; [apply Rleb_t in K; congruence|]. lra.
Qed.

(* ------------------------------------------------------------------- gamma *)
Lemma gamma_formula alpha beta : gamma_valid alpha beta ->
  exists d, gam_new lgam alpha beta = Some d /\
    (forall x, 0 < x -> gam_logpdf d x = Val (Fin (ln (gamma_pdf lgam alpha beta x)))) /\
    (forall x, x <= 0 -> gam_logpdf d x = Val NInf).
Proof.
  unfold gamma_valid. intros [Ha Hb]. unfold gam_new. rewrite !Rleb_f by lra. cbn [orb].
  eexists; split; [reflexivity|]. split; intros x Hx; unfold gam_logpdf; cbn [a_beta a_omega a_z].
  - rewrite Rleb_f by lra. rewrite !elog_pos by lra. rewrite elgam_pos by lra. red_er. do 2 f_equal.
    unfold gamma_pdf, Gam. ln_all. fin.
  - rewrite Rleb_t by lra. reflexivity.
Qed.
Lemma gamma_ctor alpha beta : gam_new lgam alpha beta = None <-> ~ gamma_valid alpha beta.
Proof.
  unfold gam_new, gamma_valid.
  destruct (Rleb alpha 0) eqn:E1; [apply Rleb_true in E1; cbn; split; auto; intros _; lra|].
  destruct (Rleb beta 0) eqn:E2; [apply Rleb_true in E2; cbn; split; auto; intros _; lra|].
  cbn. split; [discriminate|]. intro H. exfalso. apply H.
  destruct (Rle_dec alpha 0) as [L|L]; [apply Rleb_t in L; congruence|].
  destruct (Rle_dec beta 0) as [K|K]; [apply Rleb_t in K; congruence|]. lra.
Qed.

(* ------------------------------------------------------- generalised gamma *)
Lemma gengamma_formula a d p : gengamma_valid a d p ->
  exists g, gg_new lgam a d p = Some g /\
    (forall x, 0 < x -> gg_logpdf g x = Val (Fin (ln (gengamma_pdf lgam a d p x)))) /\
    (forall x, x <= 0 -> gg_logpdf g x = Val NInf).
Proof.
  unfold gengamma_valid. intros (Ha & Hd & Hp). unfold gg_new. rewrite !Rleb_f by lra. cbn [orb].
  eexists; split; [reflexivity|]. split; intros x Hx; unfold gg_logpdf; cbn [q_a q_p q_dm1 q_z].
  - rewrite Rleb_f by lra. rewrite !ediv_fin by lra. rewrite !elog_pos by lra.
    assert (0 < x / a) by (apply Rdiv_lt_0_compat; lra).
    assert (0 < d / p) by (apply Rdiv_lt_0_compat; lra).
    rewrite epow_pos by assumption. rewrite elgam_pos by assumption. red_er. do 2 f_equal.
    unfold gengamma_pdf, Gam. set (u := Rpower (x / a) p). set (w := lgam (d / p)).
    ln_all. fin.
  - rewrite Rleb_t by lra. reflexivity.
Qed.

(* ------------------------------------------------------------- chi-squared *)
(* formula on the interior, -Inf below the support, and the three cases of the boundary point x = 0
   (k < 2: the density is unbounded, +Inf; k = 2: the density 1/2 — no 0 * log 0; k > 2: density 0, -Inf) *)
Lemma chisq_formula k : chisq_valid k ->
  exists d, chi_new lgam k = Some d /\
    (forall x, 0 < x -> chi_logpdf d x = Val (Fin (ln (chisq_pdf lgam k x)))) /\
    (forall x, x < 0 -> chi_logpdf d x = Val NInf) /\
    (2 < k -> chi_logpdf d 0 = Val NInf) /\
    (k = 2 -> chi_logpdf d 0 = Val (Fin (ln (/ (2 * Gam lgam 1))))) /\
    (k < 2 -> chi_logpdf d 0 = Val PInf).
Proof.
  unfold chisq_valid. intro Hk. unfold chi_new. rewrite Rleb_f by lra.
  eexists; split; [reflexivity|]. split; [|split; [|split; [|split]]].
  - intros x Hx. unfold chi_logpdf; cbn [h_e h_c h_z]. rewrite Rltb_f by lra.
    rewrite !elog_pos by lra. rewrite elgam_pos by lra.
    rewrite ediv_fin by lra. red_er. cbn [eis_zero].
    destruct (Reqb (k / 2 + - (1)) 0) eqn:E; [apply Reqb_true in E|]; red_er; do 2 f_equal;
      unfold chisq_pdf, Gam; ln_all; [nra | fin].
  - intros x Hx. unfold chi_logpdf. rewrite Rltb_t by lra. reflexivity.
  - intro H2. unfold chi_logpdf; cbn [h_e h_c h_z]. rewrite Rltb_f by lra. red_er. cbn [eis_zero].
    rewrite Reqb_f by lra. rewrite (elog_zero 0) by reflexivity. rewrite elog_pos by lra. rewrite elgam_pos by lra.
    rewrite ediv_fin by lra. red_er. rewrite inf_times_pos by lra. reflexivity.
  - intro H2. unfold chi_logpdf; cbn [h_e h_c h_z]. rewrite Rltb_f by lra. red_er. cbn [eis_zero].
    rewrite Reqb_t by lra. rewrite elog_pos by lra. rewrite elgam_pos by lra.
    rewrite ediv_fin by lra. red_er. do 2 f_equal. subst k. replace (2 / 2) with 1 by lra.
    unfold Gam. ln_all. fin.
  - intro H2. unfold chi_logpdf; cbn [h_e h_c h_z]. rewrite Rltb_f by lra. red_er. cbn [eis_zero].
    rewrite Reqb_f by lra. rewrite (elog_zero 0) by reflexivity. rewrite elog_pos by lra. rewrite elgam_pos by lra.
    rewrite ediv_fin by lra. red_er. rewrite inf_times_neg by lra. reflexivity.
Qed.
Lemma chisq_ctor k : chi_new lgam k = None <-> ~ chisq_valid k.
Proof.
  unfold chi_new, chisq_valid. destruct (Rleb k 0) eqn:E.
  - apply Rleb_true in E. split; auto. intros _. lra.
  - split; [discriminate|]. intro H. exfalso. apply H.
    destruct (Rle_dec k 0) as [L|L]; [|lra]. apply Rleb_t in L. congruence.
Qed.

(* -------------------------------------------------------------------- beta *)
Lemma beta_formula a b : beta_valid a b ->
  exists d, beta_new lgam a b false = Some d /\
    (forall x, 0 < x < 1 -> beta_logpdf d x = Val (Fin (ln (beta_pdf lgam a b x)))) /\
    (forall x, x < 0 \/ 1 < x -> beta_logpdf d x = Val NInf).
Proof.
  unfold beta_valid. intros [Ha Hb]. unfold beta_new. rewrite !Rleb_f by lra. cbn [orb].
  eexists; split; [reflexivity|]. split; intros x Hx; unfold beta_logpdf; cbn [b_log b_as1 b_bs1 b_c1 b_z].
  - rewrite !Rltb_f by lra. cbn [orb]. red_er. rewrite !elgam_pos by lra. red_er.
    assert (E : ln (beta_pdf lgam a b x) =
                (a - 1) * ln x + (b - 1) * ln (1 - x) + (lgam (a + b) + - lgam a + - lgam b)).
    { unfold beta_pdf, Gam. set (y := 1 - x). assert (0 < y) by (unfold y; lra). ln_all. fin. }
    rewrite E. clear E.
    rewrite (Reqb_f x 1), (Reqb_f x 0) by lra. rewrite !andb_false_r.
    rewrite !elog_pos by lra. red_er. cbn [eis_nan]. do 2 f_equal.
    replace (1 + - x) with (1 - x) by lra. lra.
  - destruct Hx as [Hx|Hx].
    + rewrite Rltb_t by lra. reflexivity.
    + rewrite (Rltb_t 1 x) by lra. rewrite orb_true_r. reflexivity.
Qed.
(* log scale: the argument is x = log theta, theta in (0,1) *)
Lemma beta_logscale_formula a b : beta_valid a b ->
  exists d, beta_new lgam a b true = Some d /\
    (forall x, x < 0 -> beta_logpdf d x = Val (Fin (ln (beta_pdf lgam a b (exp x))))) /\
    (forall x, 0 < x -> beta_logpdf d x = Val NInf).
Proof.
  unfold beta_valid. intros [Ha Hb]. unfold beta_new. rewrite !Rleb_f by lra. cbn [orb].
  eexists; split; [reflexivity|]. split; intros x Hx; unfold beta_logpdf; cbn [b_log b_as1 b_bs1 b_c1 b_z].
  - rewrite Rltb_f by lra. red_er. rewrite !elgam_pos by lra. red_er.
    assert (He : 0 < exp x < 1).
    { split; [apply exp_pos|]. rewrite <- exp_0. apply exp_increasing. lra. }
    assert (E : ln (beta_pdf lgam a b (exp x)) =
                (a - 1) * x + (b - 1) * ln (1 - exp x) + (lgam (a + b) + - lgam a + - lgam b)).
    { unfold beta_pdf, Gam. set (y := 1 - exp x). assert (0 < y) by (unfold y; lra). ln_all. fin. }
    rewrite E. clear E.
    unfold logsub. cbn [eis_ninf]. red_er.
    replace (x + - 0) with x by lra.
    rewrite (Reqb_f x 0) by lra. rewrite !andb_false_r.
    rewrite ?elog1p_gt by lra. red_er. cbn [eis_nan]. do 2 f_equal.
    replace (1 + - exp x) with (1 - exp x) by lra. lra.
  - rewrite Rltb_t by lra. reflexivity.
Qed.

(* ---------------------------------------------------------------- wrappers *)
Lemma translation_formula (inner : R -> res) (f : R -> R) c :
  (forall y, inner y = Val (Fin (ln (f y)))) ->
  forall x, translation_logpdf inner c x = Val (Fin (ln (f (x + c)))).
Proof. intros H x. unfold translation_logpdf. apply H. Qed.
(* density of X when log(X + c) has density f:  f(log(x+c)) / (x+c) *)
Lemma logtransform_formula (inner : R -> res) (f : R -> R) c :
  (forall y, inner y = Val (Fin (ln (f y)))) -> (forall y, 0 < f y) ->
  (forall x, 0 <= x -> 0 < x + c -> logtransform_logpdf inner c x = Val (Fin (ln (f (ln (x + c)) / (x + c))))) /\
  (forall x, x < 0 -> logtransform_logpdf inner c x = Val NInf).
Proof.
  intros H Hf. split; intros x Hx; unfold logtransform_logpdf.
  - intro Hc. rewrite Rltb_f by lra. red_er. rewrite elog_pos by lra. rewrite H. red_er. do 2 f_equal.
    unfold Rdiv. rewrite ln_mult, ln_Rinv by (first [apply Hf | pos]). fin.
  - rewrite Rltb_t by lra. reflexivity.
Qed.

End Cont.
