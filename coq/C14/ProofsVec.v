(* C14 — vector families: LogPdf = ln (textbook density) for EVERY dimension d (odd and even), products
   = sums of the component log-densities, and d = 1 agrees with the scalar normal family. *)
From Coq Require Import Reals ZArith Bool Lra Lia Psatz List.
From ADV Require Import Base.Num C14.ER C14.Model C14.Spec C14.ProofsER C14.ProofsCont C14.VModel.
Import ListNotations.
Open Scope R_scope.

(* textbook densities as functions of the dimension d, det = |Sigma| and q = (x-mu)^T Sigma^-1 (x-mu) *)
Definition mvn_pdf (d : nat) (det q : R) : R := / sqrt ((2 * PI) ^ d * det) * exp (- (q / 2)).
Definition mvt_pdf (lgam : R -> R) (nu : R) (d : nat) (det q : R) : R :=
  Gam lgam ((nu + INR d) / 2) / (Gam lgam (nu / 2) * Rpower (nu * PI) (INR d / 2) * sqrt det)
  * Rpower (1 + q / nu) (- ((nu + INR d) / 2)).

Lemma ln_pow x n : 0 < x -> ln (x ^ n) = INR n * ln x.
Proof.
  intro H. induction n as [|n IH]; [simpl; rewrite ln_1; lra|].
  rewrite <- tech_pow_Rmult, ln_mult, IH, S_INR by (try apply pow_lt; assumption). lra.
Qed.

Section Vec.
Variable lgam : R -> R.

(* multivariate Student t: any dimension, any positive nu *)
Lemma mvt_formula nu mu sinv sdet x :
  0 < nu -> 0 < sdet -> 0 <= qform sinv x mu ->
  vt_logpdf (vt_new lgam nu mu sinv sdet) x =
    Val (Fin (ln (mvt_pdf lgam nu (length mu) sdet (qform sinv x mu)))).
Proof.
  intros Hnu Hdet Hq. unfold vt_logpdf, vt_new; cbn [vt_nu vt_mu vt_sinv vt_np vt_z].
  set (q := qform sinv x mu) in *. rewrite <- INR_IZR_INZ. set (d := INR (length mu)).
  assert (Hd : 0 <= d) by (apply pos_INR).
  assert (HP := PI_RGT_0).
  rewrite !ediv_fin by lra. red_er. rewrite !elgam_pos by lra.
  rewrite (elog_pos sdet) by lra. rewrite (elog_pos (nu * PI)) by (apply Rmult_lt_0_compat; lra).
  assert (Hi : 0 < / nu) by (apply Rinv_0_lt_compat; lra).
  assert (Ht : 0 < q / nu + 1) by (unfold Rdiv; nra).
  rewrite elog_pos by exact Ht. rewrite ediv_fin by lra. red_er. do 2 f_equal.
  unfold mvt_pdf, Gam. fold d.
  replace ((nu + d) / 2) with (nu / 2 + d / 2) by lra.
  replace (1 + q / nu) with (q / nu + 1) by lra.
  set (t := q / nu + 1) in *. set (w := nu * PI). assert (0 < w) by (unfold w; apply Rmult_lt_0_compat; lra).
  set (g1 := lgam (nu / 2 + d / 2)). set (g2 := lgam (nu / 2)).
  ln_all. fin.
Qed.

(* multivariate normal: any dimension *)
Lemma mvn_formula mu sinv sdet x :
  0 < sdet -> length x = length mu ->
  exists d, vn_new mu sinv sdet = Some d /\
    vn_logpdf d x = Val (Fin (ln (mvn_pdf (length mu) sdet (qform sinv x mu)))).
Proof.
  intros Hdet Hlen. unfold vn_new. rewrite Reqb_f by lra. eexists; split; [reflexivity|].
  unfold vn_logpdf; cbn [vn_mu vn_sinv vn_logh]. rewrite Hlen, Nat.eqb_refl. cbn [negb].
  set (q := qform sinv x mu). rewrite <- INR_IZR_INZ. set (d := length mu).
  assert (HP := PI_RGT_0).
  red_er. rewrite Rabs_pos_eq by lra. rewrite elog_pos by lra. rewrite ediv_fin by lra. red_er. do 2 f_equal.
  unfold mvn_pdf. assert (0 < (2 * PI) ^ d) by (apply pow_lt; lra).
  ln_all. rewrite ln_pow by lra. ln_all. fin.
Qed.
Lemma mvn_ctor mu sinv sdet : vn_new mu sinv sdet = None <-> sdet = 0.
Proof.
  clear lgam.
  unfold vn_new. destruct (Reqb sdet 0) eqn:E.
  - apply Reqb_true in E. tauto.
  - split; [discriminate|]. intro H. apply Reqb_t in H. congruence.
Qed.
Lemma mvn_dim_guard d x : length x <> length (vn_mu d) -> vn_logpdf d x = ErrDim.
Proof. clear lgam. intro H. unfold vn_logpdf. apply Nat.eqb_neq in H. rewrite H. reflexivity. Qed.

(* d = 1: the vector normal with Sigma = [sigma^2] is the scalar normal(mu, sigma) *)
Lemma qform_1 a x m : qform [[a]] [x] [m] = (x - m) * a * (x - m).
Proof. clear lgam. unfold qform, vsub, vdotm, dot, column. cbn. ring. Qed.
Lemma mvn_scalar_consistency m s x : 0 < s ->
  exists dv ds, vn_new [m] [[/ (s * s)]] (s * s) = Some dv /\ normal_new m s = Some ds /\
    vn_logpdf dv [x] = normal_logpdf ds x.
Proof.
  intro Hs. assert (Hss : 0 < s * s) by nra.
  destruct (mvn_formula [m] [[/ (s * s)]] (s * s) [x] Hss eq_refl) as (dv & E1 & E2).
  destruct (normal_formula m s Hs) as (ds & E3 & E4).
  exists dv, ds. split; [exact E1|]. split; [exact E3|]. rewrite E2, E4. do 3 f_equal.
  unfold mvn_pdf, normal_pdf. rewrite qform_1. cbn [length pow]. rewrite Rmult_1_r.
  assert (HP := PI_RGT_0).
  replace (2 * PI * (s * s)) with ((s * s) * (2 * PI)) by ring.
  rewrite sqrt_mult by lra. rewrite sqrt_square by lra. f_equal. f_equal. f_equal. field. lra.
Qed.
(* d = 1: the vector t with Sigma = [sigma^2] is the location-scale Student t density *)
Definition student_pdf (nu m s x : R) : R :=
  Gam lgam ((nu + 1) / 2) / (Gam lgam (nu / 2) * sqrt (nu * PI) * s) * Rpower (1 + ((x - m) / s) ^ 2 / nu) (- ((nu + 1) / 2)).
Lemma mvt_scalar_consistency nu m s x : 0 < nu -> 0 < s ->
  vt_logpdf (vt_new lgam nu [m] [[/ (s * s)]] (s * s)) [x] = Val (Fin (ln (student_pdf nu m s x))).
Proof.
  intros Hnu Hs. assert (Hss : 0 < s * s) by nra.
  rewrite mvt_formula; try lra.
  2:{ rewrite qform_1. assert (0 < / (s * s)) by (apply Rinv_0_lt_compat; lra).
      replace ((x - m) * / (s * s) * (x - m)) with ((x - m) * (x - m) * / (s * s)) by ring.
      apply Rmult_le_pos; [apply Rle_0_sqr || nra | lra]. }
  do 3 f_equal. unfold mvt_pdf, student_pdf. rewrite qform_1. cbn [length INR].
  rewrite sqrt_square by lra. assert (HP := PI_RGT_0).
  replace (1 / 2) with (/ 2) by lra. rewrite Rpower_sqrt by (apply Rmult_lt_0_compat; lra).
  f_equal. f_equal. f_equal. field. lra.
Qed.
End Vec.

(* products: the log-density of independent components is the sum of the component log-densities *)
Lemma prod_fold_fin (f : R -> res) (g : R -> R) xs acc :
  (forall x, In x xs -> f x = Val (Fin (g x))) ->
  fold_left (fun a x => prod_step a (f x)) xs (Val (Fin acc)) =
  Val (Fin (fold_left (fun a x => a + g x) xs acc)).
Proof.
  revert acc. induction xs as [|x l IH]; intros acc H; [reflexivity|].
  cbn [fold_left]. rewrite (H x) by (left; reflexivity). cbn [prod_step eadd].
  apply IH. intros y Hy. apply H. right. exact Hy.
Qed.
Lemma iid_formula (inner : R -> res) (g : R -> R) xs :
  (forall x, In x xs -> inner x = Val (Fin (g x))) ->
  iid_logpdf inner (Z.of_nat (length xs)) xs = Val (Fin (fold_left (fun a x => a + g x) xs 0)).
Proof.
  intro H. unfold iid_logpdf. rewrite Z.eqb_refl. cbn [negb]. rewrite andb_false_r.
  rewrite Nat2Z.id, firstn_all. apply prod_fold_fin. exact H.
Qed.
Lemma iid_dim_guard inner n xs : n <> (-1)%Z -> Z.of_nat (length xs) <> n -> iid_logpdf inner n xs = ErrDim.
Proof.
  intros H1 H2. unfold iid_logpdf. apply Z.eqb_neq in H1, H2. rewrite H1, H2. reflexivity.
Qed.
(* n = -1 ("any dimension"): the loop bound is n, so nothing is summed: LogPdf = 0 whatever x is *)
Lemma iid_anydim_quirk inner xs : iid_logpdf inner (-1) xs = Val (Fin 0).
Proof. reflexivity. Qed.
Lemma id_fold_fin (ps : list ((R -> res) * R)) (gs : list R) acc :
  Forall2 (fun p v => fst p (snd p) = Val (Fin v)) ps gs ->
  fold_left (fun a p => prod_step a (fst p (snd p))) ps (Val (Fin acc)) = Val (Fin (fold_left Rplus gs acc)).
Proof.
  intro H. revert acc. induction H as [|p v ps gs Hp _ IH]; intro acc; [reflexivity|].
  cbn [fold_left]. rewrite Hp. cbn [prod_step eadd]. apply IH.
Qed.
Lemma id_formula inners xs gs : length xs = length inners ->
  Forall2 (fun p v => fst p (snd p) = Val (Fin v)) (combine inners xs) gs ->
  id_logpdf inners xs = Val (Fin (fold_left Rplus gs 0)).
Proof.
  intros Hl H. unfold id_logpdf. rewrite Hl, Nat.eqb_refl. cbn [negb]. apply id_fold_fin. exact H.
Qed.
