(* C14 — models of statistics/matrixDistribution/inverseWishart.go and normalIWishart.go (HEAD).
   Determinants and inverses (algorithm/determinant, algorithm/matrixInverse with PositiveDefinite{true})
   enter as logged data: |S| for the constructor, X^-1 and |X| for LogPdf, and for the normal-inverse-Wishart
   the inverse / determinant of sigma/kappa as the inner vector normal stores them.  A matrix that is not
   positive definite makes those algorithms return an error: represented by a logged determinant <= 0.
   [mlgam n x] is special.Mlgamma(x, n), the multivariate log-gamma function (C13's business).
   No proofs in this file. *)
From Coq Require Import Reals ZArith Bool List.
From ADV Require Import Base.Num C14.ER C14.Model C14.VModel.
Import ListNotations.
Open Scope R_scope.

(* tr (S . Xinv): what the textbook density needs *)
Definition mtrace_mul (s xinv : list (list R)) : R :=
  fold_left (fun acc i => acc + dot (nth i s []) (column xinv i)) (seq 0 (length s)) 0.
(* what the code computes: `xInv.MmulM(obj.S, xInv); t.Mtrace(xInv)` -- Matrix.MmulM is the ELEMENT-WISE product
   (the matrix product is MdotM), so t = sum_i S_ii Xinv_ii  (F-C14-IW-TRACE) *)
Definition mtrace_had (s xinv : list (list R)) : R :=
  fold_left (fun acc i => acc + nth i (nth i s []) 0 * nth i (nth i xinv []) 0) (seq 0 (length s)) 0.

Section IW.
Variable mlgam : nat -> R -> R.

Record iw_t := { iw_nu : R; iw_s : list (list R); iw_n : nat; iw_d : ER; iw_z : ER }.

Definition iw_new (nu : R) (s : list (list R)) (sdet : R) : option iw_t :=
  let n := length s in
  if negb (n =? length (nth 0 s []))%nat then None else
  if Rleb sdet 0 then None else                (* determinant.Run(s, PositiveDefinite{true}) fails *)
  let d := Fin (IZR (Z.of_nat n)) in
  let z := emul (ediv (Fin nu) (Fin 2)) (elog (Fin sdet)) in
  let z := esub z (emul (emul (Fin nu) (ediv d (Fin 2))) (elog (Fin 2))) in
  let z := esub z (Fin (mlgam n (nu / 2))) in
  Some {| iw_nu := nu; iw_s := s; iw_n := n; iw_d := d; iw_z := z |}.

Definition iw_logpdf (d : iw_t) (xinv : list (list R)) (xdet : R) : res :=
  if Rleb xdet 0 then ErrDim else              (* matrixInverse / determinant of x fail: x is not positive definite *)
  let ld := elog (Fin xdet) in
  let t := Fin (mtrace_had (iw_s d) xinv) in
  let t := ediv t (Fin 2) in
  let r := eadd (Fin (iw_nu d)) (iw_d d) in
  let r := eadd r (Fin 1) in
  let r := ediv r (Fin 2) in
  let r := emul r ld in
  let r := eneg r in
  let r := esub r t in
  Val (eadd r (iw_z d)).

(* normal-inverse-Wishart: the InverseWishartDistribution + kappa, mu; LogPdf(mu, sigma) builds
   N(Mu, sigma * (1/kappa)) (pinv / pdet: its logged SigmaInv / SigmaDet) *)
Record niw_t := { niw_iw : iw_t; niw_kappa : R; niw_mu : list R }.
Definition niw_new (kappa nu : R) (mu : list R) (lambda : list (list R)) (ldet : R) : option niw_t :=
  let n := length lambda in
  if negb ((n =? length (nth 0 lambda []))%nat && (n =? length mu)%nat) then None else
  match iw_new nu lambda ldet with
  | None => None
  | Some iw => Some {| niw_iw := iw; niw_kappa := kappa; niw_mu := mu |}
  end.
Definition niw_logpdf (d : niw_t) (x : list R) (pinv : list (list R)) (pdet : R) (xinv : list (list R)) (xdet : R) : res :=
  match vn_new (niw_mu d) pinv pdet with
  | None => CtorErr                                 (* NewNormalDistribution error is returned *)
  | Some nrm =>
      match vn_logpdf nrm x with
      | Val r1 => match iw_logpdf (niw_iw d) xinv xdet with Val r2 => Val (eadd r1 r2) | e => e end
      | e => e
      end
  end.
(* Clone() does not copy the scratch matrix sigmap: LogPdf of a clone dereferences nil (F-C14-NIW-CLONE) *)
Definition niw_clone_logpdf (d : niw_t) (x : list R) (pinv : list (list R)) (pdet : R) (xinv : list (list R)) (xdet : R) : res :=
  Panic.

(* dispatchers for the correspondence *)
Definition iw_eval (nu : R) (s : list (list R)) (sdet : R) (xinv : list (list R)) (xdet : R) : res :=
  match iw_new nu s sdet with Some d => iw_logpdf d xinv xdet | None => CtorErr end.
Definition niw_eval (clone : bool) (kappa nu : R) (mu : list R) (lambda : list (list R)) (ldet : R)
    (x : list R) (pinv : list (list R)) (pdet : R) (xinv : list (list R)) (xdet : R) : res :=
  match niw_new kappa nu mu lambda ldet with
  | Some d => if clone then niw_clone_logpdf d x pinv pdet xinv xdet else niw_logpdf d x pinv pdet xinv xdet
  | None => CtorErr
  end.
End IW.
