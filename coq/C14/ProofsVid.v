(* C14 — vectorDistribution.VectorId: a product over blocks of DIFFERENT dimensions.  The log-density of the
   product at the concatenation of the blocks is the sum of the component log-densities, each at its own
   block (running offset), for every list of components and every block layout. *)
From Coq Require Import Reals ZArith Bool Lra Lia List.
From ADV Require Import Base.Num C14.ER C14.Model C14.VModel.
Import ListNotations.
Open Scope R_scope.

Definition blocks_fit (comps : list (nat * (list R -> res))) (bs : list (list R)) : Prop :=
  Forall2 (fun c b => length b = fst c) comps bs.
(* the component results, each on its own block, in order *)
Definition block_results (comps : list (nat * (list R -> res))) (bs : list (list R)) : list res :=
  map (fun cb => snd (fst cb) (snd cb)) (combine comps bs).

Lemma prod_step_err_absorb l e : (forall v, e <> Val v) -> fold_left prod_step l e = e.
Proof.
  intro H. induction l as [|t l IH]; [reflexivity|]. cbn [fold_left].
  replace (prod_step e t) with e; [exact IH|]. destruct e; try reflexivity. exfalso. eapply H. reflexivity.
Qed.

Lemma block_at (pre b rest : list R) : firstn (length b) (skipn (length pre) (pre ++ b ++ rest)) = b.
Proof.
  rewrite skipn_app, skipn_all, Nat.sub_diag. cbn [skipn app].
  rewrite firstn_app, Nat.sub_diag, firstn_all. cbn [firstn]. apply app_nil_r.
Qed.

Lemma vid_loop_blocks comps bs : blocks_fit comps bs ->
  forall pre r, vid_loop comps (length pre) (pre ++ concat bs) r = fold_left prod_step (block_results comps bs) (Val r).
Proof.
  intro H. induction H as [|c b comps bs Hc _ IH]; intros pre r; [reflexivity|].
  destruct c as [m lp]. cbn [fst] in Hc. subst m.
  cbn [vid_loop concat block_results combine map fold_left fst snd].
  rewrite block_at. fold (block_results comps bs).
  destruct (lp b) as [t| | | | | |] eqn:E; cbn [prod_step];
    try (symmetry; apply prod_step_err_absorb; intros v Hv; discriminate Hv).
  rewrite <- IH with (pre := pre ++ b). rewrite app_length, <- app_assoc. reflexivity.
Qed.

Lemma vid_dim_acc comps a : fold_left (fun a c => (a + fst c)%nat) comps a = (a + vid_dim comps)%nat.
Proof.
  unfold vid_dim. revert a. induction comps as [|c l IH]; intro a; cbn [fold_left]; [lia|].
  rewrite IH, (IH (0 + fst c)%nat). lia.
Qed.
Lemma vid_dim_blocks comps bs : blocks_fit comps bs -> length (concat bs) = vid_dim comps.
Proof.
  intro H. induction H as [|c b comps bs Hc _ IH]; [reflexivity|].
  cbn [concat]. rewrite app_length, IH, Hc. unfold vid_dim at 2. cbn [fold_left]. rewrite vid_dim_acc. lia.
Qed.

(* every layout: the product over blocks is the (error-propagating) sum of the component results *)
Lemma vid_blocks comps bs : blocks_fit comps bs ->
  vid_logpdf comps (concat bs) = fold_left prod_step (block_results comps bs) (Val (Fin 0)).
Proof.
  intro H. unfold vid_logpdf. rewrite (vid_dim_blocks _ _ H), Nat.eqb_refl. cbn [negb].
  apply (vid_loop_blocks comps bs H [] (Fin 0)).
Qed.

Lemma fold_prod_fin rs vs acc : Forall2 (fun r v => r = Val (Fin v)) rs vs ->
  fold_left prod_step rs (Val (Fin acc)) = Val (Fin (fold_left Rplus vs acc)).
Proof.
  intro H. revert acc. induction H as [|r v rs vs Hr _ IH]; intro acc; [reflexivity|].
  cbn [fold_left]. rewrite Hr. cbn [prod_step eadd]. apply IH.
Qed.
(* finite component log-densities: the sum *)
Lemma vid_formula comps bs vs : blocks_fit comps bs ->
  Forall2 (fun r v => r = Val (Fin v)) (block_results comps bs) vs ->
  vid_logpdf comps (concat bs) = Val (Fin (fold_left Rplus vs 0)).
Proof. intros H1 H2. rewrite vid_blocks by exact H1. apply fold_prod_fin. exact H2. Qed.

(* a component that is -Inf on its block (outside its support) makes the product -Inf, when the others are finite or -Inf *)
Lemma fold_prod_ninf rs acc : Forall (fun r => exists v, r = Val v /\ (v = NInf \/ exists q, v = Fin q)) rs ->
  (acc = NInf \/ exists q, acc = Fin q) ->
  (acc = NInf \/ Exists (fun r => r = Val NInf) rs) -> fold_left prod_step rs (Val acc) = Val NInf.
Proof.
  intro H. revert acc. induction H as [|r rs [v [Hr Hv]] _ IH]; intros acc Ha Hex.
  - destruct Hex as [->|Hex]; [reflexivity|inversion Hex].
  - cbn [fold_left]. subst r. cbn [prod_step]. apply IH.
    + destruct Ha as [->|[q ->]], Hv as [->|[q' ->]]; cbn [eadd]; eauto.
    + destruct Ha as [->|[q ->]].
      * left. destruct Hv as [->|[q' ->]]; reflexivity.
      * destruct Hex as [Hx|Hex]; [discriminate Hx|]. inversion Hex as [? ? Hh|? ? Ht]; subst.
        -- injection Hh as ->. left. reflexivity.
        -- right. exact Ht.
Qed.
Lemma vid_support comps bs : blocks_fit comps bs ->
  Forall (fun r => exists v, r = Val v /\ (v = NInf \/ exists q, v = Fin q)) (block_results comps bs) ->
  Exists (fun r => r = Val NInf) (block_results comps bs) ->
  vid_logpdf comps (concat bs) = Val NInf.
Proof.
  intros H1 H2 H3. rewrite vid_blocks by exact H1. apply fold_prod_ninf; [exact H2| right; eexists; reflexivity | right; exact H3].
Qed.

Lemma vid_dim_guard comps x : length x <> vid_dim comps -> vid_logpdf comps x = ErrDim.
Proof. intro H. unfold vid_logpdf. apply Nat.eqb_neq in H. rewrite H. reflexivity. Qed.

(* the regression class "offset i * Dim(i) instead of the running sum": on the layout 2+1+1 the third component
   would read x[2:3] under both, but the layout 1+2 separates them — the model reads the block [x1; x2] *)
Definition probe_first : list R -> res := fun l => Val (Fin (nth 0 l 0)).
Lemma vid_layout_example :
  vid_logpdf [(2%nat, probe_first); (1%nat, probe_first); (1%nat, probe_first)] [1; 10; 100; 1000] = Val (Fin (0 + 1 + 100 + 1000))
  /\ vid_logpdf [(1%nat, probe_first); (2%nat, probe_first)] [1; 10; 100] = Val (Fin (0 + 1 + 10)).
Proof. split; reflexivity. Qed.
