(* C14 — certified correspondence for mutator histories: the cases
   [agrees (heval lgam lerfc gamP family method params zs ops x) observed] of harness/c14/hist.go
   (SModel.v: constructor, the transitions, one method call).  [solve_hcase] is Corr.solve_case with the
   integer arithmetic of the binomial mutators (int(n) of a stored float, n+1, n < 0) kept symbolic until
   the state it is applied to has been computed. *)
From Coq Require Import Reals ZArith Bool List Lra.
From Flocq Require Import Core.Raux.
From Interval Require Import Tactic.
From ADV Require Import Base.Num C14.ER C14.Model C14.VModel C14.SModel C14.ProofsER C14.Corr.
Import ListNotations.
Open Scope R_scope.

Ltac z_step :=
  match goal with
  | |- context [Ztrunc (IZR ?k)] => rewrite (Ztrunc_IZR k)
  | |- context [Ztrunc (IZR ?k + 1 / 2)] => rewrite (Ztrunc_half k)
  | |- context [Z.ltb ?a ?b] =>
      let v := eval cbv in (Z.ltb a b) in
      lazymatch v with
      | true => change (Z.ltb a b) with true
      | false => change (Z.ltb a b) with false
      end
  | |- context [Z.add ?a ?b] =>
      let v := eval cbv in (Z.add a b) in
      lazymatch v with
      | Z0 => change (Z.add a b) with v
      | Zpos _ => change (Z.add a b) with v
      | Zneg _ => change (Z.add a b) with v
      end
  end.

Ltac solve_hcase :=
  intros;
  cbv beta iota zeta delta [heval after with_d P cat_logpdf cat_logcdf cat_cdf cat_pdfm nth];
  rewrite ?Ztrunc_IZR, ?Ztrunc_half;
  cbv -[Rplus Rminus Rmult Rdiv Ropp Rinv Rabs exp ln Rpower sqrt PI IZR Rltb Rleb Reqb Rpos Rneg
        is_intb Zfloor Ztrunc Z.ltb Z.add
        eadd esub emul ediv eneg eabs eexp elog elog1p epow inf_times elgam elerfc egamP eltb eis_nan eis_ninf eis_zero
        agrees at1 at2 near1];
  er_red; use_logged; repeat (first [ z_step | er_step ]; er_red; use_logged);
  repeat (match goal with |- context [Rltb ?a ?b] => destruct (Rltb a b) end;
          er_red; repeat (first [ z_step | er_step ]; er_red; use_logged));
  cbv [agrees];
  first [ reflexivity
        | eexists; split; [ reflexivity | use_logged; use_near; interval with (i_prec 60) ] ].

Tactic Notation "chkh" constr(k) constr(P) :=
  tryif (assert P by solve_hcase) then idtac else idtac "MISMATCH" k.
