(* C14 — model of statistics/generic/mixture.go (HEAD) and of its scalar / vector wrappers
   (statistics/scalarDistribution/mixture.go, statistics/vectorDistribution/mixture.go), which only
   pass the component log-densities `Edist[j].LogPdf(x)` to it.  The mixture works on the log scale:
   the constructor stores log w_j - LogAdd_j(log w_j); LogPdf / Likelihood / Posterior accumulate with
   Scalar.LogAdd (Model.logadd).  A component's LogPdf call is a [res] (value or error): the first
   error is returned.  No proofs in this file. *)
From Coq Require Import Reals ZArith Bool List.
From ADV Require Import Base.Num C14.ER C14.Model.
Import ListNotations.
Open Scope R_scope.

(* generic.NewMixture: weights < 0 are rejected; LogWeights = log w; normalize() *)
Definition mix_normalize (lw : list ER) : list ER :=
  let t1 := fold_left (fun t l => logadd t l) lw NInf in
  map (fun l => esub l t1) lw.
Definition mix_new (w : list R) : option (list ER) :=
  if existsb (fun t => Rltb t 0) w then None
  else Some (mix_normalize (map (fun t => elog (Fin t)) w)).
(* scalarDistribution.NewMixture / vectorDistribution.NewMixture: the number of emission distributions
   (0 = "none yet" is accepted) must equal the number of weights *)
Definition mix_new_wrapped (w : list R) (nedist : nat) : option (list ER) :=
  match mix_new w with
  | None => None
  | Some lw => if (nedist =? 0)%nat || (length lw =? nedist)%nat then Some lw else None
  end.

(* one step `data.LogPdf(t1, j); t1.Add(t1, LogWeights[j]); r.LogAdd(r, t1, t2)` *)
Definition mix_step (acc : res) (l : ER) (c : res) : res :=
  match acc with
  | Val r => match c with Val v => Val (logadd r (eadd v l)) | e => e end
  | e => e
  end.
(* Mixture.LogPdf: r = -Inf; for j < NComponents ... *)
Definition mix_logpdf (lw : list ER) (comps : list res) : res :=
  fold_left (fun acc p => mix_step acc (fst p) (snd p)) (combine lw comps) (Val NInf).

(* the loop over `states` of Likelihood / Posterior: a state outside [0, NComponents) is an error
   (reported as ErrDim: "state out of bounds") *)
Definition mix_states (lw : list ER) (comps : list res) (states : list Z) (f : res -> ER -> res -> res) : res :=
  fold_left (fun acc j =>
               match acc with
               | Val _ =>
                   if (j <? 0)%Z || (Z.of_nat (length lw) <=? j)%Z then ErrDim
                   else f acc (nth (Z.to_nat j) lw NaN) (nth (Z.to_nat j) comps Panic)
               | e => e
               end) states (Val NInf).
(* Mixture.Posterior: r = LogAdd over states of (log p_j + log w_j); z = the same over all components; r - z *)
Definition mix_posterior (lw : list ER) (comps : list res) (states : list Z) : res :=
  match mix_states lw comps states mix_step with
  | Val r => match mix_logpdf lw comps with Val z => Val (esub r z) | e => e end
  | e => e
  end.
(* Mixture.Likelihood: r as above, z = LogAdd over states of log w_j; r - z *)
Definition mix_likelihood (lw : list ER) (comps : list res) (states : list Z) : res :=
  match mix_states lw comps states mix_step with
  | Val r =>
      match mix_states lw comps states (fun acc l _ => match acc with Val z => Val (logadd z l) | e => e end) with
      | Val z => Val (esub r z) | e => e end
  | e => e
  end.

(* dispatcher for the correspondence: weights, number of emission distributions handed to the wrapper's
   constructor, logged component outcomes, method *)
Inductive mixfn := MLogPdf | MPosterior (states : list Z) | MLikelihood (states : list Z) | MLogWeights (j : nat).
Definition mix_eval (w : list R) (comps : list res) (g : mixfn) : res :=
  match mix_new_wrapped w (length comps) with
  | None => CtorErr
  | Some lw =>
      match g with
      | MLogPdf => mix_logpdf lw comps
      | MPosterior s => mix_posterior lw comps s
      | MLikelihood s => mix_likelihood lw comps s
      | MLogWeights j => Val (nth j lw NaN)       (* GetParameters()[j] *)
      end
  end.
