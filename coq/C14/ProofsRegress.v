(* C14 — regression lemmas: the witnesses of the round-1 findings that were fixed in /repo
   (fix: commits 0874c56 bd5e8fa b72a29d ed48436 4ad58c2 bab9049 d31df07 23882d2 e5533b2 0b253b3
   50d8e3b defe9f0), evaluated on the model of HEAD with the correspondence tactic of Corr.v:
   each now has the value the property demands. *)
From Coq Require Import Reals ZArith Bool List Lra.
From Interval Require Import Tactic.
From ADV Require Import Base.Num C14.ER C14.Model C14.Spec C14.ProofsER C14.Corr.
Import ListNotations.
Open Scope R_scope.

Section Regress.
Variables (lgam lerfc : R -> R) (gamP : R -> R -> R).
Notation EV := (eval lgam lerfc gamP).

(* Laplace LogCdf at x = mu is ln (1/2), Cdf = 1/2; sigma <= 0 is rejected *)
Lemma laplace_cdf_regress :
  agrees (EV FLaplace LogCdf [0; 1] [] 0) (OVal (- (6931 / 10000)) (1 / 1000)) /\
  agrees (EV FLaplace Cdf [0; 1] [] 0) (OVal (1 / 2) (1 / 1000)) /\
  agrees (EV FLaplace Cdf [0; 1] [] 1) (OVal (8161 / 10000) (1 / 1000)) /\
  agrees (EV FLaplace Ctor [0; -1] [] 0) OCtorErr.
Proof. split; [solve_case | split; [solve_case | split; solve_case]]. Qed.

(* power law: Cdf = 0 below xmin, 3/4 at x = 2 (alpha = 3, xmin = 1); alpha <= 1 / xmin <= 0 rejected *)
Lemma powerlaw_cdf_regress :
  agrees (EV FPowerLaw Cdf [3; 1] [] (1 / 2)) (OVal 0 0) /\
  agrees (EV FPowerLaw Cdf [3; 1] [] 2) (OVal (3 / 4) (1 / 1000)) /\
  agrees (EV FPowerLaw Ctor [1 / 2; 1] [] 0) OCtorErr /\
  agrees (EV FPowerLaw Ctor [3; -1] [] 0) OCtorErr.
Proof. split; [solve_case | split; [solve_case | split; solve_case]]. Qed.

(* chi-squared: -Inf below the support; k = 2 at x = 0 is ln (1/2); k <= 0 rejected; Cdf = 0 for x <= 0 *)
Lemma chisq_regress :
  agrees (EV FChiSquared LogPdf [3] [] (-1)) ONInf /\
  (at1 lgam 1 0 -> agrees (EV FChiSquared LogPdf [2] [] 0) (OVal (- (6931 / 10000)) (1 / 1000))) /\
  agrees (EV FChiSquared Ctor [-3] [] 0) OCtorErr /\
  agrees (EV FChiSquared Cdf [3] [] (-1)) (OVal 0 0) /\
  agrees (EV FGamma Cdf [2; 3] [] (-1)) (OVal 0 0) /\
  agrees (EV FGamma LogCdf [2; 3] [] 0) ONInf.
Proof. split; [solve_case | split; [solve_case | split; [solve_case | split; [solve_case | split; solve_case]]]]. Qed.

(* categorical: non-integers rejected with an error, -Inf outside 0..n-1, Cdf(0) = theta_0, Cdf = 0 below 0,
   Cdf = 1 above the last category *)
Lemma categorical_regress :
  agrees (EV FCategorical LogPdf [1 / 4; 1 / 4; 1 / 2] [] (IZR (-1) + 1 / 2)) OErrInt /\
  agrees (EV FCategorical LogPdf [1 / 4; 1 / 4; 1 / 2] [] (IZR 3)) ONInf /\
  agrees (EV FCategorical Cdf [1] [] (IZR 0)) (OVal 1 (1 / 1000)) /\
  agrees (EV FCategorical Cdf [1 / 4; 1 / 4; 1 / 2] [] (IZR (-2))) (OVal 0 0) /\
  agrees (EV FCategorical Cdf [1 / 4; 1 / 4; 1 / 2] [] (IZR 7)) (OVal 1 (1 / 1000)).
Proof. split; [solve_case | split; [solve_case | split; [solve_case | split; solve_case]]]. Qed.

(* success probability on the boundary: 0^0 = 1, no NaN *)
Lemma boundary_regress :
  (at1 lgam 1 0 -> at1 lgam 6 (ln 120) -> agrees (EV FBinomial LogPdf [0] [5%Z] (IZR 0)) (OVal 0 (1 / 1000))) /\
  agrees (EV FBinomial LogPdf [0] [5%Z] (IZR 2)) ONInf /\
  agrees (EV FGeometric LogPdf [1] [] (IZR 0)) (OVal 0 (1 / 1000)) /\
  agrees (EV FGeometric LogPdf [1] [] (IZR 3)) ONInf.
Proof. split; [solve_case | split; [solve_case | split; solve_case]]. Qed.

(* cdf = 1 above the upper end point of the support (xi < 0) *)
Lemma upper_endpoint_regress :
  agrees (EV FGPareto Cdf [2; 3 / 4; -1] [] 5) (OVal 1 (1 / 1000)) /\
  agrees (EV FGPareto Cdf [2; 3 / 4; -1] [] (5 / 2)) (OVal (2 / 3) (1 / 1000)) /\
  agrees (EV FGev Cdf [0; 1; -1] [] 2) (OVal 1 (1 / 1000)) /\
  agrees (EV FGev Cdf [0; 1; -1] [] (1 / 2)) (OVal (6065 / 10000) (1 / 1000)).
Proof. split; [solve_case | split; [solve_case | split; solve_case]]. Qed.

End Regress.
