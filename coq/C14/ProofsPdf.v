(* C14 — the Pdf methods (round 6).  Every Pdf method of the three distribution packages is
   `if err := LogPdf(r, x); err != nil { return err }; r.Exp(r)`  (Model.X_pdfm / pdf_of).  For every family:
   on the support Pdf returns the textbook density / mass itself, outside the support exactly 0 (never a
   negative number, never NaN), an error of LogPdf is passed on; the value is never negative. *)
From Coq Require Import String.
From Coq Require Import Reals ZArith Bool Lra Lia Psatz List.
From Flocq Require Import Core.Raux.
From ADV Require Import Base.Num C14.ER C14.Model C14.VModel C14.Spec C14.ProofsER C14.ProofsCont C14.ProofsDisc C14.ProofsVec C14.CorrS.
Import ListNotations.
Open Scope R_scope.

Lemma pdf_ln p : 0 < p -> rmap eexp (Val (Fin (ln p))) = Val (Fin p).
Proof. intro H. cbn. rewrite exp_ln by exact H. reflexivity. Qed.
Lemma pdf_ninf : rmap eexp (Val NInf) = Val (Fin 0).
Proof. reflexivity. Qed.

Ltac ppos := unfold Gam; pos.
(* rewrite with the formula theorem's clause, then exp (ln p) = p *)
Ltac by_ln H := rewrite H by assumption; apply pdf_ln.
Ltac by_ninf H := rewrite H by assumption; reflexivity.

Section Pdf.
Variables (lgam : R -> R).

(* the result of a Pdf call is never a negative number and never -Inf, whatever LogPdf returned *)
Definition nonneg_res (r : res) : Prop :=
  match r with Val (Fin v) => 0 <= v | Val NInf => False | _ => True end.
Lemma pdf_of_nonneg r : nonneg_res (pdf_of r).
Proof. destruct r as [[v| | |]| | | | | |]; cbn; auto; try lra. left. apply exp_pos. Qed.
(* ... it is the exponential of what LogPdf left in r, and LogPdf's error otherwise *)
Lemma pdf_of_val v : pdf_of (Val v) = Val (eexp v).
Proof. reflexivity. Qed.
Lemma pdf_of_err r : (forall v, r <> Val v) -> pdf_of r = r.
Proof. destruct r; intro H; try reflexivity. exfalso. exact (H v eq_refl). Qed.

Lemma exponential_density lambda : exponential_valid lambda ->
  exists d, exp_new lambda = Some d /\
    (forall x, 0 <= x -> exp_pdfm d x = Val (Fin (exponential_pdf lambda x))) /\
    (forall x, x < 0 -> exp_pdfm d x = Val (Fin 0)).
Proof.
  intro V. destruct (exponential_formula lambda V) as (d & Hn & Hin & Hout). exists d. split; [exact Hn|].
  split; intros x Hx; unfold exp_pdfm.
  - by_ln Hin. unfold exponential_valid in V. unfold exponential_pdf. ppos.
  - by_ninf Hout.
Qed.

Lemma laplace_density mu sigma : laplace_valid mu sigma ->
  exists d, lap_new mu sigma = Some d /\ forall x, lap_pdfm d x = Val (Fin (laplace_pdf mu sigma x)).
Proof.
  intro V. destruct (laplace_formula mu sigma V) as (d & Hn & Hin). exists d. split; [exact Hn|].
  intro x. unfold lap_pdfm. rewrite Hin. apply pdf_ln. unfold laplace_valid in V. unfold laplace_pdf. ppos.
Qed.

Lemma pareto_density lambda kappa : pareto_valid lambda kappa ->
  exists d, par_new lambda kappa = Some d /\
    (forall x, lambda <= x -> par_pdfm d x = Val (Fin (pareto_pdf lambda kappa x))) /\
    (forall x, x < lambda -> par_pdfm d x = Val (Fin 0)).
Proof.
  intro V. destruct (pareto_formula lambda kappa V) as (d & Hn & Hin & Hout). exists d. split; [exact Hn|].
  split; intros x Hx; unfold par_pdfm.
  - by_ln Hin. destruct V as [V1 V2]. unfold pareto_pdf. ppos.
  - by_ninf Hout.
Qed.

Lemma gpareto_density mu sigma xi : gpareto_valid mu sigma xi ->
  exists d, gp_new mu sigma xi = Some d /\
    (forall x, mu <= x -> (xi < 0 -> x < mu - sigma / xi) -> gp_pdfm d x = Val (Fin (gpareto_pdf mu sigma xi x))) /\
    (forall x, ~ gpareto_support mu sigma xi x -> gp_pdfm d x = Val (Fin 0)).
Proof.
  intro V. destruct (gpareto_formula mu sigma xi V) as (d & Hn & Hin & Hout). exists d. split; [exact Hn|].
  split; unfold gp_pdfm.
  - intros x H1 H2. rewrite (Hin x H1 H2). apply pdf_ln. unfold gpareto_valid in V. unfold gpareto_pdf.
    destruct (Req_EM_T xi 0); ppos.
  - intros x Hx. by_ninf Hout.
Qed.

Lemma gev_density mu sigma xi : gev_valid mu sigma xi ->
  exists d, gev_new mu sigma xi = Some d /\
    (forall x, gev_support mu sigma xi x -> gev_pdfm d x = Val (Fin (gev_pdf mu sigma xi x))) /\
    (forall x, ~ gev_support mu sigma xi x -> gev_pdfm d x = Val (Fin 0)).
Proof.
  intro V. destruct (gev_formula mu sigma xi V) as (d & Hn & Hin & Hout). exists d. split; [exact Hn|].
  split; intros x Hx; unfold gev_pdfm.
  - by_ln Hin. unfold gev_valid in V. unfold gev_pdf. ppos.
  - by_ninf Hout.
Qed.

Lemma cauchy_density mu sigma : cauchy_valid mu sigma ->
  exists d, cau_new mu sigma = Some d /\ forall x, cau_pdfm d x = Val (Fin (cauchy_pdf mu sigma x)).
Proof.
  intro V. destruct (cauchy_formula mu sigma V) as (d & Hn & Hin). exists d. split; [exact Hn|].
  intro x. unfold cau_pdfm. rewrite Hin. apply pdf_ln. unfold cauchy_valid in V. unfold cauchy_pdf.
  apply Rinv_0_lt_compat. assert (0 <= ((x - mu) / sigma) ^ 2) by apply pow2_ge_0.
  assert (0 < PI) by apply PI_RGT_0. apply Rmult_lt_0_compat; [apply Rmult_lt_0_compat|]; lra.
Qed.

Lemma powerlaw_density alpha xmin : powerlaw_valid alpha xmin ->
  exists d, pl_new alpha xmin = Some d /\
    (forall x, xmin <= x -> pl_pdfm d x = Val (Fin (powerlaw_pdf alpha xmin x))) /\
    (forall x, x < xmin -> pl_pdfm d x = Val (Fin 0)).
Proof.
  intro V. destruct (powerlaw_formula alpha xmin V) as (d & Hn & Hin & Hout). exists d. split; [exact Hn|].
  split; intros x Hx; unfold pl_pdfm.
  - by_ln Hin. destruct V as [V1 V2]. unfold powerlaw_pdf. ppos.
  - by_ninf Hout.
Qed.

Lemma gamma_density alpha beta : gamma_valid alpha beta ->
  exists d, gam_new lgam alpha beta = Some d /\
    (forall x, 0 < x -> gam_pdfm d x = Val (Fin (gamma_pdf lgam alpha beta x))) /\
    (forall x, x <= 0 -> gam_pdfm d x = Val (Fin 0)).
Proof.
  intro V. destruct (gamma_formula lgam alpha beta V) as (d & Hn & Hin & Hout). exists d. split; [exact Hn|].
  split; intros x Hx; unfold gam_pdfm.
  - by_ln Hin. unfold gamma_pdf. ppos.
  - by_ninf Hout.
Qed.

Lemma gengamma_density a d p : gengamma_valid a d p ->
  exists g, gg_new lgam a d p = Some g /\
    (forall x, 0 < x -> gg_pdfm g x = Val (Fin (gengamma_pdf lgam a d p x))) /\
    (forall x, x <= 0 -> gg_pdfm g x = Val (Fin 0)).
Proof.
  intro V. destruct (gengamma_formula lgam a d p V) as (g & Hn & Hin & Hout). exists g. split; [exact Hn|].
  split; intros x Hx; unfold gg_pdfm.
  - by_ln Hin. destruct V as (V1 & V2 & V3). unfold gengamma_pdf. ppos.
  - by_ninf Hout.
Qed.

(* chi-squared: at x = 0 the density is 0 (k > 2), 1/2 (k = 2) or +Inf (k < 2) — and Pdf says so *)
Lemma chisq_density k : chisq_valid k ->
  exists d, chi_new lgam k = Some d /\
    (forall x, 0 < x -> chi_pdfm d x = Val (Fin (chisq_pdf lgam k x))) /\
    (forall x, x < 0 -> chi_pdfm d x = Val (Fin 0)) /\
    (2 < k -> chi_pdfm d 0 = Val (Fin 0)) /\
    (k = 2 -> chi_pdfm d 0 = Val (Fin (/ (2 * Gam lgam 1)))) /\
    (k < 2 -> chi_pdfm d 0 = Val PInf).
Proof.
  intro V. destruct (chisq_formula lgam k V) as (d & Hn & Hin & Hout & H2 & He & Hl). exists d. split; [exact Hn|].
  unfold chi_pdfm. repeat split.
  - intros x Hx. by_ln Hin. unfold chisq_pdf. ppos.
  - intros x Hx. by_ninf Hout.
  - intro H. rewrite (H2 H). reflexivity.
  - intro H. rewrite (He H). apply pdf_ln. ppos.
  - intro H. rewrite (Hl H). reflexivity.
Qed.

Lemma beta_density a b : beta_valid a b ->
  exists d, beta_new lgam a b false = Some d /\
    (forall x, 0 < x < 1 -> beta_pdfm d x = Val (Fin (beta_pdf lgam a b x))) /\
    (forall x, x < 0 \/ 1 < x -> beta_pdfm d x = Val (Fin 0)).
Proof.
  intro V. destruct (beta_formula lgam a b V) as (d & Hn & Hin & Hout). exists d. split; [exact Hn|].
  split; intros x Hx; unfold beta_pdfm.
  - by_ln Hin. unfold beta_pdf. ppos.
  - by_ninf Hout.
Qed.

Lemma beta_logscale_density a b : beta_valid a b ->
  exists d, beta_new lgam a b true = Some d /\
    (forall x, x < 0 -> beta_pdfm d x = Val (Fin (beta_pdf lgam a b (exp x)))) /\
    (forall x, 0 < x -> beta_pdfm d x = Val (Fin 0)).
Proof.
  intro V. destruct (beta_logscale_formula lgam a b V) as (d & Hn & Hin & Hout). exists d. split; [exact Hn|].
  split; intros x Hx; unfold beta_pdfm.
  - by_ln Hin. unfold beta_pdf. ppos.
  - by_ninf Hout.
Qed.

(* ---- discrete families: the mass function itself; a non-integer argument keeps LogPdf's verdict *)
Lemma geometric_mass p : 0 < p < 1 ->
  exists d, geo_new p = Some d /\
    (forall k, (0 <= k)%Z -> geo_pdfm d (IZR k) = Val (Fin (geometric_pmf p k))) /\
    (forall k, (k < 0)%Z -> geo_pdfm d (IZR k) = Val (Fin 0)) /\
    (forall x, is_intb x = false -> geo_pdfm d x = ErrInt).
Proof.
  intro V. destruct (geometric_formula p V) as (d & Hn & Hin & Hout & He). exists d. split; [exact Hn|].
  unfold geo_pdfm. repeat split.
  - intros k Hk. by_ln Hin. unfold geometric_pmf. ppos.
  - intros k Hk. by_ninf Hout.
  - intros x Hx. rewrite (He x Hx). reflexivity.
Qed.

Lemma poisson_mass lambda : poisson_valid lambda ->
  exists d, poi_new lambda = Some d /\
    (forall k, (0 <= k)%Z -> poi_pdfm lgam d (IZR k) = Val (Fin (poisson_pmf lgam lambda k))) /\
    (forall k, (k < 0)%Z -> poi_pdfm lgam d (IZR k) = Val (Fin 0)) /\
    (forall x, is_intb x = false -> poi_pdfm lgam d x = ErrInt).
Proof.
  intro V. destruct (poisson_formula lgam lambda V) as (d & Hn & Hin & Hout & He). exists d. split; [exact Hn|].
  unfold poi_pdfm. repeat split.
  - intros k Hk. by_ln Hin. unfold poisson_pmf. ppos.
  - intros k Hk. by_ninf Hout.
  - intros x Hx. rewrite (He x Hx). reflexivity.
Qed.

Lemma negbinomial_mass r p : 0 < r -> 0 < p < 1 ->
  exists d, nb_new lgam r p = Some d /\
    (forall k, (0 <= k)%Z -> nb_pdfm lgam d (IZR k) = Val (Fin (negbinomial_pmf lgam r p k))) /\
    (forall k, (k < 0)%Z -> nb_pdfm lgam d (IZR k) = Val (Fin 0)) /\
    (forall x, is_intb x = false -> nb_pdfm lgam d x = Val (Fin 0)).
Proof.
  intros Vr Vp. destruct (negbinomial_formula lgam r p Vr Vp) as (d & Hn & Hin & Hout & He). exists d. split; [exact Hn|].
  unfold nb_pdfm. repeat split.
  - intros k Hk. by_ln Hin. unfold negbinomial_pmf. ppos.
  - intros k Hk. by_ninf Hout.
  - intros x Hx. rewrite (He x Hx). reflexivity.
Qed.

Lemma binomial_mass theta n : 0 < theta < 1 -> (0 <= n)%Z ->
  exists d, bin_new lgam theta n = Some d /\
    (forall k, (0 <= k <= n)%Z -> bin_pdfm lgam d (IZR k) = Val (Fin (binomial_pmf lgam theta n k))) /\
    (forall k, (k < 0)%Z \/ (n < k)%Z -> bin_pdfm lgam d (IZR k) = Val (Fin 0)) /\
    (forall x, is_intb x = false -> bin_pdfm lgam d x = Val (Fin 0)).
Proof.
  intros Vt Vn. destruct (binomial_formula lgam theta n Vt Vn) as (d & Hn & Hin & Hout & He). exists d. split; [exact Hn|].
  unfold bin_pdfm. repeat split.
  - intros k Hk. by_ln Hin. unfold binomial_pmf. ppos.
  - intros k Hk. by_ninf Hout.
  - intros x Hx. rewrite (He x Hx). reflexivity.
Qed.

Lemma categorical_mass_pdf theta : theta <> [] -> Forall (fun t => 0 < t) theta ->
  exists d, cat_new theta = Some d /\
    (forall k, (0 <= k < Z.of_nat (length theta))%Z -> cat_pdfm d (IZR k) = Val (Fin (nth (Z.to_nat k) theta 0))) /\
    (forall k, (k < 0 \/ Z.of_nat (length theta) <= k)%Z -> cat_pdfm d (IZR k) = Val (Fin 0)) /\
    (forall x, is_intb x = false -> cat_pdfm d x = ErrInt).
Proof.
  intros Hne Hpos. destruct (categorical_formula theta Hne Hpos) as (d & Hn & Hin & Hout & He). exists d. split; [exact Hn|].
  unfold cat_pdfm. repeat split.
  - intros k Hk. by_ln Hin. rewrite Forall_forall in Hpos. apply Hpos. apply nth_In. lia.
  - intros k Hk. by_ninf Hout.
  - intros x Hx. rewrite (He x Hx). reflexivity.
Qed.

Lemma delta_mass X x : delta_pdfm X x = if Req_EM_T x X then Val (Fin 1) else Val (Fin 0).
Proof.
  unfold delta_pdfm. rewrite delta_formula. destruct (Req_EM_T x X); cbn; [rewrite exp_0|]; reflexivity.
Qed.

(* ---- wrappers *)
Lemma translation_density (inner : R -> res) (f : R -> R) c :
  (forall y, inner y = Val (Fin (ln (f y)))) -> (forall y, 0 < f y) ->
  forall x, translation_pdfm inner c x = Val (Fin (f (x + c))).
Proof.
  intros Hi Hf x. unfold translation_pdfm. rewrite (translation_formula inner f c Hi x). apply pdf_ln. apply Hf.
Qed.

Lemma logtransform_density (inner : R -> res) (f : R -> R) c :
  (forall y, inner y = Val (Fin (ln (f y)))) -> (forall y, 0 < f y) ->
  (forall x, 0 <= x -> 0 < x + c -> logtransform_pdfm inner c x = Val (Fin (f (ln (x + c)) / (x + c)))) /\
  (forall x, x < 0 -> logtransform_pdfm inner c x = Val (Fin 0)).
Proof.
  intros Hi Hf. destruct (logtransform_formula inner f c Hi Hf) as [Hin Hout]. unfold logtransform_pdfm. split.
  - intros x H0 Hc. rewrite (Hin x H0 Hc). apply pdf_ln. apply Rdiv_lt_0_compat; [apply Hf|exact Hc].
  - intros x Hx. rewrite (Hout x Hx). reflexivity.
Qed.

(* ---- vector families: Pdf of the multivariate t / normal is the textbook density for every dimension *)
Lemma mvt_density nu mu sinv sdet x : 0 < nu -> 0 < sdet -> 0 <= qform sinv x mu ->
  pdf_of (vt_logpdf (vt_new lgam nu mu sinv sdet) x) = Val (Fin (mvt_pdf lgam nu (length mu) sdet (qform sinv x mu))).
Proof.
  intros Hnu Hs Hq. rewrite (mvt_formula lgam nu mu sinv sdet x Hnu Hs Hq). apply pdf_ln.
  unfold mvt_pdf. ppos.
Qed.

Lemma mvn_density mu sinv sdet x : 0 < sdet -> length x = length mu ->
  exists d, vn_new mu sinv sdet = Some d /\ pdf_of (vn_logpdf d x) = Val (Fin (mvn_pdf (length mu) sdet (qform sinv x mu))).
Proof.
  intros Hs Hl. destruct (mvn_formula mu sinv sdet x Hs Hl) as (d & Hn & Hf). exists d. split; [exact Hn|].
  rewrite Hf. apply pdf_ln. unfold mvn_pdf. apply Rmult_lt_0_compat; [|apply exp_pos].
  apply Rinv_0_lt_compat, sqrt_lt_R0. apply Rmult_lt_0_compat; [|exact Hs].
  apply pow_lt. assert (0 < PI) by apply PI_RGT_0. lra.
Qed.

End Pdf.

(* ---- the dispatcher obeys the table of shapes that is re-generated from the source on every run (CorrS.v):
   whenever the table says that method g of the type behind family f is an exp-wrapper of method m, [eval f g] is
   [pdf_of (eval f m)] — for every parameter vector (rejected ones included: the constructor's error is passed on)
   and every point. *)
Lemma exp_wrappers_sound (lgam lerfc : R -> R) (gamP : R -> R -> R) f g m :
  exp_wrapper_of f g m ->
  forall ps zs x, eval lgam lerfc gamP f g ps zs x = pdf_of (eval lgam lerfc gamP f m ps zs x).
Proof.
  unfold exp_wrapper_of, scalar_pkg. intros H ps zs x.
  destruct f, g; vm_compute in H; try discriminate H; destruct m; vm_compute in H; try discriminate H; clear H;
    cbv beta iota delta [eval with_d];
    match goal with
    | |- match ?o with Some _ => _ | None => _ end = _ => destruct o; reflexivity
    | |- _ => reflexivity
    end.
Qed.

Lemma exp_wrappers_cdf f : In f [FNormal; FExponential; FLaplace; FPareto; FGPareto; FGev; FCategorical; FPowerLaw] ->
  exp_wrapper_of f Cdf LogCdf.
Proof. cbn. intros [H|[H|[H|[H|[H|[H|[H|[H|[]]]]]]]]]; subst f; reflexivity. Qed.

(* every family of the dispatcher that offers Pdf is covered by the table (nothing is vacuous) *)
Lemma exp_wrappers_cover f :
  f <> FNormal -> exp_wrapper_of f Pdf LogPdf.
Proof. destruct f; intro H; try reflexivity. exfalso. apply H. reflexivity. Qed.
