(* C19 — pointer-level worlds, part 2: the pointer-level Next (three branches,
   node pointer dereference, climb through STORED parents) is the value-level
   iter_next, and every step of a pointer-level world refines the set-level
   specification; whole histories follow. *)
From Coq Require Import ZArith List Bool Lia Arith.
From ADV Require Import C19.Model C19.ModelP C19.ModelW C19.Spec C19.ProofsList C19.ProofsLookup
  C19.ProofsIns C19.ProofsDel C19.ProofsRun C19.ProofsIter C19.ProofsIds C19.ProofsPar C19.ProofsNext
  C19.ProofsW1.
Import ListNotations.
Open Scope Z_scope.

(* the value-level tree state a region erases to (ids = heap addresses) *)
Definition ets (g : nat) (ts : ptstate) : tstate :=
  {| tr := erase (pt ts); nx := g; dead := map fst (pdead ts) |}.

Lemma existsb_eqb_false k l : ~ In k l -> existsb (Nat.eqb k) l = false.
Proof.
  intro H. destruct (existsb (Nat.eqb k) l) eqn:Ee; [|reflexivity].
  apply existsb_exists in Ee. destruct Ee as (x & Hx & He). apply Nat.eqb_eq in He. subst x. tauto.
Qed.

(* Go's test  node.Deleted || value != node.Value  on the dereferenced pointer is
   the model's re-find test *)
Lemma prefind_test g ts it k :
  ptid g ts ->
  (match pderef ts k with Some c => cdel c || negb (cv c =? ival it) | None => true end) =
  existsb (Nat.eqb k) (map fst (pdead ts)) ||
  match value_at k (erase (pt ts)) with Some w => negb (w =? ival it) | None => true end.
Proof.
  intros (A & B & C & D & F). unfold pderef.
  destruct (pnode k (pt ts)) as [s|] eqn:Ep.
  - destruct (pnode_some k _ s Ep) as (l & v & b & p & r & -> & Hv). rewrite Hv.
    rewrite existsb_eqb_false; [reflexivity|].
    intro Hin. apply in_map_iff in Hin. destruct Hin as ([k' c] & Hk & Hin). simpl in Hk. subst k'.
    destruct (D k c Hin) as (_ & _ & D3). apply pnode_cnt in Ep. unfold pcnt in D3. lia.
  - pose proof Ep as E0. apply pnode_none in E0. apply value_at_none_cnt in E0. rewrite E0.
    rewrite orb_true_r. destruct (lookup k (pdead ts)) as [c|] eqn:El; [|reflexivity].
    apply lookup_In in El. destruct (D k c El) as (_ & -> & _). reflexivity.
Qed.

(* the climb through stored parents / the descent are taken exactly when the node
   is reachable, not tombstoned and still holds the iterator's value *)
Lemma pnext_walk_only_when_live g ts it k :
  ptid g ts -> inode it = Some k ->
  (match pderef ts k with Some c => cdel c || negb (cv c =? ival it) | None => true end) = false ->
  (1 <= pcnt k ts)%nat /\ ~ In k (map fst (pdead ts)) /\ value_at k (erase (pt ts)) = Some (ival it) /\
  pnext ts it = match psucc (pt ts) k with
                | Some (Some (k', v')) => {| itree := itree it; inode := Some k'; ival := v' |}
                | _ => {| itree := itree it; inode := None; ival := ival it |} end.
Proof.
  intros Hid Hk Hf. pose proof Hid as (A & B & C & D & F).
  pose proof Hf as Hf2. rewrite (prefind_test g ts it k Hid) in Hf2.
  apply orb_false_iff in Hf2. destruct Hf2 as [H1 H2].
  destruct (value_at k (erase (pt ts))) as [w|] eqn:Ev; [|discriminate].
  apply negb_false_iff, Z.eqb_eq in H2. subst w.
  split; [|split; [|split; [reflexivity|]]].
  - unfold pcnt. destruct (Nat.eq_dec (cnt k (erase (pt ts))) 0) as [H0|H0]; [|lia].
    apply value_at_none_cnt in H0. congruence.
  - intro Hin. assert (existsb (Nat.eqb k) (map fst (pdead ts)) = true); [|congruence].
    apply existsb_exists. exists k. split; [exact Hin|apply Nat.eqb_refl].
  - unfold pnext. rewrite Hk, Hf. destruct (psucc (pt ts) k) as [[[k' v']|]|]; reflexivity.
Qed.

Lemma pnext_iter_next g ts it : ptid g ts -> pnext ts it = iter_next (ets g ts) it.
Proof.
  intros Hid. pose proof Hid as (A & B & C & D & F). unfold pnext, iter_next.
  destruct (inode it) as [k|]; [|reflexivity]. cbn [ets tr dead].
  rewrite (prefind_test g ts it k Hid), pFindNodeLE_erase.
  destruct (existsb (Nat.eqb k) (map fst (pdead ts)) ||
            match value_at k (erase (pt ts)) with Some w => negb (w =? ival it) | None => true end);
    [reflexivity|].
  rewrite (psucc_spec (pt ts) k A B). reflexivity.
Qed.

(* ---- world invariant ------------------------------------------------------------ *)
Definition pelems (ts : ptstate) : list Z := elements (erase (pt ts)).
Definition pabs (w : pworld) : aworld :=
  {| asets := map pelems (ptrees w); aiters := map abs_iter (piters w) |}.
Definition ptinv (ts : ptstate) : Prop :=
  avl (erase (pt ts)) /\ bst (erase (pt ts)) /\ Forall in_range (pelems ts).
Definition pwinv (w : pworld) : Prop :=
  Forall (ptid (gnx w)) (ptrees w) /\ Forall ptinv (ptrees w) /\
  Forall (fun it => in_range (ival it)) (piters w).

Lemma ptinv_pt0 : ptinv pt0.
Proof. unfold ptinv, pelems. simpl. split; [exact I|]. split; [apply bst_E|constructor]. Qed.
Lemma pwinv_init : pwinv pinit.
Proof.
  split; [|split]; simpl.
  - constructor; [apply (ptid_pt0 0)|constructor].
  - constructor; [apply ptinv_pt0|constructor].
  - constructor.
Qed.
Lemma nth_pelems l t : nth t (map pelems l) [] = pelems (nth t l pt0).
Proof. change (@nil Z) with (pelems pt0). apply map_nth. Qed.
Lemma Forall_ptid_mono g g' l : (g <= g')%nat -> Forall (ptid g) l -> Forall (ptid g') l.
Proof. intros Hg H. eapply Forall_impl; [|exact H]. intros ts. apply ptid_mono. exact Hg. Qed.
Lemma mk_it_abs t (p : option (nat * Z)) : abs_iter (mk_it t p) = mk_iter t (option_map snd p).
Proof. destruct p as [[k v]|]; reflexivity. Qed.
Lemma it_out_proj o it : (forall t, o <> Elems t) -> proj o (it_out it) = obs_iter (abs_iter it).
Proof.
  intro Ho. unfold it_out, obs_iter, abs_iter. simpl.
  destruct o; try (destruct (inode it); reflexivity). exfalso. eapply Ho. reflexivity.
Qed.
Lemma mk_it_in_range t (p : option (nat * Z)) l :
  Forall in_range l -> (forall v, option_map snd p = Some v -> In v l) -> in_range (ival (mk_it t p)).
Proof.
  intros HF H. destruct p as [[k v]|]; simpl; [|apply in_range_0].
  rewrite Forall_forall in HF. apply HF, H. reflexivity.
Qed.

(* ---- one step refines the set-level specification ------------------------------ *)
Lemma pstep_refines w o :
  pwinv w -> op_in_range o ->
  pwinv (fst (pwstep_core w o)) /\
  pabs (fst (pwstep_core w o)) = fst (astep (pabs w) o) /\
  proj o (snd (pwstep_core w o)) = snd (astep (pabs w) o).
Proof.
  intros Hw Ho. pose proof Hw as (Hids & Htrees & Hiters).
  set (g := gnx w) in *.
  assert (Hnth : forall t, ptid g (nth t (ptrees w) pt0) /\ ptinv (nth t (ptrees w) pt0)).
  { intro t. split; apply Forall_nth_d; auto using ptid_pt0, ptinv_pt0. }
  destruct o as [t i|t i|t i|t i|t|t|t i|k|k|t]; simpl in Ho; unfold pwstep_core, astep, pabs;
    cbn [asets aiters ptrees piters]; rewrite ?nth_pelems.
  - (* Ins *)
    destruct (Hnth t) as (Hid & Ha & Hb & Hr). set (ts := nth t (ptrees w) pt0) in *. fold g.
    destruct (pins i g None (pt ts)) as [[[t' ok] bd] n] eqn:Ep.
    destruct (pins_ptid g i ts t' ok bd n Hid Ep) as (Hn & _ & Hid').
    pose proof (ins_refines_lemma i g (erase (pt ts)) Ha Hb) as H.
    rewrite (pins_erase i _ _ _ _ _ _ _ Ep) in H. destruct H as (A1 & A2 & A3 & A4 & _).
    cbn [fst snd ptrees piters gnx proj].
    assert (Hel : elements (erase t') = sadd i (pelems ts)).
    { unfold pelems. rewrite A4. destruct ok; [reflexivity|]. symmetry. apply sadd_mem; [exact Hb|].
      destruct (smem i (elements (erase (pt ts)))); [reflexivity|discriminate]. }
    split; [|split].
    + unfold pwinv; cbn [gnx ptrees piters]. split; [|split; [|exact Hiters]].
      * apply Forall_upd; [|exact Hid']. apply (Forall_ptid_mono g); [rewrite Hn; destruct ok; lia|exact Hids].
      * apply Forall_upd; [exact Htrees|]. unfold ptinv, pelems. cbn [pt].
        repeat split; auto. rewrite Hel. apply sadd_Forall; auto.
    + f_equal. rewrite upd_map. unfold pelems at 1. cbn [pt]. rewrite Hel. reflexivity.
    + rewrite A3. unfold pelems. destruct (negb (smem i (elements (erase (pt ts))))); reflexivity.
  - (* Del *)
    destruct (Hnth t) as (Hid & Ha & Hb & Hr). set (ts := nth t (ptrees w) pt0) in *.
    destruct (pdel i (pt ts)) as [[[t' ok] bd] d] eqn:Ep.
    pose proof (del_refines_lemma i (erase (pt ts)) Ha Hb) as H.
    rewrite (pdel_erase i _ _ _ _ _ Ep) in H. cbv zeta in H.
    destruct H as (A1 & A2 & A3 & A4 & _). cbn [fst snd ptrees piters gnx proj].
    assert (Hnew : ptid g {| pt := if ok then t' else pt ts; pdead := del_dead ts ok d |}).
    { destruct ok.
      - destruct (pdel_ptid g i ts t' bd d Hid Ep) as (kd & c & -> & Hs & _ & _ & Hid').
        unfold del_dead. rewrite Hs. exact Hid'.
      - unfold del_dead. destruct ts as [tt dd]. destruct d; exact Hid. }
    split; [|split].
    + unfold pwinv; cbn [gnx ptrees piters]. split; [|split; [|exact Hiters]].
      * apply Forall_upd; [exact Hids|]. exact Hnew.
      * apply Forall_upd; [exact Htrees|]. unfold ptinv, pelems. cbn [pt].
        assert (He : erase (if ok then t' else pt ts) = (if ok then erase t' else erase (pt ts)))
          by (destruct ok; reflexivity).
        rewrite He. repeat split; auto. rewrite A4. apply sdel_Forall; auto.
    + f_equal. rewrite upd_map. unfold pelems at 1. cbn [pt].
      assert (He : erase (if ok then t' else pt ts) = (if ok then erase t' else erase (pt ts)))
        by (destruct ok; reflexivity).
      rewrite He, A4. reflexivity.
    + rewrite A3. unfold pelems. destruct (smem i (elements (erase (pt ts)))); reflexivity.
  - (* Find *)
    destruct (Hnth t) as (Hid & Ha & Hb & Hr). set (ts := nth t (ptrees w) pt0) in *.
    cbn [fst snd proj]. split; [exact Hw|]. split; [reflexivity|].
    pose proof (find_spec i (erase (pt ts)) Hb) as H. unfold pelems.
    destruct (find i (erase (pt ts))) as [[k v]|].
    + destruct H as [_ ->]. reflexivity.
    + rewrite H. reflexivity.
  - (* FindLE *)
    destruct (Hnth t) as (Hid & Ha & Hb & Hr). set (ts := nth t (ptrees w) pt0) in *.
    cbn [fst]. split; [exact Hw|]. split; [reflexivity|].
    rewrite pFindNodeLE_erase.
    pose proof (find_le_first_ge i (erase (pt ts)) Hb) as H. unfold pelems. rewrite <- H.
    destruct (find_le i (erase (pt ts)) None) as [[k v]|]; reflexivity.
  - (* Clone *)
    destruct (Hnth t) as (Hid & Ha & Hb & Hr). set (ts := nth t (ptrees w) pt0) in *. fold g.
    destruct (pclone g (pt ts)) as [c g'] eqn:Ec.
    destruct (pclone_ptid g ts c g' Hid Ec) as (Hg & Hid' & _).
    pose proof (pclone_shape _ _ _ _ Ec) as Hsh.
    pose proof (shape_eq_elements _ _ Hsh) as Hel.
    cbn [fst snd ptrees piters gnx proj]. split; [|split].
    + unfold pwinv; cbn [gnx ptrees piters]. split; [|split; [|exact Hiters]].
      * apply Forall_app. split; [apply (Forall_ptid_mono g); assumption|].
        constructor; [exact Hid'|constructor].
      * apply Forall_app. split; [exact Htrees|]. constructor; [|constructor].
        unfold ptinv, pelems, bst. cbn [pt]. rewrite Hel. repeat split; auto.
        eapply shape_eq_avl; [symmetry; exact Hsh|exact Ha].
    + f_equal. rewrite map_app. simpl. unfold pelems at 2. cbn [pt]. rewrite Hel. reflexivity.
    + reflexivity.
  - (* ItBegin *)
    destruct (Hnth t) as (Hid & Ha & Hb & Hr). set (ts := nth t (ptrees w) pt0) in *.
    cbn [fst snd ptrees piters gnx]. rewrite pleftmost_erase. split; [|split].
    + unfold pwinv; cbn [gnx ptrees piters]. split; [exact Hids|]. split; [exact Htrees|]. apply Forall_app. split; [exact Hiters|].
      constructor; [|constructor]. apply (mk_it_in_range t _ _ Hr).
      intros v Hv. rewrite leftmost_spec in Hv. apply hd_error_In. exact Hv.
    + f_equal. rewrite map_app. simpl map. rewrite mk_it_abs, leftmost_spec. reflexivity.
    + rewrite it_out_proj by discriminate. rewrite mk_it_abs, leftmost_spec. reflexivity.
  - (* ItFrom *)
    destruct (Hnth t) as (Hid & Ha & Hb & Hr). set (ts := nth t (ptrees w) pt0) in *.
    cbn [fst snd ptrees piters gnx]. rewrite pFindNodeLE_erase. split; [|split].
    + unfold pwinv; cbn [gnx ptrees piters]. split; [exact Hids|]. split; [exact Htrees|]. apply Forall_app. split; [exact Hiters|].
      constructor; [|constructor]. apply (mk_it_in_range t _ _ Hr).
      intros v Hv. rewrite (find_le_first_ge i _ Hb) in Hv. apply first_ge_In in Hv. tauto.
    + f_equal. rewrite map_app. simpl map. rewrite mk_it_abs, (find_le_first_ge i _ Hb). reflexivity.
    + rewrite it_out_proj by discriminate. rewrite mk_it_abs, (find_le_first_ge i _ Hb). reflexivity.
  - (* ItClone *)
    fold dflt_iter. fold dflt_aiter. rewrite nth_abs_iter.
    cbn [fst snd ptrees piters gnx]. split; [|split].
    + unfold pwinv; cbn [gnx ptrees piters]. split; [exact Hids|]. split; [exact Htrees|]. apply Forall_app. split; [exact Hiters|].
      constructor; [|constructor].
      apply (Forall_nth_d (fun it => in_range (ival it))); [exact Hiters|apply in_range_0].
    + f_equal. rewrite map_app. reflexivity.
    + rewrite it_out_proj by discriminate. reflexivity.
  - (* Next *)
    fold dflt_iter. fold dflt_aiter. rewrite nth_abs_iter.
    set (it := nth k (piters w) dflt_iter).
    change (atree (abs_iter it)) with (itree it). rewrite ?nth_pelems.
    destruct (Hnth (itree it)) as (Hid & Ha & Hb & Hr).
    set (ts := nth (itree it) (ptrees w) pt0) in *.
    assert (Hi : in_range (ival it)).
    { apply (Forall_nth_d (fun it => in_range (ival it))); [exact Hiters|apply in_range_0]. }
    rewrite (pnext_iter_next g ts it Hid).
    cbn [fst snd ptrees piters gnx]. split; [|split].
    + unfold pwinv; cbn [gnx ptrees piters]. split; [exact Hids|]. split; [exact Htrees|]. apply Forall_upd; [exact Hiters|].
      apply (iter_next_in_range (ets g ts) it); auto.
    + f_equal. rewrite upd_map. rewrite (iter_next_refines (ets g ts) it Hb Hr Hi). reflexivity.
    + rewrite it_out_proj by discriminate. rewrite (iter_next_refines (ets g ts) it Hb Hr Hi). reflexivity.
  - (* Elems *)
    cbn [fst snd proj]. split; [exact Hw|]. split; reflexivity.
Qed.

(* ---- whole histories -------------------------------------------------------------- *)
Lemma pwstep_fst w o : fst (pwstep w o) = fst (pwstep_core w o).
Proof. unfold pwstep. destruct (pwstep_core w o). reflexivity. Qed.
Lemma pwstep_snd w o : fst (snd (pwstep w o)) = snd (pwstep_core w o).
Proof. unfold pwstep. destruct (pwstep_core w o). reflexivity. Qed.

Lemma prun_refines_from : forall ops w,
  pwinv w -> keys_in_range ops ->
  observe ops (map fst (prun w ops)) = arun (pabs w) ops.
Proof.
  unfold observe.
  induction ops as [|o ops IH]; intros w Hw Hk; [reflexivity|].
  inversion Hk as [|? ? Ho Hk']; subst.
  destruct (pstep_refines w o Hw Ho) as (Hw' & Habs & Hout).
  simpl. pose proof (pwstep_fst w o) as F1. pose proof (pwstep_snd w o) as F2.
  destruct (pwstep w o) as [w' [x ph]]. destruct (astep (pabs w) o) as [aw' ax].
  simpl in *. subst w'. rewrite F2. rewrite Hout, <- Habs. f_equal. apply IH; assumption.
Qed.

Lemma prun_refines_lemma : forall ops,
  keys_in_range ops -> observe ops (map fst (prun pinit ops)) = arun ainit ops.
Proof. intros ops Hk. apply (prun_refines_from ops pinit pwinv_init Hk). Qed.

(* the pointer-level world and the value-level world of Model.v make the same
   observations on every history *)
Lemma prun_observes_like_run : forall ops,
  keys_in_range ops -> observe ops (map fst (prun pinit ops)) = observe ops (run init ops).
Proof. intros ops Hk. rewrite prun_refines_lemma, run_refines_lemma by exact Hk. reflexivity. Qed.

(* reachable pointer-level worlds *)
Inductive preach : pworld -> Prop :=
  | preach_init : preach pinit
  | preach_step w o : preach w -> op_in_range o -> preach (fst (pwstep w o)).
Lemma preach_pwinv : forall w, preach w -> pwinv w.
Proof.
  induction 1 as [|w o _ IH Ho]; [apply pwinv_init|].
  rewrite pwstep_fst. apply (pstep_refines w o IH Ho).
Qed.

(* Next, stated directly on pointer worlds *)
Lemma pnext_live_lemma : forall w k, preach w ->
  let it := nth k (piters w) dflt_iter in
  let s := pelems (nth (itree it) (ptrees w) pt0) in
  let it' := nth k (piters (fst (pwstep w (Next k)))) dflt_iter in
  (k < length (piters w))%nat -> inode it <> None ->
  match first_gt (ival it) s with
  | Some x => inode it' <> None /\ ival it' = x
  | None => inode it' = None
  end.
Proof.
  intros w k Hr it s it' Hk Hn. pose proof (preach_pwinv w Hr) as (Hids & Htrees & Hiters).
  subst it'. rewrite pwstep_fst. unfold pwstep_core. fold dflt_iter. fold it.
  cbn [fst piters]. rewrite nth_upd_same by exact Hk.
  set (ts := nth (itree it) (ptrees w) pt0) in *.
  assert (Hid : ptid (gnx w) ts) by (apply Forall_nth_d; auto using ptid_pt0).
  assert (Hti : ptinv ts) by (apply Forall_nth_d; auto using ptinv_pt0).
  destruct Hti as (Ha & Hb & Hrg).
  assert (Hi : in_range (ival it)).
  { apply (Forall_nth_d (fun it => in_range (ival it))); [exact Hiters|apply in_range_0]. }
  rewrite (pnext_iter_next _ ts it Hid).
  pose proof (iter_next_cases (ets (gnx w) ts) it Hb Hrg Hi) as H.
  destruct (inode it) as [n|]; [|congruence]. destruct H as [_ H]. cbn [ets tr] in H.
  subst s. unfold pelems.
  destruct (first_gt (ival it) (elements (erase (pt ts)))); [exact H|apply H].
Qed.
