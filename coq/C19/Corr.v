(* C19 correspondence: run the model on an op list and compare with what the Go
   implementation printed. *)
From Coq Require Import ZArith List Bool.
From ADV Require Import Base.Corr C19.Model.
Import ListNotations.
Open Scope Z_scope.

Definition out_eqb (a b : out) : bool :=
  let '(f1, v1, h1, l1) := a in
  let '(f2, v2, h2, l2) := b in
  Bool.eqb f1 f2 && (v1 =? v2) && (h1 =? h2) && list_eqb Z.eqb l1 l2.

Definition case := (list op * list out)%type.
Definition check (c : case) : bool := list_eqb out_eqb (run init (fst c)) (snd c).
Definition mism (cs : list case) : list nat := mismatches check cs.
(* first op index at which the case diverges *)
Definition diverge (c : case) : option nat := first_diff out_eqb 0 (run init (fst c)) (snd c).
