(* C19 correspondence: run the models on an op list and compare with what the Go
   implementation printed: the value-level world model (Model.run) on flags /
   values / tree checksums / key lists, and the pointer-level world model
   (ModelW.prun) additionally on the checksum of the whole heap after every step
   (node identities, Left/Right/Parent pointers, Deleted flags, unlinked objects,
   the node pointer every iterator holds). *)
From Coq Require Import ZArith List Bool.
From ADV Require Import Base.Corr C19.Model C19.ModelW.
Import ListNotations.
Open Scope Z_scope.

Definition out_eqb (a b : out) : bool :=
  let '(f1, v1, h1, l1) := a in
  let '(f2, v2, h2, l2) := b in
  Bool.eqb f1 f2 && (v1 =? v2) && (h1 =? h2) && list_eqb Z.eqb l1 l2.

Definition case := (list op * list out)%type.
Definition check (c : case) : bool := list_eqb out_eqb (run init (fst c)) (snd c).
Definition mism (cs : list case) : list nat := mismatches check cs.
(* first op index at which the case diverges *)
Definition diverge (c : case) : option nat := first_diff out_eqb 0 (run init (fst c)) (snd c).

(* ---- pointer level: (ops, outputs, heap checksum after each step) ------------ *)
Definition pcase := (list op * list out * list Z)%type.
Definition pout_eqb (a b : pout) : bool := out_eqb (fst a) (fst b) && (snd a =? snd b).
Definition pcheck (c : pcase) : bool :=
  let '(ops, outs, phs) := c in
  Nat.eqb (length outs) (length phs) &&
  list_eqb out_eqb (run init ops) outs &&
  list_eqb pout_eqb (prun pinit ops) (combine outs phs).
Definition pmism (cs : list pcase) : list nat := mismatches pcheck cs.
Definition pdiverge (c : pcase) : option nat :=
  let '(ops, outs, phs) := c in first_diff pout_eqb 0 (prun pinit ops) (combine outs phs).
