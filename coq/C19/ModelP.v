(* C19 — pointer-level refinement of Model.v: the same algorithms on trees whose
   nodes also carry the STORED parent pointer (Go: AvlNode.Parent), updated
   exactly where avl-tree.go updates it (setLeft / setRight, NewAvlNode,
   "obj.Left.Parent = nil", replace).  No proofs in this file.  Props.v shows
   that erasing the parent field gives Model.v and that the stored parents always
   equal the structural ones. *)
From Coq Require Import ZArith List Bool.
From ADV Require Import C19.Model.
Import ListNotations.
Open Scope Z_scope.

Inductive ptree := PE | PN (id : nat) (l : ptree) (v : Z) (b : Z) (p : option nat) (r : ptree).

Fixpoint erase (t : ptree) : tree := match t with
  | PE => E | PN id l v b _ r => N id (erase l) v b (erase r) end.

(* node.Parent = p  (no-op on nil, as in setLeft/setRight) *)
Definition setp (t : ptree) (p : option nat) : ptree :=
  match t with PE => PE | PN i l v b _ r => PN i l v b p r end.
Definition pbal_of (t : ptree) : Z := match t with PE => 0 | PN _ _ _ b _ _ => b end.
Definition pset_bal (t : ptree) (b : Z) : ptree :=
  match t with PE => PE | PN i l v _ p r => PN i l v b p r end.

(* rotateLL: obj.setLeft(a1.Left); obj.setRight(a1); a1.setLeft(a1.Right); a1.setRight(a2) *)
Definition protLL (t : ptree) : ptree := match t with
  | PN io (PN i1 a1l v1 _ _ a1r) vo _ po a2 =>
      PN io (setp a1l (Some io)) v1 0 po
         (PN i1 (setp a1r (Some i1)) vo 0 (Some io) (setp a2 (Some i1)))
  | _ => t end.
(* rotateRR: obj.setRight(a1.Right); obj.setLeft(a1); a1.setRight(a1.Left); a1.setLeft(a2) *)
Definition protRR (t : ptree) : ptree := match t with
  | PN io a2 vo _ po (PN i1 a1l v1 _ _ a1r) =>
      PN io (PN i1 (setp a2 (Some i1)) vo 0 (Some io) (setp a1l (Some i1))) v1 0 po
         (setp a1r (Some io))
  | _ => t end.
(* rotateLR: a1.setRight(a2.Left); a2.setLeft(a2.Right); a2.setRight(obj.Right); obj.setRight(a2) *)
Definition protLR (t : ptree) : ptree := match t with
  | PN io (PN i1 a1l v1 _ p1 (PN i2 a2l v2 b2 _ a2r)) vo _ po objr =>
      PN io (PN i1 a1l v1 (if b2 =? 1 then -1 else 0) p1 (setp a2l (Some i1))) v2 0 po
         (PN i2 (setp a2r (Some i2)) vo (if b2 =? -1 then 1 else 0) (Some io) (setp objr (Some i2)))
  | _ => t end.
(* rotateRL: a1.setLeft(a2.Right); a2.setRight(a2.Left); a2.setLeft(obj.Left); obj.setLeft(a2) *)
Definition protRL (t : ptree) : ptree := match t with
  | PN io objl vo _ po (PN i1 (PN i2 a2l v2 b2 _ a2r) v1 _ p1 a1r) =>
      PN io (PN i2 (setp objl (Some i2)) vo (if b2 =? 1 then -1 else 0) (Some io) (setp a2l (Some i2))) v2 0 po
         (PN i1 (setp a2r (Some i1)) v1 (if b2 =? -1 then 1 else 0) p1 a1r)
  | _ => t end.

(* insert(i, parent): the new node is linked with parent.setLeft/setRight (root: Parent nil) *)
Fixpoint pins (i : Z) (nx : nat) (par : option nat) (t : ptree) : ptree * bool * bool * nat :=
  match t with
  | PE => (PN nx PE i 0 par PE, true, false, S nx)
  | PN id l v b p r =>
    if i <? v then
      let '(l', ok, bd, nx') := pins i nx (Some id) l in
      if negb ok then (t, false, bd, nx') else
      if bd then (PN id l' v b p r, true, true, nx') else
      if b =? 1 then (PN id l' v 0 p r, true, true, nx')
      else if b =? 0 then (PN id l' v (-1) p r, true, false, nx')
      else (if pbal_of l' =? -1 then protLL (PN id l' v b p r) else protLR (PN id l' v b p r),
            true, true, nx')
    else if v <? i then
      let '(r', ok, bd, nx') := pins i nx (Some id) r in
      if negb ok then (t, false, bd, nx') else
      if bd then (PN id l v b p r', true, true, nx') else
      if b =? -1 then (PN id l v 0 p r', true, true, nx')
      else if b =? 0 then (PN id l v 1 p r', true, false, nx')
      else (if pbal_of r' =? 1 then protRR (PN id l v b p r') else protRL (PN id l v b p r'),
            true, true, nx')
    else (t, false, true, nx)
  end.

Definition pbalance1 (t : ptree) : ptree * bool := match t with
  | PN id l v b p r =>
    if b =? -1 then (PN id l v 0 p r, false)
    else if b =? 0 then (PN id l v 1 p r, true)
    else let br := pbal_of r in
      if 0 <=? br then
        let t' := protRR t in
        if br =? 0
        then (match t' with PN i' l' v' _ p' r' => PN i' (pset_bal l' 1) v' (-1) p' r' | PE => PE end, true)
        else (t', false)
      else (protRL t, false)
  | PE => (PE, false) end.
Definition pbalance2 (t : ptree) : ptree * bool := match t with
  | PN id l v b p r =>
    if b =? 1 then (PN id l v 0 p r, false)
    else if b =? 0 then (PN id l v (-1) p r, true)
    else let bl := pbal_of l in
      if bl <=? 0 then
        let t' := protLL t in
        if bl =? 0
        then (match t' with PN i' l' v' _ p' r' => PN i' l' v' 1 p' (pset_bal r' (-1)) | PE => PE end, true)
        else (t', false)
      else (protLR t, false)
  | PE => (PE, false) end.

(* deleteRec(parent): the right-most node is unlinked with parent.setRight/setLeft(obj.Left) *)
Fixpoint pdelmax (par : nat) (t : ptree) : ptree * nat * Z * bool := match t with
  | PE => (PE, O, 0, true)
  | PN id l v b p PE => (setp l (Some par), id, v, false)
  | PN id l v b p r =>
    let '(r', mi, mv, bd) := pdelmax id r in
    let t1 := PN id l v b p r' in
    if bd then (t1, mi, mv, true)
    else let '(t2, bd2) := pbalance2 t1 in (t2, mi, mv, bd2)
  end.

(* delete: "if ok { obj.setLeft(r) }", "obj.Left.Parent = nil; return obj.Left",
   replace: node.Parent = obj.Parent; node.Balance = obj.Balance;
            node.setRight(obj.Right); node.setLeft(obj.Left) *)
Fixpoint pdel (i : Z) (t : ptree) : ptree * bool * bool * option nat := match t with
  | PE => (PE, false, true, None)
  | PN id l v b p r =>
    if i <? v then
      let '(l', ok, bd, d) := pdel i l in
      let t1 := if ok then PN id (setp l' (Some id)) v b p r else t in
      if bd then (t1, ok, true, d)
      else let '(t2, bd2) := pbalance1 t1 in (t2, ok, bd2, d)
    else if v <? i then
      let '(r', ok, bd, d) := pdel i r in
      let t1 := if ok then PN id l v b p (setp r' (Some id)) else t in
      if bd then (t1, ok, true, d)
      else let '(t2, bd2) := pbalance2 t1 in (t2, ok, bd2, d)
    else match l, r with
      | PE, PE => (PE, true, false, Some id)
      | _, PE => (setp l None, true, false, Some id)
      | PE, _ => (setp r None, true, false, Some id)
      | _, _ => let '(l', mi, mv, bd) := pdelmax id l in
                let t1 := PN mi (setp l' (Some mi)) mv b p (setp r (Some mi)) in
                if bd then (t1, true, true, Some id)
                else let '(t2, bd2) := pbalance1 t1 in (t2, true, bd2, Some id)
      end
  end.

(* ---- AvlIterator.Next, branches 2 and 3, through the stored pointers ------- *)
(* the node object with id k (a pointer dereference) *)
Fixpoint pnode (k : nat) (t : ptree) : option ptree := match t with
  | PE => None
  | PN id l _ _ _ r =>
    if Nat.eqb id k then Some t
    else match pnode k l with Some x => Some x | None => pnode k r end
  end.
Definition pid (t : ptree) : option nat := match t with PE => None | PN id _ _ _ _ _ => Some id end.
Fixpoint pleftmost (t : ptree) : option (nat * Z) := match t with
  | PE => None | PN id PE v _ _ _ => Some (id, v) | PN _ l _ _ _ _ => pleftmost l end.
Fixpoint psize (t : ptree) : nat := match t with PE => O | PN _ l _ _ _ r => S (psize l + psize r) end.

(* for node.Parent != nil && node.Parent.Right != nil && node.Parent.Right == node { node = node.Parent }
   if node.Parent == nil { node = nil } else { node = node.Parent }
   outer None = fuel exhausted or dangling pointer *)
Fixpoint pclimb (fuel : nat) (root : ptree) (k : nat) : option (option (nat * Z)) :=
  match fuel with
  | O => None
  | S f =>
    match pnode k root with
    | Some (PN _ _ _ _ par _) =>
      match par with
      | None => Some None
      | Some pk =>
        match pnode pk root with
        | Some (PN _ _ pv _ _ pr) =>
          if (match pid pr with Some rk => Nat.eqb rk k | None => false end)
          then pclimb f root pk
          else Some (Some (pk, pv))
        | _ => None
        end
      end
    | _ => None
    end
  end.

(* if node.Right != nil { leftmost of node.Right } else { climb } *)
Definition psucc (root : ptree) (k : nat) : option (option (nat * Z)) :=
  match pnode k root with
  | Some (PN _ _ _ _ _ r) =>
    match r with PE => pclimb (S (psize root)) root k | _ => Some (pleftmost r) end
  | _ => None
  end.

(* AvlTree.Insert / AvlTree.Delete on the root (root.Parent = nil) *)
Inductive mop := MIns (i : Z) | MDel (i : Z).
Definition pstep (s : ptree * nat) (o : mop) : ptree * nat := match o with
  | MIns i => let '(t', _, _, n) := pins i (snd s) None (fst s) in (t', n)
  | MDel i => let '(t', ok, _, _) := pdel i (fst s) in ((if ok then t' else fst s), snd s)
  end.
Definition mstep (s : tree * nat) (o : mop) : tree * nat := match o with
  | MIns i => let '(t', _, _, n) := ins i (snd s) (fst s) in (t', n)
  | MDel i => let '(t', ok, _, _) := del i (fst s) in ((if ok then t' else fst s), snd s)
  end.

(* stored parent = structural parent, everywhere below a node whose parent is [par] *)
Fixpoint pwf (par : option nat) (t : ptree) : Prop := match t with
  | PE => True
  | PN id l _ _ p r => p = par /\ pwf (Some id) l /\ pwf (Some id) r end.
