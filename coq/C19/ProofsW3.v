(* C19 — pointer-level worlds, part 3: the heap of a world.  Regions of different
   trees are disjoint, every pointer stored in a region points into that region
   (no pointer from a clone into its source), iterators never dangle, and a step
   on one tree leaves every other region of the flat heap untouched (frame). *)
From Coq Require Import ZArith List Bool Lia Arith.
From ADV Require Import C19.Model C19.ModelP C19.ModelW C19.Spec C19.ProofsList C19.ProofsLookup
  C19.ProofsIns C19.ProofsDel C19.ProofsRun C19.ProofsIter C19.ProofsIds C19.ProofsPar C19.ProofsNext
  C19.ProofsW1 C19.ProofsW2.
Import ListNotations.
Open Scope Z_scope.

(* ---- addresses of a region ------------------------------------------------------- *)
Lemma In_pids_cnt k t : In k (pids t) <-> (1 <= cnt k (erase t))%nat.
Proof. rewrite pids_erase. apply cnt_In. Qed.
Lemma addrs_pcells t : map fst (pcells t) = pids t.
Proof.
  induction t as [|id l IHl v b p r IHr]; simpl; [reflexivity|].
  rewrite map_app, IHl, IHr. reflexivity.
Qed.
Lemma owns_region ts a : In a (addrs (region ts)) <-> owns ts a.
Proof.
  unfold addrs, region, owns, pcnt. rewrite map_app, in_app_iff, addrs_pcells, In_pids_cnt. tauto.
Qed.

(* ---- pointers stored in reachable cells stay inside the tree ---------------------- *)
Lemma pid_in_pids t a : pid t = Some a -> In a (pids t).
Proof. destruct t; simpl; [discriminate|]. intro H. injection H as ->. left. reflexivity. Qed.

Lemma closed_live : forall t par a c q,
  pwf par t -> In (a, c) (pcells t) -> In q (cell_ptrs c) -> In q (pids t) \/ par = Some q.
Proof.
  induction t as [|id l IHl v b p r IHr]; intros par a c q Hw Hin Hq; [destruct Hin|].
  destruct Hw as (Hp & Hl & Hr). simpl in Hin. destruct Hin as [Hin|Hin].
  - injection Hin as <- <-. unfold cell_ptrs, live_cell in Hq. cbn [cl cr cp] in Hq.
    apply in_app_iff in Hq. destruct Hq as [Hq|Hq].
    + destruct (pid l) as [x|] eqn:E; [|destruct Hq]. destruct Hq as [<-|[]].
      left. simpl. right. apply in_app_iff. left. apply pid_in_pids. exact E.
    + apply in_app_iff in Hq. destruct Hq as [Hq|Hq].
      * destruct (pid r) as [x|] eqn:E; [|destruct Hq]. destruct Hq as [<-|[]].
        left. simpl. right. apply in_app_iff. right. apply pid_in_pids. exact E.
      * destruct p as [x|]; [|destruct Hq]. destruct Hq as [<-|[]]. right. symmetry. exact Hp.
  - apply in_app_iff in Hin. destruct Hin as [Hin|Hin].
    + destruct (IHl _ _ _ _ Hl Hin Hq) as [H|H].
      * left. simpl. right. apply in_app_iff. left. exact H.
      * injection H as <-. left. simpl. left. reflexivity.
    + destruct (IHr _ _ _ _ Hr Hin Hq) as [H|H].
      * left. simpl. right. apply in_app_iff. right. exact H.
      * injection H as <-. left. simpl. left. reflexivity.
Qed.

Lemma pnode_in_pcells k : forall t l v b p r,
  pnode k t = Some (PN k l v b p r) -> In (k, live_cell l v b p r) (pcells t).
Proof.
  induction t as [|id tl IHl tv tb tp tr IHr]; intros l v b p r; simpl; [discriminate|].
  destruct (Nat.eqb_spec id k) as [->|Hne].
  - intro H. injection H as <- <- <- <- <-. left. reflexivity.
  - destruct (pnode k tl) as [x|] eqn:El.
    + intro H. injection H as ->. right. apply in_app_iff. left. apply IHl. reflexivity.
    + intro H. right. apply in_app_iff. right. apply IHr. exact H.
Qed.

Lemma stale_cell_ptrs t k c q :
  stale_cell t k = Some c -> In q (cell_ptrs c) ->
  exists c', In (k, c') (pcells t) /\ In q (cell_ptrs c').
Proof.
  unfold stale_cell. destruct (pnode k t) as [s|] eqn:Ep; [|discriminate].
  destruct (pnode_some k t s Ep) as (l & v & b & p & r & -> & _).
  pose proof (pnode_in_pcells k t l v b p r Ep) as Hin.
  intros H Hq. injection H as <-.
  destruct l as [|li ll lv lb lp lr]; destruct r as [|ri rl rv rb rp rr];
    try (exists (live_cell (PN li ll lv lb lp lr) v b p (PN ri rl rv rb rp rr)); destruct Hq);
    eexists; (split; [exact Hin|exact Hq]).
Qed.

(* ---- the heap invariant ------------------------------------------------------------ *)
Definition disjoint_regions (trs : list ptstate) : Prop :=
  forall i j k, i <> j -> owns (nth i trs pt0) k -> owns (nth j trs pt0) k -> False.
Definition piid (trs : list ptstate) (it : iter) : Prop :=
  forall k, inode it = Some k -> (itree it < length trs)%nat /\ owns (nth (itree it) trs pt0) k.
Definition closed (ts : ptstate) : Prop :=
  forall a c q, In (a, c) (region ts) -> In q (cell_ptrs c) -> owns ts q.
Definition hinv (w : pworld) : Prop :=
  Forall (ptid (gnx w)) (ptrees w) /\ disjoint_regions (ptrees w) /\
  Forall (piid (ptrees w)) (piters w) /\ Forall closed (ptrees w).

Lemma closed_pt0 : closed pt0.
Proof. intros a c q []. Qed.
Lemma piid_dflt trs : piid trs dflt_iter.
Proof. intros k H. discriminate H. Qed.

Lemma closed_of_live g ts :
  ptid g ts -> (forall k c q, In (k, c) (pdead ts) -> In q (cell_ptrs c) -> owns ts q) -> closed ts.
Proof.
  intros (A & _) Hd a c q Hin Hq. unfold region in Hin. apply in_app_iff in Hin.
  destruct Hin as [Hin|Hin]; [|eapply Hd; eassumption].
  destruct (closed_live _ _ _ _ _ A Hin Hq) as [H|H]; [|discriminate].
  left. apply In_pids_cnt. exact H.
Qed.

Lemma piid_upd trs t ts' it :
  (forall k, owns (nth t trs pt0) k -> owns ts' k) -> piid trs it -> piid (upd t ts' trs) it.
Proof.
  intros H Hi k Hk. destruct (Hi k Hk) as [Hl Hd].
  split; [rewrite upd_length; exact Hl|].
  destruct (Nat.eq_dec t (itree it)) as [Heq|Hne].
  - rewrite <- Heq in *. rewrite nth_upd_same by exact Hl. apply H. exact Hd.
  - rewrite nth_upd_other by exact Hne. exact Hd.
Qed.
Lemma piid_snoc trs x it : piid trs it -> piid (trs ++ [x]) it.
Proof.
  intros Hi k Hk. destruct (Hi k Hk) as [Hl Hd].
  split; [rewrite app_length; simpl; lia|]. rewrite app_nth1 by exact Hl. exact Hd.
Qed.
Lemma piid_start trs t (p : option (nat * Z)) :
  (forall k v, p = Some (k, v) -> (1 <= pcnt k (nth t trs pt0))%nat) -> piid trs (mk_it t p).
Proof.
  intros H. destruct p as [[k v]|]; [|intros k Hk; discriminate Hk].
  intros k' Hk. simpl in Hk. injection Hk as <-. simpl.
  specialize (H k v eq_refl). split; [|left; exact H].
  destruct (Nat.lt_ge_cases t (length trs)) as [Hlt|Hge]; [exact Hlt|].
  rewrite nth_overflow in H by exact Hge. unfold pcnt in H. simpl in H. lia.
Qed.

Lemma pnext_piid g trs it :
  ptid g (nth (itree it) trs pt0) -> piid trs it -> piid trs (pnext (nth (itree it) trs pt0) it).
Proof.
  intros Hid Hi. rewrite (pnext_iter_next g _ _ Hid). unfold iter_next.
  destruct (inode it) as [n|] eqn:En; [|exact Hi].
  destruct (Hi n En) as [Hl _]. set (ts := nth (itree it) trs pt0) in *. cbn [ets tr dead].
  assert (Hres : forall nxt : option (nat * Z),
            (forall k v, nxt = Some (k, v) -> (1 <= pcnt k ts)%nat) ->
            piid trs (match nxt with
                      | Some (k', v') => {| itree := itree it; inode := Some k'; ival := v' |}
                      | None => {| itree := itree it; inode := None; ival := ival it |} end)).
  { intros nxt H. destruct nxt as [[k' v']|]; [|intros k Hk; discriminate Hk].
    intros k Hk. simpl in Hk. injection Hk as <-. simpl. split; [exact Hl|].
    left. apply (H k' v' eq_refl). }
  apply Hres. intros k v. unfold pcnt.
  destruct (existsb (Nat.eqb n) (map fst (pdead ts)) ||
            match value_at n (erase (pt ts)) with Some w => negb (w =? ival it) | None => true end).
  - destruct (wrap64 (ival it + 1) <? ival it); [discriminate|].
    intro H. destruct (find_le_ids _ _ _ _ _ H) as [H1|H1]; [discriminate|exact H1].
  - destruct (succ_of n (erase (pt ts)) None) as [res|] eqn:Es; [|discriminate].
    intro H. subst res. destruct (succ_of_ids _ _ _ _ _ Es) as [H1|H1]; [discriminate|exact H1].
Qed.

Lemma hinv_init : hinv pinit.
Proof.
  split; [|split; [|split]]; simpl.
  - constructor; [apply (ptid_pt0 0)|constructor].
  - intros i j k _ H _. destruct i as [|[|i]]; simpl in H; exact (owns_pt0 k H).
  - constructor.
  - constructor; [apply closed_pt0|constructor].
Qed.

Lemma disjoint_upd trs t ts' :
  disjoint_regions trs ->
  (forall k, owns ts' k -> owns (nth t trs pt0) k \/
             (forall j, j <> t -> ~ owns (nth j trs pt0) k)) ->
  disjoint_regions (upd t ts' trs).
Proof.
  intros Hd Hn i j k Hij Hi Hj.
  destruct (Nat.lt_ge_cases t (length trs)) as [Hlt|Hge].
  - destruct (Nat.eq_dec i t) as [->|Hit]; destruct (Nat.eq_dec j t) as [->|Hjt]; [congruence| | |].
    + rewrite nth_upd_same in Hi by exact Hlt. rewrite nth_upd_other in Hj by congruence.
      destruct (Hn k Hi) as [H|H]; [exact (Hd t j k Hij H Hj)|exact (H j Hjt Hj)].
    + rewrite nth_upd_same in Hj by exact Hlt. rewrite nth_upd_other in Hi by congruence.
      destruct (Hn k Hj) as [H|H]; [exact (Hd i t k Hij Hi H)|exact (H i Hit Hi)].
    + rewrite nth_upd_other in Hi, Hj by congruence. exact (Hd i j k Hij Hi Hj).
  - assert (Hsame : forall m, nth m (upd t ts' trs) pt0 = nth m trs pt0).
    { intro m. destruct (Nat.eq_dec m t) as [->|Hm]; [|apply nth_upd_other; congruence].
      rewrite !nth_overflow; [reflexivity|exact Hge|rewrite upd_length; exact Hge]. }
    rewrite Hsame in Hi, Hj. exact (Hd i j k Hij Hi Hj).
Qed.

(* ---- every step keeps the heap invariant --------------------------------------------- *)
Lemma step_hinv w o : hinv w -> hinv (fst (pwstep_core w o)).
Proof.
  intros (Hids & Hdis & Hits & Hcl). set (g := gnx w) in *.
  assert (Hnth : forall t, ptid g (nth t (ptrees w) pt0) /\ closed (nth t (ptrees w) pt0)).
  { intro t. split; apply Forall_nth_d; auto using ptid_pt0, closed_pt0. }
  destruct o as [t i|t i|t i|t i|t|t|t i|k|k|t]; unfold pwstep_core;
    try (split; [|split; [|split]]; assumption).
  - (* Ins *)
    destruct (Hnth t) as (Hid & Hc). set (ts := nth t (ptrees w) pt0) in *. fold g.
    destruct (pins i g None (pt ts)) as [[[t' ok] bd] n] eqn:Ep.
    destruct (pins_ptid g i ts t' ok bd n Hid Ep) as (Hn & Hcnt & Hid').
    set (ts' := {| pt := t'; pdead := pdead ts |}) in *.
    assert (Hmono : forall k, owns ts k -> owns ts' k).
    { intros k [H|H]; [left|right; exact H]. unfold pcnt, ts' in *. cbn [pt]. rewrite Hcnt.
      unfold pcnt. lia. }
    assert (Hnew : forall k, owns ts' k -> owns ts k \/ k = g).
    { intros k [H|H]; [|left; right; exact H]. unfold pcnt, ts' in H. cbn [pt] in H. rewrite Hcnt in H.
      destruct ok; simpl in H; [|left; left; lia].
      destruct (Nat.eqb_spec g k); [right; congruence|left; left; simpl in H; lia]. }
    cbn [fst]. unfold hinv. cbn [gnx ptrees piters]. split; [|split; [|split]].
    + apply Forall_upd; [|exact Hid']. apply (Forall_ptid_mono g); [rewrite Hn; destruct ok; lia|exact Hids].
    + apply disjoint_upd; [exact Hdis|]. intros k Hk. destruct (Hnew k Hk) as [H| ->]; [left; exact H|].
      right. intros j _ Hj. destruct (Hnth j) as (Hidj & _).
      pose proof (owns_lt g _ g Hidj Hj). lia.
    + eapply Forall_impl; [|exact Hits]. intros it. apply piid_upd. exact Hmono.
    + apply Forall_upd; [exact Hcl|]. apply (closed_of_live n); [exact Hid'|].
      intros k c q Hin Hq. apply Hmono. apply (Hc k c q); [|exact Hq].
      unfold region. apply in_app_iff. right. exact Hin.
  - (* Del *)
    destruct (Hnth t) as (Hid & Hc). set (ts := nth t (ptrees w) pt0) in *.
    destruct (pdel i (pt ts)) as [[[t' ok] bd] d] eqn:Ep.
    cbn [fst]. unfold hinv. cbn [gnx ptrees piters]. fold g.
    change (match d with
            | Some k => if ok then match stale_cell (pt ts) k with
                                   | Some c => (k, c) :: pdead ts | None => pdead ts end
                        else pdead ts
            | None => pdead ts end) with (del_dead ts ok d).
    destruct ok.
    + destruct (pdel_ptid g i ts t' bd d Hid Ep) as (kd & c & -> & Hs & Hdel & Hcnt & Hid').
      unfold del_dead. rewrite Hs. set (ts' := {| pt := t'; pdead := (kd, c) :: pdead ts |}) in *.
      assert (Hsame : forall k, owns ts' k <-> owns ts k).
      { intro k. unfold owns, ts'. cbn [pdead map fst]. unfold pcnt at 1. cbn [pt].
        pose proof (Hcnt k) as Hk. destruct (Nat.eqb_spec kd k) as [->|Hne]; simpl in Hk.
        - split; [intros _; left; lia|intros _; right; left; reflexivity].
        - split; [intros [H|[H|H]]; [left; lia|congruence|right; exact H]
                 |intros [H|H]; [left; lia|right; right; exact H]]. }
      split; [|split; [|split]].
      * apply Forall_upd; [exact Hids|exact Hid'].
      * apply disjoint_upd; [exact Hdis|]. intros k Hk. left. apply Hsame. exact Hk.
      * eapply Forall_impl; [|exact Hits]. intros it. apply piid_upd. intros k. apply Hsame.
      * apply Forall_upd; [exact Hcl|]. apply (closed_of_live g); [exact Hid'|].
        intros k c' q [Hin|Hin] Hq.
        -- injection Hin as <- <-. apply Hsame.
           destruct (stale_cell_ptrs _ _ _ _ Hs Hq) as (c2 & Hin2 & Hq2).
           apply (Hc kd c2 q); [|exact Hq2]. unfold region. apply in_app_iff. left. exact Hin2.
        -- apply Hsame. apply (Hc k c' q); [|exact Hq]. unfold region. apply in_app_iff. right. exact Hin.
    + assert (Hsame : {| pt := pt ts; pdead := del_dead ts false d |} = ts).
      { unfold del_dead. destruct ts as [tt dd]. destruct d; reflexivity. }
      rewrite Hsame. split; [|split; [|split]].
      * apply Forall_upd; [exact Hids|exact Hid].
      * apply disjoint_upd; [exact Hdis|]. intros k Hk. left. exact Hk.
      * eapply Forall_impl; [|exact Hits]. intros it. apply piid_upd. auto.
      * apply Forall_upd; [exact Hcl|exact Hc].
  - (* Clone *)
    destruct (Hnth t) as (Hid & Hc). set (ts := nth t (ptrees w) pt0) in *. fold g.
    destruct (pclone g (pt ts)) as [c g'] eqn:Ec.
    destruct (pclone_ptid g ts c g' Hid Ec) as (Hg & Hid' & Hown).
    cbn [fst]. unfold hinv. cbn [gnx ptrees piters]. split; [|split; [|split]].
    + apply Forall_app. split; [apply (Forall_ptid_mono g); assumption|].
      constructor; [exact Hid'|constructor].
    + intros i j k Hij Hi Hj.
      assert (Hcase : forall m, owns (nth m (ptrees w ++ [{| pt := c; pdead := [] |}]) pt0) k ->
                (m < length (ptrees w) /\ owns (nth m (ptrees w) pt0) k /\ k < g)%nat \/
                (m = length (ptrees w) /\ g <= k)%nat).
      { intros m Hm. destruct (Nat.lt_ge_cases m (length (ptrees w))) as [Hlt|Hge].
        - rewrite app_nth1 in Hm by exact Hlt. left. split; [exact Hlt|]. split; [exact Hm|].
          destruct (Hnth m) as (Hidm & _). exact (owns_lt g _ k Hidm Hm).
        - destruct (Nat.eq_dec m (length (ptrees w))) as [->|Hne].
          + rewrite app_nth2, Nat.sub_diag in Hm by lia. simpl in Hm. apply Hown in Hm. right. lia.
          + rewrite nth_overflow in Hm by (rewrite app_length; simpl; lia). destruct (owns_pt0 k Hm). }
      destruct (Hcase i Hi) as [(Li & Oi & Ki)|(Li & Ki)]; destruct (Hcase j Hj) as [(Lj & Oj & Kj)|(Lj & Kj)];
        try lia. exact (Hdis i j k Hij Oi Oj).
    + eapply Forall_impl; [|exact Hits]. intros it. apply piid_snoc.
    + apply Forall_app. split; [exact Hcl|]. constructor; [|constructor].
      apply (closed_of_live g'); [exact Hid'|]. intros k c' q [].
  - (* ItBegin *)
    cbn [fst]. unfold hinv. cbn [gnx ptrees piters]. split; [exact Hids|]. split; [exact Hdis|].
    split; [|exact Hcl]. apply Forall_app. split; [exact Hits|].
    constructor; [|constructor]. apply piid_start. intros k v. rewrite pleftmost_erase. apply leftmost_ids.
  - (* ItFrom *)
    cbn [fst]. unfold hinv. cbn [gnx ptrees piters]. split; [exact Hids|]. split; [exact Hdis|].
    split; [|exact Hcl]. apply Forall_app. split; [exact Hits|].
    constructor; [|constructor]. apply piid_start. intros k v. rewrite pFindNodeLE_erase. intro H.
    destruct (find_le_ids _ _ _ _ _ H) as [H1|H1]; [discriminate|exact H1].
  - (* ItClone *)
    cbn [fst]. unfold hinv. cbn [gnx ptrees piters]. split; [exact Hids|]. split; [exact Hdis|].
    split; [|exact Hcl]. apply Forall_app. split; [exact Hits|].
    constructor; [|constructor]. fold dflt_iter. apply Forall_nth_d; [exact Hits|apply piid_dflt].
  - (* Next *)
    cbn [fst]. unfold hinv. cbn [gnx ptrees piters]. split; [exact Hids|]. split; [exact Hdis|].
    split; [|exact Hcl]. apply Forall_upd; [exact Hits|]. fold dflt_iter.
    apply (pnext_piid g); [apply Hnth|]. apply Forall_nth_d; [exact Hits|apply piid_dflt].
Qed.

Lemma preach_hinv : forall w, preach w -> hinv w.
Proof.
  induction 1 as [|w o _ IH _]; [apply hinv_init|]. rewrite pwstep_fst. apply step_hinv. exact IH.
Qed.
