(* C19 — statement level: rotateLR (ModelH) is protLR (ModelP). *)
From Coq Require Import ZArith List Bool Lia.
From ADV Require Import C19.Model C19.ModelP C19.ModelW C19.ModelH C19.ProofsH1.
Import ListNotations.
Open Scope Z_scope.

Lemma rotateLR_exec : forall f fl h io i1 i2 a1l v1 b1 p1 a2l v2 b2 p2 a2r vo bo po objr,
  let t := PN io (PN i1 a1l v1 b1 p1 (PN i2 a2l v2 b2 p2 a2r)) vo bo po objr in
  NoDup (pids t) -> rep h t ->
  exists s', run_method (4 + f) MRotLR (Some io) None fl h = Some s' /\ rep (sh s') (protLR t) /\
     (forall a, ~ In a (pids t) -> sh s' a = h a) /\ sf s' = fl.
Proof.
  intros f fl h io i1 i2 a1l v1 b1 p1 a2l v2 b2 p2 a2r vo bo po objr t ND R. subst t.
  pose proof (NoDup_cntl _ ND) as C. clear ND.
  destruct a1l as [|ka al av ab ap ar]; destruct a2l as [|kb bl bv bb bp br];
  destruct a2r as [|kc cl0 cv0 cb0 cp0 cr0]; destruct objr as [|kd dl dv db dp dr];
  rep_split; unfold run_method; cbn [body plus]; rewrite exec_S; unfold rotateLR_body;
  ne_tops h C; rot_finish_b h C.
Qed.
