(* C19 — pointer-level worlds, part 4: lookups in the flat heap, the frame
   property for steps and histories, and what Clone allocates. *)
From Coq Require Import ZArith List Bool Lia Arith.
From ADV Require Import C19.Model C19.ModelP C19.ModelW C19.Spec C19.ProofsList C19.ProofsLookup
  C19.ProofsIns C19.ProofsDel C19.ProofsRun C19.ProofsIter C19.ProofsIds C19.ProofsPar C19.ProofsNext
  C19.ProofsW1 C19.ProofsW2 C19.ProofsW3.
Import ListNotations.
Open Scope Z_scope.

(* *a  in the flat heap of a world *)
Definition hget (w : pworld) (a : nat) : option cell := lookup a (heap w).

Lemma lookup_app a x y :
  lookup a (x ++ y) = match lookup a x with Some c => Some c | None => lookup a y end.
Proof.
  induction x as [|[k c] x IH]; simpl; [reflexivity|]. destruct (Nat.eqb k a); [reflexivity|exact IH].
Qed.
Lemma lookup_none a x : ~ In a (addrs x) -> lookup a x = None.
Proof.
  induction x as [|[k c] x IH]; simpl; [reflexivity|]. intro H.
  destruct (Nat.eqb_spec k a) as [->|Hne]; [exfalso; apply H; left; reflexivity|].
  apply IH. intro Hin. apply H. right. exact Hin.
Qed.
Lemma lookup_some a x : In a (addrs x) -> exists c, lookup a x = Some c.
Proof.
  induction x as [|[k c] x IH]; simpl; [intros []|].
  destruct (Nat.eqb_spec k a) as [->|Hne]; [eexists; reflexivity|].
  intros [H|H]; [congruence|apply IH; exact H].
Qed.

Lemma disjoint_tail x trs : disjoint_regions (x :: trs) -> disjoint_regions trs.
Proof. intros H i j k Hij Hi Hj. apply (H (S i) (S j) k); [lia|exact Hi|exact Hj]. Qed.

(* an owned address is looked up in its own region *)
Lemma heap_lookup : forall trs j a,
  disjoint_regions trs -> owns (nth j trs pt0) a ->
  lookup a (concat (map region trs)) = lookup a (region (nth j trs pt0)).
Proof.
  induction trs as [|x trs IH]; intros j a Hd Ho.
  - destruct j; destruct (owns_pt0 a Ho).
  - simpl concat. rewrite lookup_app. destruct j as [|j].
    + simpl nth in *. apply owns_region in Ho. destruct (lookup_some _ _ Ho) as (c & ->). reflexivity.
    + simpl nth in *. rewrite lookup_none.
      * apply IH; [eapply disjoint_tail; exact Hd|exact Ho].
      * intro Hin. apply owns_region in Hin. apply (Hd 0%nat (S j) a); [lia|exact Hin|exact Ho].
Qed.

Lemma heap_addr_owned trs a :
  In a (addrs (concat (map region trs))) -> exists j, (j < length trs)%nat /\ owns (nth j trs pt0) a.
Proof.
  induction trs as [|x trs IH]; simpl; [intros []|].
  unfold addrs in *. rewrite map_app, in_app_iff. intros [H|H].
  - exists 0%nat. split; [lia|]. apply owns_region. exact H.
  - destruct (IH H) as (j & Hj & Ho). exists (S j). split; [lia|exact Ho].
Qed.
Lemma heap_addrs_lt w a : hinv w -> In a (addrs (heap w)) -> (a < gnx w)%nat.
Proof.
  intros (Hids & _) Hin. destruct (heap_addr_owned _ _ Hin) as (j & _ & Ho).
  apply (owns_lt (gnx w) (nth j (ptrees w) pt0)); [|exact Ho].
  apply Forall_nth_d; [exact Hids|apply ptid_pt0].
Qed.

(* ---- frame ------------------------------------------------------------------------ *)
Definition targets (o : op) (j : nat) : Prop := match o with
  | Ins t _ | Del t _ => t = j | _ => False end.

Lemma step_length w o : (length (ptrees w) <= length (ptrees (fst (pwstep_core w o))))%nat.
Proof.
  destruct o as [t i|t i|t i|t i|t|t|t i|k|k|t]; unfold pwstep_core; try (simpl; lia).
  - destruct (pins i (gnx w) None (pt (nth t (ptrees w) pt0))) as [[[t' ok] bd] n].
    cbn [fst ptrees]. rewrite upd_length. lia.
  - destruct (pdel i (pt (nth t (ptrees w) pt0))) as [[[t' ok] bd] d].
    cbn [fst ptrees]. rewrite upd_length. lia.
  - destruct (pclone (gnx w) (pt (nth t (ptrees w) pt0))) as [c g].
    cbn [fst ptrees]. rewrite app_length. simpl. lia.
Qed.

Lemma step_other_tree w o j :
  ~ targets o j -> (j < length (ptrees w))%nat ->
  nth j (ptrees (fst (pwstep_core w o))) pt0 = nth j (ptrees w) pt0.
Proof.
  intros Ht Hj.
  destruct o as [t i|t i|t i|t i|t|t|t i|k|k|t]; unfold pwstep_core; simpl in Ht; try reflexivity.
  - destruct (pins i (gnx w) None (pt (nth t (ptrees w) pt0))) as [[[t' ok] bd] n].
    cbn [fst ptrees]. apply nth_upd_other. exact Ht.
  - destruct (pdel i (pt (nth t (ptrees w) pt0))) as [[[t' ok] bd] d].
    cbn [fst ptrees]. apply nth_upd_other. exact Ht.
  - destruct (pclone (gnx w) (pt (nth t (ptrees w) pt0))) as [c g].
    cbn [fst ptrees]. apply app_nth1. exact Hj.
Qed.

Lemma frame_step w o j a :
  hinv w -> ~ targets o j -> (j < length (ptrees w))%nat -> owns (nth j (ptrees w) pt0) a ->
  hget (fst (pwstep_core w o)) a = hget w a.
Proof.
  intros Hw Ht Hj Ho. pose proof (step_hinv w o Hw) as Hw'.
  destruct Hw as (_ & Hd & _). destruct Hw' as (_ & Hd' & _).
  assert (Ho' : owns (nth j (ptrees (fst (pwstep_core w o))) pt0) a).
  { rewrite (step_other_tree w o j Ht Hj). exact Ho. }
  unfold hget, heap. rewrite (heap_lookup _ j a Hd Ho), (heap_lookup _ j a Hd' Ho').
  rewrite (step_other_tree w o j Ht Hj). reflexivity.
Qed.

Definition wfold (w : pworld) (ops : list op) : pworld := fold_left (fun w o => fst (pwstep w o)) ops w.

Lemma frame_history : forall ops w j,
  hinv w -> (j < length (ptrees w))%nat -> Forall (fun o => ~ targets o j) ops ->
  hinv (wfold w ops) /\
  nth j (ptrees (wfold w ops)) pt0 = nth j (ptrees w) pt0 /\
  forall a, owns (nth j (ptrees w) pt0) a -> hget (wfold w ops) a = hget w a.
Proof.
  induction ops as [|o ops IH]; intros w j Hw Hj Hf; [simpl; auto|].
  inversion Hf as [|? ? Ho Hf']; subst. simpl. rewrite pwstep_fst.
  pose proof (step_hinv w o Hw) as Hw1. pose proof (step_length w o) as Hl.
  pose proof (step_other_tree w o j Ho Hj) as Hsame.
  destruct (IH (fst (pwstep_core w o)) j Hw1 ltac:(lia) Hf') as (A & B & C).
  split; [exact A|]. split; [rewrite B; exact Hsame|].
  intros a Ha. rewrite C by (rewrite Hsame; exact Ha). apply (frame_step w o j a); assumption.
Qed.

(* ---- Clone ------------------------------------------------------------------------- *)
Lemma clone_heap_lemma w t :
  hinv w ->
  let w' := fst (pwstep_core w (Clone t)) in
  let j := length (ptrees w) in
  let src := nth t (ptrees w) pt0 in
  let cl := nth j (ptrees w') pt0 in
  length (ptrees w') = S j /\
  pwf None (pt cl) /\ pdead cl = [] /\
  shape (erase (pt cl)) = shape (erase (pt src)) /\
  (forall a, owns cl a <-> (gnx w <= a < gnx w')%nat) /\
  (forall a, owns cl a -> ~ In a (addrs (heap w))) /\
  (forall a c q, In (a, c) (region cl) -> In q (cell_ptrs c) -> owns cl q) /\
  (forall i, (i < j)%nat -> nth i (ptrees w') pt0 = nth i (ptrees w) pt0) /\
  (forall a, In a (addrs (heap w)) -> hget w' a = hget w a).
Proof.
  intros Hw. pose proof (step_hinv w (Clone t) Hw) as Hw'. cbv zeta.
  pose proof Hw as (Hids & Hd & _ & _).
  assert (Hid : ptid (gnx w) (nth t (ptrees w) pt0)) by (apply Forall_nth_d; [exact Hids|apply ptid_pt0]).
  assert (Hfr : forall a, In a (addrs (heap w)) ->
            hget (fst (pwstep_core w (Clone t))) a = hget w a).
  { intros a Ha. destruct (heap_addr_owned _ _ Ha) as (i & Hi & Ho).
    apply (frame_step w (Clone t) i a Hw); [simpl; tauto|exact Hi|exact Ho]. }
  revert Hw' Hfr. unfold pwstep_core.
  destruct (pclone (gnx w) (pt (nth t (ptrees w) pt0))) as [c g'] eqn:Ec.
  destruct (pclone_ptid _ _ _ _ Hid Ec) as (Hg & Hid' & Hown).
  cbn [fst ptrees gnx]. intros Hw' Hfr.
  rewrite app_length, app_nth2, Nat.sub_diag by lia. simpl nth. cbn [pt pdead].
  split; [simpl; lia|]. split; [apply Hid'|]. split; [reflexivity|].
  split; [eapply pclone_shape; exact Ec|]. split; [exact Hown|]. split; [|split; [|split]].
  - intros a Ha Hin. apply Hown in Ha. pose proof (heap_addrs_lt w a Hw Hin). lia.
  - destruct Hw' as (_ & _ & _ & Hcl). cbn [ptrees] in Hcl. apply Forall_app in Hcl.
    destruct Hcl as [_ Hcl]. inversion Hcl; subst. assumption.
  - intros i Hi. apply app_nth1. exact Hi.
  - exact Hfr.
Qed.
