(* C19 — property theorems at POINTER level (statements only; proofs in
   ProofsW1-4.v, ProofsFlag.v).  They are about ModelW.v: worlds of several trees,
   clones, tombstoned node objects and live iterators over one heap of node
   objects with a global allocator, stored Parent pointers updated where
   avl-tree.go updates them, Clone's pointer copying, and AvlIterator.Next with its
   three branches on a held node pointer.  All quantify over ALL worlds reachable
   by ANY operation list (no bounds). *)
From Coq Require Import ZArith List Bool.
From ADV Require Import C19.Model C19.ModelP C19.ModelW C19.Spec C19.Proofs
  C19.ProofsW1 C19.ProofsW2 C19.ProofsW3 C19.ProofsW4 C19.ProofsFlag C19.ProofsW6 C19.ProofsW5.
Import ListNotations.
Open Scope Z_scope.

(* ---- 1. the heap of every reachable world ------------------------------------------ *)
(* per region: stored parents = structural parents (root: nil); every node object is
   reachable at most once; all addresses are below the allocator; unlinked objects are
   flagged Deleted, are not reachable and are listed once.  Across regions: no address
   belongs to two trees (heap-disjointness).  Every pointer stored in a cell of a region
   (Left/Right/Parent of reachable objects AND the stale pointers of unlinked ones)
   points into the same region.  Every iterator's node pointer is an object of the
   iterator's own tree's region (never dangling, never in another tree). *)
Theorem reachable_heap_is_partitioned_into_closed_regions :
  forall w, preach w ->
  Forall (fun ts => pwf None (pt ts) /\ NoDup (pids (pt ts)) /\ NoDup (map fst (pdead ts)) /\
                    (forall a, owns ts a -> (a < gnx w)%nat) /\
                    (forall a c, In (a, c) (region ts) -> (cdel c = true <-> ~ In a (pids (pt ts)))) /\
                    (forall a c q, In (a, c) (region ts) -> In q (cell_ptrs c) -> owns ts q))
         (ptrees w) /\
  (forall i j a, i <> j -> owns (nth i (ptrees w) pt0) a -> owns (nth j (ptrees w) pt0) a -> False) /\
  Forall (fun it => forall k, inode it = Some k ->
            (itree it < length (ptrees w))%nat /\ owns (nth (itree it) (ptrees w) pt0) k) (piters w).
Proof. exact reachable_heap_is_partitioned_into_closed_regions_lemma. Qed.

(* ---- 2. Clone -------------------------------------------------------------------------- *)
(* cloneNode copies *obj into a fresh object and re-establishes the Parent of both
   children; the copy's OWN Parent field is whatever the source node stored: *)
Theorem clone_copies_parent_of_source_root :
  forall g id l v b p r c g', pclone g (PN id l v b p r) = (c, g') -> proot c = p /\ pwf p c.
Proof. exact clone_copies_parent_of_source_root_lemma. Qed.

(* hence, in every reachable world (where a root's Parent is nil), Clone of tree t
   appends a tree that (a) consists of exactly the objects gnx .. gnx'-1, none of which
   is an address of the heap before (fresh objects: heap-disjoint from the source and
   from everything else); (b) has stored parents = structural parents OF THE CLONE, root
   nil; (c) stores no pointer to any object outside itself — in particular none into
   the source; (d) has the source's shape (values, balances), no tombstones; and (e) the
   step leaves every existing tree and every existing heap cell as it was *)
Theorem clone_is_a_fresh_closed_copy :
  forall w t, preach w ->
  let w' := fst (pwstep w (Clone t)) in
  let j := length (ptrees w) in
  let src := nth t (ptrees w) pt0 in
  let cl := nth j (ptrees w') pt0 in
  length (ptrees w') = S j /\
  pwf None (pt cl) /\ pdead cl = [] /\
  shape (erase (pt cl)) = shape (erase (pt src)) /\
  (forall a, owns cl a <-> (gnx w <= a < gnx w')%nat) /\
  (forall a, owns cl a -> ~ In a (addrs (heap w))) /\
  (forall a c q, In (a, c) (region cl) -> In q (cell_ptrs c) -> owns cl q) /\
  (forall i, (i < j)%nat -> nth i (ptrees w') pt0 = nth i (ptrees w) pt0) /\
  (forall a, In a (addrs (heap w)) -> hget w' a = hget w a).
Proof. exact clone_is_a_fresh_closed_copy_lemma. Qed.

(* ---- 3. frame ---------------------------------------------------------------------------- *)
(* a step that is not an Insert/Delete ON tree j leaves tree j's region, and every
   cell of the flat heap at an address of that region, unchanged *)
Theorem step_frames_other_regions :
  forall w o j a, preach w -> ~ targets o j -> (j < length (ptrees w))%nat ->
  nth j (ptrees (fst (pwstep w o))) pt0 = nth j (ptrees w) pt0 /\
  (owns (nth j (ptrees w) pt0) a -> hget (fst (pwstep w o)) a = hget w a).
Proof. exact step_frames_other_regions_lemma. Qed.

(* ANY history that does not insert into / delete from tree j (it may do anything to
   the source it was cloned from, to its other clones, to iterators of any tree,
   including tree j's) leaves tree j's heap cells unchanged *)
Theorem history_on_other_trees_frames_region :
  forall ops w j, preach w -> (j < length (ptrees w))%nat -> Forall (fun o => ~ targets o j) ops ->
  nth j (ptrees (wfold w ops)) pt0 = nth j (ptrees w) pt0 /\
  forall a, owns (nth j (ptrees w) pt0) a -> hget (wfold w ops) a = hget w a.
Proof. exact history_on_other_trees_frames_region_lemma. Qed.

(* ---- 4. AvlIterator.Next on a held node pointer ------------------------------------------ *)
(* in every reachable world, for every iterator: the pointer-level Next (dereference the
   held pointer; Deleted || value changed -> re-find by value+1 / end at MaxInt; else
   descend Right or climb through the STORED Parent pointers) is the value-level
   Model.iter_next on the erased region *)
Theorem pointer_next_is_value_level_next :
  forall w k, preach w ->
  let it := nth k (piters w) dflt_iter in
  let ts := nth (itree it) (ptrees w) pt0 in
  pnext ts it = iter_next (ets (gnx w) ts) it.
Proof. exact pointer_next_is_value_level_next_lemma. Qed.

(* the descent / the climb through stored parents is taken only from a node that is
   reachable, not tombstoned and still holds the iterator's value — where stored
   parents are structural — and then yields the structural successor *)
Theorem next_climbs_only_from_live_unchanged_node :
  forall w k n, preach w ->
  let it := nth k (piters w) dflt_iter in
  let ts := nth (itree it) (ptrees w) pt0 in
  inode it = Some n ->
  (match pderef ts n with Some c => cdel c || negb (cv c =? ival it) | None => true end) = false ->
  In n (pids (pt ts)) /\ ~ In n (map fst (pdead ts)) /\ value_at n (erase (pt ts)) = Some (ival it) /\
  psucc (pt ts) n = succ_of n (erase (pt ts)) None /\
  pnext ts it = match psucc (pt ts) n with
                | Some (Some (k', v')) => {| itree := itree it; inode := Some k'; ival := v' |}
                | _ => {| itree := itree it; inode := None; ival := ival it |} end.
Proof. exact next_climbs_only_from_live_unchanged_node_lemma. Qed.

(* whatever was inserted into / deleted from the tree since the iterator was positioned,
   Next moves it to the first key of the CURRENT set greater than its cursor *)
Theorem pointer_next_moves_to_first_greater_of_current_set :
  forall w k, preach w ->
  let it := nth k (piters w) dflt_iter in
  let s := pelems (nth (itree it) (ptrees w) pt0) in
  let it' := nth k (piters (fst (pwstep w (Next k)))) dflt_iter in
  (k < length (piters w))%nat -> inode it <> None ->
  match first_gt (ival it) s with
  | Some x => inode it' <> None /\ ival it' = x
  | None => inode it' = None
  end.
Proof. exact pnext_live_lemma. Qed.

(* ---- 5. whole histories: the set specification is inherited ------------------------------- *)
(* every step of a pointer-level world refines the set-level step *)
Theorem pointer_step_refines_set_step :
  forall w o, preach w -> op_in_range o ->
  pabs (fst (pwstep w o)) = fst (astep (pabs w) o) /\
  proj o (fst (snd (pwstep w o))) = snd (astep (pabs w) o).
Proof. exact pointer_step_refines_set_step_lemma. Qed.

(* for EVERY operation list with int64 keys the pointer-level world observes exactly
   what the set-level specification observes — hence exactly what Model.v observes *)
Theorem pointer_history_refines_set_spec :
  forall ops, keys_in_range ops -> observe ops (map fst (prun pinit ops)) = arun ainit ops.
Proof. exact prun_refines_lemma. Qed.

Theorem pointer_world_observes_like_value_world :
  forall ops, keys_in_range ops -> observe ops (map fst (prun pinit ops)) = observe ops (run init ops).
Proof. exact prun_observes_like_run. Qed.

(* every step other than Clone IS Model.step on the erased world (trees without Parent
   fields, tombstone addresses, iterators), as an equation on the world — up to Model.v's
   per-tree allocation counters, which the pointer world replaces by one global
   allocator — and on the complete output incl. the tree checksum ... *)
Theorem pointer_step_is_model_step_on_erased_world :
  forall w o, preach w -> (forall t, o <> Clone t) -> op_wf w o ->
  forget (erasew (fst (pwstep w o))) = forget (fst (step (erasew w) o)) /\
  fst (snd (pwstep w o)) = snd (step (erasew w) o).
Proof. exact pointer_step_is_model_step_on_erased_world_lemma. Qed.

(* ... and a Clone step has Model.step's output, keeps every tree and iterator, and
   appends a tree of fresh objects with the shape of the one Model.v appends (Model.v
   shares the source's ids: the reason why whole-world refinement is observational) *)
Theorem pointer_clone_step_matches_model_clone :
  forall w t,
  let w' := fst (pwstep w (Clone t)) in
  let m' := fst (step (erasew w) (Clone t)) in
  fst (snd (pwstep w (Clone t))) = snd (step (erasew w) (Clone t)) /\
  length (ptrees w') = length (trees m') /\
  (forall j, (j < length (ptrees w))%nat -> fg (nth j (ptrees w') pt0) = fg (nth j (ptrees w) pt0)) /\
  shape (erase (pt (nth (length (ptrees w)) (ptrees w') pt0))) =
  shape (tr (nth (length (ptrees w)) (trees m') t0)) /\
  piters w' = iters m'.
Proof. exact pointer_clone_step_matches_model_clone_lemma. Qed.

(* per tree the refinement is an equation: forgetting the Parent fields commutes with
   Insert / Delete for any allocator value and any parent argument *)
Theorem pointer_insert_delete_erase_to_model :
  (forall i g par t t' ok bd n, pins i g par t = (t', ok, bd, n) -> ins i g (erase t) = (erase t', ok, bd, n)) /\
  (forall i t t' ok bd d, pdel i t = (t', ok, bd, d) -> del i (erase t) = (erase t', ok, bd, d)) /\
  (forall i t, pFindNodeLE i t = find_le i (erase t) None).
Proof. exact pointer_insert_delete_erase_to_model_lemma. Qed.

(* ---- 6. the Deleted flag ---------------------------------------------------------------------- *)
(* delete() flags the found node object in all three cases ... *)
Theorem delete_flags_found_node_leaf_one_child_two_children :
  forall id l v b p r, exists t' bd, pdel v (PN id l v b p r) = (t', true, bd, Some id).
Proof. exact pdel_found_flags_node. Qed.

(* ... and the flagged object is exactly the object that leaves the reachable set *)
Theorem delete_unlinks_exactly_the_flagged_object :
  forall i t t' bd d, pdel i t = (t', true, bd, d) ->
  exists kd, d = Some kd /\
    forall k, ProofsIds.cnt k (erase t) = (ProofsIds.cnt k (erase t') + (if Nat.eqb kd k then 1 else 0))%nat.
Proof. exact pdel_unlinks_flagged. Qed.

(* a region never loses an object: what is unlinked stays as a tombstone of that region *)
Theorem regions_keep_their_objects :
  forall w o j a, preach w -> owns (nth j (ptrees w) pt0) a ->
  owns (nth j (ptrees (fst (pwstep w o))) pt0) a.
Proof. exact regions_keep_their_objects_lemma. Qed.

(* FindNodeLE (its first store to node1 is dead) returns a reachable, hence
   untombstoned, object holding the least key >= i, or nil iff there is none *)
Theorem find_node_le_returns_reachable_least_upper :
  forall w t i, preach w ->
  let ts := nth t (ptrees w) pt0 in
  match pFindNodeLE i (pt ts) with
  | Some (k, v) => In k (pids (pt ts)) /\ ~ In k (map fst (pdead ts)) /\ first_ge i (pelems ts) = Some v
  | None => first_ge i (pelems ts) = None end.
Proof. exact find_node_le_returns_reachable_least_upper_lemma. Qed.

(* ---- 7. the (ok, balanced) flags ---------------------------------------------------------------- *)
Theorem balance_flags_per_branch :
  forall id l v b r,
  snd (balance1 (N id l v b r)) = negb (b =? -1) && ((b =? 0) || (bal_of r =? 0)) /\
  snd (balance2 (N id l v b r)) = negb (b =? 1) && ((b =? 0) || (bal_of l =? 0)).
Proof. exact balance_flags_per_branch_lemma. Qed.

Theorem balance1_flag_true_iff_height_kept :
  forall id l v b r, avl l -> avl r -> -1 <= b <= 1 -> height r - height l = b + 1 ->
  let before := 1 + Z.max (height l + 1) (height r) in
  (snd (balance1 (N id l v b r)) = true <-> height (fst (balance1 (N id l v b r))) = before) /\
  (snd (balance1 (N id l v b r)) = false <-> height (fst (balance1 (N id l v b r))) = before - 1).
Proof. exact balance1_flag_iff_height. Qed.

Theorem balance2_flag_true_iff_height_kept :
  forall id l v b r, avl l -> avl r -> -1 <= b <= 1 -> height r - height l = b - 1 ->
  let before := 1 + Z.max (height l) (height r + 1) in
  (snd (balance2 (N id l v b r)) = true <-> height (fst (balance2 (N id l v b r))) = before) /\
  (snd (balance2 (N id l v b r)) = false <-> height (fst (balance2 (N id l v b r))) = before - 1).
Proof. exact balance2_flag_iff_height. Qed.

Theorem insert_flag_true_iff_height_kept :
  forall i nx t, avl t ->
  let '(t', ok, bd, _) := ins i nx t in
  (bd = true <-> height t' = height t) /\ (bd = false <-> height t' = height t + 1) /\
  (ok = false -> bd = true /\ t' = t).
Proof. exact ins_flag_iff_height. Qed.

Theorem delete_flag_true_iff_height_kept :
  forall i t, avl t -> bst t ->
  let '(t', ok, bd, _) := del i t in
  let t'' := if ok then t' else t in
  (bd = true <-> height t'' = height t) /\ (bd = false <-> height t'' = height t - 1) /\
  (ok = false -> bd = true).
Proof. exact del_flag_iff_height. Qed.

Theorem deleteRec_flag_true_iff_height_kept :
  forall t, t <> E -> avl t ->
  let '(t', _, _, bd) := delmax t in
  (bd = true <-> height t' = height t) /\ (bd = false <-> height t' = height t - 1).
Proof. exact delmax_flag_iff_height. Qed.

Theorem pointer_level_flags_are_the_model_flags :
  (forall t, snd (pbalance1 t) = snd (balance1 (erase t)) /\ snd (pbalance2 t) = snd (balance2 (erase t))) /\
  (forall i nx par t, let '(_, ok, bd, _) := pins i nx par t in
                      let '(_, ok', bd', _) := ins i nx (erase t) in ok = ok' /\ bd = bd') /\
  (forall i t, let '(_, ok, bd, _) := pdel i t in
               let '(_, ok', bd', _) := del i (erase t) in ok = ok' /\ bd = bd').
Proof. exact pointer_flags_lemma. Qed.

(* ---- non-vacuity ----------------------------------------------------------------------------------- *)
Definition exw_ops : list op :=
  [Ins 0 5; Ins 0 3; Ins 0 8; Ins 0 1; Ins 0 4; Ins 0 7; Ins 0 9;
   ItFrom 0 4; Clone 0; Del 0 4 (* leaf under the cursor *); Del 0 5 (* root, two children *);
   Del 1 1 (* clone diverges *); Ins 1 2; Next 0; ItBegin 1; Next 1; Del 0 8; Next 0].
Definition exw : pworld := wfold pinit exw_ops.

Example exw_reachable : preach exw.
Proof.
  unfold exw, wfold, exw_ops. cbn [fold_left].
  repeat (apply preach_step; [|vm_compute; try split; try discriminate; exact I]). apply preach_init.
Qed.

(* addresses: the source holds 0..6, the clone the fresh objects 7..13 (preorder) and
   the object 14 inserted later; objects 4 (leaf delete: stale Parent 1), 0 and 2 (two
   children: replace() cleared their pointers) of the source and 9 of the clone (stale
   Parent 8, an object of the CLONE) are tombstones *)
Example exw_regions :
  map (fun ts => (pids (pt ts), map (fun ac => (fst ac, cdel (snd ac), cp (snd ac))) (pdead ts))) (ptrees exw)
  = [([1; 3; 5; 6]%nat, [(2%nat, true, None); (0%nat, true, None); (4%nat, true, Some 1%nat)]);
     ([7; 8; 14; 10; 11; 12; 13]%nat, [(9%nat, true, Some 8%nat)])].
Proof. vm_compute. reflexivity. Qed.

(* iterator 0 sat on object 4 (key 4) when it was unlinked: its Next re-found by value
   (key 7, object 5); object 5 then replaced the deleted two-children node 8 and the next
   Next descended to object 6 (key 9).  Iterator 1 climbed from object 14 to its stored
   parent 8 inside the clone *)
Example exw_iterators : piters exw =
  [{| itree := 0; inode := Some 6%nat; ival := 9 |}; {| itree := 1; inode := Some 8%nat; ival := 3 |}].
Proof. vm_compute. reflexivity. Qed.

Example exw_observed :
  observe exw_ops (map fst (prun pinit exw_ops)) = arun ainit exw_ops /\
  keys_in_range exw_ops.
Proof.
  split; [vm_compute; reflexivity|].
  apply Forall_forall. intros o Ho. unfold exw_ops in Ho. simpl in Ho.
  repeat (destruct Ho as [<-|Ho]; [first [exact I | vm_compute; split; discriminate]|]). destruct Ho.
Qed.

(* Clone of a tree whose root (wrongly) stored a parent: the copy's root points to the
   source's object 77 — the invariant "root.Parent = nil" is what rules this out *)
Example ex_clone_copies_root_parent :
  proot (fst (pclone 10 (PN 0 (PN 1 PE 3 0 (Some 0%nat) PE) 5 (-1) (Some 77%nat) PE))) = Some 77%nat.
Proof. reflexivity. Qed.
