(* C19 — statement level: balance1 / balance2 (ModelH statement lists, regenerated from
   avl-tree.go) are ModelP.pbalance1 / pbalance2 on any heap holding a tree of the shape the
   code dereferences; the rotations they call are the statement lists proved in ProofsH2-4. *)
From Coq Require Import ZArith List Bool Lia.
From ADV Require Import C19.Model C19.ModelP C19.ModelW C19.ModelH C19.ProofsH1 C19.ProofsH2 C19.ProofsH3 C19.ProofsH4.
Import ListNotations.
Open Scope Z_scope.


Lemma step_switch sub e cases s k blk :
  eval (sh s) (se s) e = Some (Some k) -> find_case (cb (sh s k)) cases = Some blk ->
  step sub (SSwitchBal e cases) s = sub blk s.
Proof. intros H1 H2. unfold step. rewrite H1, H2. reflexivity. Qed.
Lemma step_letint sub e s k :
  eval (sh s) (se s) e = Some (Some k) ->
  step sub (SLetInt e) s = Some {| sh := sh s; se := se s; si := cb (sh s k); sf := sf s; sr := sr s |}.
Proof. intros H1. unfold step. rewrite H1. reflexivity. Qed.
Lemma step_ifint sub c z th el s :
  step sub (SIfInt c z th el) s = sub (if cmpz c (si s) z then th else el) s.
Proof. reflexivity. Qed.
Lemma step_bal sub e z s k :
  eval (sh s) (se s) e = Some (Some k) ->
  step sub (SBal e z) s = Some (with_heap s (hupd (sh s) k (set_cb (sh s k) z))).
Proof. intros H1. unfold step. rewrite H1. reflexivity. Qed.

Definition st0 (h : hheap) (io : nat) (fl : bool) : st :=
  {| sh := h; se := {| eobj := Some io; enode := None; ea1 := None; ea2 := None |}; si := 0; sf := fl; sr := None |}.

(* balance1, case Balance = -1 / 0: one or two field writes on obj *)
Lemma balance1_simple : forall f fl h io b,
  cb (h io) = b -> b = -1 \/ b = 0 ->
  exists s', run_method (S (S f)) MBalance1 (Some io) None fl h = Some s' /\
    sh s' = hupd h io (set_cb (h io) (b + 1)) /\ sf s' = (if b =? 0 then true else fl).
Proof.
  intros f fl h io b Hb [-> | ->]; unfold run_method; cbn [body]; rewrite exec_S; unfold balance1_body.
  - eexists. split.
    + eapply seq_cons_eq.
      * erewrite step_switch; [|cbn; reflexivity|cbn [sh]; rewrite Hb; cbn; reflexivity].
        rewrite exec_S. cbn [seq]. erewrite step_bal by (cbn; reflexivity). reflexivity.
      * cbn [seq step]. reflexivity.
    + cbn. split; reflexivity.
  - eexists. split.
    + eapply seq_cons_eq.
      * erewrite step_switch; [|cbn; reflexivity|cbn [sh]; rewrite Hb; cbn; reflexivity].
        rewrite exec_S. cbn [seq]. erewrite step_bal by (cbn; reflexivity). cbn [step]. reflexivity.
      * cbn [seq step]. reflexivity.
    + cbn. split; reflexivity.
Qed.


Lemma exec_nil f s : exec (S f) [] s = Some s.
Proof. reflexivity. Qed.

Lemma balance1_RR : forall f fl h io i1 a1l v1 b1 p1 a1r vo po a2,
  let t := PN io a2 vo 1 po (PN i1 a1l v1 b1 p1 a1r) in
  NoDup (pids t) -> rep h t -> 0 <= b1 ->
  exists s', run_method (S (S (S (4 + f)))) MBalance1 (Some io) None fl h = Some s' /\
    rep (sh s') (fst (pbalance1 t)) /\
    (forall a, ~ In a (pids t) -> sh s' a = h a) /\ sf s' = (snd (pbalance1 t) || fl)%bool.
Proof.
  intros f fl h io i1 a1l v1 b1 p1 a1r vo po a2 t ND R Hge. subst t.
  destruct (rotateRR_exec f false h io i1 a1l v1 b1 p1 a1r vo 1 po a2 ND R) as (s1 & E1 & R1 & F1 & _).
  pose proof (NoDup_cntl _ ND) as C.
  unfold run_method in E1. cbn [body] in E1.
  assert (H0 : h io = live_cell a2 vo 1 po (PN i1 a1l v1 b1 p1 a1r)) by (cbn [rep] in R; tauto).
  assert (H1 : h i1 = live_cell a1l v1 b1 p1 a1r) by (cbn [rep] in R; tauto).
  assert (Hle : (0 <=? b1) = true) by (apply Z.leb_le; exact Hge).
  set (h1 := sh s1) in *.
  unfold run_method; cbn [body]; rewrite exec_S; unfold balance1_body.
  cbn [pbalance1 pbal_of fst snd]. replace (1 =? -1) with false by reflexivity. replace (1 =? 0) with false by reflexivity.
  rewrite Hle.
  assert (RUN : forall X, 
     exec (4 + f) (if b1 =? 0 then [SBal (PV Obj) (-1); SBal (PL (PV Obj)) 1; SFlag true] else [])
       {| sh := h1; se := {| eobj := Some io; enode := None; ea1 := None; ea2 := None |}; si := b1; sf := fl; sr := None |} = Some X ->
     seq (step (exec (S (S (4 + f))))) [SSwitchBal (PV Obj)
       [(-1, [SBal (PV Obj) 0]); (0, [SBal (PV Obj) 1; SFlag true]);
        (1, [SLetInt (PR (PV Obj));
             SIfInt CGe 0 [SCall MRotRR (PV Obj) PNil; SIfInt CEq 0 [SBal (PV Obj) (-1); SBal (PL (PV Obj)) 1; SFlag true] []]
               [SCall MRotRL (PV Obj) PNil]])]; SRetFlag] 
       {| sh := h; se := {| eobj := Some io; enode := None; ea1 := None; ea2 := None |}; si := 0; sf := fl; sr := None |} = Some X).
  { intros X HX. eapply seq_cons_eq.
    - erewrite step_switch; [|cbn; reflexivity|cbn [sh]; rewrite H0; cbn; reflexivity].
      rewrite exec_S. eapply seq_cons_eq.
      { erewrite step_letint by (cbn [eval sh se getv eobj]; rewrite H0; cbn; reflexivity). reflexivity. }
      eapply seq_cons_eq.
      { rewrite step_ifint. cbn [si sh]. rewrite H1. cbn [cb live_cell cmpz]. rewrite Hle. cbv iota.
        rewrite exec_S. eapply seq_cons_eq.
        { eapply step_call; [cbn; reflexivity|cbn; reflexivity|exact E1]. }
        eapply seq_cons_eq.
        { rewrite step_ifint. cbn [si with_heap sh se sf sr cmpz]. fold h1. exact HX. }
        cbn [seq]. reflexivity. }
      cbn [seq]. reflexivity.
    - cbn [seq step]. reflexivity. }
  destruct (Z.eqb_spec b1 0) as [Eb|Eb].
  - (* balanced pivot: the rotation keeps the height, balances -1 / +1 *)
    destruct a1l as [|ka al av ab ap ar]; destruct a1r as [|kb bl bv bb bp br]; destruct a2 as [|kc cl0 cv0 cb0 cp0 cr0];
    cbn [protRR setp] in R1 |- *; cbn [fst snd orb]; rep_split; ne_tops h1 C;
    (eexists; split;
     [ apply RUN; change (exec (4 + f)) with (exec (S (3 + f))); rewrite exec_S; run_seq h1 C
     | cbn [sh sf]; split; [|split; [|reflexivity]];
       [ cbn [pset_bal]; rep_goal h1 C
       | let a := fresh "a" in let Ha := fresh "Ha" in intros a Ha; rewrite <- (F1 a Ha); fold h1; frame_solve Ha ] ]).
  - cbn [fst snd orb]. eexists; split; [apply RUN; change (exec (4 + f)) with (exec (S (3 + f))); apply exec_nil|].
    cbn [sh sf]. split; [exact R1|split; [exact F1|reflexivity]].
Qed.

Lemma balance1_RL : forall f fl h io i1 i2 a1r v1 b1 p1 a2l v2 b2 p2 a2r vo po objl,
  let t := PN io objl vo 1 po (PN i1 (PN i2 a2l v2 b2 p2 a2r) v1 b1 p1 a1r) in
  NoDup (pids t) -> rep h t -> b1 < 0 ->
  exists s', run_method (S (S (S (4 + f)))) MBalance1 (Some io) None fl h = Some s' /\
    rep (sh s') (fst (pbalance1 t)) /\
    (forall a, ~ In a (pids t) -> sh s' a = h a) /\ sf s' = (snd (pbalance1 t) || fl)%bool.
Proof.
  intros f fl h io i1 i2 a1r v1 b1 p1 a2l v2 b2 p2 a2r vo po objl t ND R Hlt. subst t.
  destruct (rotateRL_exec f false h io i1 i2 a1r v1 b1 p1 a2l v2 b2 p2 a2r vo 1 po objl ND R) as (s1 & E1 & R1 & F1 & _).
  unfold run_method in E1. cbn [body] in E1.
  assert (H0 : h io = live_cell objl vo 1 po (PN i1 (PN i2 a2l v2 b2 p2 a2r) v1 b1 p1 a1r)) by (cbn [rep] in R; tauto).
  assert (H1 : h i1 = live_cell (PN i2 a2l v2 b2 p2 a2r) v1 b1 p1 a1r) by (cbn [rep] in R; tauto).
  assert (Hle : (0 <=? b1) = false) by (apply Z.leb_gt; exact Hlt).
  unfold run_method; cbn [body]; rewrite exec_S; unfold balance1_body.
  cbn [pbalance1 pbal_of fst snd]. replace (1 =? -1) with false by reflexivity. replace (1 =? 0) with false by reflexivity.
  rewrite Hle. cbv iota. cbn [fst snd orb].
  eexists. split.
  - eapply seq_cons_eq.
    + erewrite step_switch; [|cbn; reflexivity|cbn [sh]; rewrite H0; cbn; reflexivity].
      rewrite exec_S. eapply seq_cons_eq.
      { erewrite step_letint by (cbn [eval sh se getv eobj]; rewrite H0; cbn; reflexivity). reflexivity. }
      eapply seq_cons_eq.
      { rewrite step_ifint. cbn [si sh]. rewrite H1. cbn [cb live_cell cmpz]. rewrite Hle. cbv iota.
        rewrite exec_S. eapply seq_cons_eq.
        { eapply step_call; [cbn; reflexivity|cbn; reflexivity|exact E1]. }
        cbn [seq]. reflexivity. }
      cbn [seq]. reflexivity.
    + cbn [seq step]. reflexivity.
  - cbn [sh sf with_heap]. split; [exact R1|split; [exact F1|reflexivity]].
Qed.

(* ---- balance2: the mirror image ------------------------------------------------------- *)
(* balance2, case Balance = 1 / 0: one or two field writes on obj *)
Lemma balance2_simple : forall f fl h io b,
  cb (h io) = b -> b = 1 \/ b = 0 ->
  exists s', run_method (S (S f)) MBalance2 (Some io) None fl h = Some s' /\
    sh s' = hupd h io (set_cb (h io) (b - 1)) /\ sf s' = (if b =? 0 then true else fl).
Proof.
  intros f fl h io b Hb [-> | ->]; unfold run_method; cbn [body]; rewrite exec_S; unfold balance2_body.
  - eexists. split.
    + eapply seq_cons_eq.
      * erewrite step_switch; [|cbn; reflexivity|cbn [sh]; rewrite Hb; cbn; reflexivity].
        rewrite exec_S. cbn [seq]. erewrite step_bal by (cbn; reflexivity). reflexivity.
      * cbn [seq step]. reflexivity.
    + cbn. split; reflexivity.
  - eexists. split.
    + eapply seq_cons_eq.
      * erewrite step_switch; [|cbn; reflexivity|cbn [sh]; rewrite Hb; cbn; reflexivity].
        rewrite exec_S. cbn [seq]. erewrite step_bal by (cbn; reflexivity). cbn [step]. reflexivity.
      * cbn [seq step]. reflexivity.
    + cbn. split; reflexivity.
Qed.
Lemma balance2_LL : forall f fl h io i1 a1l v1 b1 p1 a1r vo po a2,
  let t := PN io (PN i1 a1l v1 b1 p1 a1r) vo (-1) po a2 in
  NoDup (pids t) -> rep h t -> b1 <= 0 ->
  exists s', run_method (S (S (S (4 + f)))) MBalance2 (Some io) None fl h = Some s' /\
    rep (sh s') (fst (pbalance2 t)) /\
    (forall a, ~ In a (pids t) -> sh s' a = h a) /\ sf s' = (snd (pbalance2 t) || fl)%bool.
Proof.
  intros f fl h io i1 a1l v1 b1 p1 a1r vo po a2 t ND R Hge. subst t.
  destruct (rotateLL_exec f false h io i1 a1l v1 b1 p1 a1r vo (-1) po a2 ND R) as (s1 & E1 & R1 & F1 & _).
  pose proof (NoDup_cntl _ ND) as C.
  unfold run_method in E1. cbn [body] in E1.
  assert (H0 : h io = live_cell (PN i1 a1l v1 b1 p1 a1r) vo (-1) po a2) by (cbn [rep] in R; tauto).
  assert (H1 : h i1 = live_cell a1l v1 b1 p1 a1r) by (cbn [rep] in R; tauto).
  assert (Hle : (b1 <=? 0) = true) by (apply Z.leb_le; exact Hge).
  set (h1 := sh s1) in *.
  unfold run_method; cbn [body]; rewrite exec_S; unfold balance2_body.
  cbn [pbalance2 pbal_of fst snd]. replace (-1 =? 1) with false by reflexivity. replace (-1 =? 0) with false by reflexivity.
  rewrite Hle.
  assert (RUN : forall X, 
     exec (4 + f) (if b1 =? 0 then [SBal (PV Obj) 1; SBal (PR (PV Obj)) (-1); SFlag true] else [])
       {| sh := h1; se := {| eobj := Some io; enode := None; ea1 := None; ea2 := None |}; si := b1; sf := fl; sr := None |} = Some X ->
     seq (step (exec (S (S (4 + f))))) [SSwitchBal (PV Obj)
       [(1, [SBal (PV Obj) 0]); (0, [SBal (PV Obj) (-1); SFlag true]);
        (-1, [SLetInt (PL (PV Obj));
             SIfInt CLe 0 [SCall MRotLL (PV Obj) PNil; SIfInt CEq 0 [SBal (PV Obj) 1; SBal (PR (PV Obj)) (-1); SFlag true] []]
               [SCall MRotLR (PV Obj) PNil]])]; SRetFlag] 
       {| sh := h; se := {| eobj := Some io; enode := None; ea1 := None; ea2 := None |}; si := 0; sf := fl; sr := None |} = Some X).
  { intros X HX. eapply seq_cons_eq.
    - erewrite step_switch; [|cbn; reflexivity|cbn [sh]; rewrite H0; cbn; reflexivity].
      rewrite exec_S. eapply seq_cons_eq.
      { erewrite step_letint by (cbn [eval sh se getv eobj]; rewrite H0; cbn; reflexivity). reflexivity. }
      eapply seq_cons_eq.
      { rewrite step_ifint. cbn [si sh]. rewrite H1. cbn [cb live_cell cmpz]. rewrite Hle. cbv iota.
        rewrite exec_S. eapply seq_cons_eq.
        { eapply step_call; [cbn; reflexivity|cbn; reflexivity|exact E1]. }
        eapply seq_cons_eq.
        { rewrite step_ifint. cbn [si with_heap sh se sf sr cmpz]. fold h1. exact HX. }
        cbn [seq]. reflexivity. }
      cbn [seq]. reflexivity.
    - cbn [seq step]. reflexivity. }
  destruct (Z.eqb_spec b1 0) as [Eb|Eb].
  - (* balanced child: the rotation keeps the height, balances -1 / +1 *)
    destruct a1l as [|ka al av ab ap ar]; destruct a1r as [|kb bl bv bb bp br]; destruct a2 as [|kc cl0 cv0 cb0 cp0 cr0];
    cbn [protLL setp] in R1 |- *; cbn [fst snd orb]; rep_split; ne_tops h1 C;
    (eexists; split;
     [ apply RUN; change (exec (4 + f)) with (exec (S (3 + f))); rewrite exec_S; run_seq h1 C
     | cbn [sh sf]; split; [|split; [|reflexivity]];
       [ cbn [pset_bal]; rep_goal h1 C
       | let a := fresh "a" in let Ha := fresh "Ha" in intros a Ha; rewrite <- (F1 a Ha); fold h1; frame_solve Ha ] ]).
  - cbn [fst snd orb]. eexists; split; [apply RUN; change (exec (4 + f)) with (exec (S (3 + f))); apply exec_nil|].
    cbn [sh sf]. split; [exact R1|split; [exact F1|reflexivity]].
Qed.

Lemma balance2_LR : forall f fl h io i1 i2 a1l v1 b1 p1 a2l v2 b2 p2 a2r vo po objr,
  let t := PN io (PN i1 a1l v1 b1 p1 (PN i2 a2l v2 b2 p2 a2r)) vo (-1) po objr in
  NoDup (pids t) -> rep h t -> 0 < b1 ->
  exists s', run_method (S (S (S (4 + f)))) MBalance2 (Some io) None fl h = Some s' /\
    rep (sh s') (fst (pbalance2 t)) /\
    (forall a, ~ In a (pids t) -> sh s' a = h a) /\ sf s' = (snd (pbalance2 t) || fl)%bool.
Proof.
  intros f fl h io i1 i2 a1l v1 b1 p1 a2l v2 b2 p2 a2r vo po objr t ND R Hlt. subst t.
  destruct (rotateLR_exec f false h io i1 i2 a1l v1 b1 p1 a2l v2 b2 p2 a2r vo (-1) po objr ND R) as (s1 & E1 & R1 & F1 & _).
  unfold run_method in E1. cbn [body] in E1.
  assert (H0 : h io = live_cell (PN i1 a1l v1 b1 p1 (PN i2 a2l v2 b2 p2 a2r)) vo (-1) po objr) by (cbn [rep] in R; tauto).
  assert (H1 : h i1 = live_cell a1l v1 b1 p1 (PN i2 a2l v2 b2 p2 a2r)) by (cbn [rep] in R; tauto).
  assert (Hle : (b1 <=? 0) = false) by (apply Z.leb_gt; exact Hlt).
  unfold run_method; cbn [body]; rewrite exec_S; unfold balance2_body.
  cbn [pbalance2 pbal_of fst snd]. replace (-1 =? 1) with false by reflexivity. replace (-1 =? 0) with false by reflexivity.
  rewrite Hle. cbv iota. cbn [fst snd orb].
  eexists. split.
  - eapply seq_cons_eq.
    + erewrite step_switch; [|cbn; reflexivity|cbn [sh]; rewrite H0; cbn; reflexivity].
      rewrite exec_S. eapply seq_cons_eq.
      { erewrite step_letint by (cbn [eval sh se getv eobj]; rewrite H0; cbn; reflexivity). reflexivity. }
      eapply seq_cons_eq.
      { rewrite step_ifint. cbn [si sh]. rewrite H1. cbn [cb live_cell cmpz]. rewrite Hle. cbv iota.
        rewrite exec_S. eapply seq_cons_eq.
        { eapply step_call; [cbn; reflexivity|cbn; reflexivity|exact E1]. }
        cbn [seq]. reflexivity. }
      cbn [seq]. reflexivity.
    + cbn [seq step]. reflexivity.
  - cbn [sh sf with_heap]. split; [exact R1|split; [exact F1|reflexivity]].
Qed.
