(* C19 — lemmas about strictly ascending lists (the abstract sets of Spec.v). *)
From Coq Require Import ZArith List Bool Lia Sorted.
From ADV Require Import C19.Model C19.Spec.
Import ListNotations.
Open Scope Z_scope.

(* ---- sset --------------------------------------------------------------- *)
Lemma sset_nil : sset [].
Proof. constructor. Qed.

Lemma sset_cons x l : sset (x :: l) <-> sset l /\ Forall (fun y => x < y) l.
Proof.
  unfold sset. split.
  - intro H. inversion H; subst. split; assumption.
  - intros [H1 H2]. constructor; assumption.
Qed.

Lemma sset_app l v r :
  sset (l ++ v :: r) <->
  sset l /\ sset r /\ Forall (fun x => x < v) l /\ Forall (fun x => v < x) r.
Proof.
  induction l as [|a l IH]; simpl.
  - rewrite sset_cons. split.
    + intros [H1 H2]. repeat split; auto. apply sset_nil.
    + intros (_ & H1 & _ & H2). split; assumption.
  - rewrite !sset_cons, IH. split.
    + intros ((Hl & Hr & Hlv & Hvr) & Ha).
      rewrite Forall_app in Ha. destruct Ha as [Ha1 Ha2].
      inversion Ha2 as [|? ? Hav Har]; subst.
      repeat split; auto.
    + intros ((Hl & Ha) & Hr & Hlv & Hvr).
      inversion Hlv as [|? ? Hav Hlv']; subst.
      repeat split; auto.
      rewrite Forall_app. split; auto. constructor; auto.
      eapply Forall_impl; [|exact Hvr]. simpl. intros; lia.
Qed.

Lemma Forall_lt_trans (P Q : Z -> Prop) l :
  (forall x, P x -> Q x) -> Forall P l -> Forall Q l.
Proof. intros H HF. eapply Forall_impl; eauto. Qed.

(* ---- smem ---------------------------------------------------------------- *)
Lemma smem_app i l1 l2 : smem i (l1 ++ l2) = smem i l1 || smem i l2.
Proof. induction l1 as [|a l1 IH]; simpl; auto. rewrite IH, orb_assoc. reflexivity. Qed.

Lemma smem_In i l : smem i l = true <-> In i l.
Proof.
  induction l as [|a l IH]; simpl.
  - split; [discriminate|tauto].
  - rewrite orb_true_iff, IH, Z.eqb_eq. tauto.
Qed.

Lemma smem_false_lt i l : Forall (fun x => x < i) l -> smem i l = false.
Proof.
  induction 1 as [|a l Ha _ IH]; simpl; auto.
  rewrite IH. destruct (Z.eqb_spec a i); auto; lia.
Qed.

Lemma smem_false_gt i l : Forall (fun x => i < x) l -> smem i l = false.
Proof.
  induction 1 as [|a l Ha _ IH]; simpl; auto.
  rewrite IH. destruct (Z.eqb_spec a i); auto; lia.
Qed.

(* ---- sadd ---------------------------------------------------------------- *)
Lemma sadd_app_lt i l v r : i < v -> sadd i (l ++ v :: r) = sadd i l ++ v :: r.
Proof.
  intro Hiv. induction l as [|a l IH]; simpl.
  - destruct (Z.ltb_spec i v); [reflexivity|lia].
  - destruct (i <? a); [reflexivity|]. destruct (a <? i); [|reflexivity].
    rewrite IH. reflexivity.
Qed.

Lemma sadd_app_gt i l v r :
  v < i -> Forall (fun x => x < v) l -> sadd i (l ++ v :: r) = l ++ v :: sadd i r.
Proof.
  intros Hvi HF. induction HF as [|a l Ha _ IH]; simpl.
  - destruct (Z.ltb_spec i v); [lia|]. destruct (Z.ltb_spec v i); [reflexivity|lia].
  - destruct (Z.ltb_spec i a); [lia|]. destruct (Z.ltb_spec a i); [|lia].
    rewrite IH. reflexivity.
Qed.

Lemma sadd_In i l x : In x (sadd i l) -> x = i \/ In x l.
Proof.
  induction l as [|a l IH]; simpl.
  - intros [H|[]]; auto.
  - destruct (i <? a); simpl.
    + intros [H|[H|H]]; auto.
    + destruct (a <? i); simpl.
      * intros [H|H]; auto. destruct (IH H); auto.
      * intros [H|H]; auto.
Qed.

Lemma sadd_sset i l : sset l -> sset (sadd i l).
Proof.
  induction l as [|a l IH]; simpl; intro H.
  - apply sset_cons. split; [apply sset_nil|constructor].
  - destruct (Z.ltb_spec i a) as [Hia|Hia].
    + apply sset_cons. split; [exact H|].
      apply sset_cons in H. destruct H as [_ HF].
      constructor; [exact Hia|]. eapply Forall_impl; [|exact HF]. simpl; intros; lia.
    + destruct (Z.ltb_spec a i) as [Hai|Hai]; [|exact H].
      apply sset_cons in H. destruct H as [Hl HF].
      apply sset_cons. split; [apply IH; exact Hl|].
      apply Forall_forall. intros x Hx. apply sadd_In in Hx.
      destruct Hx as [->|Hx]; [exact Hai|].
      rewrite Forall_forall in HF. apply HF; exact Hx.
Qed.

Lemma sadd_Forall (P : Z -> Prop) i l : P i -> Forall P l -> Forall P (sadd i l).
Proof.
  intros Hi HF. apply Forall_forall. intros x Hx. apply sadd_In in Hx.
  destruct Hx as [->|Hx]; auto. rewrite Forall_forall in HF; auto.
Qed.

Lemma sadd_mem i l : sset l -> smem i l = true -> sadd i l = l.
Proof.
  induction l as [|a l IH]; simpl; intros Hs Hm; [discriminate|].
  apply sset_cons in Hs. destruct Hs as [Hl HF].
  destruct (Z.eqb_spec a i) as [->|Hne].
  - rewrite Z.ltb_irrefl. reflexivity.
  - simpl in Hm. destruct (Z.ltb_spec i a) as [Hia|Hia].
    + rewrite smem_false_gt in Hm; [discriminate|].
      eapply Forall_impl; [|exact HF]. simpl; intros; lia.
    + destruct (Z.ltb_spec a i); [|lia]. rewrite IH; auto.
Qed.

(* ---- sdel ---------------------------------------------------------------- *)
Lemma sdel_notin i l : smem i l = false -> sdel i l = l.
Proof.
  induction l as [|a l IH]; simpl; auto.
  destruct (a =? i); simpl; [discriminate|]. intro H. rewrite IH; auto.
Qed.

Lemma sdel_app i l1 l2 :
  sdel i (l1 ++ l2) = if smem i l1 then sdel i l1 ++ l2 else l1 ++ sdel i l2.
Proof.
  induction l1 as [|a l1 IH]; simpl; auto.
  destruct (a =? i); simpl; auto. rewrite IH. destruct (smem i l1); reflexivity.
Qed.

Lemma sdel_In i l x : In x (sdel i l) -> In x l.
Proof.
  induction l as [|a l IH]; simpl; auto.
  destruct (a =? i); simpl; auto. intros [H|H]; auto.
Qed.

Lemma sdel_sset i l : sset l -> sset (sdel i l).
Proof.
  induction l as [|a l IH]; simpl; intro H; auto.
  apply sset_cons in H. destruct H as [Hl HF].
  destruct (a =? i); auto.
  apply sset_cons. split; auto.
  apply Forall_forall. intros x Hx. apply sdel_In in Hx.
  rewrite Forall_forall in HF; auto.
Qed.

Lemma sdel_Forall (P : Z -> Prop) i l : Forall P l -> Forall P (sdel i l).
Proof.
  intros HF. apply Forall_forall. intros x Hx. apply sdel_In in Hx.
  rewrite Forall_forall in HF; auto.
Qed.

(* ---- List.find / first_ge / first_gt ------------------------------------ *)
Lemma find_app {A} (f : A -> bool) l1 l2 :
  List.find f (l1 ++ l2) = match List.find f l1 with Some x => Some x | None => List.find f l2 end.
Proof. induction l1 as [|a l1 IH]; simpl; auto. destruct (f a); auto. Qed.

Lemma find_none_Forall {A} (f : A -> bool) l :
  Forall (fun x => f x = false) l -> List.find f l = None.
Proof. induction 1 as [|a l Ha _ IH]; simpl; auto. rewrite Ha. exact IH. Qed.

Lemma find_hd_Forall {A} (f : A -> bool) l :
  Forall (fun x => f x = true) l -> List.find f l = hd_error l.
Proof. destruct 1 as [|a l Ha _]; simpl; auto. rewrite Ha. reflexivity. Qed.

Lemma first_ge_app i l1 l2 :
  first_ge i (l1 ++ l2) = match first_ge i l1 with Some x => Some x | None => first_ge i l2 end.
Proof. apply find_app. Qed.
Lemma first_gt_app i l1 l2 :
  first_gt i (l1 ++ l2) = match first_gt i l1 with Some x => Some x | None => first_gt i l2 end.
Proof. apply find_app. Qed.

Lemma first_ge_none i l : Forall (fun x => x < i) l -> first_ge i l = None.
Proof.
  intro H. apply find_none_Forall. eapply Forall_impl; [|exact H].
  simpl. intros a Ha. apply Z.leb_gt. exact Ha.
Qed.
Lemma first_gt_none i l : Forall (fun x => x <= i) l -> first_gt i l = None.
Proof.
  intro H. apply find_none_Forall. eapply Forall_impl; [|exact H].
  simpl. intros a Ha. apply Z.ltb_ge. exact Ha.
Qed.
Lemma first_gt_hd i l : Forall (fun x => i < x) l -> first_gt i l = hd_error l.
Proof.
  intro H. apply find_hd_Forall. eapply Forall_impl; [|exact H].
  simpl. intros a Ha. apply Z.ltb_lt. exact Ha.
Qed.

Lemma first_gt_succ i l : first_ge (i + 1) l = first_gt i l.
Proof.
  unfold first_ge, first_gt. induction l as [|a l IH]; simpl; auto.
  rewrite IH. destruct (Z.leb_spec (i + 1) a), (Z.ltb_spec i a); auto; lia.
Qed.

Lemma first_gt_In i l x : first_gt i l = Some x -> In x l /\ i < x.
Proof.
  unfold first_gt. intro H. apply find_some in H. destruct H as [H1 H2].
  split; auto. apply Z.ltb_lt. exact H2.
Qed.
Lemma first_ge_In i l x : first_ge i l = Some x -> In x l /\ i <= x.
Proof.
  unfold first_ge. intro H. apply find_some in H. destruct H as [H1 H2].
  split; auto. apply Z.leb_le. exact H2.
Qed.

(* ---- Forall2 / nth / upd ------------------------------------------------- *)
Lemma Forall2_nth {A B} (R : A -> B -> Prop) l1 l2 n d1 d2 :
  Forall2 R l1 l2 -> R d1 d2 -> R (nth n l1 d1) (nth n l2 d2).
Proof.
  intros H Hd. revert n. induction H as [|a b l1 l2 Hab _ IH]; intros [|n]; simpl; auto.
Qed.

Lemma Forall2_upd {A B} (R : A -> B -> Prop) l1 l2 n x y :
  Forall2 R l1 l2 -> R x y -> Forall2 R (upd n x l1) (upd n y l2).
Proof.
  intros H Hxy. revert n. induction H as [|a b l1 l2 Hab Hl IH]; intros [|n]; simpl;
    constructor; auto.
Qed.

Lemma Forall2_snoc {A B} (R : A -> B -> Prop) l1 l2 x y :
  Forall2 R l1 l2 -> R x y -> Forall2 R (l1 ++ [x]) (l2 ++ [y]).
Proof. intros H Hxy. apply Forall2_app; auto. Qed.

Lemma Forall_nth_d {A} (P : A -> Prop) l n d : Forall P l -> P d -> P (nth n l d).
Proof.
  intros H Hd. revert n. induction H as [|a l Ha _ IH]; intros [|n]; simpl; auto.
Qed.

Lemma Forall_upd {A} (P : A -> Prop) l n x : Forall P l -> P x -> Forall P (upd n x l).
Proof.
  intros H Hx. revert n. induction H as [|a l Ha Hl IH]; intros [|n]; simpl; constructor; auto.
Qed.
