(* C19 — pointer-level WORLDS: several trees, clones, tombstoned node objects and
   live iterators over ONE heap of node objects.  A node address is a natural
   number handed out by a single global allocator [gnx] (Go: every NewAvlNode /
   every "r := AvlNode{}" of clone() is a fresh object).  Trees are ModelP
   ptrees whose ids ARE heap addresses and whose [p] field is the stored Parent
   pointer; a tree's region of the heap also holds the node objects that Delete
   unlinked ([pdead]: Deleted = true, with the stale Left/Right/Parent they keep
   in Go).  [pcells] / [region] / [heap] flatten a world into address |-> cell.
   No proofs in this file. *)
From Coq Require Import ZArith List Bool.
From ADV Require Import C19.Model C19.ModelP.
Import ListNotations.
Open Scope Z_scope.

(* one AvlNode object: Value, Balance, Deleted, Left, Right, Parent *)
Record cell := { cv : Z; cb : Z; cdel : bool; cl : option nat; cr : option nat; cp : option nat }.

Definition live_cell (l : ptree) (v b : Z) (p : option nat) (r : ptree) : cell :=
  {| cv := v; cb := b; cdel := false; cl := pid l; cr := pid r; cp := p |}.

(* the reachable node objects of a tree, preorder *)
Fixpoint pcells (t : ptree) : list (nat * cell) := match t with
  | PE => []
  | PN id l v b p r => (id, live_cell l v b p r) :: pcells l ++ pcells r end.
Fixpoint pids (t : ptree) : list nat := match t with
  | PE => [] | PN id l _ _ _ r => id :: pids l ++ pids r end.

(* ---- Clone / cloneNode ------------------------------------------------------
   func (obj *AvlNode) clone() *AvlNode {
     if obj == nil { return nil }
     r := AvlNode{}; r = *obj            // fresh object; copies Value, Balance, Deleted, Parent (!)
     r.setLeft (obj.Left .clone())       // r.Left  = fresh copy, copy.Parent = &r
     r.setRight(obj.Right.clone())
     return &r }
   The copy's own Parent field is whatever the SOURCE node stored; for the nodes
   below the root it is overwritten by the caller's setLeft/setRight, for the
   root it stays — a pointer into the source tree unless the source root's
   Parent is nil. *)
Fixpoint pclone (g : nat) (t : ptree) : ptree * nat := match t with
  | PE => (PE, g)
  | PN _ l v b p r =>
    let '(l', g1) := pclone (S g) l in
    let '(r', g2) := pclone g1 r in
    (PN g (setp l' (Some g)) v b p (setp r' (Some g)), g2)
  end.

(* ---- FindNodeLE on the pointer tree ------------------------------------------
   node1 := obj.Root; node1 = nil  (the first store is dead); node2 := obj.Root *)
Fixpoint pfind_le (i : Z) (t : ptree) (best : option (nat * Z)) : option (nat * Z) :=
  match t with
  | PE => best
  | PN id l v _ _ r =>
    let best' := if i <=? v then Some (id, v) else best in
    if i <? v then pfind_le i l best' else if v <? i then pfind_le i r best' else Some (id, v)
  end.
Definition pFindNodeLE (i : Z) (root : ptree) : option (nat * Z) :=
  let node1 := pleftmost root (* any initial value: dead store *) in
  let node1 := @None (nat * Z) in
  pfind_le i root node1.

(* ---- worlds ------------------------------------------------------------------ *)
Record ptstate := { pt : ptree; pdead : list (nat * cell) }.
Record pworld := { ptrees : list ptstate; piters : list iter; gnx : nat }.

Definition pt0 : ptstate := {| pt := PE; pdead := [] |}.
Definition pinit : pworld := {| ptrees := [pt0]; piters := []; gnx := O |}.

Fixpoint lookup (k : nat) (l : list (nat * cell)) : option cell := match l with
  | [] => None | (a, c) :: r => if Nat.eqb a k then Some c else lookup k r end.

(* the node object that delete() flags and unlinks, as it is left behind:
   leaf / one child: "obj.Deleted = true" and nothing else is written to obj (its
   Left/Right/Parent go stale); two children: replace() clears Parent/Right/Left *)
Definition stale_cell (t : ptree) (k : nat) : option cell := match pnode k t with
  | Some (PN _ l v b p r) =>
    Some (match l, r with
          | PN _ _ _ _ _ _, PN _ _ _ _ _ _ =>
              {| cv := v; cb := b; cdel := true; cl := None; cr := None; cp := None |}
          | _, _ => {| cv := v; cb := b; cdel := true; cl := pid l; cr := pid r; cp := p |}
          end)
  | _ => None end.

(* *node  for a pointer held by an iterator of this tree *)
Definition pderef (ts : ptstate) (k : nat) : option cell := match pnode k (pt ts) with
  | Some (PN _ l v b p r) => Some (live_cell l v b p r)
  | _ => lookup k (pdead ts) end.

(* ---- AvlIterator.Next, all three branches, on pointers -----------------------
   if node.Deleted || value != node.Value { re-find by value+1 (or end at MaxInt) }
   else if node.Right != nil { descend } else { climb through STORED parents }
   (branches 2 and 3 are ModelP.psucc).  A pointer that is neither reachable nor
   among the unlinked objects cannot exist in Go; the model treats it like a
   tombstone and Props shows it never arises. *)
Definition pnext (ts : ptstate) (it : iter) : iter := match inode it with
  | None => it
  | Some k =>
    let refind := match pderef ts k with
                  | Some c => cdel c || negb (cv c =? ival it)
                  | None => true end in
    let nxt := if refind
               then (if wrap64 (ival it + 1) <? ival it then None
                     else pFindNodeLE (wrap64 (ival it + 1)) (pt ts))
               else match psucc (pt ts) k with Some x => x | None => None end in
    match nxt with
    | Some (k', v') => {| itree := itree it; inode := Some k'; ival := v' |}
    | None => {| itree := itree it; inode := None; ival := ival it |}
    end
  end.

(* ---- checksum of the heap (compared with Go's real pointers at every step) --- *)
Definition optz (o : option nat) : Z := match o with None => 0 | Some a => Z.of_nat a + 1 end.
Definition cell_hash (h : Z) (a : nat) (c : cell) : Z :=
  (h * 1000003 + Z.of_nat a * 7 + (cv c mod HP) * 13 + (cb c + 2) * 5 + (if cdel c then 3 else 0)
   + optz (cl c) * 11 + optz (cr c) * 17 + optz (cp c) * 19 + 1) mod HP.
Fixpoint live_hash (t : ptree) (h : Z) : Z := match t with
  | PE => h
  | PN id l v b p r => live_hash r (live_hash l (cell_hash h id (live_cell l v b p r))) end.
(* unlinked objects: order-independent sum *)
Definition dead_hash (d : list (nat * cell)) : Z :=
  fold_left (fun s ac => (s + cell_hash 0 (fst ac) (snd ac)) mod HP) d 0.
Definition region_hash (ts : ptstate) : Z := (live_hash (pt ts) 17 * 31 + dead_hash (pdead ts)) mod HP.
Definition iter_hash (h : Z) (it : iter) : Z :=
  (h * 137 + Z.of_nat (itree it) * 3 + optz (inode it) * 5 + (ival it mod HP)) mod HP.
Definition world_hash (w : pworld) : Z :=
  fold_left iter_hash (piters w)
    (fold_left (fun h ts => (h * 131 + region_hash ts) mod HP) (ptrees w) (Z.of_nat (gnx w))).

(* ---- one step; output = (Model's output, heap checksum after the step) ------- *)
Definition pout := (out * Z)%type.

Definition mk_it (t : nat) (p : option (nat * Z)) : iter := match p with
  | Some (k, v) => {| itree := t; inode := Some k; ival := v |}
  | None => {| itree := t; inode := None; ival := 0 |} end.
Definition it_out (it : iter) : out :=
  (match inode it with Some _ => true | None => false end, ival it, 0, []).

Definition pwstep_core (w : pworld) (o : op) : pworld * out :=
  match o with
  | Ins t i =>
    let ts := nth t (ptrees w) pt0 in
    (* AvlTree.Insert: empty root -> NewAvlNode; else Root.insert(i, nil) *)
    let '(t', ok, _, n) := pins i (gnx w) None (pt ts) in
    ({| ptrees := upd t {| pt := t'; pdead := pdead ts |} (ptrees w); piters := piters w; gnx := n |},
     (ok, 0, tree_hash (erase t'), []))
  | Del t i =>
    let ts := nth t (ptrees w) pt0 in
    let '(t', ok, _, d) := pdel i (pt ts) in
    let t'' := if ok then t' else pt ts in
    let dd := match d with
              | Some k => if ok then match stale_cell (pt ts) k with
                                     | Some c => (k, c) :: pdead ts | None => pdead ts end
                          else pdead ts
              | None => pdead ts end in
    ({| ptrees := upd t {| pt := t''; pdead := dd |} (ptrees w); piters := piters w; gnx := gnx w |},
     (ok, 0, tree_hash (erase t''), []))
  | Find t i =>
    let ts := nth t (ptrees w) pt0 in
    (w, (match find i (erase (pt ts)) with Some _ => true | None => false end, 0, 0, []))
  | FindLE t i =>
    let ts := nth t (ptrees w) pt0 in
    (w, match pFindNodeLE i (pt ts) with Some (_, v) => (true, v, 0, []) | None => (false, 0, 0, []) end)
  | Clone t =>
    let ts := nth t (ptrees w) pt0 in
    let '(c, g) := pclone (gnx w) (pt ts) in
    ({| ptrees := ptrees w ++ [{| pt := c; pdead := [] |}]; piters := piters w; gnx := g |},
     (true, 0, tree_hash (erase c), []))
  | ItBegin t =>
    let ts := nth t (ptrees w) pt0 in
    let it := mk_it t (pleftmost (pt ts)) in
    ({| ptrees := ptrees w; piters := piters w ++ [it]; gnx := gnx w |}, it_out it)
  | ItFrom t i =>
    let ts := nth t (ptrees w) pt0 in
    let it := mk_it t (pFindNodeLE i (pt ts)) in
    ({| ptrees := ptrees w; piters := piters w ++ [it]; gnx := gnx w |}, it_out it)
  | ItClone k =>
    let it := nth k (piters w) {| itree := O; inode := None; ival := 0 |} in
    ({| ptrees := ptrees w; piters := piters w ++ [it]; gnx := gnx w |}, it_out it)
  | Next k =>
    let it := nth k (piters w) {| itree := O; inode := None; ival := 0 |} in
    let ts := nth (itree it) (ptrees w) pt0 in
    let it' := pnext ts it in
    ({| ptrees := ptrees w; piters := upd k it' (piters w); gnx := gnx w |}, it_out it')
  | Elems t =>
    let ts := nth t (ptrees w) pt0 in
    (w, (true, height (erase (pt ts)), 0, elements (erase (pt ts))))
  end.

Definition pwstep (w : pworld) (o : op) : pworld * pout :=
  let '(w', x) := pwstep_core w o in (w', (x, world_hash w')).

Fixpoint prun (w : pworld) (ops : list op) : list pout := match ops with
  | [] => []
  | o :: rest => let '(w', x) := pwstep w o in x :: prun w' rest end.

(* ---- the flat heap of a world -------------------------------------------------- *)
Definition region (ts : ptstate) : list (nat * cell) := pcells (pt ts) ++ pdead ts.
Definition heap (w : pworld) : list (nat * cell) := concat (map region (ptrees w)).
Definition addrs (h : list (nat * cell)) : list nat := map fst h.
(* the pointers stored in a cell *)
Definition cell_ptrs (c : cell) : list nat :=
  (match cl c with Some a => [a] | None => [] end) ++
  (match cr c with Some a => [a] | None => [] end) ++
  (match cp c with Some a => [a] | None => [] end).
