(* C19 — statement level: rotateLL and rotateRR (ModelH) are protLL / protRR (ModelP). *)
From Coq Require Import ZArith List Bool Lia.
From ADV Require Import C19.Model C19.ModelP C19.ModelW C19.ModelH C19.ProofsH1.
Import ListNotations.
Open Scope Z_scope.

Lemma rotateLL_exec : forall f fl h io i1 a1l v1 b1 p1 a1r vo bo po a2,
  let t := PN io (PN i1 a1l v1 b1 p1 a1r) vo bo po a2 in
  NoDup (pids t) -> rep h t ->
  exists s', run_method (4 + f) MRotLL (Some io) None fl h = Some s' /\ rep (sh s') (protLL t) /\
     (forall a, ~ In a (pids t) -> sh s' a = h a) /\ sf s' = fl.
Proof.
  intros f fl h io i1 a1l v1 b1 p1 a1r vo bo po a2 t ND R. subst t.
  pose proof (NoDup_cntl _ ND) as C. clear ND.
  destruct a1l as [|ka al av ab ap ar]; destruct a1r as [|kb bl bv bb bp br]; destruct a2 as [|kc cl0 cv0 cb0 cp0 cr0];
  rep_split; unfold run_method; cbn [body plus]; rewrite exec_S; unfold rotateLL_body;
  ne_tops h C; rot_finish h C.
Qed.

Lemma rotateRR_exec : forall f fl h io i1 a1l v1 b1 p1 a1r vo bo po a2,
  let t := PN io a2 vo bo po (PN i1 a1l v1 b1 p1 a1r) in
  NoDup (pids t) -> rep h t ->
  exists s', run_method (4 + f) MRotRR (Some io) None fl h = Some s' /\ rep (sh s') (protRR t) /\
     (forall a, ~ In a (pids t) -> sh s' a = h a) /\ sf s' = fl.
Proof.
  intros f fl h io i1 a1l v1 b1 p1 a1r vo bo po a2 t ND R. subst t.
  pose proof (NoDup_cntl _ ND) as C. clear ND.
  destruct a1l as [|ka al av ab ap ar]; destruct a1r as [|kb bl bv bb bp br]; destruct a2 as [|kc cl0 cv0 cb0 cp0 cr0];
  rep_split; unfold run_method; cbn [body plus]; rewrite exec_S; unfold rotateRR_body;
  ne_tops h C; rot_finish h C.
Qed.
