(* C19 — abstract specification: a world of mathematical sets (strictly
   ascending lists of keys) and set-level iterators.  Short enough to read in
   minutes; the theorems in Props.v say that the model of avl-tree.go refines
   it for every operation history. *)
From Coq Require Import ZArith List Bool Lia Sorted.
From ADV Require Import C19.Model.
Import ListNotations.
Open Scope Z_scope.

(* sets as strictly ascending lists *)
Definition sset (l : list Z) : Prop := StronglySorted Z.lt l.
Fixpoint smem (i : Z) (l : list Z) : bool := match l with
  | [] => false | x :: r => (x =? i) || smem i r end.
Fixpoint sadd (i : Z) (l : list Z) : list Z := match l with
  | [] => [i]
  | x :: r => if i <? x then i :: x :: r else if x <? i then x :: sadd i r else x :: r end.
Fixpoint sdel (i : Z) (l : list Z) : list Z := match l with
  | [] => [] | x :: r => if x =? i then r else x :: sdel i r end.
(* smallest element >= i / > i *)
Definition first_ge (i : Z) (l : list Z) : option Z := List.find (fun x => i <=? x) l.
Definition first_gt (i : Z) (l : list Z) : option Z := List.find (fun x => i <? x) l.

(* the part of an ascending list from its first element >= i on *)
Fixpoint suffix_ge (i : Z) (l : list Z) : list Z := match l with
  | [] => [] | x :: r => if i <=? x then x :: r else suffix_ge i r end.

Record aiter := { atree : nat; aended : bool; aval : Z }.
Record aworld := { asets : list (list Z); aiters : list aiter }.
Definition ainit : aworld := {| asets := [[]]; aiters := [] |}.

(* abstract observation: (flag, value-if-flag, elements) ; the checksum and the
   value reported by a finished iterator are representation details *)
Definition aout := (bool * Z * list Z)%type.

Definition mk_iter (t : nat) (p : option Z) : aiter := match p with
  | Some v => {| atree := t; aended := false; aval := v |}
  | None => {| atree := t; aended := true; aval := 0 |} end.
Definition obs_iter (it : aiter) : aout := (negb (aended it), if aended it then 0 else aval it, []).

Definition anext (s : list Z) (it : aiter) : aiter :=
  if aended it then it else
  match first_gt (aval it) s with
  | Some x => {| atree := atree it; aended := false; aval := x |}
  | None => {| atree := atree it; aended := true; aval := aval it |} end.

Definition astep (w : aworld) (o : op) : aworld * aout :=
  let dit := {| atree := O; aended := true; aval := 0 |} in
  match o with
  | Ins t i => let s := nth t (asets w) [] in
      ({| asets := upd t (sadd i s) (asets w); aiters := aiters w |}, (negb (smem i s), 0, []))
  | Del t i => let s := nth t (asets w) [] in
      ({| asets := upd t (sdel i s) (asets w); aiters := aiters w |}, (smem i s, 0, []))
  | Find t i => (w, (smem i (nth t (asets w) []), 0, []))
  | FindLE t i => (w, match first_ge i (nth t (asets w) []) with
                      | Some v => (true, v, []) | None => (false, 0, []) end)
  | Clone t => ({| asets := asets w ++ [nth t (asets w) []]; aiters := aiters w |}, (true, 0, []))
  | ItBegin t => let it := mk_iter t (hd_error (nth t (asets w) [])) in
      ({| asets := asets w; aiters := aiters w ++ [it] |}, obs_iter it)
  | ItFrom t i => let it := mk_iter t (first_ge i (nth t (asets w) [])) in
      ({| asets := asets w; aiters := aiters w ++ [it] |}, obs_iter it)
  | ItClone k => let it := nth k (aiters w) dit in
      ({| asets := asets w; aiters := aiters w ++ [it] |}, obs_iter it)
  | Next k => let it := nth k (aiters w) dit in
      let it' := anext (nth (atree it) (asets w) []) it in
      ({| asets := asets w; aiters := upd k it' (aiters w) |}, obs_iter it')
  | Elems t => (w, (true, 0, nth t (asets w) []))
  end.

Fixpoint arun (w : aworld) (ops : list op) : list aout := match ops with
  | [] => [] | o :: r => let '(w', x) := astep w o in x :: arun w' r end.

(* projection of a concrete observation onto the abstract one *)
Definition proj (o : op) (x : out) : aout :=
  let '(f, v, _, l) := x in
  match o with
  | Elems _ => (f, 0, l)
  | _ => (f, if f then v else 0, l)
  end.

(* the abstract observations of a concrete run *)
Definition observe (ops : list op) (outs : list out) : list aout :=
  map (fun p => proj (fst p) (snd p)) (combine ops outs).

(* an op list is well-formed when it only names trees / iterators that exist *)
Fixpoint wf_ops (nt ni : nat) (ops : list op) : Prop := match ops with
  | [] => True
  | o :: r => match o with
    | Ins t _ | Del t _ | Find t _ | FindLE t _ | Elems t => (t < nt)%nat /\ wf_ops nt ni r
    | Clone t => (t < nt)%nat /\ wf_ops (S nt) ni r
    | ItBegin t | ItFrom t _ => (t < nt)%nat /\ wf_ops nt (S ni) r
    | ItClone k => (k < ni)%nat /\ wf_ops nt (S ni) r
    | Next k => (k < ni)%nat /\ wf_ops nt ni r
    end end.

(* balance invariant *)
Fixpoint avl (t : tree) : Prop := match t with
  | E => True
  | N _ l _ b r => avl l /\ avl r /\ b = height r - height l /\ -1 <= b <= 1 end.
Definition bst (t : tree) : Prop := sset (elements t).

(* node identities (Go: node objects) of a tree, in preorder *)
Fixpoint ids (t : tree) : list nat := match t with
  | E => [] | N id l _ _ r => id :: ids l ++ ids r end.

(* ---- int64 range of keys; reachable worlds -------------------------------- *)
Definition MINI : Z := -9223372036854775808.
Definition in_range (x : Z) : Prop := MINI <= x <= MAXI.
Definition op_in_range (o : op) : Prop := match o with
  | Ins _ i | Del _ i | Find _ i | FindLE _ i | ItFrom _ i => in_range i
  | _ => True end.
Definition keys_in_range (ops : list op) : Prop := Forall op_in_range ops.
(* worlds reachable from [init] by any sequence of operations with int64 keys
   (no well-formedness of tree / iterator indices is needed) *)
Inductive reach : world -> Prop :=
  | reach_init : reach init
  | reach_step w o : reach w -> op_in_range o -> reach (fst (step w o)).

(* the iterator [nth] falls back to when an index names no iterator *)
Definition dflt_iter : iter := {| itree := O; inode := None; ival := 0 |}.
Definition dflt_aiter : aiter := {| atree := O; aended := true; aval := 0 |}.

(* abstraction of a concrete iterator / world (node identities forgotten) *)
Definition abs_iter (it : iter) : aiter :=
  {| atree := itree it;
     aended := match inode it with None => true | Some _ => false end;
     aval := ival it |}.
Definition abs_world (w : world) : aworld :=
  {| asets := map (fun ts => elements (tr ts)) (trees w); aiters := map abs_iter (iters w) |}.
