(* C19 — insertion refines sadd and keeps the AVL invariant. *)
From Coq Require Import ZArith List Bool Lia Sorted.
From ADV Require Import C19.Model C19.Spec C19.ProofsRot C19.ProofsList C19.ProofsLookup.
Import ListNotations.
Open Scope Z_scope.

#[local] Arguments Z.add : simpl never.
#[local] Arguments Z.sub : simpl never.
#[local] Arguments Z.max : simpl never.
#[local] Arguments Z.opp : simpl never.

Lemma height_nonneg t : 0 <= height t.
Proof. induction t; simpl; lia. Qed.

Lemma ins_N i nx id l v b r :
  ins i nx (N id l v b r) =
    if i <? v then
      let '(l', ok, bd, nx') := ins i nx l in
      if negb ok then (N id l v b r, false, bd, nx') else
      if bd then (N id l' v b r, true, true, nx') else
      if b =? 1 then (N id l' v 0 r, true, true, nx')
      else if b =? 0 then (N id l' v (-1) r, true, false, nx')
      else (if bal_of l' =? -1 then rotLL (N id l' v b r) else rotLR (N id l' v b r),
            true, true, nx')
    else if v <? i then
      let '(r', ok, bd, nx') := ins i nx r in
      if negb ok then (N id l v b r, false, bd, nx') else
      if bd then (N id l v b r', true, true, nx') else
      if b =? -1 then (N id l v 0 r', true, true, nx')
      else if b =? 0 then (N id l v 1 r', true, false, nx')
      else (if bal_of r' =? 1 then rotRR (N id l v b r') else rotRL (N id l v b r'),
            true, true, nx')
    else (N id l v b r, false, true, nx).
Proof. reflexivity. Qed.

(* ---- balance ------------------------------------------------------------- *)
Lemma ins_fix_left id l' v b r :
  avl l' -> avl r -> height l' = height r + 2 -> bal_of l' <> 0 ->
  let t' := if bal_of l' =? -1 then rotLL (N id l' v b r) else rotLR (N id l' v b r) in
  avl t' /\ height t' = height r + 2 /\ bal_of t' = 0.
Proof.
  intros Hl Hr Hh Hb.
  destruct l' as [|i1 a1l v1 b1 a1r]; [simpl in Hb; lia|].
  simpl in Hl, Hh, Hb. destruct Hl as (Ha1l & Ha1r & Hb1 & Hr1).
  pose proof (height_nonneg a1l). pose proof (height_nonneg a1r). pose proof (height_nonneg r).
  simpl bal_of. destruct (Z.eqb_spec b1 (-1)) as [Hm|Hm].
  - simpl. repeat split; auto; lia.
  - destruct a1r as [|i2 a2l v2 b2 a2r]; [simpl in *; lia|].
    simpl in Ha1r, Hb1, Hh. destruct Ha1r as (Ha2l & Ha2r & Hb2 & Hr2).
    pose proof (height_nonneg a2l). pose proof (height_nonneg a2r).
    simpl. destruct (Z.eqb_spec b2 1), (Z.eqb_spec b2 (-1)); repeat split; auto; lia.
Qed.

Lemma ins_fix_right id l v b r' :
  avl l -> avl r' -> height r' = height l + 2 -> bal_of r' <> 0 ->
  let t' := if bal_of r' =? 1 then rotRR (N id l v b r') else rotRL (N id l v b r') in
  avl t' /\ height t' = height l + 2 /\ bal_of t' = 0.
Proof.
  intros Hl Hr Hh Hb.
  destruct r' as [|i1 a1l v1 b1 a1r]; [simpl in Hb; lia|].
  simpl in Hr, Hh, Hb. destruct Hr as (Ha1l & Ha1r & Hb1 & Hr1).
  pose proof (height_nonneg a1l). pose proof (height_nonneg a1r). pose proof (height_nonneg l).
  simpl bal_of. destruct (Z.eqb_spec b1 1) as [Hm|Hm].
  - simpl. repeat split; auto; lia.
  - destruct a1l as [|i2 a2l v2 b2 a2r]; [simpl in *; lia|].
    simpl in Ha1l, Hb1, Hh. destruct Ha1l as (Ha2l & Ha2r & Hb2 & Hr2).
    pose proof (height_nonneg a2l). pose proof (height_nonneg a2r).
    simpl. destruct (Z.eqb_spec b2 1), (Z.eqb_spec b2 (-1)); repeat split; auto; lia.
Qed.

(* ---- elements ------------------------------------------------------------ *)
Opaque rotLL rotLR rotRR rotRL.
Lemma ins_elements i : forall t nx t' ok bd nx',
  bst t -> ins i nx t = (t', ok, bd, nx') ->
  ok = negb (smem i (elements t)) /\
  elements t' = (if ok then sadd i (elements t) else elements t).
Proof.
  induction t as [|id l IHl v b r IHr]; intros nx t' ok bd nx' Hb.
  - simpl. intro H. injection H as ? ? ? ?; subst. simpl. auto.
  - rewrite ins_N. apply bst_node in Hb. destruct Hb as (Hl & Hr & Hlv & Hvr).
    change (elements (N id l v b r)) with (elements l ++ v :: elements r).
    rewrite smem_app. simpl smem.
    destruct (Z.ltb_spec i v) as [Hiv|Hiv].
    + destruct (ins i nx l) as [[[l' ok1] bd1] nx1] eqn:E.
      destruct (IHl _ _ _ _ _ Hl E) as [Hok Hel].
      assert (Hn : smem i (elements r) = false).
      { apply smem_false_gt. eapply Forall_impl; [|exact Hvr]. simpl; intros; lia. }
      rewrite Hn. destruct (Z.eqb_spec v i); [lia|]. simpl orb. rewrite orb_false_r.
      rewrite (sadd_app_lt i _ v _ Hiv).
      destruct ok1; simpl negb.
      * assert (He : forall t1, elements t1 = elements l' ++ v :: elements r ->
                       true = negb (smem i (elements l)) /\
                       elements t1 = sadd i (elements l) ++ v :: elements r).
        { intros t1 ->. rewrite Hel. auto. }
        destruct bd1; [|destruct (b =? 1); [|destruct (b =? 0); [|destruct (bal_of l' =? -1)]]];
          intro H; injection H as ? ? ? ?; subst; apply He;
          rewrite ?rotLL_elements, ?rotLR_elements; reflexivity.
      * intro H. injection H as ? ? ? ?; subst. auto.
    + destruct (Z.ltb_spec v i) as [Hvi|Hvi].
      * destruct (ins i nx r) as [[[r' ok1] bd1] nx1] eqn:E.
        destruct (IHr _ _ _ _ _ Hr E) as [Hok Hel].
        assert (Hn : smem i (elements l) = false).
        { apply smem_false_lt. eapply Forall_impl; [|exact Hlv]. simpl; intros; lia. }
        rewrite Hn. destruct (Z.eqb_spec v i); [lia|]. simpl orb.
        rewrite (sadd_app_gt i _ v _ Hvi Hlv).
        destruct ok1; simpl negb.
        -- assert (He : forall t1, elements t1 = elements l ++ v :: elements r' ->
                         true = negb (smem i (elements r)) /\
                         elements t1 = elements l ++ v :: sadd i (elements r)).
           { intros t1 ->. rewrite Hel. auto. }
           destruct bd1; [|destruct (b =? -1); [|destruct (b =? 0); [|destruct (bal_of r' =? 1)]]];
             intro H; injection H as ? ? ? ?; subst; apply He;
             rewrite ?rotRR_elements, ?rotRL_elements; reflexivity.
        -- intro H. injection H as ? ? ? ?; subst. auto.
      * assert (v = i) by lia. subst v. rewrite Z.eqb_refl.
        intro H. injection H as ? ? ? ?; subst. rewrite orb_true_r. auto.
Qed.

Lemma ins_avl i : forall t nx t' ok bd nx',
  avl t -> ins i nx t = (t', ok, bd, nx') ->
  avl t' /\ height t' = height t + (if ok && negb bd then 1 else 0) /\
  (ok = false -> t' = t /\ bd = true) /\
  (ok = true -> bd = false -> t = E \/ bal_of t' <> 0).
Proof.
  induction t as [|id l IHl v b r IHr]; intros nx t' ok bd nx' Ha.
  - simpl. intro H. injection H as ? ? ? ?; subst. simpl. repeat split; auto; try lia; discriminate.
  - rewrite ins_N. simpl in Ha. destruct Ha as (Hl & Hr & Hb & Hrng).
    pose proof (height_nonneg l) as Hnl. pose proof (height_nonneg r) as Hnr.
    destruct (Z.ltb_spec i v) as [Hiv|Hiv].
    + destruct (ins i nx l) as [[[l' ok1] bd1] nx1] eqn:E.
      destruct (IHl _ _ _ _ _ Hl E) as (Hl' & Hh & Hno & Hgrow). clear IHl IHr.
      destruct ok1; simpl negb; cbv iota.
      * destruct bd1.
        { intro H. injection H as ? ? ? ?; subst. simpl in *.
          repeat split; auto; try lia; discriminate. }
        destruct (Z.eqb_spec b 1) as [Hb1|Hb1].
        { intro H. injection H as ? ? ? ?; subst. simpl in *.
          repeat split; auto; try lia; discriminate. }
        destruct (Z.eqb_spec b 0) as [Hb0|Hb0].
        { intro H. injection H as ? ? ? ?; subst. simpl in *.
          repeat split; auto; try lia; try discriminate. }
        intro H. injection H as ? ? ? ?; subst.
        simpl in Hh.
        assert (Hbl : bal_of l' <> 0).
        { destruct (Hgrow eq_refl eq_refl) as [->|]; auto. simpl in *. lia. }
        destruct (ins_fix_left id l' v (height r - height l) r Hl' Hr ltac:(lia) Hbl) as (A1 & A2 & A3).
        split; [exact A1|]. split; [rewrite A2; simpl; lia|].
        split; [discriminate|]. intros _ H0; discriminate H0.
      * destruct (Hno eq_refl) as [-> ->].
        intro H. injection H as ? ? ? ?; subst. simpl. repeat split; auto; try lia; discriminate.
    + destruct (Z.ltb_spec v i) as [Hvi|Hvi].
      * destruct (ins i nx r) as [[[r' ok1] bd1] nx1] eqn:E.
        destruct (IHr _ _ _ _ _ Hr E) as (Hr' & Hh & Hno & Hgrow). clear IHl IHr.
        destruct ok1; simpl negb; cbv iota.
        -- destruct bd1.
           { intro H. injection H as ? ? ? ?; subst. simpl in *.
             repeat split; auto; try lia; discriminate. }
           destruct (Z.eqb_spec b (-1)) as [Hb1|Hb1].
           { intro H. injection H as ? ? ? ?; subst. simpl in *.
             repeat split; auto; try lia; discriminate. }
           destruct (Z.eqb_spec b 0) as [Hb0|Hb0].
           { intro H. injection H as ? ? ? ?; subst. simpl in *.
             repeat split; auto; try lia; try discriminate. }
           intro H. injection H as ? ? ? ?; subst.
           simpl in Hh.
           assert (Hbl : bal_of r' <> 0).
           { destruct (Hgrow eq_refl eq_refl) as [->|]; auto. simpl in *. lia. }
           destruct (ins_fix_right id l v (height r - height l) r' Hl Hr' ltac:(lia) Hbl) as (A1 & A2 & A3).
           split; [exact A1|]. split; [rewrite A2; simpl; lia|].
           split; [discriminate|]. intros _ H0; discriminate H0.
        -- destruct (Hno eq_refl) as [-> ->].
           intro H. injection H as ? ? ? ?; subst. simpl. repeat split; auto; try lia; discriminate.
      * intro H. injection H as ? ? ? ?; subst. simpl. repeat split; auto; try lia; discriminate.
Qed.

(* ---- T1 ------------------------------------------------------------------ *)
Lemma ins_refines_lemma : forall i nx t,
  avl t -> bst t ->
  let '(t', ok, bd, nx') := ins i nx t in
  avl t' /\ bst t' /\ ok = negb (smem i (elements t)) /\
  elements t' = (if ok then sadd i (elements t) else elements t) /\
  height t' = height t + (if ok && negb bd then 1 else 0).
Proof.
  intros i nx t Ha Hb.
  destruct (ins i nx t) as [[[t' ok] bd] nx'] eqn:E.
  destruct (ins_avl i t nx t' ok bd nx' Ha E) as (A1 & A2 & _ & _).
  destruct (ins_elements i t nx t' ok bd nx' Hb E) as (B1 & B2).
  repeat split; auto.
  unfold bst. rewrite B2. destruct ok; [apply sadd_sset|]; exact Hb.
Qed.

Transparent rotLL rotLR rotRR rotRL.
