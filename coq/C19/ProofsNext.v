(* C19 — the iterator's successor walk through STORED parent pointers (ModelP.psucc,
   a transliteration of branches 2 and 3 of AvlIterator.Next) computes the same
   node as the structural successor Model.succ_of used by the world model. *)
From Coq Require Import ZArith List Bool Lia Arith.
From ADV Require Import C19.Model C19.ModelP C19.Spec C19.ProofsList C19.ProofsLookup C19.ProofsIns
  C19.ProofsDel C19.ProofsRun C19.ProofsIter C19.ProofsIds C19.ProofsPar.
Import ListNotations.
Open Scope Z_scope.

Definition distinct (t : ptree) : Prop := forall j, (cnt j (erase t) <= 1)%nat.

(* follow a path (false = left, true = right) from [t]; carries the structural
   parent id and the [anc] argument of succ_of *)
Fixpoint walk (path : list bool) (t : ptree) (par : option nat) (a : option (nat * Z))
  : option (ptree * option nat * option (nat * Z)) :=
  match path with
  | [] => Some (t, par, a)
  | b :: rest =>
    match t with
    | PE => None
    | PN id l v _ _ r =>
      if b then walk rest r (Some id) a else walk rest l (Some id) (Some (id, v))
    end
  end.

Lemma walk_app p1 : forall p2 t par a,
  walk (p1 ++ p2) t par a =
  match walk p1 t par a with Some (t', par', a') => walk p2 t' par' a' | None => None end.
Proof.
  induction p1 as [|b p1 IH]; intros p2 t par a; [reflexivity|].
  simpl. destruct t as [|id l v bb p r]; [reflexivity|]. destruct b; apply IH.
Qed.

Lemma walk_cnt path : forall t par a s ps a',
  walk path t par a = Some (s, ps, a') -> forall j, (cnt j (erase s) <= cnt j (erase t))%nat.
Proof.
  induction path as [|b path IH]; intros t par a s ps a' H j.
  - simpl in H. injection H as ? ? ?; subst. lia.
  - destruct t as [|id l v bb p r]; [discriminate|]. simpl in H.
    destruct b; specialize (IH _ _ _ _ _ _ H j); simpl; lia.
Qed.

Lemma walk_distinct path t par a s ps a' :
  distinct t -> walk path t par a = Some (s, ps, a') -> distinct s.
Proof. intros Hd H j. pose proof (walk_cnt _ _ _ _ _ _ _ H j). specialize (Hd j). lia. Qed.

Lemma walk_pwf path : forall t par a s ps a',
  pwf par t -> walk path t par a = Some (s, ps, a') -> pwf ps s.
Proof.
  induction path as [|b path IH]; intros t par a s ps a' Hw H.
  - simpl in H. injection H as ? ? ?; subst. exact Hw.
  - destruct t as [|id l v bb p r]; [discriminate|]. simpl in H. destruct Hw as (_ & Hl & Hr).
    destruct b; [exact (IH _ _ _ _ _ _ Hr H)|exact (IH _ _ _ _ _ _ Hl H)].
Qed.

Lemma walk_len path : forall t par a s ps a',
  walk path t par a = Some (s, ps, a') -> (length path + psize s <= psize t)%nat.
Proof.
  induction path as [|b path IH]; intros t par a s ps a' H.
  - simpl in H. injection H as ? ? ?; subst. simpl. lia.
  - destruct t as [|id l v bb p r]; [discriminate|]. simpl in H.
    destruct b; specialize (IH _ _ _ _ _ _ H); simpl; lia.
Qed.

Lemma pnode_none k t : pnode k t = None <-> cnt k (erase t) = O.
Proof.
  induction t as [|id l IHl v b p r IHr]; simpl; [tauto|].
  destruct (Nat.eqb id k).
  - split; [discriminate|lia].
  - destruct (pnode k l) as [x|].
    + split; [discriminate|]. intro H. assert (H0 : cnt k (erase l) = O) by lia.
      apply IHl in H0. discriminate.
    + rewrite IHr. destruct IHl as [IHl _]. specialize (IHl eq_refl). lia.
Qed.

Lemma cnt_top k l v b p r : (1 <= cnt k (erase (PN k l v b p r)))%nat.
Proof. simpl. rewrite Nat.eqb_refl. lia. Qed.

(* in a tree with distinct ids the node reached by a path is the node found by id *)
Lemma walk_pnode path : forall t par a k l v b p r ps a',
  distinct t -> walk path t par a = Some (PN k l v b p r, ps, a') ->
  pnode k t = Some (PN k l v b p r).
Proof.
  induction path as [|c path IH]; intros t par a k l v b p r ps a' Hd H.
  - simpl in H. injection H as ? ? ?; subst. simpl. rewrite Nat.eqb_refl. reflexivity.
  - destruct t as [|id tl tv tb tp tr]; [discriminate|]. simpl in H.
    pose proof (Hd k) as Hk. simpl in Hk.
    pose proof (cnt_top k l v b p r) as Hs.
    destruct c.
    + pose proof (walk_cnt _ _ _ _ _ _ _ H k) as Hc.
      assert (Hne : Nat.eqb id k = false) by (destruct (Nat.eqb id k); [lia|reflexivity]).
      simpl. rewrite Hne.
      assert (Hl0 : cnt k (erase tl) = O) by (rewrite Hne in Hk; lia).
      apply pnode_none in Hl0. rewrite Hl0.
      eapply IH; [|exact H]. intro j. specialize (Hd j). simpl in Hd. lia.
    + pose proof (walk_cnt _ _ _ _ _ _ _ H k) as Hc.
      assert (Hne : Nat.eqb id k = false) by (destruct (Nat.eqb id k); [lia|reflexivity]).
      simpl. rewrite Hne.
      assert (Hdl : distinct tl) by (intro j; specialize (Hd j); simpl in Hd; lia).
      rewrite (IH tl (Some id) (Some (id, tv)) k l v b p r ps a' Hdl H). reflexivity.
Qed.

Lemma pnode_walk : forall t k s par a,
  pnode k t = Some s ->
  exists path ps a', walk path t par a = Some (s, ps, a') /\ pid s = Some k.
Proof.
  induction t as [|id l IHl v b p r IHr]; intros k s par a; simpl; [discriminate|].
  destruct (Nat.eqb_spec id k) as [->|Hne].
  - intro H. injection H as <-. exists [], par, a. split; reflexivity.
  - destruct (pnode k l) as [x|] eqn:El.
    + intro H. injection H as <-.
      destruct (IHl k x (Some id) (Some (id, v)) El) as (path & ps & a' & Hw & Hi).
      exists (false :: path), ps, a'. split; [exact Hw|exact Hi].
    + intro H. destruct (IHr k s (Some id) a H) as (path & ps & a' & Hw & Hi).
      exists (true :: path), ps, a'. split; [exact Hw|exact Hi].
Qed.

Lemma pleftmost_erase t : pleftmost t = leftmost (erase t).
Proof.
  induction t as [|id l IHl v b p r _]; [reflexivity|].
  destruct l as [|i1 l1 v1 b1 p1 r1]; [reflexivity|]. exact IHl.
Qed.

Lemma leftmost_some t : t <> E -> leftmost t <> None.
Proof.
  induction t as [|id l IHl v b r _]; [congruence|]. intros _.
  destruct l as [|i1 l1 v1 b1 r1]; [discriminate|].
  change (leftmost (N id (N i1 l1 v1 b1 r1) v b r)) with (leftmost (N i1 l1 v1 b1 r1)).
  apply IHl. discriminate.
Qed.

(* ---- structural successor of the node reached by a path ------------------- *)
Lemma succ_walk path : forall t par a k l v b p r ps a',
  distinct t -> walk path t par a = Some (PN k l v b p r, ps, a') ->
  succ_of k (erase t) a =
  Some (match leftmost (erase r) with Some x => Some x | None => a' end).
Proof.
  induction path as [|c path IH]; intros t par a k l v b p r ps a' Hd H.
  - simpl in H. injection H as ? ? ?; subst. simpl. rewrite Nat.eqb_refl. reflexivity.
  - destruct t as [|id tl tv tb tp tr]; [discriminate|]. simpl in H.
    pose proof (Hd k) as Hk. simpl in Hk.
    pose proof (cnt_top k l v b p r) as Hs.
    destruct c.
    + pose proof (walk_cnt _ _ _ _ _ _ _ H k) as Hc.
      assert (Hne : Nat.eqb id k = false) by (destruct (Nat.eqb id k); [lia|reflexivity]).
      simpl. rewrite Hne. rewrite Hne in Hk.
      assert (Hl0 : cnt k (erase tl) = O) by lia.
      apply value_at_none_cnt in Hl0. rewrite (succ_of_none k (erase tl) _ Hl0).
      eapply IH; [|exact H]. intro j. specialize (Hd j). simpl in Hd. lia.
    + pose proof (walk_cnt _ _ _ _ _ _ _ H k) as Hc.
      assert (Hne : Nat.eqb id k = false) by (destruct (Nat.eqb id k); [lia|reflexivity]).
      simpl. rewrite Hne.
      assert (Hdl : distinct tl) by (intro j; specialize (Hd j); simpl in Hd; lia).
      rewrite (IH tl (Some id) (Some (id, tv)) k l v b p r ps a' Hdl H). reflexivity.
Qed.

(* ---- the climb through stored parents ------------------------------------- *)
Lemma climb_walk R : pwf None R -> distinct R ->
  forall path k l v b p r ps a,
  walk path R None None = Some (PN k l v b p r, ps, a) ->
  forall fuel, (length path < fuel)%nat -> pclimb fuel R k = Some a.
Proof.
  intros Hw Hd. induction path as [|c path IH] using rev_ind; intros k l v b p r ps a H fuel Hf.
  - simpl in H. injection H as ? ? ?; subst. destruct fuel as [|f]; [simpl in Hf; lia|].
    simpl in Hw. destruct Hw as (-> & _). simpl. rewrite Nat.eqb_refl. reflexivity.
  - pose proof (walk_pwf _ _ _ _ _ _ _ Hw H) as Hs. simpl in Hs. destruct Hs as (Hp & _).
    pose proof (walk_pnode _ _ _ _ _ _ _ _ _ _ _ _ Hd H) as Hn.
    rewrite walk_app in H.
    destruct (walk path R None None) as [[[P pp] pa]|] eqn:Ew; [|discriminate].
    destruct P as [|id pl pv pb ppar pr]; [discriminate|].
    pose proof (walk_pnode _ _ _ _ _ _ _ _ _ _ _ _ Hd Ew) as HnP.
    pose proof (walk_distinct _ _ _ _ _ _ _ Hd Ew) as HdP.
    rewrite app_length in Hf. simpl in Hf.
    destruct fuel as [|f]; [lia|].
    cbn [pclimb]. rewrite Hn.
    simpl in H. destruct c; injection H as ? ? ?; subst.
    + (* we are the right child: keep climbing *)
      rewrite HnP. cbn [pid]. rewrite Nat.eqb_refl.
      eapply IH; [reflexivity|lia].
    + (* we are the left child: the parent is the successor *)
      rewrite HnP.
      assert (Hr : (match pid pr with Some rk => Nat.eqb rk k | None => false end) = false).
      { destruct pr as [|rk rl rv rb rp rr]; [reflexivity|]. simpl.
        destruct (Nat.eqb_spec rk k) as [->|]; [|reflexivity].
        specialize (HdP k). simpl in HdP. rewrite !Nat.eqb_refl in HdP. lia. }
      rewrite Hr. reflexivity.
Qed.

Lemma psucc_spec R k :
  pwf None R -> distinct R -> psucc R k = succ_of k (erase R) None.
Proof.
  intros Hw Hd. unfold psucc. destruct (pnode k R) as [s|] eqn:Ep.
  - destruct (pnode_walk R k s None None Ep) as (path & ps & a' & Hwk & Hid).
    destruct s as [|k' l v b p r]; [discriminate|]. simpl in Hid. injection Hid as ->.
    rewrite (succ_walk _ _ _ _ _ _ _ _ _ _ _ _ Hd Hwk).
    destruct r as [|ri rl rv rb rp rr].
    + simpl leftmost. apply (climb_walk R Hw Hd path k l v b p PE ps a' Hwk).
      pose proof (walk_len _ _ _ _ _ _ _ Hwk) as HL. simpl in HL. lia.
    + rewrite pleftmost_erase. f_equal.
      destruct (leftmost (erase (PN ri rl rv rb rp rr))) as [x|] eqn:El; [reflexivity|].
      exfalso. revert El. apply leftmost_some. discriminate.
  - apply pnode_none in Ep. apply value_at_none_cnt in Ep.
    symmetry. apply succ_of_none. exact Ep.
Qed.

(* ---- for all Insert/Delete histories -------------------------------------- *)
Lemma fold_widinv : forall ops w,
  widinv w -> widinv (fold_left (fun w o => fst (step w o)) ops w).
Proof. induction ops as [|o ops IH]; intros w H; simpl; [exact H|]. apply IH, step_ids, H. Qed.

Lemma pointer_next_lemma : forall ops k,
  let s := fold_left pstep ops (PE, O) in
  psucc (fst s) k = succ_of k (erase (fst s)) None.
Proof.
  intros ops k. cbv zeta.
  destruct (stored_parents_lemma ops) as [Hw He].
  apply psucc_spec; [exact Hw|].
  assert (L0 : (0 < length (trees init))%nat) by (simpl; lia).
  destruct (tree0_mstep ops init L0) as [_ Ht]. cbv zeta in Ht. simpl nth in Ht at 3 4.
  change (tr t0) with E in Ht. change (nx t0) with O in Ht.
  rewrite <- He in Ht. injection Ht as Ht _.
  pose proof (fold_widinv (map to_op ops) init widinv_init) as [Hti _].
  pose proof (Forall_nth_d tid _ 0 t0 Hti tid_t0) as (T1 & _).
  intro j. rewrite <- Ht. apply T1.
Qed.
