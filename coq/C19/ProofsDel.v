(* C19 — deletion (delete / deleteRec+replace / balance1 / balance2) refines
   sdel and keeps the AVL invariant. *)
From Coq Require Import ZArith List Bool Lia Sorted.
From ADV Require Import C19.Model C19.Spec C19.ProofsRot C19.ProofsList C19.ProofsLookup C19.ProofsIns.
Import ListNotations.
Open Scope Z_scope.

#[local] Arguments Z.add : simpl never.
#[local] Arguments Z.sub : simpl never.
#[local] Arguments Z.max : simpl never.
#[local] Arguments Z.opp : simpl never.

(* ---- balance1: the left subtree of [t] became shorter by one -------------- *)
Lemma balance1_spec id l v b r :
  avl l -> avl r -> -1 <= b <= 1 -> height r - height l = b + 1 ->
  avl (fst (balance1 (N id l v b r))) /\
  elements (fst (balance1 (N id l v b r))) = elements l ++ v :: elements r /\
  height (fst (balance1 (N id l v b r))) =
    1 + Z.max (height l + 1) (height r) - (if snd (balance1 (N id l v b r)) then 0 else 1).
Proof.
  intros Hl Hr Hb Hh.
  pose proof (height_nonneg l) as Hnl. pose proof (height_nonneg r) as Hnr.
  unfold balance1.
  destruct (Z.eqb_spec b (-1)) as [E1|E1]; [simpl; repeat split; auto; lia|].
  destruct (Z.eqb_spec b 0) as [E0|E0]; [simpl; repeat split; auto; lia|].
  assert (b = 1) by lia. subst b. clear E1 E0 Hb.
  destruct r as [|i1 a1l v1 b1 a1r]; [simpl in Hh; lia|].
  simpl in Hr, Hh. destruct Hr as (Ha1l & Ha1r & Hb1 & Hr1).
  pose proof (height_nonneg a1l). pose proof (height_nonneg a1r).
  simpl bal_of.
  destruct (Z.leb_spec 0 b1) as [Hge|Hlt].
  - destruct (Z.eqb_spec b1 0) as [Hz|Hz]; simpl; rewrite <- ?app_assoc; simpl;
      repeat split; auto; lia.
  - destruct a1l as [|i2 a2l v2 b2 a2r]; [simpl in *; lia|].
    simpl in Ha1l, Hb1, Hh. destruct Ha1l as (Ha2l & Ha2r & Hb2 & Hr2).
    pose proof (height_nonneg a2l). pose proof (height_nonneg a2r).
    simpl. repeat (rewrite <- app_assoc; simpl).
    destruct (Z.eqb_spec b2 1), (Z.eqb_spec b2 (-1)); repeat split; auto; lia.
Qed.

(* ---- balance2: the right subtree of [t] became shorter by one ------------- *)
Lemma balance2_spec id l v b r :
  avl l -> avl r -> -1 <= b <= 1 -> height r - height l = b - 1 ->
  avl (fst (balance2 (N id l v b r))) /\
  elements (fst (balance2 (N id l v b r))) = elements l ++ v :: elements r /\
  height (fst (balance2 (N id l v b r))) =
    1 + Z.max (height l) (height r + 1) - (if snd (balance2 (N id l v b r)) then 0 else 1).
Proof.
  intros Hl Hr Hb Hh.
  pose proof (height_nonneg l) as Hnl. pose proof (height_nonneg r) as Hnr.
  unfold balance2.
  destruct (Z.eqb_spec b 1) as [E1|E1]; [simpl; repeat split; auto; lia|].
  destruct (Z.eqb_spec b 0) as [E0|E0]; [simpl; repeat split; auto; lia|].
  assert (b = -1) by lia. subst b. clear E1 E0 Hb.
  destruct l as [|i1 a1l v1 b1 a1r]; [simpl in Hh; lia|].
  simpl in Hl, Hh. destruct Hl as (Ha1l & Ha1r & Hb1 & Hr1).
  pose proof (height_nonneg a1l). pose proof (height_nonneg a1r).
  simpl bal_of.
  destruct (Z.leb_spec b1 0) as [Hge|Hlt].
  - destruct (Z.eqb_spec b1 0) as [Hz|Hz]; simpl; rewrite <- ?app_assoc; simpl;
      repeat split; auto; lia.
  - destruct a1r as [|i2 a2l v2 b2 a2r]; [simpl in *; lia|].
    simpl in Ha1r, Hb1, Hh. destruct Ha1r as (Ha2l & Ha2r & Hb2 & Hr2).
    pose proof (height_nonneg a2l). pose proof (height_nonneg a2r).
    simpl. repeat (rewrite <- app_assoc; simpl).
    destruct (Z.eqb_spec b2 1), (Z.eqb_spec b2 (-1)); repeat split; auto; lia.
Qed.

(* ---- membership / removal in a BST-shaped list --------------------------- *)
Lemma smem_node_lt i l v r :
  i < v -> Forall (fun x => v < x) r -> smem i (l ++ v :: r) = smem i l.
Proof.
  intros Hiv Hr. rewrite smem_app. simpl.
  destruct (Z.eqb_spec v i); [lia|]. rewrite (smem_false_gt i r).
  - rewrite orb_false_r. reflexivity.
  - eapply Forall_impl; [|exact Hr]. simpl; intros; lia.
Qed.
Lemma smem_node_gt i l v r :
  v < i -> Forall (fun x => x < v) l -> smem i (l ++ v :: r) = smem i r.
Proof.
  intros Hiv Hl. rewrite smem_app. simpl.
  destruct (Z.eqb_spec v i); [lia|]. rewrite (smem_false_lt i l).
  - reflexivity.
  - eapply Forall_impl; [|exact Hl]. simpl; intros; lia.
Qed.
Lemma smem_node_eq v l r : smem v (l ++ v :: r) = true.
Proof. rewrite smem_app. simpl. rewrite Z.eqb_refl. simpl. apply orb_true_r. Qed.

Lemma sdel_node_lt i l v r :
  i < v -> Forall (fun x => v < x) r -> sdel i (l ++ v :: r) = sdel i l ++ v :: r.
Proof.
  intros Hiv Hr. rewrite sdel_app. destruct (smem i l) eqn:Em; [reflexivity|].
  rewrite (sdel_notin i l Em). simpl. destruct (Z.eqb_spec v i); [lia|].
  rewrite sdel_notin; [reflexivity|]. apply smem_false_gt.
  eapply Forall_impl; [|exact Hr]. simpl; intros; lia.
Qed.
Lemma sdel_node_gt i l v r :
  v < i -> Forall (fun x => x < v) l -> sdel i (l ++ v :: r) = l ++ v :: sdel i r.
Proof.
  intros Hiv Hl. rewrite sdel_app. rewrite (smem_false_lt i l).
  - simpl. destruct (Z.eqb_spec v i); [lia|]. reflexivity.
  - eapply Forall_impl; [|exact Hl]. simpl; intros; lia.
Qed.
Lemma sdel_node_eq v l r :
  Forall (fun x => x < v) l -> sdel v (l ++ v :: r) = l ++ r.
Proof.
  intros Hl. rewrite sdel_app. rewrite (smem_false_lt v l Hl).
  simpl. rewrite Z.eqb_refl. reflexivity.
Qed.

(* ---- deleteRec + replace: extract the right-most node --------------------- *)
Lemma delmax_N id l v b r :
  r <> E ->
  delmax (N id l v b r) =
    let '(r', mi, mv, bd) := delmax r in
    let t1 := N id l v b r' in
    if bd then (t1, mi, mv, true)
    else let '(t2, bd2) := balance2 t1 in (t2, mi, mv, bd2).
Proof. destruct r; [congruence|reflexivity]. Qed.

Lemma tree_E_dec (t : tree) : t = E \/ t <> E.
Proof. destruct t; [left; reflexivity|right; discriminate]. Qed.

Lemma delmax_spec : forall t t' mi mv bd,
  t <> E -> avl t -> delmax t = (t', mi, mv, bd) ->
  avl t' /\ elements t = elements t' ++ [mv] /\
  height t' = height t - (if bd then 0 else 1).
Proof.
  induction t as [|id l _ v b r IHr]; intros t' mi mv bd Hne Ha; [congruence|].
  simpl in Ha. destruct Ha as (Hl & Hr & Hb & Hrng).
  pose proof (height_nonneg l) as Hnl. pose proof (height_nonneg r) as Hnr.
  destruct (tree_E_dec r) as [->|Hre].
  - simpl. intro H. injection H as ? ? ? ?; subst. simpl in *.
    repeat split; auto; lia.
  - rewrite (delmax_N id l v b r Hre).
    destruct (delmax r) as [[[r' mi1] mv1] bd1] eqn:Ed.
    destruct (IHr _ _ _ _ Hre Hr eq_refl) as (Hr' & Hel & Hh). clear IHr.
    cbv zeta. destruct bd1.
    + intro H. injection H as ? ? ? ?; subst.
      simpl. rewrite Hel, <- app_assoc. simpl.
      repeat split; auto; lia.
    + pose proof (balance2_spec id l v b r' Hl Hr' Hrng ltac:(lia)) as (B1 & B2 & B3).
      destruct (balance2 (N id l v b r')) as [t2 bd2]. simpl fst in *; simpl snd in *.
      intro H. injection H as ? ? ? ?; subst.
      split; [exact B1|]. split.
      * rewrite B2. simpl. rewrite Hel, <- app_assoc. reflexivity.
      * rewrite B3. simpl. destruct bd; lia.
Qed.

(* ---- delete --------------------------------------------------------------- *)
Lemma del_N_lt i id l v b r :
  i < v ->
  del i (N id l v b r) =
    let '(l', ok, bd, d) := del i l in
    let t1 := if ok then N id l' v b r else N id l v b r in
    if bd then (t1, ok, true, d)
    else let '(t2, bd2) := balance1 t1 in (t2, ok, bd2, d).
Proof. intro H. simpl. destruct (Z.ltb_spec i v); [reflexivity|lia]. Qed.

Lemma del_N_gt i id l v b r :
  v < i ->
  del i (N id l v b r) =
    let '(r', ok, bd, d) := del i r in
    let t1 := if ok then N id l v b r' else N id l v b r in
    if bd then (t1, ok, true, d)
    else let '(t2, bd2) := balance2 t1 in (t2, ok, bd2, d).
Proof.
  intro H. simpl. destruct (Z.ltb_spec i v); [lia|].
  destruct (Z.ltb_spec v i); [reflexivity|lia].
Qed.

Lemma del_N_eq_EE id v b : del v (N id E v b E) = (E, true, false, Some id).
Proof. simpl. rewrite Z.ltb_irrefl. reflexivity. Qed.
Lemma del_N_eq_LE id l v b : l <> E -> del v (N id l v b E) = (l, true, false, Some id).
Proof. intro H. destruct l; [congruence|]. simpl. rewrite Z.ltb_irrefl. reflexivity. Qed.
Lemma del_N_eq_ER id v b r : r <> E -> del v (N id E v b r) = (r, true, false, Some id).
Proof. intro H. destruct r; [congruence|]. simpl. rewrite Z.ltb_irrefl. reflexivity. Qed.
Lemma del_N_eq_LR id l v b r :
  l <> E -> r <> E ->
  del v (N id l v b r) =
    let '(l', mi, mv, bd) := delmax l in
    let t1 := N mi l' mv b r in
    if bd then (t1, true, true, Some id)
    else let '(t2, bd2) := balance1 t1 in (t2, true, bd2, Some id).
Proof.
  intros Hl Hr. destruct l; [congruence|]. destruct r; [congruence|].
  cbn [del]. rewrite Z.ltb_irrefl. reflexivity.
Qed.

Lemma del_spec i : forall t t' ok bd d,
  avl t -> bst t -> del i t = (t', ok, bd, d) ->
  ok = smem i (elements t) /\
  (ok = false -> bd = true /\ t' = t) /\
  (ok = true -> avl t' /\ elements t' = sdel i (elements t) /\
                height t' = height t - (if bd then 0 else 1)).
Proof.
  induction t as [|id l IHl v b r IHr]; intros t' ok bd d Ha Hb.
  - simpl. intro H. injection H as ? ? ? ?; subst. repeat split; auto; discriminate.
  - simpl in Ha. destruct Ha as (Hl & Hr & Hbal & Hrng).
    apply bst_node in Hb. destruct Hb as (Hbl & Hbr & Hlv & Hvr).
    pose proof (height_nonneg l) as Hnl. pose proof (height_nonneg r) as Hnr.
    change (elements (N id l v b r)) with (elements l ++ v :: elements r).
    change (height (N id l v b r)) with (1 + Z.max (height l) (height r)).
    destruct (Z.lt_trichotomy i v) as [Hiv|[Hiv|Hiv]].
    + (* left *)
      rewrite (del_N_lt i id l v b r Hiv).
      rewrite (smem_node_lt i _ v _ Hiv Hvr), (sdel_node_lt i _ v _ Hiv Hvr).
      destruct (del i l) as [[[l' ok1] bd1] d1] eqn:Ed.
      destruct (IHl _ _ _ _ Hl Hbl eq_refl) as (Hok & Hno & Hyes). clear IHl IHr.
      cbv zeta. destruct ok1.
      * destruct (Hyes eq_refl) as (Hl' & Hel & Hh). destruct bd1.
        { intro H. injection H as ? ? ? ?; subst ok t' bd d.
          split; [exact Hok|]. split; [discriminate|]. intros _.
          simpl. rewrite Hel. repeat split; auto; lia. }
        pose proof (balance1_spec id l' v b r Hl' Hr Hrng ltac:(lia)) as (B1 & B2 & B3).
        destruct (balance1 (N id l' v b r)) as [t2 bd2]. simpl fst in *; simpl snd in *.
        intro H. injection H as ? ? ? ?; subst ok t' bd d.
        split; [exact Hok|]. split; [discriminate|]. intros _.
        split; [exact B1|]. split; [rewrite B2, Hel; reflexivity|].
        rewrite B3. destruct bd2; lia.
      * destruct (Hno eq_refl) as [-> ->].
        intro H. injection H as ? ? ? ?; subst ok t' bd d.
        split; [exact Hok|]. split; [auto|discriminate].
    + (* found *)
      subst i. rewrite smem_node_eq, (sdel_node_eq v _ _ Hlv).
      destruct (tree_E_dec l) as [El|El]; destruct (tree_E_dec r) as [Er|Er].
      * subst l r. rewrite del_N_eq_EE. intro H. injection H as ? ? ? ?; subst.
        split; [reflexivity|]. split; [discriminate|]. intros _. simpl. repeat split; auto.
      * subst l. rewrite (del_N_eq_ER id v b r Er). intro H. injection H as ? ? ? ?; subst.
        split; [reflexivity|]. split; [discriminate|]. intros _. simpl in *. repeat split; auto; lia.
      * subst r. rewrite (del_N_eq_LE id l v b El). intro H. injection H as ? ? ? ?; subst.
        split; [reflexivity|]. split; [discriminate|]. intros _. simpl in *.
        rewrite app_nil_r. repeat split; auto; lia.
      * rewrite (del_N_eq_LR id l v b r El Er).
        destruct (delmax l) as [[[l' mi] mv] bd1] eqn:Ed.
        destruct (delmax_spec l l' mi mv bd1 El Hl Ed) as (Hl' & Hel & Hh).
        cbv zeta. destruct bd1.
        { intro H. injection H as ? ? ? ?; subst ok t' bd d.
          split; [reflexivity|]. split; [discriminate|]. intros _.
          simpl. rewrite Hel, <- app_assoc. simpl. repeat split; auto; lia. }
        pose proof (balance1_spec mi l' mv b r Hl' Hr Hrng ltac:(lia)) as (B1 & B2 & B3).
        destruct (balance1 (N mi l' mv b r)) as [t2 bd2]. simpl fst in *; simpl snd in *.
        intro H. injection H as ? ? ? ?; subst ok t' bd d.
        split; [reflexivity|]. split; [discriminate|]. intros _.
        split; [exact B1|]. split; [rewrite B2, Hel, <- app_assoc; reflexivity|].
        rewrite B3. destruct bd2; lia.
    + (* right *)
      rewrite (del_N_gt i id l v b r Hiv).
      rewrite (smem_node_gt i _ v _ Hiv Hlv), (sdel_node_gt i _ v _ Hiv Hlv).
      destruct (del i r) as [[[r' ok1] bd1] d1] eqn:Ed.
      destruct (IHr _ _ _ _ Hr Hbr eq_refl) as (Hok & Hno & Hyes). clear IHl IHr.
      cbv zeta. destruct ok1.
      * destruct (Hyes eq_refl) as (Hr' & Hel & Hh). destruct bd1.
        { intro H. injection H as ? ? ? ?; subst ok t' bd d.
          split; [exact Hok|]. split; [discriminate|]. intros _.
          simpl. rewrite Hel. repeat split; auto; lia. }
        pose proof (balance2_spec id l v b r' Hl Hr' Hrng ltac:(lia)) as (B1 & B2 & B3).
        destruct (balance2 (N id l v b r')) as [t2 bd2]. simpl fst in *; simpl snd in *.
        intro H. injection H as ? ? ? ?; subst ok t' bd d.
        split; [exact Hok|]. split; [discriminate|]. intros _.
        split; [exact B1|]. split; [rewrite B2, Hel; reflexivity|].
        rewrite B3. destruct bd2; lia.
      * destruct (Hno eq_refl) as [-> ->].
        intro H. injection H as ? ? ? ?; subst ok t' bd d.
        split; [exact Hok|]. split; [auto|discriminate].
Qed.

(* ---- T3: delete refines sdel, reports membership, keeps bst + avl -------- *)
Lemma del_refines_lemma : forall i t,
  avl t -> bst t ->
  let '(t', ok, bd, d) := del i t in
  let t'' := if ok then t' else t in
  avl t'' /\ bst t'' /\ ok = smem i (elements t) /\
  elements t'' = sdel i (elements t) /\
  height t'' = height t - (if ok && negb bd then 1 else 0).
Proof.
  intros i t Ha Hb.
  destruct (del i t) as [[[t' ok] bd] d] eqn:Ed.
  destruct (del_spec i t t' ok bd d Ha Hb Ed) as (Hok & Hno & Hyes).
  cbv zeta. destruct ok.
  - destruct (Hyes eq_refl) as (A1 & A2 & A3).
    split; [exact A1|]. split; [unfold bst; rewrite A2; apply sdel_sset; exact Hb|].
    split; [exact Hok|]. split; [exact A2|]. rewrite A3. destruct bd; reflexivity.
  - destruct (Hno eq_refl) as [-> ->].
    split; [exact Ha|]. split; [exact Hb|]. split; [exact Hok|].
    split; [symmetry; apply sdel_notin; auto|]. simpl. lia.
Qed.
