(* Executable sanity tests of the C19 specification against the model
   (tests, not proofs: they guard the statements in Props.v against typos). *)
From Coq Require Import ZArith List Bool.
From ADV Require Import C19.Model C19.Spec.
Import ListNotations.
Open Scope Z_scope.

Definition agree (ops : list op) : bool :=
  let a := map (fun p => proj (fst p) (snd p)) (combine ops (run init ops)) in
  let b := arun ainit ops in
  let e (x y : aout) := let '(f1, v1, l1) := x in let '(f2, v2, l2) := y in
     Bool.eqb f1 f2 && (v1 =? v2) && (if list_eq_dec Z.eq_dec l1 l2 then true else false) in
  (fix go a b := match a, b with [], [] => true | x :: a', y :: b' => e x y && go a' b' | _, _ => false end) a b.

Example t1 : agree [Ins 0 5; Ins 0 3; Ins 0 8; Ins 0 1; Ins 0 4; Ins 0 7; Ins 0 9; Ins 0 2; Ins 0 6;
  ItBegin 0; Next 0; Del 0 2; Next 0; Del 0 5; Ins 0 10; Next 0; Next 0; Clone 0; Del 1 7; ItFrom 1 6; Next 1;
  Next 0; Next 0; Next 0; Next 0; Next 0; Next 0; Elems 0; Elems 1; FindLE 0 5; Find 0 5; Find 1 6; ItClone 0; Next 2] = true.
Proof. vm_compute. reflexivity. Qed.
