(* C19 — statement level: rotateRL (ModelH) is protRL (ModelP). *)
From Coq Require Import ZArith List Bool Lia.
From ADV Require Import C19.Model C19.ModelP C19.ModelW C19.ModelH C19.ProofsH1.
Import ListNotations.
Open Scope Z_scope.

Lemma rotateRL_exec : forall f fl h io i1 i2 a1r v1 b1 p1 a2l v2 b2 p2 a2r vo bo po objl,
  let t := PN io objl vo bo po (PN i1 (PN i2 a2l v2 b2 p2 a2r) v1 b1 p1 a1r) in
  NoDup (pids t) -> rep h t ->
  exists s', run_method (4 + f) MRotRL (Some io) None fl h = Some s' /\ rep (sh s') (protRL t) /\
     (forall a, ~ In a (pids t) -> sh s' a = h a) /\ sf s' = fl.
Proof.
  intros f fl h io i1 i2 a1r v1 b1 p1 a2l v2 b2 p2 a2r vo bo po objl t ND R. subst t.
  pose proof (NoDup_cntl _ ND) as C. clear ND.
  destruct a1r as [|ka al av ab ap ar]; destruct a2l as [|kb bl bv bb bp br];
  destruct a2r as [|kc cl0 cv0 cb0 cp0 cr0]; destruct objl as [|kd dl dv db dp dr];
  rep_split; unfold run_method; cbn [body plus]; rewrite exec_S; unfold rotateRL_body;
  ne_tops h C; rot_finish_b h C.
Qed.
